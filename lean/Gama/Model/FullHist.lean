/-
  C04 round 3 — the full solvers across `reset(A', b')` with ANOTHER input.

  `AdjBaseFull::reset` stores the two pointers and clears `is_solved`; `AdjSVD::reset` also calls
  `svd.reset(A)` (`decomposed = 0`; `U_ = A`; `W_`, `V_`, `inv_W_` re-dimensioned iff the shape
  changed).  Everything else survives physically and is state of the machines of Model/FullState.lean:
    chol  `minx_t`, `minx_i[0..minx_n)` — incl. the list 1..N' that `solve()` built for an EARLIER
          size N' (rebuilt iff `minx_n != N`), `x`, `r`, `G`, `Q0`, `mat` (ghosts `dec`, `gprov`:
          "computed from the current data");
    gso   `icgs.min_x_use_all`, `icgs.minx` (refilled by `icgs2()` whenever "all"), the work array;
    svd   `minx`, `list_min`, `minV` (assigned at the next decomposition with defect > 0, read only
          under `decomposed && defect != 0`), `defect` (read only under `decomposed`), `x`, `r`.
  The current input is part of the state here; `resetNew inp'` is `reset` with the facts of the new
  input.  `fresetKeep` / `sresetKeep` are VARIANTS without the flag-clearing step (witnesses).
  Core Lean only.
-/
import Gama.Model.FullState
namespace Gama.C04.Full
open Gama Gama.C04

/-- `reset(A, b)` of chol/gso (what `step … .reset` does; it looks neither at the kind nor at the input) -/
def freset (s : FState) : FState := { s with solved := false, dec := false, gprov := .unset }

/-- `AdjSVD::reset(A, b)` -/
def sreset (s : SState) : SState :=
  { s with solved := false, decomposed := false, defKnown := false, minVok := false,
           vprov := .unset, xprov := .unset, haveX := false }

/-- variant: `is_solved` is not cleared (the artefacts are those of the old data: ghosts invalidated) -/
def fresetKeep (s : FState) : FState := { s with dec := false, gprov := .unset }

/-- variant: `AdjSVD::reset` without `svd.reset(A)` — `decomposed` stays set over the old decomposition -/
def sresetKeep (s : SState) : SState :=
  { s with solved := false, defKnown := false, minVok := false, vprov := .unset, xprov := .unset, haveX := false }

structure HF where
  inp : Input
  s : FState

structure HS where
  inp : Input
  s : SState

inductive HOp
  | q (op : Op)
  | resetNew (inp' : Input)

def hfstepWith (rst : FState → FState) (k : Kind) (h : HF) : HOp → HF × Out
  | .q op => (⟨h.inp, (step k h.inp h.s op).1⟩, (step k h.inp h.s op).2)
  | .resetNew inp' => (⟨inp', rst h.s⟩, .ok)

def hfrunWith (rst : FState → FState) (k : Kind) (h : HF) : List HOp → HF
  | [] => h
  | o :: os => hfrunWith rst k (hfstepWith rst k h o).1 os

def hfstep : Kind → HF → HOp → HF × Out := hfstepWith freset
def hfrun : Kind → HF → List HOp → HF := hfrunWith freset

def hsstepWith (rst : SState → SState) (h : HS) : HOp → HS × Out
  | .q op => (⟨h.inp, (sstep h.inp h.s op).1⟩, (sstep h.inp h.s op).2)
  | .resetNew inp' => (⟨inp', rst h.s⟩, .ok)

def hsrunWith (rst : SState → SState) (h : HS) : List HOp → HS
  | [] => h
  | o :: os => hsrunWith rst (hsstepWith rst h o).1 os

def hsstep : HS → HOp → HS × Out := hsstepWith sreset
def hsrun : HS → List HOp → HS := hsrunWith sreset

end Gama.C04.Full
