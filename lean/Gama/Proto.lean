/-
  Line protocol helpers shared by all drivers (core Lean only).

  Tokens are separated by single blanks.  A double crosses the protocol as
  `0x` + 16 hex digits (its IEEE bit pattern); an exact rational as `p/q`
  (or `p`); naturals/integers in decimal.
-/
import Gama.Scalar
namespace Gama.Proto

def hexDigit? (c : Char) : Option Nat :=
  if '0' ≤ c ∧ c ≤ '9' then some (c.toNat - '0'.toNat)
  else if 'a' ≤ c ∧ c ≤ 'f' then some (c.toNat - 'a'.toNat + 10)
  else if 'A' ≤ c ∧ c ≤ 'F' then some (c.toNat - 'A'.toNat + 10)
  else none

def hexNat? (cs : List Char) : Option Nat :=
  if cs.isEmpty then none else
  cs.foldlM (fun acc c => (hexDigit? c).map (fun d => acc * 16 + d)) 0

def hexOfNat (n : Nat) (width : Nat) : String :=
  let digs := (Nat.toDigits 16 n)
  String.ofList (List.replicate (width - digs.length) '0' ++ digs)

/-- `0x3ff0000000000000` ↦ bits -/
def bits? (s : String) : Option UInt64 :=
  match s.toList with
  | '0' :: 'x' :: rest => (hexNat? rest).map (fun n => UInt64.ofNat n)
  | _ => none

def float? (s : String) : Option Float := (bits? s).map Float.ofBits
def showFloat (x : Float) : String := "0x" ++ hexOfNat x.toBits.toNat 16

def int? (s : String) : Option Int := s.toInt?
def nat? (s : String) : Option Nat := s.toNat?

/-- exact value of a finite double given by its bits -/
def ratOfBits (b : UInt64) : Option Rat :=
  let n : Nat := b.toNat
  let neg : Bool := n / 2^63 = 1
  let e : Nat := (n / 2^52) % 2048
  let m : Nat := n % 2^52
  let mk (num den : Nat) : Rat :=
    let r : Rat := (num : Rat) / (den : Rat)
    if neg then -r else r
  if e = 2047 then none
  else if e = 0 then some (mk m (2^1074))
  else if e ≥ 1075 then some (mk ((m + 2^52) * 2^(e - 1075)) 1)
  else some (mk (m + 2^52) (2^(1075 - e)))

/-- a rational token: hex double (converted exactly), `p/q` or `p` -/
def rat? (s : String) : Option Rat :=
  match bits? s with
  | some b => ratOfBits b
  | none =>
    match s.splitOn "/" with
    | [p] => p.toInt?.map (fun i => (i : Rat))
    | [p, q] => do
        let pi ← p.toInt?
        let qn ← q.toNat?
        if qn = 0 then none else some ((pi : Rat) / (qn : Rat))
    | _ => none

def showRat (r : Rat) : String :=
  if r.den = 1 then toString r.num else toString r.num ++ "/" ++ toString r.den

def tokens (line : String) : List String :=
  (line.trimAscii.toString.splitOn " ").filter (· ≠ "")

/-- scalar types that can cross the protocol -/
class Wire (K : Type) where
  parse : String → Option K
  render : K → String

instance : Wire Float := ⟨float?, showFloat⟩
instance : Wire Rat := ⟨rat?, showRat⟩

def parseAll {K} [Wire K] (ts : List String) : Option (List K) := ts.mapM Wire.parse
def renderAll {K} [Wire K] (xs : List K) : String := " ".intercalate (xs.map Wire.render)

/-- generic stdin → stdout loop with a state.  A line `case <i>` is echoed and
    resets the state to `init`, so that cases are independent of each other. -/
partial def loop {σ : Type} (step : σ → String → σ × String) (init : σ) : IO Unit := do
  let h ← IO.getStdin
  let out ← IO.getStdout
  let rec go (s : σ) : IO Unit := do
    let line ← h.getLine
    if line.isEmpty then out.flush; return ()
    if line.startsWith "case " then
      out.putStrLn line.trimAscii.toString
      go init
    else
      let (s', o) := step s line
      if o ≠ "" then out.putStrLn o
      go s'
  go init

end Gama.Proto
