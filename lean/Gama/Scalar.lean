/-
  Scalar signature shared by all numeric models.

  Numeric models are written once over `[Scalar K]` and used three ways:
  * `Scalar Float`  – executed next to the C++ (`Float` is the C `double`);
  * `Scalar Rat`    – exact execution of the square-root-free kernels;
  * proofs          – over a linearly ordered field via `Gama.LawfulScalar`
                      (in `Gama/Lemmas/ScalarLaws.lean`, which may import Mathlib).

  This file is core Lean only, so that drivers link as `lean_exe`.
-/
namespace Gama

class Scalar (K : Type) extends Add K, Sub K, Mul K, Div K, Neg K, Zero K, One K, LT K, LE K where
  sqrt   : K → K
  ofNat  : Nat → K
  /-- literal `m * 10^(-e)` (or `m * 10^e` when `s = false`) as `OfScientific` -/
  ofSci  : Nat → Bool → Nat → K
  decLt  : (a b : K) → Decidable (a < b)
  decLe  : (a b : K) → Decidable (a ≤ b)
  /-- the C++ `==` on the scalar type (IEEE `==` at `Float`) -/
  beq    : K → K → Bool
  abs    : K → K

instance {K : Type} [Scalar K] (a b : K) : Decidable (a < b) := Scalar.decLt a b
instance {K : Type} [Scalar K] (a b : K) : Decidable (a ≤ b) := Scalar.decLe a b

namespace Scalar
variable {K : Type} [Scalar K]
def ofInt (i : Int) : K := if i < 0 then - (ofNat i.natAbs : K) else ofNat i.natAbs
def max (a b : K) : K := if a < b then b else a
def min (a b : K) : K := if b < a then b else a
end Scalar

instance : Scalar Float where
  sqrt := Float.sqrt
  ofNat := Float.ofNat
  ofSci := fun m s e => OfScientific.ofScientific m s e
  decLt := fun a b => inferInstanceAs (Decidable (a < b))
  decLe := fun a b => inferInstanceAs (Decidable (a ≤ b))
  beq := fun a b => a == b
  abs := Float.abs

/-- `Rat` has no square root: `sqrt` is a marker that must never be reached by a
    kernel instantiated at `Rat` (drivers only instantiate sqrt-free kernels). -/
instance : Scalar Rat where
  sqrt := fun x => x   -- never used; see docstring
  ofNat := fun n => (n : Rat)
  ofSci := fun m s e => OfScientific.ofScientific m s e
  decLt := fun a b => inferInstanceAs (Decidable (a < b))
  decLe := fun a b => inferInstanceAs (Decidable (a ≤ b))
  beq := fun a b => a == b
  abs := fun x => if x < 0 then -x else x

end Gama
