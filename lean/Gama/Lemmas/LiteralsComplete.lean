/-
  Completeness of the numeric-literal recognisers (Model/Literals.lean): every string of the
  documented format is accepted.  Together with the soundness lemmas of Lemmas/Literals.lean this
  gives `isFloat s = true ↔ FloatLang s`, `isInteger s = true ↔ IntLang s`,
  `toIndex s = some v ↔ IndexLang s v` for ALL strings (induction on the scanners, no enumeration).
-/
import Gama.Lemmas.Literals
namespace Gama.Lit

/-! ### character classes are disjoint -/

theorem isSpace_cases {c : Char} (h : isSpace c = true) :
    c = ' ' ∨ c = '\t' ∨ c = '\n' ∨ c = '\x0b' ∨ c = '\x0c' ∨ c = '\r' := by
  simpa only [isSpace, Bool.or_eq_true, beq_iff_eq, or_assoc] using h

theorem isSign_cases {c : Char} (h : isSign c = true) : c = '+' ∨ c = '-' := by
  simpa only [isSign, Bool.or_eq_true, beq_iff_eq] using h

theorem isExp_cases {c : Char} (h : isExp c = true) : c = 'e' ∨ c = 'E' := by
  simpa only [isExp, Bool.or_eq_true, beq_iff_eq] using h

theorem isDigit_not_space {c : Char} (h : isDigit c = true) : isSpace c = false := by
  cases hs : isSpace c with
  | false => rfl
  | true =>
    rcases isSpace_cases hs with rfl | rfl | rfl | rfl | rfl | rfl <;> exact absurd h (by decide)

theorem isDigit_not_sign {c : Char} (h : isDigit c = true) : isSign c = false := by
  cases hs : isSign c with
  | false => rfl
  | true => rcases isSign_cases hs with rfl | rfl <;> exact absurd h (by decide)

theorem isSign_not_space {c : Char} (h : isSign c = true) : isSpace c = false := by
  rcases isSign_cases h with rfl | rfl <;> decide

theorem isSign_not_digit {c : Char} (h : isSign c = true) : isDigit c = false := by
  rcases isSign_cases h with rfl | rfl <;> decide

theorem isExp_not_space {c : Char} (h : isExp c = true) : isSpace c = false := by
  rcases isExp_cases h with rfl | rfl <;> decide

theorem isExp_not_digit {c : Char} (h : isExp c = true) : isDigit c = false := by
  rcases isExp_cases h with rfl | rfl <;> decide

theorem isExp_not_sign {c : Char} (h : isExp c = true) : isSign c = false := by
  rcases isExp_cases h with rfl | rfl <;> decide

theorem isExp_ne_dot {c : Char} (h : isExp c = true) : c ≠ '.' := by
  rcases isExp_cases h with rfl | rfl <;> decide

/-! ### the scanners on a concatenation -/

def NoSpace (l : List Char) : Prop := ∀ c ∈ l, isSpace c = false

theorem allDigit_nil : AllDigit [] := by intro c hc; cases hc

theorem skipWs_append_allSpace (ws r : List Char) (h : AllSpace ws) : skipWs (ws ++ r) = skipWs r := by
  induction ws with
  | nil => rfl
  | cons c cs ih =>
    have hc : isSpace c = true := h c (List.mem_cons_self ..)
    have hcs : AllSpace cs := fun x hx => h x (List.mem_cons_of_mem _ hx)
    rw [List.cons_append, skipWs, if_pos hc]
    exact ih hcs

theorem skipWs_cons_nonspace (c : Char) (cs : List Char) (h : isSpace c = false) :
    skipWs (c :: cs) = c :: cs := by
  rw [skipWs, if_neg (by rw [h]; exact Bool.false_ne_true)]

theorem dropBack_allSpace (ws : List Char) (h : AllSpace ws) : dropBack ws = [] := by
  induction ws with
  | nil => rfl
  | cons c cs ih =>
    have hc : isSpace c = true := h c (List.mem_cons_self ..)
    have hcs : AllSpace cs := fun x hx => h x (List.mem_cons_of_mem _ hx)
    rw [dropBack, ih hcs]
    simp only [hc, if_true]

/-- trailing blanks are dropped, nothing else (no blank inside `t`) -/
theorem dropBack_noSpace_append (t ws : List Char) (ht : NoSpace t) (h : AllSpace ws) :
    dropBack (t ++ ws) = t := by
  induction t with
  | nil => exact dropBack_allSpace ws h
  | cons c cs ih =>
    have hc : isSpace c = false := ht c (List.mem_cons_self ..)
    have hcs : NoSpace cs := fun x hx => ht x (List.mem_cons_of_mem _ hx)
    rw [List.cons_append, dropBack, ih hcs]
    cases cs with
    | nil => simp only [hc]; rfl
    | cons a as => rfl

/-- `TrimWhiteSpaces` returns the blank-free core of `ws* t ws*` -/
theorem trim_eq (ws1 t ws2 : List Char) (h1 : AllSpace ws1) (h2 : AllSpace ws2) (ht : NoSpace t) :
    trim (ws1 ++ (t ++ ws2)) = t := by
  unfold trim
  rw [skipWs_append_allSpace _ _ h1]
  cases t with
  | nil =>
    rw [List.nil_append]
    obtain ⟨ws, hws, _⟩ := skipWs_decomp ws2
    have : AllSpace (skipWs ws2) := by
      intro c hc; apply h2 c; rw [hws]; exact List.mem_append_right _ hc
    exact dropBack_allSpace _ this
  | cons c cs =>
    rw [List.cons_append, skipWs_cons_nonspace _ _ (ht c (List.mem_cons_self ..)), ← List.cons_append]
    exact dropBack_noSpace_append _ _ ht h2

theorem skipDigits_append_allDigit (ds r : List Char) (h : AllDigit ds) :
    skipDigits (ds ++ r) = skipDigits r := by
  induction ds with
  | nil => rfl
  | cons c cs ih =>
    have hc : isDigit c = true := h c (List.mem_cons_self ..)
    have hcs : AllDigit cs := fun x hx => h x (List.mem_cons_of_mem _ hx)
    rw [List.cons_append, skipDigits, if_pos hc]
    exact ih hcs

theorem skipDigits_cons_nondigit (c : Char) (cs : List Char) (h : isDigit c = false) :
    skipDigits (c :: cs) = c :: cs := by
  rw [skipDigits, if_neg (by rw [h]; exact Bool.false_ne_true)]

theorem skipDigits_allDigit (ds : List Char) (h : AllDigit ds) : skipDigits ds = [] := by
  have := skipDigits_append_allDigit ds [] h
  rwa [List.append_nil] at this

theorem skipSign_cons_sign (c : Char) (cs : List Char) (h : isSign c = true) : skipSign (c :: cs) = cs := by
  rw [skipSign, if_pos h]

theorem skipSign_cons_nonsign (c : Char) (cs : List Char) (h : isSign c = false) :
    skipSign (c :: cs) = c :: cs := by
  rw [skipSign, if_neg (by rw [h]; exact Bool.false_ne_true)]

/-- `[+-]?` in front of something that does not start with a sign is exactly what `skipSign` removes -/
theorem skipSign_signOpt_append (sg r : List Char) (h : SignOpt sg) (hr : skipSign r = r) :
    skipSign (sg ++ r) = r := by
  rcases h with rfl | rfl | rfl
  · exact hr
  · exact skipSign_cons_sign _ _ (by decide)
  · exact skipSign_cons_sign _ _ (by decide)

theorem allDigits_complete (l : List Char) (h : AllDigit l) : allDigits l = true := by
  induction l with
  | nil => rfl
  | cons c cs ih =>
    rw [allDigits, h c (List.mem_cons_self ..), ih (fun x hx => h x (List.mem_cons_of_mem _ hx))]
    rfl

theorem signOpt_noSpace {sg : List Char} (h : SignOpt sg) : NoSpace sg := by
  rcases h with rfl | rfl | rfl <;> intro c hc
  · cases hc
  · rcases List.mem_singleton.mp hc with rfl; decide
  · rcases List.mem_singleton.mp hc with rfl; decide

theorem allDigit_noSpace {ds : List Char} (h : AllDigit ds) : NoSpace ds :=
  fun c hc => isDigit_not_space (h c hc)

theorem noSpace_append {a b : List Char} (ha : NoSpace a) (hb : NoSpace b) : NoSpace (a ++ b) := by
  intro c hc
  rcases List.mem_append.mp hc with h | h
  · exact ha c h
  · exact hb c h

theorem expOpt_noSpace {ex : List Char} (h : ExpOpt ex) : NoSpace ex := by
  rcases h with rfl | ⟨c, sg, ds, hc, hsg, hds, _, rfl⟩
  · intro c hc; cases hc
  · intro x hx
    rcases List.mem_cons.mp hx with rfl | hx
    · exact isExp_not_space hc
    · exact noSpace_append (signOpt_noSpace hsg) (allDigit_noSpace hds) x hx

theorem floatCore_noSpace {t : List Char} (h : FloatCore t) : NoSpace t := by
  obtain ⟨sg, d1, dot, d2, ex, rfl, hsg, hd1, hdot, hd2, _, hex⟩ := h
  have hd : NoSpace dot := by
    rcases hdot with rfl | rfl <;> intro c hc
    · cases hc
    · rcases List.mem_singleton.mp hc with rfl; decide
  exact noSpace_append (signOpt_noSpace hsg) (noSpace_append (allDigit_noSpace hd1)
    (noSpace_append hd (noSpace_append (allDigit_noSpace hd2) (expOpt_noSpace hex))))

theorem floatCore_ne_nil {t : List Char} (h : FloatCore t) : t ≠ [] := by
  obtain ⟨sg, d1, dot, d2, ex, rfl, _, _, _, _, hdig, _⟩ := h
  intro hn
  have h1 := (List.append_eq_nil_iff.mp hn).2
  have h2 := (List.append_eq_nil_iff.mp h1)
  have h3 := (List.append_eq_nil_iff.mp h2.2).2
  have h4 := (List.append_eq_nil_iff.mp h3).1
  rcases hdig with h | h
  · exact h h2.1
  · exact h h4

/-! ### the exponent part -/

theorem expPart_complete (ex : List Char) (h : ExpOpt ex) : expPart ex = true := by
  rcases h with rfl | ⟨c, sg, ds, hc, hsg, hds, hne, rfl⟩
  · rfl
  · cases ds with
    | nil => exact absurd rfl hne
    | cons d ds =>
      have hd : isDigit d = true := hds d (List.mem_cons_self ..)
      have hss : skipSign (sg ++ d :: ds) = d :: ds :=
        skipSign_signOpt_append _ _ hsg (skipSign_cons_nonsign _ _ (isDigit_not_sign hd))
      have hsd : skipDigits (d :: ds) = [] := skipDigits_allDigit _ hds
      have hcons : ∃ a as, sg ++ d :: ds = a :: as := by
        cases sg with
        | nil => exact ⟨d, ds, rfl⟩
        | cons a as => exact ⟨a, as ++ d :: ds, rfl⟩
      obtain ⟨a, as, hcons⟩ := hcons
      rw [hcons] at hss ⊢
      simp only [expPart, hc, hss, hsd, Bool.not_true, Bool.false_eq_true, if_false, List.isEmpty_nil]

theorem skipDigits_expOpt {ex : List Char} (h : ExpOpt ex) : skipDigits ex = ex := by
  rcases h with rfl | ⟨c, sg, ds, hc, _, _, _, rfl⟩
  · rfl
  · exact skipDigits_cons_nondigit _ _ (isExp_not_digit hc)

/-! ### `IsFloat` -/

/-- the optional decimal point of `IsFloat` -/
def afterDot : List Char → List Char
  | '.' :: r => r
  | r => r

theorem floatBody_eq' (t : List Char) :
    floatBody t =
      (let t1 := skipSign t
       let t2 := skipDigits t1
       let t3 := afterDot t2
       let t4 := skipDigits t3
       let dd := decide (t2.length < t1.length) || decide (t4.length < t3.length)
       if t4.isEmpty then dd else if expPart t4 then dd else false) := rfl

theorem afterDot_expOpt {ex : List Char} (h : ExpOpt ex) : afterDot ex = ex := by
  rcases h with rfl | ⟨c, sg, ds, hc, _, _, _, rfl⟩
  · rfl
  · unfold afterDot
    split
    · rename_i heq
      exact absurd (List.cons.inj heq).1 (isExp_ne_dot hc)
    · rfl

/-- the tail `if t4.isEmpty then dd else if expPart t4 then dd else false` with a correct exponent -/
theorem floatTail (ex : List Char) (dd : Bool) (h : ExpOpt ex) :
    (if ex.isEmpty then dd else if expPart ex then dd else false) = dd := by
  rw [expPart_complete ex h]; simp only [if_true, ite_self]

/-- `[+-]? d+ exp?` -/
theorem floatBody_nodot (sg D ex : List Char) (hsg : SignOpt sg) (hD : AllDigit D) (hne : D ≠ [])
    (hex : ExpOpt ex) : floatBody (sg ++ (D ++ ex)) = true := by
  cases D with
  | nil => exact absurd rfl hne
  | cons d ds =>
    have hd : isDigit d = true := hD d (List.mem_cons_self ..)
    have h1 : skipSign (sg ++ (d :: ds ++ ex)) = d :: ds ++ ex :=
      skipSign_signOpt_append _ _ hsg (skipSign_cons_nonsign _ _ (isDigit_not_sign hd))
    have h2 : skipDigits (d :: ds ++ ex) = ex := by
      rw [skipDigits_append_allDigit _ _ hD, skipDigits_expOpt hex]
    rw [floatBody_eq']
    simp only [h1, h2, afterDot_expOpt hex, skipDigits_expOpt hex]
    rw [floatTail ex _ hex]
    simp only [List.length_append, List.length_cons, Bool.or_eq_true, decide_eq_true_eq]
    left; omega

/-- `[+-]? d* '.' d* exp?` with at least one digit -/
theorem floatBody_dot (sg d1 d2 ex : List Char) (hsg : SignOpt sg) (hd1 : AllDigit d1) (hd2 : AllDigit d2)
    (hne : d1 ≠ [] ∨ d2 ≠ []) (hex : ExpOpt ex) :
    floatBody (sg ++ (d1 ++ ('.' :: (d2 ++ ex)))) = true := by
  have hns : skipSign (d1 ++ ('.' :: (d2 ++ ex))) = d1 ++ ('.' :: (d2 ++ ex)) := by
    cases d1 with
    | nil => exact skipSign_cons_nonsign _ _ (by decide)
    | cons d ds =>
      exact skipSign_cons_nonsign _ _ (isDigit_not_sign (hd1 d (List.mem_cons_self ..)))
  have h1 := skipSign_signOpt_append sg _ hsg hns
  have h2 : skipDigits (d1 ++ ('.' :: (d2 ++ ex))) = '.' :: (d2 ++ ex) := by
    rw [skipDigits_append_allDigit _ _ hd1]; exact skipDigits_cons_nondigit _ _ (by decide)
  have h3 : afterDot ('.' :: (d2 ++ ex)) = d2 ++ ex := rfl
  have h4 : skipDigits (d2 ++ ex) = ex := by
    rw [skipDigits_append_allDigit _ _ hd2, skipDigits_expOpt hex]
  rw [floatBody_eq']
  simp only [h1, h2, h3, h4]
  rw [floatTail ex _ hex]
  simp only [List.length_append, List.length_cons, Bool.or_eq_true, decide_eq_true_eq]
  rcases hne with h | h
  · left; have := List.length_pos_iff.mpr h; omega
  · right; have := List.length_pos_iff.mpr h; omega

theorem floatBody_complete (t : List Char) (h : FloatCore t) : floatBody t = true := by
  obtain ⟨sg, d1, dot, d2, ex, rfl, hsg, hd1, hdot, hd2, hdig, hex⟩ := h
  rcases hdot with rfl | rfl
  · have hD : AllDigit (d1 ++ d2) := by
      intro c hc
      rcases List.mem_append.mp hc with h | h
      · exact hd1 c h
      · exact hd2 c h
    have hne : d1 ++ d2 ≠ [] := by
      intro hn
      rcases hdig with h | h
      · exact h (List.append_eq_nil_iff.mp hn).1
      · exact h (List.append_eq_nil_iff.mp hn).2
    have := floatBody_nodot sg (d1 ++ d2) ex hsg hD hne hex
    rwa [List.nil_append, ← List.append_assoc d1 d2 ex]
  · exact floatBody_dot sg d1 d2 ex hsg hd1 hd2 hdig hex

/-- every string of the documented float format is accepted by `IsFloat` -/
theorem isFloat_complete (s : List Char) (h : FloatLang s) : isFloat s = true := by
  obtain ⟨ws1, t, ws2, rfl, h1, h2, hc⟩ := h
  unfold isFloat
  rw [trim_eq ws1 t ws2 h1 h2 (floatCore_noSpace hc)]
  cases t with
  | nil => exact absurd rfl (floatCore_ne_nil hc)
  | cons c cs => exact floatBody_complete _ hc

/-- `IsFloat` accepts exactly `ws* [+-]? (d+ ('.' d*)? | '.' d+) ([eE][+-]?d+)? ws*` -/
theorem isFloat_iff (s : List Char) : isFloat s = true ↔ FloatLang s :=
  ⟨isFloat_sound s, isFloat_complete s⟩

/-- the format in its textbook shape: mantissa `d+ ('.' d*)?` or `'.' d+` -/
def Mantissa (m : List Char) : Prop :=
  (∃ d1 d2, AllDigit d1 ∧ d1 ≠ [] ∧ AllDigit d2 ∧ (m = d1 ∨ m = d1 ++ '.' :: d2)) ∨
  (∃ d2, AllDigit d2 ∧ d2 ≠ [] ∧ m = '.' :: d2)

/-- `FloatCore` (written `[+-]? d* '.'? d* exp?` with a digit) is the textbook
    `[+-]? (d+ ('.' d*)? | '.' d+) exp?` -/
theorem floatCore_iff_mantissa (t : List Char) :
    FloatCore t ↔ ∃ sg m ex, t = sg ++ (m ++ ex) ∧ SignOpt sg ∧ Mantissa m ∧ ExpOpt ex := by
  constructor
  · rintro ⟨sg, d1, dot, d2, ex, rfl, hsg, hd1, hdot, hd2, hdig, hex⟩
    have hD : AllDigit (d1 ++ d2) := by
      intro c hc
      rcases List.mem_append.mp hc with h | h
      · exact hd1 c h
      · exact hd2 c h
    rcases hdot with rfl | rfl
    · refine ⟨sg, d1 ++ d2, ex, by simp only [List.nil_append, List.append_assoc], hsg, ?_, hex⟩
      left
      refine ⟨d1 ++ d2, [], hD, ?_, allDigit_nil, Or.inl rfl⟩
      intro hn
      rcases hdig with h | h
      · exact h (List.append_eq_nil_iff.mp hn).1
      · exact h (List.append_eq_nil_iff.mp hn).2
    · refine ⟨sg, d1 ++ '.' :: d2, ex, by simp only [List.append_assoc, List.cons_append, List.nil_append], hsg, ?_, hex⟩
      by_cases h1 : d1 = []
      · subst h1
        right
        exact ⟨d2, hd2, by rcases hdig with h | h; exact absurd rfl h; exact h, rfl⟩
      · left; exact ⟨d1, d2, hd1, h1, hd2, Or.inr rfl⟩
  · rintro ⟨sg, m, ex, rfl, hsg, hm, hex⟩
    rcases hm with ⟨d1, d2, hd1, hne, hd2, hm | hm⟩ | ⟨d2, hd2, hne, hm⟩
    · rw [hm]
      exact ⟨sg, d1, [], [], ex, by simp only [List.nil_append], hsg, hd1, Or.inl rfl,
        allDigit_nil, Or.inl hne, hex⟩
    · subst hm
      exact ⟨sg, d1, ['.'], d2, ex, by simp only [List.append_assoc, List.cons_append, List.nil_append],
        hsg, hd1, Or.inr rfl, hd2, Or.inl hne, hex⟩
    · subst hm
      exact ⟨sg, [], ['.'], d2, ex, by simp only [List.cons_append, List.nil_append],
        hsg, allDigit_nil, Or.inr rfl, hd2, Or.inr hne, hex⟩

/-! ### `IsInteger` -/

/-- the language of `IsInteger` as a function of the guard after the sign:
    `ws* [+-]? d+ ws*` when a lone sign is refused, else `ws* [+-]? d* ws*` and not blank -/
def IntLangOf (rej : Bool) (s : List Char) : Prop :=
  ∃ ws1 sg ds ws2, s = ws1 ++ (sg ++ ds ++ ws2) ∧ AllSpace ws1 ∧ AllSpace ws2 ∧ SignOpt sg ∧ AllDigit ds ∧
    sg ++ ds ≠ [] ∧ (rej = true → ds ≠ [])

/-- `ws* [+-]? d+ ws*` (the documented integer format; a lone sign is NOT in the language) -/
def IntLang (s : List Char) : Prop :=
  ∃ ws1 sg ds ws2, s = ws1 ++ (sg ++ ds ++ ws2) ∧ AllSpace ws1 ∧ AllSpace ws2 ∧ SignOpt sg ∧ AllDigit ds ∧
    ds ≠ []

theorem intLangOf_true_iff (s : List Char) : IntLangOf true s ↔ IntLang s := by
  constructor
  · rintro ⟨ws1, sg, ds, ws2, h, a1, a2, hsg, hds, _, hne⟩
    exact ⟨ws1, sg, ds, ws2, h, a1, a2, hsg, hds, hne rfl⟩
  · rintro ⟨ws1, sg, ds, ws2, h, a1, a2, hsg, hds, hne⟩
    refine ⟨ws1, sg, ds, ws2, h, a1, a2, hsg, hds, ?_, fun _ => hne⟩
    intro hn; exact hne (List.append_eq_nil_iff.mp hn).2

theorem intLangOf_false_iff (s : List Char) : IntLangOf false s ↔ IntLangLoose s := by
  constructor
  · rintro ⟨ws1, sg, ds, ws2, h, a1, a2, hsg, hds, hne, _⟩
    exact ⟨ws1, sg, ds, ws2, h, a1, a2, hsg, hds, hne⟩
  · rintro ⟨ws1, sg, ds, ws2, h, a1, a2, hsg, hds, hne⟩
    exact ⟨ws1, sg, ds, ws2, h, a1, a2, hsg, hds, hne, fun h => by cases h⟩

/-- `isInteger` with the generated flag made a parameter -/
def isIntegerOf (rej : Bool) (s : List Char) : Bool :=
  match trim s with
  | [] => false
  | t =>
    let r := skipSign t
    if rej && r.isEmpty then false else allDigits r

theorem isInteger_eq (s : List Char) : isInteger s = isIntegerOf Gkf.intLoneSignRejected s := rfl

theorem isIntegerOf_sound (rej : Bool) (s : List Char) (h : isIntegerOf rej s = true) : IntLangOf rej s := by
  obtain ⟨ws1, ws2, h1, a1, a2⟩ := trim_decomp s
  unfold isIntegerOf at h
  split at h
  · cases h
  · rename_i hne
    obtain ⟨sg, hsg, hsg'⟩ := skipSign_decomp (trim s)
    simp only at h
    split at h
    · cases h
    · rename_i hg
      refine ⟨ws1, sg, skipSign (trim s), ws2, by rw [← hsg]; exact h1, a1, a2, hsg', allDigits_sound _ h, ?_, ?_⟩
      · rw [← hsg]; exact hne
      · intro hr hnil
        apply hg
        rw [hr, hnil]; rfl

theorem isIntegerOf_complete (rej : Bool) (s : List Char) (h : IntLangOf rej s) : isIntegerOf rej s = true := by
  obtain ⟨ws1, sg, ds, ws2, rfl, a1, a2, hsg, hds, hne, hrej⟩ := h
  have hns : NoSpace (sg ++ ds) := noSpace_append (signOpt_noSpace hsg) (allDigit_noSpace hds)
  have hss : skipSign (sg ++ ds) = ds := by
    apply skipSign_signOpt_append _ _ hsg
    cases ds with
    | nil => rfl
    | cons d ds => exact skipSign_cons_nonsign _ _ (isDigit_not_sign (hds d (List.mem_cons_self ..)))
  unfold isIntegerOf
  rw [trim_eq ws1 (sg ++ ds) ws2 a1 a2 hns]
  generalize ht : sg ++ ds = t at hne hss
  cases t with
  | nil => exact absurd rfl hne
  | cons c cs =>
    simp only [hss]
    rw [allDigits_complete ds hds]
    cases rej with
    | false => rfl
    | true =>
      have : ds ≠ [] := hrej rfl
      cases ds with
      | nil => exact absurd rfl this
      | cons d ds => rfl

theorem isIntegerOf_iff (rej : Bool) (s : List Char) : isIntegerOf rej s = true ↔ IntLangOf rej s :=
  ⟨isIntegerOf_sound rej s, isIntegerOf_complete rej s⟩

/-- `IsInteger` accepts exactly the language selected by the guard read from the source -/
theorem isInteger_iff_flag (s : List Char) : isInteger s = true ↔ IntLangOf Gkf.intLoneSignRejected s :=
  isIntegerOf_iff _ s

/-- the current source refuses a lone sign (`if (b == e) return false;` after the sign): `IsInteger` accepts
    exactly `ws* [+-]? d+ ws*`.  Breaks (on purpose) if the generated flag changes. -/
theorem isInteger_iff (s : List Char) : isInteger s = true ↔ IntLang s := by
  have hflag : Gkf.intLoneSignRejected = true := by unfold Gkf.intLoneSignRejected; rfl
  rw [isInteger_iff_flag, hflag]
  exact intLangOf_true_iff s

/-! ### `CoreParser::toIndex` -/

theorem toIndex_complete (s : List Char) (v : Nat) (h : IndexLang s v) (hv : v < dblOverflow) : toIndex s = some v := by
  obtain ⟨ws1, ds, ws2, rfl, a1, a2, hds, hne, rfl⟩ := h
  have hall : (ws1 ++ (ds ++ ws2)).all (fun c => isSpace c || isDigit c) = true := by
    rw [List.all_eq_true]
    intro c hc
    rcases List.mem_append.mp hc with h | h
    · rw [a1 c h]; rfl
    · rcases List.mem_append.mp h with h | h
      · rw [hds c h]; exact Bool.or_true _
      · rw [a2 c h]; rfl
  have hf : isFloat (ws1 ++ (ds ++ ws2)) = true := by
    apply isFloat_complete
    refine ⟨ws1, ds, ws2, rfl, a1, a2, [], ds, [], [], [], ?_, Or.inl rfl, hds, Or.inl rfl,
      allDigit_nil, Or.inl hne, Or.inl rfl⟩
    simp only [List.nil_append, List.append_nil]
  unfold toIndex
  have ht := trim_eq ws1 ds ws2 a1 a2 (allDigit_noSpace hds)
  rw [if_pos hall, ht, if_pos (by rw [hf]; simpa using hv)]

set_option exponentiation.threshold 2048 in
/-- the literal in Model/Literals.lean is DBL_MAX + half an ulp -/
theorem dblOverflow_eq : dblOverflow = 2 ^ 1024 - 2 ^ 970 := by decide +kernel

/-- an accepted index is below the overflow threshold of `atof` (`toDouble` demands `std::isfinite`) -/
theorem toIndex_lt (s : List Char) (v : Nat) (h : toIndex s = some v) : v < dblOverflow := by
  unfold toIndex at h
  split at h
  · split at h
    · rename_i hf0
      cases h
      have h0 := hf0
      simp only [Bool.and_eq_true, decide_eq_true_eq] at h0
      exact h0.2
    · cases h
  · cases h

/-- `toIndex` accepts exactly `ws* d+ ws*` whose value `atof` keeps finite, and returns the digits read in base 10 -/
theorem toIndex_iff (s : List Char) (v : Nat) : toIndex s = some v ↔ IndexLang s v ∧ v < dblOverflow :=
  ⟨fun h => ⟨toIndex_sound s v h, toIndex_lt s v h⟩, fun h => toIndex_complete s v h.1 h.2⟩

end Gama.Lit
