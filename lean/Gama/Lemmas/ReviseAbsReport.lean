/-
  C14 round 7 — the absolute-term stage: what it removes is what the program lists (`absRows` =
  the rows of "Outlying absolute terms"; `removed_obs_` after the next `revision_observations()`),
  and the input with the excluded items deleted is stable under the stage.
-/
import Gama.Lemmas.ReviseDelete
import Gama.Lemmas.ReviseView
namespace Gama.Rev
variable {K : Type}

/-! ### generic list facts -/

theorem zip_map_zip {α β γ : Type} (f : α × β → γ) : ∀ (l : List α) (v : List β),
    l.zip ((l.zip v).map f) = (l.zip v).map (fun q => (q.1, f q))
  | [], _ => by simp
  | _ :: _, [] => by simp
  | a :: l, b :: v => by simp [zip_map_zip f l v]

theorem zipIdx_filter_map {α β : Type} (p : α → Bool) (g : α → β) : ∀ (l : List α) (k : Nat),
    ((l.zipIdx k).filter (fun q => p q.1)).map (fun q => g q.1) = (l.filter p).map g
  | [], _ => by simp
  | a :: l, k => by
    simp only [List.zipIdx_cons, List.filter_cons]
    cases h : p a <;> simp [zipIdx_filter_map p g l (k + 1)]

theorem dropFlagged_zip {α β : Type} : ∀ (l : List α) (v : List β) (fl : List Bool),
    (dropFlagged l fl).zip (dropFlagged v fl) = dropFlagged (l.zip v) fl
  | [], _, _ => by simp [dropFlagged]
  | _ :: _, [], _ => by simp [dropFlagged]
  | _ :: _, _ :: _, [] => by simp [dropFlagged]
  | a :: l, b :: v, f :: fl => by
    rw [List.zip_cons_cons, dropFlagged_cons, dropFlagged_cons, dropFlagged_cons]
    cases f
    · simp [dropFlagged_zip l v fl]
    · simp [dropFlagged_zip l v fl]

theorem dropFlagged_zipWith {α β γ : Type} (f : α → β → γ) : ∀ (l : List α) (v : List β) (fl : List Bool),
    dropFlagged (List.zipWith f l v) fl = List.zipWith f (dropFlagged l fl) (dropFlagged v fl)
  | [], _, _ => by simp [dropFlagged]
  | _ :: _, [], _ => by simp [dropFlagged]
  | _ :: _, _ :: _, [] => by simp [dropFlagged]
  | a :: l, b :: v, f' :: fl => by
    rw [List.zipWith_cons_cons, dropFlagged_cons, dropFlagged_cons, dropFlagged_cons]
    cases f'
    · simp [dropFlagged_zipWith f l v fl]
    · simp [dropFlagged_zipWith f l v fl]

theorem mem_dropFlagged {α : Type} (l : List α) (fl : List Bool) (a : α) (h : a ∈ dropFlagged l fl) : a ∈ l := by
  unfold dropFlagged at h
  obtain ⟨q, hq, rfl⟩ := List.mem_map.mp h
  exact (List.of_mem_zip (List.mem_filter.mp hq).1).1

theorem mem_zip_drop {α β : Type} (B : List α) : ∀ (A : List α) (v : List β) (q : α × β),
    q ∈ B.zip (v.drop A.length) → q ∈ (A ++ B).zip v
  | [], _, _, h => by simpa using h
  | _ :: _, [], _, h => by simp at h
  | a :: A, b :: v, q, h => by
    simp only [List.length_cons, List.drop_succ_cons] at h
    simp only [List.cons_append, List.zip_cons_cons, List.mem_cons]
    exact Or.inr (mem_zip_drop B A v q h)

theorem mem_zip_prefix {α β : Type} (B : List α) : ∀ (A : List α) (v : List β) (q : α × β),
    q ∈ A.zip v → q ∈ (A ++ B).zip v
  | [], _, _, h => by simp at h
  | _ :: _, [], _, h => by simp at h
  | a :: A, b :: v, q, h => by
    simp only [List.zip_cons_cons, List.mem_cons] at h
    simp only [List.cons_append, List.zip_cons_cons, List.mem_cons]
    rcases h with h | h
    · exact Or.inl h
    · exact Or.inr (mem_zip_prefix B A v q h)

/-! ### reporting of `revision_observations()` in general -/

theorem revisionObservations_reports (x : Net K) :
    let r := revisionObservations x
    (∀ c ∈ r.cls, ∀ o ∈ c.obs, o.active = false → o ∈ r.rejected) ∧
    (∀ c ∈ r.cls, ∀ o ∈ c.obs, o.active = true → o ∈ r.revised) ∧
    r.pocmer = r.revised.length ∧
    r.pocmer + r.rejected.length = (allObs r.cls).length ∧
    (∀ c ∈ r.cls, c.actObs = (c.obs.filter (·.active)).length) ∧
    r.revised = (allObs r.cls).filter (·.active) := by
  intro r
  refine ⟨fun c hc o ho h => ?_, fun c hc o ho h => ?_, rfl, length_filter_add _, fun c hc => ?_, rfl⟩
  · show o ∈ (allObs r.cls).filter (fun o => !o.active)
    exact List.mem_filter.mpr ⟨List.mem_flatMap.mpr ⟨c, hc, ho⟩, by simp [h]⟩
  · show o ∈ (allObs r.cls).filter (·.active)
    exact List.mem_filter.mpr ⟨List.mem_flatMap.mpr ⟨c, hc, ho⟩, by simp [h]⟩
  · have hc' : c ∈ x.cls.map (reviseCl x.pts) := hc
    obtain ⟨c0, _, rfl⟩ := List.mem_map.mp hc'
    rfl

/-- a passive observation goes through a revision unchanged -/
theorem reviseCl_passive_mem (pts : List (Pt K)) (c : Cluster K) (o : Obs K) (ho : o ∈ c.obs)
    (h : o.active = false) : o ∈ (reviseCl pts c).obs := by
  rw [reviseCl_obs]
  refine List.mem_map.mpr ⟨o, ho, ?_⟩
  have h1 : localRev pts o = o := by
    rcases o with ⟨ty, frm, t, fs, act, v⟩
    simp only at h
    subst h
    simp [localRev]
  have h2 : passDir o = o := by
    rcases o with ⟨ty, frm, t, fs, act, v⟩
    simp only at h
    subst h
    unfold passDir
    split <;> rfl
  split
  · rw [h1, h2]
  · rw [h1]

theorem revisionObservations_keeps_passive (x : Net K) (o : Obs K) (ho : o ∈ allObs x.cls)
    (h : o.active = false) : o ∈ (revisionObservations x).rejected := by
  obtain ⟨c, hc, hoc⟩ := List.mem_flatMap.mp ho
  show o ∈ (allObs (x.cls.map (reviseCl x.pts))).filter (fun o => !o.active)
  refine List.mem_filter.mpr ⟨List.mem_flatMap.mpr ⟨reviseCl x.pts c, List.mem_map_of_mem hc, ?_⟩, by simp [h]⟩
  exact reviseCl_passive_mem x.pts c o hoc h

/-! ### the absolute-term stage on the flattened observation list -/

section abs
variable [Scalar K]

theorem markObs_nil (pts : List (Pt K)) (tol : K) : ∀ os : List (Obs K), markObs pts tol os [] = (os, [])
  | [] => rfl
  | o :: os => by
    unfold markObs
    cases h : o.active
    · simp [markObs_nil pts tol os]
    · simp

theorem markObs_cons_passive (pts : List (Pt K)) (tol : K) (o : Obs K) (os : List (Obs K)) (v : List K)
    (h : o.active = false) :
    markObs pts tol (o :: os) v = (o :: (markObs pts tol os v).1, (markObs pts tol os v).2) := by
  simp [markObs, h]

theorem markObs_cons_active (pts : List (Pt K)) (tol : K) (o : Obs K) (os : List (Obs K)) (b : K) (v : List K)
    (h : o.active = true) :
    markObs pts tol (o :: os) (b :: v) =
      ((if outlying pts tol o b then { o with active := false } else o) :: (markObs pts tol os v).1,
       (markObs pts tol os v).2) := by
  simp [markObs, h]

theorem mem_zip_self {α : Type} : ∀ (l : List α) (q : α × α), q ∈ l.zip l → q.1 = q.2
  | [], _, h => by simp at h
  | a :: l, q, h => by
    simp only [List.zip_cons_cons, List.mem_cons] at h
    rcases h with rfl | h
    · rfl
    · exact mem_zip_self l q h

theorem markObs_append (pts : List (Pt K)) (tol : K) (b : List (Obs K)) : ∀ (a : List (Obs K)) (v : List K),
    markObs pts tol (a ++ b) v =
      ((markObs pts tol a v).1 ++ (markObs pts tol b (markObs pts tol a v).2).1,
       (markObs pts tol b (markObs pts tol a v).2).2)
  | [], v => by simp [markObs]
  | o :: a, v => by
    cases h : o.active
    · simp only [List.cons_append]
      rw [markObs_cons_passive _ _ _ _ _ h, markObs_cons_passive _ _ _ _ _ h, markObs_append pts tol b a v]
      simp
    · cases v with
      | nil =>
        simp only [List.cons_append]
        rw [markObs_nil, markObs_nil, markObs_nil]
        simp
      | cons bi v' =>
        simp only [List.cons_append]
        rw [markObs_cons_active _ _ _ _ _ _ h, markObs_cons_active _ _ _ _ _ _ h, markObs_append pts tol b a v']
        simp

/-- `markCls` threads the vector through the clusters exactly as `markObs` does on the concatenation -/
theorem allObs_markCls (pts : List (Pt K)) (tol : K) : ∀ (cs : List (Cluster K)) (v : List K),
    allObs (markCls pts tol cs v) = (markObs pts tol (allObs cs) v).1
  | [], v => by simp [markCls, allObs, markObs]
  | c :: cs, v => by
    have ih := allObs_markCls pts tol cs (markObs pts tol c.obs v).2
    unfold allObs at ih ⊢
    simp only [markCls, List.flatMap_cons]
    rw [markObs_append, ih]

/-- the observations the stage makes passive are the active ones whose entry is outlying, in order -/
theorem madePassive_markObs (pts : List (Pt K)) (tol : K) : ∀ (os : List (Obs K)) (v : List K),
    madePassive os (markObs pts tol os v).1 =
      (((os.filter (·.active)).zip v).filter (fun q => outlying pts tol q.1 q.2)).map
        (fun q => (q.1, { q.1 with active := false }))
  | [], v => by simp [madePassive, markObs]
  | o :: os, v => by
    cases h : o.active
    · rw [markObs_cons_passive _ _ _ _ _ h]
      have ih := madePassive_markObs pts tol os v
      unfold madePassive at ih ⊢
      simp [List.filter_cons, h, ih]
    · cases v with
      | nil =>
        rw [markObs_nil]
        unfold madePassive
        simp only [List.zip_nil_right, List.filter_nil, List.map_nil, List.filter_eq_nil_iff]
        intro q hq
        have : q.1 = q.2 := mem_zip_self _ q hq
        rw [this]
        cases q.2.active <;> simp
      | cons b v' =>
        rw [markObs_cons_active _ _ _ _ _ _ h]
        have ih := madePassive_markObs pts tol os v'
        unfold madePassive at ih ⊢
        simp only [List.zip_cons_cons, List.filter_cons, h, if_true]
        cases ho : outlying pts tol o b
        · simp [h, ih]
        · simp [h, ih]

/-- the rows of the printed table, without their numbers, are the active observations with an
    outlying entry (when the gate is open) -/
theorem absRows_obs (n : Net K) (tol : K) (rhs bh : List K) :
    (absRows n tol rhs bh).map (·.2) =
      if hugeFlag n tol rhs then
        ((n.revised.zip (consulted rhs bh)).filter (fun q => outlying n.pts tol q.1 q.2)).map (·.1)
      else [] := by
  unfold absRows
  split
  · rw [List.map_map]
    have h1 := zipIdx_filter_map (fun q : Obs K × K => truthy q.2) (fun q => q.1)
      (n.revised.zip (absTerms n tol rhs bh)) 1
    have : ((fun q : Nat × Obs K => q.2) ∘ fun q : (Obs K × K) × Nat => (q.2, q.1.1)) = fun q => q.1.1 := rfl
    rw [this, h1]
    unfold absTerms
    rw [zip_map_zip, List.filter_map, List.map_map]
    rfl
  · rfl

/-- if no active observation is paired with an outlying entry, the walk changes nothing and consumes
    one entry per active observation -/
theorem markObs_id (pts : List (Pt K)) (tol : K) : ∀ (os : List (Obs K)) (v : List K),
    (∀ q ∈ (os.filter (·.active)).zip v, outlying pts tol q.1 q.2 = false) →
    markObs pts tol os v = (os, v.drop (os.filter (·.active)).length)
  | [], v, _ => by simp [markObs]
  | o :: os, v, hq => by
    cases h : o.active
    · rw [markObs_cons_passive _ _ _ _ _ h]
      have hq' : ∀ q ∈ (os.filter (·.active)).zip v, outlying pts tol q.1 q.2 = false := by
        intro q hm; apply hq; simpa [List.filter_cons, h] using hm
      rw [markObs_id pts tol os v hq']
      simp [List.filter_cons, h]
    · cases v with
      | nil => rw [markObs_nil]; simp
      | cons b v' =>
        rw [markObs_cons_active _ _ _ _ _ _ h]
        have hb : outlying pts tol o b = false := hq (o, b) (by simp [List.filter_cons, h])
        have hq' : ∀ q ∈ (os.filter (·.active)).zip v', outlying pts tol q.1 q.2 = false := by
          intro q hm; apply hq; simp [List.filter_cons, h, hm]
        rw [markObs_id pts tol os v' hq']
        simp [hb, List.filter_cons, h]

theorem markCls_id (pts : List (Pt K)) (tol : K) : ∀ (cs : List (Cluster K)) (v : List K),
    (∀ q ∈ ((allObs cs).filter (·.active)).zip v, outlying pts tol q.1 q.2 = false) →
    markCls pts tol cs v = cs
  | [], _, _ => rfl
  | c :: cs, v, hq => by
    have hsplit : (allObs (c :: cs)).filter (·.active) = c.obs.filter (·.active) ++ (allObs cs).filter (·.active) := by
      simp [allObs, List.filter_append]
    rw [hsplit] at hq
    have h1 := markObs_id pts tol c.obs v (fun q hm => hq q (mem_zip_prefix _ _ _ q hm))
    rw [markCls, h1]
    simp only
    rw [markCls_id pts tol cs _ (fun q hm => hq q (mem_zip_drop _ _ _ q hm))]

/-- the verdict on one observation reads the points only through `PD[from]`, `PD[to]` -/
theorem outlying_congr_pts (P Q : List (Pt K)) (tol : K) (o : Obs K) (b : K)
    (h1 : findPt Q o.frm = findPt P o.frm) (h2 : findPt Q o.to = findPt P o.to ∨ o.ty = .x ∨ o.ty = .y ∨ o.ty = .z) :
    outlying Q tol o b = outlying P tol o b := by
  rcases h2 with h2 | h2 | h2 | h2
  · unfold outlying testAbsTerm misclosure absCtx
    rw [h1, h2]
  all_goals
    have hv : Gen.absValue o.ty (absCtx Q o b) = Gen.absValue o.ty (absCtx P o b) := by
      rw [h2]; simp only [Gen.absValue, absCtx, h1]
    unfold outlying testAbsTerm misclosure
    rw [hv]

/-- an observation that meets its requirements finds its end points among the points taking part -/
theorem ends_filter (P : List (Pt K)) (o : Obs K) (h : reqOk P o = true) :
    findPt (P.filter Pt.active) o.frm = findPt P o.frm ∧
    (findPt (P.filter Pt.active) o.to = findPt P o.to ∨ o.ty = .x ∨ o.ty = .y ∨ o.ty = .z) := by
  have hl := lookups_filter P o h
  rcases o with ⟨ty, frm, t, fs, act, v⟩
  cases ty <;> simp_all [Gen.requirements, Obs.roleId]

end abs

/-! ### flattened comparison of two states -/

theorem forall₂_allObs : ∀ {cs ds : List (Cluster K)}, List.Forall₂ ClLow cs ds →
    List.Forall₂ ObsLow (allObs cs) (allObs ds)
  | _, _, .nil => .nil
  | _, _, .cons h t => by
    unfold allObs
    simp only [List.flatMap_cons]
    exact List.rel_append h.2.2 (forall₂_allObs t)

/-- the observations still active `after` are the kept ones of those active `before` -/
theorem filter_active_low : ∀ {os qs : List (Obs K)}, List.Forall₂ ObsLow os qs →
    qs.filter (·.active) = dropFlagged (os.filter (·.active)) (droppedMask os qs)
  | _, _, .nil => by simp [dropFlagged]
  | _, _, @List.Forall₂.cons _ _ _ o q os qs hoq t => by
    have ih := filter_active_low t
    unfold droppedMask at ih ⊢
    cases hq : q.active
    · cases ho : o.active
      · simp [List.filter_cons, hq, ho, ih]
      · simp only [List.filter_cons, hq, ho, List.zip_cons_cons, if_true, List.map_cons, Bool.not_false,
          Bool.false_eq_true, if_false]
        rw [dropFlagged_cons]
        simpa using ih
    · have := hoq hq
      subst this
      simp only [List.filter_cons, hq, List.zip_cons_cons, if_true, List.map_cons, Bool.not_true]
      rw [dropFlagged_cons]
      simpa using ih

/-! ### (2) the absolute-term stage is reported -/

theorem madePassive_self (l : List (Obs K)) : madePassive l l = [] := by
  unfold madePassive
  rw [List.filter_eq_nil_iff]
  intro q hq
  rw [mem_zip_self l q hq]
  cases q.2.active <;> simp

theorem allObs_eq_flatten (cs : List (Cluster K)) : allObs cs = (cs.map (·.obs)).flatten := by
  unfold allObs
  rw [List.flatMap_def]

theorem flatten_keepCl : ∀ cs : List (Cluster K),
    (((cs.map keepCl).filter (fun c => !c.obs.isEmpty)).map (·.obs)).flatten = (allObs cs).filter (·.active)
  | [] => by simp [allObs]
  | c :: cs => by
    have ih := flatten_keepCl cs
    have hk := keepCl_obs c
    unfold allObs at ih ⊢
    simp only [List.map_cons, List.filter_cons, List.flatMap_cons, List.filter_append]
    cases he : (keepCl c).obs.isEmpty
    · simp only [Bool.not_false, if_true, List.map_cons, List.flatten_cons]
      rw [ih, hk]
    · simp only [Bool.not_true, Bool.false_eq_true, if_false]
      rw [ih]
      have : (keepCl c).obs = [] := List.isEmpty_iff.mp he
      rw [hk] at this
      rw [this]
      rfl

section abs2
variable [Scalar K]

theorem reported_abs (n : Net K) (tol : K) (rhs bh : List K) :
    madePassive (allObs (revise n).cls) (allObs (removeHuge (revise n) tol rhs bh).cls) =
      (absRows (revise n) tol rhs bh).map (fun q => (q.2, { q.2 with active := false })) ∧
    (∀ q ∈ absRows (revise n) tol rhs bh,
      ({ q.2 with active := false } : Obs K) ∈ (exclude n tol rhs bh).rejected) := by
  have h1 : madePassive (allObs (revise n).cls) (allObs (removeHuge (revise n) tol rhs bh).cls) =
      (absRows (revise n) tol rhs bh).map (fun q => (q.2, { q.2 with active := false })) := by
    have hr := absRows_obs (revise n) tol rhs bh
    have hm : (absRows (revise n) tol rhs bh).map (fun q => (q.2, ({ q.2 with active := false } : Obs K))) =
        ((absRows (revise n) tol rhs bh).map (·.2)).map (fun o => (o, { o with active := false })) := by
      rw [List.map_map]; rfl
    rw [hm, hr]
    unfold removeHuge removeHugeWith
    split
    · simp only
      rw [allObs_markCls, madePassive_markObs, List.map_map]
      rfl
    · rw [madePassive_self]; rfl
  refine ⟨h1, fun q hq => ?_⟩
  have hmem : (q.2, ({ q.2 with active := false } : Obs K)) ∈
      madePassive (allObs (revise n).cls) (allObs (removeHuge (revise n) tol rhs bh).cls) := by
    rw [h1]; exact List.mem_map.mpr ⟨q, hq, rfl⟩
  unfold madePassive at hmem
  have hz := (List.of_mem_zip (List.mem_filter.mp hmem).1).2
  exact revisionObservations_keeps_passive _ _ hz rfl

/-! ### (3) stability of the stage on the input with the excluded items deleted -/

/-- the observations that stay active through the stage (and through what follows) were not outlying -/
theorem kept_not_outlying (pts : List (Pt K)) (tol : K) : ∀ (os : List (Obs K)) (v : List K) (qs : List (Obs K)),
    List.Forall₂ ObsLow (markObs pts tol os v).1 qs →
    ∀ q ∈ dropFlagged ((os.filter (·.active)).zip v) (droppedMask os qs), outlying pts tol q.1 q.2 = false
  | [], v, qs, _, q, hq => by simp [dropFlagged] at hq
  | o :: os, v, qs, hf, q, hq => by
    cases h : o.active
    · rw [markObs_cons_passive _ _ _ _ _ h] at hf
      obtain ⟨q0, qs', _, ht, rfl⟩ := List.forall₂_cons_left_iff.mp hf
      have hm : droppedMask (o :: os) (q0 :: qs') = droppedMask os qs' := by
        unfold droppedMask; simp [List.filter_cons, h]
      rw [hm] at hq
      simp only [List.filter_cons, h, Bool.false_eq_true, if_false] at hq
      exact kept_not_outlying pts tol os v qs' ht q hq
    · cases v with
      | nil => simp [dropFlagged] at hq
      | cons b v' =>
        rw [markObs_cons_active _ _ _ _ _ _ h] at hf
        obtain ⟨q0, qs', h0, ht, rfl⟩ := List.forall₂_cons_left_iff.mp hf
        have hm : droppedMask (o :: os) (q0 :: qs') = (!q0.active) :: droppedMask os qs' := by
          unfold droppedMask; simp [List.filter_cons, h]
        rw [hm] at hq
        simp only [List.filter_cons, h, if_true, List.zip_cons_cons] at hq
        rw [dropFlagged_cons] at hq
        cases hq0 : q0.active
        · simp only [hq0, Bool.not_false, if_true] at hq
          exact kept_not_outlying pts tol os v' qs' ht q hq
        · simp only [hq0, Bool.not_true, Bool.false_eq_true, if_false, List.mem_cons] at hq
          rcases hq with rfl | hq
          · have he := h0 hq0
            cases ho : outlying pts tol o b
            · rfl
            · rw [ho] at he
              simp only [if_true] at he
              rw [he] at hq0
              simp at hq0
          · exact kept_not_outlying pts tol os v' qs' ht q hq

theorem removeHuge_deleted_stable (n : Net K) (tol : K) (rhs bh rhs' bh' : List K) :
    let s := revise n
    let r := exclude n tol rhs bh
    let d := deleteItems n (excluded r)
    let fl := droppedMask (allObs s.cls) (allObs r.cls)
    rhs' = dropFlagged rhs fl → consulted rhs' bh' = dropFlagged (consulted rhs bh) fl →
    (revise d).revised = dropFlagged s.revised fl ∧
    removeHuge (revise d) tol rhs' bh' = revise d := by
  intro s r d fl hrhs hcons
  have hd : d = deleteItems r (excluded r) := deleteItems_evolved n _ (evolved_exclude n tol rhs bh)
  have H := revise_deleteItems_self r (settled_exclude n tol rhs bh)
  simp only at H
  rw [← hd] at H
  obtain ⟨_, Hpts, Hobs, _, _⟩ := H
  have hdpts : d.pts = r.pts.filter Pt.active := by rw [hd, deleteItems_self]
  have hdcls : d.cls = (r.cls.map keepCl).filter (fun c => !c.obs.isEmpty) := by rw [hd, deleteItems_self]
  have hrpts : r.pts = s.pts := exclude_pts n tol rhs bh
  have hall : allObs (revise d).cls = (allObs r.cls).filter (·.active) := by
    rw [allObs_eq_flatten, Hobs, hdcls]; exact flatten_keepCl r.cls
  have hm : List.Forall₂ ObsLow (allObs (removeHuge s tol rhs bh).cls) (allObs r.cls) :=
    forall₂_allObs (forall₂_map_self _ _ _ (clLow_reviseCl _))
  have hlow : List.Forall₂ ObsLow (allObs s.cls) (allObs r.cls) :=
    forall₂_allObs (forall₂_trans' clLow_trans (clLow_removeHugeWith Gen.absVec s tol rhs bh)
      (forall₂_map_self _ _ _ (clLow_reviseCl _)))
  have hrev : (revise d).revised = dropFlagged s.revised fl := by
    show (allObs (revise d).cls).filter (·.active) = _
    rw [hall, List.filter_filter]
    simp only [Bool.and_self]
    exact filter_active_low hlow
  have hcongr : ∀ o ∈ (revise d).revised, ∀ b, outlying (revise d).pts tol o b = outlying s.pts tol o b := by
    intro o ho b
    have ho' : o ∈ (allObs (revise d).cls).filter (·.active) := ho
    rw [hall, List.filter_filter] at ho'
    simp only [Bool.and_self] at ho'
    obtain ⟨hor, hoa⟩ := List.mem_filter.mp ho'
    obtain ⟨c, hc, hoc⟩ := List.mem_flatMap.mp hor
    have hreq : reqOk r.pts o = true := ((settled_exclude n tol rhs bh).2 c hc).1 o hoc hoa
    rw [Hpts, hdpts]
    have he := ends_filter r.pts o hreq
    rw [outlying_congr_pts r.pts _ tol o b he.1 he.2, hrpts]
  refine ⟨hrev, ?_⟩
  unfold removeHuge removeHugeWith
  split
  · rename_i hg
    have hgs : hugeFlag s tol rhs = true := by
      unfold hugeFlag at hg ⊢
      rw [List.any_eq_true] at hg ⊢
      obtain ⟨q, hq, ho⟩ := hg
      have hq1 : q.1 ∈ (revise d).revised := (List.of_mem_zip hq).1
      rw [hrev, hrhs, dropFlagged_zip] at hq
      exact ⟨q, mem_dropFlagged _ _ _ hq, by rw [← hcongr q.1 hq1]; exact ho⟩
    have hcls : (removeHuge s tol rhs bh).cls = markCls s.pts tol s.cls (consulted rhs bh) := by
      unfold removeHuge removeHugeWith consulted
      rw [if_pos hgs]
    rw [hcls, allObs_markCls] at hm
    have hno : ∀ q ∈ ((allObs (revise d).cls).filter (·.active)).zip (consultedOf Gen.absVec rhs' bh'),
        outlying (revise d).pts tol q.1 q.2 = false := by
      intro q hq
      have hq1 : q.1 ∈ (revise d).revised := (List.of_mem_zip hq).1
      have hq' : q ∈ (revise d).revised.zip (consulted rhs' bh') := hq
      rw [hrev, hcons, dropFlagged_zip] at hq'
      rw [hcongr q.1 hq1]
      exact kept_not_outlying s.pts tol (allObs s.cls) (consulted rhs bh) (allObs r.cls) hm q hq'
    rw [markCls_id _ _ _ _ hno]
  · rfl

end abs2

end Gama.Rev
