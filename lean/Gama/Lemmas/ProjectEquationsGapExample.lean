/-
  PE ∘ netSolve — the evaluated witness of `Props/C01/ProjectEquationsGap.lean` (round 7).

  `netW`: levelling; `A` fixed (100 m), `B` constrained (110 m), `C` free (105 m); ONE cluster with the height
  differences `A→B = 10.01`, `B→C = −4.99`, `A→C = 5.03` (variances 1, 4, 1 mm², uncorrelated) and a switched-off
  fourth observation `C→A`; `m_0_apr_ = 2`; stale index fields of an earlier call (5 for `A.z`, 4 for `C.z`).
  Carrier ℚ as an ordered FIELD (`scalarOfField` with the partial square root `Ex.sqQ`, exact on 1/4 and 1 — the
  cofactors 1/4, 1, 1/4 are the only values whose root is taken by `prepare`, envelope and cholesky), arbitrary
  "trigonometric" functions (`tQ`; never evaluated by height differences).

  `projectEquations netW` returns `npW`: rows `[(1,1)]`, `[(1,−1),(2,1)]`, `[(2,1)]`, rhs `(10, 10, 30)` mm,
  `min_x_ = [1]`.  With `P = m0²·Σ⁻¹ = diag(4, 1, 4)`: `AᵀPA = [[5,−1],[−1,5]]`, `AᵀPb = (30, 130)`,
  `x = (35/3, 85/3)`, `r = A x − b = (5/3, 20/3, −5/3)`, `[pvv] = 200/3`.
-/
import Gama.Lemmas.ProjectEquationsGlue
import Gama.Lemmas.ProjectEquationsExample
import Gama.Lemmas.Ls.NetFacadeExample
import Gama.Lemmas.Ls.Gap2Facade
namespace Gama.PE.Ex
open Gama Gama.Lin Gama.PE Gama.Ls Gama.Ls.Net Gama.LS Matrix Gama.Ls.Ex
attribute [local instance 2000] scalarOfField

/-- constant "trigonometric" functions -/
def tQ : TrigFns ℚ := ⟨fun _ => 0, fun _ => 1, fun _ _ => 0, fun _ => 0, 3⟩

def netW : Net ℚ :=
  { points := [⟨"A", ⟨0, 0, 100, .unused, .fixed⟩⟩, ⟨"B", ⟨0, 0, 110, .unused, .constrained⟩⟩, ⟨"C", ⟨0, 0, 105, .unused, .free⟩⟩]
    clusters := [⟨none, ⟨4, 0, #[1, 4, 1, 9]⟩,
      [hd true 0 1 (1001/100), hd true 1 2 (-499/100), hd true 0 2 (503/100), hd false 2 0 (-5)]⟩]
    m0 := 2, xNorth := 0, fuel := 10
    idx := ⟨5, [(⟨0, .z⟩, 5), (⟨2, .z⟩, 4)]⟩ }

/-- what `project_equations()` hands to the solver for `netW` -/
def npW : NetProblem ℚ :=
  { m := 3, n := 2
    rows := #[#[(1, 1)], #[(1, -1), (2, 1)], #[(2, 1)]]
    rhs := #[10, 10, 30]
    clusters := [⟨⟨4, 0, #[1, 4, 1, 9]⟩, [true, true, true, false]⟩]
    m0 := 2
    minx := [1] }

/-- inverse of the covariance matrix `diag(1, 4, 1)` of the active observations -/
def PcW : Matrix (Fin (toProblem npW).m) (Fin (toProblem npW).m) ℚ :=
  (!![1, 0, 0; 0, 1/4, 0; 0, 0, 1] : Matrix (Fin 3) (Fin 3) ℚ)

/-- what is read off a result -/
def rd {β : Type} (f : NetProblem ℚ → Unknowns ℚ → β) (r : Except Err (NetProblem ℚ × Unknowns ℚ)) : Option β :=
  match r with
  | .ok (np, u) => some (f np u)
  | .error _ => none

theorem np_ext (np np' : NetProblem ℚ) (h1 : (np.m, np.n, np.minx, np.m0) = (np'.m, np'.n, np'.minx, np'.m0))
    (h2 : np.rows = np'.rows) (h3 : np.rhs = np'.rhs)
    (h4 : np.clusters.map (fun c => (c.cov.dim, c.cov.band, c.cov.buf, c.active))
      = np'.clusters.map (fun c => (c.cov.dim, c.cov.band, c.cov.buf, c.active))) : np = np' := by
  obtain ⟨m, n, rows, rhs, cl, m0, minx⟩ := np
  obtain ⟨m', n', rows', rhs', cl', m0', minx'⟩ := np'
  simp only [Prod.mk.injEq] at h1
  obtain ⟨e1, e2, e3, e4⟩ := h1
  simp only at h2 h3 h4
  subst e1 e2 e3 e4 h2 h3
  have : cl = cl' := by
    refine List.map_injective_iff.mpr ?_ h4
    intro c c' hc
    obtain ⟨⟨d, b, bf⟩, a⟩ := c
    obtain ⟨⟨d', b', bf'⟩, a'⟩ := c'
    simp only [Prod.mk.injEq] at hc
    obtain ⟨rfl, rfl, rfl, rfl⟩ := hc
    rfl
  subst this
  rfl

/-- **the model returns `npW` on `netW`**, and no revised observation names one point twice -/
theorem netW_pe : ∃ u, @projectEquations ℚ (trigOfField tQ) netW = .ok (npW, u) ∧
    ∀ ob ∈ revisedObs u.net, NoAlias ob := by
  have k1 : rd (fun np _ => (np.m, np.n, np.minx, np.m0)) (@projectEquations ℚ (trigOfField tQ) netW)
      = some (npW.m, npW.n, npW.minx, npW.m0) := by decide +kernel
  have k2 : rd (fun np _ => np.rows) (@projectEquations ℚ (trigOfField tQ) netW) = some npW.rows := by decide +kernel
  have k3 : rd (fun np _ => np.rhs) (@projectEquations ℚ (trigOfField tQ) netW) = some npW.rhs := by decide +kernel
  have k4 : rd (fun np _ => np.clusters.map (fun c => (c.cov.dim, c.cov.band, c.cov.buf, c.active)))
      (@projectEquations ℚ (trigOfField tQ) netW)
      = some (npW.clusters.map (fun c => (c.cov.dim, c.cov.band, c.cov.buf, c.active))) := by decide +kernel
  have k5 : rd (fun _ u => (revisedObs u.net).all (fun ob => decide (NoAlias ob)))
      (@projectEquations ℚ (trigOfField tQ) netW) = some true := by decide +kernel
  cases h : @projectEquations ℚ (trigOfField tQ) netW with
  | error e => rw [h] at k1; cases k1
  | ok r =>
    obtain ⟨np, u⟩ := r
    rw [h] at k1 k2 k3 k4 k5
    simp only [rd, Option.some.injEq] at k1 k2 k3 k4 k5
    have e := np_ext np npW k1 k2 k3 k4
    subst e
    refine ⟨u, rfl, ?_⟩
    intro ob hob
    exact of_decide_eq_true (List.all_eq_true.mp k5 ob hob)

theorem npW_sigma : Sigma npW * PcW = 1 := by
  show (Sigma npW * PcW : Matrix (Fin 3) (Fin 3) ℚ) = 1
  decide +kernel

/-- the matrices of `npW` at their literal dimensions -/
def AW : Matrix (Fin 3) (Fin 2) ℚ := (toProblem npW).A
def PW : Matrix (Fin 3) (Fin 3) ℚ := (npW.m0 * npW.m0) • PcW
def bW : Fin 3 → ℚ := (toProblem npW).b
def SW : Finset (Fin 2) := (toProblem npW).S

theorem npW_A : AW = !![1, 0; -1, 1; 0, 1] := by decide +kernel
theorem npW_P : PW = !![4, 0, 0; 0, 1, 0; 0, 0, 4] := by decide +kernel
theorem npW_b : bW = ![10, 10, 30] := by decide +kernel

theorem AW_ker (g : Fin 2 → ℚ) (hg : AW *ᵥ g = 0) : g = 0 := by
  rw [npW_A] at hg
  have h0 := congrFun hg 0
  have h2 := congrFun hg 2
  simp [Matrix.mulVec, dotProduct, Fin.sum_univ_two] at h0 h2
  funext i
  fin_cases i
  · exact h0
  · exact h2

/-- the single numeric premise on `npW`, with the default `τ = 2⁻¹³`: the weighted quadratic form
    `5β₀² − 2β₀β₁ + 5β₁² ≥ 4(β₀² + β₁²)` is at least 4 whenever one `β` is 1, and `ker A = 0` -/
theorem npW_rankgap : RankGap (toProblem npW).A ((npW.m0 * npW.m0) • PcW) (toProblem npW).S (1 / 8192) := by
  show RankGap AW PW SW (1 / 8192)
  have hq : ∀ β : Fin 2 → ℚ, (AW *ᵥ β) ⬝ᵥ (PW *ᵥ (AW *ᵥ β))
      = 5 * (β 0 * β 0) - 2 * (β 0 * β 1) + 5 * (β 1 * β 1) := by
    intro β
    rw [npW_A, npW_P]
    simp [Matrix.mulVec, dotProduct, Fin.sum_univ_three, Fin.sum_univ_two]; ring
  constructor
  · intro k β hk _
    right
    rw [hq]
    have hk' : β 0 = 1 ∨ β 1 = 1 := by
      fin_cases k
      · exact Or.inl hk
      · exact Or.inr hk
    rcases hk' with h | h <;> nlinarith [sq_nonneg (β 0 - β 1), sq_nonneg (β 0), sq_nonneg (β 1), sq_nonneg (β 0 + β 1)]
  · intro g hg hne
    exact absurd (AW_ker g hg) hne

/-- `netSolve` RUN on the output of `projectEquations`: envelope and cholesky -/
theorem npW_solve (alg : Alg) (halg : alg = .env ∨ alg = .chol) : ∃ a, netSolve alg npW = .ok a ∧
    a.x = #[35/3, 85/3] ∧ a.r = #[5/3, 20/3, -5/3] ∧ a.pvv = 200/3 := by
  rcases halg with rfl | rfl
  · have h : (netSolve .env npW).toOption.map (fun a => (a.x, a.r, a.pvv))
        = some (#[35/3, 85/3], #[5/3, 20/3, -5/3], 200/3) := by decide +kernel
    obtain ⟨a, h1, h2⟩ := ok_of_toOption h
    simp only [Prod.mk.injEq] at h2
    exact ⟨a, h1, h2.1, h2.2.1, h2.2.2⟩
  · have h : (netSolve .chol npW).toOption.map (fun a => (a.x, a.r, a.pvv))
        = some (#[35/3, 85/3], #[5/3, 20/3, -5/3], 200/3) := by decide +kernel
    obtain ⟨a, h1, h2⟩ := ok_of_toOption h
    simp only [Prod.mk.injEq] at h2
    exact ⟨a, h1, h2.1, h2.2.1, h2.2.2⟩

/-- the evaluated answer satisfies the conclusion of `C01_net_of_project_equations_gap` -/
theorem npW_isLS (a : NetAnswer ℚ) (hx : a.x = #[35/3, 85/3]) (hr : a.r = #[5/3, 20/3, -5/3]) (hp : a.pvv = 200/3) :
    IsLSSolution (toProblem npW).A (toProblem npW).b ((npW.m0 * npW.m0) • PcW) (toProblem npW).S
      (toVec (toProblem npW).n a.x) (toVec (toProblem npW).m a.r) a.pvv := by
  rw [hx, hr, hp]
  show IsLSSolution AW bW PW SW (toVec 2 #[35/3, 85/3]) (toVec 3 #[5/3, 20/3, -5/3]) (200/3)
  refine ⟨?_, ?_, ?_, ?_⟩
  · decide +kernel
  · decide +kernel
  · decide +kernel
  · intro g hg
    rw [AW_ker g hg]
    simp

end Gama.PE.Ex

/-! ### the same network with the OTHER datum: `B` free, `C` constrained (round 7, C08) -/

namespace Gama.PE.Ex
open Gama Gama.Lin Gama.PE Gama.Ls Gama.Ls.Net Gama.LS Matrix Gama.Ls.Ex
attribute [local instance 2000] scalarOfField

def netW' : Net ℚ :=
  { netW with points := [⟨"A", ⟨0, 0, 100, .unused, .fixed⟩⟩, ⟨"B", ⟨0, 0, 110, .unused, .free⟩⟩,
      ⟨"C", ⟨0, 0, 105, .unused, .constrained⟩⟩] }

/-- the model returns the SAME rows, right-hand sides, clusters and `m0` on `netW'`, with `min_x_ = [2]` -/
theorem netW'_pe : ∃ u, @projectEquations ℚ (trigOfField tQ) netW' = .ok ({ npW with minx := [2] }, u) ∧
    ∀ ob ∈ revisedObs u.net, NoAlias ob := by
  have k1 : rd (fun np _ => (np.m, np.n, np.minx, np.m0)) (@projectEquations ℚ (trigOfField tQ) netW')
      = some (npW.m, npW.n, [2], npW.m0) := by decide +kernel
  have k2 : rd (fun np _ => np.rows) (@projectEquations ℚ (trigOfField tQ) netW') = some npW.rows := by decide +kernel
  have k3 : rd (fun np _ => np.rhs) (@projectEquations ℚ (trigOfField tQ) netW') = some npW.rhs := by decide +kernel
  have k4 : rd (fun np _ => np.clusters.map (fun c => (c.cov.dim, c.cov.band, c.cov.buf, c.active)))
      (@projectEquations ℚ (trigOfField tQ) netW')
      = some (npW.clusters.map (fun c => (c.cov.dim, c.cov.band, c.cov.buf, c.active))) := by decide +kernel
  have k5 : rd (fun _ u => (revisedObs u.net).all (fun ob => decide (NoAlias ob)))
      (@projectEquations ℚ (trigOfField tQ) netW') = some true := by decide +kernel
  cases h : @projectEquations ℚ (trigOfField tQ) netW' with
  | error e => rw [h] at k1; cases k1
  | ok r =>
    obtain ⟨np, u⟩ := r
    rw [h] at k1 k2 k3 k4 k5
    simp only [rd, Option.some.injEq] at k1 k2 k3 k4 k5
    have e := np_ext np { npW with minx := [2] } k1 k2 k3 k4
    subst e
    refine ⟨u, rfl, ?_⟩
    intro ob hob
    exact of_decide_eq_true (List.all_eq_true.mp k5 ob hob)

/-- the two datum choices solved (cholesky on `[1]`, envelope on `[2]`): this network is regular, so even the unknowns
    coincide; residuals, `[pvv]`, defect equal -/
theorem npW_datum_pair : ∃ a a', netSolve .chol npW = .ok a ∧ netSolve .env { npW with minx := [2] } = .ok a' ∧
    a.r = a'.r ∧ a.pvv = a'.pvv ∧ a.defect = a'.defect := by
  have e1 : (netSolve .chol npW).toOption.map (fun a => (a.r, a.pvv, a.defect))
      = some (#[5/3, 20/3, -5/3], 200/3, 0) := by decide +kernel
  have e2 : (netSolve .env { npW with minx := [2] }).toOption.map (fun a => (a.r, a.pvv, a.defect))
      = some (#[5/3, 20/3, -5/3], 200/3, 0) := by decide +kernel
  obtain ⟨a, h1, h2⟩ := ok_of_toOption e1
  obtain ⟨a', h1', h2'⟩ := ok_of_toOption e2
  simp only [Prod.mk.injEq] at h2 h2'
  exact ⟨a, a', h1, h1', by rw [h2.1, h2'.1], by rw [h2.2.1, h2'.2.1], by rw [h2.2.2, h2'.2.2]⟩

end Gama.PE.Ex
