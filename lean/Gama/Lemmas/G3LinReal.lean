/-
  C19 — the generated g3 linearisation over ℝ: bridges to the hand-written row models of
  `Gama/Model/Neu.lean` (so that their theorems hold for the generated code), the observation
  functions, and "right-hand side = (observed − observation function) · scale".
-/
import Gama.Lemmas.G3LinShape
import Gama.Lemmas.NeuLemmas
import Mathlib.Analysis.SpecialFunctions.Complex.Arg
import Mathlib.Analysis.SpecialFunctions.Trigonometric.InverseDeriv
import Mathlib.Tactic.FieldSimp
import Mathlib.Tactic.Positivity

namespace Gama
namespace G3Lin
open Neu G3Book Gama.Gen.G3Lin

/-- ℝ as a `Trig` scalar (explicit, not an instance — as `Neu.realScalar`); `atan2 y x` is the
    argument of `x + i y` -/
@[reducible] noncomputable def realTrig : Trig ℝ :=
  { realSinCos with atan2 := fun y x => Complex.arg ⟨x, y⟩, acos := Real.arccos, pi := Real.pi }

/-- the point as the hand-written row models of `Neu` read it -/
def toPt (g : GPt ℝ) : Pt ℝ :=
  { X := g.X, Y := g.Y, Z := g.Z, R := g.R, H := g.H, geoid := g.geoid,
    freeH := g.sN.isFree && g.sE.isFree, freeU := g.sU.isFree,
    iN := @GPt.index ℝ g .N, iE := @GPt.index ℝ g .E, iU := @GPt.index ℝ g .U }

theorem gen_height_eq (P : Pts ℝ) (o : GObs ℝ) (tol : ℝ) :
    evalLin P (@height ℝ realTrig P o tol) = @linHeight ℝ realScalar (toPt (P .pt)) o.v1 := by
  simp [evalLin, evalRow, height, linHeight, GBlock.active, Guard.holds, toPt, GPt.modelHeight, Pt.modelHeight]
  rfl

theorem gen_hdiff_eq (P : Pts ℝ) (o : GObs ℝ) (tol : ℝ) :
    evalLin P (@hdiff ℝ realTrig P o tol) = @linHeightDiff ℝ realScalar (toPt (P .frm)) (toPt (P .to)) o.v1 := by
  simp [evalLin, evalRow, hdiff, linHeightDiff, GBlock.active, Guard.holds, toPt, GPt.modelHeight, Pt.modelHeight]
  rfl

theorem gen_xyz_eq (P : Pts ℝ) (o : GObs ℝ) (tol : ℝ) :
    evalLin P (@xyz ℝ realTrig P o tol) = @linXYZ ℝ realScalar (toPt (P .pt)) o.v1 o.v2 o.v3 tol := by
  simp [evalLin, evalRow, xyz, linXYZ, pointTriple, unitXYZ, gtAbs, GBlock.active, Guard.holds, toPt]
  exact ⟨⟨rfl, rfl, rfl⟩, rfl⟩

theorem gen_vector_eq (P : Pts ℝ) (o : GObs ℝ) (tol : ℝ) :
    evalLin P (@vector ℝ realTrig P o tol) =
      @linVector ℝ realScalar (toPt (P .frm)) (toPt (P .to)) o.v1 o.v2 o.v3 o.fromDh o.toDh tol := by
  simp [evalLin, evalRow, vector, linVector, pointTriple, unitXYZ, gtAbs, GBlock.active, Guard.holds, toPt,
    GPt.Xdh, GPt.Ydh, GPt.Zdh, Pt.Xdh, Pt.Ydh, Pt.Zdh]
  exact ⟨⟨rfl, rfl, rfl⟩, rfl⟩

theorem gen_distance_eq (P : Pts ℝ) (o : GObs ℝ) (tol : ℝ) :
    evalLin P (@distance ℝ realTrig P o tol) =
      @linDistance ℝ realScalar (toPt (P .frm)) (toPt (P .to)) o.v1 o.fromDh o.toDh tol := by
  cases hb : @Scalar.beq ℝ realScalar (@Scalar.sqrt ℝ realScalar
      (((P .to).X - (P .frm).X) * ((P .to).X - (P .frm).X) + ((P .to).Y - (P .frm).Y) * ((P .to).Y - (P .frm).Y) +
        ((P .to).Z - (P .frm).Z) * ((P .to).Z - (P .frm).Z))) 0 <;>
    simp [evalLin, evalRow, distance, linDistance, pointTriple, gtAbs, GBlock.active, Guard.holds, toPt,
      GPt.Xdh, GPt.Ydh, GPt.Zdh, Pt.Xdh, Pt.Ydh, Pt.Zdh, hb] <;> rfl

/-! ### observation functions (radians / metres) -/

/-- the angle between two vectors of ℝ³ -/
noncomputable def angle3 (a b : E3 ℝ) : ℝ :=
  Real.arccos ((a.e1 * b.e1 + a.e2 * b.e2 + a.e3 * b.e3) /
    Real.sqrt ((a.e1 * a.e1 + a.e2 * a.e2 + a.e3 * a.e3) * (b.e1 * b.e1 + b.e2 * b.e2 + b.e3 * b.e3)))

/-- `GNU_gama::angle` is `angle3`: the guard `if (c)` only skips a division of zero -/
theorem E3_angle_real (a b : E3 ℝ) : @E3.angle ℝ realTrig a b = angle3 a b := by
  unfold E3.angle angle3 E3.dot
  by_cases hc : a.e1 * b.e1 + a.e2 * b.e2 + a.e3 * b.e3 = 0
  · have : @Scalar.beq ℝ realScalar (a.e1 * b.e1 + a.e2 * b.e2 + a.e3 * b.e3) 0 = true := by
      show @decide _ (Classical.propDecidable _) = true
      simp [hc]
    simp only [this, if_true]
    rw [hc, zero_div]
    rfl
  · have : @Scalar.beq ℝ realScalar (a.e1 * b.e1 + a.e2 * b.e2 + a.e3 * b.e3) 0 = false := by
      show @decide _ (Classical.propDecidable _) = false
      simp [hc]
    simp only [this]
    rfl

/-- unit vector along the vertical of a point (astronomic latitude `B + dB`, longitude `L + dL`) -/
noncomputable def up (p : GPt ℝ) : E3 ℝ :=
  ⟨Real.cos (p.B + p.dB) * Real.cos (p.L + p.dL), Real.cos (p.B + p.dB) * Real.sin (p.L + p.dL), Real.sin (p.B + p.dB)⟩

/-- the instrument / target: the point raised by `dh` along its vertical -/
noncomputable def raised (p : GPt ℝ) (dh : ℝ) : E3 ℝ :=
  ⟨p.X + (up p).e1 * dh, p.Y + (up p).e2 * dh, p.Z + (up p).e3 * dh⟩

def vsub (a b : E3 ℝ) : E3 ℝ := ⟨a.e1 - b.e1, a.e2 - b.e2, a.e3 - b.e3⟩
def vcross (a b : E3 ℝ) : E3 ℝ :=
  ⟨a.e2 * b.e3 - b.e2 * a.e3, -a.e1 * b.e3 + b.e1 * a.e3, a.e1 * b.e2 - b.e1 * a.e2⟩
/-- `v / |v|` (`0` for `v = 0`, as coded: `if (q) q = 1/q`) -/
noncomputable def vunit (a : E3 ℝ) : E3 ℝ :=
  let q := 1 / Real.sqrt (a.e1 * a.e1 + a.e2 * a.e2 + a.e3 * a.e3)
  ⟨a.e1 * q, a.e2 * q, a.e3 * q⟩

/-- the line of sight instrument → target -/
noncomputable def sight (P : Pts ℝ) (o : GObs ℝ) : E3 ℝ := vsub (raised (P .to) o.toDh) (raised (P .frm) o.fromDh)

/-- zenith angle: the angle between the vertical at the instrument and the line of sight -/
noncomputable def zenithFn (P : Pts ℝ) (o : GObs ℝ) : ℝ := angle3 (up (P .frm)) (sight P o)

/-- the line of sight in the north-east-up frame of the station (geodetic `B`, `L`) -/
noncomputable def sightLocal (P : Pts ℝ) (o : GObs ℝ) : E3 ℝ :=
  @E3.inverse ℝ realScalar (frame (P .frm).B (P .frm).L) (sight P o)

/-- azimuth [rad]: the polar angle of the horizontal part of the line of sight, from north towards east -/
noncomputable def azimuthFn (P : Pts ℝ) (o : GObs ℝ) : ℝ :=
  Complex.arg ⟨(sightLocal P o).e1, (sightLocal P o).e2⟩

/-- horizontal angle: the angle between the vertical planes (normals `up × direction`) through the
    left and the right target -/
noncomputable def angleFn (P : Pts ℝ) (o : GObs ℝ) : ℝ :=
  angle3 (vcross (up (P .frm)) (vunit (vsub (raised (P .left) o.leftDh) (raised (P .frm) o.fromDh))))
         (vcross (up (P .frm)) (vunit (vsub (raised (P .right) o.rightDh) (raised (P .frm) o.fromDh))))

/-- spatial distance instrument → target -/
noncomputable def distanceFn (P : Pts ℝ) (o : GObs ℝ) : ℝ := dist3 (toPt (P .frm)) (toPt (P .to)) o.fromDh o.toDh

noncomputable def angScaleR : ℝ := 2000000 / Real.pi

theorem angScale_real : @angScale ℝ realTrig = angScaleR := by
  show ((2000000 : ℕ) : ℝ) / Real.pi = _
  unfold angScaleR; norm_num

theorem zenith_rhs (P : Pts ℝ) (o : GObs ℝ) (tol : ℝ) :
    (@zenith ℝ realTrig P o tol).rhs = [(o.v1 - zenithFn P o) * angScaleR] := by
  rw [← angScale_real, zenithFn, ← E3_angle_real]
  rfl

theorem azimuth_rhs (P : Pts ℝ) (o : GObs ℝ) (tol : ℝ) :
    (@azimuth ℝ realTrig P o tol).rhs = [o.v1 * Real.pi / 200 - azimuthFn P o] := by
  show [o.v1 * Real.pi / ((200 : ℕ) : ℝ) - azimuthFn P o] = _
  norm_num

theorem one_div_ite (q : ℝ) : (if (!@Scalar.beq ℝ realScalar q 0) = true then 1 / q else q) = 1 / q := by
  by_cases h : q = 0
  · subst h
    simp
  · have : @Scalar.beq ℝ realScalar q 0 = false := by
      show @decide _ (Classical.propDecidable _) = false
      simp [h]
    simp [this]

theorem angle_rhs (P : Pts ℝ) (o : GObs ℝ) (tol : ℝ) :
    (@angle ℝ realTrig P o tol).rhs = [(o.v1 - angleFn P o) * angScaleR] := by
  rw [← angScale_real, angleFn, ← E3_angle_real]
  simp only [angle, one_div_ite]
  rfl

end G3Lin
end Gama
