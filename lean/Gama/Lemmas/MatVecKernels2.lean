/-
  Source tie of the MATRIX-valued operator loops (round 10): `operator*(Mat,Mat)` (pointer version), the three
  TransMat products, `trans(TransMat)` — regenerated kernel = closed-form hand model, all operands.
-/
import Gama.Gen.MatVecKernels
import Gama.Lemmas.KernelLoopsNested
namespace Gama.MatVec
open Gama.Gen
variable {K : Type} [Add K] [Mul K] [Zero K]

/-- the common shape of the four products: rows `i` (pointer `ab += da` per row), cells `j` (`b = bb + j*sb`),
    inner accumulation with strides `ka`, `kb` -/
theorem prod_shape (A B : Array K) (n m l da sb ka kb : Nat) :
    (forE 1 n ((mkBuf (n * m) : Array K), 0, 0) fun i st => do
        let r ← forE 0 m (st.1, st.2.1) fun j st' => do
          let r ← forE 1 l ((0 : K), st.2.2, j * sb) fun k st'' => do
            let x ← mulRd A st''.2.1 B st''.2.2
            pure (st''.1 + x, st''.2.1 + ka, st''.2.2 + kb)
          let C ← wr st'.1 st'.2 r.1
          pure (C, st'.2 + 1)
        pure (r.1, r.2, st.2.2 + da))
      = tabulate (n * m) (fun p => sumLoop l (fun k => mulRd A (p / m * da + k * ka) B (p % m * sb + k * kb)))
          >>= fun a => pure (a, n * m, n * da) := by
  have inner : ∀ (ab j : Nat), forE 1 l ((0 : K), ab, j * sb) (fun k st'' => do
        let x ← mulRd A st''.2.1 B st''.2.2
        pure (st''.1 + x, st''.2.1 + ka, st''.2.2 + kb))
      = sumLoop l (fun k => mulRd A (ab + k * ka) B (j * sb + k * kb)) >>= fun s => pure (s, ab + l * ka, j * sb + l * kb) := by
    intro ab j
    have := forE_acc (K := K) 1 l (ab, j * sb) (fun _ t => mulRd A t.1 B t.2) (fun _ t => (t.1 + ka, t.2 + kb))
    simp only [walk_add2] at this
    exact this
  simp only [inner, bind_assoc, pure_bind]
  have hb : ∀ i (done : Array K) r (u : Nat), m ≤ r →
      (fun (i : Nat) (st : Array K × Nat × Nat) => do
        let r ← forE 0 m (st.1, st.2.1) fun j st' => do
          let s ← sumLoop l fun k => mulRd A (st.2.2 + k * ka) B (j * sb + k * kb)
          let C ← wr st'.1 st'.2 s
          pure (C, st'.2 + 1)
        pure (r.1, r.2, st.2.2 + da)) i (done ++ Array.replicate r (0 : K), done.size, u)
      = tabulate m ((fun _ (u : Nat) j => sumLoop l fun k => mulRd A (u + k * ka) B (j * sb + k * kb)) i u) >>= fun a =>
          pure (done ++ a ++ Array.replicate (r - m) (0 : K), done.size + m, (fun _ (u : Nat) => u + da) i u) := by
    intro i done r u hm
    have := forE_fill2 (K := K) 0 r m hm done (fun j => sumLoop l fun k => mulRd A (u + k * ka) B (j * sb + k * kb))
    simp only [Nat.zero_add] at this
    simp only [this, bind_assoc, pure_bind]
  have := forE_chunks (K := K) 1 m
    (fun (i : Nat) (st : Array K × Nat × Nat) => do
        let r ← forE 0 m (st.1, st.2.1) fun j st' => do
          let s ← sumLoop l fun k => mulRd A (st.2.2 + k * ka) B (j * sb + k * kb)
          let C ← wr st'.1 st'.2 s
          pure (C, st'.2 + 1)
        pure (r.1, r.2, st.2.2 + da))
    (fun _ (u : Nat) j => sumLoop l fun k => mulRd A (u + k * ka) B (j * sb + k * kb))
    (fun _ (u : Nat) => u + da) hb n (n * m) (Nat.le_refl _) 0
  rw [mkBuf, this, chunks_flat]
  simp only [walk_add1, Nat.zero_add, Nat.sub_self]
  cases tabulate (n * m) _ <;> simp [bind, Except.bind, pure, Except.pure]

/-- `operator*(const Mat&, const Mat&)` (mat.h): `a = ab`, `*a++`, `b = bb + j`, `b += B.cols()`, `ab += A.cols()` -/
theorem gen_matMul (A B : Mat K) : MV.matMul A B = matMul A B := by
  unfold MV.matMul matMul
  split
  · rfl
  · simp only [Nat.add_sub_cancel, Nat.sub_zero]
    have := prod_shape (K := K) A.data B.data A.rows B.cols A.cols A.cols 1 1 B.cols
    simp only [Nat.mul_one] at this
    simp only [Nat.zero_add, Nat.mul_one, this, bind_assoc, pure_bind]
    cases tabulate (A.rows * B.cols) _ <;> rfl
/-- `operator*(const TransMat&, const Mat&)` (transmat.h): `a += A.rows()`, `b += B.cols()`, `ab++` -/
theorem gen_tMulMat (A : TMat K) (B : Mat K) : MV.tMulMat A B = tMulMat A B := by
  unfold MV.tMulMat tMulMat
  split
  · rfl
  · simp only [Nat.add_sub_cancel, Nat.sub_zero]
    have := prod_shape (K := K) A.data B.data A.rows B.cols A.cols 1 1 A.rows B.cols
    simp only [Nat.mul_one] at this
    simp only [Nat.zero_add, Nat.mul_one, this, bind_assoc, pure_bind]
    cases tabulate (A.rows * B.cols) _ <;> rfl

/-- `operator*(const Mat&, const TransMat&)` (transmat.h): `*a++`, `b = bb + j*B.rows()`, `b++`, `ab += A.cols()` -/
theorem gen_matMulT (A : Mat K) (B : TMat K) : MV.matMulT A B = matMulT A B := by
  unfold MV.matMulT matMulT
  split
  · rfl
  · simp only [Nat.add_sub_cancel, Nat.sub_zero]
    have := prod_shape (K := K) A.data B.data A.rows B.cols A.cols A.cols B.rows 1 1
    simp only [Nat.mul_one] at this
    simp only [Nat.zero_add, Nat.mul_one, this, bind_assoc, pure_bind]
    cases tabulate (A.rows * B.cols) _ <;> rfl

/-- `operator*(const TransMat&, const TransMat&)` (transmat.h, after cb8c13f3): `a += A.rows()`, `b = bb + j*B.rows()`, `b++`, `ab++` -/
theorem gen_tMulT (A B : TMat K) : MV.tMulT A B = tMulT A B := by
  unfold MV.tMulT tMulT
  split
  · rfl
  · simp only [Nat.add_sub_cancel, Nat.sub_zero]
    have := prod_shape (K := K) A.data B.data A.rows B.cols A.cols 1 B.rows A.rows 1
    simp only [Nat.mul_one] at this
    simp only [Nat.zero_add, Nat.mul_one, this, bind_assoc, pure_bind]
    cases tabulate (A.rows * B.cols) _ <;> rfl

omit [Add K] [Mul K] in
/-- `trans(const TransMat&)` (transmat.h): `for j: for i: *p = M(i,j), ++p` -/
theorem gen_transT (M : TMat K) : MV.transT M = transT M := by
  unfold MV.transT transT
  simp only [Nat.add_sub_cancel]
  have hb : ∀ j (done : Array K) r, M.rows ≤ r →
      (fun (j : Nat) (st : Array K × Nat) => do
        let r ← forE 1 M.rows (st.1, st.2) fun i st' => do
          let x ← MB.get M.mb i j
          let T ← wr st'.1 st'.2 x
          pure (T, st'.2 + 1)
        pure (r.1, r.2)) j (done ++ Array.replicate r (0 : K), done.size)
      = tabulate M.rows ((fun j i' => MB.get M.mb (1 + i') j) j) >>= fun a =>
          pure (done ++ a ++ Array.replicate (r - M.rows) (0 : K), done.size + M.rows) := by
    intro j done r hm
    have := forE_fill2 (K := K) 1 r M.rows hm done (fun i => MB.get M.mb i j)
    simp only [this, bind_assoc, pure_bind]
  have := forE_chunks2 (K := K) 1 M.rows
    (fun (j : Nat) (st : Array K × Nat) => do
        let r ← forE 1 M.rows (st.1, st.2) fun i st' => do
          let x ← MB.get M.mb i j
          let T ← wr st'.1 st'.2 x
          pure (T, st'.2 + 1)
        pure (r.1, r.2))
    (fun j i' => MB.get M.mb (1 + i') j) hb M.cols (M.cols * M.rows) (Nat.le_refl _)
  rw [mkBuf, this, chunks_flat]
  simp only [Nat.sub_self, TMat.mb, Nat.add_comm 1]
  cases tabulate (M.cols * M.rows) _ <;> simp [bind, Except.bind, pure, Except.pure]

/-! ### the storage primitives of matvecbase.h: stores over a LIVE buffer -/

omit [Add K] [Zero K] in
/-- `MatVecBase::mul(f, X)`: `while (x != e) *x++ = *a++ * f` — the new content of `X` -/
theorem gen_baseMul (self : Array K) (f : K) (X : Array K) : MV.baseMul self f X = baseMul self f X.size := by
  unfold MV.baseMul baseMul
  split
  · rfl
  · simp only [Nat.sub_zero]
    have := forE_over (K := K) 0 X.size #[] X (Nat.le_refl _) 0 (fun _ a => rdMap (fun x => x * f) self a) (fun _ a => a + 1)
    simp only [Array.empty_append, Array.size_empty, walk_add1, Nat.zero_add, Nat.mul_one] at this
    simp only [this, bind_assoc, pure_bind]
    show _ = tabulate X.size (fun k => rdMap (fun x => x * f) self k)
    cases tabulate X.size _ with
    | error e => rfl
    | ok a => simp [bind, Except.bind, pure, Except.pure]

omit [Mul K] [Zero K] in
/-- `MatVecBase::add(B, X)`: `*x++ = *a++ + *b++` -/
theorem gen_baseAdd (self B X : Array K) : MV.baseAdd self B X = baseAdd self B X.size := by
  unfold MV.baseAdd baseAdd
  split
  · rfl
  · simp only [Nat.sub_zero]
    have := forE_over (K := K) 0 X.size #[] X (Nat.le_refl _) (0, 0)
      (fun _ u => MV.zip2 (fun x y => x + y) self u.1 B u.2) (fun _ u => (u.1 + 1, u.2 + 1))
    simp only [Array.empty_append, Array.size_empty, walk_add2, Nat.zero_add, Nat.mul_one] at this
    simp only [this, bind_assoc, pure_bind]
    show _ = tabulate X.size (fun k => MV.zip2 (fun x y => x + y) self k B k)
    cases tabulate X.size _ with
    | error e => rfl
    | ok a => simp [bind, Except.bind, pure, Except.pure]

omit [Add K] [Mul K] [Zero K] in
/-- `MatVecBase::sub(B, X)`: `*x++ = *a++ - *b++` -/
theorem gen_baseSub [Sub K] (self B X : Array K) : MV.baseSub self B X = baseSub self B X.size := by
  unfold MV.baseSub baseSub
  split
  · rfl
  · simp only [Nat.sub_zero]
    have := forE_over (K := K) 0 X.size #[] X (Nat.le_refl _) (0, 0)
      (fun _ u => MV.zip2 (fun x y => x - y) self u.1 B u.2) (fun _ u => (u.1 + 1, u.2 + 1))
    simp only [Array.empty_append, Array.size_empty, walk_add2, Nat.zero_add, Nat.mul_one] at this
    simp only [this, bind_assoc, pure_bind]
    show _ = tabulate X.size (fun k => MV.zip2 (fun x y => x - y) self k B k)
    cases tabulate X.size _ with
    | error e => rfl
    | ok a => simp [bind, Except.bind, pure, Except.pure]

omit [Add K] [Zero K] in
/-- `MatVecBase::operator*=(f)`: `while (b != e) *b++ *= f` IN PLACE = `mul(f, *this)` = the model of `Vec::operator*=` -/
theorem gen_baseScale (self : Array K) (f : K) : MV.baseScale self f = baseMul self f self.size := by
  unfold MV.baseScale baseMul
  simp only [Nat.sub_zero, ne_eq, not_true_eq_false, if_false]
  have := forE_inplace (K := K) (fun x => x * f) 0 self.size #[] self (Nat.le_refl _)
  simp only [Array.empty_append, Array.size_empty, Nat.zero_add] at this
  simp only [this, bind_assoc, pure_bind]
  show _ = tabulate self.size (fun k => rdMap (fun x => x * f) self k)
  cases tabulate self.size _ with
  | error e => rfl
  | ok a => simp [bind, Except.bind, pure, Except.pure]

end Gama.MatVec
