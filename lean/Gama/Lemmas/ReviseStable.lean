/-
  C14 round 8 — the executed model of `project_equations()` on the input from which the excluded
  observations were deleted, part 1:

    * `activeCovIdem_all` : round 7's named hypothesis `ActiveCovIdem` holds for EVERY network
      (extensionality of the packed band storage, `Lemmas/CovExt.lean`).
    * `revise_delObs_revise` : `PE.revise (delObs (PE.revise n)) = delObs (PE.revise n)` — on the deleted
      input `revision_observations()` finds nothing more to exclude (every remaining observation is
      active and stays so; the stand-point rule counts the same targets, because a stand-point that
      keeps a direction had at least two targets and therefore keeps all its usable directions).
-/
import Gama.Lemmas.ReviseSolve
import Gama.Lemmas.CovExt
namespace Gama.RevPE
open Gama Gama.Ls.Net

variable {K : Type}

/-! ### (a) `ActiveCovIdem` is a theorem -/

theorem activeCovIdem_all [Scalar K] (net : PE.Net K) : ActiveCovIdem net := by
  intro c _
  unfold delCl
  simp only
  apply Cov.activeCov_idem
  · intro o ho
    simp only [List.mem_map, List.mem_filter] at ho
    obtain ⟨a, ⟨_, ha⟩, rfl⟩ := ho
    simp [ha]
  · rw [Cov.activeIdx_length_dim1 _ _ (by intro o ho; simp only [List.mem_map] at ho; obtain ⟨a, _, rfl⟩ := ho; rfl)]
    simp only [List.length_map, List.filter_map, Function.comp_def]

/-! ### (b1) the revision is stable on the deleted input -/

open MinX in
/-- the observations of the deleted input, as the revision sees them -/
def keptFlat (pts : List PtS) (all : List (Bool × MinX.Obs)) : List (Bool × MinX.Obs) :=
  (all.filter (isRevised pts all)).map fun fo => (true, fo.2)

open MinX in
theorem activeBasic_true (pts : List PtS) (fo : Bool × MinX.Obs) (h : fo.1 = true) :
    activeBasic pts (true, fo.2) = activeBasic pts fo := by
  unfold activeBasic; simp [h]

open MinX in
theorem isRevised_fst (pts : List PtS) (all : List (Bool × MinX.Obs)) (fo : Bool × MinX.Obs)
    (h : isRevised pts all fo = true) : fo.1 = true := by
  unfold isRevised activeBasic at h
  simp only [Bool.and_eq_true] at h
  exact h.1.1

open MinX in
/-- a stand-point that keeps a direction keeps all its usable directions: same targets -/
theorem dirTargets_kept (pts : List PtS) (all : List (Bool × MinX.Obs)) (sp : Nat)
    (h2 : 2 ≤ (dirTargets pts all sp).length) : dirTargets pts (keptFlat pts all) sp = dirTargets pts all sp := by
  unfold dirTargets keptFlat
  congr 1
  rw [List.filter_map, List.map_map, List.filter_filter]
  have e1 : ((fun fo : Bool × MinX.Obs => fo.2.pto) ∘ fun fo : Bool × MinX.Obs => (true, fo.2)) = fun fo => fo.2.pto := rfl
  rw [e1]
  congr 1
  apply List.filter_congr
  intro fo _
  simp only [Function.comp]
  by_cases hk : (fo.2.kind == MinX.Kind.direction && fo.2.sp == sp) = true
  · have hsp : fo.2.sp = sp := by
      simp only [Bool.and_eq_true, beq_iff_eq] at hk; exact hk.2
    have hkd : fo.2.kind = .direction := by
      simp only [Bool.and_eq_true, beq_iff_eq] at hk; exact hk.1
    by_cases hb : activeBasic pts fo = true
    · have hr : isRevised pts all fo = true := by
        unfold isRevised
        rw [hb, hsp]
        simp [h2]
      have h1 := isRevised_fst pts all fo hr
      rw [activeBasic_true pts fo h1, hr, hk, hb]
      rfl
    · have hr : isRevised pts all fo = false := by
        unfold isRevised
        simp only [Bool.not_eq_true] at hb
        rw [hb]; rfl
      simp only [Bool.not_eq_true] at hb
      rw [hr, hk, hb]
      simp
  · simp only [Bool.not_eq_true] at hk
    rw [hk]
    simp

open MinX in
theorem isRevised_kept (pts : List PtS) (all : List (Bool × MinX.Obs)) (fo : Bool × MinX.Obs)
    (h : isRevised pts all fo = true) : isRevised pts (keptFlat pts all) (true, fo.2) = true := by
  have h1 := isRevised_fst pts all fo h
  unfold isRevised at h ⊢
  rw [activeBasic_true pts fo h1]
  simp only [Bool.and_eq_true, Bool.or_eq_true, decide_eq_true_eq] at h ⊢
  refine ⟨h.1, ?_⟩
  rcases h.2 with h2 | h2
  · exact Or.inl h2
  · right
    rw [dirTargets_kept pts all _ h2]
    exact h2

/-- what the revision writes into one observation -/
def setRev (pts : List MinX.PtS) (all : List (Bool × MinX.Obs)) (k : Nat) (o : PE.Ob K) : PE.Ob K :=
  { o with active := MinX.isRevised pts all (o.toMinX k) }

theorem reviseFrom_eq (pts : List MinX.PtS) (all : List (Bool × MinX.Obs)) : ∀ (k : Nat) (cs : List (PE.Cluster K)),
    PE.reviseFrom pts all k cs = match cs with
      | [] => []
      | c :: cs => { c with obs := c.obs.map (setRev pts all k) } :: PE.reviseFrom pts all (k + 1) cs
  | _, [] => rfl
  | _, _ :: _ => rfl

theorem flat_obs_kept (pts : List MinX.PtS) (all : List (Bool × MinX.Obs)) (k : Nat) : ∀ l : List (PE.Ob K),
    ((l.map (setRev pts all k)).filter (·.active)).map (PE.Ob.toMinX k) =
      ((l.map (PE.Ob.toMinX k)).filter (MinX.isRevised pts all)).map fun fo => (true, fo.2)
  | [] => rfl
  | o :: l => by
    have ih := flat_obs_kept pts all k l
    simp only [List.map_cons, List.filter_cons]
    by_cases h : MinX.isRevised pts all (o.toMinX k) = true
    · have h' : (setRev pts all k o).active = true := h
      rw [if_pos h', if_pos h]
      simp only [List.map_cons, ih]
      congr 1
      show ((setRev pts all k o).active, _) = _
      rw [h']
      rfl
    · have h' : ¬ (setRev pts all k o).active = true := h
      rw [if_neg h', if_neg h]
      exact ih

/-- the flat list of the deleted input = the kept part of the flat list of the full input -/
theorem flatFrom_delObs [Zero K] (pts : List MinX.PtS) (all : List (Bool × MinX.Obs)) :
    ∀ (cs : List (PE.Cluster K)) (k : Nat),
    PE.flatFrom k ((PE.reviseFrom pts all k cs).map delCl) =
      ((PE.flatFrom k cs).filter (MinX.isRevised pts all)).map fun fo => (true, fo.2)
  | [], _ => rfl
  | c :: cs, k => by
    rw [reviseFrom_eq]
    simp only [List.map_cons, PE.flatFrom, List.filter_append, List.map_append]
    rw [flatFrom_delObs pts all cs (k + 1)]
    congr 1
    exact flat_obs_kept pts all k c.obs

/-- with the kept list in the role of `OD`, the revision changes nothing in the deleted clusters -/
theorem reviseFrom_delObs [Zero K] (pts : List MinX.PtS) (all allD : List (Bool × MinX.Obs))
    (H : ∀ fo, MinX.isRevised pts all fo = true → MinX.isRevised pts allD (true, fo.2) = true) :
    ∀ (cs : List (PE.Cluster K)) (k : Nat),
    PE.reviseFrom pts allD k ((PE.reviseFrom pts all k cs).map delCl) = (PE.reviseFrom pts all k cs).map delCl
  | [], _ => rfl
  | c :: cs, k => by
    rw [reviseFrom_eq pts all]
    simp only [List.map_cons]
    rw [reviseFrom_eq pts allD]
    simp only
    rw [reviseFrom_delObs pts all allD H cs (k + 1)]
    congr 1
    have : ∀ o' ∈ (delCl { c with obs := c.obs.map (setRev pts all k) }).obs, setRev pts allD k o' = o' := by
      intro o' ho'
      simp only [delCl, List.mem_filter, List.mem_map] at ho'
      obtain ⟨⟨o, _, rfl⟩, hact⟩ := ho'
      have hr : MinX.isRevised pts all (o.toMinX k) = true := hact
      have := H _ hr
      unfold setRev
      simp only [PE.Ob.toMinX] at hr this ⊢
      rw [hr, this]
    generalize (delCl { c with obs := c.obs.map (setRev pts all k) }) = d at this ⊢
    obtain ⟨st, cv, ob⟩ := d
    simp only at this ⊢
    congr 1
    exact (List.map_congr_left this).trans (List.map_id _)

/-- **stability of the revision**: on the revised network with its passive observations deleted
    `revision_observations()` changes nothing -/
theorem revise_delObs_revise [Zero K] (n : PE.Net K) :
    PE.revise (delObs (PE.revise n)) = delObs (PE.revise n) := by
  unfold PE.revise delObs
  simp only
  congr 1
  have hp : PE.ptsOf ({ n with clusters := PE.reviseFrom (PE.ptsOf n) (PE.flatFrom 0 n.clusters) 0 n.clusters } : PE.Net K)
      = PE.ptsOf n := rfl
  show PE.reviseFrom (PE.ptsOf n) _ 0 _ = _
  rw [flatFrom_delObs]
  exact reviseFrom_delObs _ _ _ (isRevised_kept _ _) _ 0

end Gama.RevPE
