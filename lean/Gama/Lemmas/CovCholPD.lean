/-
  `CovMat::cholDec` (model `cholDec`) : **positive definite ⇒ accepted**, by uniqueness of `L D Lᵀ`.
  If `C = L D Lᵀ` entrywise (unit lower triangular `L`, diagonal `D`) and every `D(r)` is above the
  code's tolerance `N·ε·max diag`, then `cholDec C` does not reject and returns exactly that
  factorisation: `F(r,r) = D(r)`, `F(r,j) = L(j,r)`.  (No band hypothesis on `L` is needed: it follows.)
  Together with `cholDec_reproduces`:  accepted  ⇔  the exact `L D Lᵀ` pivots are all `> Tol`.
-/
import Gama.Lemmas.CovChol
namespace Gama.Cov
open Finset Packed CovMat

set_option linter.unusedSectionVars false

variable {K : Type} [Field K] [LinearOrder K] [IsStrictOrderedRing K] [SqrtFn K]

@[reducible] local instance scalarOfFieldPD : Scalar K := fieldScalar K SqrtFn.sq

/-- rows `≤ k` of `a` are the rows of the given factorisation -/
def MatchLDL (N : Nat) (D : Nat → K) (L : Nat → Nat → K) (a : CovMat K) (k : Nat) : Prop :=
  ∀ r, 1 ≤ r → r ≤ k → a.get r r = D r ∧ ∀ j, r < j → j ≤ N → a.get r j = L j r

/-- the Schur complement row `k+1` is determined by the factorisation -/
theorem schur_row {C a : CovMat K} {k : Nat} {D : Nat → K} {L : Nat → Nat → K}
    (inv : CholInv C a k) (hk : k < C.dim) (hm : MatchLDL C.dim D L a k)
    (hLDL : ∀ i j, 1 ≤ i → i ≤ j → j ≤ C.dim →
      C.get i j = (∑ r ∈ Ico 1 i, L i r * D r * L j r) + D i * (if i = j then 1 else L j i)) :
    a.get (k + 1) (k + 1) = D (k + 1) ∧
    ∀ j, k + 1 < j → j ≤ C.dim → a.get (k + 1) j = D (k + 1) * L j (k + 1) := by
  have hsum : ∀ j, k + 1 ≤ j → j ≤ C.dim →
      ∑ r ∈ Ico 1 (k + 1), a.get r (k + 1) * a.get r r * a.get r j =
      ∑ r ∈ Ico 1 (k + 1), L (k + 1) r * D r * L j r := by
    intro j h1 h2
    apply Finset.sum_congr rfl
    intro r hr
    rw [Finset.mem_Ico] at hr
    obtain ⟨e1, e2⟩ := hm r hr.1 (by omega)
    rw [e1, e2 (k + 1) (by omega) (by omega), e2 j (by omega) h2]
  constructor
  · have h1 := inv.rest (k + 1) (k + 1) (by omega) (le_refl _) (by omega)
    have h2 := hLDL (k + 1) (k + 1) (by omega) (le_refl _) (by omega)
    rw [hsum (k + 1) (le_refl _) (by omega)] at h1
    rw [if_pos rfl, mul_one] at h2
    rw [h1] at h2
    exact add_left_cancel h2
  · intro j hj1 hj2
    have h1 := inv.rest (k + 1) j (by omega) (by omega) hj2
    have h2 := hLDL (k + 1) j (by omega) (by omega) hj2
    rw [hsum j (by omega) hj2] at h1
    rw [if_neg (by omega)] at h2
    rw [h1] at h2
    exact add_left_cancel h2

/-- one accepted row keeps the match -/
theorem matchLDL_step {C a : CovMat K} {k : Nat} {D : Nat → K} {L : Nat → Nat → K}
    (inv : CholInv C a k) (hk : k < C.dim) (hm : MatchLDL C.dim D L a k)
    (hrow : a.get (k + 1) (k + 1) = D (k + 1) ∧
      ∀ j, k + 1 < j → j ≤ C.dim → a.get (k + 1) j = D (k + 1) * L j (k + 1))
    (hD0 : D (k + 1) ≠ 0) :
    MatchLDL C.dim D L (cholStep (k + 1) (a.get (k + 1) (k + 1)) a) (k + 1) := by
  obtain ⟨hw, hd, hb⟩ := inv.same
  have hget : ∀ i j, 1 ≤ i → i ≤ j → j ≤ C.dim →
      (cholStep (k + 1) (a.get (k + 1) (k + 1)) a).get i j =
        if i < k + 1 then a.get i j
        else if i = k + 1 then (if j = k + 1 then a.get (k + 1) (k + 1) else a.get (k + 1) j / a.get (k + 1) (k + 1))
        else a.get i j - a.get (k + 1) i / a.get (k + 1) (k + 1) * a.get (k + 1) j := by
    intro i j h1 h2 h3
    exact cholStep_get hw _ (row := k + 1) (by omega) (by rw [hd]; omega) i j h1 h2 (by rw [hd]; exact h3)
  intro r hr1 hr2
  by_cases hrk : r ≤ k
  · obtain ⟨e1, e2⟩ := hm r hr1 hrk
    constructor
    · rw [hget r r hr1 (le_refl _) (by omega), if_pos (by omega)]; exact e1
    · intro j hj1 hj2
      rw [hget r j hr1 (by omega) hj2, if_pos (by omega)]; exact e2 j hj1 hj2
  · have hr : r = k + 1 := by omega
    subst hr
    constructor
    · rw [hget (k + 1) (k + 1) hr1 (le_refl _) (by omega), if_neg (by omega), if_pos rfl, if_pos rfl]
      exact hrow.1
    · intro j hj1 hj2
      rw [hget (k + 1) j hr1 (by omega) hj2, if_neg (by omega), if_pos rfl, if_neg (by omega),
        hrow.2 j hj1 hj2, hrow.1]
      field_simp

/-- the row loop accepts every row and ends with the given factorisation -/
theorem cholRows_of_ldl {C : CovMat K} (tol : K) (htol : 0 ≤ tol) (D : Nat → K) (L : Nat → Nat → K)
    (hD : ∀ r, 1 ≤ r → r ≤ C.dim → tol < D r)
    (hLDL : ∀ i j, 1 ≤ i → i ≤ j → j ≤ C.dim →
      C.get i j = (∑ r ∈ Ico 1 i, L i r * D r * L j r) + D i * (if i = j then 1 else L j i)) :
    ∀ (cnt k : Nat) (a : CovMat K), k + cnt = C.dim → CholInv C a k → MatchLDL C.dim D L a k →
      ∃ F, cholRows tol (k + 1) cnt a = .ok F ∧ CholInv C F C.dim ∧ MatchLDL C.dim D L F C.dim := by
  intro cnt
  induction cnt with
  | zero =>
    intro k a hk inv hm
    have : k = C.dim := by omega
    subst this
    exact ⟨a, by simp only [cholRows], inv, hm⟩
  | succ cnt ih =>
    intro k a hk inv hm
    have hrow := schur_row inv (by omega) hm hLDL
    have hDk := hD (k + 1) (by omega) (by omega)
    have hpos : 0 < D (k + 1) := lt_of_le_of_lt htol hDk
    simp only [cholRows]
    split
    · rename_i hpiv
      rw [hrow.1] at hpiv
      exact absurd hDk (not_lt.mpr hpiv)
    · have hp : 0 < a.get (k + 1) (k + 1) := by rw [hrow.1]; exact hpos
      exact ih (k + 1) _ (by omega) (cholInv_step inv (by omega) hp)
        (matchLDL_step inv (by omega) hm hrow (ne_of_gt hpos))

/-- **positive definite ⇒ accepted.**  If `C = L D Lᵀ` (entrywise, `1 ≤ i ≤ j ≤ N`) with all pivots
    `D(r)` above the tolerance of the code, `cholDec` accepts and returns exactly `D` and `L`. -/
theorem cholDec_of_ldl {C : CovMat K} (hC : C.WF) (hN : 1 ≤ C.dim) (D : Nat → K) (L : Nat → Nat → K)
    (hD : ∀ r, 1 ≤ r → r ≤ C.dim → tolOf C.dim (maxDiag C) < D r)
    (hLDL : ∀ i j, 1 ≤ i → i ≤ j → j ≤ C.dim →
      C.get i j = (∑ r ∈ Ico 1 i, L i r * D r * L j r) + D i * (if i = j then 1 else L j i)) :
    ∃ F, cholDec C = .ok F ∧ (∀ i, 1 ≤ i → i ≤ C.dim → F.get i i = D i) ∧
      (∀ r j, 1 ≤ r → r < j → j ≤ C.dim → F.get r j = L j r) := by
  obtain ⟨F, h1, _, h3⟩ := cholRows_of_ldl (C := C) (tolOf C.dim (maxDiag C))
    (tolOf_nonneg _ _ (maxDiag_nonneg C)) D L hD hLDL C.dim 0 C (by omega) (cholInv_init hC)
    (fun r h1 h2 => by omega)
  refine ⟨F, ?_, fun i hi1 hi2 => (h3 i hi1 hi2).1, fun r j hr hrj hj => (h3 r hr (by omega)).2 j hrj hj⟩
  unfold cholDec
  rw [if_neg (by omega)]
  exact h1

/-- uniqueness: the `L` of any such factorisation has the band of `C` (no fill) -/
theorem ldl_band {C : CovMat K} (hC : C.WF) (hN : 1 ≤ C.dim) (D : Nat → K) (L : Nat → Nat → K)
    (hD : ∀ r, 1 ≤ r → r ≤ C.dim → tolOf C.dim (maxDiag C) < D r)
    (hLDL : ∀ i j, 1 ≤ i → i ≤ j → j ≤ C.dim →
      C.get i j = (∑ r ∈ Ico 1 i, L i r * D r * L j r) + D i * (if i = j then 1 else L j i)) :
    ∀ r j, 1 ≤ r → j ≤ C.dim → j > r + C.band → L j r = 0 := by
  intro r j hr hj hb
  obtain ⟨F, h1, _, h3⟩ := cholDec_of_ldl hC hN D L hD hLDL
  rw [← h3 r j hr (by omega) hj]
  exact (cholDec_reproduces hC h1).2.2.2.2.2 r j (by omega) hb

/-! ### the converse with the tolerance: accepted pivots are `> Tol` -/

theorem cholRows_pivots {C : CovMat K} (tol : K) (htol : 0 ≤ tol) :
    ∀ (cnt k : Nat) (a F : CovMat K), k + cnt = C.dim → CholInv C a k →
      (∀ i, 1 ≤ i → i ≤ k → tol < a.get i i) →
      cholRows tol (k + 1) cnt a = .ok F → ∀ i, 1 ≤ i → i ≤ C.dim → tol < F.get i i := by
  intro cnt
  induction cnt with
  | zero =>
    intro k a F hk _ hp h
    simp only [cholRows] at h
    cases h
    have : k = C.dim := by omega
    subst this; exact hp
  | succ cnt ih =>
    intro k a F hk inv hp h
    simp only [cholRows] at h
    split at h
    · cases h
    · rename_i hpiv
      have hgt : tol < a.get (k + 1) (k + 1) := lt_of_not_ge hpiv
      have hp0 : 0 < a.get (k + 1) (k + 1) := lt_of_le_of_lt htol hgt
      obtain ⟨hw, hd, hb⟩ := inv.same
      refine ih (k + 1) _ F (by omega) (cholInv_step inv (by omega) hp0) ?_ h
      intro i hi1 hi2
      have hg := cholStep_get hw (a.get (k + 1) (k + 1)) (row := k + 1) (by omega) (by rw [hd]; omega)
        i i hi1 (le_refl _) (by rw [hd]; omega)
      rw [hg]
      by_cases hik : i ≤ k
      · rw [if_pos (by omega)]; exact hp i hi1 hik
      · have : i = k + 1 := by omega
        subst this
        rw [if_neg (by omega), if_pos rfl, if_pos rfl]; exact hgt

/-- **accepted ⇔ the exact `L D Lᵀ` pivots are all above the tolerance** -/
theorem cholDec_ok_iff {C : CovMat K} (hC : C.WF) (hN : 1 ≤ C.dim) :
    (∃ F, cholDec C = .ok F) ↔
    ∃ (D : Nat → K) (L : Nat → Nat → K),
      (∀ r, 1 ≤ r → r ≤ C.dim → tolOf C.dim (maxDiag C) < D r) ∧
      (∀ i j, 1 ≤ i → i ≤ j → j ≤ C.dim →
        C.get i j = (∑ r ∈ Ico 1 i, L i r * D r * L j r) + D i * (if i = j then 1 else L j i)) := by
  constructor
  · rintro ⟨F, h⟩
    refine ⟨fun r => F.get r r, fun j r => F.get r j, ?_, (cholDec_reproduces hC h).2.2.2.2.1⟩
    have h' := h
    unfold cholDec at h'
    rw [if_neg (by omega)] at h'
    exact cholRows_pivots (C := C) _ (tolOf_nonneg _ _ (maxDiag_nonneg C)) C.dim 0 C F (by omega)
      (cholInv_init hC) (fun i h1 h2 => by omega) h'
  · rintro ⟨D, L, hD, hLDL⟩
    obtain ⟨F, h, _⟩ := cholDec_of_ldl hC hN D L hD hLDL
    exact ⟨F, h⟩

end Gama.Cov
