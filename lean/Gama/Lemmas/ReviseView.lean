/-
  C14 — "the adjustment reads the active view only": the assembly loop of `project_equations()`
  (a fold over clusters and their active observations that looks up the role points of each
  observation) gives the same result on the state and on its view; the covariance block of the view is
  what `Cluster::activeCov()` (C10's model, `Cov.activeCov`) returns.
-/
import Gama.Lemmas.ReviseDelete
import Gama.Lemmas.CovActive
namespace Gama.Rev
variable {K : Type}

theorem foldl_congr_mem {α β : Type} (l : List α) (f g : β → α → β) (b : β)
    (h : ∀ s, ∀ a ∈ l, f s a = g s a) : l.foldl f b = l.foldl g b := by
  induction l generalizing b with
  | nil => rfl
  | cons a l ih =>
    simp only [List.foldl_cons]
    rw [h b a (by simp)]
    exact ih _ (fun s a' ha' => h s a' (by simp [ha']))

/-- the role points of an observation that meets its requirements all take part: looking them up among
    the points that take part finds the same points -/
theorem lookups_filter (P : List (Pt K)) (o : Obs K) (h : reqOk P o = true) :
    (Gen.requirements o.ty).map (fun rf => findPt (P.filter Pt.active) (o.roleId rf.1)) =
    (Gen.requirements o.ty).map (fun rf => findPt P (o.roleId rf.1)) := by
  apply List.map_congr_left
  intro rf hrf
  unfold reqOk at h
  have h1 := List.all_eq_true.mp h rf hrf
  cases hf : findPt P (o.roleId rf.1) with
  | none => simp [hf] at h1
  | some p =>
    simp only [hf] at h1
    exact find_filter P _ p hf (active_of_flags o.ty rf hrf p h1)

theorem assembleCl_filter {σ τ : Type} (step : σ × τ → Obs K → List (Option (Pt K)) → σ × τ) (loc : Bool → τ)
    (P : List (Pt K)) (s : σ) (stand : Bool) (os : List (Obs K)) (hs : SoundObs P os) :
    assembleCl step loc (P.filter Pt.active) s stand (os.filter (·.active)) =
    assembleCl step loc P s stand (os.filter (·.active)) := by
  unfold assembleCl
  congr 1
  apply foldl_congr_mem
  intro st o ho
  have hm := List.mem_filter.mp ho
  rw [lookups_filter P o (hs o hm.1 (by simpa using hm.2))]

/-- the assembly loop on a state whose active observations meet their requirements = the same loop on
    the active view -/
theorem assemble_eq_view {σ τ : Type} (step : σ × τ → Obs K → List (Option (Pt K)) → σ × τ) (loc : Bool → τ)
    (init : σ) (n : Net K) (hs : ∀ c ∈ n.cls, SoundObs n.pts c.obs) :
    assemble step loc init n = assembleView step loc init (activeView n) := by
  unfold assemble assembleView activeView
  simp only
  generalize n.pts = P at hs
  generalize n.cls = cs at hs
  induction cs generalizing init with
  | nil => rfl
  | cons c cs ih =>
    simp only [List.foldl_cons, List.map_cons, List.filter_cons]
    have ih' := fun i => ih i (fun c' hc' => hs c' (by simp [hc']))
    cases he : (c.obs.filter (·.active)).isEmpty
    · simp only [Bool.not_false, if_true, List.foldl_cons]
      rw [assembleCl_filter step loc P init c.stand c.obs (hs c (by simp))]
      exact ih' _
    · simp only [Bool.not_true, Bool.false_eq_true, if_false]
      have : c.obs.filter (·.active) = [] := List.isEmpty_iff.mp he
      rw [this]
      exact ih' _

/-! ### the covariance block against C10's model of `Cluster::activeCov()` -/

theorem activeIdx_eq_dropFlagged (k : Nat) (fl : List Bool) :
    Cov.activeIdx k (fl.map fun a => ⟨a, 1⟩) = dropFlagged (List.range' k fl.length) (fl.map (!·)) := by
  induction fl generalizing k with
  | nil => simp [Cov.activeIdx, dropFlagged]
  | cons a fl ih =>
    simp only [List.map_cons, Cov.activeIdx, List.length_cons, List.range'_succ, dropFlagged_cons]
    rw [ih (k + 1)]
    cases a <;> simp [List.range_succ]

theorem activeIdx_eq_keptIdx (fl : List Bool) :
    Cov.activeIdx 1 (fl.map fun a => ⟨a, 1⟩) = keptIdx (fl.map (!·)) := by
  rw [activeIdx_eq_dropFlagged]
  unfold keptIdx
  simp

/-- entry `(i, j)` of `covView` is the covariance of the i-th and j-th active observation -/
theorem covView_entry (cov : Nat → Nat → K) (z : K) (fl : List Bool) (i j : Nat) (hi1 : 1 ≤ i)
    (hi : i ≤ (keptIdx (fl.map (!·))).length) (hj1 : 1 ≤ j) (hj : j ≤ (keptIdx (fl.map (!·))).length) :
    ((covView cov fl).getD (i - 1) []).getD (j - 1) z =
      cov ((keptIdx (fl.map (!·))).getD (i - 1) 0) ((keptIdx (fl.map (!·))).getD (j - 1) 0) := by
  unfold covView
  simp only
  generalize keptIdx (fl.map (!·)) = idx at hi hj
  have h1 : i - 1 < idx.length := by omega
  have h2 : j - 1 < idx.length := by omega
  simp [List.getD_eq_getElem?_getD, h1, h2]

end Gama.Rev
