/-
  String level of `rad2deg_str` (gon2deg.cpp) and `latlong` / `latitude` / `longitude` (latlong.cpp).

  Strings need exact arithmetic (ℚ); the two functions use the constant `M_PI`, which in the C++ IS a rational
  number (a `double`).  `transcOfPi p` is the `Transc ℚ` instance whose `pi` is the rational `p`; the theorems are
  stated for every positive rational `p` (in particular for the double nearest π).  No other field of the
  instance is used by the functions treated here (they are dummies).

  * `printed_readback`   the text of a `Printed` laid out as blanks, optional `-`, blanks, d, `-`, mm, `-`, seconds
                         is accepted by `deg2gon` and denotes `±p.gon` (factored out of `deg2gon_gon2deg_string`)
  * `renderLatLong_layout` what `latlong` writes is that layout — PROVIDED a negative angle prints at most three
                         digits of degrees (`ostr.width(4)`: with four digits there is no blank left and
                         `s[0] = '-'` overwrites the first digit)
  * `rad2degStr_roundtrip`, `latlong_roundtrip`
-/
import Gama.Lemmas.GeoRoundTrip
import Gama.Lemmas.GeoAnglesGenTie
namespace Gama.Angles
open Gama.Grammar Gama.Grammar.Rx

/-- `Transc ℚ` with a rational value of `M_PI`; the other fields are never used by the angle string functions -/
@[reducible] def transcOfPi (p : ℚ) : Transc ℚ where
  sin := fun _ => 0
  cos := fun _ => 0
  atan := fun _ => 0
  atan2 := fun _ _ => 0
  exp := fun _ => 0
  log := fun _ => 0
  pow := fun _ _ => 0
  pi := p

/-! ### reading back a printed triple -/

theorem secFits_printed (n : ℤ) (prec : ℕ) (pn0 : 0 ≤ n) (pn60 : n < 60 * (10 : ℤ) ^ prec) :
    secFits (n.toNat, -(prec : ℤ)) = true := by
  unfold secFits
  cases prec with
  | zero =>
    simp only [Int.natCast_zero, neg_zero]
    show ((n.toNat == 0) || (decide (0 ≤ 309) && decide (n.toNat * 10 ^ 0 < dblOverflow))) = true
    have : n.toNat < dblOverflow := by
      have : n < 60 := by simpa using pn60
      have := dblOverflow_ge; omega
    simp [this]
  | succ k =>
    show (decide (n.toNat.log2 ≤ k) || decide (n.toNat < dblOverflow * 10 ^ (k + 1))) = true
    have : n.toNat < dblOverflow * 10 ^ (k + 1) := by
      have : n.toNat < 60 * 10 ^ (k + 1) := by
        have : (n.toNat : ℤ) < ((60 * 10 ^ (k + 1) : ℕ) : ℤ) := by
          rw [Int.toNat_of_nonneg pn0]; push_cast; exact pn60
        exact_mod_cast this
      calc n.toNat < 60 * 10 ^ (k + 1) := this
        _ ≤ dblOverflow * 10 ^ (k + 1) := Nat.mul_le_mul_right _ dblOverflow_ge
    simp [this]

/-- a text laid out as the formatters print a triple in range is accepted by `deg2gon` and denotes the triple;
    the `-` makes it negative unless it is zero (`if (gon && negative) gon = -gon`) -/
theorem printed_readback (p : Printed) (str : String) (b : Bool) (sp1 sp2 : List Char)
    (pd0 : 0 ≤ p.d) (pdmax : p.d ≤ 2147483647) (pm0 : 0 ≤ p.m) (pm60 : p.m < 60) (pn0 : 0 ≤ p.n)
    (pn60 : p.n < 60 * (10 : ℤ) ^ p.prec)
    (h1 : ∀ c ∈ sp1, Grammar.isSpace c = true) (h2 : ∀ c ∈ sp2, Grammar.isSpace c = true)
    (hlay : str.toList = sp1 ++ (if b = true then ['-'] else []) ++ sp2 ++ natL p.d.toNat ++
          '-' :: (padLeft '0' 2 (toString p.m)).toList ++
          '-' :: (padLeft '0' (3 + p.prec) (renderScaled p.n.toNat p.prec)).toList) :
    (deg2gon str : Option ℚ) = some (if (!(Scalar.beq p.gon (0 : ℚ)) && b) = true then -p.gon else p.gon) := by
  have hpd : p.d.toNat ≤ intMax := by unfold intMax; omega
  obtain ⟨c0, sec', hsecL, hc0, hsecsp, hread⟩ := seconds_field p.n.toNat p.prec
  have hMl : (padLeft '0' 2 (toString p.m)).toList = List.replicate (2 - (natL p.m.toNat).length) '0' ++ natL p.m.toNat := by
    rw [padLeft_toList, intStr_toList pm0]
  have hMd : ∀ c ∈ List.replicate (2 - (natL p.m.toNat).length) '0' ++ natL p.m.toNat, Grammar.isDigit c = true := by
    intro c hc; rcases List.mem_append.mp hc with h | h
    · exact zeros_digits _ c h
    · exact natL_digits _ c h
  have hMne : List.replicate (2 - (natL p.m.toNat).length) '0' ++ natL p.m.toNat ≠ [] := by
    have := natL_ne_nil p.m.toNat; simp [this]
  have hMv : val (List.replicate (2 - (natL p.m.toNat).length) '0' ++ natL p.m.toNat) = p.m.toNat := by
    rw [val_zeros_append, val_natL]
  have hfit := secFits_printed p.n p.prec pn0 pn60
  have hparse := parseDms_layout sp1 sp2 b p.d.toNat p.m.toNat _ sec' c0
    (p.n.toNat, -(p.prec : ℤ)) h1 h2 hpd hMd hMne hMv (by unfold intMax; omega) hc0 hsecsp hread hfit
  have hstr : String.ofList str.toList = str := String.ofList_toList
  rw [hMl, hsecL] at hlay
  rw [← hlay, hstr] at hparse
  have hgon : ((Scalar.ofInt (p.d.toNat : ℤ) : ℚ) / Scalar.ofNat 360 + Scalar.ofInt (p.m.toNat : ℤ) / Scalar.ofNat 21600
      + sciToK (p.n.toNat, -(p.prec : ℤ)) / Scalar.ofNat 1296000) * Scalar.ofNat 400 = p.gon := by
    rw [sciToK_rat, ofInt_rat, ofInt_rat, ofNat_rat, ofNat_rat, ofNat_rat, ofNat_rat]
    unfold Printed.gon
    have e1 : ((p.d.toNat : ℤ) : ℚ) = (p.d : ℚ) := by rw [Int.toNat_of_nonneg pd0]
    have e2 : ((p.m.toNat : ℤ) : ℚ) = (p.m : ℚ) := by rw [Int.toNat_of_nonneg pm0]
    have e3 : ((p.n.toNat : ℕ) : ℚ) = (p.n : ℚ) := by
      have : ((p.n.toNat : ℤ) : ℚ) = (p.n : ℚ) := by rw [Int.toNat_of_nonneg pn0]
      exact_mod_cast this
    rw [e1, e2, e3]; norm_num
  have hdeg : (deg2gon str : Option ℚ) =
      some ((fun G : ℚ => if (!(Scalar.beq G 0) && b) = true then -G else G)
        (((Scalar.ofInt (p.d.toNat : ℤ) : ℚ) / Scalar.ofNat 360 + Scalar.ofInt (p.m.toNat : ℤ) / Scalar.ofNat 21600
          + sciToK (p.n.toNat, -(p.prec : ℤ)) / Scalar.ofNat 1296000) * Scalar.ofNat 400)) := by
    unfold deg2gon
    rw [hparse]
    rfl
  rw [hdeg]
  simp only [hgon]

/-- the value read back is the signed printed value: `x < 0` printed with its `-` -/
theorem signed_close (G x ε : ℚ) (hG : |G - abs x| ≤ ε) :
    |(if (!(Scalar.beq G (0 : ℚ)) && decide (x < 0)) = true then -G else G) - x| ≤ ε := by
  by_cases hx : x < 0
  · simp only [hx, decide_true, Bool.and_true]
    rw [abs_of_neg hx] at hG
    by_cases hz : G = 0
    · have : (Scalar.beq G (0 : ℚ)) = true := by rw [hz]; rfl
      simp only [this, Bool.not_true, Bool.false_eq_true, if_false]
      rw [hz] at hG ⊢
      rw [abs_sub_comm]; simpa using hG
    · have : (Scalar.beq G (0 : ℚ)) = false := by
        show (G == 0) = false
        simpa using hz
      simp only [this, Bool.not_false, if_true]
      have : -G - x = -(G - -x) := by ring
      rw [this, abs_neg]; exact hG
  · simp only [hx, decide_false, Bool.and_false, Bool.false_eq_true, if_false]
    rw [abs_of_nonneg (not_lt.mp hx)] at hG; exact hG

/-! ### `rad2deg_str` -/

theorem rad2degStr_pi (p rad : ℚ) (sign : ℤ) (prec : ℕ) :
    @rad2degStr ℚ _ _ _ (transcOfPi p) rad sign prec = gon2degWith true true (rad / p * 200) sign prec := by
  show gon2degWith Gen.gon2degCarry Gen.gon2degAbs (rad / p * Scalar.ofNat 200) sign prec = _
  rw [ofNat_rat, show Gen.gon2degCarry = true from rfl, show Gen.gon2degAbs = true from rfl]
  norm_num

/-- `deg2gon (rad2deg_str rad sign prec)` on strings, for every rational value `p` of `M_PI`: the text is accepted
    and reads back within half a unit of the printed precision of `rad/p·200` gon (signed when a sign is printed) -/
theorem rad2degStr_roundtrip (p rad : ℚ) (sign : ℤ) (prec : ℕ) (h : |rad / p * 200| * (9 / 10) < 2147483647) :
    ∃ (str : String) (v : ℚ), @rad2degStr ℚ _ _ _ (transcOfPi p) rad sign prec = some str ∧
      (deg2gon str : Option ℚ) = some v ∧
      |v - (if sign = 1 ∨ sign = 2 ∨ sign = 3 then rad / p * 200 else |rad / p * 200|)|
        ≤ (1 / 2) / (10 : ℚ) ^ prec / 3600 / (9 / 10) := by
  rw [rad2degStr_pi]
  exact deg2gon_gon2deg_string (rad / p * 200) sign prec h

/-! ### `latlong` -/

theorem latlongFields_pi (p rad : ℚ) :
    @latlongFields ℚ _ _ (transcOfPi p) true rad = splitDeg (decide (rad < 0)) (|rad| * (180 / p)) := by
  show splitDeg (decide (rad < 0)) (dropSign true (decide (rad < 0)) rad * (Scalar.ofNat 180 / p)) = _
  rw [dropSign_rat, ofNat_rat]
  norm_num

theorem latlong_pi (p rad : ℚ) (prec : ℕ) :
    @latlong ℚ _ _ _ (transcOfPi p) rad prec =
      some ((toPrinted true (splitDeg (decide (rad < 0)) (|rad| * (180 / p))).neg
               (splitDeg (decide (rad < 0)) (|rad| * (180 / p))).d
               (splitDeg (decide (rad < 0)) (|rad| * (180 / p))).m
               (splitDeg (decide (rad < 0)) (|rad| * (180 / p))).s prec false).renderLatLong) := by
  rw [← latlongFields_pi]
  rfl

theorem natL_length_le3 {n : ℕ} (h : n ≤ 999) : (natL n).length ≤ 3 := by
  have h4 : (natL n).length = (Nat.repr n).length := by
    unfold natL; rw [String.length_toList]; rfl
  rw [h4]
  exact (Nat.length_repr_le_iff (by omega)).mpr (by omega)

/-- the layout of `latlong`'s result: blanks, `-` directly in front of the digits of a negative angle, the three
    fields.  `ostr.width(4)`: a negative angle must print at most three digits of degrees — with four there is no
    blank and `s[0] = '-'` overwrites the first digit (`latlong_overwrites_digit`). -/
theorem renderLatLong_layout (p : Printed) (hd : 0 ≤ p.d) (hn : 0 ≤ p.n) (hz : p.secNegZero = false)
    (hdom : p.neg = true → p.d ≤ 999) :
    ∃ sp1 : List Char, (∀ c ∈ sp1, Grammar.isSpace c = true) ∧
      p.renderLatLong.toList =
        sp1 ++ (if p.neg = true then ['-'] else []) ++ [] ++ natL p.d.toNat ++
          '-' :: (padLeft '0' 2 (toString p.m)).toList ++
          '-' :: (padLeft '0' (3 + p.prec) (renderScaled p.n.toNat p.prec)).toList := by
  have hsec : p.seconds = padLeft '0' (3 + p.prec) (renderScaled p.n.toNat p.prec) := by
    unfold Printed.seconds
    have : ¬ (p.n < 0 ∨ p.secNegZero = true) := by rw [hz]; simp; omega
    rw [if_neg this]
  have hdash : "-".toList = ['-'] := rfl
  generalize hM : (padLeft '0' 2 (toString p.m)).toList = M
  generalize hS : (padLeft '0' (3 + p.prec) (renderScaled p.n.toNat p.prec)).toList = S
  have hD := intStr_toList hd
  have hlen : p.neg = true → (natL p.d.toNat).length ≤ 3 := fun h => natL_length_le3 (by have := hdom h; omega)
  generalize hDn : natL p.d.toNat = D at hD hlen
  have hD' : p.d.repr.toList = D := hD
  have hM' : (padLeft '0' 2 p.m.repr).toList = M := hM
  have hDd : ∀ c ∈ D, Grammar.isDigit c = true := by rw [← hDn]; exact natL_digits _
  have hDne : D ≠ [] := by rw [← hDn]; exact natL_ne_nil _
  unfold Printed.renderLatLong
  simp only [hsec]
  cases hneg : p.neg
  · refine ⟨List.replicate (4 - D.length) ' ', spaces_all _, ?_⟩
    simp [String.toList_append, hdash, hM', hS, hD', padLeft_toList]
  · have hl := hlen hneg
    simp only [if_true]
    cases D with
    | nil => exact absurd rfl hDne
    | cons a D1 =>
      have ha := digit_ne_blank (hDd a List.mem_cons_self)
      cases D1 with
      | nil =>
        refine ⟨[' ', ' '], by decide, ?_⟩
        simp [setChar, charAt, String.toList_append, hdash, hM', hS, hD', padLeft_toList, List.replicate]
      | cons b D2 =>
        have hb := digit_ne_blank (hDd b (by simp))
        cases D2 with
        | nil =>
          refine ⟨[' '], by decide, ?_⟩
          simp [setChar, charAt, String.toList_append, hdash, hM', hS, hD', padLeft_toList, List.replicate, ha]
        | cons c D3 =>
          cases D3 with
          | nil =>
            refine ⟨[], by simp, ?_⟩
            simp [setChar, charAt, String.toList_append, hdash, hM', hS, hD', padLeft_toList, ha, hb]
          | cons e D4 => simp at hl

/-- `deg2gon (latlong rad prec)` on strings, for every positive rational value `p` of `M_PI`: the text `latitude` /
    `longitude` write is accepted by `deg2gon` and reads back, in degrees (`v·0.9`), within half a unit of the printed
    precision (arc seconds) of `rad·(180/p)` — SIGNED.  Domain: degrees fit `int`; a negative angle stays below
    1000° − 0.5″ (so that at most three digits of degrees are printed, also after a carry). -/
theorem latlong_roundtrip (p : ℚ) (hp : 0 < p) (rad : ℚ) (prec : ℕ)
    (hint : |rad| * (180 / p) < 2147483647) (hneg : rad < 0 → |rad| * (180 / p) < 1000 - 1 / 7200) :
    ∃ (str : String) (v : ℚ), @latlong ℚ _ _ _ (transcOfPi p) rad prec = some str ∧
      (deg2gon str : Option ℚ) = some v ∧
      |v * (9 / 10) - rad * (180 / p)| ≤ (1 / 2) / (10 : ℚ) ^ prec / 3600 := by
  have hk : (0 : ℚ) < 180 / p := by positivity
  have hx : 0 ≤ |rad| * (180 / p) := by positivity
  set x : ℚ := |rad| * (180 / p) with hxdef
  set f := splitDeg (decide (rad < 0)) x with hf
  set q := toPrinted true f.neg f.d f.m f.s prec false with hq
  obtain ⟨hfneg, hdfl, hd0, hm0, hm60, hs0, hs60, hval⟩ := splitDeg_spec (decide (rad < 0)) hx
  rw [← hf] at hfneg hdfl hd0 hm0 hm60 hs0 hs60 hval
  obtain ⟨pd0, pm0, pm60, pn0, pn60, pprec, pneg⟩ := toPrinted_carry_range f.neg f.d f.m f.s prec false hd0 hm0 hm60 hs0 hs60
  obtain ⟨psz, pdle⟩ := toPrinted_extra f.neg f.d f.m f.s prec
  rw [← hq] at pd0 pm0 pm60 pn0 pn60 pprec pneg psz pdle
  have hclose := toPrinted_close true f.neg f.d f.m f.s prec false hs60
  rw [← hq, ← hval] at hclose
  have hdmax : f.d ≤ 2147483646 := by
    rw [hdfl]
    have : x.floor < 2147483647 := Rat.floor_lt_iff.mpr (by exact_mod_cast hint)
    omega
  -- a negative angle prints at most three digits of degrees
  have hdom : q.neg = true → q.d ≤ 999 := by
    intro hn
    have hr : rad < 0 := by rw [pneg, hfneg] at hn; simpa using hn
    have hxx := hneg hr
    have h10 : (0 : ℚ) < (10 : ℚ) ^ prec := pow10_pos prec
    have h1 : (1 : ℚ) ≤ (10 : ℚ) ^ prec := one_le_pow₀ (by norm_num)
    have hε : (1 / 2) / (10 : ℚ) ^ prec / 3600 ≤ 1 / 7200 := by
      rw [div_div, div_le_div_iff₀ (by positivity) (by norm_num)]; nlinarith
    have hdeg : q.degrees < 1000 := by
      have := (abs_le.mp hclose).2
      linarith
    have hdd : (q.d : ℚ) ≤ q.degrees := by
      unfold Printed.degrees
      have a1 : (0 : ℚ) ≤ (q.m : ℚ) / 60 := by
        have : (0 : ℚ) ≤ (q.m : ℚ) := by exact_mod_cast pm0
        positivity
      have a2 : (0 : ℚ) ≤ ((q.n : ℚ) / (10 : ℚ) ^ q.prec) / 3600 := by
        have : (0 : ℚ) ≤ (q.n : ℚ) := by exact_mod_cast pn0
        positivity
      linarith
    have : (q.d : ℚ) < 1000 := lt_of_le_of_lt hdd hdeg
    have : q.d < 1000 := by exact_mod_cast this
    omega
  obtain ⟨sp1, h1, hlay⟩ := renderLatLong_layout q pd0 pn0 psz hdom
  have hrb := printed_readback q q.renderLatLong q.neg sp1 [] pd0 (by omega) pm0 pm60 pn0 (by rw [pprec]; exact pn60)
    h1 (by simp) hlay
  refine ⟨q.renderLatLong, _, latlong_pi p rad prec, hrb, ?_⟩
  -- the value
  have hnegx : q.neg = decide (rad * (180 / p) < 0) := by
    rw [pneg, hfneg]
    have : rad * (180 / p) < 0 ↔ rad < 0 := by
      constructor
      · intro h
        by_contra hc
        have hc := not_lt.mp hc
        have : 0 ≤ rad * (180 / p) := by positivity
        linarith
      · intro h; exact mul_neg_of_neg_of_pos h hk
    simp only [this]
  have habs : |rad * (180 / p)| = x := by rw [abs_mul, abs_of_pos hk]
  have hG : |q.gon * (9 / 10) - abs (rad * (180 / p))| ≤ (1 / 2) / (10 : ℚ) ^ prec / 3600 := by
    rw [habs, Printed.gon_eq]
    have : q.degrees / (9 / 10) * (9 / 10) = q.degrees := by field_simp
    rw [this]; exact hclose
  have key := signed_close (q.gon * (9 / 10)) (rad * (180 / p)) _ hG
  rw [hnegx]
  have hbeq : Scalar.beq (q.gon * (9 / 10)) (0 : ℚ) = Scalar.beq q.gon (0 : ℚ) := by
    show (q.gon * (9 / 10) == 0) = (q.gon == 0)
    by_cases hz : q.gon = 0
    · rw [hz]; simp
    · have : q.gon * (9 / 10) ≠ 0 := mul_ne_zero hz (by norm_num)
      simp [hz, this]
  rw [hbeq] at key
  split_ifs at key ⊢ with hc
  · have : -q.gon * (9 / 10) = -(q.gon * (9 / 10)) := by ring
    rw [this]; exact key
  · exact key

/-- beyond the domain: −1000° prints four digits of degrees, no blank is left, `s[0] = '-'` overwrites the `1`,
    and the text reads back as zero (p := 1) -/
theorem latlong_overwrites_digit :
    @latlong ℚ _ _ _ (transcOfPi 1) (-50 / 9) 1 = some "-000-00-00.0" ∧
    @latlong ℚ _ _ _ (transcOfPi 1) (50 / 9) 1 = some "1000-00-00.0" ∧
    (deg2gon "-000-00-00.0" : Option ℚ) = some 0 := by decide +kernel

/-- … and so does an angle just below −1000° whose seconds print as 60 and are carried: −999°59′59.99″ at one
    decimal is `1000-00-00.0` before the sign is placed (this is why the domain ends at 1000° − 0.5″) -/
theorem latlong_carry_overwrites_digit :
    @latlong ℚ _ _ _ (transcOfPi 1) (-359999999 / 64800000) 1 = some "-000-00-00.0" ∧
    @latlong ℚ _ _ _ (transcOfPi 1) (-359999999 / 64800000) 2 = some "-999-59-59.99" := by decide +kernel

end Gama.Angles
