/-
  PE — part 4: an orientation unknown that received an index APPEARS in `unknowns_` at that index with type 'R'
  (the converse of `unknownsList_sound` for the orientation entries): the later writes of the two loops go to
  other positions, because the numbering is injective on the unknowns the prologue cleared.
-/
import Gama.Lemmas.ProjectEquationsUnknowns
namespace Gama.PE
open Gama Gama.Lin Gama.NetDecision

variable {K : Type}

theorem setU_keep (l : List (Option UEntry)) (i i' : Nat) (u : UEntry) (x : Option (Option UEntry))
    (h : l[i - 1]? = x) (h0 : i ≠ 0) (h0' : i' ≠ 0) (hne : i' ≠ i) : (setU l i' u)[i - 1]? = x := by
  unfold setU
  rw [List.getElem?_set_ne (by omega)]; exact h

theorem resetGuard_of_active (p : Pt K) :
    (p.active_xy = true → Gen.Lin.resetGuard p = true) ∧ (p.active_z = true → Gen.Lin.resetGuard p = true) := by
  unfold Gen.Lin.resetGuard
  constructor <;> intro h <;> simp [h]

theorem ptAt_of_get [Zero K] (net : Net K) (i : Nat) (p : Point K) (h : net.points[i]? = some p) : ptAt net i = p.pt := by
  simp [ptAt, h]

section
variable [TrigScalar K] {net : Net K} {a : Asm K} {b : PassOut K}

/-- the position of a registered orientation unknown survives the writes for other stand-points -/
theorem oriLoop_keep (F : Fresh net a b) (k : Nat) (x : Option (Option UEntry)) (hk0 : a.idx.get ⟨k, .ori⟩ ≠ 0) :
    ∀ (cs : List (Cluster K)) (k0 : Nat) (l : List (Option UEntry)), (∀ j, j < cs.length → k0 + j ≠ k) →
      l[a.idx.get ⟨k, .ori⟩ - 1]? = x → (oriLoop net a.idx k0 cs l)[a.idx.get ⟨k, .ori⟩ - 1]? = x := by
  intro cs
  induction cs with
  | nil => intro k0 l _ h; exact h
  | cons c cs ih =>
    intro k0 l hne h
    have hk : k0 ≠ k := by simpa using hne 0 (by simp)
    have hne' : ∀ j, j < cs.length → k0 + 1 + j ≠ k := fun j hj => by
      have := hne (j + 1) (by simp; omega); omega
    simp only [oriLoop]
    rcases hst : c.stand with _ | ⟨st, _ | o⟩
    · exact ih (k0 + 1) l hne' h
    · exact ih (k0 + 1) l hne' h
    · simp only []
      split
      · rename_i hc
        refine ih (k0 + 1) _ hne' (setU_keep l _ _ _ x h hk0 hc.1 ?_)
        intro e
        have := F.get_inj ⟨k0, .ori⟩ ⟨k, .ori⟩ (Or.inl rfl) (Or.inl rfl) e hc.1
        exact hk (by injection this)
      · exact ih (k0 + 1) l hne' h

/-- … and the writes of the loop over `PD` -/
theorem ptLoop_keep (F : Fresh net a b) (k : Nat) (x : Option (Option UEntry)) (hk0 : a.idx.get ⟨k, .ori⟩ ≠ 0) :
    ∀ (ps : List (Point K)) (i0 : Nat) (l : List (Option UEntry)),
      (∀ j p, ps[j]? = some p → net.points[i0 + j]? = some p) →
      l[a.idx.get ⟨k, .ori⟩ - 1]? = x → (ptLoop a.idx i0 ps l)[a.idx.get ⟨k, .ori⟩ - 1]? = x := by
  intro ps
  induction ps with
  | nil => intro i0 l _ h; exact h
  | cons p ps ih =>
    intro i0 l ht h
    have hp : net.points[i0]? = some p := by simpa using ht 0 p (by simp)
    have ht' : ∀ j p', ps[j]? = some p' → net.points[i0 + 1 + j]? = some p' := by
      intro j p' hj
      have := ht (j + 1) p' (by simpa using hj)
      rw [show i0 + 1 + j = i0 + (j + 1) by omega]; exact this
    have hg : ∀ c : Coord, c ≠ .ori → (p.pt.active_xy = true ∨ p.pt.active_z = true) →
        a.idx.get ⟨i0, c⟩ ≠ 0 → a.idx.get ⟨i0, c⟩ ≠ a.idx.get ⟨k, .ori⟩ := by
      intro c hc hact h0 e
      have hcl : Cleared net ⟨i0, c⟩ := by
        right
        show Gen.Lin.resetGuard (ptAt net i0) = true
        rw [ptAt_of_get net i0 p hp]
        rcases hact with hact | hact
        · exact (resetGuard_of_active _).1 hact
        · exact (resetGuard_of_active _).2 hact
      have := F.get_inj ⟨i0, c⟩ ⟨k, .ori⟩ hcl (Or.inl rfl) e h0
      exact hc (by injection this)
    simp only [ptLoop]
    apply ih (i0 + 1) _ ht'
    have s1 : (if p.pt.active_xy = true ∧ a.idx.get ⟨i0, .x⟩ ≠ 0 then setU l (a.idx.get ⟨i0, .x⟩) ⟨p.id, .X, none⟩ else l)[a.idx.get ⟨k, .ori⟩ - 1]? = x := by
      split
      · rename_i hc; exact setU_keep l _ _ _ x h hk0 hc.2 (hg .x (by simp) (Or.inl hc.1) hc.2)
      · exact h
    generalize (if p.pt.active_xy = true ∧ a.idx.get ⟨i0, .x⟩ ≠ 0 then setU l (a.idx.get ⟨i0, .x⟩) ⟨p.id, .X, none⟩ else l) = l1 at s1 ⊢
    have s2 : (if p.pt.active_xy = true ∧ a.idx.get ⟨i0, .y⟩ ≠ 0 then setU l1 (a.idx.get ⟨i0, .y⟩) ⟨p.id, .Y, none⟩ else l1)[a.idx.get ⟨k, .ori⟩ - 1]? = x := by
      split
      · rename_i hc; exact setU_keep l1 _ _ _ x s1 hk0 hc.2 (hg .y (by simp) (Or.inl hc.1) hc.2)
      · exact s1
    generalize (if p.pt.active_xy = true ∧ a.idx.get ⟨i0, .y⟩ ≠ 0 then setU l1 (a.idx.get ⟨i0, .y⟩) ⟨p.id, .Y, none⟩ else l1) = l2 at s2 ⊢
    split
    · rename_i hc; exact setU_keep l2 _ _ _ x s2 hk0 hc.2 (hg .z (by simp) (Or.inr hc.1) hc.2)
    · exact s2

/-- the loop over the stand-points writes the entry of cluster `k` -/
theorem oriLoop_writes (F : Fresh net a b) (k : Nat) (c : Cluster K) (st : Nat) (o : K)
    (hc : net.clusters[k]? = some c) (hst : c.stand = some (st, some o)) (hact : (ptAt net st).active_xy = true)
    (hk0 : a.idx.get ⟨k, .ori⟩ ≠ 0) :
    ∀ (cs : List (Cluster K)) (k0 : Nat) (l : List (Option UEntry)), l.length = a.np.n →
      (∀ j c', cs[j]? = some c' → net.clusters[k0 + j]? = some c') → k0 ≤ k → k < k0 + cs.length →
      (oriLoop net a.idx k0 cs l)[a.idx.get ⟨k, .ori⟩ - 1]? = some (some ⟨idOf net st, .R, some k⟩) := by
  intro cs
  induction cs with
  | nil => intro k0 l _ _ h1 h2; simp at h2; omega
  | cons c0 cs ih =>
    intro k0 l hlen ht h1 h2
    have ht' : ∀ j c', cs[j]? = some c' → net.clusters[k0 + 1 + j]? = some c' := by
      intro j c' hj
      have := ht (j + 1) c' (by simpa using hj)
      rw [show k0 + 1 + j = k0 + (j + 1) by omega]; exact this
    by_cases hk : k0 = k
    · subst hk
      have hc0 : c0 = c := by
        have := ht 0 c0 (by simp)
        simp only [Nat.add_zero] at this
        rw [hc] at this; injection this with this; exact this.symm
      subst hc0
      simp only [oriLoop, hst]
      rw [if_pos ⟨hk0, hact⟩]
      refine oriLoop_keep F k0 _ hk0 cs (k0 + 1) _ (fun j _ => by omega) ?_
      unfold setU
      have hle := F.get_le ⟨k0, .ori⟩ (Or.inl rfl)
      rw [List.getElem?_set_self (by rw [hlen]; omega)]
    · simp only [oriLoop]
      have hlen' : ∀ l' : List (Option UEntry), l'.length = a.np.n → True := fun _ _ => trivial
      rcases hst0 : c0.stand with _ | ⟨st0, _ | o0⟩
      · exact ih (k0 + 1) l hlen ht' (by omega) (by simp at h2; omega)
      · exact ih (k0 + 1) l hlen ht' (by omega) (by simp at h2; omega)
      · simp only []
        split
        · exact ih (k0 + 1) _ (by rw [setU_length]; exact hlen) ht' (by omega) (by simp at h2; omega)
        · exact ih (k0 + 1) l hlen ht' (by omega) (by simp at h2; omega)

/-- **a registered orientation unknown is in `unknowns_`**: stand-point `k` with an orientation, an
    `active_xy()` station and `index_orientation() = i ≠ 0` ⇒ `unknowns_[i-1] = ('R', station, k)` -/
theorem ori_registered (F : Fresh net a b) (k : Nat) (c : Cluster K) (st : Nat) (o : K)
    (hc : net.clusters[k]? = some c) (hst : c.stand = some (st, some o)) (hact : (ptAt net st).active_xy = true)
    (hk0 : a.idx.get ⟨k, .ori⟩ ≠ 0) :
    (unknownsList net a.idx)[a.idx.get ⟨k, .ori⟩ - 1]? = some (some ⟨idOf net st, .R, some k⟩) := by
  unfold unknownsList
  refine ptLoop_keep F k _ hk0 net.points 0 _ (fun j p h => by simpa using h) ?_
  have hk : k < net.clusters.length := by
    rcases Nat.lt_or_ge k net.clusters.length with h | h
    · exact h
    · rw [List.getElem?_eq_none h] at hc; cases hc
  exact oriLoop_writes F k c st o hc hst hact hk0 net.clusters 0 _
    (by rw [List.length_replicate, F.maxn, F.n]) (fun j c' h => by simpa using h) (Nat.zero_le _) (by omega)

end

end Gama.PE
