/-
  C14 round 7 — "results": the network-level solution (`Ls.Net.netSolve` on the problem assembled by
  the executed model of `project_equations()`) reads the network only through what C14's views show.
-/
import Gama.Model.RevisePE
namespace Gama.RevPE
open Gama Gama.Ls.Net

variable {K : Type}

/-! ### the solver façade reads `(m, n, rows, rhs, cofactor blocks, min_x)` -/

theorem prepare_congr [Scalar K] (np1 np2 : NetProblem K) (hm : np1.m = np2.m) (hn : np1.n = np2.n)
    (hr : np1.rows = np2.rows) (hb : np1.rhs = np2.rhs) (hc : cofs np1 = cofs np2) :
    prepare np1 = prepare np2 := by
  unfold prepare denseA dimsN
  rw [hm, hn, hr, hb, hc]

theorem netSolve_congr [Scalar K] (alg : Ls.Alg) (np1 np2 : NetProblem K) (hm : np1.m = np2.m) (hn : np1.n = np2.n)
    (hr : np1.rows = np2.rows) (hb : np1.rhs = np2.rhs) (hc : cofs np1 = cofs np2) (hx : np1.minx = np2.minx) :
    netSolve alg np1 = netSolve alg np2 := by
  have hp := prepare_congr np1 np2 hm hn hr hb hc
  have ht : toProblem np1 = toProblem np2 := by unfold toProblem; rw [hm, hn, hr, hb, hc, hx]
  have hd : ∀ h, dotProblem np1 h = dotProblem np2 h := by intro h; unfold dotProblem; rw [ht, hx]
  have hbk : ∀ Us v, backRes np1 Us v = backRes np2 Us v := by
    intro Us v; unfold backRes dimsN; rw [hm, hc]
  unfold netSolve netFull netSparse
  rw [hp, ht, hm]
  simp only [hd, hbk]

/-! ### assembling the network without its passive observations -/

theorem revisedFrom_delObs [Zero K] (f : PE.Cluster K → PE.Cluster K)
    (hf : ∀ c, (f c).obs = c.obs.filter (·.active)) : ∀ (cs : List (PE.Cluster K)) (k : Nat),
    PE.revisedFrom k (cs.map f) = PE.revisedFrom k cs
  | [], _ => rfl
  | c :: cs, k => by
    simp only [List.map_cons, PE.revisedFrom, hf, revisedFrom_delObs f hf cs (k + 1), List.filter_filter, Bool.and_self]

theorem revisedObs_delObs [Zero K] (net : PE.Net K) : PE.revisedObs (delObs net) = PE.revisedObs net :=
  revisedFrom_delObs delCl (fun _ => rfl) net.clusters 0

theorem stand_delObs [Zero K] (net : PE.Net K) (k : Nat) :
    ((delObs net).clusters[k]?).map (·.stand) = (net.clusters[k]?).map (·.stand) := by
  unfold delObs
  simp only [List.getElem?_map, Option.map_map]
  rfl

theorem sigmaOf_delObs [Zero K] (net : PE.Net K) : PE.sigmaOf (delObs net) = PE.sigmaOf net := by
  unfold PE.sigmaOf
  congr 1
  funext k
  have h := stand_delObs net k
  cases h1 : (delObs net).clusters[k]? <;> cases h2 : net.clusters[k]? <;> simp_all

theorem oriOK_delObs [Zero K] (net : PE.Net K) : PE.oriOK (delObs net) = PE.oriOK net := by
  funext ob
  unfold PE.oriOK
  have h := stand_delObs net ob.sp
  cases ob.kind <;> try rfl
  cases h1 : (delObs net).clusters[ob.sp]? <;> cases h2 : net.clusters[ob.sp]? <;> simp_all

theorem oriLoop_map [Zero K] (net net' : PE.Net K) (hp : net'.points = net.points) (idx : Lin.IdxState)
    (f : PE.Cluster K → PE.Cluster K) (hf : ∀ c, (f c).stand = c.stand) :
    ∀ (cs : List (PE.Cluster K)) (k : Nat) (l : List (Option PE.UEntry)),
    PE.oriLoop net' idx k (cs.map f) l = PE.oriLoop net idx k cs l
  | [], _, _ => rfl
  | c :: cs, k, l => by
    simp only [List.map_cons, PE.oriLoop, hf]
    have h1 : ∀ st, PE.ptAt net' st = PE.ptAt net st := by intro st; unfold PE.ptAt; rw [hp]
    have h2 : ∀ st, PE.idOf net' st = PE.idOf net st := by intro st; unfold PE.idOf; rw [hp]
    simp only [h1, h2]
    exact oriLoop_map net net' hp idx f hf cs (k + 1) _

theorem unknownsList_delObs [Zero K] (net : PE.Net K) (idx : Lin.IdxState) :
    PE.unknownsList (delObs net) idx = PE.unknownsList net idx := by
  unfold PE.unknownsList
  exact congrArg _ (oriLoop_map net (delObs net) rfl idx delCl (fun _ => rfl) net.clusters 0 _)

/-- assembling the network from which the passive observations were deleted (positions kept) gives the
    same rows, right-hand side, numbering and `unknowns_`; only the cluster records differ -/
theorem assemble_delObs [TrigScalar K] (net : PE.Net K) (a : PE.Asm K) (h : PE.assemble net = .ok a) :
    PE.assemble (delObs net) = .ok { a with np := { a.np with clusters := PE.npClusters (delObs net) } } := by
  unfold PE.assemble at h ⊢
  rw [revisedObs_delObs]
  have hl : PE.linPass (delObs net) (PE.revisedObs net) ((delObs net).idx.resetPass (PE.guardOf (delObs net))) =
      PE.linPass net (PE.revisedObs net) (net.idx.resetPass (PE.guardOf net)) := by
    unfold PE.linPass
    rw [oriOK_delObs, sigmaOf_delObs]
    rfl
  dsimp only at h ⊢
  rw [hl]
  split at h
  · cases h
  · rename_i r hr
    injection h with h
    subst h
    simp only [unknownsList_delObs]
    rfl

/-! ### the cofactor blocks -/

/-- `Cluster::activeCov()` taken of a block that is already the active block (all of it active) returns
    the block.  Round 7: a named hypothesis.  Round 8: PROVED for every network
    (`RevPE.activeCovIdem_all`, Lemmas/ReviseStable.lean, from the extensionality of the packed band
    storage `Cov.CovMat.ext_of_get`, Lemmas/CovExt.lean); kept as a definition because the lemmas below
    take it as an argument. -/
def ActiveCovIdem [Scalar K] (net : PE.Net K) : Prop :=
  ∀ c ∈ net.clusters,
    Cov.activeCov (delCl c).cov ((delCl c).obs.map fun o => ⟨o.active, 1⟩) = (delCl c).cov

theorem nAct_delCl [Scalar K] (c : PE.Cluster K) :
    (⟨(delCl c).cov, (delCl c).obs.map (·.active)⟩ : Cluster K).nAct = (⟨c.cov, c.obs.map (·.active)⟩ : Cluster K).nAct := by
  unfold Cluster.nAct delCl
  simp only
  induction c.obs with
  | nil => rfl
  | cons o os ih => cases h : o.active <;> simp_all [List.filter_cons]

theorem cofs_delObs [Scalar K] (net : PE.Net K) (hI : ActiveCovIdem net) (m0 : K) :
    ((PE.npClusters (delObs net)).filter (fun c => c.nAct != 0)).map (Cluster.cofactor m0) =
    ((PE.npClusters net).filter (fun c => c.nAct != 0)).map (Cluster.cofactor m0) := by
  unfold PE.npClusters delObs
  simp only [List.map_map]
  unfold ActiveCovIdem at hI
  generalize net.clusters = cs at hI
  induction cs with
  | nil => rfl
  | cons c cs ih =>
    have ih' := ih (fun c' hc' => hI c' (by simp [hc']))
    have hn := nAct_delCl c
    have hc := hI c (by simp)
    simp only [List.map_cons, List.filter_cons, Function.comp]
    rw [hn]
    split
    · simp only [List.map_cons, ih']
      congr 1
      unfold Cluster.cofactor Cluster.obs
      simp only [List.map_map, Function.comp]
      have e1 : ∀ l : List (PE.Ob K), List.map ((fun a => ({ active := a, dimension := 1 } : Cov.ObsInfo)) ∘ fun x : PE.Ob K => x.active) l =
          l.map fun o => ⟨o.active, 1⟩ := fun _ => rfl
      rw [e1, e1, hc]
      rfl
    · exact ih'

/-- **the solution does not see the passive observations** (one inner call of `project_equations()`):
    if assembling `net` succeeds with `a`, assembling `delObs net` succeeds with some `a'` which has the same
    numbering and `unknowns_`, and for every algorithm and every regularisation list the network-level
    solution `netSolve` of the two assembled problems is the same. -/
theorem netSolve_delObs [TrigScalar K] (net : PE.Net K) (hI : ActiveCovIdem net) (a : PE.Asm K)
    (h : PE.assemble net = .ok a) :
    ∃ a', PE.assemble (delObs net) = .ok a' ∧ a'.idx = a.idx ∧ a'.list = a.list ∧
      ∀ (alg : Ls.Alg) (mx : List Nat),
        netSolve alg { a'.np with minx := mx } = netSolve alg { a.np with minx := mx } := by
  refine ⟨_, assemble_delObs net a h, rfl, rfl, fun alg mx => ?_⟩
  apply netSolve_congr <;> try rfl
  have hm0 : a.np.m0 = net.m0 ∧ a.np.clusters = PE.npClusters net := by
    unfold PE.assemble at h
    dsimp only at h
    split at h
    · cases h
    · injection h with h; subst h; exact ⟨rfl, rfl⟩
  unfold cofs activeClusters
  simp only [hm0.2]
  exact cofs_delObs net hI _

end Gama.RevPE
