/-
  Lemmas about the run of the GKF parser model (Model/GkfRun.lean over Gen/GkfAutomaton.lean).
  Facts about the GENERATED tables are proved by `decide`: they are re-checked whenever the
  C++ (hence the table) changes.
-/
import Gama.Model.GkfRun
namespace Gama.Gkf

/-! ### CoreParser::error -/

theorem error_of_some {st : St} {e} (k : ErrKind) (h : st.err = some e) : st.error k = st := by
  simp [St.error, h]

theorem error_of_none {st : St} (k : ErrKind) (h : st.err = none) :
    st.error k = { st with err := some (st.n, k), state := .error_ } := by
  simp [St.error, h]

theorem error_err_isSome (st : St) (k : ErrKind) : (st.error k).err.isSome = true := by
  unfold St.error; split <;> simp_all

theorem error_n (st : St) (k : ErrKind) : (st.error k).n = st.n := by
  unfold St.error; split <;> simp

theorem error_state_of_error {st : St} (k : ErrKind) (h : st.state = .error_) :
    (st.error k).state = .error_ := by
  unfold St.error; split <;> simp_all

theorem error_err_preserved {st : St} {e} (k : ErrKind) (h : st.err = some e) :
    (st.error k).err = some e := by rw [error_of_some k h]; exact h

/-- `error()` on a state without a recorded error records it with the current position -/
theorem error_err_new {st : St} (k : ErrKind) (h : st.err = none) :
    (st.error k).err = some (st.n, k) := by rw [error_of_none k h]

/-! ### handlers -/

theorem execOps_err_preserved (ops : List Op) (as : List Attr) (d : Bool) :
    ∀ (st : St) (f : Bool) e, st.err = some e → (execOps ops as d st f).err = some e := by
  induction ops with
  | nil => intro st f e h; simpa [execOps] using h
  | cons o r ih =>
    intro st f e h
    cases o with
    | setState s => simp only [execOps]; exact ih _ _ _ (by simpa using h)
    | attrs hd =>
      simp only [execOps]; split
      · exact ih _ _ _ h
      · exact ih _ _ _ (error_err_preserved _ h)
    | retIfFailed => simp only [execOps]; split
                     · exact h
                     · exact ih _ _ _ h
    | needXYorZ =>
      simp only [execOps]; split
      · exact ih _ _ _ h
      · exact ih _ _ _ (error_err_preserved _ h)
    | ret => simpa [execOps] using h

theorem execOps_n (ops : List Op) (as : List Attr) (d : Bool) :
    ∀ (st : St) (f : Bool), (execOps ops as d st f).n = st.n := by
  induction ops with
  | nil => intro st f; simp [execOps]
  | cons o r ih =>
    intro st f
    cases o with
    | setState s => simp only [execOps]; rw [ih]
    | attrs hd => simp only [execOps]; split <;> rw [ih] <;> simp [error_n]
    | retIfFailed =>
      simp only [execOps]; split
      · rfl
      · rw [ih]
    | needXYorZ => simp only [execOps]; split <;> rw [ih] <;> simp [error_n]
    | ret => simp [execOps]

/-- a newly recorded error carries the position at entry -/
theorem execOps_err_new (ops : List Op) (as : List Attr) (d : Bool) :
    ∀ (st : St) (f : Bool), st.err = none →
      (execOps ops as d st f).err = none ∨ ∃ k, (execOps ops as d st f).err = some (st.n, k) := by
  induction ops with
  | nil => intro st f h; left; simpa [execOps] using h
  | cons o r ih =>
    intro st f h
    have keep : ∀ (st' : St) (f' : Bool) k, st'.err = some (st.n, k) →
        ∃ k, (execOps r as d st' f').err = some (st.n, k) :=
      fun st' f' k h' => ⟨k, execOps_err_preserved r as d st' f' _ h'⟩
    cases o with
    | setState s => simp only [execOps]; exact ih _ _ (by simpa using h)
    | attrs hd =>
      simp only [execOps]; split
      · exact ih _ _ h
      · right; exact keep _ _ _ (error_err_new _ h)
    | retIfFailed => simp only [execOps]; split
                     · left; exact h
                     · exact ih _ _ h
    | needXYorZ =>
      simp only [execOps]; split
      · exact ih _ _ h
      · right; exact keep _ _ _ (error_err_new _ h)
    | ret => left; simpa [execOps] using h

/-! ### one event -/

theorem react_n (st : St) (e : Event) : (react st e).n = st.n := by
  cases e with
  | start t as d =>
    simp only [react]; split <;> simp [execOps_n, error_n]
  | stop d =>
    simp only [react]; split
    · split
      · rfl
      · split <;> simp [error_n]
    · simp [error_n]
    · rfl
  | text s => simp only [react]; split <;> simp [error_n]

theorem step_n (st : St) (e : Event) : (step st e).n = st.n + 1 := by simp [step]

theorem react_err_preserved (st : St) (ev : Event) {e} (h : st.err = some e) : (react st ev).err = some e := by
  cases ev with
  | start t as d =>
    simp only [react]; split
    · exact execOps_err_preserved _ _ _ _ _ _ h
    · simpa using h
    · exact error_err_preserved _ h
    · exact h
  | stop d =>
    simp only [react]; split
    · split
      · simpa using h
      · split
        · simpa using h
        · exact error_err_preserved _ (by simpa using h)
    · exact error_err_preserved _ h
    · simpa using h
  | text s =>
    simp only [react]; split
    · exact h
    · exact error_err_preserved _ h

theorem step_err_preserved (st : St) (ev : Event) {e} (h : st.err = some e) : (step st ev).err = some e := by
  simp [step, react_err_preserved st ev h]

theorem react_err_new (st : St) (ev : Event) (h : st.err = none) :
    (react st ev).err = none ∨ ∃ k, (react st ev).err = some (st.n, k) := by
  cases ev with
  | start t as d =>
    simp only [react]; split
    · exact execOps_err_new _ _ _ _ _ h
    · left; simpa using h
    · right; exact ⟨_, error_err_new _ h⟩
    · left; exact h
  | stop d =>
    simp only [react]; split
    · split
      · left; simpa using h
      · split
        · left; simpa using h
        · right; exact ⟨_, by rw [error_err_new _ (by simpa using h)]⟩
    · right; exact ⟨_, error_err_new _ h⟩
    · left; simpa using h
  | text s =>
    simp only [react]; split
    · left; exact h
    · right; exact ⟨_, error_err_new _ h⟩

theorem step_err_new (st : St) (ev : Event) (h : st.err = none) :
    (step st ev).err = none ∨ ∃ k, (step st ev).err = some (st.n, k) := by
  simpa [step] using react_err_new st ev h

/-! ### runs -/

theorem run_nil (st : St) : run st [] = st := rfl
theorem run_cons (st : St) (e : Event) (es : List Event) : run st (e :: es) = run (step st e) es := rfl
theorem run_append (st : St) (a b : List Event) : run st (a ++ b) = run (run st a) b := by
  simp [run, List.foldl_append]

theorem run_n (evs : List Event) : ∀ st : St, (run st evs).n = st.n + evs.length := by
  induction evs with
  | nil => intro st; simp [run]
  | cons e es ih => intro st; rw [run_cons, ih, step_n]; simp; omega

theorem run_err_preserved (evs : List Event) : ∀ (st : St) e, st.err = some e → (run st evs).err = some e := by
  induction evs with
  | nil => intro st e h; exact h
  | cons ev es ih => intro st e h; rw [run_cons]; exact ih _ _ (step_err_preserved st ev h)

/-- the recorded error is that of the first offending event -/
theorem run_err_located (evs : List Event) : ∀ (st : St) i k, st.err = none → (run st evs).err = some (i, k) →
    st.n ≤ i ∧ i < st.n + evs.length ∧
    (run st (evs.take (i - st.n))).err = none ∧
    (run st (evs.take (i - st.n + 1))).err = some (i, k) := by
  induction evs with
  | nil => intro st i k h h'; simp [run] at h'; rw [h] at h'; cases h'
  | cons ev es ih =>
    intro st i k h h'
    rw [run_cons] at h'
    rcases step_err_new st ev h with hn | ⟨k', hk⟩
    · have := ih (step st ev) i k hn h'
      rw [step_n] at this
      obtain ⟨h1, h2, h3, h4⟩ := this
      refine ⟨by omega, by simp; omega, ?_, ?_⟩
      · have : i - st.n = (i - (st.n + 1)) + 1 := by omega
        rw [this, List.take_succ_cons, run_cons]; exact h3
      · have : i - st.n + 1 = (i - (st.n + 1) + 1) + 1 := by omega
        rw [this, List.take_succ_cons, run_cons]; exact h4
    · have := run_err_preserved es (step st ev) _ hk
      rw [this] at h'
      cases h'
      refine ⟨Nat.le_refl _, by simp, ?_, ?_⟩
      · simpa [run] using h
      · simp [run, hk]

/-! ### the error state is absorbing (facts about the generated tables by `decide`) -/

theorem Tag.mem_all (t : Tag) : t ∈ Tag.all := by cases t <;> decide
theorem State.mem_all (s : State) : s ∈ State.all := by cases s <;> decide
theorem Handler.mem_all (h : Handler) : h ∈ Handler.all := by cases h <;> decide

/-- a decidable predicate holds for every tag if it holds on the generated list of all tags -/
theorem forall_tag {p : Tag → Prop} [DecidablePred p] (h : Tag.all.all (fun t => decide (p t)) = true) : ∀ t, p t :=
  fun t => by simpa using (List.all_eq_true.mp h) t (Tag.mem_all t)
theorem forall_state {p : State → Prop} [DecidablePred p] (h : State.all.all (fun t => decide (p t)) = true) : ∀ t, p t :=
  fun t => by simpa using (List.all_eq_true.mp h) t (State.mem_all t)
theorem forall_handler {p : Handler → Prop} [DecidablePred p] (h : Handler.all.all (fun t => decide (p t)) = true) : ∀ t, p t :=
  fun t => by simpa using (List.all_eq_true.mp h) t (Handler.mem_all t)

def StartAct.isErr : StartAct → Bool
  | .err _ => true
  | _ => false
def StopAct.staysError : StopAct → Bool
  | .silent => true
  | .fail _ => true
  | _ => false

theorem start_error_is_err : ∀ t : Tag, (start .error_ t).isErr = true := forall_tag (by decide)

theorem stop_error_stays : (stop .error_).staysError = true := by decide

theorem react_error_absorbing (st : St) (ev : Event) (h : st.state = .error_) : (react st ev).state = .error_ := by
  cases ev with
  | start t as d =>
    have := start_error_is_err t
    simp only [react, h]
    cases hs : start .error_ t with
    | err k => exact error_state_of_error _ h
    | run hd => rw [hs] at this; cases this
    | set s => rw [hs] at this; cases this
    | ignore => rw [hs] at this; cases this
  | stop d =>
    have := stop_error_stays
    simp only [react, h]
    cases hs : stop .error_ with
    | silent => rfl
    | fail k => exact error_state_of_error _ h
    | goto s f => rw [hs] at this; cases this
  | text s =>
    simp only [react]; split
    · exact h
    · exact error_state_of_error _ h

theorem step_error_absorbing (st : St) (ev : Event) (h : st.state = .error_) : (step st ev).state = .error_ := by
  simp [step, react_error_absorbing st ev h]

theorem run_error_absorbing (evs : List Event) : ∀ st : St, st.state = .error_ → (run st evs).state = .error_ := by
  induction evs with
  | nil => intro st h; exact h
  | cons e es ih => intro st h; rw [run_cons]; exact ih _ (step_error_absorbing st e h)

/-- no (state, tag) pair falls out of startElement's switch -/
theorem start_never_ignore : ∀ (s : State) (t : Tag), start s t ≠ .ignore := by
  have h : ∀ s, Tag.all.all (fun t => decide (start s t ≠ .ignore)) = true := forall_state (by decide)
  intro s t
  exact forall_tag (p := fun t => start s t ≠ .ignore) (h s) t

/-! ### chunked delivery -/

theorem runChunks_error_iff (cs : List (List Event)) : ∀ st : St,
    (runChunks st cs).state = .error_ ↔ (run st cs.flatten).state = .error_ := by
  induction cs with
  | nil => intro st; simp [runChunks, run]
  | cons c cs ih =>
    intro st
    simp only [runChunks, List.flatten_cons, run_append]
    split
    · rename_i h
      constructor
      · intro _; exact run_error_absorbing _ _ h
      · intro _; exact h
    · exact ih _

theorem runChunks_err (cs : List (List Event)) : ∀ st : St,
    (runChunks st cs).err.isSome → (run st cs.flatten).err = (runChunks st cs).err := by
  induction cs with
  | nil => intro st _; simp [runChunks, run]
  | cons c cs ih =>
    intro st
    simp only [runChunks, List.flatten_cons, run_append]
    split
    · intro h
      obtain ⟨e, he⟩ := Option.isSome_iff_exists.mp h
      rw [he]; exact run_err_preserved _ _ _ he
    · exact ih _

end Gama.Gkf
