/-
  Source tie of `operator*(const Mat&, const SymMat&)` (symmat.h, round 12): the regenerated loop — base-1 pointer
  `b = B.begin()-1`, `b[++l]` along row `j` of the packed triangle, then `l += k` down column `j`, both inner loops
  accumulating into ONE `sum` — equals the closed-form hand model `matMulSym` (offsets `symWalk j k - 1`).
-/
import Gama.Gen.MatVecKernels
import Gama.Lemmas.KernelLoopsSym
namespace Gama.MatVec
open Gama.Gen
variable {K : Type}

theorem forE_congr {σ : Type} (lo n : Nat) (s : σ) (f g : Nat → σ → Except Err σ)
    (h : ∀ i, lo ≤ i → i < lo + n → f i = g i) : forE lo n s f = forE lo n s g := by
  induction n with
  | zero => rfl
  | succ n ih =>
    simp only [forE, ih (fun i h1 h2 => h i h1 (by omega)), h (lo + n) (by omega) (by omega)]

variable [Add K] [Mul K] [Zero K]

/-- the two inner loops of `Mat·SymMat` for row start `a` and column `j ≤ n`: ONE `sumLoop` over `k = 1..n` reading
    `B` at the packed position of `(j,k)` through the symmetric accessor -/
theorem sym_inner {β : Type} (A B : Array K) (a j n : Nat) (hj : j ≤ n) (kont : K → Except Err β) :
    (do
      let r ← forE 1 j ((0 : K), a, j * (j - 1) / 2) fun k st => do
        let v ← mulRd A st.2.1 B st.2.2
        pure (st.1 + v, st.2.1 + 1, st.2.2 + 1)
      let r2 ← forE (j + 1) (n + 1 - (j + 1)) (r.1, r.2.1, r.2.2 + j) fun k st => do
        let v ← mulRd A st.2.1 B (st.2.2 - 1)
        pure (st.1 + v, st.2.1 + 1, st.2.2 + k)
      kont r2.1)
    = sumLoop n (fun k0 => mulRd A (a + k0) B (symWalk j (k0 + 1) - 1)) >>= kont := by
  have h1 := forE_acc (K := K) 1 j (a, j * (j - 1) / 2) (fun _ t => mulRd A t.1 B t.2) (fun _ t => (t.1 + 1, t.2 + 1))
  simp only [walk_add2, Nat.mul_one] at h1
  rw [h1]
  -- the first loop is the first `j` terms of the target sum
  have e1 : sumLoop j (fun k => mulRd A (a + k) B (j * (j - 1) / 2 + k))
      = sumFrom (.ok 0) j (fun k0 => mulRd A (a + k0) B (symWalk j (k0 + 1) - 1)) := by
    rw [sumLoop_eq_sumFrom]
    apply sumFrom_congr
    intro k hk
    have : symWalk j (k + 1) = j * (j - 1) / 2 + (k + 1) := by simp [symWalk, show k + 1 ≤ j by omega]
    rw [this]; rfl
  have split : sumLoop n (fun k0 => mulRd A (a + k0) B (symWalk j (k0 + 1) - 1))
      = sumFrom (sumFrom (.ok 0) j (fun k0 => mulRd A (a + k0) B (symWalk j (k0 + 1) - 1))) (n - j)
          (fun t => mulRd A (a + (j + t)) B (symWalk j (j + t + 1) - 1)) := by
    rw [sumLoop_eq_sumFrom, show n = j + (n - j) by omega, sumFrom_add, show j + (n - j) - j = n - j by omega]
  rw [split, ← e1]
  cases sumLoop j (fun k => mulRd A (a + k) B (j * (j - 1) / 2 + k)) with
  | error e => simp only [sumFrom_error]; rfl
  | ok s1 =>
    simp only [bind_assoc, pure_bind]
    have hT : j * (j - 1) / 2 + j + j = (j + 1) * (j + 1 - 1) / 2 + j := by
      rw [Nat.add_sub_cancel, tri_succ j]
    have h2 := forE_accFrom (K := K) (j + 1) (n + 1 - (j + 1)) s1 (a + j, (j + 1) * (j + 1 - 1) / 2 + j)
      (fun _ t => mulRd A t.1 B (t.2 - 1)) (fun k t => (t.1 + 1, t.2 + k))
    simp only [walk_tri] at h2
    show (do
      let r2 ← forE (j + 1) (n + 1 - (j + 1)) (s1, a + j, j * (j - 1) / 2 + j + j) fun k st => do
        let v ← mulRd A st.2.1 B (st.2.2 - 1)
        pure (st.1 + v, st.2.1 + 1, st.2.2 + k)
      kont r2.1) = _
    rw [hT, h2, show n + 1 - (j + 1) = n - j by omega]
    simp only [bind_assoc, pure_bind]
    congr 1
    apply sumFrom_congr
    intro t ht
    have : symWalk j (j + t + 1) = (j + 1 + t) * (j + 1 + t - 1) / 2 + j := by
      rw [show j + t + 1 = j + 1 + t by omega]
      simp only [symWalk, show ¬ (j + 1 + t ≤ j) by omega, if_false]
    rw [this, Nat.add_assoc]
/-- `operator*(const Mat&, const SymMat&)` (symmat.h) -/
theorem gen_matMulSym (A : Mat K) (B : SMat K) : MV.matMulSym A B = matMulSym A B := by
  unfold MV.matMulSym matMulSym
  split
  · rfl
  · by_cases hn : A.cols = 0
    · simp [hn, mkBuf, tabulate]; rfl
    · simp only [hn, if_false, Nat.add_sub_cancel]
      -- the middle loop: for in-range `j` the two inner loops are one `sumLoop`
      have mid : ∀ (a : Nat) (st0 : Array K × Nat),
          (forE 1 A.cols st0 fun j st' => do
            let r ← forE 1 j ((0 : K), a, j * (j - 1) / 2) fun k st => do
              let v ← mulRd A.data st.2.1 B.data st.2.2
              pure (st.1 + v, st.2.1 + 1, st.2.2 + 1)
            let r2 ← forE (j + 1) (A.cols + 1 - (j + 1)) (r.1, r.2.1, r.2.2 + j) fun k st => do
              let v ← mulRd A.data st.2.1 B.data (st.2.2 - 1)
              pure (st.1 + v, st.2.1 + 1, st.2.2 + k)
            let C ← wr st'.1 st'.2 r2.1
            pure (C, st'.2 + 1))
          = forE 1 A.cols st0 fun j st' =>
              (sumLoop A.cols (fun k0 => mulRd A.data (a + k0) B.data (symWalk j (k0 + 1) - 1))) >>= fun x =>
                wr st'.1 st'.2 x >>= fun t' => pure (t', st'.2 + 1) := by
        intro a st0
        apply forE_congr
        intro j h1 h2
        funext st'
        exact sym_inner A.data B.data a j A.cols (by omega) (fun s => do let C ← wr st'.1 st'.2 s; pure (C, st'.2 + 1))
      simp only [mid]
      have hb : ∀ i (done : Array K) r (u : Nat), A.cols ≤ r →
          (fun (i : Nat) (st : Array K × Nat × Nat) => do
            let r ← forE 1 A.cols (st.1, st.2.1) fun j st' =>
              (sumLoop A.cols (fun k0 => mulRd A.data (st.2.2 + k0) B.data (symWalk j (k0 + 1) - 1))) >>= fun x =>
                wr st'.1 st'.2 x >>= fun t' => pure (t', st'.2 + 1)
            pure (r.1, r.2, st.2.2 + A.cols)) i (done ++ Array.replicate r (0 : K), done.size, u)
          = tabulate A.cols ((fun _ (u : Nat) j0 => sumLoop A.cols (fun k0 => mulRd A.data (u + k0) B.data (symWalk (1 + j0) (k0 + 1) - 1))) i u)
              >>= fun a => pure (done ++ a ++ Array.replicate (r - A.cols) (0 : K), done.size + A.cols, (fun _ (u : Nat) => u + A.cols) i u) := by
        intro i done r u hm
        have := forE_fill2 (K := K) 1 r A.cols hm done (fun j => sumLoop A.cols (fun k0 => mulRd A.data (u + k0) B.data (symWalk j (k0 + 1) - 1)))
        simp only [this, bind_assoc, pure_bind]
      have := forE_chunks (K := K) 1 A.cols
        (fun (i : Nat) (st : Array K × Nat × Nat) => do
            let r ← forE 1 A.cols (st.1, st.2.1) fun j st' =>
              (sumLoop A.cols (fun k0 => mulRd A.data (st.2.2 + k0) B.data (symWalk j (k0 + 1) - 1))) >>= fun x =>
                wr st'.1 st'.2 x >>= fun t' => pure (t', st'.2 + 1)
            pure (r.1, r.2, st.2.2 + A.cols))
        (fun _ (u : Nat) j0 => sumLoop A.cols (fun k0 => mulRd A.data (u + k0) B.data (symWalk (1 + j0) (k0 + 1) - 1)))
        (fun _ (u : Nat) => u + A.cols) hb A.rows (A.rows * A.cols) (Nat.le_refl _) 0
      rw [mkBuf, this, chunks_flat]
      simp only [walk_add1, Nat.zero_add, Nat.sub_self, Nat.add_comm 1]
      cases tabulate (A.rows * A.cols) _ <;> simp [bind, Except.bind, pure, Except.pure]

/-! ### the accessor variants read the cells the pointer loops read -/

theorem mbMulVec_mat (A : Mat K) (b : Vec K) : mbMulVec A.mb b = matMulVec A b := by
  unfold mbMulVec matMulVec
  simp only [Mat.mb, matIdx, Nat.add_sub_cancel, mulRd]

theorem mbMulVec_tmat (A : TMat K) (b : Vec K) : mbMulVec A.mb b = tMulVec A b := by
  unfold mbMulVec tMulVec
  simp only [TMat.mb, tmatIdx, Nat.add_sub_cancel, mulRd, Nat.add_comm]

theorem tvecMulMB_mat (b : Vec K) (A : Mat K) : tvecMulMB b A.mb = tvecMulMat b A := by
  unfold tvecMulMB tvecMulMat
  simp only [Mat.mb, matIdx, Nat.add_sub_cancel, mulRd, Nat.add_comm]

end Gama.MatVec
