/-
  C19 — the network level (`Gama/Model/G3Net.lean`): the indices the linearisation reads are those of the
  book (`update_index`), reordering the records permutes the rows and renumbers the columns, and the
  least-squares solution follows (LS5).
-/
import Gama.Model.G3Net
import Gama.Lemmas.G3Assemble
import Gama.Lemmas.G3LinReal
import Mathlib.Logic.Equiv.Fin.Basic
import Mathlib.LinearAlgebra.Matrix.Rank
namespace Gama
namespace G3Net
open Neu G3Book G3Lin Matrix
set_option linter.unusedSectionVars false

variable {ι : Type} [DecidableEq ι]

/-! ### `Parameter::index()` as the linearisation reads it = the index of the book -/

section index
variable {K : Type} [Scalar K]

theorem mkGPt_state (g : NPt K) (ind : Comp → Nat) (c : Comp) : (mkGPt g ind).state c = g.s.normalise.state c := by
  cases c <;> rfl

theorem mkGPt_ind (g : NPt K) (ind : Comp → Nat) (c : Comp) : (mkGPt g ind).ind c = ind c := by
  cases c <;> rfl

/-- the column index a generated linearisation reads for (role, component) is `Parameter::index()` of the
    parameter `Model::update_index` numbered: the index of the book for the point of that name -/
theorem ptsOf_index (net : Net ι K) (idx : Idx ι) (ob : Obs ι) (r : Role) (c : Comp) :
    (ptsOf net idx.ind ob r).index c =
      match roleName ob r with
      | some n => idx.index (isFreePar net.points) (n, c)
      | none => 0 := by
  unfold ptsOf
  cases hn : roleName ob r with
  | none => cases c <;> rfl
  | some n =>
    simp only
    cases hg : net.pts n with
    | none =>
      have : isFreePar net.points (n, c) = false := by
        simp [isFreePar, parState, Net.points, hg, PState.isFree]
      simp only [Idx.index, this]
      cases c <;> rfl
    | some g =>
      simp only [GPt.index, mkGPt_state, mkGPt_ind, Idx.index, isFreePar, parState, Net.points, hg, Option.map_some]

end index

/-! ### the generated functions do not read the members `ind` -/

section geo
variable {K : Type}

/-- a point without its `ind` members -/
def clearInd (p : GPt K) : GPt K := { p with iN := 0, iE := 0, iU := 0 }

theorem genOf_clearInd [Trig K] (ob : Obs ι) (P : Pts K) (o : GObs K) (tol : K) :
    genOf ob P o tol = genOf ob (fun r => clearInd (P r)) o tol := by
  cases ob <;> rfl

theorem genOf_congr [Trig K] (ob : Obs ι) {P Q : Pts K} (h : ∀ r, clearInd (P r) = clearInd (Q r)) (o : GObs K) (tol : K) :
    genOf ob P o tol = genOf ob Q o tol := by
  rw [genOf_clearInd ob P, genOf_clearInd ob Q]
  congr 1
  funext r
  exact h r

theorem ptsOf_clearInd [Scalar K] (net : Net ι K) (i₁ i₂ : Par ι → Nat) (ob : Obs ι) (r : Role) :
    clearInd (ptsOf net i₁ ob r) = clearInd (ptsOf net i₂ ob r) := by
  unfold ptsOf
  cases roleName ob r with
  | none => rfl
  | some n =>
    simp only
    cases net.pts n with
    | none => rfl
    | some g => rfl

theorem holds_clearInd {p q : GPt K} (h : clearInd p = clearInd q) (g : Guard) : g.holds p = g.holds q := by
  have h1 : p.sN = q.sN := show (clearInd p).sN = (clearInd q).sN from congrArg GPt.sN h
  have h2 : p.sE = q.sE := show (clearInd p).sE = (clearInd q).sE from congrArg GPt.sE h
  have h3 : p.sU = q.sU := show (clearInd p).sU = (clearInd q).sU from congrArg GPt.sU h
  cases g <;> simp [Guard.holds, h1, h2, h3]

/-- two point tables with the same states whose indices are related by `σ` give the same sparse row with the
    column indices mapped by `σ` -/
theorem evalRow_renumber {P Q : Pts K} (σ : Nat → Nat) (hgeo : ∀ r, clearInd (P r) = clearInd (Q r))
    (hidx : ∀ r c, (Q r).index c = σ ((P r).index c)) (row : GRow K) :
    evalRow Q row = (evalRow P row).map fun e => (e.1, σ e.2) := by
  simp only [evalRow, List.map_flatMap]
  congr 1
  funext b
  have hact : b.active Q = b.active P := by
    simp only [GBlock.active]
    congr 1
    funext x
    exact (holds_clearInd (hgeo x.1) x.2).symm
  rw [hact]
  by_cases hb : b.active P = true <;> simp [hb, hidx]

end geo

/-- a sparse row with its column indices mapped -/
def mapIdx (σ : Nat → Nat) (r : Row ℝ) : Row ℝ := r.map fun e => (e.1, σ e.2)

/-- one linearisation under two numberings of the same network -/
theorem linObs_renumber (T : Trig ℝ) (net : Net ι ℝ) (idx₁ idx₂ : Idx ι) (σ : Nat → Nat) (h0 : σ 0 = 0)
    (hσ : ∀ q, idx₂.index (isFreePar net.points) q = σ (idx₁.index (isFreePar net.points) q)) (no : NObs ι ℝ) :
    @linObs ι ℝ T net idx₂.ind no =
      ⟨(@linObs ι ℝ T net idx₁.ind no).rows.map (mapIdx σ), (@linObs ι ℝ T net idx₁.ind no).rhs,
        (@linObs ι ℝ T net idx₁.ind no).rejected⟩ := by
  have hg : ∀ r, clearInd (ptsOf net idx₁.ind no.obs r) = clearInd (ptsOf net idx₂.ind no.obs r) :=
    fun r => ptsOf_clearInd net _ _ no.obs r
  have hgen := genOf_congr no.obs hg no.o net.tol
  have hidx : ∀ r c, (ptsOf net idx₂.ind no.obs r).index c = σ ((ptsOf net idx₁.ind no.obs r).index c) := by
    intro r c
    rw [ptsOf_index, ptsOf_index]
    cases roleName no.obs r with
    | none => exact h0.symm
    | some n => exact hσ (n, c)
  simp only [linObs, evalLin]
  rw [← hgen]
  congr 1
  rw [List.map_map]
  apply List.map_congr_left
  intro row _
  exact evalRow_renumber σ hg hidx row

/-! ### a permutation of a list as a bijection of its positions -/

theorem perm_exists_equiv {α : Type} {l l' : List α} (h : l.Perm l') :
    ∃ ρ : Fin l'.length ≃ Fin l.length, ∀ i, l'.get i = l.get (ρ i) := by
  induction h with
  | nil => exact ⟨Equiv.refl _, fun i => i.elim0⟩
  | @cons x l₁ l₂ _ ih =>
    obtain ⟨ρ, hρ⟩ := ih
    refine ⟨(finSuccEquiv l₂.length).trans ((Equiv.optionCongr ρ).trans (finSuccEquiv l₁.length).symm), ?_⟩
    intro i
    refine Fin.cases ?_ (fun j => ?_) i
    · simp
    · simpa using hρ j
  | swap x y l =>
    refine ⟨Equiv.swap (0 : Fin (l.length + 2)) 1, ?_⟩
    intro i
    refine Fin.cases ?_ (fun j => ?_) i
    · simp [Equiv.swap_apply_left]
    · refine Fin.cases ?_ (fun k => ?_) j
      · have : (Fin.succ (0 : Fin (l.length + 1))) = (1 : Fin (l.length + 2)) := rfl
        simp [this, Equiv.swap_apply_right]
      · have h1 : k.succ.succ ≠ (0 : Fin (l.length + 2)) := Fin.succ_ne_zero _
        have h2 : k.succ.succ ≠ (1 : Fin (l.length + 2)) := by
          intro h; have := congrArg Fin.val h; simp at this
        rw [Equiv.swap_apply_of_ne_of_ne h1 h2]
        rfl
  | trans _ _ ih₁ ih₂ =>
    obtain ⟨ρ₁, h₁⟩ := ih₁
    obtain ⟨ρ₂, h₂⟩ := ih₂
    exact ⟨ρ₂.trans ρ₁, fun i => by rw [h₂, h₁]; rfl⟩

/-- … and through a map: `l' ~ l.map g` -/
theorem perm_map_exists_equiv {α β : Type} {l : List α} {l' : List β} (g : α → β) (h : (l.map g).Perm l') :
    ∃ ρ : Fin l'.length ≃ Fin l.length, ∀ i, l'.get i = g (l.get (ρ i)) := by
  obtain ⟨ρ, hρ⟩ := perm_exists_equiv h
  refine ⟨ρ.trans (finCongr (List.length_map g)), fun i => ?_⟩
  rw [hρ i]
  simp

/-! ### the design matrix of a list of sparse rows -/

/-- entry (row r, column k) = sum of the coefficients stored in row r under column index k + 1
    (`SparseMatrix` columns are 1-based; an index 0 or beyond `n` is never a column) -/
def matOfRows {m : Nat} (n : Nat) (rows : Fin m → Row ℝ) : Matrix (Fin m) (Fin n) ℝ :=
  fun r k => (((rows r).filter fun e => e.2 = k.val + 1).map (·.1)).sum

/-- the renumbering of the column indices `1 … n` induced by a bijection of `Fin n` (0 and indices beyond `n`
    are no columns: mapped to 0) -/
def renum {n : Nat} (e : Fin n ≃ Fin n) (i : Nat) : Nat :=
  if h : 1 ≤ i ∧ i ≤ n then (e ⟨i - 1, by omega⟩).val + 1 else 0

theorem renum_zero {n : Nat} (e : Fin n ≃ Fin n) : renum e 0 = 0 := by simp [renum]

theorem renum_eq_iff {n : Nat} (e : Fin n ≃ Fin n) (i : Nat) (k : Fin n) :
    renum e i = k.val + 1 ↔ i = (e.symm k).val + 1 := by
  unfold renum
  by_cases h : 1 ≤ i ∧ i ≤ n
  · rw [dif_pos h]
    constructor
    · intro hk
      have : e ⟨i - 1, by omega⟩ = k := Fin.ext (by omega)
      have h2 : (⟨i - 1, by omega⟩ : Fin n) = e.symm k := by rw [← this]; simp
      have := congrArg Fin.val h2
      simp only at this
      omega
    · intro hk
      have h2 : (⟨i - 1, by omega⟩ : Fin n) = e.symm k := Fin.ext (by simp only; omega)
      rw [h2]; simp
  · rw [dif_neg h]
    constructor
    · intro hk; omega
    · intro hk
      have := (e.symm k).isLt
      omega

/-- rows permuted by `ρ`, column indices renumbered by `e`: the design matrix is `submatrix ρ e.symm` -/
theorem matOfRows_renumber {m m' n : Nat} (rows : Fin m → Row ℝ) (rows' : Fin m' → Row ℝ) (e : Fin n ≃ Fin n)
    (ρ : Fin m' ≃ Fin m) (h : ∀ i, rows' i = mapIdx (renum e) (rows (ρ i))) :
    matOfRows n rows' = (matOfRows n rows).submatrix ρ e.symm := by
  funext r k
  simp only [matOfRows, submatrix_apply, h r, mapIdx, List.filter_map, List.map_map]
  congr 1
  have : (List.filter ((fun e_1 => decide (e_1.2 = k.val + 1)) ∘ fun e_1 => (e_1.1, renum e e_1.2)) (rows (ρ r))) =
      List.filter (fun e_1 => decide (e_1.2 = (e.symm k).val + 1)) (rows (ρ r)) := by
    apply List.filter_congr
    intro a _
    simp only [Function.comp, decide_eq_decide]
    exact renum_eq_iff e a.2 k
  rw [this]
  rfl

/-- the numbering of a permuted record list is the renumbering by a bijection of the columns -/
theorem exists_renum (P : Points ι) {o₁ o₂ : List (Obs ι)} (h : o₁.Perm o₂) :
    (updateObservations P o₁).idx.cols = (updateObservations P o₂).idx.cols ∧
    (updateObservations P o₁).rows = (updateObservations P o₂).rows ∧
    ∃ e : Fin (updateObservations P o₁).idx.cols ≃ Fin (updateObservations P o₁).idx.cols,
      ∀ q, (updateObservations P o₂).idx.index (isFreePar P) q =
        renum e ((updateObservations P o₁).idx.index (isFreePar P) q) := by
  obtain ⟨hrows, _, hc, _, σ, hr, hi, hσ⟩ := order_independent P h
  obtain ⟨inv, _⟩ := final_inv P o₁
  obtain ⟨e, he⟩ := exists_equiv_of_sigma _ σ (fun k a b => by rw [hc]; exact hr k a b) hi
  refine ⟨hc, hrows, e, fun q => ?_⟩
  rw [hσ q]
  by_cases hq : (updateObservations P o₁).idx.index (isFreePar P) q = 0
  · rw [if_pos hq, hq, renum_zero]
  · rw [if_neg hq]
    have hrg := index_range inv hq
    unfold renum
    rw [dif_pos hrg, he]
    congr 1
    simp only
    omega

/-! ### the project equations of the same records in two orders -/

/-- the project equations over ℝ (`realTrig` is not an instance) -/
noncomputable abbrev netEqsR (net : Net ι ℝ) (nobs : List (NObs ι ℝ)) : List (Row ℝ × ℝ) :=
  @netEqs ι ℝ _ realTrig net nobs

/-- the design matrix and the right-hand side of the project equations -/
noncomputable def designOf (n : Nat) (eqs : List (Row ℝ × ℝ)) : Matrix (Fin eqs.length) (Fin n) ℝ :=
  matOfRows n fun i => (eqs.get i).1
def rhsOf (eqs : List (Row ℝ × ℝ)) : Fin eqs.length → ℝ := fun i => (eqs.get i).2

theorem netEqs_perm (net : Net ι ℝ) {n₁ n₂ : List (NObs ι ℝ)} (h : n₁.Perm n₂) :
    (bookOf net n₁).idx.cols = (bookOf net n₂).idx.cols ∧ (bookOf net n₁).rows = (bookOf net n₂).rows ∧
    ∃ (e : Fin (bookOf net n₁).idx.cols ≃ Fin (bookOf net n₁).idx.cols)
      (ρ : Fin (netEqsR net n₂).length ≃ Fin (netEqsR net n₁).length),
      (∀ q, (bookOf net n₂).idx.index (isFreePar net.points) q =
        renum e ((bookOf net n₁).idx.index (isFreePar net.points) q)) ∧
      ∀ i, (netEqsR net n₂).get i =
        (mapIdx (renum e) ((netEqsR net n₁).get (ρ i)).1, ((netEqsR net n₁).get (ρ i)).2) := by
  obtain ⟨hc, hr, e, he⟩ := exists_renum net.points (h.map (·.obs))
  refine ⟨hc, hr, e, ?_⟩
  let g : Row ℝ × ℝ → Row ℝ × ℝ := fun p => (mapIdx (renum e) p.1, p.2)
  let f₁ : NObs ι ℝ → List (Row ℝ × ℝ) := fun o =>
    (@linObs ι ℝ realTrig net (bookOf net n₁).idx.ind o).rows.zip (@linObs ι ℝ realTrig net (bookOf net n₁).idx.ind o).rhs
  have e1 : netEqsR net n₁ = (activeOf net n₁).flatMap f₁ := by
    simp only [netEqsR, netEqs, linearizeNet, List.flatMap_map]
    rfl
  have e2 : netEqsR net n₂ = ((activeOf net n₂).flatMap f₁).map g := by
    simp only [netEqsR, netEqs, linearizeNet, List.flatMap_map, List.map_flatMap]
    congr 1
    funext o
    show (@linObs ι ℝ realTrig net (bookOf net n₂).idx.ind o).rows.zip (@linObs ι ℝ realTrig net (bookOf net n₂).idx.ind o).rhs = _
    rw [linObs_renumber realTrig net (bookOf net n₁).idx (bookOf net n₂).idx (renum e) (renum_zero e) he o]
    simp only [f₁, g]
    rw [List.zip_map_left]
    apply List.map_congr_left
    intro a _
    rfl
  have hp : ((netEqsR net n₁).map g).Perm (netEqsR net n₂) := by
    rw [e1, e2]
    exact ((h.filter _).flatMap_right f₁).map g
  obtain ⟨ρ, hρ⟩ := perm_map_exists_equiv g hp
  exact ⟨ρ, he, hρ⟩

/-- **same records, other order ⇒ the same least-squares problem up to explicit permutations.** -/
theorem record_order_independent (net : Net ι ℝ) {n₁ n₂ : List (NObs ι ℝ)} (h : n₁.Perm n₂) :
    (bookOf net n₁).idx.cols = (bookOf net n₂).idx.cols ∧ (bookOf net n₁).rows = (bookOf net n₂).rows ∧
    ∃ (e : Fin (bookOf net n₁).idx.cols ≃ Fin (bookOf net n₁).idx.cols)
      (ρ : Fin (netEqsR net n₂).length ≃ Fin (netEqsR net n₁).length),
      (∀ q, (bookOf net n₂).idx.index (isFreePar net.points) q =
        renum e ((bookOf net n₁).idx.index (isFreePar net.points) q)) ∧
      designOf (bookOf net n₁).idx.cols (netEqsR net n₂) =
        (designOf (bookOf net n₁).idx.cols (netEqsR net n₁)).submatrix ρ e.symm ∧
      rhsOf (netEqsR net n₂) = rhsOf (netEqsR net n₁) ∘ ρ ∧
      (designOf (bookOf net n₁).idx.cols (netEqsR net n₂)).rank =
        (designOf (bookOf net n₁).idx.cols (netEqsR net n₁)).rank ∧
      (∀ (W : Matrix (Fin (netEqsR net n₁).length) (Fin (netEqsR net n₁).length) ℝ)
          (S : Finset (Fin (bookOf net n₁).idx.cols)) (x : Fin (bookOf net n₁).idx.cols → ℝ)
          (v : Fin (netEqsR net n₁).length → ℝ) (rtr : ℝ),
        LS.IsLSSolution (designOf _ (netEqsR net n₁)) (rhsOf (netEqsR net n₁)) W S x v rtr →
        LS.IsLSSolution (designOf _ (netEqsR net n₂)) (rhsOf (netEqsR net n₂)) (W.submatrix ρ ρ)
          (S.map e.toEmbedding) (x ∘ e.symm) (v ∘ ρ) rtr) := by
  obtain ⟨hc, hr, e, ρ, he, hget⟩ := netEqs_perm net h
  have hm : designOf (bookOf net n₁).idx.cols (netEqsR net n₂) =
      (designOf (bookOf net n₁).idx.cols (netEqsR net n₁)).submatrix ρ e.symm := by
    unfold designOf
    apply matOfRows_renumber _ _ e ρ
    intro i
    rw [hget i]
  have hb : rhsOf (netEqsR net n₂) = rhsOf (netEqsR net n₁) ∘ ρ := by
    funext i
    simp only [rhsOf, Function.comp, hget i]
  refine ⟨hc, hr, e, ρ, he, hm, hb, ?_, ?_⟩
  · rw [hm]
    exact Matrix.rank_submatrix _ ρ e.symm
  · intro W S x v rtr hs
    rw [hm, hb]
    have := hs.perm ρ e.symm
    simpa using this

/-! ### `dm_rows` is the number of project equations -/

theorem revision_rows (P : Points ι) (o : Obs ι) (r : Rev ι) (h : revision P o = some r) : r.rows = o.dimension := by
  cases o <;> simp only [revision, revFromTo] at h <;> (repeat' split at h) <;>
    first
    | (cases h; rfl)
    | (exact absurd h (by simp))

theorem genOf_lengths {K : Type} [Trig K] (ob : Obs ι) (P : Pts K) (o : GObs K) (tol : K) :
    (genOf ob P o tol).rows.length = ob.dimension ∧ (genOf ob P o tol).rhs.length = ob.dimension := by
  cases ob <;> exact ⟨rfl, rfl⟩

theorem sum_rows_active (P : Points ι) {K : Type} (nobs : List (NObs ι K)) :
    ((nobs.filterMap fun o => revision P o.obs).map (·.rows)).sum =
      ((nobs.filter fun o => (revision P o.obs).isSome).map fun o => o.obs.dimension).sum := by
  induction nobs with
  | nil => rfl
  | cons a l ih =>
    cases hr : revision P a.obs with
    | none => simp [List.filterMap_cons, List.filter_cons, hr, ih]
    | some r => simp [List.filterMap_cons, List.filter_cons, hr, ih, revision_rows P a.obs r hr]

/-- the number of project equations is `dm_rows` -/
theorem netEqs_length (net : Net ι ℝ) (nobs : List (NObs ι ℝ)) : (netEqsR net nobs).length = (bookOf net nobs).rows := by
  have hb : (bookOf net nobs).rows = (((nobs.map (·.obs)).filterMap (revision net.points)).map (·.rows)).sum := by
    have := (updateObservations_fold net.points (nobs.map (·.obs)) Book.init).2.1
    simpa [bookOf, updateObservations, Book.init] using this
  rw [hb, List.filterMap_map]
  have hsum := sum_rows_active net.points nobs
  simp only [Function.comp_def] at hsum ⊢
  rw [hsum]
  simp only [netEqsR, netEqs, linearizeNet, List.flatMap_map, List.length_flatMap, activeOf]
  congr 1
  apply List.map_congr_left
  intro o _
  have := @genOf_lengths ι _ ℝ realTrig o.obs (@ptsOf ι ℝ realTrig.toSinCos.toScalar net (bookOf net nobs).idx.ind o.obs) o.o net.tol
  simp only [linObs, evalLin, List.length_zip, List.length_map]
  rw [this.1, this.2, Nat.min_self]

/-- **redundancy = equations − rank** for the assembled network (LS10 composed with the assembly) -/
theorem redundancy_eq_rows_sub_rank (net : Net ι ℝ) (nobs : List (NObs ι ℝ)) :
    redundancy (bookOf net nobs) (LS.nullity (designOf (bookOf net nobs).idx.cols (netEqsR net nobs))) =
      ((netEqsR net nobs).length : ℤ) - ((designOf (bookOf net nobs).idx.cols (netEqsR net nobs)).rank : ℤ) := by
  have h := LS.dof_bookkeeping (designOf (bookOf net nobs).idx.cols (netEqsR net nobs))
  simp only [Fintype.card_fin] at h
  unfold redundancy
  rw [← netEqs_length]
  omega

/-! ### result side: `update_adjustment` and `Point::write_xml` -/

/-- `adj->x()(k)`: the 1-based accessor of a solution vector -/
def vecAt {n : Nat} (x : Fin n → ℝ) (k : Nat) : ℝ := if h : 1 ≤ k ∧ k ≤ n then x ⟨k - 1, by omega⟩ else 0

/-- the unknown of a parameter keeps its value when the columns are renumbered -/
theorem vecAt_renum {n : Nat} (e : Fin n ≃ Fin n) (x : Fin n → ℝ) (k : Nat) :
    vecAt (x ∘ e.symm) (renum e k) = vecAt x k := by
  unfold vecAt renum
  by_cases h : 1 ≤ k ∧ k ≤ n
  · have hlt := (e ⟨k - 1, by omega⟩).isLt
    rw [dif_pos h, dif_pos h, dif_pos ⟨by omega, by omega⟩]
    simp only [Function.comp, Nat.add_sub_cancel, Fin.eta, Equiv.symm_apply_apply]
  · rw [dif_neg h, dif_neg h, dif_neg (by omega)]

section corrections
variable {K : Type} [Scalar K]

theorem foldl_addCor (k : Par ι → Nat) (x : Nat → K) (l : List (Par ι × Nat)) (hn : (l.map Prod.fst).Nodup)
    (cor : Par ι → K) (q : Par ι) :
    (l.foldl (fun c e => if k e.1 ≠ 0 then fun q => if q = e.1 then c q + x (k e.1) / linScale else c q else c) cor) q =
      if q ∈ l.map Prod.fst ∧ k q ≠ 0 then cor q + x (k q) / linScale else cor q := by
  induction l generalizing cor with
  | nil => simp
  | cons a l ih =>
    simp only [List.map_cons, List.nodup_cons] at hn
    rw [List.foldl_cons, ih hn.2]
    by_cases hq : q = a.1
    · subst hq
      have hnot : ¬ (a.1 ∈ l.map Prod.fst ∧ k a.1 ≠ 0) := fun h => hn.1 h.1
      rw [if_neg hnot]
      by_cases hk : k a.1 ≠ 0
      · simp [hk]
      · simp [hk]
    · have : (q ∈ (a :: l).map Prod.fst ∧ k q ≠ 0) ↔ (q ∈ l.map Prod.fst ∧ k q ≠ 0) := by
        simp [hq]
      by_cases hk : k a.1 ≠ 0
      · simp only [hk, ne_eq, not_false_eq_true, if_true, hq, if_false]
        simp only [List.map_cons, List.mem_cons, hq, false_or]
      · simp only [hk, if_false]
        simp only [List.map_cons, List.mem_cons, hq, false_or]

/-- `Model::update_adjustment`, the corrections: exactly the parameters with a column get `x(column)/1000`
    added, every one once -/
theorem addCorrections_eq {fr : Par ι → Bool} {idx : Idx ι} (inv : Inv fr idx) (x : Nat → K) (cor : Par ι → K)
    (q : Par ι) :
    addCorrections fr idx x cor q =
      if idx.index fr q ≠ 0 then cor q + x (idx.index fr q) / linScale else cor q := by
  unfold addCorrections
  rw [foldl_addCor (fun p => idx.index fr p) x idx.par inv.nodup cor q]
  by_cases h : idx.index fr q ≠ 0
  · have := (index_ne_zero_iff inv q).mp h
    rw [if_pos ⟨this.2, h⟩, if_pos h]
  · rw [if_neg (fun hh => h hh.2), if_neg h]

end corrections

/-- the reported result of a point over ℝ -/
noncomputable abbrev reportR (net : Net ι ℝ) (b : Book ι) (a : AdjOut ℝ) (var : ℝ) (n : ι) : Option (PtOut ℝ) :=
  @reportPoint ι ℝ _ realScalar net b a var n

/-- the correction (metres) of component `c` of point `n`: `x(column)/1000` if the component has a column, else 0 -/
noncomputable def neuCorr (P : Points ι) (b : Book ι) (x : Nat → ℝ) (n : ι) (c : Comp) : ℝ :=
  if b.idx.index (isFreePar P) (n, c) ≠ 0 then x (b.idx.index (isFreePar P) (n, c)) / 1000 else 0

/-- **what gama-g3 reports for a point**: `dn de du` are the unknowns of its adjusted components (mm), and
    `X' = X₀ + R · (dn, de, du)/1000` with `R` the point's own n-e-u frame -/
theorem reportR_eq (net : Net ι ℝ) (nobs : List (NObs ι ℝ)) (a : AdjOut ℝ) (var : ℝ) (n : ι) (g : NPt ℝ)
    (hg : net.pts n = some g) :
    ∃ out, reportR net (bookOf net nobs) a var n = some out ∧
      out.dn = neuCorr net.points (bookOf net nobs) a.x n .N * 1000 ∧
      out.de = neuCorr net.points (bookOf net nobs) a.x n .E * 1000 ∧
      out.du = neuCorr net.points (bookOf net nobs) a.x n .U * 1000 ∧
      out.dh = neuCorr net.points (bookOf net nobs) a.x n .U ∧
      out.ax = g.X0 + (g.R.r11 * neuCorr net.points (bookOf net nobs) a.x n .N +
        g.R.r12 * neuCorr net.points (bookOf net nobs) a.x n .E + g.R.r13 * neuCorr net.points (bookOf net nobs) a.x n .U) ∧
      out.ay = g.Y0 + (g.R.r21 * neuCorr net.points (bookOf net nobs) a.x n .N +
        g.R.r22 * neuCorr net.points (bookOf net nobs) a.x n .E + g.R.r23 * neuCorr net.points (bookOf net nobs) a.x n .U) ∧
      out.az = g.Z0 + (g.R.r31 * neuCorr net.points (bookOf net nobs) a.x n .N +
        g.R.r32 * neuCorr net.points (bookOf net nobs) a.x n .E + g.R.r33 * neuCorr net.points (bookOf net nobs) a.x n .U) := by
  have inv : G3Book.Inv (isFreePar net.points) (bookOf net nobs).idx := (final_inv net.points (List.map (fun o : NObs ι ℝ => o.obs) nobs)).1
  have hc : ∀ c, @addCorrections ι ℝ _ realScalar (isFreePar net.points) (bookOf net nobs).idx a.x (fun _ => 0) (n, c) =
      neuCorr net.points (bookOf net nobs) a.x n c := by
    intro c
    rw [@addCorrections_eq ι _ ℝ realScalar _ _ inv a.x (fun _ => 0) (n, c)]
    unfold neuCorr
    rw [linScale_real]
    by_cases h : (bookOf net nobs).idx.index (isFreePar net.points) (n, c) ≠ 0
    · rw [if_pos h, if_pos h]; simp
    · rw [if_neg h, if_neg h]
  have hr : reportR net (bookOf net nobs) a var n = some (@pointOut ℝ realScalar g
      (fun c => @addCorrections ι ℝ _ realScalar (isFreePar net.points) (bookOf net nobs).idx a.x (fun _ => 0) (n, c))
      (fun c => (bookOf net nobs).idx.index (isFreePar net.points) (n, c)) var a.qxx a.x) := by
    simp only [reportR, reportPoint, hg, Option.map_some]
  refine ⟨_, hr, ?_⟩
  have hh : @heightCorrection ℝ realScalar g.s.normalise.sU ((bookOf net nobs).idx.index (isFreePar net.points) (n, .U)) a.x =
      neuCorr net.points (bookOf net nobs) a.x n .U := by
    unfold heightCorrection neuCorr
    rw [linScale_real]
    by_cases h : (bookOf net nobs).idx.index (isFreePar net.points) (n, .U) ≠ 0
    · have hf : isFreePar net.points (n, .U) = true := ((index_ne_zero_iff inv _).mp h).1
      have : g.s.normalise.sU.isFree = true := by
        simpa [isFreePar, parState, Net.points, hg, PtS.state] using hf
      rw [if_pos this, if_pos h]
    · rw [if_neg h]; simp
  simp [pointOut, hc, hh, linScale_real, Rot.xTransform, Rot.yTransform, Rot.zTransform]

/-- the correction of a component does not depend on the numbering of the columns -/
theorem neuCorr_renumber (P : Points ι) (b₁ b₂ : Book ι) (inv : G3Book.Inv (isFreePar P) b₁.idx)
    (e : Fin b₁.idx.cols ≃ Fin b₁.idx.cols)
    (he : ∀ q, b₂.idx.index (isFreePar P) q = renum e (b₁.idx.index (isFreePar P) q))
    (x : Fin b₁.idx.cols → ℝ) (n : ι) (c : Comp) :
    neuCorr P b₂ (vecAt (x ∘ e.symm)) n c = neuCorr P b₁ (vecAt x) n c := by
  unfold neuCorr
  rw [he (n, c)]
  by_cases h : b₁.idx.index (isFreePar P) (n, c) = 0
  · rw [h, renum_zero]; simp
  · have hrg := index_range inv h
    have hne : renum e (b₁.idx.index (isFreePar P) (n, c)) ≠ 0 := by
      unfold renum; rw [dif_pos hrg]; omega
    rw [if_pos hne, if_pos h, vecAt_renum]

/-- the matrix–vector product of the assembled design matrix is the sparse row applied to the unknowns
    (`Σ coef · x(index)`, 1-based; an index 0 or beyond `n` contributes nothing) -/
theorem matOfRows_mulVec {m n : Nat} (rows : Fin m → Row ℝ) (x : Fin n → ℝ) (i : Fin m) :
    (matOfRows n rows *ᵥ x) i = @rowDot ℝ realScalar (rows i) (vecAt x) := by
  simp only [Matrix.mulVec, dotProduct, matOfRows]
  generalize rows i = row
  induction row with
  | nil => simp [rowDot]
  | cons a row ih =>
    have hsplit : ∀ k : Fin n, (((a :: row).filter fun e => e.2 = k.val + 1).map (·.1)).sum =
        (if a.2 = k.val + 1 then a.1 else 0) + ((row.filter fun e => e.2 = k.val + 1).map (·.1)).sum := by
      intro k
      by_cases hk : a.2 = k.val + 1 <;> simp [List.filter_cons, hk]
    simp only [hsplit, add_mul, Finset.sum_add_distrib, ih]
    have hhead : (∑ k : Fin n, (if a.2 = k.val + 1 then a.1 else 0) * x k) = a.1 * vecAt x a.2 := by
      unfold vecAt
      by_cases h : 1 ≤ a.2 ∧ a.2 ≤ n
      · rw [dif_pos h]
        rw [Finset.sum_eq_single (⟨a.2 - 1, by omega⟩ : Fin n)]
        · simp only; rw [if_pos (by omega)]
        · intro k _ hk
          rw [if_neg]; · simp
          intro hh; apply hk; exact Fin.ext (by simp only; omega)
        · intro hh; exact absurd (Finset.mem_univ _) hh
      · rw [dif_neg h]
        rw [Finset.sum_eq_zero]; · simp
        intro k _
        rw [if_neg]; · simp
        intro hh; have := k.isLt; omega
    rw [hhead]
    simp [rowDot]

/-- if every project equation is satisfied exactly by `x` the right-hand side is `A x` -/
theorem rhsOf_eq_mulVec {n : Nat} (eqs : List (Row ℝ × ℝ)) (x : Fin n → ℝ)
    (h : ∀ p ∈ eqs, p.2 = @rowDot ℝ realScalar p.1 (vecAt x)) : rhsOf eqs = designOf n eqs *ᵥ x := by
  funext i
  rw [designOf, matOfRows_mulVec]
  exact h _ (List.get_mem _ _)

/-! ### consistent networks -/

/-- the observed value equals the observation function at the coordinates the linearisation reads -/
def ConsistentAt (P : Pts ℝ) (ob : Obs ι) (o : GObs ℝ) : Prop :=
  match ob with
  | .vector _ _ =>
    o.v1 = @GPt.Xdh ℝ realScalar (P .to) o.toDh - @GPt.Xdh ℝ realScalar (P .frm) o.fromDh ∧
    o.v2 = @GPt.Ydh ℝ realScalar (P .to) o.toDh - @GPt.Ydh ℝ realScalar (P .frm) o.fromDh ∧
    o.v3 = @GPt.Zdh ℝ realScalar (P .to) o.toDh - @GPt.Zdh ℝ realScalar (P .frm) o.fromDh
  | .xyz _ => o.v1 = (P .pt).X ∧ o.v2 = (P .pt).Y ∧ o.v3 = (P .pt).Z
  | .distance _ _ => o.v1 = distanceFn P o
  | .height _ => o.v1 = @GPt.modelHeight ℝ realScalar (P .pt)
  | .hdiff _ _ => o.v1 = @GPt.modelHeight ℝ realScalar (P .to) - @GPt.modelHeight ℝ realScalar (P .frm)
  | .zenith _ _ => o.v1 = zenithFn P o
  | .azimuth _ _ => o.v1 = azimuthFn P o * 200 / Real.pi
  | .angle _ _ _ => o.v1 = angleFn P o

open Gama.Gen.G3Lin in
/-- consistent observations at the generating coordinates: every right-hand side is 0 (all eight types) -/
theorem consistent_fixed_point (P : Pts ℝ) (o : GObs ℝ) (tol : ℝ) :
    (o.v1 = @GPt.Xdh ℝ realScalar (P .to) o.toDh - @GPt.Xdh ℝ realScalar (P .frm) o.fromDh →
     o.v2 = @GPt.Ydh ℝ realScalar (P .to) o.toDh - @GPt.Ydh ℝ realScalar (P .frm) o.fromDh →
     o.v3 = @GPt.Zdh ℝ realScalar (P .to) o.toDh - @GPt.Zdh ℝ realScalar (P .frm) o.fromDh →
       (@vector ℝ realTrig P o tol).rhs = [0, 0, 0]) ∧
    (o.v1 = (P .pt).X → o.v2 = (P .pt).Y → o.v3 = (P .pt).Z → (@xyz ℝ realTrig P o tol).rhs = [0, 0, 0]) ∧
    (o.v1 = distanceFn P o → (@distance ℝ realTrig P o tol).rhs = [0]) ∧
    (o.v1 = @GPt.modelHeight ℝ realScalar (P .pt) → (@height ℝ realTrig P o tol).rhs = [0]) ∧
    (o.v1 = @GPt.modelHeight ℝ realScalar (P .to) - @GPt.modelHeight ℝ realScalar (P .frm) →
       (@hdiff ℝ realTrig P o tol).rhs = [0]) ∧
    (o.v1 = zenithFn P o → (@zenith ℝ realTrig P o tol).rhs = [0]) ∧
    (o.v1 = azimuthFn P o * 200 / Real.pi → (@azimuth ℝ realTrig P o tol).rhs = [0]) ∧
    (o.v1 = angleFn P o → (@angle ℝ realTrig P o tol).rhs = [0]) := by
  refine ⟨?_, ?_, ?_, ?_, ?_, ?_, ?_, ?_⟩
  · intro h1 h2 h3
    have := congrArg LinOut.rhs (gen_vector_eq P o tol)
    rw [show (evalLin P (@vector ℝ realTrig P o tol)).rhs = (@vector ℝ realTrig P o tol).rhs from rfl] at this
    rw [this, h1, h2, h3]
    simp [linVector, toPt, GPt.Xdh, GPt.Ydh, GPt.Zdh, Pt.Xdh, Pt.Ydh, Pt.Zdh]
  · intro h1 h2 h3
    have := congrArg LinOut.rhs (gen_xyz_eq P o tol)
    rw [show (evalLin P (@xyz ℝ realTrig P o tol)).rhs = (@xyz ℝ realTrig P o tol).rhs from rfl] at this
    rw [this, h1, h2, h3]
    simp [linXYZ, toPt]
  · intro h1
    have := congrArg LinOut.rhs (gen_distance_eq P o tol)
    rw [show (evalLin P (@distance ℝ realTrig P o tol)).rhs = (@distance ℝ realTrig P o tol).rhs from rfl] at this
    rw [this, linDistance_rhs, h1, distanceFn]
    simp
  · intro h1
    have := congrArg LinOut.rhs (gen_height_eq P o tol)
    rw [show (evalLin P (@height ℝ realTrig P o tol)).rhs = (@height ℝ realTrig P o tol).rhs from rfl] at this
    rw [this, h1]
    simp [linHeight, toPt, GPt.modelHeight, Pt.modelHeight]
  · intro h1
    have := congrArg LinOut.rhs (gen_hdiff_eq P o tol)
    rw [show (evalLin P (@hdiff ℝ realTrig P o tol)).rhs = (@hdiff ℝ realTrig P o tol).rhs from rfl] at this
    rw [this, h1]
    simp [linHeightDiff, toPt, GPt.modelHeight, Pt.modelHeight]
  · intro h1; rw [zenith_rhs, h1]; simp
  · intro h1
    rw [azimuth_rhs, h1]
    have : Real.pi ≠ 0 := Real.pi_ne_zero
    field_simp
    simp
  · intro h1; rw [angle_rhs, h1]; simp

theorem rhs_zero_of_consistent (ob : Obs ι) (P : Pts ℝ) (o : GObs ℝ) (tol : ℝ) (h : ConsistentAt P ob o) :
    ∀ r ∈ (@genOf ι ℝ realTrig ob P o tol).rhs, r = 0 := by
  obtain ⟨c1, c2, c3, c4, c5, c6, c7, c8⟩ := consistent_fixed_point P o tol
  cases ob with
  | vector f t =>
    intro r hr
    have hr' : r ∈ (@Gen.G3Lin.vector ℝ realTrig P o tol).rhs := hr
    rw [c1 h.1 h.2.1 h.2.2] at hr'
    simpa using hr'
  | xyz p =>
    intro r hr
    have hr' : r ∈ (@Gen.G3Lin.xyz ℝ realTrig P o tol).rhs := hr
    rw [c2 h.1 h.2.1 h.2.2] at hr'
    simpa using hr'
  | distance f t =>
    intro r hr
    have hr' : r ∈ (@Gen.G3Lin.distance ℝ realTrig P o tol).rhs := hr
    rw [c3 h] at hr'
    simpa using hr'
  | height p =>
    intro r hr
    have hr' : r ∈ (@Gen.G3Lin.height ℝ realTrig P o tol).rhs := hr
    rw [c4 h] at hr'
    simpa using hr'
  | hdiff f t =>
    intro r hr
    have hr' : r ∈ (@Gen.G3Lin.hdiff ℝ realTrig P o tol).rhs := hr
    rw [c5 h] at hr'
    simpa using hr'
  | zenith f t =>
    intro r hr
    have hr' : r ∈ (@Gen.G3Lin.zenith ℝ realTrig P o tol).rhs := hr
    rw [c6 h] at hr'
    simpa using hr'
  | azimuth f t =>
    intro r hr
    have hr' : r ∈ (@Gen.G3Lin.azimuth ℝ realTrig P o tol).rhs := hr
    rw [c7 h] at hr'
    simpa using hr'
  | angle f l r' =>
    intro r hr
    have hr' : r ∈ (@Gen.G3Lin.angle ℝ realTrig P o tol).rhs := hr
    rw [c8 h] at hr'
    simpa using hr'

/-- `points->find(name)` for the roles of an observation, over ℝ -/
noncomputable abbrev ptsOfR (net : Net ι ℝ) (ind : Par ι → Nat) (ob : Obs ι) : Pts ℝ :=
  @ptsOf ι ℝ realTrig.toSinCos.toScalar net ind ob

/-- a network all of whose active observations are consistent with the coordinates the linearisation reads
    (approximate = generating coordinates) has the right-hand side 0 -/
theorem rhsOf_zero_of_consistent (net : Net ι ℝ) (nobs : List (NObs ι ℝ))
    (h : ∀ no ∈ activeOf net nobs, ConsistentAt (ptsOfR net (bookOf net nobs).idx.ind no.obs) no.obs no.o) :
    rhsOf (netEqsR net nobs) = 0 := by
  funext i
  simp only [rhsOf, Pi.zero_apply]
  have hm : (netEqsR net nobs).get i ∈ netEqsR net nobs := List.get_mem _ _
  simp only [netEqsR, netEqs, linearizeNet, List.mem_flatMap, List.mem_map] at hm
  obtain ⟨e, ⟨no, hno, rfl⟩, hz⟩ := hm
  have h2 := (List.of_mem_zip hz).2
  exact rhs_zero_of_consistent no.obs _ no.o net.tol (h no hno) _ h2

/-! ### the least-squares solution of a consistent network -/

section ls
variable {m n : Nat} (A : Matrix (Fin m) (Fin n) ℝ) (W : Matrix (Fin m) (Fin m) ℝ)

/-- right-hand side 0, positive definite weights, regularisation set resolving the defect (C01): the only
    least-squares solution in the sense of `IsLSSolution` — whichever algorithm produced it — is `x = 0`,
    with residuals 0 and `Φ = 0` -/
theorem ls_zero (hpd : ∀ d, d ≠ 0 → 0 < d ⬝ᵥ W *ᵥ d) (S : Finset (Fin n)) (hS : LS.Resolves A S)
    {x : Fin n → ℝ} {v : Fin m → ℝ} {rtr : ℝ} (h : LS.IsLSSolution A 0 W S x v rtr) : x = 0 ∧ v = 0 ∧ rtr = 0 := by
  have h0 : LS.IsLSSolution A 0 W S 0 0 0 := ⟨by simp, by simp, by simp, by simp⟩
  exact h.unique h0 hpd hS

/-- one Gauss–Newton step from nearby: right-hand side `A ξ` (observations that are linear in the unknowns and
    consistent with the coordinates displaced by `ξ`), `A` of full column rank: `x = ξ`, residuals 0, `Φ = 0` -/
theorem ls_one_step (hpd : ∀ d, d ≠ 0 → 0 < d ⬝ᵥ W *ᵥ d) (S : Finset (Fin n)) (hker : ∀ g, A *ᵥ g = 0 → g = 0)
    (ξ : Fin n → ℝ) {x : Fin n → ℝ} {v : Fin m → ℝ} {rtr : ℝ} (h : LS.IsLSSolution A (A *ᵥ ξ) W S x v rtr) :
    x = ξ ∧ v = 0 ∧ rtr = 0 := by
  have h0 : LS.IsLSSolution A (A *ᵥ ξ) W S ξ 0 0 :=
    LS.IsLSSolution.of_regular hker (by simp) (by simp) (by simp)
  exact h.unique h0 hpd (LS.resolves_of_ker_trivial hker S)

end ls

end G3Net
end Gama
