/-
  Partial-range solves of the envelope (`Envelope::lowerSolve(start, stop, rhs)`, `diagonalSolve(start, stop, rhs)`
  — called by `cholDec` with `start = row − width`, `stop = row − 1` on the profile row itself — and
  `upperSolve(1, k, rhs)`, the prefix form `solve(rhs, dimension)` uses; lib/gnu_gama/adj/envelope.h).

  `Env.subLDL E start cnt` is the dense `cnt × cnt` block `start … start+cnt−1` of the factor read off the packed
  storage (unit lower triangle `E.entry`, pivots `E.diagonal`).  The ranged packed kernels equal the dense
  triangular solves `Dense.lower / diagS / upper` (Model/Envelope.lean) on that block:

    * `lowerSolve_range`    : any `E`, `1 ≤ start`, `rhs.size = stop + 1 − start`;
    * `diagonalSolve_range` : any `E`, `1 ≤ start`;
    * `upperSolve_prefix`   : `E.ProfileOK`, `k ≤ E.dim` (the C++ `upperSolve` starts at `rhs + stop − 1`, so only
                              `start = 1` addresses `rhs` consistently; no other call exists).
-/
import Gama.Lemmas.EnvelopeLDL

namespace Gama
namespace EnvLDL

open Finset

set_option linter.unusedSectionVars false
set_option linter.unusedVariables false

section
variable {K : Type} [Field K] [LinearOrder K] [IsStrictOrderedRing K] [SqrtFn K]
attribute [local instance] EnvLDL.scalarOfField

/-- the dense block `start … start+cnt−1` of the packed factor: `L(i,j) = E.entry (start+i) (start+j)` for `j < i`,
    `D(i) = E.diagonal (start+i)` -/
def subLDL (E : Env K) (start cnt : Nat) : Dense.LDL K :=
  { L := Array.ofFn fun (i : Fin cnt) => Array.ofFn fun (j : Fin i.1) => E.entry (start + i.1) (start + j.1)
    D := Array.ofFn fun (i : Fin cnt) => E.diag.getD (start + i.1 - 1) 0
    defect := 0 }

theorem subLDL_L (E : Env K) (start cnt i j : Nat) (hi : i < cnt) (hj : j < i) :
    (subLDL E start cnt).L.get i j = E.entry (start + i) (start + j) := by
  unfold subLDL Dense.get
  simp only
  rw [getD_ofFn, dif_pos hi, getD_ofFn, dif_pos hj]

theorem subLDL_D (E : Env K) (start cnt i : Nat) (hi : i < cnt) :
    (subLDL E start cnt).D.getD i 0 = E.diag.getD (start + i - 1) 0 := by
  unfold subLDL
  simp only
  rw [getD_ofFn, dif_pos hi]

/-- `lowerSolve(start, stop, rhs)` = dense forward substitution with the block `start … stop` of `L` -/
theorem lowerSolve_range (E : Env K) (start stop : Nat) (hs : 1 ≤ start) (rhs : Array K)
    (hsz : rhs.size = stop + 1 - start) (hle : start ≤ stop + 1) :
    E.lowerSolve start stop rhs = Dense.lower (subLDL E start (stop + 1 - start)) (stop + 1 - start) rhs := by
  obtain ⟨hsize, _, hrec⟩ := lowerSolve_spec E start stop hs rhs
  obtain ⟨dsz, drec⟩ := push_rec_tri (fun i => rhs.getD i 0)
    (fun i j => (subLDL E start (stop + 1 - start)).L.get i j) (stop + 1 - start)
  have hd : Dense.lower (subLDL E start (stop + 1 - start)) (stop + 1 - start) rhs =
      (List.range (stop + 1 - start)).foldl (fun (y : Array K) i =>
        y.push ((fun i => rhs.getD i 0) i - Dense.sum ((List.range i).map fun c =>
          (fun i j => (subLDL E start (stop + 1 - start)).L.get i j) i c * y.getD c 0))) #[] := rfl
  rw [← hd] at dsz drec
  apply arr_ext_getD _ _ (by rw [hsize, dsz, hsz])
  intro i hi
  rw [hsize, hsz] at hi
  refine tri_unique (fun i => rhs.getD i 0) (fun i j => (subLDL E start (stop + 1 - start)).L.get i j)
    (fun i => (E.lowerSolve start stop rhs).getD i 0)
    (fun i => (Dense.lower (subLDL E start (stop + 1 - start)) (stop + 1 - start) rhs).getD i 0)
    (stop + 1 - start) ?_ drec i hi
  intro x hx
  show (E.lowerSolve start stop rhs).getD x 0 = _
  rw [hrec x (by omega) (by omega)]
  congr 1
  apply Finset.sum_congr rfl
  intro c hc
  have hc' := Finset.mem_range.mp hc
  rw [subLDL_L E start _ x c hx hc']

/-- `diagonalSolve(start, stop, rhs)` = division by the pivots `start … stop` with the zero-pivot rule -/
theorem diagonalSolve_range (E : Env K) (start stop : Nat) (rhs : Array K)
    (hsz : rhs.size = stop + 1 - start) :
    E.diagonalSolve start stop rhs = Dense.diagS (subLDL E start (stop + 1 - start)) (stop + 1 - start) rhs := by
  rw [diagonalSolve_eq]
  obtain ⟨hsize, _, hrec⟩ := dsFold_inv E start rhs (stop + 1 - start)
  have dsz : (Dense.diagS (subLDL E start (stop + 1 - start)) (stop + 1 - start) rhs).size = stop + 1 - start := by
    simp [Dense.diagS]
  apply arr_ext_getD _ _ (by rw [hsize, dsz, hsz])
  intro i hi
  rw [hsize, hsz] at hi
  rw [hrec i hi]
  unfold Dense.diagS
  rw [getD_ofFn, dif_pos hi, subLDL_D E start _ i hi]
  show _ = (if decide (E.diag.getD (start + i - 1) 0 = 0) = true then (0:K) else _)
  by_cases hd : E.diag.getD (start + i - 1) 0 = 0
  · rw [if_pos hd, if_pos (decide_eq_true hd)]
  · rw [if_neg hd, if_neg (fun hh => hd (of_decide_eq_true hh))]

/-- `upperSolve(1, k, rhs)` = dense back substitution with the leading `k × k` block of `Lᵀ` -/
theorem upperSolve_prefix {E : Env K} (hE : E.ProfileOK) (k : Nat) (hk : k ≤ E.dim) (z : Array K) (hz : z.size = k) :
    E.upperSolve 1 k z = Dense.upper (subLDL E 1 k) k z := by
  rw [upperSolve_eq, Nat.add_sub_cancel]
  obtain ⟨usz, _, urec⟩ := upperSolve_inv hE k hk z (by omega)
  obtain ⟨dlen, drec⟩ := duFold_inv (subLDL E 1 k) k z k (Nat.le_refl k)
  have hd : Dense.upper (subLDL E 1 k) k z = (duFold (subLDL E 1 k) k z k).toArray := rfl
  rw [hd]
  generalize (List.range' 1 k).reverse.foldl (usBody E 1) z = c at usz urec ⊢
  apply arr_ext_getD _ _ (by rw [usz, hz]; simp [dlen])
  intro i hi
  rw [usz, hz] at hi
  have hga : ∀ i, (duFold (subLDL E 1 k) k z k).toArray.getD i 0 = (duFold (subLDL E 1 k) k z k).getD i 0 := by
    intro i
    simp [List.getD_eq_getElem?_getD]
  rw [hga]
  refine tri_unique_back (fun i => z.getD i 0) (fun q p => (subLDL E 1 k).L.get q p)
    (fun i => c.getD i 0) (fun i => (duFold (subLDL E 1 k) k z k).getD i 0) k ?_ ?_ i hi
  · intro p hp
    show c.getD p 0 = _
    rw [urec p hp, sum_above (fun q => E.entry (q + 1) (p + 1) * c.getD q 0) k p hp]
    congr 1
    apply Finset.sum_congr rfl
    intro m hm
    have := Finset.mem_range.mp hm
    rw [subLDL_L E 1 k (p + 1 + m) p (by omega) (by omega)]
    rw [show 1 + (p + 1 + m) = p + 1 + m + 1 by omega, show 1 + p = p + 1 by omega]
  · intro p hp
    show (duFold (subLDL E 1 k) k z k).getD p 0 = _
    rw [drec p hp]
    simp only [Nat.sub_self, Nat.zero_add]

end

/-! ### the same with the square root as an explicit parameter (for Props/C16Packed.lean) -/
section Explicit
variable {K : Type} [Field K] [LinearOrder K] [IsStrictOrderedRing K]

theorem lowerSolve_range_dense (sq : K → K) (E : Env K) (start stop : Nat) (hs : 1 ≤ start) (rhs : Array K)
    (hsz : rhs.size = stop + 1 - start) (hle : start ≤ stop + 1) :
    @Env.lowerSolve K (ordFieldScalar K sq) E start stop rhs =
      @Dense.lower K (ordFieldScalar K sq) (@subLDL K _ _ ⟨sq⟩ E start (stop + 1 - start)) (stop + 1 - start) rhs :=
  @lowerSolve_range K _ _ _ ⟨sq⟩ E start stop hs rhs hsz hle

theorem diagonalSolve_range_dense (sq : K → K) (E : Env K) (start stop : Nat) (rhs : Array K)
    (hsz : rhs.size = stop + 1 - start) :
    @Env.diagonalSolve K (ordFieldScalar K sq) E start stop rhs =
      @Dense.diagS K (ordFieldScalar K sq) (@subLDL K _ _ ⟨sq⟩ E start (stop + 1 - start)) (stop + 1 - start) rhs :=
  @diagonalSolve_range K _ _ _ ⟨sq⟩ E start stop rhs hsz

theorem upperSolve_prefix_dense (sq : K → K) {E : Env K} (hE : E.ProfileOK) (k : Nat) (hk : k ≤ E.dim)
    (z : Array K) (hz : z.size = k) :
    @Env.upperSolve K (ordFieldScalar K sq) E 1 k z =
      @Dense.upper K (ordFieldScalar K sq) (@subLDL K _ _ ⟨sq⟩ E 1 k) k z :=
  @upperSolve_prefix K _ _ _ ⟨sq⟩ E hE k hk z hz

theorem subLDL_L_with (sq : K → K) (E : Env K) (start cnt i j : Nat) (hi : i < cnt) (hj : j < i) :
    @Dense.get K (ordFieldScalar K sq) (@subLDL K _ _ ⟨sq⟩ E start cnt).L i j =
      @Env.entry K (ordFieldScalar K sq) E (start + i) (start + j) :=
  @subLDL_L K _ _ _ ⟨sq⟩ E start cnt i j hi hj

theorem subLDL_D_with (sq : K → K) (E : Env K) (start cnt i : Nat) (hi : i < cnt) :
    (@subLDL K _ _ ⟨sq⟩ E start cnt).D.getD i 0 = E.diag.getD (start + i - 1) 0 :=
  @subLDL_D K _ _ _ ⟨sq⟩ E start cnt i hi

end Explicit

end EnvLDL
end Gama
