/-
  A printer with a fixed number of decimal digits that satisfies `Codec.Printer` (= `Codec.PrinterOn` with the trivial
  domain: every law for every number; non-vacuity of the C13 theorems for a lossy number format).  The printer with a
  genuine domain — C18's sexagesimal formatter — is instantiated in Lemmas/DecimalCodecC13.lean.
-/
import Std.Data.String.ToNat
import Gama.Lemmas.ExportQuant
import Gama.Lemmas.ExportExamples
namespace Gama.Export
open Gama.Gen.GkfAttrs Gama.Gen.GkfDoc

/-- a bijection of ℕ that is its own inverse (stands for the pair `* 0.324`, `* (1.0/0.324)`, which are mutually
    inverse over a field: `sec_factors_cancel` below) -/
def swap1 (n : Nat) : Nat := if n % 2 = 0 then n + 1 else n - 1

theorem swap1_swap1 (n : Nat) : swap1 (swap1 n) = n := by
  unfold swap1
  split <;> split <;> omega

def decFmtDeg (n : Nat) : String := String.ofList ('d' :: (Nat.repr ((n + 99) / 100)).toList)

def decRdDeg (t : String) : Option Nat :=
  match t.toList with
  | 'd' :: r => (String.ofList r).toNat?.map (· * 100)
  | _ => none

theorem decRdDeg_d (r : List Char) : decRdDeg (String.ofList ('d' :: r)) = (String.ofList r).toNat?.map (· * 100) := by
  unfold decRdDeg
  rw [String.toList_ofList]
  simp

theorem decRdDeg_fmtDeg (x : Nat) : decRdDeg (decFmtDeg x) = some ((x + 99) / 100 * 100) := by
  unfold decFmtDeg
  rw [decRdDeg_d, String.ofList_toList, Nat.toNat?_repr]
  rfl

theorem decFmtDeg_round (x : Nat) : decFmtDeg ((x + 99) / 100 * 100) = decFmtDeg x := by
  have : ((x + 99) / 100 * 100 + 99) / 100 = (x + 99) / 100 := by omega
  unfold decFmtDeg
  rw [this]

theorem decRdDeg_repr (m : Nat) (h : ∀ r, (Nat.repr m).toList ≠ 'd' :: r) : decRdDeg (Nat.repr m) = none := by
  unfold decRdDeg
  split
  · rename_i r hr
    exact absurd hr (h r)
  · rfl

-- the unifier must not evaluate string operations (UTF-8 encoding and decoding) when it compares the fields of the codec
attribute [irreducible] decRdDeg decFmtDeg

/-- a printer with a fixed number of decimal digits: numbers are counted in units of 10⁻⁴, printed in units of 10⁻³
    (rounded up, so that a non-zero number never prints as zero), as a decimal numeral; the "sexagesimal" text is a
    second, coarser printer (units of 10⁻², marked by a leading `d`) -/
def decCodec : Codec Nat :=
  { fmt := fun n => Nat.repr ((n + 9) / 10), rd := fun t => t.toNat?.map (· * 10), zero := 0, isZero := (· == 0),
    neg := id, fmtI := fun i => Nat.repr (i + 1).toNat, rdI := fun t => t.toNat?.map (fun m => (m : Int) - 1),
    latOut := id, latIn := id,
    fmtDeg := decFmtDeg, rdDeg := decRdDeg,
    toSec := swap1, fromSec := swap1,
    pos := fun n => 0 < n, lt1 := fun _ => true, ellKnown := fun e => e == "wgs84", sdDist := fun s d => s * d }

def decQ (n : Nat) : Nat := (n + 9) / 10 * 10
def decQd (n : Nat) : Nat := (n + 99) / 100 * 100

theorem repr_ne_empty (m : Nat) : Nat.repr m ≠ "" :=
  (String.isNat_iff.mp (Nat.isNat_repr m)).1

/-- a decimal numeral does not start with the letter that marks the sexagesimal text -/
theorem repr_not_d (m : Nat) (r : List Char) : (Nat.repr m).toList ≠ 'd' :: r := by
  intro h
  have hd := (String.isNat_iff.mp (Nat.isNat_repr m)).2.1 'd' (by rw [h]; exact List.mem_cons_self)
  revert hd
  decide

theorem decCodec_printer : decCodec.Printer decQ decQd :=
  { rd_fmt := fun x => by simp [decCodec, decQ, Nat.toNat?_repr]
    fmt_q := fun x => by
      have : ((x + 9) / 10 * 10 + 9) / 10 = (x + 9) / 10 := by omega
      simp [decCodec, decQ, this]
    isZero_iff := fun x => by simp [decCodec]
    isZero_q := fun x => by
      simp only [decCodec, decQ]
      by_cases h : x = 0
      · subst h; rfl
      · have : (x + 9) / 10 * 10 ≠ 0 := by omega
        rw [beq_eq_false_iff_ne.mpr this, beq_eq_false_iff_ne.mpr h]
    pos_q := fun x => by
      simp only [decCodec, decQ]
      by_cases h : x = 0
      · subst h; rfl
      · have h1 : 0 < (x + 9) / 10 * 10 := by omega
        have h2 : 0 < x := by omega
        simp [h1, h2]
    q_neg := fun _ => rfl
    neg_neg := fun _ => rfl
    rdI_fmtI := fun i hi => by
      have : ((i + 1).toNat : Int) = i + 1 := Int.toNat_of_nonneg (by omega)
      show (Nat.repr (i + 1).toNat).toNat?.map (fun m => (m : Int) - 1) = some i
      rw [Nat.toNat?_repr]
      show some (((i + 1).toNat : Int) - 1) = some i
      rw [this]
      congr 1
      omega
    latIn_latOut := fun _ => rfl
    latOut_latIn := fun _ => rfl
    rdDeg_fmt := fun x => by
      show decRdDeg (Nat.repr ((x + 9) / 10)) = none
      exact decRdDeg_repr _ (repr_not_d _)
    fmt_ne := fun x => repr_ne_empty _
    rd_fmtCov := fun x => by simp [decCodec, decQ, Nat.toNat?_repr]
    fmtCov_qc := fun x => by
      have : ((x + 9) / 10 * 10 + 9) / 10 = (x + 9) / 10 := by omega
      simp [decCodec, decQ, this]
    qc_neg := fun _ => rfl
    rdDeg_fmtDeg := fun x _ => by
      show decRdDeg (decFmtDeg x) = some (decQd x)
      exact decRdDeg_fmtDeg x
    fmtDeg_qd := fun x _ => by
      show decFmtDeg (decQd x) = decFmtDeg x
      exact decFmtDeg_round x
    fromSec_toSec := fun x => by
      show swap1 (swap1 x) = x
      exact swap1_swap1 x
    toSec_fromSec := fun x => by
      show swap1 (swap1 x) = x
      exact swap1_swap1 x }

instance : DecidablePred (fun x : Nat => decQ x = x) := fun x => inferInstanceAs (Decidable (decQ x = x))
instance : DecidablePred (fun x : Nat => decQd x = x) := fun x => inferInstanceAs (Decidable (decQd x = x))
instance : DecidablePred (fun x : Nat => True ∧ decQd x = x) := fun x => inferInstanceAs (Decidable (True ∧ decQd x = x))

/-- numbers with a last digit the printer drops; en + left-handed is inconsistent (y, dy mirrored) -/
def lossyNet : Net Nat :=
  { head := ⟨.en, true, some 20213⟩, descr := "lossy",
    par := ⟨101, 9, 10004, true, true, some "gso", some 503, some "wgs84", -1⟩,
    points := [⟨"A", some (1001, 2002), some 3003, .fixed, .fixed⟩, ⟨"B", some (4004, 5005), none, .constr, .free⟩,
               ⟨"C", some (6, 7), none, .unused, .unused⟩],
    clusters := [.vectors [⟨"A", "B", 31, 32, 33, 0, 0, ""⟩] ⟨3, 2, [11, 1, 2, 12, 3, 13]⟩] }

theorem lossyNet_WF :
    (quantNet decCodec decQ decQ decQd lossyNet).WFc decCodec (fun x => decQ x = x) (fun x => decQ x = x) (fun x => True ∧ decQd x = x) := by
  decide

/-- the same with output in degrees (`angles="360"`), an `<obs>` cluster with a direction, an angle, a distance and a
    full covariance matrix: sexagesimal values, standard deviations and covariances in seconds -/
def lossyNetDeg : Net Nat :=
  { lossyNet with
    par := { lossyNet.par with gons := false },
    clusters := lossyNet.clusters ++
      [.obs ⟨"A", [⟨.direction, "A", "B", "", 123456, 1003, 0, 1502, 0, ""⟩, ⟨.distance, "A", "B", "", 50005, 101, 0, 0, 0, "e"⟩,
                   ⟨.angle, "A", "B", "C", 234567, 2001, 1701, 0, 1203, ""⟩]⟩
         (some ⟨3, 2, [1006009, 17, 23, 10201, 31, 4004001]⟩)] }

theorem lossyNetDeg_WF :
    (quantNet decCodec decQ decQ decQd lossyNetDeg).WFc decCodec (fun x => decQ x = x) (fun x => decQ x = x)
      (fun x => True ∧ decQd x = x) := by
  decide

end Gama.Export
