/-
  A printer with a fixed number of decimal digits that satisfies `Codec.Printer` (non-vacuity of the C13 theorems for a
  lossy number format).
-/
import Std.Data.String.ToNat
import Gama.Lemmas.ExportQuant
import Gama.Lemmas.ExportExamples
namespace Gama.Export
open Gama.Gen.GkfAttrs Gama.Gen.GkfDoc

/-- a printer with a fixed number of decimal digits: numbers are counted in units of 10⁻⁴, printed in units of 10⁻³
    (rounded up, so that a non-zero number never prints as zero), as a decimal numeral -/
def decCodec : Codec Nat :=
  { fmt := fun n => Nat.repr ((n + 9) / 10), rd := fun t => t.toNat?.map (· * 10), zero := 0, isZero := (· == 0),
    neg := id, fmtI := fun i => Nat.repr (i + 1).toNat, rdI := fun t => t.toNat?.map (fun m => (m : Int) - 1),
    latOut := id, latIn := id, fmtDeg := fun _ => "", rdDeg := fun _ => none, toSec := id, fromSec := id,
    pos := fun n => 0 < n, lt1 := fun _ => true, ellKnown := fun e => e == "wgs84", sdDist := fun s d => s * d }

def decQ (n : Nat) : Nat := (n + 9) / 10 * 10

theorem repr_ne_empty (m : Nat) : Nat.repr m ≠ "" :=
  (String.isNat_iff.mp (Nat.isNat_repr m)).1

theorem decCodec_printer : decCodec.Printer decQ :=
  { rd_fmt := fun x => by simp [decCodec, decQ, Nat.toNat?_repr]
    fmt_q := fun x => by
      have : ((x + 9) / 10 * 10 + 9) / 10 = (x + 9) / 10 := by omega
      simp [decCodec, decQ, this]
    isZero_iff := fun x => by simp [decCodec]
    isZero_q := fun x => by
      simp only [decCodec, decQ]
      by_cases h : x = 0
      · subst h; rfl
      · have : (x + 9) / 10 * 10 ≠ 0 := by omega
        rw [beq_eq_false_iff_ne.mpr this, beq_eq_false_iff_ne.mpr h]
    pos_q := fun x => by
      simp only [decCodec, decQ]
      by_cases h : x = 0
      · subst h; rfl
      · have h1 : 0 < (x + 9) / 10 * 10 := by omega
        have h2 : 0 < x := by omega
        simp [h1, h2]
    q_neg := fun _ => rfl
    neg_neg := fun _ => rfl
    rdI_fmtI := fun i hi => by
      have : ((i + 1).toNat : Int) = i + 1 := Int.toNat_of_nonneg (by omega)
      show (Nat.repr (i + 1).toNat).toNat?.map (fun m => (m : Int) - 1) = some i
      rw [Nat.toNat?_repr]
      show some (((i + 1).toNat : Int) - 1) = some i
      rw [this]
      congr 1
      omega
    latIn_latOut := fun _ => rfl
    latOut_latIn := fun _ => rfl
    rdDeg_fmt := fun _ => rfl
    fmt_ne := fun x => repr_ne_empty _ }
/-- numbers with a last digit the printer drops; en + left-handed is inconsistent (y, dy mirrored) -/
def lossyNet : Net Nat :=
  { head := ⟨.en, true, some 20213⟩, descr := "lossy",
    par := ⟨101, 9, 10004, true, true, some "gso", some 503, some "wgs84", -1⟩,
    points := [⟨"A", some (1001, 2002), some 3003, .fixed, .fixed⟩, ⟨"B", some (4004, 5005), none, .constr, .free⟩,
               ⟨"C", some (6, 7), none, .unused, .unused⟩],
    clusters := [.vectors [⟨"A", "B", 31, 32, 33, 0, 0, ""⟩] ⟨3, 2, [11, 1, 2, 12, 3, 13]⟩] }

theorem lossyNet_WF : (quantNet decCodec decQ lossyNet).WF decCodec (fun x => decQ x = x) := by
  refine ⟨⟨by decide, by decide, by decide, ?_, ?_, by decide, ?_⟩, rfl, ?_, ?_, by decide, ?_⟩
  · intro a h; cases h; decide
  · intro e h; cases h; decide
  · refine ⟨by decide, by decide, by decide, ?_⟩
    intro l h; cases h; decide
  · intro e h; cases h; decide
  · intro p hp
    simp only [quantNet, lossyNet, List.map, List.mem_cons, List.not_mem_nil, or_false] at hp
    rcases hp with rfl | rfl | rfl <;> exact ⟨by decide, by simp [Point.Rep, quantPoint, decQ]⟩
  · intro c hc
    simp only [quantNet, lossyNet, List.map, List.mem_cons, List.not_mem_nil, or_false] at hc
    subst hc
    refine ⟨?_, by decide, by decide, by decide, by decide, ?_⟩
    · intro v hv
      cases hv with
      | head => exact ⟨by decide, by decide, ⟨rfl, rfl⟩, by decide, by decide, by decide⟩
      | tail _ h => cases h
    · intro x hx
      simp only [quantCov, List.map, List.mem_cons, List.not_mem_nil, or_false] at hx
      rcases hx with rfl | rfl | rfl | rfl | rfl | rfl <;> decide
end Gama.Export
