/-
  C06 — the regular (full column rank) instance of `Props/C06Assembled.lean`: the observed height 0 of point 8
  of C05's example network — one row, one unknown, assembled matrix `[[1]]`.
-/
import Gama.Lemmas.C06FixedPoint
namespace Gama.C06FP
open Gama Gama.Lin Gama.LS Gama.GN Gama.C06L Gama.C06R Matrix

/-- the observed height 0 of point 8 of C05's example network (two free points): one row, one unknown -/
noncomputable def regObs : List (NObs ℝ) := [⟨.z, 0, 8, 8, 0, 0⟩]

theorem regObs_exact : ∀ ob ∈ regObs, ExactObs exNet ob := by
  intro ob hob
  simp only [regObs, List.mem_cons, List.not_mem_nil, or_false] at hob
  subst hob
  show (exNet.view _).value = fromZ (exNet.view _)
  simp [Net.view, exNet, fromZ]

theorem regObs_pass : ∃ res, passFrom exNet 0 regObs IdxState.init = .ok res ∧ res.idx.maxn = 1 ∧
    res.rows = [[(1, 1)]] := by
  refine ⟨⟨[[(1, 1)]], [(0 - 0) * 1000], ⟨1, [(⟨8, .z⟩, 1)]⟩⟩, ?_, rfl, rfl⟩
  simp only [regObs, passFrom, Kind.lin, z_eq]
  simp [Net.view, exNet, fromZ, Pt.free_z, Status.isFree, runEvs, NObs.name, IdxState.touch, IdxState.get,
    IdxState.init]

end Gama.C06FP
