/-
  Building a `BlockDiagonal` object (`init`, `add_block`, `replicate`, Model/BlockDiagonal.lean) and the
  row table of `UpperBlockDiagonal` (`BlockDiag.upperTable`), for any element type `K` (bookkeeping
  only, no arithmetic).

  * T1  `gs Cs base c` : start of the global row `c` (1-based) of the blocks `Cs` laid out from `base`;
        `upperTable_cells` : cell `c` (1 ≤ c ≤ size+1) of the table is `gs Cs 0 c`;
  * T2  `upperTable_ok` : the table satisfies `TabOK` (Lemmas/CovHomDefs.lean);
  * B   `BlockDiag.Built` : build invariant (`Holds` + counters + end pointer + table sizes), kept by
        `init`, `addBlock` (under `canAddBlock`) and `replicate`.
-/
import Gama.Lemmas.CovHomDefs
namespace Gama.Cov
open Packed CovMat

/-! ### T1 : the cells of the table -/

section Table
variable {K : Type}

theorem bb_getD_setIfInBounds (a : Array Nat) (i j v : Nat) :
    (a.setIfInBounds i v).getD j 0 = if i = j ∧ i < a.size then v else a.getD j 0 := by
  simp only [Array.getD_eq_getD_getElem?, Array.getElem?_setIfInBounds]
  by_cases h : i = j
  · subst h
    by_cases h' : i < a.size
    · simp [h']
    · simp [h']
  · simp [h]

/-- number of rows of a list of blocks -/
def bbRows (L : List (CovMat K)) : Nat := (L.map (fun C => C.dim)).sum

theorem bbRows_nil : bbRows ([] : List (CovMat K)) = 0 := rfl
theorem bbRows_cons (C : CovMat K) (L : List (CovMat K)) : bbRows (C :: L) = C.dim + bbRows L := by
  simp [bbRows]
theorem bbRows_append (L M : List (CovMat K)) : bbRows (L ++ M) = bbRows L + bbRows M := by
  simp [bbRows]
theorem bb_flat_nil : flat ([] : List (CovMat K)) = [] := rfl
theorem bb_flat_append (L M : List (CovMat K)) : flat (L ++ M) = flat L ++ flat M := by
  simp [flat]

/-- start (offset from `nonz_`) of the global row `c` of the blocks `Cs` stored from `base` on;
    a row number behind the last row gives the end of the storage -/
def rowStart : List (CovMat K) → Int → Nat → Int
  | [], base, _ => base
  | C :: Cs, base, c =>
    if c ≤ C.dim then base + rowOff C.dim C.band c else rowStart Cs (base + (C.buf.size : Int)) (c - C.dim)

theorem rowStart_append_left (L M : List (CovMat K)) : ∀ (base : Int) (c : Nat), 1 ≤ c → c ≤ bbRows L →
    rowStart (L ++ M) base c = rowStart L base c := by
  induction L with
  | nil => intro base c h1 h2; rw [bbRows_nil] at h2; omega
  | cons C L ih =>
    intro base c h1 h2
    rw [bbRows_cons] at h2
    rw [List.cons_append]
    unfold rowStart
    by_cases h : c ≤ C.dim
    · rw [if_pos h, if_pos h]
    · rw [if_neg h, if_neg h]
      exact ih _ _ (by omega) (by omega)

theorem rowStart_append_right (L M : List (CovMat K)) : ∀ (base : Int) (c : Nat), bbRows L < c →
    rowStart (L ++ M) base c = rowStart M (base + ((flat L).length : Int)) (c - bbRows L) := by
  induction L with
  | nil => intro base c _; simp [bbRows_nil, bb_flat_nil]
  | cons C L ih =>
    intro base c h
    rw [bbRows_cons] at h
    rw [List.cons_append]
    have hn : ¬ c ≤ C.dim := by omega
    rw [rowStart, if_neg hn, ih _ _ (by omega), bbRows_cons, flat_cons]
    congr 1
    · simp only [List.length_append, Array.length_toList]; push_cast; omega
    · omega

theorem bb_rowOff_one (d b : Nat) (hb : b ≤ d) : rowOff d b 1 = 0 := by
  rcases Nat.eq_zero_or_pos d with h | h
  · subst h
    have : b = 0 := by omega
    subst this
    decide
  · exact rowOff_one d b h hb

theorem bb_WF_size_zero {C : CovMat K} (h : C.WF) (hd : C.dim = 0) : C.buf.size = 0 := by
  have hb : C.band = 0 := by have := h.band_le; omega
  have := h.size_eq
  rw [hd, hb] at this
  have e : Packed.size 0 0 = 0 := by decide
  omega

/-- the first row of a stored list of well-formed blocks starts at `base` -/
theorem rowStart_one (M : List (CovMat K)) (hwf : ∀ C ∈ M, C.WF) : ∀ base : Int, rowStart M base 1 = base := by
  induction M with
  | nil => intro base; rfl
  | cons C M ih =>
    intro base
    have hC := hwf C List.mem_cons_self
    unfold rowStart
    by_cases h : 1 ≤ C.dim
    · rw [if_pos h, bb_rowOff_one _ _ hC.band_le]; omega
    · rw [if_neg h]
      have hd : C.dim = 0 := by omega
      rw [bb_WF_size_zero hC hd, hd, ih (fun C' h' => hwf C' (List.mem_cons_of_mem _ h'))]
      simp

/-- row `i` of the block `C` in the middle of a list -/
theorem rowStart_mid (L : List (CovMat K)) (C : CovMat K) (M : List (CovMat K)) (base : Int) (i : Nat)
    (h1 : 1 ≤ i) (h2 : i ≤ C.dim) :
    rowStart (L ++ C :: M) base (bbRows L + i) = base + ((flat L).length : Int) + rowOff C.dim C.band i := by
  rw [rowStart_append_right _ _ _ _ (by omega), show bbRows L + i - bbRows L = i by omega, rowStart, if_pos h2]

/-- the row behind a prefix starts where the prefix ends -/
theorem rowStart_after (L M : List (CovMat K)) (hwf : ∀ C ∈ M, C.WF) (base : Int) :
    rowStart (L ++ M) base (bbRows L + 1) = base + ((flat L).length : Int) := by
  rw [rowStart_append_right _ _ _ _ (by omega), show bbRows L + 1 - bbRows L = 1 by omega, rowStart_one M hwf]

/-- body of `for (Index i=1; i<=dim; i++)` in the constructor of `UpperBlockDiagonal` -/
def utInner (d w : Nat) (s : Array Nat × Nat × Nat) (i : Nat) : Array Nat × Nat × Nat :=
  ((s.1.setIfInBounds (s.2.1 + 1) s.2.2).setIfInBounds (s.2.1 + 1 + 1)
      (s.2.2 + (if i + (w + 1) > d then d - i + 1 else w + 1)),
    s.2.1 + 1, s.2.2 + (if i + (w + 1) > d then d - i + 1 else w + 1))

/-- body of `for (Index b=1; b<=blocks; b++)` -/
def utOuter (bd : BlockDiag K) (st : Array Nat × Nat) (b : Nat) : Array Nat × Nat :=
  (((List.range' 1 (bd.dimOf b)).foldl (utInner (bd.dimOf b) (bd.widthOf b))
      (st.1, st.2, bd.beginOf b)).1,
   ((List.range' 1 (bd.dimOf b)).foldl (utInner (bd.dimOf b) (bd.widthOf b))
      (st.1, st.2, bd.beginOf b)).2.1)

theorem upperTable_unfold (bd : BlockDiag K) :
    bd.upperTable = if bd.size = 0 then #[] else
      ((List.range' 1 bd.blocks).foldl (utOuter bd) (Array.replicate (bd.size + 2) 0, 0)).1 := rfl

/-- the row loop of one block: `n ≤ d` rows written from table cell `r+1` on, storage from `base` on -/
theorem utInner_spec (d w : Nat) (hw : w ≤ d) (tab : Array Nat) (r base N : Nat)
    (hsz : tab.size = N + 2) (hN : r + d ≤ N) :
    ∀ n, n ≤ d →
      ((List.range' 1 n).foldl (utInner d w) (tab, r, base)).1.size = N + 2 ∧
      ((List.range' 1 n).foldl (utInner d w) (tab, r, base)).2.1 = r + n ∧
      (((List.range' 1 n).foldl (utInner d w) (tab, r, base)).2.2 : Int)
        = (base : Int) + rowOff d w (n + 1) ∧
      (∀ c, c ≤ r → ((List.range' 1 n).foldl (utInner d w) (tab, r, base)).1.getD c 0 = tab.getD c 0) ∧
      (∀ j, 1 ≤ j → j ≤ n →
        (((List.range' 1 n).foldl (utInner d w) (tab, r, base)).1.getD (r + j) 0 : Int)
          = (base : Int) + rowOff d w j) ∧
      (1 ≤ n → ((List.range' 1 n).foldl (utInner d w) (tab, r, base)).1.getD (r + n + 1) 0
          = ((List.range' 1 n).foldl (utInner d w) (tab, r, base)).2.2) := by
  intro n
  induction n with
  | zero =>
    intro _
    refine ⟨hsz, rfl, ?_, fun _ _ => rfl, fun j h1 h2 => by omega, fun h => by omega⟩
    show ((base : Nat) : Int) = _
    rw [bb_rowOff_one d w hw]; omega
  | succ n ih =>
    intro hn
    obtain ⟨i1, i2, i3, i4, i5, i6⟩ := ih (by omega)
    rw [List.range'_1_concat, List.foldl_append, List.foldl_cons, List.foldl_nil]
    generalize (List.range' 1 n).foldl (utInner d w) (tab, r, base) = s at i1 i2 i3 i4 i5 i6
    obtain ⟨t, q, m⟩ := s
    simp only at i1 i2 i3 i4 i5 i6
    subst i2
    have hlen : (if 1 + n + (w + 1) > d then d - (1 + n) + 1 else w + 1) = rowLen d w (n + 1) := by
      unfold rowLen
      split_ifs <;> omega
    have hsucc := rowOff_succ (d := d) (b := w) (r := n + 1) hw (by omega) hn
    unfold utInner
    simp only [hlen]
    refine ⟨by simp [i1], by omega, ?_, ?_, ?_, ?_⟩
    · rw [hsucc]; push_cast; omega
    · intro c hc
      rw [bb_getD_setIfInBounds, bb_getD_setIfInBounds, if_neg (by omega), if_neg (by omega)]
      exact i4 c hc
    · intro j h1 h2
      rw [bb_getD_setIfInBounds, if_neg (by omega), bb_getD_setIfInBounds]
      by_cases hj : j = n + 1
      · subst hj
        rw [if_pos ⟨by omega, by omega⟩]
        exact i3
      · rw [if_neg (by omega)]
        exact i5 j h1 (by omega)
    · intro _
      rw [bb_getD_setIfInBounds, if_pos ⟨by omega, by simp [i1]; omega⟩]

/-- invariant of the block loop: the table describes the rows of the blocks `L` processed so far -/
structure UtInv (N : Nat) (st : Array Nat × Nat) (L : List (CovMat K)) : Prop where
  sz    : st.1.size = N + 2
  r     : st.2 = bbRows L
  cells : ∀ c, 1 ≤ c → c ≤ bbRows L → (st.1.getD c 0 : Int) = rowStart L 0 c
  last  : 1 ≤ bbRows L → st.1.getD (bbRows L + 1) 0 = (flat L).length

theorem utOuter_inv (bd : BlockDiag K) (N : Nat) (st : Array Nat × Nat) (L : List (CovMat K))
    (C : CovMat K) (b : Nat) (h : UtInv N st L) (hC : C.WF) (hd : bd.dimOf b = C.dim)
    (hw : bd.widthOf b = C.band) (hb : bd.beginOf b = (flat L).length) (hN : bbRows (L ++ [C]) ≤ N) :
    UtInv N (utOuter bd st b) (L ++ [C]) := by
  obtain ⟨hsz, hr, hcells, hlast⟩ := h
  have hrows : bbRows (L ++ [C]) = bbRows L + C.dim := by rw [bbRows_append, bbRows_cons, bbRows_nil]; omega
  have hflat : (flat (L ++ [C])).length = (flat L).length + C.buf.size := by
    rw [bb_flat_append, flat_cons, bb_flat_nil]; simp
  unfold utOuter
  rw [hd, hw, hb, hr]
  by_cases hd0 : C.dim = 0
  · rw [hd0]
    simp only [List.range'_zero, List.foldl_nil]
    refine ⟨hsz, by rw [hrows, hd0]; rfl, ?_, ?_⟩
    · intro c h1 h2
      rw [rowStart_append_left _ _ _ _ h1 (by omega)]
      exact hcells c h1 (by omega)
    · intro h1
      rw [hrows, hd0, hflat, bb_WF_size_zero hC hd0]
      exact hlast (by omega)
  · obtain ⟨i1, i2, i3, i4, i5, i6⟩ :=
      utInner_spec C.dim C.band hC.band_le st.1 (bbRows L) (flat L).length N hsz (by omega) C.dim (le_refl _)
    refine ⟨i1, by rw [hrows]; exact i2, ?_, ?_⟩
    · intro c h1 h2
      by_cases hc : c ≤ bbRows L
      · rw [rowStart_append_left _ _ _ _ h1 hc]
        show ((_ : Nat) : Int) = _
        rw [i4 c hc]
        exact hcells c h1 hc
      · have e : c = bbRows L + (c - bbRows L) := by omega
        rw [e, rowStart_mid L C [] 0 _ (by omega) (by omega)]
        show ((_ : Nat) : Int) = _
        rw [i5 _ (by omega) (by omega)]
        omega
    · intro _
      rw [hrows, hflat]
      show Array.getD _ (bbRows L + C.dim + 1) 0 = _
      rw [i6 (by omega)]
      have e := rowOff_last C.dim C.band hC.band_le
      have e2 := hC.size_eq
      omega

theorem utOuter_fold (bd : BlockDiag K) (Cs : List (CovMat K)) (N : Nat) (hwf : ∀ C ∈ Cs, C.WF)
    (htab : TablesFrom bd 1 0 Cs) (hN : bbRows Cs ≤ N) :
    ∀ (rest L : List (CovMat K)) (st : Array Nat × Nat), Cs = L ++ rest → UtInv N st L →
      UtInv N ((List.range' (L.length + 1) rest.length).foldl (utOuter bd) st) Cs := by
  intro rest
  induction rest with
  | nil =>
    intro L st hCs h
    rw [List.append_nil] at hCs
    subst hCs
    exact h
  | cons C rest ih =>
    intro L st hCs h
    rw [List.length_cons, List.range'_succ, List.foldl_cons]
    have hk : L.length < Cs.length := by rw [hCs]; simp
    have hCk : Cs[L.length]'hk = C := by subst hCs; simp
    have htk : Cs.take L.length = L := by subst hCs; simp
    obtain ⟨t1, t2, t3⟩ := htab L.length hk
    rw [hCk] at t1 t2
    rw [htk, Nat.zero_add] at t3
    have hCmem : C ∈ Cs := by rw [hCs]; simp
    have hrows : bbRows Cs = bbRows L + (C.dim + bbRows rest) := by
      rw [hCs, bbRows_append, bbRows_cons]
    have hinv := utOuter_inv bd N st L C (L.length + 1) h (hwf C hCmem)
      (by rw [Nat.add_comm]; exact t1) (by rw [Nat.add_comm]; exact t2)
      (by rw [Nat.add_comm]; exact t3)
      (by rw [bbRows_append, bbRows_cons, bbRows_nil]; omega)
    have := ih (L ++ [C]) _ (by rw [hCs]; simp) hinv
    rw [List.length_append, List.length_singleton] at this
    exact this

/-- **the cells of the `UpperBlockDiagonal` table**: cell `c` (`1 ≤ c ≤ size+1`) is the start of the
    global row `c`, cell `size+1` the end of the storage -/
theorem upperTable_cells (bd : BlockDiag K) (Cs : List (CovMat K)) (tail : List K)
    (h : bd.Holds Cs tail) (hwf : ∀ C ∈ Cs, C.WF) (hs : bd.size = bbRows Cs) (hpos : bd.size ≠ 0) :
    bd.upperTable.size = bd.size + 2 ∧
    ∀ c, 1 ≤ c → c ≤ bd.size + 1 → (bd.upperTable.getD c 0 : Int) = rowStart Cs 0 c := by
  rw [upperTable_unfold, if_neg hpos, h.blocks]
  have hinit : UtInv bd.size (Array.replicate (bd.size + 2) 0, 0) ([] : List (CovMat K)) :=
    ⟨by simp, rfl, fun c h1 h2 => by rw [bbRows_nil] at h2; omega, fun h1 => by rw [bbRows_nil] at h1; omega⟩
  have hfin := utOuter_fold bd Cs bd.size hwf h.tables (by omega) Cs [] _ rfl hinit
  simp only [List.length_nil, Nat.zero_add] at hfin
  obtain ⟨f1, _, f3, f4⟩ := hfin
  refine ⟨f1, ?_⟩
  intro c h1 h2
  by_cases hc : c ≤ bbRows Cs
  · exact f3 c h1 hc
  · have e : c = bbRows Cs + 1 := by omega
    subst e
    have hg := rowStart_after Cs [] (fun _ h' => absurd h' (by simp)) 0
    rw [List.append_nil] at hg
    rw [hg]
    show ((_ : Nat) : Int) = _
    rw [f4 (by omega)]
    omega

/-! ### T2 : `TabOK` -/

theorem bb_rowsBefore_eq (Cs : List (CovMat K)) (k : Nat) : rowsBefore Cs k = bbRows (Cs.take k) := rfl

theorem bb_split_at (Cs : List (CovMat K)) (k : Nat) (hk : k < Cs.length) :
    Cs = Cs.take k ++ Cs[k]'hk :: Cs.drop (k + 1) := by
  rw [← List.drop_eq_getElem_cons hk, List.take_append_drop]

theorem bb_rowsBefore_succ (Cs : List (CovMat K)) (k : Nat) (hk : k < Cs.length) :
    rowsBefore Cs (k + 1) = rowsBefore Cs k + (Cs[k]'hk).dim := by
  rw [bb_rowsBefore_eq, bb_rowsBefore_eq, List.take_succ_eq_append_getElem hk, bbRows_append, bbRows_cons, bbRows_nil]
  omega

theorem bb_floatsBefore_succ (Cs : List (CovMat K)) (k : Nat) (hk : k < Cs.length) :
    floatsBefore Cs (k + 1) = floatsBefore Cs k + (Cs[k]'hk).buf.size := by
  unfold floatsBefore
  rw [List.take_succ_eq_append_getElem hk, bb_flat_append, flat_cons, bb_flat_nil]
  simp

theorem bb_rowsBefore_le (Cs : List (CovMat K)) (k : Nat) : rowsBefore Cs k ≤ bbRows Cs := by
  have := congrArg bbRows (List.take_append_drop k Cs)
  rw [bbRows_append] at this
  rw [bb_rowsBefore_eq]
  omega

theorem upperTable_ok (bd : BlockDiag K) (Cs : List (CovMat K)) (tail : List K)
    (h : bd.Holds Cs tail) (hwf : ∀ C ∈ Cs, C.WF) (hs : bd.size = (Cs.map (·.dim)).sum) :
    TabOK bd.upperTable Cs := by
  have hs' : bd.size = bbRows Cs := hs
  intro k hk i h1 h2
  have hC : (Cs[k]'hk).WF := hwf _ (List.getElem_mem hk)
  have hle : rowsBefore Cs k + (Cs[k]'hk).dim ≤ bbRows Cs := by
    rw [← bb_rowsBefore_succ Cs k hk]; exact bb_rowsBefore_le Cs (k + 1)
  have hpos : bd.size ≠ 0 := by omega
  obtain ⟨_, hcells⟩ := upperTable_cells bd Cs tail h hwf hs' hpos
  have hsplit := bb_split_at Cs k hk
  -- start of row `j` of block `k`, `1 ≤ j ≤ dim+1`
  have hrow : ∀ j, 1 ≤ j → j ≤ (Cs[k]'hk).dim + 1 →
      (bd.upperTable.getD (rowsBefore Cs k + j) 0 : Int) =
        (floatsBefore Cs k : Int) + rowOff (Cs[k]'hk).dim (Cs[k]'hk).band j := by
    intro j j1 j2
    rw [hcells _ (by omega) (by omega)]
    by_cases hj : j ≤ (Cs[k]'hk).dim
    · have := rowStart_mid (Cs.take k) (Cs[k]'hk) (Cs.drop (k + 1)) 0 j j1 hj
      rw [← hsplit] at this
      rw [bb_rowsBefore_eq, this]
      unfold floatsBefore
      omega
    · have e : j = (Cs[k]'hk).dim + 1 := by omega
      have := rowStart_after (Cs.take (k + 1)) (Cs.drop (k + 1))
        (fun C hC' => hwf C (List.mem_of_mem_drop hC')) 0
      rw [List.take_append_drop, ← bb_rowsBefore_eq, bb_rowsBefore_succ Cs k hk] at this
      rw [e, ← Nat.add_assoc, this, rowOff_last _ _ hC.band_le, ← hC.size_eq]
      have := bb_floatsBefore_succ Cs k hk
      unfold floatsBefore at this ⊢
      omega
  refine ⟨hrow i h1 (by omega), ?_⟩
  have a1 := hrow i h1 (by omega)
  have a2 := hrow (i + 1) (by omega) (by omega)
  rw [rowOff_succ hC.band_le h1 h2] at a2
  rw [← Nat.add_assoc] at a2
  omega

end Table

/-! ### B : building the object -/

section Build
variable {K : Type}

/-- build invariant: the object stores exactly the blocks `Cs`, the counters and the end pointer
    `begin_[blocks_+1]` agree, the three tables have the sizes the constructor gave them -/
structure BlockDiag.Built (bd : BlockDiag K) (Cs : List (CovMat K)) (tail : List K) : Prop where
  holds : bd.Holds Cs tail
  endp  : bd.beginOf (Cs.length + 1) = (flat Cs).length
  ncnt  : bd.ncnt = (flat Cs).length
  size  : bd.size = (Cs.map (·.dim)).sum
  tabs  : bd.width.size = bd.dim.size ∧ bd.begin_.size = bd.dim.size + 1

theorem BlockDiag.built_init (z : K) (blcks floats : Nat) :
    (BlockDiag.init z blcks floats).Built [] (List.replicate floats z) := by
  refine ⟨⟨rfl, fun k hk => absurd hk (by simp), by simp [BlockDiag.init, flat]⟩, ?_, rfl, rfl,
    by simp [BlockDiag.init]⟩
  simp [BlockDiag.init, BlockDiag.beginOf, flat]

theorem BlockDiag.memcpy_succ (z : K) (dst : Array K) (b : Nat) (src : Array K) (n : Nat) :
    BlockDiag.memcpy z dst b src (n + 1) =
      (BlockDiag.memcpy z dst b src n).setIfInBounds (b + n) (src.getD n z) := by
  unfold BlockDiag.memcpy
  rw [List.range_succ, List.foldl_append]
  rfl

/-- `memcpy(nonz_ + |pre|, src, n)` replaces the `n` elements behind `pre` by the first `n` of `src` -/
theorem BlockDiag.memcpy_toList (z : K) (dst src : Array K) (pre rest : List K)
    (hd : dst.toList = pre ++ rest) : ∀ n, n ≤ rest.length → n ≤ src.size →
    (BlockDiag.memcpy z dst pre.length src n).toList = pre ++ src.toList.take n ++ rest.drop n := by
  intro n
  induction n with
  | zero => intro _ _; simpa [BlockDiag.memcpy] using hd
  | succ n ih =>
    intro h1 h2
    have hlt : n < src.toList.length := by simp; omega
    have hv : src.getD n z = src.toList[n] := by
      simp [Array.getD_eq_getD_getElem?, Array.getElem?_eq_getElem (show n < src.size by omega)]
    have htk : (src.toList.take n).length = n := by simp; omega
    rw [BlockDiag.memcpy_succ, Array.toList_setIfInBounds, ih (by omega) (by omega), List.append_assoc,
      List.set_append_right _ _ (by omega), List.set_append_right _ _ (by omega),
      List.drop_eq_getElem_cons (show n < rest.length by omega),
      List.take_succ_eq_append_getElem hlt, hv]
    have e : pre.length + n - pre.length - (src.toList.take n).length = 0 := by omega
    rw [e, List.set_cons_zero]
    simp

theorem BlockDiag.addBlock_dimOf (z : K) (bd : BlockDiag K) (d w : Nat) (mem : Array K) (i : Nat) :
    (bd.addBlock z d w mem).dimOf i =
      if bd.blocks + 1 = i ∧ bd.blocks + 1 < bd.dim.size then d else bd.dimOf i :=
  bb_getD_setIfInBounds _ _ _ _

theorem BlockDiag.addBlock_widthOf (z : K) (bd : BlockDiag K) (d w : Nat) (mem : Array K) (i : Nat) :
    (bd.addBlock z d w mem).widthOf i =
      if bd.blocks + 1 = i ∧ bd.blocks + 1 < bd.width.size then w else bd.widthOf i :=
  bb_getD_setIfInBounds _ _ _ _

theorem BlockDiag.addBlock_beginOf (z : K) (bd : BlockDiag K) (d w : Nat) (mem : Array K) (i : Nat) :
    (bd.addBlock z d w mem).beginOf i =
      if bd.blocks + 1 + 1 = i ∧ bd.blocks + 1 + 1 < bd.begin_.size
      then bd.beginOf (bd.blocks + 1) + BlockDiag.blockFloats d w else bd.beginOf i :=
  bb_getD_setIfInBounds _ _ _ _

theorem BlockDiag.addBlock_dim_size (z : K) (bd : BlockDiag K) (d w : Nat) (mem : Array K) :
    (bd.addBlock z d w mem).dim.size = bd.dim.size := by
  simp [BlockDiag.addBlock]

theorem bb_extract_toList_take (mem : Array K) (n : Nat) : (mem.extract 0 n).toList = mem.toList.take n := by
  simp

/-- **`add_block`** keeps the build invariant whenever the C++ call is defined -/
theorem BlockDiag.built_addBlock (z : K) {bd : BlockDiag K} {Cs : List (CovMat K)} {tail : List K}
    (d w : Nat) (mem : Array K) (h : bd.Built Cs tail) (hc : bd.canAddBlock d w mem = true) :
    (bd.addBlock z d w mem).Built (Cs ++ [⟨d, w, mem.extract 0 (BlockDiag.blockFloats d w)⟩])
      (tail.drop (BlockDiag.blockFloats d w)) := by
  obtain ⟨⟨hbl, htab, hnz⟩, hend, hncnt, hsize, ht1, ht2⟩ := h
  unfold BlockDiag.canAddBlock at hc
  simp only [Bool.and_eq_true, decide_eq_true_eq] at hc
  obtain ⟨⟨⟨c1, c2⟩, c3⟩, c4⟩ := hc
  rw [hbl] at c1
  rw [hbl, hend] at c4
  have hnzs : bd.nonz.size = (flat Cs).length + tail.length := by
    have := congrArg List.length hnz
    simpa using this
  have hbuf : (mem.extract 0 (BlockDiag.blockFloats d w)).size = BlockDiag.blockFloats d w := by
    simp; omega
  have hflat : (flat (Cs ++ [(⟨d, w, mem.extract 0 (BlockDiag.blockFloats d w)⟩ : CovMat K)])).length
      = (flat Cs).length + BlockDiag.blockFloats d w := by
    rw [bb_flat_append, flat_cons, bb_flat_nil, List.length_append, List.append_nil]
    have e : (mem.extract 0 (BlockDiag.blockFloats d w)).toList.length = BlockDiag.blockFloats d w := by
      rw [Array.length_toList, hbuf]
    exact congrArg _ e
  refine ⟨⟨?_, ?_, ?_⟩, ?_, ?_, ?_, ?_⟩
  · show bd.blocks + 1 = _
    rw [hbl]; simp
  · intro k hk
    have hk' : k < Cs.length + 1 := by simpa using hk
    rw [BlockDiag.addBlock_dimOf, BlockDiag.addBlock_widthOf, BlockDiag.addBlock_beginOf, hbl, ht1, ht2]
    by_cases hkn : k < Cs.length
    · obtain ⟨t1, t2, t3⟩ := htab k hkn
      rw [if_neg (by omega), if_neg (by omega), if_neg (by omega), List.getElem_append_left hkn,
        List.take_append_of_le_length (by omega)]
      exact ⟨t1, t2, t3⟩
    · have e : k = Cs.length := by omega
      subst e
      rw [if_pos ⟨by omega, c1⟩, if_pos ⟨by omega, c1⟩, if_neg (by omega)]
      simp only [List.getElem_concat_length, List.take_left, Nat.zero_add]
      refine ⟨trivial, trivial, ?_⟩
      rw [Nat.add_comm]; exact hend
  · show (BlockDiag.memcpy z bd.nonz (bd.begin_.getD (bd.blocks + 1) 0) mem (BlockDiag.blockFloats d w)).toList = _
    have hb : bd.begin_.getD (bd.blocks + 1) 0 = (flat Cs).length := by rw [hbl]; exact hend
    rw [hb, BlockDiag.memcpy_toList z bd.nonz mem (flat Cs) tail hnz _ (by omega) c3,
      bb_flat_append, flat_cons, bb_flat_nil, List.append_nil]
    show _ = flat Cs ++ (mem.extract 0 (BlockDiag.blockFloats d w)).toList ++ _
    rw [bb_extract_toList_take]
  · rw [BlockDiag.addBlock_beginOf, hbl, ht2, List.length_append, List.length_singleton,
      if_pos ⟨rfl, by omega⟩, hend, hflat]
  · show bd.ncnt + BlockDiag.blockFloats d w = _
    rw [hncnt, hflat]
  · show bd.size + d = _
    rw [hsize]; simp
  · show (bd.width.setIfInBounds _ _).size = (bd.dim.setIfInBounds _ _).size ∧
      (bd.begin_.setIfInBounds _ _).size = (bd.dim.setIfInBounds _ _).size + 1
    simp [ht1, ht2]

/-- the block stored by `add_block` is a well-formed `CovMat(bdim, bwidth)` when `bwidth ≤ bdim` -/
theorem BlockDiag.addBlock_block_WF {bd : BlockDiag K} (d w : Nat) (mem : Array K)
    (hc : bd.canAddBlock d w mem = true) (hw : w ≤ d) :
    (⟨d, w, mem.extract 0 (BlockDiag.blockFloats d w)⟩ : CovMat K).WF := by
  unfold BlockDiag.canAddBlock at hc
  simp only [Bool.and_eq_true, decide_eq_true_eq] at hc
  obtain ⟨⟨⟨_, c2⟩, c3⟩, _⟩ := hc
  refine ⟨hw, ?_⟩
  show ((mem.extract 0 (BlockDiag.blockFloats d w)).size : Int) = Packed.size d w
  have : (mem.extract 0 (BlockDiag.blockFloats d w)).size = BlockDiag.blockFloats d w := by
    simp; omega
  rw [this]
  unfold BlockDiag.blockFloats
  omega

/-- the loop of `replicate()`: blocks `L` copied so far, `rest` to go -/
theorem BlockDiag.replicate_fold (z : K) (bd : BlockDiag K) (Cs : List (CovMat K)) (tail : List K)
    (h : bd.Holds Cs tail) (hwf : ∀ C ∈ Cs, C.WF) :
    ∀ (rest L : List (CovMat K)) (r : BlockDiag K) (tl : List K), Cs = L ++ rest → r.Built L tl →
      tl.length = (flat rest).length → r.dim.size = Cs.length + 1 →
      ((List.range' (L.length + 1) rest.length).foldl
        (fun r i => BlockDiag.addBlock z r (bd.dimOf i) (bd.widthOf i)
          (bd.nonz.extract (bd.beginOf i) bd.nonz.size)) r).Built Cs [] := by
  intro rest
  induction rest with
  | nil =>
    intro L r tl hCs hb htl _
    rw [List.append_nil] at hCs
    subst hCs
    have : tl = [] := List.eq_nil_of_length_eq_zero (by rw [htl]; rfl)
    subst this
    exact hb
  | cons C rest ih =>
    intro L r tl hCs hb htl hds
    rw [List.length_cons, List.range'_succ, List.foldl_cons]
    have hk : L.length < Cs.length := by rw [hCs]; simp
    have hCk : Cs[L.length]'hk = C := by subst hCs; simp
    have htk : Cs.take L.length = L := by subst hCs; simp
    obtain ⟨t1, t2, t3⟩ := h.tables L.length hk
    rw [hCk] at t1 t2
    rw [htk, Nat.zero_add] at t3
    rw [Nat.add_comm] at t1 t2 t3
    have hC : C.WF := hwf C (by rw [hCs]; simp)
    have hN : BlockDiag.blockFloats C.dim C.band = C.buf.size := by
      have := hC.size_eq
      unfold BlockDiag.blockFloats
      omega
    have hlen : Cs.length = L.length + (rest.length + 1) := by rw [hCs]; simp
    -- the memory handed to `add_block`
    have hmem : (bd.nonz.extract (flat L).length bd.nonz.size).toList
        = C.buf.toList ++ (flat rest ++ tail) := by
      have hnz : bd.nonz.toList = flat L ++ (C.buf.toList ++ (flat rest ++ tail)) := by
        rw [h.nonz, hCs, bb_flat_append, flat_cons]; simp
      have hsz : bd.nonz.size = (flat L).length + (C.buf.toList ++ (flat rest ++ tail)).length := by
        have := congrArg List.length hnz
        rw [List.length_append] at this
        simpa using this
      rw [Array.toList_extract, List.extract_eq_take_drop, hnz, List.drop_left,
        List.take_of_length_le (by omega)]
    have hmsz : (bd.nonz.extract (flat L).length bd.nonz.size).size
        = C.buf.size + (flat rest ++ tail).length := by
      have := congrArg List.length hmem
      rw [List.length_append] at this
      simpa using this
    have hrnz : r.nonz.size = (flat L).length + tl.length := by
      have := congrArg List.length hb.holds.nonz
      simpa using this
    have hfl : (flat (C :: rest)).length = C.buf.size + (flat rest).length := by
      rw [flat_cons, List.length_append]; simp
    have hcan : r.canAddBlock C.dim C.band (bd.nonz.extract (flat L).length bd.nonz.size) = true := by
      unfold BlockDiag.canAddBlock
      simp only [Bool.and_eq_true, decide_eq_true_eq]
      rw [hb.holds.blocks, hb.endp, hN, hds, hrnz, htl, hfl]
      refine ⟨⟨⟨by omega, ?_⟩, by omega⟩, by omega⟩
      rw [← hC.size_eq]; omega
    have hnew := BlockDiag.built_addBlock z C.dim C.band _ hb hcan
    have hblk : (⟨C.dim, C.band,
        (bd.nonz.extract (flat L).length bd.nonz.size).extract 0 (BlockDiag.blockFloats C.dim C.band)⟩
          : CovMat K) = C := by
      have : (bd.nonz.extract (flat L).length bd.nonz.size).extract 0 (BlockDiag.blockFloats C.dim C.band)
          = C.buf := by
        apply Array.ext'
        rw [bb_extract_toList_take, hmem, hN, ← Array.length_toList, List.take_left]
      rw [this]
    rw [hblk] at hnew
    rw [t1, t2, t3]
    have := ih (L ++ [C]) _ _ (by rw [hCs]; simp) hnew
      (by rw [List.length_drop, htl, hN, hfl]; omega)
      (by rw [BlockDiag.addBlock_dim_size]; exact hds)
    rw [List.length_append, List.length_singleton] at this
    exact this

/-- **`replicate()`** (`new BlockDiagonal(blocks_, ncnt_)` + `add_block(dim(i), width(i), begin(i))` for
    every block): every `add_block` is defined and the copy stores the same blocks with no float left -/
theorem BlockDiag.built_replicate (z : K) {bd : BlockDiag K} {Cs : List (CovMat K)} {tail : List K}
    (h : bd.Built Cs tail) (hwf : ∀ C ∈ Cs, C.WF) : (bd.replicate z).Built Cs [] := by
  unfold BlockDiag.replicate BlockDiag.replicateTo
  rw [h.holds.blocks, h.ncnt]
  have := BlockDiag.replicate_fold z bd Cs tail h.holds hwf Cs [] (BlockDiag.init z Cs.length (flat Cs).length)
    (List.replicate (flat Cs).length z) rfl (BlockDiag.built_init z _ _) (by simp)
    (by simp [BlockDiag.init])
  simpa using this

end Build

/-! ### non-vacuity: two blocks (dim 2, width 1) and (dim 3, width 2) over `Nat` -/

section Example

/-- `BlockDiagonal bd(2, 9); bd.add_block(2, 1, {4,2,5}); bd.add_block(3, 2, {4,0,2,9,3,10});` -/
def bbExBd : BlockDiag Nat :=
  ((BlockDiag.init 0 2 9).addBlock 0 2 1 #[4, 2, 5]).addBlock 0 3 2 #[4, 0, 2, 9, 3, 10]

def bbExCs : List (CovMat Nat) := [⟨2, 1, #[4, 2, 5]⟩, ⟨3, 2, #[4, 0, 2, 9, 3, 10]⟩]

/-- both `add_block` calls are defined -/
example : (BlockDiag.init (0 : Nat) 2 9).canAddBlock 2 1 #[4, 2, 5] = true ∧
    ((BlockDiag.init (0 : Nat) 2 9).addBlock 0 2 1 #[4, 2, 5]).canAddBlock 3 2 #[4, 0, 2, 9, 3, 10] = true := by
  decide

/-- the table of `UpperBlockDiagonal`: rows `[0,2) [2,3) | [3,6) [6,8) [8,9)`; cell 0 is unused -/
example : bbExBd.upperTable = #[0, 0, 2, 3, 6, 8, 9] := by decide

/-- the object and its copy store the two blocks -/
example :
    bbExBd.toBlocks.map (fun C => (C.dim, C.band, C.buf)) = [(2, 1, #[4, 2, 5]), (3, 2, #[4, 0, 2, 9, 3, 10])] ∧
    (bbExBd.replicate 0).toBlocks.map (fun C => (C.dim, C.band, C.buf))
      = [(2, 1, #[4, 2, 5]), (3, 2, #[4, 0, 2, 9, 3, 10])] ∧
    (bbExBd.replicate 0).nonz = #[4, 2, 5, 4, 0, 2, 9, 3, 10] ∧
    (bbExBd.replicate 0).upperTable = #[0, 0, 2, 3, 6, 8, 9] := by decide

/-- the hypotheses of the theorems are met by this object: it is `Built` (through `built_init`,
    `built_addBlock`), its blocks are well formed, hence its table is `TabOK` -/
example : bbExBd.Built bbExCs [] ∧ (bbExBd.replicate 0).Built bbExCs [] ∧ TabOK bbExBd.upperTable bbExCs := by
  have h0 := BlockDiag.built_init (0 : Nat) 2 9
  have h1 := BlockDiag.built_addBlock 0 2 1 #[4, 2, 5] h0 (by decide)
  have h2 := BlockDiag.built_addBlock 0 3 2 #[4, 0, 2, 9, 3, 10] h1 (by decide)
  have hb : bbExBd.Built bbExCs [] := h2
  have hwf : ∀ C ∈ bbExCs, C.WF := by
    intro C hC
    simp only [bbExCs, List.mem_cons, List.mem_nil_iff, or_false] at hC
    rcases hC with rfl | rfl
    · exact ⟨by decide, by decide⟩
    · exact ⟨by decide, by decide⟩
  exact ⟨hb, BlockDiag.built_replicate 0 hb hwf, upperTable_ok bbExBd bbExCs [] hb.holds hwf hb.size⟩

end Example

end Gama.Cov
