/-
  C13 — `Describes` PROVED for the concrete loader: the network `export_xml` reads (`unload`) describes the state of the loop,
  and it is an exportable (`Net.WF`) network with the same active points.
-/
import Gama.Model.ExportLoader
import Gama.Lemmas.ExportRerun
import Gama.Lemmas.ExportAdj
namespace Gama.Rerun
open Gama Gama.Lin Gama.RA Gama.Export

variable {K : Type}

theorem putCoords_id (q : Lin.Pt K) (p : Export.Point K) : (putCoords q p).id = p.id := rfl

theorem putCoords_shape (q : Lin.Pt K) (p : Export.Point K) :
    (putCoords q p).id = p.id ∧ (putCoords q p).xy.isSome = p.xy.isSome ∧ (putCoords q p).z.isSome = p.z.isSome := by
  refine ⟨rfl, ?_, ?_⟩ <;> simp [putCoords]

theorem putCoords_active (q : Lin.Pt K) (p : Export.Point K) : (putCoords q p).active = p.active := rfl

/-- `pos` looks at the ids only -/
theorem pos_map (f : Export.Point K → Export.Point K) (hf : ∀ p, (f p).id = p.id) (ps : List (Export.Point K)) (id : String) :
    pos (ps.map f) id = pos ps id := by
  induction ps with
  | nil => rfl
  | cons p ps ih => simp only [List.map_cons, pos, hf, ih]

theorem pos_fun_map (f : Export.Point K → Export.Point K) (hf : ∀ p, (f p).id = p.id) (ps : List (Export.Point K)) :
    pos (ps.map f) = pos ps := funext (pos_map f hf ps)

/-- with distinct ids the position of the i-th point's id is i -/
theorem pos_getElem (ps : List (Export.Point K)) (hnd : (ps.map (·.id)).Nodup) :
    ∀ (i : Nat) (p : Export.Point K), ps[i]? = some p → pos ps p.id = i := by
  induction ps with
  | nil => intro i p h; simp at h
  | cons q qs ih =>
    intro i p h
    simp only [List.map_cons, List.nodup_cons] at hnd
    cases i with
    | zero =>
      simp only [List.getElem?_cons_zero, Option.some.injEq] at h
      subst h; simp [pos]
    | succ j =>
      simp only [List.getElem?_cons_succ] at h
      have hne : q.id ≠ p.id := by
        intro e
        apply hnd.1
        rw [e]
        exact List.mem_map.2 ⟨p, List.mem_of_getElem? h, rfl⟩
      simp only [pos, hne, if_false, ih hnd.2 j p h]

theorem frame_unload [Zero K] (cv : Conv K) (n : Export.Net K) (σ : Lin.Net K) :
    (docLoader cv).frame (unload n σ) = (docLoader cv).frame n := by
  have hp : pos (unload n σ).points = pos n.points :=
    pos_fun_map (fun p => putCoords (σ.pt (pos n.points p.id)) p) (fun _ => rfl) n.points
  simp only [docLoader]
  have h1 : (unload n σ).points.map (fun p => (⟨p.id, ⟨0, 0, 0, .unused, .unused⟩⟩ : PE.Point K)) =
      n.points.map (fun p => ⟨p.id, ⟨0, 0, 0, .unused, .unused⟩⟩) := by
    simp only [unload, List.map_map]; rfl
  have h2 : ∀ (k : Nat) (cs : List (Export.Cluster K)),
      peClusters cv (unload n σ).points k cs = peClusters cv n.points k cs := by
    intro k cs
    induction cs generalizing k with
    | nil => rfl
    | cons c cs ih =>
      simp only [peClusters, ih]
      cases c <;> simp only [clusterObs, hp]
  rw [h1, h2]; rfl

theorem obs_unload [Zero K] (cv : Conv K) (n : Export.Net K) (σ : Lin.Net K) :
    (docLoader cv).obs (unload n σ) = (docLoader cv).obs n := by
  have hp : pos (unload n σ).points = pos n.points :=
    pos_fun_map (fun p => putCoords (σ.pt (pos n.points p.id)) p) (fun _ => rfl) n.points
  show odFrom cv (unload n σ).points 0 n.clusters = odFrom cv n.points 0 n.clusters
  generalize (0 : Nat) = k
  induction n.clusters generalizing k with
  | nil => rfl
  | cons c cs ih =>
    simp only [odFrom, ih]
    cases c <;> simp only [clusterObs, hp]

theorem xyz_unload [Zero K] (cv : Conv K) (n : Export.Net K) (σ : Lin.Net K) :
    (docLoader cv).xyz (unload n σ) = (docLoader cv).xyz n := by
  funext i
  simp only [docLoader, unload, List.getElem?_map]
  cases n.points[i]? with
  | none => rfl
  | some p => simp [putCoords]

theorem ptOf_putCoords [Zero K] (q : Lin.Pt K) (p : Export.Point K)
    (h : q.sxy = stOf p.sxy ∧ q.sz = stOf p.sz ∧ (p.xy = none → q.x = 0 ∧ q.y = 0) ∧ (p.z = none → q.z = 0)) :
    ptOf (some (putCoords q p)) = q := by
  obtain ⟨h1, h2, h3, h4⟩ := h
  cases q with
  | mk x y z sxy sz =>
    simp only at h1 h2 h3 h4
    subst h1; subst h2
    cases hxy : p.xy <;> cases hz : p.z <;> simp_all [ptOf, putCoords]

/-- **`Describes` from the export model**: the network `export_xml` reads in the state `s` describes `s` -/
theorem describes_unload (cv : Conv ℝ) (n : Export.Net ℝ) (s : St ℝ)
    (hnd : (n.points.map (·.id)).Nodup) (hs : SameShape cv n s) :
    Describes (docLoader cv) n (unload n s.σ) s := by
  refine ⟨frame_unload cv n s.σ, ?_, ?_, ?_⟩
  · have hpt : (fun i => ptOf (unload n s.σ).points[i]?) = s.σ.pt := by
      funext i
      simp only [unload, List.getElem?_map]
      cases hi : n.points[i]? with
      | none => simp only [Option.map_none]; exact (hs.beyond i hi).symm
      | some p =>
        simp only [Option.map_some]
        rw [pos_getElem n.points hnd i p hi]
        exact ptOf_putCoords _ p (hs.pts i p hi)
    show (⟨fun i => ptOf (unload n s.σ).points[i]?, cv.orient (unload n s.σ), cv.xNorth (unload n s.σ).head⟩ : Lin.Net ℝ) = s.σ
    rw [hpt, ← hs.ori, show (unload n s.σ).head = n.head from rfl, ← hs.xNorth]
  · rw [xyz_unload, hs.xyz]
  · rw [obs_unload, hs.obs]

theorem unload_canon (n : Export.Net K) (σ : Lin.Net K) (hact : ∀ p ∈ n.points, p.active = true) :
    canon (unload n σ) = unload n σ := by
  have : (unload n σ).points.filter Export.Point.active = (unload n σ).points := by
    apply List.filter_eq_self.2
    intro q hq
    obtain ⟨p, hp, rfl⟩ := List.mem_map.1 hq
    exact hact p hp
  simp only [canon, this]

theorem filter_active_map_put (σ : Lin.Net K) (ps qs : List (Export.Point K)) :
    (qs.map fun p => putCoords (σ.pt (pos ps p.id)) p).filter Export.Point.active =
      (qs.filter Export.Point.active).map fun p => putCoords (σ.pt (pos ps p.id)) p := by
  induction qs with
  | nil => rfl
  | cons p qs ih =>
    simp only [List.map_cons, List.filter_cons, putCoords_active, ih]
    cases p.active <;> simp

/-- moving the coordinates keeps the network exportable (exact codec: the coordinates are arbitrary numbers) -/
theorem unload_WF {C : Codec K} {Rd : K → Prop} (n : Export.Net K) (σ : Lin.Net K) (hw : n.WF C (fun _ => True) Rd) :
    (unload n σ).WF C (fun _ => True) Rd := by
  refine ⟨hw.par, hw.epoch, ?_, ?_, ?_⟩
  · intro q hq
    obtain ⟨p, hpm, rfl⟩ := List.mem_map.mp hq
    refine ⟨(hw.ids p hpm).1, ?_⟩
    unfold Point.Rep
    constructor <;> split <;> trivial
  · show ((n.points.map _).map _).Nodup
    rw [List.map_map]
    exact hw.nodup
  · show ∀ c ∈ n.clusters, _
    intro c hc
    show c.WF C (fun _ => True) Rd n.par.gons n.par.sigmaApr ((n.points.map _).filter Export.Point.active)
    rw [filter_active_map_put]
    exact Cluster.WF_map_points _ _ _ _ (fun p => putCoords_shape _ p) c (hw.clusters c hc)

/-! ### a small levelling document for the non-vacuity of `SameShape` / `describes_unload` -/

/-- conversions that do nothing -/
noncomputable def cvId : Conv ℝ := ⟨fun _ v => v, fun _ => ⟨1, 0, #[1]⟩, fun _ _ => 0, fun _ => 0, 10⟩

/-- `A` fixed (z = 100), `B` free (z = 110), one height difference A→B = 10.001 -/
noncomputable def levNet : Export.Net ℝ :=
  { head := ⟨.en, true, none⟩, descr := "lev", par := ⟨10, 1 / 2, 1000, true, true, none, none, none, -1⟩,
    points := [⟨"A", none, some 100, .unused, .fixed⟩, ⟨"B", none, some 110, .unused, .free⟩],
    clusters := [.hdiffs [⟨"A", "B", 10 + 1 / 1000, 0, 1, ""⟩] none] }

/-- a state of the loop in which `B` has moved to 110.002 and nothing else changed -/
noncomputable def levState : St ℝ :=
  ⟨⟨fun i => if i = 0 then ⟨0, 0, 100, .unused, .fixed⟩ else if i = 1 then ⟨0, 0, 110 + 2 / 1000, .unused, .free⟩
            else ⟨0, 0, 0, .unused, .unused⟩, fun _ => 0, 0⟩,
   fun _ => false, [⟨.h_diff, 0, 0, 1, 0, 10 + 1 / 1000, 0, 0, 0⟩], 2⟩

theorem levState_sameShape : SameShape cvId levNet levState := by
  refine ⟨?_, ?_, rfl, ?_, ?_, rfl⟩
  · intro i p h
    match i with
    | 0 =>
      have : p = ⟨"A", none, some 100, .unused, .fixed⟩ := by simpa [levNet] using h.symm
      subst this; simp [levState, stOf]
    | 1 =>
      have : p = ⟨"B", none, some 110, .unused, .free⟩ := by simpa [levNet] using h.symm
      subst this; simp [levState, stOf]
    | (k + 2) => simp [levNet] at h
  · intro i h
    match i with
    | 0 => simp [levNet] at h
    | 1 => simp [levNet] at h
    | (k + 2) => simp [levState]
  · funext i
    match i with
    | 0 => simp [levState, docLoader, levNet]
    | 1 => simp [levState, docLoader, levNet]
    | (k + 2) => simp [levState, docLoader, levNet]
  · simp [levState, docLoader, levNet, odFrom, clusterObs, pos, fresh, cvId]

theorem levNet_nodup : (levNet.points.map (·.id)).Nodup := by simp [levNet]

/-- the network `export_xml` reads in that state has `B` at 110.002 -/
theorem levState_unload : (unload levNet levState.σ).points.map (·.z) = [some 100, some (110 + 2 / 1000)] := by
  simp [unload, levNet, levState, putCoords, pos]

end Gama.Rerun
