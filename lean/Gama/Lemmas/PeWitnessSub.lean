/-
  Sub-configurations of `Ex.netWobs` (`Lemmas/PeWitnessReal.lean`) as the removal loops of the decision layer can reach them
  (`NetDecision.SubOf`): `dcfg zA zB zC` = the three points with xy unused and heights `zA, zB, zC`;
  `withStatuses netWobs (dcfg …) = netWs …` (`rfl`).  Evaluated over ℝ here: the configuration with `C` unused
  (`netWs fixed constrained unused`): the revision switches off every observation to `C`, one height difference `A→B` of the
  correlated cluster is left (active pattern `[t,f,f]`, `activeCov() = [16]`), `project_equations()` hands over the 1×1 system
  `rows = [(1,1)]`, `rhs_ = (1)`, `min_x_ = [1]`.
-/
import Gama.Lemmas.PeWitnessReal
import Gama.Lemmas.C20Reachable
namespace Gama.C06NZ.Ex
open Gama Gama.Lin Gama.PE Gama.Ls Gama.Ls.Net Gama.LS Gama.C06FP Gama.C06NZ Gama.Ls.Ex Gama.Props.C01 Matrix Gama.NetDecision

noncomputable def netWs (sA sB sC : Status) : PE.Net ℝ :=
  { points := [⟨"A", ⟨0, 0, 100, .unused, sA⟩⟩, ⟨"B", ⟨0, 0, 110, .unused, sB⟩⟩, ⟨"C", ⟨0, 0, 105, .unused, sC⟩⟩]
    clusters := netWobs.clusters
    m0 := 2, xNorth := 0, fuel := 10, idx := IdxState.init }

/-- a configuration of the three points at the decision layer -/
def dcfg (zA zB zC : CStat) : NetDecision.Net := [⟨"A", .unused, zA⟩, ⟨"B", .unused, zB⟩, ⟨"C", .unused, zC⟩]

theorem withStatuses_cfg (zA zB zC : CStat) :
    withStatuses netWobs (dcfg zA zB zC) = netWs (ofC zA) (ofC zB) (ofC zC) := rfl

theorem netWs_obs : netWs .fixed .constrained .free = netWobs := rfl

/-- the sub-configurations of the given configuration of `netWobs`: 2³ -/
theorem subOf_dcfg (n : NetDecision.Net) (h : SubOf (dcfg .fixed .constrained .free) n) :
    ∃ zA zB zC, n = dcfg zA zB zC ∧ (zA = .fixed ∨ zA = .unused) ∧ (zB = .constrained ∨ zB = .unused) ∧
      (zC = .free ∨ zC = .unused) := by
  cases h with
  | cons hA h =>
    cases h with
    | cons hB h =>
      cases h with
      | cons hC h =>
        cases h
        rename_i PA PB PC
        obtain ⟨a1, a2, a3⟩ := hA
        obtain ⟨b1, b2, b3⟩ := hB
        obtain ⟨c1, c2, c3⟩ := hC
        refine ⟨PA.z, PB.z, PC.z, ?_, a3, b3, c3⟩
        have ea : PA = ⟨"A", .unused, PA.z⟩ := by
          obtain ⟨i, x, z⟩ := PA
          have h1 : i = "A" := a1
          have h2 : x = .unused := by rcases a2 with h | h <;> exact h
          rw [h1, h2]
        have eb : PB = ⟨"B", .unused, PB.z⟩ := by
          obtain ⟨i, x, z⟩ := PB
          have h1 : i = "B" := b1
          have h2 : x = .unused := by rcases b2 with h | h <;> exact h
          rw [h1, h2]
        have ec : PC = ⟨"C", .unused, PC.z⟩ := by
          obtain ⟨i, x, z⟩ := PC
          have h1 : i = "C" := c1
          have h2 : x = .unused := by rcases c2 with h | h <;> exact h
          rw [h1, h2]
        unfold dcfg
        rw [← ea, ← eb, ← ec]

end Gama.C06NZ.Ex
