/-
  Sub-configurations of `Ex.netWobs` (`Lemmas/PeWitnessReal.lean`) as the removal loops of the decision layer can reach them
  (`NetDecision.SubOf`): `dcfg zA zB zC` = the three points with xy unused and heights `zA, zB, zC`;
  `withStatuses netWobs (dcfg …) = netWs …` (`rfl`).  Evaluated over ℝ here: the configuration with `C` unused
  (`netWs fixed constrained unused`): the revision switches off every observation to `C`, one height difference `A→B` of the
  correlated cluster is left (active pattern `[t,f,f]`, `activeCov() = [16]`), `project_equations()` hands over the 1×1 system
  `rows = [(1,1)]`, `rhs_ = (1)`, `min_x_ = [1]`.
-/
import Gama.Lemmas.PeWitnessReal
import Gama.Lemmas.C20Reachable
namespace Gama.C06NZ.Ex
open Gama Gama.Lin Gama.PE Gama.Ls Gama.Ls.Net Gama.LS Gama.C06FP Gama.C06NZ Gama.Ls.Ex Gama.Props.C01 Matrix Gama.NetDecision

noncomputable def netWs (sA sB sC : Status) : PE.Net ℝ :=
  { points := [⟨"A", ⟨0, 0, 100, .unused, sA⟩⟩, ⟨"B", ⟨0, 0, 110, .unused, sB⟩⟩, ⟨"C", ⟨0, 0, 105, .unused, sC⟩⟩]
    clusters := netWobs.clusters
    m0 := 2, xNorth := 0, fuel := 10, idx := IdxState.init }

/-- a configuration of the three points at the decision layer -/
def dcfg (zA zB zC : CStat) : NetDecision.Net := [⟨"A", .unused, zA⟩, ⟨"B", .unused, zB⟩, ⟨"C", .unused, zC⟩]

theorem withStatuses_cfg (zA zB zC : CStat) :
    withStatuses netWobs (dcfg zA zB zC) = netWs (ofC zA) (ofC zB) (ofC zC) := rfl

theorem netWs_obs : netWs .fixed .constrained .free = netWobs := rfl

/-- the sub-configurations of the given configuration of `netWobs`: 2³ -/
theorem subOf_dcfg (n : NetDecision.Net) (h : SubOf (dcfg .fixed .constrained .free) n) :
    ∃ zA zB zC, n = dcfg zA zB zC ∧ (zA = .fixed ∨ zA = .unused) ∧ (zB = .constrained ∨ zB = .unused) ∧
      (zC = .free ∨ zC = .unused) := by
  cases h with
  | cons hA h =>
    cases h with
    | cons hB h =>
      cases h with
      | cons hC h =>
        cases h
        rename_i PA PB PC
        obtain ⟨a1, a2, a3⟩ := hA
        obtain ⟨b1, b2, b3⟩ := hB
        obtain ⟨c1, c2, c3⟩ := hC
        refine ⟨PA.z, PB.z, PC.z, ?_, a3, b3, c3⟩
        have ea : PA = ⟨"A", .unused, PA.z⟩ := by
          obtain ⟨i, x, z⟩ := PA
          have h1 : i = "A" := a1
          have h2 : x = .unused := by rcases a2 with h | h <;> exact h
          rw [h1, h2]
        have eb : PB = ⟨"B", .unused, PB.z⟩ := by
          obtain ⟨i, x, z⟩ := PB
          have h1 : i = "B" := b1
          have h2 : x = .unused := by rcases b2 with h | h <;> exact h
          rw [h1, h2]
        have ec : PC = ⟨"C", .unused, PC.z⟩ := by
          obtain ⟨i, x, z⟩ := PC
          have h1 : i = "C" := c1
          have h2 : x = .unused := by rcases c2 with h | h <;> exact h
          rw [h1, h2]
        unfold dcfg
        rw [← ea, ← eb, ← ec]

section facade
attribute [local instance] sqrtFnOfSqrtField
attribute [local instance 2000] scalarOfField
attribute [local instance 3000] fieldTrig
attribute [-simp] Gama.C06R.add_eq Gama.C06R.sub_eq Gama.C06R.mul_eq Gama.C06R.div_eq Gama.C06R.neg_eq Gama.C06R.zero_eq
  Gama.C06R.one_eq Gama.C06R.lt_eq Gama.C06R.le_eq

/-- the system handed over when no observation survives the revision of `N` -/
noncomputable def npE (N : PE.Net ℝ) : NetProblem ℝ :=
  { m := 0, n := 0, rows := #[], rhs := #[], clusters := npClusters (revise N), m0 := N.m0, minx := [] }

noncomputable def asmE (N : PE.Net ℝ) : Asm ℝ :=
  { np := npE N, idx := IdxState.init, list := unknownsList (revise N) IdxState.init }

noncomputable def uE (N : PE.Net ℝ) : Unknowns ℝ := ⟨0, (asmE N).list, { revise N with idx := IdxState.init }, []⟩

theorem npE_cofs (N : PE.Net ℝ) (h : activeClusters (npE N) = []) : cofs (npE N) = [] := by
  unfold cofs; rw [h]; rfl

theorem npE_prepare (N : PE.Net ℝ) (h : activeClusters (npE N) = []) : ∃ hh, prepare (npE N) = .ok hh := by
  unfold prepare
  rw [npE_cofs N h]
  exact ⟨_, rfl⟩

theorem peE (N : PE.Net ℝ) (hobs : revisedObs (revise N) = []) (hidx : (revise N).idx.resetPass (guardOf (revise N)) = IdxState.init)
    (hact : activeClusters (npE N) = []) (hm : (MinX.feed (idxFn IdxState.init) (ptsOf (revise N))).2 = [])
    (hfuel : N.points.length + 1 = 4)
    (hs : ∀ hh : Hom ℝ, (SingularCoords.singularCoords hh.Ad (idxFn IdxState.init) (ptsOf (revise N))).1 = false) :
    projectEquations N = .ok (npE N, uE N) := by
  have hasm : assemble (revise N) = .ok (asmE N) := by
    have hlin : linPass (revise N) (revisedObs (revise N)) ((revise N).idx.resetPass (guardOf (revise N)))
        = .ok ⟨[], [], IdxState.init⟩ := by
      rw [hobs, hidx]; rfl
    unfold assemble
    simp only [hlin]
    rw [hobs]
    rfl
  obtain ⟨hh, hp⟩ := npE_prepare N hact
  unfold projectEquations
  rw [hfuel]
  unfold peLoop
  have hp' : prepare (asmE N).np = .ok hh := hp
  have hs' : (SingularCoords.singularCoords hh.Ad (idxFn (asmE N).idx) (ptsOf (revise N))).1 = false := hs hh
  have hm' : (MinX.feed (idxFn (asmE N).idx) (ptsOf (revise N))).2 = [] := hm
  simp only [hasm, hp', hs', hm', Bool.false_eq_true, if_false]
  rfl

theorem npE_netHyp (N : PE.Net ℝ) (hact : activeClusters (npE N) = []) (hm0 : N.m0 ≠ 0) : NetHyp .gso (npE N) := by
  have hrows : RowsOK (toProblem (npE N)) := fun i hi => absurd hi (Nat.not_lt_zero i)
  have hPc : Sigma (npE N) * (0 : Matrix (Fin (toProblem (npE N)).m) (Fin (toProblem (npE N)).m) ℝ) = 1 := by
    ext i j; exact absurd i.isLt (Nat.not_lt_zero _)
  have hdim : (dimsN (npE N)).sum = (npE N).m := by
    unfold dimsN; rw [npE_cofs N hact]; rfl
  have hreg : Env.RegListOK (toProblem (npE N)) := by
    intro l hl
    have : l = [] := by
      have h : Reg.subset [] = Reg.subset l := hl
      injection h with h'; exact h'.symm
    subst this
    exact ⟨List.nodup_nil, fun k hk => by cases hk⟩
  have hgap : RankGap (toProblem (npE N)).A (((npE N).m0 * (npE N).m0) • (0 : Matrix (Fin (toProblem (npE N)).m) (Fin (toProblem (npE N)).m) ℝ))
      (toProblem (npE N)).S (1 / 8192) :=
    ⟨fun k => absurd k.isLt (Nat.not_lt_zero _), fun g _ hne => (hne (funext fun i => absurd i.isLt (Nat.not_lt_zero _))).elim⟩
  exact { rows := hrows, m0 := hm0, weight := ⟨0, hPc⟩
          first := C01_net_solverhyp_of_gap (npE N) hdim hrows hm0 0 hPc hreg C01_gap_thresholds_default hgap .gso (by decide)
          second := trivial }

/-- what the decision layer sees of `project_equations()` on a configuration is the evaluated output -/
theorem peWorld_prob_eq (base : PE.Net ℝ) (dnet : NetDecision.Net) (np0 : NetProblem ℝ) (u : Unknowns ℝ)
    (h : projectEquations (withStatuses base dnet) = .ok (np0, u)) (np : NetProblem ℝ)
    (hp : (peWorld base dnet).prob = some np) : np = np0 := by
  unfold peWorld at hp
  split at hp
  · rw [h] at hp
    exact (Option.some.inj hp).symm
  · cases hp

/-- **the four sub-configurations of `netWobs` on which no observation survives the revision**: `project_equations()` hands over
    the empty system, and `NetHyp .gso` holds for it -/
theorem empty_cfg_netHyp (zA zB zC : CStat)
    (h : (zA = .unused ∧ zB = .unused) ∨ (zA = .unused ∧ zC = .unused) ∨ (zB = .unused ∧ zC = .unused))
    (hA : zA = .fixed ∨ zA = .unused) (hB : zB = .constrained ∨ zB = .unused) (hC : zC = .free ∨ zC = .unused)
    (np : NetProblem ℝ) (hp : (peWorld netWobs (dcfg zA zB zC)).prob = some np) : NetHyp .gso np := by
  have hm0 : ∀ sA sB sC, (netWs sA sB sC).m0 ≠ 0 := fun _ _ _ => by show (2 : ℝ) ≠ 0; norm_num
  rcases hA with rfl | rfl <;> rcases hB with rfl | rfl <;> rcases hC with rfl | rfl <;>
    first
    | (exfalso; simp at h; done)
    | (have e := peWorld_prob_eq netWobs _ _ _ (peE _ rfl rfl rfl rfl rfl (fun _ => rfl)) np hp
       rw [e]
       exact npE_netHyp _ rfl (hm0 _ _ _))

end facade

end Gama.C06NZ.Ex
