/-
  The printers with `P` significant digits (`%.{p}e`, `%.{p}g`: `to_xmlstr`, gama-g3's dump) over ℚ.

    `rd_fmtGen`, `rd_fmtSci`      rdDecimal (fmt x) = some (roundSig m P x)            every x, precision, rounding rule
    `sigD_stable`                 the numeral of the value read back is the numeral of x  (D (N (D x)) = D x)
    `fmtGen_roundSig`, `fmtSci_roundSig`   printing is a projection — no exception: a non-zero x never prints as zero
    `roundSig_err`                |roundSig m P x − x| ≤ ½·10^(e−P+1),  10^e ≤ |x| < 10^(e+1)  (relative ≤ ½·10^(1−P))
    `roundSig_idem`, `roundSig_neg`, `roundSig_eq_zero_iff`, `roundSig_pos_iff`
-/
import Gama.Lemmas.DecimalCodec
namespace Gama.Dec
open Gama.Lit

/-! ## text -/

theorem pow10Val_mul_pow (M k : Nat) (b : Int) : pow10Val (M * 10 ^ k) b = pow10Val M (b + k) := by
  rw [pow10Val_eq, pow10Val_eq, zpow_add₀ (by norm_num : (10 : ℚ) ≠ 0), zpow_natCast]
  push_cast; ring

/-- trailing zeros of the fraction do not change the value -/
theorem rd_numText_strip (neg : Bool) (ip fp0 ex : List Char) (eneg : Bool) (E : Nat) (hip : AllDigit ip) (hne : ip ≠ [])
    (hfp : AllDigit fp0) (hex : ExpTail ex eneg E) :
    rdDecimalL (numText neg ip (stripZeros fp0) ex) =
      some (signed neg (pow10Val (digitsVal (ip ++ fp0)) ((if eneg then -(E : Int) else (E : Int)) - (fp0.length : Int)))) := by
  rw [rdDecimalL_numText neg ip _ ex eneg E hip hne (allDigit_stripZeros hfp) hex]
  obtain ⟨k, hlen, hval⟩ := digitsVal_stripZeros ip fp0
  rw [hval, pow10Val_mul_pow, hlen]
  congr 3
  push_cast; ring

theorem allDigit_take {l : List Char} (h : AllDigit l) (k : Nat) : AllDigit (l.take k) :=
  fun c hc => h c (List.mem_of_mem_take hc)

theorem allDigit_drop {l : List Char} (h : AllDigit l) (k : Nat) : AllDigit (l.drop k) :=
  fun c hc => h c (List.mem_of_mem_drop hc)

theorem take_ne_nil {l : List Char} (k : Nat) (hk : 0 < k) (hl : 0 < l.length) : l.take k ≠ [] := by
  intro h
  have := congrArg List.length h
  rw [List.length_take, List.length_nil] at this
  omega

theorem expInt_eq (X : Int) : (if decide (X < 0) = true then -(X.natAbs : Int) else (X.natAbs : Int)) = X := by
  by_cases h : X < 0
  · rw [if_pos (by simpa using h)]; omega
  · rw [if_neg (by simpa using h)]; omega

theorem digitsVal_take_drop (P m k : Nat) (hm : m < 10 ^ P) :
    digitsVal ((natDigits P m).take k ++ (natDigits P m).drop k) = m := by
  rw [List.take_append_drop, digitsVal_natDigits, Nat.mod_eq_of_lt hm]

/-- `%.{P-1}e` is read back as the numeral's value -/
theorem rd_sciShow (P : Nat) (hP : 0 < P) (d : Numeral) (hm : d.m < 10 ^ P) : rdDecimalL (sciShow P d) = some d.val := by
  have hds := allDigit_natDigits P d.m
  have hlen := length_natDigits P d.m
  have h := rdDecimalL_numText d.neg ((natDigits P d.m).take 1) ((natDigits P d.m).drop 1)
    (expText (if d.m = 0 then 0 else d.e + ((P : Int) - 1))) _ _ (allDigit_take hds 1)
    (take_ne_nil 1 (by decide) (by omega)) (allDigit_drop hds 1) (expTail_expText _)
  rw [digitsVal_take_drop P d.m 1 hm, expInt_eq, List.length_drop, hlen] at h
  have hs : sciShow P d = numText d.neg ((natDigits P d.m).take 1) ((natDigits P d.m).drop 1)
      (expText (if d.m = 0 then 0 else d.e + ((P : Int) - 1))) := rfl
  rw [hs, h]
  unfold Numeral.val
  by_cases h0 : d.m = 0
  · rw [h0, pow10Val_zero, pow10Val_zero]
  · rw [if_neg h0]
    congr 3
    omega

theorem digitsVal_cons_zero (l : List Char) : digitsVal ('0' :: l) = digitsVal l := by
  rw [← List.singleton_append, digitsVal_append]
  simp [digitsVal]

theorem digitsVal_zeros_append (j : Nat) (l : List Char) : digitsVal ('0' :: (List.replicate j '0' ++ l)) = digitsVal l := by
  rw [digitsVal_cons_zero, digitsVal_append, digitsVal_replicate_zero]
  simp

/-- `%.{P}g` is read back as the numeral's value -/
theorem rd_genShow (P : Nat) (hP : 0 < P) (d : Numeral) (hm : d.m < 10 ^ P) : rdDecimalL (genShow P d) = some d.val := by
  have hds := allDigit_natDigits P d.m
  have hlen := length_natDigits P d.m
  unfold genShow
  by_cases h0 : d.m = 0
  · rw [if_pos h0]
    have h := rdDecimalL_numText false ['0'] [] [] false 0 (by intro c hc; simp at hc; subst hc; decide) (by simp)
      allDigit_nil ExpTail.none
    have hs : numText false ['0'] [] [] = ['0'] := by decide
    rw [hs] at h
    rw [h]
    unfold Numeral.val
    rw [h0, pow10Val_zero]
    have : digitsVal (['0'] ++ []) = 0 := by decide
    rw [this, pow10Val_zero]
    cases d.neg <;> simp [signed]
  · rw [if_neg h0]
    simp only []
    split
    · rename_i hX
      split
      · -- fixed notation, X ≥ 0
        rename_i hX0
        have h := rd_numText_strip d.neg ((natDigits P d.m).take ((d.e + ((P : Int) - 1)).toNat + 1))
          ((natDigits P d.m).drop ((d.e + ((P : Int) - 1)).toNat + 1)) [] false 0
          (allDigit_take hds _) (take_ne_nil _ (by omega) (by omega)) (allDigit_drop hds _) ExpTail.none
        rw [digitsVal_take_drop P d.m _ hm, List.length_drop, hlen] at h
        have hs : ∀ a b : List Char, d.neg = d.neg → signText d.neg ++ (a ++ dotFrac b) = numText d.neg a b [] := by
          intro a b _; simp [numText]
        rw [hs _ _ rfl, h]
        unfold Numeral.val
        congr 3
        simp only [Bool.false_eq_true, if_false]
        omega
      · -- fixed notation, X < 0
        rename_i hX0
        have hz : AllDigit (List.replicate ((-(d.e + ((P : Int) - 1))).toNat - 1) '0' ++ natDigits P d.m) :=
          allDigit_append (allDigit_replicate_zero _) hds
        have h := rd_numText_strip d.neg ['0'] _ [] false 0 (by intro c hc; simp at hc; subst hc; decide) (by simp)
          hz ExpTail.none
        have hv : digitsVal (['0'] ++ (List.replicate ((-(d.e + ((P : Int) - 1))).toNat - 1) '0' ++ natDigits P d.m)) = d.m := by
          rw [List.singleton_append, digitsVal_zeros_append, digitsVal_natDigits, Nat.mod_eq_of_lt hm]
        rw [hv, List.length_append, List.length_replicate, hlen] at h
        have hs : ∀ b : List Char, signText d.neg ++ ('0' :: dotFrac b) = numText d.neg ['0'] b [] := by
          intro b; simp [numText]
        rw [hs, h]
        unfold Numeral.val
        congr 3
        simp only [Bool.false_eq_true, if_false]
        omega
    · -- exponent notation
      have h := rd_numText_strip d.neg ((natDigits P d.m).take 1) ((natDigits P d.m).drop 1)
        (expText (d.e + ((P : Int) - 1))) _ _ (allDigit_take hds 1)
        (take_ne_nil 1 (by decide) (by omega)) (allDigit_drop hds 1) (expTail_expText _)
      rw [digitsVal_take_drop P d.m 1 hm, expInt_eq, List.length_drop, hlen] at h
      have hs : ∀ a b c : List Char, signText d.neg ++ (a ++ (dotFrac b ++ c)) = numText d.neg a b c := by
        intro a b c; rfl
      rw [hs, h]
      unfold Numeral.val
      congr 3
      omega

/-! ## arithmetic -/

theorem ten_zpow_pos (e : Int) : (0 : ℚ) < (10 : ℚ) ^ e := by positivity

theorem ten_ne_zero : (10 : ℚ) ≠ 0 := by norm_num

/-- the decimal exponent brackets the quotient -/
theorem expo10_spec (n d : Nat) (hn : 0 < n) (hd : 0 < d) :
    (10 : ℚ) ^ (expo10 n d) ≤ (n : ℚ) / d ∧ (n : ℚ) / d < (10 : ℚ) ^ (expo10 n d + 1) := by
  have hnq : (0 : ℚ) < n := by exact_mod_cast hn
  have hdq : (0 : ℚ) < d := by exact_mod_cast hd
  unfold expo10
  split
  · rename_i hle
    have ht : 0 < n / d := Nat.div_pos hle hd
    have hw1 := pow_width_le (n / d) ht
    have hw2 := lt_pow_width (n / d)
    have hw := width_pos (n / d)
    have h1 : n / d * d ≤ n := Nat.div_mul_le_self n d
    have h2 : n < d * (n / d + 1) := Nat.lt_mul_div_succ n hd
    have e1 : ((width (n / d) : Int) - 1) = ((width (n / d) - 1 : Nat) : Int) := by omega
    have e2 : (((width (n / d) - 1 : Nat) : Int) + 1) = ((width (n / d) : Nat) : Int) := by omega
    rw [e1, e2, zpow_natCast, zpow_natCast]
    constructor
    · rw [le_div_iff₀ hdq]
      have : 10 ^ (width (n / d) - 1) * d ≤ n := Nat.le_trans (Nat.mul_le_mul_right d hw1) h1
      exact_mod_cast this
    · rw [div_lt_iff₀ hdq]
      have : n < 10 ^ width (n / d) * d := by
        have : d * (n / d + 1) ≤ 10 ^ width (n / d) * d := by
          rw [Nat.mul_comm]; exact Nat.mul_le_mul_right d hw2
        omega
      exact_mod_cast this
  · rename_i hlt
    have hlt : n < d := by omega
    have ht : 0 < d / n := Nat.div_pos (by omega) hn
    have hw1 := pow_width_le (d / n) ht
    have hw2 := lt_pow_width (d / n)
    have hw := width_pos (d / n)
    have h1 : d / n * n ≤ d := Nat.div_mul_le_self d n
    have h2 : d < n * (d / n + 1) := Nat.lt_mul_div_succ d hn
    have hA : n * 10 ^ (width (d / n) - 1) ≤ d := by
      rw [Nat.mul_comm]; exact Nat.le_trans (Nat.mul_le_mul_right n hw1) h1
    have hB : d < n * 10 ^ width (d / n) := by
      have : n * (d / n + 1) ≤ n * 10 ^ width (d / n) := Nat.mul_le_mul_left n hw2
      omega
    have hAq : (n : ℚ) * (10 : ℚ) ^ (width (d / n) - 1) ≤ d := by exact_mod_cast hA
    have hBq : (d : ℚ) < (n : ℚ) * (10 : ℚ) ^ width (d / n) := by exact_mod_cast hB
    simp only []
    split
    · rename_i heq
      have heqq : (n : ℚ) * (10 : ℚ) ^ (width (d / n) - 1) = d := by exact_mod_cast heq
      have e1 : (-((width (d / n) : Int) - 1)) = -((width (d / n) - 1 : Nat) : Int) := by omega
      have hval : (n : ℚ) / d = (10 : ℚ) ^ (-((width (d / n) - 1 : Nat) : Int)) := by
        rw [zpow_neg, zpow_natCast, ← heqq]
        field_simp
      rw [e1, hval]
      constructor
      · exact le_refl _
      · exact zpow_lt_zpow_right₀ (by norm_num) (by omega)
    · rename_i hne
      have hA' : n * 10 ^ (width (d / n) - 1) < d := lt_of_le_of_ne hA hne
      have hAq' : (n : ℚ) * (10 : ℚ) ^ (width (d / n) - 1) < d := by exact_mod_cast hA'
      have e2 : (-(width (d / n) : Int) + 1) = -((width (d / n) - 1 : Nat) : Int) := by omega
      rw [e2, zpow_neg, zpow_natCast, zpow_neg, zpow_natCast]
      constructor
      · rw [le_div_iff₀ hdq, inv_mul_le_iff₀ (by positivity)]
        linarith
      · rw [div_lt_iff₀ hdq, lt_inv_mul_iff₀ (by positivity)]
        linarith

/-- the bracket determines the exponent -/
theorem expo_unique (a : ℚ) (e e' : Int) (h1 : (10 : ℚ) ^ e ≤ a) (h2 : a < (10 : ℚ) ^ (e + 1))
    (h1' : (10 : ℚ) ^ e' ≤ a) (h2' : a < (10 : ℚ) ^ (e' + 1)) : e = e' := by
  have ha : (10 : ℚ) ^ e < (10 : ℚ) ^ (e' + 1) := lt_of_le_of_lt h1 h2'
  have hb : (10 : ℚ) ^ e' < (10 : ℚ) ^ (e + 1) := lt_of_le_of_lt h1' h2
  rw [zpow_lt_zpow_iff_right₀ (by norm_num)] at ha hb
  omega

theorem roundScaled_err (m : RMode) (n d : Nat) (hd : 0 < d) (k : Int) :
    |((roundScaled m n d k : Nat) : ℚ) - (n : ℚ) / d * (10 : ℚ) ^ k| ≤ 1 / 2 := by
  have hdq : (0 : ℚ) < d := by exact_mod_cast hd
  unfold roundScaled
  split
  · rename_i hk
    obtain ⟨j, rfl⟩ := Int.eq_ofNat_of_zero_le hk
    have h := roundDiv_err m (n * 10 ^ j) d hd
    have : ((n * 10 ^ j : Nat) : ℚ) / d = (n : ℚ) / d * (10 : ℚ) ^ ((j : Nat) : Int) := by
      rw [zpow_natCast]; push_cast; ring
    rw [this] at h
    simpa using h
  · rename_i hk
    obtain ⟨j, hj⟩ := Int.eq_ofNat_of_zero_le (show 0 ≤ -k by omega)
    have hk' : k = -(j : Int) := by omega
    have h := roundDiv_err m n (d * 10 ^ j) (Nat.mul_pos hd (by positivity))
    have : (n : ℚ) / ((d * 10 ^ j : Nat) : ℚ) = (n : ℚ) / d * (10 : ℚ) ^ k := by
      rw [hk', zpow_neg, zpow_natCast]; push_cast; field_simp
    rw [this] at h
    rw [hj]
    simpa using h

theorem roundScaled_of_eq (m : RMode) (n d : Nat) (hd : 0 < d) (k : Int) (s : Nat)
    (h : (n : ℚ) / d * (10 : ℚ) ^ k = s) : roundScaled m n d k = s := by
  have hdq : (0 : ℚ) < d := by exact_mod_cast hd
  unfold roundScaled
  split
  · rename_i hk
    obtain ⟨j, rfl⟩ := Int.eq_ofNat_of_zero_le hk
    have : n * 10 ^ j = s * d := by
      rw [zpow_natCast, div_mul_eq_mul_div, div_eq_iff (ne_of_gt hdq)] at h
      exact_mod_cast h
    simp only [Int.toNat_natCast]
    rw [this, roundDiv_mul m s d hd]
  · rename_i hk
    obtain ⟨j, hj⟩ := Int.eq_ofNat_of_zero_le (show 0 ≤ -k by omega)
    have hk' : k = -(j : Int) := by omega
    have hp : (0 : ℚ) < (10 : ℚ) ^ j := by positivity
    have : n = s * (d * 10 ^ j) := by
      rw [hk', zpow_neg, zpow_natCast] at h
      have h' : (n : ℚ) = (s : ℚ) * ((d : ℚ) * (10 : ℚ) ^ j) := by
        field_simp at h
        linarith
      exact_mod_cast h'
    rw [hj]
    simp only [Int.toNat_natCast]
    conv_lhs => rw [this]
    rw [roundDiv_mul m s _ (Nat.mul_pos hd (by positivity))]

/-- what `sigD` computes for `x ≠ 0`: sign of `x`, `P` digits, value within half a unit of the last digit -/
theorem sigD_spec (m : RMode) (P : Nat) (hP : 0 < P) (x : ℚ) (hx : x ≠ 0) :
    ∃ e : Int, (10 : ℚ) ^ e ≤ |x| ∧ |x| < (10 : ℚ) ^ (e + 1) ∧
      (sigD m P x).neg = isNeg x ∧ 10 ^ (P - 1) ≤ (sigD m P x).m ∧ (sigD m P x).m < 10 ^ P ∧
      |((sigD m P x).m : ℚ) * (10 : ℚ) ^ (sigD m P x).e - (|x|)| ≤ 1 / 2 * (10 : ℚ) ^ (e - ((P : Int) - 1)) := by
  have hnum : x.num ≠ 0 := by rwa [Ne, Rat.num_eq_zero]
  have hn : 0 < x.num.natAbs := Int.natAbs_pos.mpr hnum
  have hd := x.den_pos
  obtain ⟨hlo, hhi⟩ := expo10_spec x.num.natAbs x.den hn hd
  have habs : (x.num.natAbs : ℚ) / x.den = |x| := by rw [← absQ_eq_abs]; rfl
  rw [habs] at hlo hhi
  refine ⟨expo10 x.num.natAbs x.den, hlo, hhi, ?_⟩
  generalize hE : expo10 x.num.natAbs x.den = E at hlo hhi
  have herr := roundScaled_err m x.num.natAbs x.den hd ((P : Int) - 1 - E)
  rw [habs] at herr
  -- the scaled value lies in [10^(P-1), 10^P)
  have hk1 : (10 : ℚ) ^ ((P - 1 : Nat) : Int) ≤ |x| * (10 : ℚ) ^ ((P : Int) - 1 - E) := by
    have : ((P - 1 : Nat) : Int) = E + ((P : Int) - 1 - E) := by omega
    rw [this, zpow_add₀ ten_ne_zero]
    exact mul_le_mul_of_nonneg_right hlo (le_of_lt (ten_zpow_pos _))
  have hk2 : |x| * (10 : ℚ) ^ ((P : Int) - 1 - E) < (10 : ℚ) ^ ((P : Nat) : Int) := by
    have : (10 : ℚ) ^ ((P : Nat) : Int) = (10 : ℚ) ^ (E + 1) * (10 : ℚ) ^ ((P : Int) - 1 - E) := by
      rw [← zpow_add₀ ten_ne_zero]; congr 1; omega
    rw [this]
    exact mul_lt_mul_of_pos_right hhi (ten_zpow_pos _)
  rw [zpow_natCast] at hk1 hk2
  rw [abs_le] at herr
  have hm1 : 10 ^ (P - 1) ≤ roundScaled m x.num.natAbs x.den ((P : Int) - 1 - E) := by
    by_contra hc
    have hc' : roundScaled m x.num.natAbs x.den ((P : Int) - 1 - E) + 1 ≤ 10 ^ (P - 1) := by omega
    have : ((roundScaled m x.num.natAbs x.den ((P : Int) - 1 - E) : Nat) : ℚ) + 1 ≤ (10 : ℚ) ^ (P - 1) := by
      exact_mod_cast hc'
    linarith [herr.1]
  have hm2 : roundScaled m x.num.natAbs x.den ((P : Int) - 1 - E) ≤ 10 ^ P := by
    by_contra hc
    have hc' : 10 ^ P + 1 ≤ roundScaled m x.num.natAbs x.den ((P : Int) - 1 - E) := by omega
    have : (10 : ℚ) ^ P + 1 ≤ ((roundScaled m x.num.natAbs x.den ((P : Int) - 1 - E) : Nat) : ℚ) := by
      exact_mod_cast hc'
    linarith [herr.2]
  have hscale : ∀ r : ℚ, |r * (10 : ℚ) ^ (-((P : Int) - 1 - E)) - (|x|)|
      = |r - (|x|) * (10 : ℚ) ^ ((P : Int) - 1 - E)| * (10 : ℚ) ^ (E - ((P : Int) - 1)) := by
    intro r
    have e1 : (-((P : Int) - 1 - E)) = E - ((P : Int) - 1) := by omega
    have hpos := ten_zpow_pos (E - ((P : Int) - 1))
    have hinv : (10 : ℚ) ^ ((P : Int) - 1 - E) * (10 : ℚ) ^ (E - ((P : Int) - 1)) = 1 := by
      rw [← zpow_add₀ ten_ne_zero]; simp
    rw [e1, ← abs_of_pos hpos, ← abs_mul, abs_of_pos hpos]
    congr 1
    rw [sub_mul, mul_assoc, hinv, mul_one]
  have hfin : |((roundScaled m x.num.natAbs x.den ((P : Int) - 1 - E) : Nat) : ℚ) * (10 : ℚ) ^ (-((P : Int) - 1 - E)) - (|x|)|
      ≤ 1 / 2 * (10 : ℚ) ^ (E - ((P : Int) - 1)) := by
    rw [hscale]
    exact mul_le_mul_of_nonneg_right (abs_le.mpr herr) (le_of_lt (ten_zpow_pos _))
  unfold sigD
  rw [if_neg hnum]
  simp only [hE]
  split
  · rename_i h10
    refine ⟨rfl, le_refl _, Nat.pow_lt_pow_right (by decide) (by omega), ?_⟩
    have : ((10 ^ (P - 1) : Nat) : ℚ) * (10 : ℚ) ^ (-((P : Int) - 1 - E) + 1)
        = ((10 ^ P : Nat) : ℚ) * (10 : ℚ) ^ (-((P : Int) - 1 - E)) := by
      rw [zpow_add₀ ten_ne_zero, zpow_one]
      have : (10 : ℚ) ^ P = (10 : ℚ) ^ (P - 1) * 10 := by
        rw [← pow_succ]; congr 1; omega
      push_cast
      rw [this]; ring
    rw [this, ← h10]
    exact hfin
  · rename_i h10
    exact ⟨rfl, hm1, Nat.lt_of_le_of_ne hm2 h10, hfin⟩

theorem sigD_zero (m : RMode) (P : Nat) : sigD m P 0 = ⟨false, 0, 0⟩ := by
  unfold sigD; simp

theorem sigD_m_lt (m : RMode) (P : Nat) (hP : 0 < P) (x : ℚ) : (sigD m P x).m < 10 ^ P := by
  by_cases hx : x = 0
  · rw [hx, sigD_zero]; positivity
  · obtain ⟨e, _, _, _, _, h, _⟩ := sigD_spec m P hP x hx
    exact h

theorem numeral_val_eq (d : Numeral) : d.val = signed d.neg ((d.m : ℚ) * (10 : ℚ) ^ d.e) := by
  unfold Numeral.val; rw [pow10Val_eq]

/-- a numeral with exactly `P` digits is the `P`-digit numeral of its own value (whatever the rounding rule) -/
theorem sigD_of_numeral (m : RMode) (P : Nat) (hP : 0 < P) (neg : Bool) (M : Nat) (E : Int)
    (h1 : 10 ^ (P - 1) ≤ M) (h2 : M < 10 ^ P) :
    sigD m P (signed neg ((M : ℚ) * (10 : ℚ) ^ E)) = ⟨neg, M, E⟩ := by
  have hM : (0 : ℚ) < M := by
    have : 0 < M := Nat.lt_of_lt_of_le (by positivity) h1
    exact_mod_cast this
  have hv : (0 : ℚ) < (M : ℚ) * (10 : ℚ) ^ E := mul_pos hM (ten_zpow_pos E)
  generalize hy : signed neg ((M : ℚ) * (10 : ℚ) ^ E) = y
  have hneg : isNeg y = neg := by rw [← hy]; exact isNeg_signed neg _ hv
  have habsy : |y| = (M : ℚ) * (10 : ℚ) ^ E := by rw [← hy]; exact abs_signed neg _ (le_of_lt hv)
  have hy0 : y ≠ 0 := by
    intro h; rw [h, abs_zero] at habsy; linarith
  have hnum : y.num ≠ 0 := by rwa [Ne, Rat.num_eq_zero]
  have hn : 0 < y.num.natAbs := Int.natAbs_pos.mpr hnum
  have hd := y.den_pos
  obtain ⟨hlo, hhi⟩ := expo10_spec y.num.natAbs y.den hn hd
  have habs : (y.num.natAbs : ℚ) / y.den = |y| := by rw [← absQ_eq_abs]; rfl
  rw [habs, habsy] at hlo hhi
  -- the bracket of M·10^E
  have hb1 : (10 : ℚ) ^ (E + ((P : Int) - 1)) ≤ (M : ℚ) * (10 : ℚ) ^ E := by
    have e1 : E + ((P : Int) - 1) = ((P - 1 : Nat) : Int) + E := by omega
    rw [e1, zpow_add₀ ten_ne_zero, zpow_natCast]
    have : ((10 : ℚ) ^ (P - 1)) ≤ M := by exact_mod_cast h1
    exact mul_le_mul_of_nonneg_right this (le_of_lt (ten_zpow_pos E))
  have hb2 : (M : ℚ) * (10 : ℚ) ^ E < (10 : ℚ) ^ (E + ((P : Int) - 1) + 1) := by
    have e1 : E + ((P : Int) - 1) + 1 = ((P : Nat) : Int) + E := by omega
    rw [e1, zpow_add₀ ten_ne_zero, zpow_natCast]
    have : (M : ℚ) < (10 : ℚ) ^ P := by exact_mod_cast h2
    exact mul_lt_mul_of_pos_right this (ten_zpow_pos E)
  have hE := expo_unique _ _ _ hlo hhi hb1 hb2
  have hk : ((P : Int) - 1 - expo10 y.num.natAbs y.den) = -E := by rw [hE]; omega
  have hround : roundScaled m y.num.natAbs y.den (-E) = M := by
    apply roundScaled_of_eq m _ _ hd
    rw [habs, habsy, mul_assoc, ← zpow_add₀ ten_ne_zero]
    simp
  unfold sigD
  rw [if_neg hnum]
  simp only [hk, hround, hneg]
  rw [if_neg (by omega)]
  simp

/-- **stable**: the numeral of the value read back is the numeral that was printed -/
theorem sigD_stable (m m' : RMode) (P : Nat) (hP : 0 < P) (x : ℚ) : sigD m' P (sigD m P x).val = sigD m P x := by
  by_cases hx : x = 0
  · rw [hx, sigD_zero]
    have : (⟨false, 0, 0⟩ : Numeral).val = 0 := by
      rw [numeral_val_eq]; simp [signed]
    rw [this, sigD_zero]
  · obtain ⟨e, _, _, _, h1, h2, _⟩ := sigD_spec m P hP x hx
    rw [numeral_val_eq, sigD_of_numeral m' P hP _ _ _ h1 h2]

theorem roundSig_idem (m m' : RMode) (P : Nat) (hP : 0 < P) (x : ℚ) : roundSig m' P (roundSig m P x) = roundSig m P x := by
  unfold roundSig
  rw [sigD_stable m m' P hP x]

theorem roundSig_zero (m : RMode) (P : Nat) : roundSig m P 0 = 0 := by
  unfold roundSig; rw [sigD_zero, numeral_val_eq]; simp [signed]

theorem roundSig_eq (m : RMode) (P : Nat) (hP : 0 < P) (x : ℚ) (hx : x ≠ 0) :
    roundSig m P x = signed (isNeg x) (((sigD m P x).m : ℚ) * (10 : ℚ) ^ (sigD m P x).e) ∧
      (0 : ℚ) < ((sigD m P x).m : ℚ) * (10 : ℚ) ^ (sigD m P x).e := by
  obtain ⟨e, _, _, hneg, h1, _, _⟩ := sigD_spec m P hP x hx
  constructor
  · unfold roundSig; rw [numeral_val_eq, hneg]
  · have : 0 < (sigD m P x).m := Nat.lt_of_lt_of_le (by positivity) h1
    have : (0 : ℚ) < (sigD m P x).m := by exact_mod_cast this
    exact mul_pos this (ten_zpow_pos _)

/-- **a non-zero number never prints as zero** -/
theorem roundSig_eq_zero_iff (m : RMode) (P : Nat) (hP : 0 < P) (x : ℚ) : roundSig m P x = 0 ↔ x = 0 := by
  constructor
  · intro h
    by_contra hx
    obtain ⟨he, hpos⟩ := roundSig_eq m P hP x hx
    rw [he] at h
    cases hb : isNeg x <;> rw [hb] at h <;> simp only [signed, if_true, Bool.false_eq_true, if_false] at h <;> linarith
  · intro h; rw [h, roundSig_zero]

theorem isNeg_roundSig (m : RMode) (P : Nat) (hP : 0 < P) (x : ℚ) : isNeg (roundSig m P x) = isNeg x := by
  by_cases hx : x = 0
  · rw [hx, roundSig_zero]
  · obtain ⟨he, hpos⟩ := roundSig_eq m P hP x hx
    rw [he, isNeg_signed _ _ hpos]

theorem roundSig_pos_iff (m : RMode) (P : Nat) (hP : 0 < P) (x : ℚ) : 0 < roundSig m P x ↔ 0 < x := by
  have h1 := isNeg_roundSig m P hP x
  have h2 := roundSig_eq_zero_iff m P hP x
  have ha : ∀ y : ℚ, 0 < y ↔ (isNeg y = false ∧ y ≠ 0) := by
    intro y
    constructor
    · intro hy
      refine ⟨?_, ne_of_gt hy⟩
      cases hb : isNeg y
      · rfl
      · have := (isNeg_iff y).mp hb; linarith
    · rintro ⟨hb, hne⟩
      have : ¬ y < 0 := fun h => by rw [(isNeg_iff y).mpr h] at hb; cases hb
      exact lt_of_le_of_ne (not_lt.mp this) (Ne.symm hne)
  rw [ha, ha x, h1, Ne, h2]

/-- **sign symmetry** -/
theorem roundSig_neg (m : RMode) (P : Nat) (x : ℚ) : roundSig m P (-x) = -roundSig m P x := by
  by_cases hx : x = 0
  · rw [hx, neg_zero, roundSig_zero, neg_zero]
  · have hnum : x.num ≠ 0 := by rwa [Ne, Rat.num_eq_zero]
    have hflip : isNeg (-x) = !isNeg x := by
      rcases lt_or_gt_of_ne hx with h | h
      · have h1 : isNeg x = true := (isNeg_iff x).mpr h
        have h2 : isNeg (-x) = false := by
          cases hh : isNeg (-x)
          · rfl
          · have := (isNeg_iff _).mp hh; linarith
        rw [h1, h2]; rfl
      · have h1 : isNeg x = false := by
          cases hh : isNeg x
          · rfl
          · have := (isNeg_iff _).mp hh; linarith
        have h2 : isNeg (-x) = true := (isNeg_iff _).mpr (by linarith)
        rw [h1, h2]; rfl
    have hD : sigD m P (-x) = ⟨!(sigD m P x).neg, (sigD m P x).m, (sigD m P x).e⟩ := by
      unfold sigD
      rw [Rat.neg_num, Rat.neg_den, Int.natAbs_neg, if_neg hnum, if_neg (by omega)]
      simp only [hflip]
      split <;> rfl
    unfold roundSig
    rw [hD, numeral_val_eq, numeral_val_eq]
    cases (sigD m P x).neg <;> simp [signed]

/-- **accuracy**: half a unit of the `P`-th significant digit -/
theorem roundSig_err (m : RMode) (P : Nat) (hP : 0 < P) (x : ℚ) (hx : x ≠ 0) :
    ∃ e : Int, (10 : ℚ) ^ e ≤ |x| ∧ |x| < (10 : ℚ) ^ (e + 1) ∧
      |roundSig m P x - x| ≤ 1 / 2 * (10 : ℚ) ^ (e - ((P : Int) - 1)) := by
  obtain ⟨e, hlo, hhi, hneg, _, _, herr⟩ := sigD_spec m P hP x hx
  refine ⟨e, hlo, hhi, ?_⟩
  unfold roundSig
  rw [numeral_val_eq, hneg]
  have hxs : x = signed (isNeg x) (|x|) := by rw [← absQ_eq_abs]; exact eq_signed_absQ x
  have : ∀ (b : Bool) (u v : ℚ), |signed b u - signed b v| = |u - v| := by
    intro b u v
    cases b
    · simp [signed]
    · simp only [signed, if_true]; rw [← neg_sub', abs_neg]
  calc |signed (isNeg x) (((sigD m P x).m : ℚ) * (10 : ℚ) ^ (sigD m P x).e) - x|
      = |signed (isNeg x) (((sigD m P x).m : ℚ) * (10 : ℚ) ^ (sigD m P x).e) - signed (isNeg x) (|x|)| := by rw [← hxs]
    _ = |((sigD m P x).m : ℚ) * (10 : ℚ) ^ (sigD m P x).e - (|x|)| := this _ _ _
    _ ≤ _ := herr

/-! ## the printers -/

theorem sigDigits_pos (p : Nat) : 0 < sigDigits p := by unfold sigDigits; split <;> omega

/-- **`rd (fmt x) = some (roundSig P x)`**, `%.{p}g` -/
theorem rd_fmtGen (m : RMode) (p : Nat) (x : ℚ) : rdDecimal (fmtGen m p x) = some (roundSig m (sigDigits p) x) := by
  unfold rdDecimal fmtGen fmtGenL
  rw [String.toList_ofList, rd_genShow _ (sigDigits_pos p) _ (sigD_m_lt m _ (sigDigits_pos p) x)]
  rfl

/-- **printing is a projection**, `%.{p}g`, no exception -/
theorem fmtGen_roundSig (m : RMode) (p : Nat) (x : ℚ) : fmtGen m p (roundSig m (sigDigits p) x) = fmtGen m p x := by
  unfold fmtGen fmtGenL roundSig
  rw [sigD_stable m m _ (sigDigits_pos p) x]

/-- `%.{p}e` -/
theorem rd_fmtSci (m : RMode) (p : Nat) (x : ℚ) : rdDecimal (fmtSci m p x) = some (roundSig m (p + 1) x) := by
  unfold rdDecimal fmtSci fmtSciL
  rw [String.toList_ofList, rd_sciShow _ (by omega) _ (sigD_m_lt m _ (by omega) x)]
  rfl

theorem fmtSci_roundSig (m : RMode) (p : Nat) (x : ℚ) : fmtSci m p (roundSig m (p + 1) x) = fmtSci m p x := by
  unfold fmtSci fmtSciL roundSig
  rw [sigD_stable m m _ (by omega) x]

theorem fmtGen_ne_empty (m : RMode) (p : Nat) (x : ℚ) : fmtGen m p x ≠ "" := by
  intro h
  have := rd_fmtGen m p x
  have hn : rdDecimal "" = none := by decide
  rw [h, hn] at this
  cases this

/-- every real printer: what is read back is the rounded value -/
theorem rd_print (m : RMode) (f : Fmt) (x : ℚ) : rdDecimal (f.print m x) = some (f.q m x) := by
  cases f with
  | fixed p => exact rd_fmtFixed m p x
  | sci p => exact rd_fmtSci m p x
  | gen p => exact rd_fmtGen m p x

theorem q_idem (m : RMode) (f : Fmt) (x : ℚ) : f.q m (f.q m x) = f.q m x := by
  cases f with
  | fixed p => exact roundTo_idem m m p x
  | sci p => exact roundSig_idem m m _ (by omega) x
  | gen p => exact roundSig_idem m m _ (sigDigits_pos p) x

theorem q_neg (m : RMode) (f : Fmt) (x : ℚ) : f.q m (-x) = -f.q m x := by
  cases f with
  | fixed p => exact roundTo_neg m p x
  | sci p => exact roundSig_neg m _ x
  | gen p => exact roundSig_neg m _ x

/-! ## the first character of a `%g` text -/

theorem numText_head (neg : Bool) (ip fp ex : List Char) (hip : AllDigit ip) (hne : ip ≠ []) :
    ∃ c r, numText neg ip fp ex = c :: r ∧ (c = '-' ∨ isDigit c = true) := by
  cases neg
  · cases ip with
    | nil => exact absurd rfl hne
    | cons d ds => exact ⟨d, _, rfl, Or.inr (hip d (List.mem_cons_self ..))⟩
  · exact ⟨'-', _, rfl, Or.inl rfl⟩

theorem genShow_head (P : Nat) (hP : 0 < P) (d : Numeral) :
    ∃ c r, genShow P d = c :: r ∧ (c = '-' ∨ isDigit c = true) := by
  have hds := allDigit_natDigits P d.m
  have hlen := length_natDigits P d.m
  unfold genShow
  by_cases h0 : d.m = 0
  · rw [if_pos h0]; exact ⟨'0', [], rfl, Or.inr (by decide)⟩
  · rw [if_neg h0]
    simp only []
    split
    · split
      · obtain ⟨c, r, h1, h2⟩ := numText_head d.neg ((natDigits P d.m).take ((d.e + ((P : Int) - 1)).toNat + 1))
          (stripZeros ((natDigits P d.m).drop ((d.e + ((P : Int) - 1)).toNat + 1))) []
          (allDigit_take hds _) (take_ne_nil _ (by omega) (by omega))
        exact ⟨c, r, by rw [← h1]; simp [numText], h2⟩
      · obtain ⟨c, r, h1, h2⟩ := numText_head d.neg ['0']
          (stripZeros (List.replicate ((-(d.e + ((P : Int) - 1))).toNat - 1) '0' ++ natDigits P d.m)) []
          (by intro c hc; simp at hc; subst hc; decide) (by simp)
        exact ⟨c, r, by rw [← h1]; simp [numText], h2⟩
    · exact numText_head d.neg _ _ _ (allDigit_take hds 1) (take_ne_nil 1 (by decide) (by omega))

theorem fmtGenL_head (m : RMode) (p : Nat) (x : ℚ) : ∃ c r, fmtGenL m p x = c :: r ∧ (c = '-' ∨ isDigit c = true) :=
  genShow_head _ (sigDigits_pos p) _

end Gama.Dec
