/-
  C15, clause 9: the regenerated guard table (`Gen/DimChecks.lean`) IS the guard of the operator
  models (`Model/MatVec.lean`), and the models' index arithmetic stays inside the operands exactly
  when the guard passes.

  For every operator model `op` (the pairing operator ↔ table entry is the one the plugin uses,
  `GUARD_OF` in tools/props/c15.py):

  * `Guarded cond (op x y)` : `cond → op x y = .error .badRank` and, for operands satisfying the class
    invariant (`Mat.WF`, `TMat.WF`, `SMat.WF`, `MB.WF`), `¬ cond → ∃ v, op x y = .ok v` — every checked read
    `rd` of the model hits the storage;
  * `TableGuards name sa sb nr (op x y)` : the table has an entry `name`, `op x y = .error .badRank` iff
    the entry's guard fires on the shapes the operands report, and if it does not fire the model does not
    read outside (`≠ .error .oob`).

  The proofs look the entry up by `decide` (kinds and atoms of the regenerated table), so a removed,
  weakened or re-paired guard in lib/matvec/*.h breaks them.

  The one operator for which the second half FAILS is `operator*(Vec,TransMat)` (known finding
  C15-vec-transmat): `vecMulT_guard_iff` (the guard half holds), `vecMulT_not_inbounds` (witness).
-/
import Gama.Lemmas.MatVecAlg
import Gama.Model.DimCheck
import Gama.Model.MatInvert
import Gama.Gen.DimChecks
namespace Gama.MatVec
open Gama.DimCheck

variable {K : Type}

/-! ### completion of the loop combinators -/

/-- the model run completed: no `BadRank`, no read outside an operand -/
def IsOk {α : Type} (r : Except Err α) : Prop := ∃ v, r = .ok v

theorem IsOk.ne_error {α : Type} {r : Except Err α} (h : IsOk r) (e : Err) : r ≠ .error e := by
  obtain ⟨v, hv⟩ := h; rw [hv]; intro h'; cases h'

theorem isOk_ok {α : Type} (v : α) : IsOk (.ok v : Except Err α) := ⟨v, rfl⟩

theorem isOk_rd {a : Array K} {p : Nat} (h : p < a.size) : IsOk (rd a p) := ⟨_, rd_ok h⟩

theorem isOk_mulRd [Mul K] {a b : Array K} {p q : Nat} (hp : p < a.size) (hq : q < b.size) :
    IsOk (mulRd a p b q) := ⟨a[p] * b[q], by simp [mulRd, rd_ok hp, rd_ok hq]⟩

theorem isOk_zipRd (f : K → K → K) {a b : Array K} {p : Nat} (hp : p < a.size) (hq : p < b.size) :
    IsOk (zipRd f a b p) := ⟨f a[p] b[p], by simp [zipRd, rd_ok hp, rd_ok hq]⟩

theorem isOk_tabulate (n : Nat) (f : Nat → Except Err K) (h : ∀ p, p < n → IsOk (f p)) :
    IsOk (tabulate n f) := by
  induction n with
  | zero => exact ⟨#[], rfl⟩
  | succ n ih =>
    obtain ⟨a, ha⟩ := ih (fun p hp => h p (by omega))
    obtain ⟨v, hv⟩ := h n (by omega)
    exact ⟨a.push v, by simp [tabulate, ha, hv]⟩

theorem isOk_sumLoop [Add K] [Zero K] (n : Nat) (f : Nat → Except Err K) (h : ∀ k, k < n → IsOk (f k)) :
    IsOk (sumLoop n f) := by
  induction n with
  | zero => exact ⟨0, rfl⟩
  | succ n ih =>
    obtain ⟨s, hs⟩ := ih (fun k hk => h k (by omega))
    obtain ⟨v, hv⟩ := h n (by omega)
    exact ⟨s + v, by simp [sumLoop, hs, hv]⟩

/-- `p < r·c` splits into a row `p / c < r` and a column `p % c < c` -/
theorem divmod_lt {p r c : Nat} (hp : p < r * c) : p / c < r ∧ p % c < c := by
  have hpos : 0 < c := by
    rcases Nat.eq_zero_or_pos c with h | h
    · subst h; simp at hp
    · exact h
  exact ⟨by rw [Nat.div_lt_iff_lt_mul hpos]; exact hp, Nat.mod_lt _ hpos⟩

/-- column-major offset: `i + k·r < r·c` -/
theorem idx_lt' {i k r c : Nat} (hi : i < r) (hk : k < c) : i + k * r < r * c := by
  have := idx_lt (i := k) (k := i) (r := c) (c := r) hk hi
  rw [Nat.mul_comm r c]; omega

theorem idx_lt'' {i k r c : Nat} (hi : i < r) (hk : k < c) : i + k * r < c * r := by
  rw [Nat.mul_comm c r]; exact idx_lt' hi hk

theorem one_le_succ (n : Nat) : 1 ≤ n + 1 := Nat.le_add_left 1 n

/-! ### the statement about one operator -/

/-- `cond` is the guard of the run `r`: it throws `BadRank` when `cond` holds and completes otherwise -/
structure Guarded {α : Type} (cond : Prop) (r : Except Err α) : Prop where
  bad : cond → r = .error .badRank
  ok  : ¬ cond → IsOk r

theorem Guarded.iff {α : Type} {cond : Prop} {r : Except Err α} (h : Guarded cond r) :
    r = .error .badRank ↔ cond := by
  constructor
  · intro hr; by_contra hc; exact (h.ok hc).ne_error _ hr
  · exact h.bad

/-- **table ↔ model, one run.**  The regenerated table has an entry `name`; the run `r` of the operator
    model throws `BadRank` iff that entry's guard fires on the reported shapes `sa`, `sb` (`nr` = `size()`
    of the local result object, where the guard mentions it); and if the guard does not fire the run
    reads nothing outside the operands. -/
def TableGuards {α : Type} (name : String) (sa sb : Shape) (nr : Nat) (r : Except Err α) : Prop :=
  ∃ e, find? Gen.DimChecks.table name = some e ∧
    (r = .error .badRank ↔ guardFires e sa sb nr = true) ∧
    (guardFires e sa sb nr = false → r ≠ .error .oob)

theorem TableGuards.of {α : Type} {name : String} {ka kb : Kind} {g : List Atom} {sa sb : Shape} {nr : Nat}
    {cond : Prop} {r : Except Err α}
    (hf : (find? Gen.DimChecks.table name).map (fun e => (e.ka, e.kb, e.guard)) = some (ka, kb, g))
    (hg : g.any (atomFires ka kb sa sb nr) = true ↔ cond) (h : Guarded cond r) :
    TableGuards name sa sb nr r := by
  cases hfe : find? Gen.DimChecks.table name with
  | none => rw [hfe] at hf; cases hf
  | some e =>
    rw [hfe] at hf
    simp only [Option.map_some, Option.some.injEq, Prod.mk.injEq] at hf
    obtain ⟨h1, h2, h3⟩ := hf
    have hgf : guardFires e sa sb nr = true ↔ cond := by
      unfold guardFires; rw [h1, h2, h3]; exact hg
    refine ⟨e, hfe, h.iff.trans hgf.symm, ?_⟩
    intro hno
    have hc : ¬ cond := by
      intro hc; rw [hgf.mpr hc] at hno; cases hno
    exact (h.ok hc).ne_error _

/-- the run completes whenever the table's guard passes (consequence of the two halves) -/
theorem TableGuards.completes {α : Type} {name : String} {sa sb : Shape} {nr : Nat} {r : Except Err α}
    (h : TableGuards name sa sb nr r) :
    ∃ e, find? Gen.DimChecks.table name = some e ∧ (guardFires e sa sb nr = false → IsOk r) := by
  obtain ⟨e, he, h1, h2⟩ := h
  refine ⟨e, he, fun hg => ?_⟩
  cases hr : r with
  | ok v => exact ⟨v, rfl⟩
  | error x =>
    cases x with
    | badRank => rw [h1.mp hr] at hg; cases hg
    | oob => exact absurd hr (h2 hg)

/-! ### class invariants and reported shapes -/

/-- `TransMat`: the view owns `rows·cols` elements -/
def TMat.WF (A : TMat K) : Prop := A.data.size = A.rows * A.cols
/-- `SymMat`: packed lower triangle -/
def SMat.WF (A : SMat K) : Prop := A.data.size = A.dim * (A.dim + 1) / 2
/-- any `MatBase`: `operator()(r,c)` is defined for `1 ≤ r ≤ rows`, `1 ≤ c ≤ cols` -/
def MB.WF (A : MB K) : Prop := ∀ i j, 1 ≤ i → i ≤ A.rows → 1 ≤ j → j ≤ A.cols → IsOk (A.get i j)

def Mat.shape (A : Mat K) : Shape := ⟨A.rows, A.cols⟩
def TMat.shape (A : TMat K) : Shape := ⟨A.rows, A.cols⟩
def MB.shape (A : MB K) : Shape := ⟨A.rows, A.cols⟩
def SMat.shape (A : SMat K) : Shape := ⟨A.dim, A.dim⟩
/-- a `Vec` / `VecBase` of dimension n reports n×1 -/
def vshape (a : Vec K) : Shape := ⟨a.size, 1⟩
/-- a `TransVec` of dimension n reports 1×n -/
def wshape (a : Vec K) : Shape := ⟨1, a.size⟩
/-- raw storage (`MatVecBase`) of n elements -/
def rawshape (n : Nat) : Shape := ⟨n, 1⟩

theorem Mat.mb_WF {A : Mat K} (h : A.WF) : A.mb.WF := by
  intro i j h1 h2 h3 h4
  exact isOk_rd (by rw [h]; exact matIdx_lt ⟨h1, h2⟩ ⟨h3, h4⟩)

theorem TMat.mb_WF {A : TMat K} (h : A.WF) : A.mb.WF := by
  intro i j h1 h2 h3 h4
  refine isOk_rd ?_
  show tmatIdx A.rows i j < A.data.size
  rw [h]; unfold tmatIdx
  have : (j - 1) * A.rows + (i - 1) < A.cols * A.rows :=
    idx_lt (i := j - 1) (k := i - 1) (r := A.cols) (c := A.rows)
      (by show j - 1 < A.cols; have : j ≤ A.cols := h4; omega)
      (by show i - 1 < A.rows; have : i ≤ A.rows := h2; omega)
  rw [Nat.mul_comm A.rows A.cols]; exact this

theorem SMat.mb_WF {A : SMat K} (h : A.WF) : A.mb.WF := by
  intro i j h1 h2 h3 h4
  refine isOk_rd ?_
  show symIdx i j < A.data.size
  rw [h]
  have h2' : i ≤ A.dim := h2
  have h4' : j ≤ A.dim := h4
  by_cases hij : j ≤ i
  · exact symIdx_lt h3 hij h2'
  · rw [symIdx_symm]; exact symIdx_lt h1 (by omega) h4'

/-! ### operator by operator: guard and in-bounds -/

/-- closes `IsOk (match t with | .error e => .error e | .ok d => .ok (g d))` leaving `IsOk t`'s premise -/
macro "ok_of_tab" : tactic =>
  `(tactic| (split <;> [(rename_i heq; refine absurd heq (IsOk.ne_error (isOk_tabulate _ _ ?_) _)); exact isOk_ok _]))

section ops

/-- `MatVecBase::mul(f, X)` -/
theorem baseMul_guarded [Mul K] (a : Array K) (f : K) (xsize : Nat) :
    Guarded (a.size ≠ xsize) (baseMul a f xsize) := by
  constructor
  · intro h; simp [baseMul, h]
  · intro h
    have h' : a.size = xsize := by omega
    unfold baseMul; rw [if_neg h]
    refine isOk_tabulate _ _ (fun p hp => ?_)
    have : p < a.size := by omega
    exact ⟨a[p] * f, by simp [rd_ok this]⟩

/-- `MatVecBase::add(B, X)` -/
theorem baseAdd_guarded [Add K] (a b : Array K) (xsize : Nat) :
    Guarded (a.size ≠ b.size ∨ a.size ≠ xsize) (baseAdd a b xsize) := by
  constructor
  · intro h; simp [baseAdd, h]
  · intro h
    unfold baseAdd; rw [if_neg h]
    exact isOk_tabulate _ _ (fun p hp => isOk_zipRd _ (by omega) (by omega))

theorem baseSub_guarded [Sub K] (a b : Array K) (xsize : Nat) :
    Guarded (a.size ≠ b.size ∨ a.size ≠ xsize) (baseSub a b xsize) := by
  constructor
  · intro h; simp [baseSub, h]
  · intro h
    unfold baseSub; rw [if_neg h]
    exact isOk_tabulate _ _ (fun p hp => isOk_zipRd _ (by omega) (by omega))

theorem vecAdd_guarded [Add K] (a b : Vec K) : Guarded (a.size ≠ b.size) (vecAdd a b) := by
  have := baseAdd_guarded a b a.size
  exact ⟨fun h => this.bad (Or.inl h), fun h => this.ok (by omega)⟩

theorem vecSub_guarded [Sub K] (a b : Vec K) : Guarded (a.size ≠ b.size) (vecSub a b) := by
  have := baseSub_guarded a b a.size
  exact ⟨fun h => this.bad (Or.inl h), fun h => this.ok (by omega)⟩

/-- `VecBase::dot` -/
theorem dot_guarded [Add K] [Mul K] [Zero K] (a b : Vec K) : Guarded (a.size ≠ b.size) (dot a b) := by
  constructor
  · intro h; simp [dot, h]
  · intro h
    unfold dot; rw [if_neg h]
    exact isOk_sumLoop _ _ (fun k hk => isOk_mulRd hk (by omega))

/-- member `Mat::operator+` -/
theorem matAdd_guarded [Add K] (A B : Mat K) (hA : A.WF) (hB : B.WF) :
    Guarded (A.rows ≠ B.rows ∨ A.cols ≠ B.cols) (matAdd A B) := by
  constructor
  · intro h; simp [matAdd, h]
  · intro h
    have hr : A.rows = B.rows := by omega
    have hc : A.cols = B.cols := by omega
    have hs : ¬ (A.data.size ≠ B.data.size ∨ A.data.size ≠ A.rows * A.cols) := by
      rw [hA, hB, hr, hc]; omega
    unfold matAdd; rw [if_neg h]
    obtain ⟨d, hd⟩ := (baseAdd_guarded A.data B.data (A.rows * A.cols)).ok hs
    rw [hd]; exact isOk_ok _

theorem matSub_guarded [Sub K] (A B : Mat K) (hA : A.WF) (hB : B.WF) :
    Guarded (A.rows ≠ B.rows ∨ A.cols ≠ B.cols) (matSub A B) := by
  constructor
  · intro h; simp [matSub, h]
  · intro h
    have hr : A.rows = B.rows := by omega
    have hc : A.cols = B.cols := by omega
    have hs : ¬ (A.data.size ≠ B.data.size ∨ A.data.size ≠ A.rows * A.cols) := by
      rw [hA, hB, hr, hc]; omega
    unfold matSub; rw [if_neg h]
    obtain ⟨d, hd⟩ := (baseSub_guarded A.data B.data (A.rows * A.cols)).ok hs
    rw [hd]; exact isOk_ok _

/-- free `operator±(const MatBase&, const MatBase&)` -/
theorem mbZip_guarded (f : K → K → K) (A B : MB K) (hA : A.WF) (hB : B.WF) :
    Guarded (A.rows ≠ B.rows ∨ A.cols ≠ B.cols) (mbZip f A B) := by
  constructor
  · intro h; simp [mbZip, h]
  · intro h
    have hr : A.rows = B.rows := by omega
    have hc : A.cols = B.cols := by omega
    unfold mbZip; rw [if_neg h]
    ok_of_tab
    intro p hp
    obtain ⟨hi, hj⟩ := divmod_lt hp
    obtain ⟨x, hx⟩ := hA (p / A.cols + 1) (p % A.cols + 1) (one_le_succ _) hi (one_le_succ _) hj
    obtain ⟨y, hy⟩ := hB (p / A.cols + 1) (p % A.cols + 1) (one_le_succ _) (hr ▸ hi) (one_le_succ _) (hc ▸ hj)
    exact ⟨f x y, by simp [hx, hy]⟩

/-- free `operator*(const MatBase&, const MatBase&)` -/
theorem mbMul_guarded [Add K] [Mul K] [Zero K] (A B : MB K) (hA : A.WF) (hB : B.WF) :
    Guarded (A.cols ≠ B.rows) (mbMul A B) := by
  constructor
  · intro h; simp [mbMul, h]
  · intro h
    have hc : A.cols = B.rows := by omega
    unfold mbMul; rw [if_neg h]
    ok_of_tab
    intro p hp
    obtain ⟨hi, hj⟩ := divmod_lt hp
    refine isOk_sumLoop _ _ (fun k hk => ?_)
    obtain ⟨x, hx⟩ := hA (p / B.cols + 1) (k + 1) (one_le_succ _) hi (one_le_succ _) (by omega)
    obtain ⟨y, hy⟩ := hB (k + 1) (p % B.cols + 1) (one_le_succ _) (by omega) (one_le_succ _) hj
    exact ⟨x * y, by simp [getMul, hx, hy]⟩

/-- `operator*(const Mat&, const Mat&)` -/
theorem matMul_guarded [Add K] [Mul K] [Zero K] (A B : Mat K) (hA : A.WF) (hB : B.WF) :
    Guarded (A.cols ≠ B.rows) (matMul A B) := by
  constructor
  · intro h; simp [matMul, h]
  · intro h
    have hc : A.cols = B.rows := by omega
    unfold matMul; rw [if_neg h]
    ok_of_tab
    intro p hp
    obtain ⟨hi, hj⟩ := divmod_lt hp
    refine isOk_sumLoop _ _ (fun k hk => isOk_mulRd ?_ ?_)
    · rw [hA]; exact idx_lt hi hk
    · rw [hB]; exact idx_lt'' hj (by omega)

/-- `operator*(const MatBase&, const Vec&)` -/
theorem mbMulVec_guarded [Add K] [Mul K] [Zero K] (A : MB K) (b : Vec K) (hA : A.WF) :
    Guarded (A.cols ≠ b.size) (mbMulVec A b) := by
  constructor
  · intro h; simp [mbMulVec, h]
  · intro h
    unfold mbMulVec; rw [if_neg h]
    refine isOk_tabulate _ _ (fun i hi => isOk_sumLoop _ _ (fun j hj => ?_))
    obtain ⟨x, hx⟩ := hA (i + 1) (j + 1) (one_le_succ _) hi (one_le_succ _) hj
    have hjb : j < b.size := by omega
    exact ⟨x * b[j], by simp [hx, rd_ok hjb]⟩

/-- `operator*(const Mat&, const Vec&)` -/
theorem matMulVec_guarded [Add K] [Mul K] [Zero K] (A : Mat K) (b : Vec K) (hA : A.WF) :
    Guarded (A.cols ≠ b.size) (matMulVec A b) := by
  constructor
  · intro h; simp [matMulVec, h]
  · intro h
    unfold matMulVec; rw [if_neg h]
    exact isOk_tabulate _ _ (fun i hi => isOk_sumLoop _ _ (fun j hj =>
      isOk_mulRd (by rw [hA]; exact idx_lt hi hj) (by omega)))

theorem tabulate_size {n : Nat} {f : Nat → Except Err K} {a : Array K} (h : tabulate n f = .ok a) :
    a.size = n := by
  induction n generalizing a with
  | zero => simp [tabulate] at h; subst h; rfl
  | succ n ih =>
    unfold tabulate at h
    cases ht : tabulate n f with
    | error e => rw [ht] at h; cases h
    | ok a' =>
      rw [ht] at h
      cases hf : f n with
      | error e => rw [hf] at h; cases h
      | ok x =>
        rw [hf] at h
        simp only [Except.ok.injEq] at h
        subst h; simp [ih ht]

/-- `Mat(const TransMat&)` has no guard and reads inside the view -/
theorem matOfTrans_ok (T : TMat K) (hT : T.WF) :
    ∃ M, matOfTrans T = .ok M ∧ M.rows = T.rows ∧ M.cols = T.cols ∧ M.WF := by
  have hl : IsOk (tabulate (T.rows * T.cols)
      (fun p => rd T.data (tmatIdx T.rows (p / T.cols + 1) (p % T.cols + 1)))) := by
    refine isOk_tabulate _ _ (fun p hp => isOk_rd ?_)
    obtain ⟨hi, hj⟩ := divmod_lt hp
    unfold tmatIdx
    simp only [Nat.add_sub_cancel]
    rw [hT, Nat.mul_comm T.rows T.cols]
    exact idx_lt hj hi
  obtain ⟨d, hd⟩ := hl
  refine ⟨⟨T.rows, T.cols, d⟩, ?_, rfl, rfl, tabulate_size hd⟩
  unfold matOfTrans; rw [hd]

/-- `trans(const TransMat&)` -/
theorem transT_ok (T : TMat K) (hT : T.WF) : IsOk (transT T) := by
  unfold transT
  ok_of_tab
  intro p hp
  refine isOk_rd ?_
  obtain ⟨hi, hj⟩ := divmod_lt hp
  unfold tmatIdx
  simp only [Nat.add_sub_cancel]
  rw [hT, Nat.mul_comm T.rows T.cols]
  exact idx_lt hi hj

/-- `Mat::transpose()` -/
theorem matTranspose_ok (A : Mat K) (hA : A.WF) : IsOk (matTranspose A) := by
  have hT : (trans A).WF := by
    show A.data.size = A.cols * A.rows
    rw [hA, Nat.mul_comm]
  obtain ⟨M, hM, _⟩ := matOfTrans_ok (trans A) hT
  exact ⟨M, hM⟩

/-- the four mixed sums `Mat ± TransMat`, `TransMat ± Mat` share this shape: copy the view, then walk
    the copy and the `Mat` operand over the `Mat` operand's storage -/
theorem mixed_sum_ok (f : K → K → K) (A : Mat K) (B : TMat K) (hA : A.WF) (hB : B.WF)
    (hr : A.rows = B.rows) (hc : A.cols = B.cols) :
    IsOk (match matOfTrans B with
          | .error e => (.error e : Except Err (Mat K))
          | .ok T => match tabulate A.data.size (zipRd f T.data A.data) with
                     | .error e => .error e
                     | .ok d => .ok ⟨T.rows, T.cols, d⟩) := by
  obtain ⟨T, hT, h1, h2, h3⟩ := matOfTrans_ok B hB
  rw [hT]
  dsimp only
  ok_of_tab
  intro p hp
  refine isOk_zipRd _ ?_ hp
  have : T.data.size = A.data.size := by rw [h3, h1, h2, hA, hr, hc]
  omega

theorem matAddT_guarded [Add K] (A : Mat K) (B : TMat K) (hA : A.WF) (hB : B.WF) :
    Guarded (A.rows ≠ B.rows ∨ A.cols ≠ B.cols) (matAddT A B) := by
  constructor
  · intro h; simp [matAddT, h]
  · intro h
    unfold matAddT; rw [if_neg h]
    exact mixed_sum_ok _ A B hA hB (by omega) (by omega)

theorem matSubT_guarded [Sub K] (A : Mat K) (B : TMat K) (hA : A.WF) (hB : B.WF) :
    Guarded (A.rows ≠ B.rows ∨ A.cols ≠ B.cols) (matSubT A B) := by
  constructor
  · intro h; simp [matSubT, h]
  · intro h
    unfold matSubT; rw [if_neg h]
    exact mixed_sum_ok _ A B hA hB (by omega) (by omega)

theorem tAddMat_guarded [Add K] (A : TMat K) (B : Mat K) (hA : A.WF) (hB : B.WF) :
    Guarded (A.rows ≠ B.rows ∨ A.cols ≠ B.cols) (tAddMat A B) := by
  constructor
  · intro h; simp [tAddMat, h]
  · intro h
    unfold tAddMat; rw [if_neg h]
    exact mixed_sum_ok _ B A hB hA (by omega) (by omega)

theorem tSubMat_guarded [Sub K] (A : TMat K) (B : Mat K) (hA : A.WF) (hB : B.WF) :
    Guarded (A.rows ≠ B.rows ∨ A.cols ≠ B.cols) (tSubMat A B) := by
  constructor
  · intro h; simp [tSubMat, h]
  · intro h
    unfold tSubMat; rw [if_neg h]
    exact mixed_sum_ok _ B A hB hA (by omega) (by omega)

/-- `TransMat::operator+(const TransMat&)` (through `MatVecBase::add`) -/
theorem tAddT_guarded [Add K] (A B : TMat K) (hA : A.WF) (hB : B.WF) :
    Guarded (A.rows ≠ B.rows ∨ A.cols ≠ B.cols) (tAddT A B) := by
  constructor
  · intro h; simp [tAddT, h]
  · intro h
    have hr : A.rows = B.rows := by omega
    have hc : A.cols = B.cols := by omega
    have hs : ¬ (A.data.size ≠ B.data.size ∨ A.data.size ≠ A.rows * A.cols) := by
      rw [hA, hB, hr, hc]; omega
    unfold tAddT; rw [if_neg h]
    obtain ⟨d, hd⟩ := (baseAdd_guarded A.data B.data (A.rows * A.cols)).ok hs
    rw [hd]; exact isOk_ok _

theorem tSubT_guarded [Sub K] (A B : TMat K) (hA : A.WF) (hB : B.WF) :
    Guarded (A.rows ≠ B.rows ∨ A.cols ≠ B.cols) (tSubT A B) := by
  constructor
  · intro h; simp [tSubT, h]
  · intro h
    have hr : A.rows = B.rows := by omega
    have hc : A.cols = B.cols := by omega
    have hs : ¬ (A.data.size ≠ B.data.size ∨ A.data.size ≠ A.rows * A.cols) := by
      rw [hA, hB, hr, hc]; omega
    unfold tSubT; rw [if_neg h]
    obtain ⟨d, hd⟩ := (baseSub_guarded A.data B.data (A.rows * A.cols)).ok hs
    rw [hd]; exact isOk_ok _

/-- `operator*(const TransMat&, const Vec&)` -/
theorem tMulVec_guarded [Add K] [Mul K] [Zero K] (A : TMat K) (b : Vec K) (hA : A.WF) :
    Guarded (A.cols ≠ b.size) (tMulVec A b) := by
  constructor
  · intro h; simp [tMulVec, h]
  · intro h
    unfold tMulVec; rw [if_neg h]
    exact isOk_tabulate _ _ (fun i hi => isOk_sumLoop _ _ (fun j hj =>
      isOk_mulRd (by rw [hA]; exact idx_lt' hi hj) (by omega)))

/-- `operator*(const TransMat&, const Mat&)` -/
theorem tMulMat_guarded [Add K] [Mul K] [Zero K] (A : TMat K) (B : Mat K) (hA : A.WF) (hB : B.WF) :
    Guarded (A.cols ≠ B.rows) (tMulMat A B) := by
  constructor
  · intro h; simp [tMulMat, h]
  · intro h
    unfold tMulMat; rw [if_neg h]
    ok_of_tab
    intro p hp
    obtain ⟨hi, hj⟩ := divmod_lt hp
    refine isOk_sumLoop _ _ (fun k hk => isOk_mulRd ?_ ?_)
    · rw [hA]; exact idx_lt' hi hk
    · rw [hB]; exact idx_lt'' hj (by omega)

/-- `operator*(const Mat&, const TransMat&)` -/
theorem matMulT_guarded [Add K] [Mul K] [Zero K] (A : Mat K) (B : TMat K) (hA : A.WF) (hB : B.WF) :
    Guarded (A.cols ≠ B.rows) (matMulT A B) := by
  constructor
  · intro h; simp [matMulT, h]
  · intro h
    unfold matMulT; rw [if_neg h]
    ok_of_tab
    intro p hp
    obtain ⟨hi, hj⟩ := divmod_lt hp
    refine isOk_sumLoop _ _ (fun k hk => isOk_mulRd ?_ ?_)
    · rw [hA]; exact idx_lt hi hk
    · rw [hB, Nat.mul_comm B.rows B.cols]; exact idx_lt hj (by omega)

/-- `operator*(const TransMat&, const TransMat&)` (with the stride fix) -/
theorem tMulT_guarded [Add K] [Mul K] [Zero K] (A B : TMat K) (hA : A.WF) (hB : B.WF) :
    Guarded (A.cols ≠ B.rows) (tMulT A B) := by
  constructor
  · intro h; simp [tMulT, h]
  · intro h
    unfold tMulT; rw [if_neg h]
    ok_of_tab
    intro p hp
    obtain ⟨hi, hj⟩ := divmod_lt hp
    refine isOk_sumLoop _ _ (fun k hk => isOk_mulRd ?_ ?_)
    · rw [hA]; exact idx_lt' hi hk
    · rw [hB, Nat.mul_comm B.rows B.cols]; exact idx_lt hj (by omega)

/-- `operator*(const TransVec&, const Mat&)` -/
theorem tvecMulMat_guarded [Add K] [Mul K] [Zero K] (b : Vec K) (A : Mat K) (hA : A.WF) :
    Guarded (b.size ≠ A.rows) (tvecMulMat b A) := by
  constructor
  · intro h; simp [tvecMulMat, h]
  · intro h
    unfold tvecMulMat; rw [if_neg h]
    exact isOk_tabulate _ _ (fun j hj => isOk_sumLoop _ _ (fun i hi =>
      isOk_mulRd (by omega) (by rw [hA]; exact idx_lt'' hj hi)))

/-- `operator*(const TransVec&, const MatBase&)` (with the loop-bound fix) -/
theorem tvecMulMB_guarded [Add K] [Mul K] [Zero K] (b : Vec K) (A : MB K) (hA : A.WF) :
    Guarded (b.size ≠ A.rows) (tvecMulMB b A) := by
  constructor
  · intro h; simp [tvecMulMB, h]
  · intro h
    unfold tvecMulMB; rw [if_neg h]
    refine isOk_tabulate _ _ (fun j hj => isOk_sumLoop _ _ (fun i hi => ?_))
    obtain ⟨y, hy⟩ := hA (i + 1) (j + 1) (one_le_succ _) hi (one_le_succ _) hj
    have hib : i < b.size := by omega
    exact ⟨b[i] * y, by simp [hy, rd_ok hib]⟩

/-! #### SymMat -/

theorem symAdd_guarded [Add K] (A B : SMat K) (hA : A.WF) (hB : B.WF) :
    Guarded (A.dim ≠ B.dim) (symAdd A B) := by
  constructor
  · intro h; simp [symAdd, h]
  · intro h
    have hd : A.dim = B.dim := by omega
    have hs : ¬ (A.data.size ≠ B.data.size ∨ A.data.size ≠ A.dim * (A.dim + 1) / 2) := by
      rw [hA, hB, hd]; omega
    unfold symAdd; rw [if_neg h]
    obtain ⟨d, hd'⟩ := (baseAdd_guarded A.data B.data (A.dim * (A.dim + 1) / 2)).ok hs
    rw [hd']; exact isOk_ok _

theorem symSub_guarded [Sub K] (A B : SMat K) (hA : A.WF) (hB : B.WF) :
    Guarded (A.dim ≠ B.dim) (symSub A B) := by
  constructor
  · intro h; simp [symSub, h]
  · intro h
    have hd : A.dim = B.dim := by omega
    have hs : ¬ (A.data.size ≠ B.data.size ∨ A.data.size ≠ A.dim * (A.dim + 1) / 2) := by
      rw [hA, hB, hd]; omega
    unfold symSub; rw [if_neg h]
    obtain ⟨d, hd'⟩ := (baseSub_guarded A.data B.data (A.dim * (A.dim + 1) / 2)).ok hs
    rw [hd']; exact isOk_ok _

/-- free `operator±(const SymMat&, const SymMat&)`, `operator±=` -/
theorem symZipFree_guarded (f : K → K → K) (A B : SMat K) (hA : A.WF) (hB : B.WF) :
    Guarded (A.dim ≠ B.dim) (symZipFree f A B) := by
  constructor
  · intro h; simp [symZipFree, h]
  · intro h
    have hd : A.dim = B.dim := by omega
    unfold symZipFree; rw [if_neg h]
    ok_of_tab
    intro p hp
    refine isOk_zipRd _ hp ?_
    have : B.data.size = A.data.size := by rw [hA, hB, hd]
    omega

theorem symIdx_lt_any {n i j : Nat} (h1 : 1 ≤ i) (h2 : i ≤ n) (h3 : 1 ≤ j) (h4 : j ≤ n) :
    symIdx i j < n * (n + 1) / 2 := by
  by_cases hij : j ≤ i
  · exact symIdx_lt h3 hij h2
  · rw [symIdx_symm]; exact symIdx_lt h1 (by omega) h4

/-- the pointer walk `l = i(i-1)/2; l++; if (k > i) l += k-2` of `SymMat * SymMat` / `Mat * SymMat`
    visits the packed cell of `(i,k)` -/
theorem symWalk_eq (i k : Nat) : symWalk i k - 1 = symIdx i k := by
  unfold symWalk symIdx
  by_cases h : k ≤ i
  · simp only [h, if_true]
  · simp only [h, if_false]

/-- `triRow n p` is the cell `(i,j)`, `1 ≤ j ≤ i ≤ n`, of the lower triangle -/
theorem triRow_spec (n p : Nat) (hp : p < n * (n + 1) / 2) :
    1 ≤ (triRow n p).2 ∧ (triRow n p).2 ≤ (triRow n p).1 ∧ (triRow n p).1 ≤ n := by
  let step : Nat × Nat → Nat → Nat × Nat := fun acc i0 =>
    if (i0 + 1) * i0 / 2 ≤ p then (i0 + 1, p - (i0 + 1) * i0 / 2 + 1) else acc
  have key : ∀ m, 1 ≤ m →
      let acc := (List.range m).foldl step (1, 1)
      1 ≤ acc.1 ∧ acc.1 ≤ m ∧ acc.1 * (acc.1 - 1) / 2 ≤ p ∧ acc.2 = p - acc.1 * (acc.1 - 1) / 2 + 1 ∧
        ∀ i0, i0 < m → (i0 + 1) * i0 / 2 ≤ p → i0 + 1 ≤ acc.1 := by
    intro m hm
    induction m with
    | zero => omega
    | succ m ih =>
      rw [List.range_succ, List.foldl_append]
      simp only [List.foldl_cons, List.foldl_nil]
      by_cases hT : (m + 1) * m / 2 ≤ p
      · have : step ((List.range m).foldl step (1, 1)) m = (m + 1, p - (m + 1) * m / 2 + 1) := by
          simp only [step, hT, if_true]
        rw [this]
        refine ⟨by omega, Nat.le_refl _, by simpa using hT, by simp, ?_⟩
        intro i0 h0 _; show i0 + 1 ≤ m + 1; omega
      · have : step ((List.range m).foldl step (1, 1)) m = (List.range m).foldl step (1, 1) := by
          simp only [step, hT, if_false]
        rw [this]
        have hm0 : 1 ≤ m := by
          rcases Nat.eq_zero_or_pos m with h | h
          · subst h; simp at hT
          · exact h
        obtain ⟨a1, a2, a3, a4, a5⟩ := ih hm0
        refine ⟨a1, by omega, a3, a4, ?_⟩
        intro i0 h0 h1
        by_cases h2 : i0 = m
        · subst h2; exact absurd h1 hT
        · exact a5 i0 (by omega) h1
  have hn : 1 ≤ n := by
    rcases Nat.eq_zero_or_pos n with h | h
    · subst h; simp at hp
    · exact h
  obtain ⟨a1, a2, a3, a4, a5⟩ := key n hn
  have hdef : triRow n p = (List.range n).foldl step (1, 1) := rfl
  rw [hdef]
  refine ⟨by omega, ?_, a2⟩
  rw [a4]
  generalize ((List.range n).foldl step (1, 1)).1 = i at a1 a2 a3 a5 ⊢
  have hs := tri_succ i
  by_cases hin : i = n
  · subst hin
    have : i * (i + 1) = (i + 1) * i := Nat.mul_comm _ _
    rw [this] at hp; omega
  · have := a5 i (by omega)
    by_cases hle : (i + 1) * i / 2 ≤ p
    · have := this hle; omega
    · omega

/-- `operator*(const SymMat&, const SymMat&)`: the guard and the index arithmetic are right
    (what is wrong is the VALUE: known finding C15-symmat-product) -/
theorem symMul_guarded [Add K] [Mul K] [Zero K] (A B : SMat K) (hA : A.WF) (hB : B.WF) :
    Guarded (A.dim ≠ B.dim) (symMul A B) := by
  constructor
  · intro h; simp [symMul, h]
  · intro h
    have hd : A.dim = B.dim := by omega
    unfold symMul; rw [if_neg h]
    dsimp only
    ok_of_tab
    intro p hp
    obtain ⟨t1, t2, t3⟩ := triRow_spec A.dim p hp
    refine isOk_sumLoop _ _ (fun k hk => isOk_mulRd ?_ ?_)
    · rw [symWalk_eq, hA]
      exact symIdx_lt_any (by omega) t3 (one_le_succ _) hk
    · rw [symWalk_eq, hB, ← hd]
      exact symIdx_lt_any t1 (by omega) (one_le_succ _) hk

/-- `operator*(const Mat&, const SymMat&)` -/
theorem matMulSym_guarded [Add K] [Mul K] [Zero K] (A : Mat K) (B : SMat K) (hA : A.WF) (hB : B.WF) :
    Guarded (A.cols ≠ B.dim) (matMulSym A B) := by
  constructor
  · intro h; simp [matMulSym, h]
  · intro h
    have hd : A.cols = B.dim := by omega
    unfold matMulSym; rw [if_neg h]
    dsimp only
    ok_of_tab
    intro p hp
    obtain ⟨hi, hj⟩ := divmod_lt hp
    refine isOk_sumLoop _ _ (fun k hk => isOk_mulRd ?_ ?_)
    · rw [hA]; exact idx_lt hi hk
    · rw [symWalk_eq, hB, ← hd]
      exact symIdx_lt_any (one_le_succ _) hj (one_le_succ _) hk

/-- `Lower(const Mat&)` / `Upper(const Mat&)` → SymMat -/
theorem matLowerSym_guarded (A : Mat K) (hA : A.WF) : Guarded (A.rows ≠ A.cols) (matLowerSym A) := by
  constructor
  · intro h; simp [matLowerSym, h]
  · intro h
    have hd : A.rows = A.cols := by omega
    unfold matLowerSym; rw [if_neg h]
    ok_of_tab
    intro p hp
    obtain ⟨t1, t2, t3⟩ := triRow_spec A.rows p hp
    refine isOk_rd ?_
    rw [hA]
    exact matIdx_lt ⟨by omega, t3⟩ ⟨t1, by omega⟩

theorem matUpperSym_guarded (A : Mat K) (hA : A.WF) : Guarded (A.rows ≠ A.cols) (matUpperSym A) := by
  constructor
  · intro h; simp [matUpperSym, h]
  · intro h
    have hd : A.rows = A.cols := by omega
    unfold matUpperSym; rw [if_neg h]
    ok_of_tab
    intro p hp
    obtain ⟨t1, t2, t3⟩ := triRow_spec A.rows p hp
    refine isOk_rd ?_
    rw [hA]
    exact matIdx_lt ⟨t1, by omega⟩ ⟨by omega, by omega⟩

/-- `Square`, `Lower`, `Upper` of a SymMat (no guard) -/
theorem symSquare_ok (A : SMat K) (hA : A.WF) : IsOk (symSquare A) := by
  unfold symSquare
  ok_of_tab
  intro p hp
  obtain ⟨hi, hj⟩ := divmod_lt hp
  refine isOk_rd ?_
  rw [hA]; exact symIdx_lt_any (one_le_succ _) hi (one_le_succ _) hj

theorem symLowerMat_ok [Zero K] (A : SMat K) (hA : A.WF) : IsOk (symLowerMat A) := by
  unfold symLowerMat
  ok_of_tab
  intro p hp
  obtain ⟨hi, hj⟩ := divmod_lt hp
  dsimp only
  split
  · refine isOk_rd ?_
    rw [hA]; exact symIdx_lt_any (one_le_succ _) hi (one_le_succ _) hj
  · exact isOk_ok _

theorem symUpperMat_ok [Zero K] (A : SMat K) (hA : A.WF) : IsOk (symUpperMat A) := by
  unfold symUpperMat
  ok_of_tab
  intro p hp
  obtain ⟨hi, hj⟩ := divmod_lt hp
  dsimp only
  split
  · refine isOk_rd ?_
    rw [hA]; exact symIdx_lt_any (one_le_succ _) hi (one_le_succ _) hj
  · exact isOk_ok _

/-! #### the operator whose in-bounds half fails -/

/-- `operator*(const Vec&, const TransMat&)`: the guard of the model is the coded one … -/
theorem vecMulT_guard_iff [Add K] [Mul K] [Zero K] (b : Vec K) (A : TMat K) (hA : A.WF)
    (hsq : A.cols ≤ A.rows) :
    Guarded (A.rows ≠ b.size) (vecMulT b A) := by
  constructor
  · intro h; simp [vecMulT, h]
  · intro h
    unfold vecMulT; rw [if_neg h]
    refine isOk_tabulate _ _ (fun i hi => isOk_sumLoop _ _ (fun j hj => isOk_mulRd ?_ (by omega)))
    rw [hA]
    have h1 : i + j * A.cols < A.cols + j * A.cols ∨ A.cols ≤ i := by omega
    have h2 : j + 1 ≤ A.cols := hj
    have h3 : (j + 1) * A.cols ≤ A.rows * A.cols :=
      Nat.mul_le_mul_right _ (by omega)
    have h4 : (j + 1) * A.cols = j * A.cols + A.cols := by ring
    have h5 : j * A.cols + A.cols ≤ A.cols * A.cols := by
      rw [← h4]; exact Nat.mul_le_mul_right _ h2
    have h6 : A.cols * A.cols + (A.rows - A.cols) * A.cols = A.rows * A.cols := by
      rw [← Nat.add_mul]; congr 1; omega
    have h7 : i - A.cols < A.rows - A.cols ∨ i < A.cols := by omega
    rcases Nat.lt_or_ge i A.cols with hlt | hge
    · omega
    · -- i = cols + i', i' < rows − cols; j·cols ≤ (cols−1)·cols
      have h8 : j * A.cols ≤ (A.cols - 1) * A.cols := Nat.mul_le_mul_right _ (by omega)
      have h9 : (A.cols - 1) * A.cols + A.cols = A.cols * A.cols := by
        have : A.cols - 1 + 1 = A.cols := by omega
        calc (A.cols - 1) * A.cols + A.cols = (A.cols - 1 + 1) * A.cols := by ring
          _ = A.cols * A.cols := by rw [this]
      have h10 : (A.rows - A.cols) * A.cols ≥ (A.rows - A.cols) := Nat.le_mul_of_pos_right _ (by omega)
      omega

/-- … but the loops after it read outside `A` for a non-square view: the 2-vector and the 2×3 view of
    `guards_vec_transmat_violates` pass the guard, satisfy the class invariants, and the run is `.oob`
    (known finding C15-vec-transmat).  So `¬ guardFires → ≠ .oob` is FALSE for this operator. -/
theorem vecMulT_not_inbounds :
    ∃ (b : Vec Int) (A : TMat Int), A.WF ∧ ¬ (A.rows ≠ b.size) ∧ vecMulT b A = .error .oob :=
  ⟨#[1, 1], trans ⟨3, 2, #[1, 1, 1, 1, 1, 1]⟩, rfl, by decide, by decide⟩

end ops

/-! ### the regenerated table, operator by operator -/

section table

theorem ne_of_mul_ne {r c r' c' : Nat} (h : r * c ≠ r' * c') : r ≠ r' ∨ c ≠ c' := by
  by_cases h1 : r = r'
  · by_cases h2 : c = c'
    · subst h1 h2; exact absurd rfl h
    · exact Or.inr h2
  · exact Or.inl h1

theorem ne_of_tri_ne {n m : Nat} (h : n * (n + 1) / 2 ≠ m * (m + 1) / 2) : n ≠ m := by
  intro e; subst e; exact h rfl

-- the shapes are plain records: let `simp` see through them
attribute [local simp] Mat.shape TMat.shape MB.shape SMat.shape vshape wshape rawshape
  atomFires evalTerm evalFn dimOf DimCheck.sizeOf

theorem baseMul_table [Mul K] (a : Array K) (f : K) (xsize nr : Nat) :
    TableGuards "MatVecBase::mul(Float,MatVecBase)" (rawshape a.size) (rawshape xsize) nr
      (baseMul a f xsize) :=
  TableGuards.of (ka := .mvb) (kb := .mvb)
    (g := [⟨⟨.size, .a⟩, ⟨.size, .b⟩⟩])
    (by decide) (by simp) (baseMul_guarded a f xsize)

theorem baseAdd_table [Add K] (a b : Array K) (xsize : Nat) :
    TableGuards "MatVecBase::add(MatVecBase,MatVecBase)" (rawshape a.size) (rawshape b.size) xsize
      (baseAdd a b xsize) :=
  TableGuards.of (ka := .mvb) (kb := .mvb)
    (g := [⟨⟨.size, .a⟩, ⟨.size, .b⟩⟩, ⟨⟨.size, .a⟩, ⟨.size, .res⟩⟩])
    (by decide) (by simp) (baseAdd_guarded a b xsize)

theorem baseSub_table [Sub K] (a b : Array K) (xsize : Nat) :
    TableGuards "MatVecBase::sub(MatVecBase,MatVecBase)" (rawshape a.size) (rawshape b.size) xsize
      (baseSub a b xsize) :=
  TableGuards.of (ka := .mvb) (kb := .mvb)
    (g := [⟨⟨.size, .a⟩, ⟨.size, .b⟩⟩, ⟨⟨.size, .a⟩, ⟨.size, .res⟩⟩])
    (by decide) (by simp) (baseSub_guarded a b xsize)

theorem dot_table [Add K] [Mul K] [Zero K] (a b : Vec K) (nr : Nat) :
    TableGuards "VecBase::dot(VecBase)" (vshape a) (vshape b) nr
      (dot a b) :=
  TableGuards.of (ka := .vb) (kb := .vb)
    (g := [⟨⟨.dim, .a⟩, ⟨.dim, .b⟩⟩])
    (by decide) (by simp) (dot_guarded a b)

theorem tvecDot_table [Add K] [Mul K] [Zero K] (a b : Vec K) (nr : Nat) :
    TableGuards "operator*(TransVec,Vec)" (wshape a) (vshape b) nr
      (dot a b) :=
  TableGuards.of (ka := .tvec) (kb := .vec)
    (g := [⟨⟨.dim, .a⟩, ⟨.dim, .b⟩⟩])
    (by decide) (by simp) (dot_guarded a b)

theorem vecAdd_table [Add K] (a b : Vec K) :
    TableGuards "Vec::operator+(Vec)" (vshape a) (vshape b) a.size
      (vecAdd a b) :=
  TableGuards.of (ka := .vec) (kb := .vec)
    (g := [⟨⟨.size, .a⟩, ⟨.size, .b⟩⟩, ⟨⟨.size, .a⟩, ⟨.size, .res⟩⟩])
    (by decide) (by simp) (vecAdd_guarded a b)

theorem vecSub_table [Sub K] (a b : Vec K) :
    TableGuards "Vec::operator-(Vec)" (vshape a) (vshape b) a.size
      (vecSub a b) :=
  TableGuards.of (ka := .vec) (kb := .vec)
    (g := [⟨⟨.size, .a⟩, ⟨.size, .b⟩⟩, ⟨⟨.size, .a⟩, ⟨.size, .res⟩⟩])
    (by decide) (by simp) (vecSub_guarded a b)

theorem vecAddEq_table [Add K] (a b : Vec K) (nr : Nat) :
    TableGuards "Vec::operator+=(Vec)" (vshape a) (vshape b) nr
      (vecAdd a b) :=
  TableGuards.of (ka := .vec) (kb := .vec)
    (g := [⟨⟨.size, .a⟩, ⟨.size, .b⟩⟩, ⟨⟨.size, .a⟩, ⟨.size, .a⟩⟩])
    (by decide) (by simp) (vecAdd_guarded a b)

theorem vecSubEq_table [Sub K] (a b : Vec K) (nr : Nat) :
    TableGuards "Vec::operator-=(Vec)" (vshape a) (vshape b) nr
      (vecSub a b) :=
  TableGuards.of (ka := .vec) (kb := .vec)
    (g := [⟨⟨.size, .a⟩, ⟨.size, .b⟩⟩, ⟨⟨.size, .a⟩, ⟨.size, .a⟩⟩])
    (by decide) (by simp) (vecSub_guarded a b)

theorem tvecAdd_table [Add K] (a b : Vec K) :
    TableGuards "TransVec::operator+(TransVec)" (wshape a) (wshape b) a.size
      (vecAdd a b) :=
  TableGuards.of (ka := .tvec) (kb := .tvec)
    (g := [⟨⟨.size, .a⟩, ⟨.size, .b⟩⟩, ⟨⟨.size, .a⟩, ⟨.size, .res⟩⟩])
    (by decide) (by simp) (vecAdd_guarded a b)

theorem tvecSub_table [Sub K] (a b : Vec K) :
    TableGuards "TransVec::operator-(TransVec)" (wshape a) (wshape b) a.size
      (vecSub a b) :=
  TableGuards.of (ka := .tvec) (kb := .tvec)
    (g := [⟨⟨.size, .a⟩, ⟨.size, .b⟩⟩, ⟨⟨.size, .a⟩, ⟨.size, .res⟩⟩])
    (by decide) (by simp) (vecSub_guarded a b)

theorem mbMulVec_table [Add K] [Mul K] [Zero K] (A : MB K) (b : Vec K) (hA : A.WF) (nr : Nat) :
    TableGuards "operator*(MatBase,Vec)" A.shape (vshape b) nr
      (mbMulVec A b) :=
  TableGuards.of (ka := .mb) (kb := .vec)
    (g := [⟨⟨.cols, .a⟩, ⟨.dim, .b⟩⟩])
    (by decide) (by simp) (mbMulVec_guarded A b hA)

theorem matMulVec_table [Add K] [Mul K] [Zero K] (A : Mat K) (b : Vec K) (hA : A.WF) (nr : Nat) :
    TableGuards "operator*(Mat,Vec)" A.shape (vshape b) nr
      (matMulVec A b) :=
  TableGuards.of (ka := .mat) (kb := .vec)
    (g := [⟨⟨.cols, .a⟩, ⟨.dim, .b⟩⟩])
    (by decide) (by simp) (matMulVec_guarded A b hA)

theorem tMulVec_table [Add K] [Mul K] [Zero K] (A : TMat K) (b : Vec K) (hA : A.WF) (nr : Nat) :
    TableGuards "operator*(TransMat,Vec)" A.shape (vshape b) nr
      (tMulVec A b) :=
  TableGuards.of (ka := .tmat) (kb := .vec)
    (g := [⟨⟨.cols, .a⟩, ⟨.dim, .b⟩⟩])
    (by decide) (by simp) (tMulVec_guarded A b hA)

theorem tvecMulMB_table [Add K] [Mul K] [Zero K] (b : Vec K) (A : MB K) (hA : A.WF) (nr : Nat) :
    TableGuards "operator*(TransVec,MatBase)" (wshape b) A.shape nr
      (tvecMulMB b A) :=
  TableGuards.of (ka := .tvec) (kb := .mb)
    (g := [⟨⟨.dim, .a⟩, ⟨.rows, .b⟩⟩])
    (by decide) (by simp) (tvecMulMB_guarded b A hA)

theorem tvecMulMat_table [Add K] [Mul K] [Zero K] (b : Vec K) (A : Mat K) (hA : A.WF) (nr : Nat) :
    TableGuards "operator*(TransVec,Mat)" (wshape b) A.shape nr
      (tvecMulMat b A) :=
  TableGuards.of (ka := .tvec) (kb := .mat)
    (g := [⟨⟨.dim, .a⟩, ⟨.rows, .b⟩⟩])
    (by decide) (by simp) (tvecMulMat_guarded b A hA)

theorem matAdd_table [Add K] (A B : Mat K) (hA : A.WF) (hB : B.WF) :
    TableGuards "Mat::operator+(Mat)" A.shape B.shape (A.rows * A.cols)
      (matAdd A B) :=
  TableGuards.of (ka := .mat) (kb := .mat)
    (g := [⟨⟨.rows, .a⟩, ⟨.rows, .b⟩⟩, ⟨⟨.cols, .a⟩, ⟨.cols, .b⟩⟩, ⟨⟨.size, .a⟩, ⟨.size, .b⟩⟩, ⟨⟨.size, .a⟩, ⟨.size, .res⟩⟩])
    (by decide) (by simp; exact ⟨fun h => by rcases h with h | h | h; exacts [Or.inl h, Or.inr h, ne_of_mul_ne h], fun h => by rcases h with h | h; exacts [Or.inl h, Or.inr (Or.inl h)]⟩) (matAdd_guarded A B hA hB)

theorem matSub_table [Sub K] (A B : Mat K) (hA : A.WF) (hB : B.WF) :
    TableGuards "Mat::operator-(Mat)" A.shape B.shape (A.rows * A.cols)
      (matSub A B) :=
  TableGuards.of (ka := .mat) (kb := .mat)
    (g := [⟨⟨.rows, .a⟩, ⟨.rows, .b⟩⟩, ⟨⟨.cols, .a⟩, ⟨.cols, .b⟩⟩, ⟨⟨.size, .a⟩, ⟨.size, .b⟩⟩, ⟨⟨.size, .a⟩, ⟨.size, .res⟩⟩])
    (by decide) (by simp; exact ⟨fun h => by rcases h with h | h | h; exacts [Or.inl h, Or.inr h, ne_of_mul_ne h], fun h => by rcases h with h | h; exacts [Or.inl h, Or.inr (Or.inl h)]⟩) (matSub_guarded A B hA hB)

theorem tAddT_table [Add K] (A B : TMat K) (hA : A.WF) (hB : B.WF) :
    TableGuards "TransMat::operator+(TransMat)" A.shape B.shape (A.rows * A.cols)
      (tAddT A B) :=
  TableGuards.of (ka := .tmat) (kb := .tmat)
    (g := [⟨⟨.rows, .a⟩, ⟨.rows, .b⟩⟩, ⟨⟨.cols, .a⟩, ⟨.cols, .b⟩⟩, ⟨⟨.size, .a⟩, ⟨.size, .b⟩⟩, ⟨⟨.size, .a⟩, ⟨.size, .res⟩⟩])
    (by decide) (by simp; exact ⟨fun h => by rcases h with h | h | h; exacts [Or.inl h, Or.inr h, ne_of_mul_ne h], fun h => by rcases h with h | h; exacts [Or.inl h, Or.inr (Or.inl h)]⟩) (tAddT_guarded A B hA hB)

theorem tSubT_table [Sub K] (A B : TMat K) (hA : A.WF) (hB : B.WF) :
    TableGuards "TransMat::operator-(TransMat)" A.shape B.shape (A.rows * A.cols)
      (tSubT A B) :=
  TableGuards.of (ka := .tmat) (kb := .tmat)
    (g := [⟨⟨.rows, .a⟩, ⟨.rows, .b⟩⟩, ⟨⟨.cols, .a⟩, ⟨.cols, .b⟩⟩, ⟨⟨.size, .a⟩, ⟨.size, .b⟩⟩, ⟨⟨.size, .a⟩, ⟨.size, .res⟩⟩])
    (by decide) (by simp; exact ⟨fun h => by rcases h with h | h | h; exacts [Or.inl h, Or.inr h, ne_of_mul_ne h], fun h => by rcases h with h | h; exacts [Or.inl h, Or.inr (Or.inl h)]⟩) (tSubT_guarded A B hA hB)

theorem mbAdd_table [Add K] (A B : MB K) (hA : A.WF) (hB : B.WF) (nr : Nat) :
    TableGuards "operator+(MatBase,MatBase)" A.shape B.shape nr
      (mbZip (· + ·) A B) :=
  TableGuards.of (ka := .mb) (kb := .mb)
    (g := [⟨⟨.rows, .a⟩, ⟨.rows, .b⟩⟩, ⟨⟨.cols, .a⟩, ⟨.cols, .b⟩⟩])
    (by decide) (by simp) (mbZip_guarded _ A B hA hB)

theorem mbSub_table [Sub K] (A B : MB K) (hA : A.WF) (hB : B.WF) (nr : Nat) :
    TableGuards "operator-(MatBase,MatBase)" A.shape B.shape nr
      (mbZip (· - ·) A B) :=
  TableGuards.of (ka := .mb) (kb := .mb)
    (g := [⟨⟨.rows, .a⟩, ⟨.rows, .b⟩⟩, ⟨⟨.cols, .a⟩, ⟨.cols, .b⟩⟩])
    (by decide) (by simp) (mbZip_guarded _ A B hA hB)

theorem matAddT_table [Add K] (A : Mat K) (B : TMat K) (hA : A.WF) (hB : B.WF) (nr : Nat) :
    TableGuards "operator+(Mat,TransMat)" A.shape B.shape nr
      (matAddT A B) :=
  TableGuards.of (ka := .mat) (kb := .tmat)
    (g := [⟨⟨.rows, .a⟩, ⟨.rows, .b⟩⟩, ⟨⟨.cols, .a⟩, ⟨.cols, .b⟩⟩])
    (by decide) (by simp) (matAddT_guarded A B hA hB)

theorem matSubT_table [Sub K] (A : Mat K) (B : TMat K) (hA : A.WF) (hB : B.WF) (nr : Nat) :
    TableGuards "operator-(Mat,TransMat)" A.shape B.shape nr
      (matSubT A B) :=
  TableGuards.of (ka := .mat) (kb := .tmat)
    (g := [⟨⟨.rows, .a⟩, ⟨.rows, .b⟩⟩, ⟨⟨.cols, .a⟩, ⟨.cols, .b⟩⟩])
    (by decide) (by simp) (matSubT_guarded A B hA hB)

theorem tAddMat_table [Add K] (A : TMat K) (B : Mat K) (hA : A.WF) (hB : B.WF) (nr : Nat) :
    TableGuards "operator+(TransMat,Mat)" A.shape B.shape nr
      (tAddMat A B) :=
  TableGuards.of (ka := .tmat) (kb := .mat)
    (g := [⟨⟨.rows, .a⟩, ⟨.rows, .b⟩⟩, ⟨⟨.cols, .a⟩, ⟨.cols, .b⟩⟩])
    (by decide) (by simp) (tAddMat_guarded A B hA hB)

theorem tSubMat_table [Sub K] (A : TMat K) (B : Mat K) (hA : A.WF) (hB : B.WF) (nr : Nat) :
    TableGuards "operator-(TransMat,Mat)" A.shape B.shape nr
      (tSubMat A B) :=
  TableGuards.of (ka := .tmat) (kb := .mat)
    (g := [⟨⟨.rows, .a⟩, ⟨.rows, .b⟩⟩, ⟨⟨.cols, .a⟩, ⟨.cols, .b⟩⟩])
    (by decide) (by simp) (tSubMat_guarded A B hA hB)

theorem mbMul_table [Add K] [Mul K] [Zero K] (A B : MB K) (hA : A.WF) (hB : B.WF) (nr : Nat) :
    TableGuards "operator*(MatBase,MatBase)" A.shape B.shape nr
      (mbMul A B) :=
  TableGuards.of (ka := .mb) (kb := .mb)
    (g := [⟨⟨.cols, .a⟩, ⟨.rows, .b⟩⟩])
    (by decide) (by simp) (mbMul_guarded A B hA hB)

theorem matMul_table [Add K] [Mul K] [Zero K] (A B : Mat K) (hA : A.WF) (hB : B.WF) (nr : Nat) :
    TableGuards "operator*(Mat,Mat)" A.shape B.shape nr
      (matMul A B) :=
  TableGuards.of (ka := .mat) (kb := .mat)
    (g := [⟨⟨.cols, .a⟩, ⟨.rows, .b⟩⟩])
    (by decide) (by simp) (matMul_guarded A B hA hB)

theorem tMulMat_table [Add K] [Mul K] [Zero K] (A : TMat K) (B : Mat K) (hA : A.WF) (hB : B.WF) (nr : Nat) :
    TableGuards "operator*(TransMat,Mat)" A.shape B.shape nr
      (tMulMat A B) :=
  TableGuards.of (ka := .tmat) (kb := .mat)
    (g := [⟨⟨.cols, .a⟩, ⟨.rows, .b⟩⟩])
    (by decide) (by simp) (tMulMat_guarded A B hA hB)

theorem matMulT_table [Add K] [Mul K] [Zero K] (A : Mat K) (B : TMat K) (hA : A.WF) (hB : B.WF) (nr : Nat) :
    TableGuards "operator*(Mat,TransMat)" A.shape B.shape nr
      (matMulT A B) :=
  TableGuards.of (ka := .mat) (kb := .tmat)
    (g := [⟨⟨.cols, .a⟩, ⟨.rows, .b⟩⟩])
    (by decide) (by simp) (matMulT_guarded A B hA hB)

theorem tMulT_table [Add K] [Mul K] [Zero K] (A B : TMat K) (hA : A.WF) (hB : B.WF) (nr : Nat) :
    TableGuards "operator*(TransMat,TransMat)" A.shape B.shape nr
      (tMulT A B) :=
  TableGuards.of (ka := .tmat) (kb := .tmat)
    (g := [⟨⟨.cols, .a⟩, ⟨.rows, .b⟩⟩])
    (by decide) (by simp) (tMulT_guarded A B hA hB)

theorem matMulSym_table [Add K] [Mul K] [Zero K] (A : Mat K) (B : SMat K) (hA : A.WF) (hB : B.WF) (nr : Nat) :
    TableGuards "operator*(Mat,SymMat)" A.shape B.shape nr
      (matMulSym A B) :=
  TableGuards.of (ka := .mat) (kb := .sym)
    (g := [⟨⟨.cols, .a⟩, ⟨.rows, .b⟩⟩])
    (by decide) (by simp) (matMulSym_guarded A B hA hB)

theorem symMul_table [Add K] [Mul K] [Zero K] (A B : SMat K) (hA : A.WF) (hB : B.WF) (nr : Nat) :
    TableGuards "operator*(SymMat,SymMat)" A.shape B.shape nr
      (symMul A B) :=
  TableGuards.of (ka := .sym) (kb := .sym)
    (g := [⟨⟨.dim, .a⟩, ⟨.dim, .b⟩⟩])
    (by decide) (by simp) (symMul_guarded A B hA hB)

theorem symAdd_table [Add K] (A B : SMat K) (hA : A.WF) (hB : B.WF) :
    TableGuards "SymMat::operator+(SymMat)" A.shape B.shape (A.dim * (A.dim + 1) / 2)
      (symAdd A B) :=
  TableGuards.of (ka := .sym) (kb := .sym)
    (g := [⟨⟨.dim, .a⟩, ⟨.dim, .b⟩⟩, ⟨⟨.size, .a⟩, ⟨.size, .b⟩⟩, ⟨⟨.size, .a⟩, ⟨.size, .res⟩⟩])
    (by decide) (by simp; exact fun h => ne_of_tri_ne h) (symAdd_guarded A B hA hB)

theorem symSub_table [Sub K] (A B : SMat K) (hA : A.WF) (hB : B.WF) :
    TableGuards "SymMat::operator-(SymMat)" A.shape B.shape (A.dim * (A.dim + 1) / 2)
      (symSub A B) :=
  TableGuards.of (ka := .sym) (kb := .sym)
    (g := [⟨⟨.dim, .a⟩, ⟨.dim, .b⟩⟩, ⟨⟨.size, .a⟩, ⟨.size, .b⟩⟩, ⟨⟨.size, .a⟩, ⟨.size, .res⟩⟩])
    (by decide) (by simp; exact fun h => ne_of_tri_ne h) (symSub_guarded A B hA hB)

theorem symAddFree_table [Add K] (A B : SMat K) (hA : A.WF) (hB : B.WF) (nr : Nat) :
    TableGuards "operator+(SymMat,SymMat)" A.shape B.shape nr
      (symZipFree (· + ·) A B) :=
  TableGuards.of (ka := .sym) (kb := .sym)
    (g := [⟨⟨.dim, .a⟩, ⟨.dim, .b⟩⟩])
    (by decide) (by simp) (symZipFree_guarded _ A B hA hB)

theorem symSubFree_table [Sub K] (A B : SMat K) (hA : A.WF) (hB : B.WF) (nr : Nat) :
    TableGuards "operator-(SymMat,SymMat)" A.shape B.shape nr
      (symZipFree (· - ·) A B) :=
  TableGuards.of (ka := .sym) (kb := .sym)
    (g := [⟨⟨.dim, .a⟩, ⟨.dim, .b⟩⟩])
    (by decide) (by simp) (symZipFree_guarded _ A B hA hB)

theorem symAddEq_table [Add K] (A B : SMat K) (hA : A.WF) (hB : B.WF) (nr : Nat) :
    TableGuards "operator+=(SymMat,SymMat)" A.shape B.shape nr
      (symZipFree (· + ·) A B) :=
  TableGuards.of (ka := .sym) (kb := .sym)
    (g := [⟨⟨.dim, .a⟩, ⟨.dim, .b⟩⟩])
    (by decide) (by simp) (symZipFree_guarded _ A B hA hB)

theorem symSubEq_table [Sub K] (A B : SMat K) (hA : A.WF) (hB : B.WF) (nr : Nat) :
    TableGuards "operator-=(SymMat,SymMat)" A.shape B.shape nr
      (symZipFree (· - ·) A B) :=
  TableGuards.of (ka := .sym) (kb := .sym)
    (g := [⟨⟨.dim, .a⟩, ⟨.dim, .b⟩⟩])
    (by decide) (by simp) (symZipFree_guarded _ A B hA hB)

theorem matLowerSym_table (A : Mat K) (hA : A.WF) (sb : Shape) (nr : Nat) :
    TableGuards "Lower(Mat)" A.shape sb nr
      (matLowerSym A) :=
  TableGuards.of (ka := .mat) (kb := .mat)
    (g := [⟨⟨.rows, .a⟩, ⟨.cols, .a⟩⟩])
    (by decide) (by simp) (matLowerSym_guarded A hA)

theorem matUpperSym_table (A : Mat K) (hA : A.WF) (sb : Shape) (nr : Nat) :
    TableGuards "Upper(Mat)" A.shape sb nr
      (matUpperSym A) :=
  TableGuards.of (ka := .mat) (kb := .mat)
    (g := [⟨⟨.rows, .a⟩, ⟨.cols, .a⟩⟩])
    (by decide) (by simp) (matUpperSym_guarded A hA)

/-- operators without a guard: the (empty) guard never fires and the run stays inside -/
theorem matTranspose_table (A : Mat K) (hA : A.WF) (sb : Shape) (nr : Nat) :
    TableGuards "trans(Mat)" A.shape sb nr
      (matTranspose A) :=
  TableGuards.of (ka := .mat) (kb := .mat)
    (g := [])
    (by decide) (by simp) (⟨False.elim, fun _ => matTranspose_ok A hA⟩)

theorem transT_table (A : TMat K) (hA : A.WF) (sb : Shape) (nr : Nat) :
    TableGuards "trans(TransMat)" A.shape sb nr
      (transT A) :=
  TableGuards.of (ka := .tmat) (kb := .tmat)
    (g := [])
    (by decide) (by simp) (⟨False.elim, fun _ => transT_ok A hA⟩)

theorem symLowerMat_table [Zero K] (A : SMat K) (hA : A.WF) (sb : Shape) (nr : Nat) :
    TableGuards "Lower(SymMat)" A.shape sb nr
      (symLowerMat A) :=
  TableGuards.of (ka := .sym) (kb := .sym)
    (g := [])
    (by decide) (by simp) (⟨False.elim, fun _ => symLowerMat_ok A hA⟩)

theorem symUpperMat_table [Zero K] (A : SMat K) (hA : A.WF) (sb : Shape) (nr : Nat) :
    TableGuards "Upper(SymMat)" A.shape sb nr
      (symUpperMat A) :=
  TableGuards.of (ka := .sym) (kb := .sym)
    (g := [])
    (by decide) (by simp) (⟨False.elim, fun _ => symUpperMat_ok A hA⟩)

/-! #### `operator*(Vec,TransMat)`: only the guard half -/

theorem mulRd_ne_badRank [Mul K] (a b : Array K) (p q : Nat) : mulRd a p b q ≠ .error .badRank := by
  unfold mulRd rd
  cases a[p]? <;> cases b[q]? <;> simp

theorem sumLoop_ne_badRank [Add K] [Zero K] (n : Nat) (f : Nat → Except Err K)
    (h : ∀ k, f k ≠ .error .badRank) : sumLoop n f ≠ .error .badRank := by
  induction n with
  | zero => simp [sumLoop]
  | succ n ih =>
    unfold sumLoop
    cases hs : sumLoop n f with
    | error e => intro he; simp only [Except.error.injEq] at he; subst he; exact ih hs
    | ok s =>
      cases hf : f n with
      | error e => intro he; simp only [Except.error.injEq] at he; subst he; exact h n hf
      | ok x => simp

theorem tabulate_ne_badRank (n : Nat) (f : Nat → Except Err K)
    (h : ∀ k, f k ≠ .error .badRank) : tabulate n f ≠ .error .badRank := by
  induction n with
  | zero => simp [tabulate]
  | succ n ih =>
    unfold tabulate
    cases hs : tabulate n f with
    | error e => intro he; simp only [Except.error.injEq] at he; subst he; exact ih hs
    | ok s =>
      cases hf : f n with
      | error e => intro he; simp only [Except.error.injEq] at he; subst he; exact h n hf
      | ok x => simp

/-- the table's guard for `operator*(Vec,TransMat)` is the model's guard (for ANY operands) -/
theorem vecMulT_table_guard [Add K] [Mul K] [Zero K] (b : Vec K) (A : TMat K) (nr : Nat) :
    ∃ e, find? Gen.DimChecks.table "operator*(Vec,TransMat)" = some e ∧
      (vecMulT b A = .error .badRank ↔ guardFires e (vshape b) A.shape nr = true) := by
  have hf : (find? Gen.DimChecks.table "operator*(Vec,TransMat)").map (fun e => (e.ka, e.kb, e.guard))
      = some (.vec, .tmat, [⟨⟨.rows, .b⟩, ⟨.dim, .a⟩⟩]) := by decide
  cases hfe : find? Gen.DimChecks.table "operator*(Vec,TransMat)" with
  | none => rw [hfe] at hf; cases hf
  | some e =>
    rw [hfe] at hf
    simp only [Option.map_some, Option.some.injEq, Prod.mk.injEq] at hf
    obtain ⟨h1, h2, h3⟩ := hf
    refine ⟨e, rfl, ?_⟩
    have hg : guardFires e (vshape b) A.shape nr = true ↔ A.rows ≠ b.size := by
      unfold guardFires; rw [h1, h2, h3]; simp
    rw [hg]
    constructor
    · intro h hc
      unfold vecMulT at h
      rw [if_neg (by simpa using hc)] at h
      exact tabulate_ne_badRank _ _ (fun i => sumLoop_ne_badRank _ _ (fun j => mulRd_ne_badRank _ _ _ _)) h
    · intro h; simp [vecMulT, h]

/-- `Mat::invert(tol)` (model in `Model/MatInvert.lean`, storage as a function: no reads to check):
    `BadRank` iff the table's guard fires -/
theorem invert_table_guard [Scalar K] (rows cols : Nat) (tol : K) (m : Nat → K) (sb : Shape) (nr : Nat) :
    ∃ e, find? Gen.DimChecks.table "Mat::invert(Float)" = some e ∧
      (invert rows cols tol m = .error .badRank ↔ guardFires e ⟨rows, cols⟩ sb nr = true) := by
  have hf : (find? Gen.DimChecks.table "Mat::invert(Float)").map (fun e => (e.ka, e.kb, e.guard))
      = some (.mat, .mat, [⟨⟨.rows, .a⟩, ⟨.cols, .a⟩⟩]) := by decide
  cases hfe : find? Gen.DimChecks.table "Mat::invert(Float)" with
  | none => rw [hfe] at hf; cases hf
  | some e =>
    rw [hfe] at hf
    simp only [Option.map_some, Option.some.injEq, Prod.mk.injEq] at hf
    obtain ⟨h1, h2, h3⟩ := hf
    refine ⟨e, rfl, ?_⟩
    have hg : guardFires e ⟨rows, cols⟩ sb nr = true ↔ rows ≠ cols := by
      unfold guardFires; rw [h1, h2, h3]; simp
    rw [hg]
    constructor
    · intro h hc
      unfold invert at h
      rw [if_neg (by simpa using hc)] at h
      dsimp only at h
      split at h <;> cases h
    · intro h; simp [invert, h]

end table

end Gama.MatVec
