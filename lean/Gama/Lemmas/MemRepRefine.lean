/-
  Refinement proof for the heap model of `MemRep`: every special member, executed on
  the explicit heap, behaves like the same operation on independent values, keeps the
  ownership invariant and never touches a block that is not allocated.
-/
import Gama.Lemmas.MemRep
namespace Gama.MemRep

variable {K : Type} [Inhabited K]
set_option linter.unusedSectionVars false

/-- `memcpy` with byte count 0 moves nothing (it may still be UB: `ubNull`) -/
theorem memcpy_zero (s : St K) (dst src : Option Nat) :
    ∃ s2, memcpy s dst src 0 = .ok s2 ∧ s2.heap = s.heap ∧ s2.objs = s.objs ∧
      s2.next = s.next ∧ s2.leaked = s.leaked := by
  unfold memcpy
  by_cases hc : (dst.isNone || src.isNone) = true
  · exact ⟨{ s with ubNull := s.ubNull + 1 }, by simp only [if_true, hc], rfl, rfl, rfl, rfl⟩
  · exact ⟨s, by simp only [if_true, hc]; rfl, rfl, rfl, rfl, rfl⟩

/-- `memcpy` of a whole block into a block of the same size -/
theorem memcpy_block {s : St K} {d : Nat} {src : Option Nat} {n : Nat} {bd l : List K}
    (hd : s.heap d = some bd) (hbd : bd.length = n)
    (hsrc : ∀ r, src = some r → s.heap r = some l) (hsn : src = none → n = 0)
    (hl : l.length = n) :
    ∃ s2, memcpy s (some d) src n = .ok s2 ∧ s2.heap d = some l ∧
      (∀ b, b ≠ d → s2.heap b = s.heap b) ∧ s2.objs = s.objs ∧ s2.next = s.next ∧
      s2.leaked = s.leaked := by
  by_cases hn : n = 0
  · subst hn
    obtain ⟨s2, h1, h2, h3, h4, h5⟩ := memcpy_zero s (some d) src
    refine ⟨s2, h1, ?_, ?_, h3, h4, h5⟩
    · rw [h2, hd]; congr 1
      rw [List.length_eq_zero_iff] at hbd hl; rw [hbd, hl]
    · intro b _; rw [h2]
  · cases src with
    | none => exact absurd (hsn rfl) hn
    | some r =>
      have hr := hsrc r rfl
      refine ⟨{ s with heap := upd s.heap d (some (l.take n ++ bd.drop n)) }, ?_, ?_, ?_, rfl, rfl, rfl⟩
      · unfold memcpy; simp [hn, hd, hr, hbd, hl]
      · simp [take_append_drop_len hl hbd]
      · intro b hb; simp [upd_other _ _ hb]

/-- the guarded `if (sz) memcpy(…)` of a whole block into a block of the same size -/
theorem memcpyIf_block {s : St K} {d : Nat} {src : Option Nat} {n : Nat} {bd l : List K}
    (hd : s.heap d = some bd) (hbd : bd.length = n)
    (hsrc : ∀ r, src = some r → s.heap r = some l) (hsn : src = none → n = 0)
    (hl : l.length = n) :
    ∃ s2, memcpyIf s (some d) src n = .ok s2 ∧ s2.heap d = some l ∧
      (∀ b, b ≠ d → s2.heap b = s.heap b) ∧ s2.objs = s.objs ∧ s2.next = s.next ∧
      s2.leaked = s.leaked := by
  by_cases hn : n = 0
  · subst hn
    refine ⟨s, by simp [memcpyIf], ?_, by intros; rfl, rfl, rfl, rfl⟩
    rw [hd]; congr 1
    rw [List.length_eq_zero_iff] at hbd hl; rw [hbd, hl]
  · have : memcpyIf s (some d) src n = memcpy s (some d) src n := by simp [memcpyIf, hn]
    rw [this]; exact memcpy_block hd hbd hsrc hsn hl

/-- what an operation does, stated for both outcomes -/
@[reducible] def Post (sp : Except Stop (Vals K)) : Except Stop (St K) → Prop
  | .ok s' => Inv s' ∧ sp = .ok (val s')
  | .error e => sp = .error e

def Refines (s : St K) (op : Op K) : Prop :=
  ∀ r, step s op = r → Post (spec (val s) op) r

theorem refines_ctor (s : St K) (h : Inv s) (i : Nat) (n : Int) : Refines s (.ctor i n) := by
  intro r hs; unfold step at hs; unfold spec
  cases hi : s.objs i with
  | some o =>
    obtain ⟨l, hl⟩ := val_some_of_obj hi
    simp only [hi] at hs; subst hs; simp [hl]
  | none =>
    have hv : val s i = none := (val_none_iff s i).2 hi
    simp only [hi] at hs; simp only [hv]
    by_cases hn : 0 < n
    · have h0 : 0 ≤ n := by omega
      simp only [hn, if_true, alloc, setObj] at hs; subst hs
      simp only [h0, if_true]
      refine ⟨inv_upd h i _ rfl (by simp) ?_ ?_ ?_, ?_⟩
      · intro k o a _ hk hr
        have := (h.owned k o a hk hr).1
        simp only []; rw [upd_other _ _ (by omega)]
      · intro o a ho hr; simp at ho; subst ho; simp at hr; subst hr
        refine ⟨by simp, ⟨List.replicate n.toNat default, by simp, by simp⟩, ?_⟩
        intro k o2 _ hk hr2
        have := (h.owned k o2 _ hk hr2).1; omega
      · intro o ho hr; simp at ho; subst ho; simp at hr
      · congr 1; symm
        apply val_eq_upd i
        · intro k hki; simp [upd_other _ _ hki]
        · intro k o a _ hk hr
          have := (h.owned k o a hk hr).1
          simp only []; rw [upd_other _ _ (by omega)]
        · simp [val]
    · by_cases hz : n = 0
      · subst hz
        simp only [setObj] at hs; simp at hs; subst hs
        refine ⟨inv_upd h i _ rfl (by simp) (by intros; rfl) ?_ ?_, ?_⟩
        · intro o a ho hr; simp at ho; subst ho; simp at hr
        · intro o ho _; simp at ho; subst ho; rfl
        · simp; symm
          apply val_eq_upd i
          · intro k hki; simp [upd_other _ _ hki]
          · intros; rfl
          · simp [val]
      · have : ¬ (0 ≤ n) := by omega
        simp only [hn, hz, if_false] at hs; subst hs
        simp [this]


/-- the invariant and the values only depend on heap, bump pointer and object table -/
theorem inv_congr {s s' : St K} (hh : s'.heap = s.heap) (hn : s'.next = s.next)
    (ho : s'.objs = s.objs) (h : Inv s) : Inv s' := by
  refine ⟨?_, ?_, ?_⟩
  · intro i o a; rw [ho, hh, hn]; exact h.owned i o a
  · intro i o; rw [ho]; exact h.null i o
  · intro i j oi oj a; rw [ho]; exact h.excl i j oi oj a

theorem val_congr {s s' : St K} (hh : s'.heap = s.heap) (ho : s'.objs = s.objs) :
    val s' = val s := by
  funext k; unfold val; rw [ho, hh]

theorem upd_self {α : Type} (f : Nat → α) (i : Nat) : upd f i (f i) = f := by
  funext k; by_cases hk : k = i
  · subst hk; simp
  · exact upd_other _ _ hk

/-- `rep = new Float[x.sz]; memcpy(rep, x.rep, …)` followed by storing `(rep, x.sz)` in slot `i`
    (copy constructor; reallocating branch of copy assignment) -/
theorem copy_install (s : St K) (h : Inv s) (i j : Nat) (x : Obj) (hj : s.objs j = some x)
    (l : List K) (hl : val s j = some l) :
    ∃ s2, memcpyIf (alloc s x.sz).1 (some s.next) x.rep x.sz = .ok s2 ∧
      Inv (setObj s2 i (some ⟨some s.next, x.sz⟩)) ∧
      val (setObj s2 i (some ⟨some s.next, x.sz⟩)) = upd (val s) i (some l) := by
  obtain ⟨l', hl', hlen, hblk, _⟩ := val_of_obj h hj
  rw [hl] at hl'; cases hl'
  have hfresh : ∀ r, x.rep = some r → r ≠ s.next := by
    intro r hr; have := (h.owned j x r hj hr).1; omega
  obtain ⟨s2, h1, h2, h3, h4, h5, _⟩ := memcpyIf_block
    (s := { s with heap := upd s.heap s.next (some (List.replicate x.sz default)), next := s.next + 1 })
    (d := s.next) (src := x.rep) (n := x.sz) (bd := List.replicate x.sz default) (l := l)
    (by simp) (by simp)
    (by intro r hr; simp only []; rw [upd_other _ _ (hfresh r hr)]; exact hblk r hr)
    (by intro hr; exact h.null j x hj hr) hlen
  refine ⟨s2, h1, ?_, ?_⟩
  · refine inv_upd h i (some ⟨some s.next, x.sz⟩) (by simp only [setObj, h4]) (by simp [setObj, h5]) ?_ ?_ ?_
    · intro k o a _ hk hr
      have := (h.owned k o a hk hr).1
      simp only [setObj]; rw [h3 a (by omega)]; simp only []; rw [upd_other _ _ (by omega)]
    · intro o a ho hr; simp at ho; subst ho; simp at hr; subst hr
      refine ⟨by simp [setObj, h5], ⟨l, by simpa [setObj] using h2, hlen⟩, ?_⟩
      intro k o2 _ hk hr2
      have := (h.owned k o2 _ hk hr2).1; omega
    · intro o ho hr; simp at ho; subst ho; simp at hr
  · apply val_eq_upd i
    · intro k hki; simp [setObj, upd_other _ _ hki, h4]
    · intro k o a _ hk hr
      have := (h.owned k o a hk hr).1
      simp only [setObj]; rw [h3 a (by omega)]; simp only []; rw [upd_other _ _ (by omega)]
    · simp [val, setObj, h2]

theorem refines_copyCtor (s : St K) (h : Inv s) (i j : Nat) : Refines s (.copyCtor i j) := by
  intro r hs; unfold step at hs; unfold spec
  cases hi : s.objs i with
  | some o =>
    obtain ⟨l, hl⟩ := val_some_of_obj hi
    simp only [hi] at hs; subst hs; simp [hl]
  | none =>
    have hv : val s i = none := (val_none_iff s i).2 hi
    cases hj : s.objs j with
    | none =>
      have hvj : val s j = none := (val_none_iff s j).2 hj
      simp only [hi, hj] at hs; subst hs; simp [hv, hvj]
    | some x =>
      obtain ⟨l, hl⟩ := val_some_of_obj hj
      obtain ⟨s2, h1, h2, h3⟩ := copy_install s h i j x hj l hl
      simp only [hi, hj] at hs; simp only [hv, hl]
      simp only [alloc] at h1 hs
      simp only [h1, bind, Except.bind] at hs; subst hs
      exact ⟨h2, by rw [h3]⟩

theorem refines_moveCtor (s : St K) (h : Inv s) (i j : Nat) : Refines s (.moveCtor i j) := by
  intro r hs; unfold step at hs; unfold spec
  cases hi : s.objs i with
  | some o =>
    obtain ⟨l, hl⟩ := val_some_of_obj hi
    simp only [hi] at hs; subst hs; simp [hl]
  | none =>
    have hv : val s i = none := (val_none_iff s i).2 hi
    cases hj : s.objs j with
    | none =>
      have hvj : val s j = none := (val_none_iff s j).2 hj
      simp only [hi, hj] at hs; subst hs; simp [hv, hvj]
    | some x =>
      obtain ⟨l, hl, hlen, hblk, hnil⟩ := val_of_obj h hj
      have hij : i ≠ j := by intro e; subst e; simp [hi] at hj
      simp only [hi, hj, setObj] at hs; subst hs; simp only [hv, hl]
      -- first the source is emptied, then the block is installed in slot i
      have h1 : Inv ({ s with objs := upd s.objs j (some ⟨none, 0⟩) } : St K) := by
        refine inv_upd h j _ rfl (by simp) (by intros; rfl) ?_ ?_
        · intro o a ho hr; simp at ho; subst ho; simp at hr
        · intro o ho _; simp at ho; subst ho; rfl
      refine ⟨inv_upd h1 i _ rfl (by simp) (by intros; rfl) ?_ ?_, ?_⟩
      · intro o a ho hr; simp at ho; subst ho
        obtain ⟨hlt, b, hb, hbl⟩ := h.owned j x a hj hr
        refine ⟨hlt, ⟨b, hb, hbl⟩, ?_⟩
        intro k o2 hki hk hr2
        by_cases hkj : k = j
        · subst hkj; simp at hk; subst hk; simp at hr2
        · simp only [upd_other _ _ hkj] at hk
          exact hkj (h.excl k j o2 x a hk hj hr2 hr)
      · intro o ho hr; simp at ho; subst ho; exact h.null j _ hj hr
      · congr 1; symm
        have e1 : val ({ s with objs := upd s.objs j (some ⟨none, 0⟩) } : St K)
            = upd (val s) j (some []) := by
          apply val_eq_upd j
          · intro k hk; simp [upd_other _ _ hk]
          · intros; rfl
          · simp [val]
        rw [← e1]
        apply val_eq_upd i
        · intro k hk; simp [upd_other _ _ hk]
        · intros; rfl
        · simp only [val, upd_same]
          rcases x with ⟨_ | a, sz⟩
          · simp [hnil rfl]
          · simp [hblk a rfl]


/-- slot `i` becomes the empty object `(nullptr, 0)`; whatever happened to its old block -/
theorem null_install {s s' : St K} (h : Inv s) (i : Nat)
    (hobjs : s'.objs = upd s.objs i (some ⟨none, 0⟩)) (hnext : s.next ≤ s'.next)
    (hothers : ∀ k o a, k ≠ i → s.objs k = some o → o.rep = some a → s'.heap a = s.heap a) :
    Inv s' ∧ val s' = upd (val s) i (some []) := by
  refine ⟨inv_upd h i _ hobjs hnext hothers ?_ ?_, ?_⟩
  · intro o a ho hr; simp at ho; subst ho; simp at hr
  · intro o ho _; simp at ho; subst ho; rfl
  · apply val_eq_upd i
    · intro k hk; rw [hobjs, upd_other _ _ hk]
    · exact hothers
    · simp [val, hobjs]

/-- `delete[] rep` of a live object's block succeeds and touches nobody else's block -/
theorem free_own {s : St K} (h : Inv s) {i : Nat} {t : Obj} (hi : s.objs i = some t) :
    ∃ s1, free s t.rep = .ok s1 ∧ s1.objs = s.objs ∧ s1.next = s.next ∧
      (∀ k o a, k ≠ i → s.objs k = some o → o.rep = some a → s1.heap a = s.heap a) := by
  rcases ht : t.rep with _ | a
  · exact ⟨s, rfl, rfl, rfl, by intros; rfl⟩
  · obtain ⟨_, b, hb, _⟩ := h.owned i t a hi ht
    refine ⟨{ s with heap := upd s.heap a none }, by simp [free, hb], rfl, rfl, ?_⟩
    intro k o a' hk hok hr
    have : a' ≠ a := other_block_ne h hk hi hok ht hr
    simp [upd_other _ _ this]

/-- reallocating branch of copy assignment, from a state `s0` that differs from `s`
    only in the bookkeeping fields -/
theorem assign_realloc (s s0 : St K) (h : Inv s) (e0 : s0.heap = s.heap ∧ s0.next = s.next ∧ s0.objs = s.objs)
    (i j : Nat) (x : Obj) (hj : s.objs j = some x) (l : List K) (hl : val s j = some l)
    (hlen : l.length = x.sz) (r : Except Stop (St K))
    (hs : (if 0 < x.sz then
            (do let s2 ← memcpy (alloc s0 x.sz).1 (some (alloc s0 x.sz).2) x.rep x.sz
                .ok (setObj s2 i (some ⟨some (alloc s0 x.sz).2, x.sz⟩)))
           else .ok (setObj s0 i (some ⟨none, 0⟩))) = r) :
    Post (.ok (upd (val s) i (some l))) r := by
  have hI0 : Inv s0 := inv_congr e0.1 e0.2.1 e0.2.2 h
  have hv0 : val s0 = val s := val_congr e0.1 e0.2.2
  by_cases hx : 0 < x.sz
  · simp only [hx, if_true] at hs
    obtain ⟨s2, h1, h2, h3⟩ := copy_install s0 hI0 i j x (by rw [e0.2.2]; exact hj) l
      (by rw [hv0]; exact hl)
    have e2 : (alloc s0 x.sz).2 = s0.next := rfl
    rw [e2] at hs
    have e3 : memcpyIf (alloc s0 x.sz).1 (some s0.next) x.rep x.sz
        = memcpy (alloc s0 x.sz).1 (some s0.next) x.rep x.sz := by
      simp [memcpyIf, Nat.ne_of_gt hx]
    rw [e3] at h1
    simp only [h1, bind, Except.bind] at hs; subst hs
    exact ⟨h2, by rw [h3, hv0]⟩
  · simp only [hx, if_false] at hs
    subst hs
    obtain ⟨h1, h2⟩ := null_install (s := s0) (s' := setObj s0 i (some ⟨none, 0⟩)) hI0 i rfl
      (by simp [setObj]) (by intros; rfl)
    refine ⟨h1, ?_⟩
    rw [h2, hv0]
    rw [List.length_eq_zero_iff.1 (by omega : l.length = 0)]

theorem refines_assign (s : St K) (h : Inv s) (i j : Nat) : Refines s (.assign i j) := by
  intro r hs; unfold step at hs; unfold spec
  cases hi : s.objs i with
  | none =>
    have hv : val s i = none := (val_none_iff s i).2 hi
    simp only [hi] at hs; subst hs; simp [hv]
  | some t =>
    obtain ⟨lt, hlt, hltlen, hltblk, _⟩ := val_of_obj h hi
    cases hj : s.objs j with
    | none =>
      have hvj : val s j = none := (val_none_iff s j).2 hj
      simp only [hi, hj] at hs; subst hs; simp [hlt, hvj]
    | some x =>
      obtain ⟨l, hl, hlen, hblk, _⟩ := val_of_obj h hj
      simp only [hi, hj] at hs; simp only [hlt, hl]
      by_cases hij : i = j
      · subst hij; simp only [if_true] at hs; subst hs
        refine ⟨h, ?_⟩
        congr 1; rw [← hl, upd_self]
      · simp only [hij, if_false] at hs
        by_cases hsz : t.sz = x.sz
        · simp only [hsz, if_true] at hs
          by_cases hz : x.sz = 0
          · -- both empty: `if (sz)` skips the memcpy
            rw [hz] at hs
            simp only [memcpyIf, if_true] at hs; subst hs
            refine ⟨h, ?_⟩
            congr 1
            have : l = lt := by
              rw [List.length_eq_zero_iff.1 (by omega : l.length = 0),
                  List.length_eq_zero_iff.1 (by omega : lt.length = 0)]
            rw [this, ← hlt, upd_self]
          · rcases htr : t.rep with _ | d
            · exact absurd (h.null i t hi htr) (by omega)
            · rw [htr] at hs
              obtain ⟨s2, h1, h2, h3, h4, h5, _⟩ := memcpyIf_block (s := s) (d := d) (src := x.rep)
                (n := x.sz) (bd := lt) (l := l) (hltblk d htr) (by omega) hblk
                (by intro hr; exact h.null j x hj hr) hlen
              rw [h1] at hs; subst hs
              have hoth : ∀ k o a, k ≠ i → s.objs k = some o → o.rep = some a → s2.heap a = s.heap a := by
                intro k o a hk hok hr
                exact h3 a (other_block_ne h hk hi hok htr hr)
              refine ⟨inv_upd h i (some t) (by rw [h4, ← hi, upd_self]) (by omega) hoth ?_ ?_, ?_⟩
              · intro o a ho hr; simp at ho; subst ho; rw [htr] at hr; cases hr
                refine ⟨by rw [h5]; exact (h.owned i _ _ hi htr).1, ⟨l, h2, by omega⟩, ?_⟩
                intro k o2 hk hok hr2
                exact hk (h.excl k i o2 _ _ hok hi hr2 htr)
              · intro o ho hr; simp at ho; subst ho; exact h.null i _ hi hr
              · congr 1; symm
                apply val_eq_upd i
                · intro k _; rw [h4]
                · exact hoth
                · simp [val, h4, hi, htr, h2]
        · simp only [hsz, if_false] at hs
          -- reallocating branch: the old block is abandoned
          rcases htr : t.rep with _ | a0
          · simp only [htr] at hs
            exact assign_realloc s s h ⟨rfl, rfl, rfl⟩ i j x hj l hl hlen r hs
          · simp only [htr] at hs
            exact assign_realloc s { s with leaked := a0 :: s.leaked } h ⟨rfl, rfl, rfl⟩ i j x hj l hl hlen r hs


theorem refines_moveAssign (s : St K) (h : Inv s) (i j : Nat) : Refines s (.moveAssign i j) := by
  intro r hs; unfold step at hs; unfold spec
  cases hi : s.objs i with
  | none =>
    have hv : val s i = none := (val_none_iff s i).2 hi
    simp only [hi] at hs; subst hs; simp [hv]
  | some t =>
    obtain ⟨lt, hlt⟩ := val_some_of_obj hi
    cases hj : s.objs j with
    | none =>
      have hvj : val s j = none := (val_none_iff s j).2 hj
      simp only [hi, hj] at hs; subst hs; simp [hlt, hvj]
    | some x =>
      obtain ⟨l, hl, hlen, hblk, hnil⟩ := val_of_obj h hj
      simp only [hi, hj] at hs; simp only [hlt, hl]
      by_cases hij : i = j
      · subst hij; simp only [if_true] at hs; subst hs
        exact ⟨h, by simp⟩
      · simp only [hij, if_false] at hs ⊢
        obtain ⟨s1, hf, ho1, hn1, hoth⟩ := free_own h hi
        simp only [hf, bind, Except.bind, setObj] at hs; subst hs
        have hji : j ≠ i := fun e => hij e.symm
        -- the source is emptied, then its block is installed in slot i
        obtain ⟨hA, vA⟩ := null_install (s := s) (s' := { s with objs := upd s.objs j (some ⟨none, 0⟩) })
          h j rfl (by simp) (by intros; rfl)
        have hxblk : ∀ a, x.rep = some a → s1.heap a = s.heap a :=
          fun a hr => hoth j x a hji hj hr
        refine ⟨inv_upd hA i (some x) (by simp [ho1]) (by simp [hn1]) ?_ ?_ ?_, ?_⟩
        · intro k o a hk hok hr
          by_cases hkj : k = j
          · subst hkj; simp at hok; subst hok; simp at hr
          · simp only [upd_other _ _ hkj] at hok
            exact hoth k o a hk hok hr
        · intro o a ho hr; simp at ho; subst ho
          obtain ⟨hlt', b, hb, hbl⟩ := h.owned j x a hj hr
          refine ⟨by simp [hn1]; omega, ⟨b, by simp only []; rw [hxblk a hr]; exact hb, hbl⟩, ?_⟩
          intro k o2 hki hk hr2
          by_cases hkj : k = j
          · subst hkj; simp at hk; subst hk; simp at hr2
          · simp only [upd_other _ _ hkj] at hk
            exact hkj (h.excl k j o2 x a hk hj hr2 hr)
        · intro o ho hr; simp at ho; subst ho; exact h.null j _ hj hr
        · congr 1; symm; rw [← vA]
          apply val_eq_upd i
          · intro k hk; simp [upd_other _ _ hk, ho1]
          · intro k o a hk hok hr
            by_cases hkj : k = j
            · subst hkj; simp at hok; subst hok; simp at hr
            · simp only [upd_other _ _ hkj] at hok
              exact hoth k o a hk hok hr
          · simp only [val, upd_same]
            rcases x with ⟨_ | a, sz⟩
            · simp [hnil rfl]
            · simp [hxblk a rfl, hblk a rfl]

theorem refines_resize (s : St K) (h : Inv s) (i n : Nat) : Refines s (.resize i n) := by
  intro r hs; unfold step at hs; unfold spec
  cases hi : s.objs i with
  | none =>
    have hv : val s i = none := (val_none_iff s i).2 hi
    simp only [hi] at hs; subst hs; simp [hv]
  | some t =>
    obtain ⟨lt, hlt, hltlen, _, _⟩ := val_of_obj h hi
    simp only [hi] at hs; simp only [hlt]
    by_cases hn : n = t.sz
    · simp only [hn, if_true] at hs; subst hs
      exact ⟨h, by simp [hn, hltlen]⟩
    · have hn' : ¬ n = lt.length := by omega
      simp only [hn, hn', if_false] at hs ⊢
      obtain ⟨s1, hf, ho1, hn1, hoth⟩ := free_own h hi
      simp only [hf, bind, Except.bind] at hs
      by_cases hp : 0 < n
      · simp only [hp, if_true, alloc, setObj] at hs; subst hs
        have hoth' : ∀ k o a, k ≠ i → s.objs k = some o → o.rep = some a →
            upd s1.heap s1.next (some (List.replicate n default)) a = s.heap a := by
          intro k o a hk hok hr
          have := (h.owned k o a hok hr).1
          rw [upd_other _ _ (by omega)]; exact hoth k o a hk hok hr
        refine ⟨inv_upd h i (some ⟨some s1.next, n⟩) (by simp [ho1]) (by simp [hn1]) hoth' ?_ ?_, ?_⟩
        · intro o a ho hr; simp at ho; subst ho; simp at hr; subst hr
          refine ⟨by simp, ⟨List.replicate n default, by simp, by simp⟩, ?_⟩
          intro k o2 _ hk hr2
          have := (h.owned k o2 _ hk hr2).1; omega
        · intro o ho hr; simp at ho; subst ho; simp at hr
        · congr 1; symm
          apply val_eq_upd i
          · intro k hk; simp [upd_other _ _ hk, ho1]
          · exact hoth'
          · simp [val]
      · have hz : n = 0 := by omega
        subst hz
        simp only [hp, if_false] at hs; subst hs
        obtain ⟨h1, h2⟩ := null_install (s := s) (s' := setObj s1 i (some ⟨none, 0⟩)) h i
          (by simp [setObj, ho1]) (by simp [setObj, hn1]) (by simpa [setObj] using hoth)
        exact ⟨h1, by rw [h2]; rfl⟩

theorem refines_write (s : St K) (h : Inv s) (i k : Nat) (v : K) : Refines s (.write i k v) := by
  intro r hs; unfold step at hs; unfold spec
  cases hi : s.objs i with
  | none =>
    have hv : val s i = none := (val_none_iff s i).2 hi
    simp only [hi] at hs; subst hs; simp [hv]
  | some t =>
    obtain ⟨lt, hlt, hltlen, hblk, _⟩ := val_of_obj h hi
    simp only [hi] at hs; simp only [hlt]
    by_cases hk : k < t.sz
    · have hk' : k < lt.length := by omega
      simp only [hk, hk', if_true] at hs ⊢
      rcases htr : t.rep with _ | d
      · exact absurd (h.null i t hi htr) (by omega)
      · simp only [htr, hblk d htr] at hs; subst hs
        have hoth : ∀ k' o a, k' ≠ i → s.objs k' = some o → o.rep = some a →
            upd s.heap d (some (lt.set k v)) a = s.heap a := by
          intro k' o a hk' hok hr
          exact upd_other _ _ (other_block_ne h hk' hi hok htr hr)
        refine ⟨inv_upd h i (some t) (by simp only []; rw [← hi, upd_self]) (by simp) hoth ?_ ?_, ?_⟩
        · intro o a ho hr; simp at ho; subst ho; rw [htr] at hr; cases hr
          refine ⟨(h.owned i _ _ hi htr).1, ⟨lt.set k v, by simp, by simp [hltlen]⟩, ?_⟩
          intro k' o2 hk' hok hr2
          exact hk' (h.excl k' i o2 _ _ hok hi hr2 htr)
        · intro o ho hr; simp at ho; subst ho; exact h.null i _ hi hr
        · congr 1; symm
          apply val_eq_upd i
          · intro k' _; rfl
          · exact hoth
          · simp [val, hi, htr]
    · have hk' : ¬ k < lt.length := by omega
      simp only [hk, hk', if_false] at hs ⊢; subst hs; rfl

theorem refines_dtor (s : St K) (h : Inv s) (i : Nat) : Refines s (.dtor i) := by
  intro r hs; unfold step at hs; unfold spec
  cases hi : s.objs i with
  | none =>
    have hv : val s i = none := (val_none_iff s i).2 hi
    simp only [hi] at hs; subst hs; simp [hv]
  | some t =>
    obtain ⟨lt, hlt⟩ := val_some_of_obj hi
    simp only [hi] at hs; simp only [hlt]
    obtain ⟨s1, hf, ho1, hn1, hoth⟩ := free_own h hi
    simp only [hf, bind, Except.bind, setObj] at hs; subst hs
    refine ⟨inv_upd h i none (by simp [ho1]) (by simp [hn1]) (by simpa using hoth) ?_ ?_, ?_⟩
    · intro o a ho; simp at ho
    · intro o ho; simp at ho
    · congr 1; symm
      apply val_eq_upd i
      · intro k hk; simp [upd_other _ _ hk, ho1]
      · simpa using hoth
      · simp [val]

/-- **Refinement, one step.** -/
theorem step_refines (s : St K) (h : Inv s) (op : Op K) : Refines s op := by
  cases op with
  | ctor i n => exact refines_ctor s h i n
  | copyCtor i j => exact refines_copyCtor s h i j
  | moveCtor i j => exact refines_moveCtor s h i j
  | assign i j => exact refines_assign s h i j
  | moveAssign i j => exact refines_moveAssign s h i j
  | resize i n => exact refines_resize s h i n
  | write i k v => exact refines_write s h i k v
  | dtor i => exact refines_dtor s h i

theorem step_ok {s s' : St K} (h : Inv s) {op : Op K} (hs : step s op = .ok s') :
    Inv s' ∧ spec (val s) op = .ok (val s') := step_refines s h op _ hs

theorem step_error {s : St K} (h : Inv s) {op : Op K} {e : Stop} (hs : step s op = .error e) :
    spec (val s) op = .error e := step_refines s h op _ hs

/-- the specification never reports a heap fault … -/
theorem spec_ne_heapFault (v : Vals K) (op : Op K) : spec v op ≠ .error .heapFault := by
  cases op <;> simp only [spec] <;> repeat' split <;> simp

/-- … hence no operation on a state satisfying the invariant frees, reads or writes a
    block that is not allocated -/
theorem step_no_heapFault {s : St K} (h : Inv s) (op : Op K) : step s op ≠ .error .heapFault :=
  fun hs => spec_ne_heapFault _ op (step_error h hs)

/-- **Refinement, whole scripts.** -/
theorem run_refines (ops : List (Op K)) : ∀ (s : St K), Inv s →
    match run s ops with
    | .ok s' => Inv s' ∧ specRun (val s) ops = .ok (val s')
    | .error e => specRun (val s) ops = .error e ∧ e ≠ .heapFault := by
  induction ops with
  | nil => intro s h; exact ⟨h, rfl⟩
  | cons op ops ih =>
    intro s h
    unfold run specRun
    cases hs : step s op with
    | error e =>
      have := step_error h hs
      simp only [this, bind, Except.bind]
      exact ⟨trivial, fun he => step_no_heapFault h op (he ▸ hs)⟩
    | ok s1 =>
      obtain ⟨h1, hsp⟩ := step_ok h hs
      simp only [hsp, bind, Except.bind]
      exact ih s1 h1


/-! ### `memcpy` never receives a null pointer (code after commit 87f5175) -/

theorem memcpy_ubNull {s s2 : St K} {dst src : Option Nat} {n : Nat} (hn : n ≠ 0)
    (h : memcpy s dst src n = .ok s2) : s2.ubNull = s.ubNull := by
  unfold memcpy at h
  simp only [hn, if_false] at h
  split at h
  · split at h
    · split at h
      · cases h; rfl
      · cases h
    · cases h
  · cases h

theorem memcpyIf_ubNull {s s2 : St K} {dst src : Option Nat} {n : Nat}
    (h : memcpyIf s dst src n = .ok s2) : s2.ubNull = s.ubNull := by
  unfold memcpyIf at h
  by_cases hn : n = 0
  · simp only [hn, if_true] at h; cases h; rfl
  · simp only [hn, if_false] at h; exact memcpy_ubNull hn h

theorem free_ubNull {s s1 : St K} {p : Option Nat} (h : free s p = .ok s1) : s1.ubNull = s.ubNull := by
  unfold free at h
  split at h
  · cases h; rfl
  · split at h
    · cases h; rfl
    · cases h

/-- no special member calls `memcpy` with a null pointer: the counter never moves -/
theorem step_ubNull {s s' : St K} {op : Op K} (h : step s op = .ok s') : s'.ubNull = s.ubNull := by
  cases op with
  | ctor i n =>
    simp only [step] at h
    split at h
    · cases h
    · split at h
      · cases h; rfl
      · split at h
        · cases h; rfl
        · cases h
  | copyCtor i j =>
    simp only [step] at h
    split at h
    · rename_i x _ _
      cases hm : memcpyIf (alloc s x.sz).1 (some (alloc s x.sz).2) x.rep x.sz with
      | error e => simp [hm, bind, Except.bind] at h
      | ok s2 =>
        simp only [hm, bind, Except.bind] at h; cases h
        have := memcpyIf_ubNull hm
        simp only [setObj]; rw [this]; rfl
    · cases h
  | moveCtor i j =>
    simp only [step] at h
    split at h
    · cases h; rfl
    · cases h
  | assign i j =>
    simp only [step] at h
    split at h
    · rename_i t x _ _
      split at h
      · cases h; rfl
      · split at h
        · exact memcpyIf_ubNull h
        · split at h
          · rename_i hx
            rcases htr : t.rep with _ | a0 <;> simp only [htr, bind, Except.bind] at h <;>
            · split at h
              · cases h
              · rename_i v hm
                cases h
                have := memcpy_ubNull (Nat.ne_of_gt hx) hm
                simp only [setObj]; rw [this]; rfl
          · cases h
            simp only [setObj]; cases t.rep <;> rfl
    · cases h
  | moveAssign i j =>
    simp only [step] at h
    split at h
    · rename_i t x _ _
      split at h
      · cases h; rfl
      · cases hf : free s t.rep with
        | error e => simp [hf, bind, Except.bind] at h
        | ok s1 =>
          simp only [hf, bind, Except.bind] at h; cases h
          exact (show _ = s1.ubNull from rfl).trans (free_ubNull hf)
    · cases h
  | resize i n =>
    simp only [step] at h
    split at h
    · rename_i t _
      split at h
      · cases h; rfl
      · cases hf : free s t.rep with
        | error e => simp [hf, bind, Except.bind] at h
        | ok s1 =>
          simp only [hf, bind, Except.bind] at h
          split at h
          · cases h; exact (show _ = s1.ubNull from rfl).trans (free_ubNull hf)
          · cases h; exact (show _ = s1.ubNull from rfl).trans (free_ubNull hf)
    · cases h
  | write i k v =>
    simp only [step] at h
    split at h
    · split at h
      · split at h
        · split at h
          · cases h; rfl
          · cases h
        · cases h
      · cases h
    · cases h
  | dtor i =>
    simp only [step] at h
    split at h
    · rename_i t _
      cases hf : free s t.rep with
      | error e => simp [hf, bind, Except.bind] at h
      | ok s1 =>
        simp only [hf, bind, Except.bind] at h; cases h
        exact (show _ = s1.ubNull from rfl).trans (free_ubNull hf)
    · cases h

theorem run_ubNull (ops : List (Op K)) : ∀ {s s' : St K}, run s ops = .ok s' → s'.ubNull = s.ubNull := by
  induction ops with
  | nil => intro s s' h; simp only [run] at h; cases h; rfl
  | cons op ops ih =>
    intro s s' h
    unfold run at h
    cases hs : step s op with
    | error e => simp [hs, bind, Except.bind] at h
    | ok s1 =>
      simp only [hs, bind, Except.bind] at h
      rw [ih h, step_ubNull hs]

end Gama.MemRep
