/-
  C06 — the model's insertion sort is Mathlib's `List.insertionSort (· ≤ ·)`: sortedness, permutation,
  and the majority property of both median forms.
-/
import Gama.Lemmas.C06Median
import Mathlib.Data.List.Sort
open Gama Gama.Median Gama.C06R Gama.Cogo
namespace Gama.C06L

theorem insertSorted_eq (a : ℝ) (l : List ℝ) : insertSorted a l = List.orderedInsert (· ≤ ·) a l := by
  induction l with
  | nil => rfl
  | cons b l ih =>
    unfold insertSorted
    rw [List.orderedInsert_cons]
    simp only [le_eq]
    split_ifs <;> simp [ih]

theorem sort_eq (l : List ℝ) : sort l = List.insertionSort (· ≤ ·) l := by
  induction l with
  | nil => rfl
  | cons b l ih =>
    have : sort (b :: l) = insertSorted b (sort l) := rfl
    rw [this, ih, insertSorted_eq, List.insertionSort_cons]

theorem sort_pairwise (l : List ℝ) : (sort l).Pairwise (· ≤ ·) := by
  rw [sort_eq]; exact List.pairwise_insertionSort _ l

theorem sort_perm (l : List ℝ) : (sort l).Perm l := by
  rw [sort_eq]; exact List.perm_insertionSort _ l

/-- in a sorted list in which more than half of the entries equal c, every index between (n-1)/2 and n/2
    holds c -/
theorem sorted_majority (s : List ℝ) (c : ℝ) (hs : s.Pairwise (· ≤ ·)) (hc : s.length < 2 * s.count c)
    (i : ℕ) (hi : i < s.length) (h1 : (s.length - 1) / 2 ≤ i) (h2 : i ≤ s.length / 2) : s[i] = c := by
  by_contra hne
  have hsplit : s.count c = (s.take (i + 1)).count c + (s.drop (i + 1)).count c := by
    rw [← List.count_append, List.take_append_drop]
  have hsplit' : s.count c = (s.take i).count c + (s.drop i).count c := by
    rw [← List.count_append, List.take_append_drop]
  rcases lt_or_gt_of_ne hne with hlt | hgt
  · -- everything up to i is < c
    have h0 : (s.take (i + 1)).count c = 0 := by
      rw [List.count_eq_zero]
      intro hmem
      obtain ⟨j, hj, hjc⟩ := List.getElem_of_mem hmem
      rw [List.length_take] at hj
      rw [List.getElem_take] at hjc
      have hji : j ≤ i := by omega
      have : s[j] ≤ s[i] := by
        rcases Nat.lt_or_eq_of_le hji with h | h
        · exact List.pairwise_iff_getElem.mp hs j i (by omega) hi h
        · subst h; exact le_refl _
      rw [hjc] at this; linarith
    have hle : (s.drop (i + 1)).count c ≤ s.length - (i + 1) := by
      have := List.count_le_length (a := c) (l := s.drop (i + 1))
      rwa [List.length_drop] at this
    omega
  · have h0 : (s.drop i).count c = 0 := by
      rw [List.count_eq_zero]
      intro hmem
      obtain ⟨j, hj, hjc⟩ := List.getElem_of_mem hmem
      rw [List.length_drop] at hj
      rw [List.getElem_drop] at hjc
      have : s[i] ≤ s[i + j] := by
        rcases Nat.eq_zero_or_pos j with h | h
        · subst h; exact le_refl _
        · exact List.pairwise_iff_getElem.mp hs i (i + j) hi (by omega) (by omega)
      rw [hjc] at this; linarith
    have hle : (s.take i).count c ≤ i := by
      have := List.count_le_length (a := c) (l := s.take i)
      rw [List.length_take] at this; omega
    omega

theorem median_majority (v : List ℝ) (c : ℝ) (h : v.length < 2 * v.count c) : median v = c := by
  have hp := sort_perm v
  have hlen : (sort v).length = v.length := hp.length_eq
  have hcnt : (sort v).count c = v.count c := hp.count_eq c
  have hmaj : (sort v).length < 2 * (sort v).count c := by rw [hlen, hcnt]; exact h
  have hpos : 0 < (sort v).length := by
    have := List.count_le_length (a := c) (l := sort v); omega
  have key : ∀ i, i < (sort v).length → ((sort v).length - 1) / 2 ≤ i → i ≤ (sort v).length / 2 → nth (sort v) i = c := by
    intro i hi h1 h2
    unfold nth
    rw [List.getD_eq_getElem?_getD, List.getElem?_eq_getElem hi]
    exact sorted_majority _ c (sort_pairwise v) hmaj i hi h1 h2
  unfold median
  simp only []
  split_ifs with hpar
  · rw [key _ (by omega) (by omega) (by omega), key _ (by omega) (by omega) (by omega)]
    simp only [add_eq, div_eq, two_eq]; ring
  · exact key _ (by omega) (by omega) (by omega)

theorem median2_majority (v : List ℝ) (c : ℝ) (h : v.length < 2 * v.count c) : median2 v = c := by
  have hp := sort_perm v
  have hlen : (sort v).length = v.length := hp.length_eq
  have hcnt : (sort v).count c = v.count c := hp.count_eq c
  have hmaj : (sort v).length < 2 * (sort v).count c := by rw [hlen, hcnt]; exact h
  have hpos : 0 < (sort v).length := by
    have := List.count_le_length (a := c) (l := sort v); omega
  have key : ∀ i, i < (sort v).length → ((sort v).length - 1) / 2 ≤ i → i ≤ (sort v).length / 2 → nth (sort v) i = c := by
    intro i hi h1 h2
    unfold nth
    rw [List.getD_eq_getElem?_getD, List.getElem?_eq_getElem hi]
    exact sorted_majority _ c (sort_pairwise v) hmaj i hi h1 h2
  unfold median2
  simp only []
  rw [key _ (by omega) (by omega) (by omega), key _ (by omega) (by omega) (by omega)]
  simp only [add_eq, div_eq, two_eq]; ring

end Gama.C06L
