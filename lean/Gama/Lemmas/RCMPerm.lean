/-
  `rcm g` (model of `ReverseCuthillMcKee` in lib/gnu_gama/sparse/smatrix_ordering.h) returns a
  pair of mutually inverse bijections of `1..g.nodes`, for every graph whose neighbour lists stay
  inside `1..nodes` and are symmetric (connected or not, with or without duplicate entries).
-/
import Gama.Lemmas.SparseBasic
import Batteries.Data.List.Perm
import Mathlib.Data.List.Nodup

namespace Gama
namespace RCMPerm

/-! ### sanity checks on concrete graphs (kernel evaluation of the model) -/

/-- executable version of `SOrdering.IsPerm` -/
def checkPerm (o : SOrdering) (n : Nat) : Bool :=
  (List.range' 1 n).all fun k =>
    decide (1 ≤ o.perm[k]!) && decide (o.perm[k]! ≤ n) && decide (1 ≤ o.invp[k]!) &&
    decide (o.invp[k]! ≤ n) && o.invp[o.perm[k]!]! == k && o.perm[o.invp[k]!]! == k

/-- path 1-2-3 plus the isolated node 4 -/
example : (rcm { nodes := 4, xadj := #[0,0,1,3,4,4], adjncy := #[2,1,3,2] }).perm = #[0,4,1,2,3] ∧
    (rcm { nodes := 4, xadj := #[0,0,1,3,4,4], adjncy := #[2,1,3,2] }).invp = #[0,2,3,4,1] := by
  decide +kernel
/-- edgeless graph -/
example : checkPerm (rcm { nodes := 3, xadj := #[0,0,0,0,0], adjncy := #[] }) 3 = true := by
  decide +kernel
/-- no nodes, one node -/
example : checkPerm (rcm { nodes := 0, xadj := #[0,0,0], adjncy := #[] }) 0 = true ∧
    checkPerm (rcm { nodes := 1, xadj := #[0,0,0], adjncy := #[] }) 1 = true := by
  decide +kernel
/-- two components (edges 1-2 with duplicated entries, 3-4), isolated node 5.  (Graphs in which
    a node has two unnumbered neighbours were checked with `#eval` only: the kernel cannot
    evaluate `List.mergeSort` on lists of length ≥ 2.) -/
example : checkPerm (rcm { nodes := 5, xadj := #[0,0,2,4,5,6,6],
                           adjncy := #[2,2, 1,1, 4, 3] }) 5 = true := by
  decide +kernel

/-! ### array helpers -/

theorem get!_eq (a : Array Nat) (i : Nat) : a[i]! = (a.toList[i]?).getD 0 := by
  simp [Array.getElem!_eq_getD, Array.getD_eq_getD_getElem?]

theorem get!_set (a : Array Nat) (i j x : Nat) :
    (a.setIfInBounds i x)[j]! = if i = j ∧ i < a.size then x else a[j]! := by
  simp only [Array.getElem!_eq_getD, Array.getD_eq_getD_getElem?, Array.getElem?_setIfInBounds]
  by_cases h : i = j
  · subst h
    by_cases h2 : i < a.size
    · simp [h2]
    · simp [h2]
  · simp [h]

theorem get!_set_self (a : Array Nat) (i x : Nat) (h : i < a.size) :
    (a.setIfInBounds i x)[i]! = x := by
  rw [get!_set]; simp [h]

theorem get!_set_ne (a : Array Nat) (i j x : Nat) (h : i ≠ j) :
    (a.setIfInBounds i x)[j]! = a[j]! := by
  rw [get!_set]; simp [h]

theorem get!_mem (a : Array Nat) (i : Nat) (h : i < a.size) : a[i]! ∈ a.toList := by
  rw [getElem!_pos a i h]; simp

/-! ### pigeonhole on `1..n` -/

theorem range_sub {n : Nat} {L : List Nat} (hr : ∀ v ∈ L, 1 ≤ v ∧ v ≤ n) :
    L ⊆ List.range' 1 n := by
  intro v hv
  have := hr v hv
  simp [List.mem_range'_1]; omega

theorem length_le_of_nodup {n : Nat} {L : List Nat} (hn : L.Nodup)
    (hr : ∀ v ∈ L, 1 ≤ v ∧ v ≤ n) : L.length ≤ n := by
  have := (List.subperm_of_subset hn (range_sub hr)).length_le
  simpa using this

theorem perm_range_of_nodup {n : Nat} {L : List Nat} (hn : L.Nodup)
    (hr : ∀ v ∈ L, 1 ≤ v ∧ v ≤ n) (hl : n ≤ L.length) : L.Perm (List.range' 1 n) :=
  (List.subperm_of_subset hn (range_sub hr)).perm_of_length_le (by simpa using hl)

theorem mem_of_full {n : Nat} {L : List Nat} (hn : L.Nodup)
    (hr : ∀ v ∈ L, 1 ≤ v ∧ v ≤ n) (hl : n ≤ L.length) (v : Nat) (h1 : 1 ≤ v) (h2 : v ≤ n) :
    v ∈ L :=
  (perm_range_of_nodup hn hr hl).mem_iff.mpr (by simp [List.mem_range'_1]; omega)

/-- a short duplicate-free list inside `1..n` misses some node -/
theorem exists_not_mem {n : Nat} {L : List Nat} (hl : L.length < n) :
    ∃ v, 1 ≤ v ∧ v ≤ n ∧ v ∉ L := by
  by_contra hc
  have hsub : List.range' 1 n ⊆ L := by
    intro v hv
    by_contra hv'
    simp [List.mem_range'_1] at hv
    exact hc ⟨v, hv.1, by omega, hv'⟩
  have := (List.subperm_of_subset (List.nodup_range' (s := 1) (n := n)) hsub).length_le
  simp at this
  omega

/-! ### the mask invariant shared by `rootLS` and the numbering loops -/

/-- `mask` (size `n+1`) is zero on `1..n` exactly at the nodes stored in `L`; `L` has no
    duplicates and stays inside `1..n` -/
structure MInv (n : Nat) (mask : Array Nat) (L : List Nat) : Prop where
  size : mask.size = n + 1
  nodup : L.Nodup
  range : ∀ v ∈ L, 1 ≤ v ∧ v ≤ n
  zero : ∀ v, 1 ≤ v → v ≤ n → (mask[v]! = 0 ↔ v ∈ L)

theorem MInv.length_le {n mask L} (h : MInv n mask L) : L.length ≤ n :=
  length_le_of_nodup h.nodup h.range

theorem MInv.perm {n mask L L'} (h : MInv n mask L) (hp : L.Perm L') : MInv n mask L' where
  size := h.size
  nodup := hp.nodup_iff.mp h.nodup
  range := fun v hv => h.range v (hp.mem_iff.mpr hv)
  zero := fun v h1 h2 => (h.zero v h1 h2).trans hp.mem_iff

/-- `if (mask(v)) { mask(v) = 0; store v }` -/
theorem MInv.visit {n mask L} (h : MInv n mask L) {v : Nat} (h1 : 1 ≤ v) (h2 : v ≤ n)
    (hm : mask[v]! ≠ 0) : MInv n (mask.setIfInBounds v 0) (L ++ [v]) where
  size := by simp [h.size]
  nodup := by
    have hv : v ∉ L := fun hv => hm ((h.zero v h1 h2).mpr hv)
    refine List.nodup_append.mpr ⟨h.nodup, by simp, ?_⟩
    intro a ha b hb
    simp at hb; subst hb
    intro hab; subst hab; exact hv ha
  range := by
    intro w hw
    rcases List.mem_append.mp hw with hw | hw
    · exact h.range w hw
    · simp at hw; subst hw; exact ⟨h1, h2⟩
  zero := by
    intro w hw1 hw2
    rw [get!_set]
    by_cases hvw : v = w
    · subst hvw
      have : v < mask.size := by rw [h.size]; omega
      simp [this]
    · have hwv : ¬ w = v := fun e => hvw e.symm
      simp [hvw, h.zero w hw1 hw2, hwv]

/-! ### (a) the rooted level structure -/

theorem Reach.trans {g : Adj} {a b c : Nat} (h1 : Reach g a b) (h2 : Reach g b c) :
    Reach g a c := by
  induction h2 with
  | refl => exact h1
  | step _ hm ih => exact Reach.step ih hm

/-- invariant of the scan of one level on `(mask, adjncy)`; `L0` is `adjncy` at the loop head -/
structure ScanInv (g : Adj) (r : Nat) (L0 : List Nat) (p : Array Nat × Array Nat) : Prop where
  minv : MInv g.nodes p.1 p.2.toList
  reach : ∀ v ∈ p.2.toList, Reach g r v
  ext : ∃ e, p.2.toList = L0 ++ e

theorem lsVisit_inv {g : Adj} {r : Nat} {L0 : List Nat} {p : Array Nat × Array Nat}
    (h : ScanInv g r L0 p) {node : Nat} (h1 : 1 ≤ node) (h2 : node ≤ g.nodes)
    (hr : Reach g r node) : ScanInv g r L0 (lsVisit p node) := by
  unfold lsVisit
  by_cases hm : p.1[node]! = 0
  · simp [hm]; exact h
  · simp only [bne_iff_ne, ne_eq, hm, not_false_eq_true, if_true]
    refine ⟨?_, ?_, ?_⟩
    · simpa using h.minv.visit h1 h2 hm
    · intro v hv
      simp at hv
      rcases hv with hv | hv
      · exact h.reach v (by simpa using hv)
      · subst hv; exact hr
    · obtain ⟨e, he⟩ := h.ext
      exact ⟨e ++ [node], by simp [he]⟩

theorem lsVisit_fold_inv {g : Adj} {r : Nat} {L0 : List Nat} (l : List Nat) :
    ∀ (p : Array Nat × Array Nat), ScanInv g r L0 p →
      (∀ w ∈ l, 1 ≤ w ∧ w ≤ g.nodes ∧ Reach g r w) → ScanInv g r L0 (l.foldl lsVisit p) := by
  induction l with
  | nil => intro p h _; exact h
  | cons w l ih =>
    intro p h hl
    simp only [List.foldl_cons]
    have hw := hl w (by simp)
    exact ih _ (lsVisit_inv h hw.1 hw.2.1 hw.2.2) (fun w' hw' => hl w' (by simp [hw']))

theorem lsScan_fold_inv {g : Adj} (hg : g.InRange) {r : Nat} {L0 : List Nat} (idxs : List Nat) :
    ∀ (p : Array Nat × Array Nat), ScanInv g r L0 p → (∀ ii ∈ idxs, ii < L0.length) →
      ScanInv g r L0 (idxs.foldl (fun p ii => (g.nbrs p.2[ii]!).foldl lsVisit p) p) := by
  induction idxs with
  | nil => intro p h _; exact h
  | cons ii idxs ih =>
    intro p h hl
    simp only [List.foldl_cons]
    refine ih _ ?_ (fun j hj => hl j (by simp [hj]))
    have hii := hl ii (by simp)
    obtain ⟨e, he⟩ := h.ext
    have hsz : ii < p.2.size := by
      have : p.2.size = (L0 ++ e).length := by rw [← he]; simp
      rw [this]; simp; omega
    have hx := get!_mem p.2 ii hsz
    have hxr := h.minv.range _ hx
    have hxR := h.reach _ hx
    apply lsVisit_fold_inv _ _ h
    intro w hw
    have := hg _ hxr.1 hxr.2 w hw
    exact ⟨this.1, this.2, Reach.step hxR hw⟩

/-- invariant of `root()`'s main loop -/
structure LSInv (g : Adj) (r : Nat) (s : LSState) : Prop where
  index : s.index = s.adjncy.size
  xsize : s.xadj.size = g.nodes + 2
  levle : s.level ≤ s.index
  lo : s.xadj[s.level]! < s.xadj[s.level+1]!
  hi : s.xadj[s.level+1]! = s.index
  minv : MInv g.nodes s.mask s.adjncy.toList
  reach : ∀ v ∈ s.adjncy.toList, Reach g r v

/-- what is needed of the result: the last level is a non-empty segment of stored nodes, and
    every stored node is a node of the graph that can be reached from the root -/
structure LSFin (g : Adj) (r : Nat) (s : LSState) : Prop where
  lo : s.xadj[s.level]! < s.xadj[s.level+1]!
  hi : s.xadj[s.level+1]! ≤ s.adjncy.size
  good : ∀ v ∈ s.adjncy.toList, 1 ≤ v ∧ v ≤ g.nodes ∧ Reach g r v

theorem LSInv.fin {g : Adj} {r : Nat} {s : LSState} (h : LSInv g r s) : LSFin g r s where
  lo := h.lo
  hi := by rw [h.hi, h.index]
  good := fun v hv => ⟨(h.minv.range v hv).1, (h.minv.range v hv).2, h.reach v hv⟩

theorem lsScan_inv {g : Adj} (hg : g.InRange) {r : Nat} {s : LSState} (h : LSInv g r s) :
    ScanInv g r s.adjncy.toList (lsScan g s) := by
  unfold lsScan
  apply lsScan_fold_inv hg
  · exact ⟨h.minv, h.reach, ⟨[], by simp⟩⟩
  · intro ii hii
    simp [List.mem_range'_1] at hii
    have := h.lo; have := h.hi; have := h.index
    simp; omega

theorem lsLoop_fin {g : Adj} (hg : g.InRange) {r : Nat} (fuel : Nat) :
    ∀ s, LSInv g r s → LSFin g r (lsLoop g fuel s) := by
  induction fuel with
  | zero => intro s h; exact h.fin
  | succ fuel ih =>
    intro s h
    unfold lsLoop
    by_cases hidx : s.index = g.nodes
    · simp [hidx]; exact h.fin
    · simp only [beq_iff_eq, hidx, if_false]
      have hsc := lsScan_inv hg h
      obtain ⟨e, he⟩ := hsc.ext
      have hsz : (lsScan g s).2.size = s.index + e.length := by
        have : (lsScan g s).2.size = (s.adjncy.toList ++ e).length := by rw [← he]; simp
        rw [this, h.index]; simp
      by_cases hw : (lsScan g s).2.size - s.index = 0
      · simp only [hw, if_true]
        refine ⟨h.lo, ?_, ?_⟩
        · show s.xadj[s.level+1]! ≤ (lsScan g s).2.size
          rw [h.hi]; omega
        · intro v hv
          exact ⟨(hsc.minv.range v hv).1, (hsc.minv.range v hv).2, hsc.reach v hv⟩
      · simp only [hw, if_false]
        apply ih
        have hlen := h.minv.length_le
        have hidx2 : s.index = s.adjncy.toList.length := by rw [h.index]; simp
        have hlev := h.levle
        have hxs := h.xsize
        refine ⟨?_, ?_, ?_, ?_, ?_, hsc.minv, hsc.reach⟩
        · show s.index + ((lsScan g s).2.size - s.index) = (lsScan g s).2.size
          omega
        · simp [hxs]
        · show s.level + 1 ≤ s.index + ((lsScan g s).2.size - s.index)
          omega
        · show ((s.xadj.setIfInBounds (s.level+1) s.index).setIfInBounds (s.level+1+1)
                (s.index + ((lsScan g s).2.size - s.index)))[s.level+1]! <
              ((s.xadj.setIfInBounds (s.level+1) s.index).setIfInBounds (s.level+1+1)
                (s.index + ((lsScan g s).2.size - s.index)))[s.level+1+1]!
          rw [get!_set_self _ _ _ (by simp; omega), get!_set_ne _ _ _ _ (by omega),
            get!_set_self _ _ _ (by omega)]
          omega
        · show ((s.xadj.setIfInBounds (s.level+1) s.index).setIfInBounds (s.level+1+1)
                (s.index + ((lsScan g s).2.size - s.index)))[s.level+1+1]! =
                s.index + ((lsScan g s).2.size - s.index)
          rw [get!_set_self _ _ _ (by simp; omega)]

/-- the last level of a rooted level structure is not empty and consists of nodes of the graph
    that can be reached from the root -/
theorem rootLS_last {g : Adj} (hg : g.InRange) {r : Nat} (h1 : 1 ≤ r) (h2 : r ≤ g.nodes) :
    (rootLS g r).level (rootLS g r).nlev ≠ [] ∧
    ∀ v ∈ (rootLS g r).level (rootLS g r).nlev, 1 ≤ v ∧ v ≤ g.nodes ∧ Reach g r v := by
  have hn : g.nodes ≠ 0 := by omega
  have hinit : LSInv g r ⟨1, 1,
      ((Array.replicate (g.nodes + 2) 0).setIfInBounds 1 0).setIfInBounds 2 1,
      #[r], (Array.range (g.nodes + 1)).setIfInBounds r 0⟩ := by
    refine ⟨rfl, by simp, Nat.le_refl _, ?_, ?_, ?_, ?_⟩
    · show (((Array.replicate (g.nodes + 2) 0).setIfInBounds 1 0).setIfInBounds 2 1)[1]! <
        (((Array.replicate (g.nodes + 2) 0).setIfInBounds 1 0).setIfInBounds 2 1)[2]!
      rw [get!_set_self _ _ _ (by simp; omega), get!_set_ne _ _ _ _ (by omega),
        get!_set_self _ _ _ (by simp)]
      omega
    · show (((Array.replicate (g.nodes + 2) 0).setIfInBounds 1 0).setIfInBounds 2 1)[2]! = 1
      rw [get!_set_self _ _ _ (by simp; omega)]
    · refine ⟨by simp, by simp, ?_, ?_⟩
      · intro v hv; simp at hv; subst hv; exact ⟨h1, h2⟩
      · intro v hv1 hv2
        rw [get!_set]
        have hvv : (Array.range (g.nodes + 1))[v]! = v := by
          rw [getElem!_pos _ v (by simp; omega)]; simp
        by_cases hrv : r = v
        · subst hrv; simp; omega
        · have : ¬ v = r := fun e => hrv e.symm
          simp [hrv, hvv, this]; omega
    · intro v hv; simp at hv; subst hv; exact Reach.refl _
  have hfin := lsLoop_fin hg g.nodes _ hinit
  unfold rootLS
  simp only [hn, if_false]
  generalize lsLoop g g.nodes _ = s at hfin
  unfold Levels.level
  simp only
  constructor
  · intro hnil
    have := congrArg List.length hnil
    simp at this
    have := hfin.lo
    omega
  · intro v hv
    simp only [List.mem_map, List.mem_range'_1] at hv
    obtain ⟨p, hp, rfl⟩ := hv
    apply hfin.good
    apply get!_mem
    have := hfin.lo; have := hfin.hi
    omega

/-! ### (b) the pseudo-peripheral node -/

theorem minDegree_fold_mem (g : Adj) (rest : List Nat) :
    ∀ b, rest.foldl (fun r t => if g.degree t < g.degree r then t else r) b ∈ b :: rest := by
  induction rest with
  | nil => intro b; simp
  | cons t rest ih =>
    intro b
    simp only [List.foldl_cons]
    have := ih (if g.degree t < g.degree b then t else b)
    rcases List.mem_cons.mp this with h | h
    · rw [h]; split <;> simp
    · simp [h]

theorem pickMinDegree_mem (g : Adj) (l : Levels) (h : l.level l.nlev ≠ []) :
    pickMinDegree g l ∈ l.level l.nlev := by
  unfold pickMinDegree
  cases hl : l.level l.nlev with
  | nil => exact absurd hl h
  | cons b rest => exact minDegree_fold_mem g rest b

theorem ppnLoop_good {g : Adj} (hg : g.InRange) {start : Nat} (fuel : Nat) :
    ∀ r, 1 ≤ r → r ≤ g.nodes → Reach g start r →
      1 ≤ (ppnLoop g fuel r (rootLS g r)).1 ∧ (ppnLoop g fuel r (rootLS g r)).1 ≤ g.nodes ∧
      Reach g start (ppnLoop g fuel r (rootLS g r)).1 := by
  induction fuel with
  | zero => intro r h1 h2 hr; exact ⟨h1, h2, hr⟩
  | succ fuel ih =>
    intro r h1 h2 hr
    have hl := rootLS_last hg h1 h2
    have hm := hl.2 _ (pickMinDegree_mem g _ hl.1)
    have hr' := Reach.trans hr hm.2.2
    unfold ppnLoop
    simp only
    split
    · exact ih _ hm.1 hm.2.1 hr'
    · exact ⟨hm.1, hm.2.1, hr'⟩

/-- the node returned by `PseudoPeripheralNode` is a node of the graph, in the component of the
    starting node -/
theorem ppn_good {g : Adj} (hg : g.InRange) {start : Nat} (h1 : 1 ≤ start) (h2 : start ≤ g.nodes) :
    1 ≤ (ppn g start).1 ∧ (ppn g start).1 ≤ g.nodes ∧ Reach g start (ppn g start).1 := by
  have hn : g.nodes ≠ 0 := by omega
  unfold ppn
  simp only [hn, if_false]
  exact ppnLoop_good hg _ _ h1 h2 (Reach.refl _)

/-! ### (c) numbering the component of a root: the inner loop -/

/-- collecting the unnumbered neighbours: `L` is `perm` at the start of the step -/
theorem rcmCollect_fold (g : Adj) (n : Nat) (L : List Nat) (l : List Nat) :
    ∀ p : List (Nat × Nat) × Array Nat, MInv n p.2 (L ++ p.1.map Prod.snd) →
      (∀ w ∈ l, 1 ≤ w ∧ w ≤ n) →
      MInv n (l.foldl (rcmCollect g) p).2 (L ++ (l.foldl (rcmCollect g) p).1.map Prod.snd) ∧
      (∀ w ∈ l, w ∈ L ++ (l.foldl (rcmCollect g) p).1.map Prod.snd) ∧
      (∀ w ∈ L ++ p.1.map Prod.snd, w ∈ L ++ (l.foldl (rcmCollect g) p).1.map Prod.snd) := by
  induction l with
  | nil => intro p h _; exact ⟨h, by simp, fun w hw => hw⟩
  | cons w l ih =>
    intro p h hl
    simp only [List.foldl_cons]
    have hw := hl w (by simp)
    have hl' : ∀ w' ∈ l, 1 ≤ w' ∧ w' ≤ n := fun w' hw' => hl w' (by simp [hw'])
    by_cases hm : p.2[w]! = 0
    · have hp : rcmCollect g p w = p := by simp [rcmCollect, hm]
      rw [hp]
      obtain ⟨a, b, c⟩ := ih p h hl'
      refine ⟨a, ?_, c⟩
      intro w' hw'
      rcases List.mem_cons.mp hw' with e | e
      · subst e; exact c _ ((h.zero _ hw.1 hw.2).mp hm)
      · exact b w' e
    · have hp : rcmCollect g p w = (p.1 ++ [(g.degree w, w)], p.2.setIfInBounds w 0) := by
        simp [rcmCollect, hm]
      rw [hp]
      have h' : MInv n (p.2.setIfInBounds w 0)
          (L ++ (p.1 ++ [(g.degree w, w)]).map Prod.snd) := by
        have := h.visit hw.1 hw.2 hm
        simpa using this
      obtain ⟨a, b, c⟩ := ih (p.1 ++ [(g.degree w, w)], p.2.setIfInBounds w 0) h' hl'
      refine ⟨a, ?_, ?_⟩
      · intro w' hw'
        rcases List.mem_cons.mp hw' with e | e
        · subst e; exact c _ (by simp)
        · exact b w' e
      · intro w' hw'
        apply c
        simp at hw' ⊢
        rcases hw' with e | e
        · exact Or.inl e
        · exact Or.inr (Or.inl e)

theorem sortPairs_perm (tmp : List (Nat × Nat)) :
    ((sortPairs tmp).map Prod.snd).Perm (tmp.map Prod.snd) :=
  (List.mergeSort_perm tmp _).map _

/-- all neighbours of the first `k` numbered nodes are numbered -/
def Closed (g : Adj) (L : List Nat) (k : Nat) : Prop :=
  ∀ idx, idx < k → ∀ x, L[idx]? = some x → ∀ w ∈ g.nbrs x, w ∈ L

theorem rcmInner_inv {g : Adj} (hg : g.InRange) (fuel : Nat) :
    ∀ i s, MInv g.nodes s.mask s.perm.toList → 1 ≤ i → i ≤ s.perm.size + 1 →
      g.nodes + 1 ≤ fuel + i → Closed g s.perm.toList (i - 1) →
      MInv g.nodes (rcmInner g fuel i s).mask (rcmInner g fuel i s).perm.toList ∧
      Closed g (rcmInner g fuel i s).perm.toList (rcmInner g fuel i s).perm.size ∧
      s.perm.size ≤ (rcmInner g fuel i s).perm.size := by
  induction fuel with
  | zero =>
    intro i s hm h1 h2 h3 hc
    have := hm.length_le
    simp at this
    have : i - 1 = s.perm.size := by omega
    rw [this] at hc
    exact ⟨hm, hc, Nat.le_refl _⟩
  | succ fuel ih =>
    intro i s hm h1 h2 h3 hc
    unfold rcmInner
    by_cases hi : i ≤ s.perm.size
    · simp only [hi, if_true]
      have hx := get!_mem s.perm (i-1) (by omega)
      have hxr := hm.range _ hx
      have hxe : s.perm.toList[i-1]? = some s.perm[i-1]! := by
        rw [get!_eq]
        have : i - 1 < s.perm.toList.length := by simp; omega
        simp [List.getElem?_eq_getElem this]
      obtain ⟨a, b, c⟩ := rcmCollect_fold g g.nodes s.perm.toList (g.nbrs s.perm[i-1]!)
        ([], s.mask) (by simpa using hm) (hg _ hxr.1 hxr.2)
      generalize (g.nbrs s.perm[i-1]!).foldl (rcmCollect g) ([], s.mask) = q at a b c
      have hP : (s.perm.toList ++ q.1.map Prod.snd).Perm
          (s.perm.toList ++ (sortPairs q.1).map Prod.snd) :=
        List.Perm.append_left _ (sortPairs_perm q.1).symm
      have hm' : MInv g.nodes q.2 (s.perm ++ ((sortPairs q.1).map Prod.snd).toArray).toList := by
        simpa using a.perm hP
      have hc' : Closed g (s.perm ++ ((sortPairs q.1).map Prod.snd).toArray).toList (i + 1 - 1) := by
        intro idx hidx x hx' w hw
        simp only [Array.toList_append] at hx' ⊢
        have hlt : idx < s.perm.toList.length := by simp; omega
        rw [List.getElem?_append_left hlt] at hx'
        by_cases hlast : idx = i - 1
        · subst hlast
          rw [hxe] at hx'
          cases hx'
          exact hP.mem_iff.mp (b w hw)
        · have := hc idx (by omega) x hx' w hw
          exact List.mem_append_left _ this
      obtain ⟨r1, r2, r3⟩ := ih (i + 1)
        { perm := s.perm ++ ((sortPairs q.1).map Prod.snd).toArray, mask := q.2 } hm' (by omega)
        (by simp; omega) (by omega) hc'
      refine ⟨r1, r2, ?_⟩
      simp at r3
      omega
    · simp only [hi, if_false]
      have : i - 1 = s.perm.size := by omega
      rw [this] at hc
      exact ⟨hm, hc, Nat.le_refl _⟩

/-! ### (d) the outer loop: one pseudo-peripheral root per component -/

/-- the numbered set contains all neighbours of its members -/
def ClosedAll (g : Adj) (L : List Nat) : Prop := ∀ x ∈ L, ∀ w ∈ g.nbrs x, w ∈ L

theorem Closed.all {g : Adj} {L : List Nat} (h : Closed g L L.length) : ClosedAll g L := by
  intro x hx w hw
  obtain ⟨idx, hidx⟩ := List.mem_iff_getElem?.mp hx
  have hlt : idx < L.length := by
    obtain ⟨hlt, _⟩ := List.getElem?_eq_some_iff.mp hidx
    exact hlt
  exact h idx hlt x hidx w hw

/-- in a symmetric graph a closed set that contains the end of a path contains its start -/
theorem closed_back {g : Adj} (hg : g.InRange) (hs : g.Sym) {L : List Nat} (hc : ClosedAll g L)
    {a b : Nat} (ha1 : 1 ≤ a) (ha2 : a ≤ g.nodes) (h : Reach g a b) :
    (1 ≤ b ∧ b ≤ g.nodes) ∧ (b ∈ L → a ∈ L) := by
  induction h with
  | refl => exact ⟨⟨ha1, ha2⟩, fun h => h⟩
  | @step b c _ hm ih =>
    have hcr := hg b ih.1.1 ih.1.2 c hm
    refine ⟨hcr, fun hcL => ih.2 ?_⟩
    exact hc c hcL b (hs b c ih.1.1 ih.1.2 hcr.1 hcr.2 hm)

theorem firstMasked_spec (mask : Array Nat) (n : Nat)
    (h : ∃ v, 1 ≤ v ∧ v ≤ n ∧ mask[v]! ≠ 0) :
    1 ≤ firstMasked mask n ∧ firstMasked mask n ≤ n ∧ mask[firstMasked mask n]! ≠ 0 := by
  unfold firstMasked
  cases hf : (List.range' 1 n).find? (fun i => mask[i]! != 0) with
  | none =>
    obtain ⟨v, h1, h2, h3⟩ := h
    have := List.find?_eq_none.mp hf v (by simp [List.mem_range'_1]; omega)
    simp at this
    exact absurd this h3
  | some a =>
    have hmem := List.mem_of_find?_eq_some hf
    have hp := List.find?_some hf
    simp [List.mem_range'_1] at hmem
    simp at hp
    simp only [Option.getD_some]
    exact ⟨hmem.1, by omega, hp⟩

theorem rcmOuter_inv {g : Adj} (hg : g.InRange) (hs : g.Sym) (fuel : Nat) :
    ∀ s, MInv g.nodes s.mask s.perm.toList → ClosedAll g s.perm.toList →
      g.nodes ≤ fuel + s.perm.size →
      MInv g.nodes (rcmOuter g fuel s).mask (rcmOuter g fuel s).perm.toList ∧
      (rcmOuter g fuel s).perm.size = g.nodes := by
  induction fuel with
  | zero =>
    intro s hm _ hf
    have := hm.length_le
    simp at this
    exact ⟨hm, by simp [rcmOuter]; omega⟩
  | succ fuel ih =>
    intro s hm hc hf
    unfold rcmOuter
    by_cases hlt : s.perm.size < g.nodes
    · simp only [hlt, if_true]
      obtain ⟨v, hv1, hv2, hv3⟩ := exists_not_mem (n := g.nodes) (L := s.perm.toList)
        (by simpa using hlt)
      have hvm : s.mask[v]! ≠ 0 := fun e => hv3 ((hm.zero v hv1 hv2).mp e)
      obtain ⟨f1, f2, f3⟩ := firstMasked_spec s.mask g.nodes ⟨v, hv1, hv2, hvm⟩
      have hstart : firstMasked s.mask g.nodes ∉ s.perm.toList :=
        fun e => f3 ((hm.zero _ f1 f2).mpr e)
      obtain ⟨p1, p2, p3⟩ := ppn_good hg f1 f2
      have hr : (ppn g (firstMasked s.mask g.nodes)).1 ∉ s.perm.toList :=
        fun e => hstart ((closed_back hg hs hc f1 f2 p3).2 e)
      have hrm : s.mask[(ppn g (firstMasked s.mask g.nodes)).1]! ≠ 0 :=
        fun e => hr ((hm.zero _ p1 p2).mp e)
      generalize (ppn g (firstMasked s.mask g.nodes)).1 = r at p1 p2 hrm
      have hm1 : MInv g.nodes (s.mask.setIfInBounds r 0) (s.perm.push r).toList := by
        simpa using hm.visit p1 p2 hrm
      obtain ⟨i1, i2, i3⟩ := rcmInner_inv hg g.nodes 1
        { perm := s.perm.push r, mask := s.mask.setIfInBounds r 0 } hm1 (Nat.le_refl _)
        (by simp) (Nat.le_refl _) (by intro idx hidx; omega)
      apply ih _ i1
      · have := Closed.all (L := (rcmInner g g.nodes 1
          { perm := s.perm.push r, mask := s.mask.setIfInBounds r 0 }).perm.toList)
          (by simpa using i2)
        exact this
      · simp at i3
        omega
    · simp only [hlt, if_false]
      have := hm.length_le
      simp at this
      exact ⟨hm, by omega⟩

theorem mask0_size (l : List Nat) :
    ∀ (m : Array Nat), (l.foldl (fun m i => m.setIfInBounds i 1) m).size = m.size := by
  induction l with
  | nil => intro m; rfl
  | cons i l ih => intro m; simp [ih]

theorem mask0_fold (l : List Nat) :
    ∀ (m : Array Nat) (v : Nat), m[v]! = 1 ∨ (v ∈ l ∧ v < m.size) →
      (l.foldl (fun m i => m.setIfInBounds i 1) m).size = m.size ∧
      (l.foldl (fun m i => m.setIfInBounds i 1) m)[v]! = 1 := by
  induction l with
  | nil =>
    intro m v h
    rcases h with h | h
    · exact ⟨rfl, h⟩
    · simp at h
  | cons i l ih =>
    intro m v h
    simp only [List.foldl_cons]
    have hh : (m.setIfInBounds i 1)[v]! = 1 ∨ (v ∈ l ∧ v < (m.setIfInBounds i 1).size) := by
      rw [get!_set]
      by_cases hiv : i = v ∧ i < m.size
      · rw [if_pos hiv]; exact Or.inl rfl
      · rw [if_neg hiv]
        rcases h with h | h
        · exact Or.inl h
        · rcases List.mem_cons.mp h.1 with e | e
          · exact absurd ⟨e.symm, by omega⟩ hiv
          · exact Or.inr ⟨e, by simpa using h.2⟩
    have := ih _ v hh
    simpa using this

/-- the Cuthill–McKee numbering lists every node exactly once; the mask ends up all zero -/
theorem cmOrder_inv {g : Adj} (hg : g.InRange) (hs : g.Sym) :
    MInv g.nodes (cmOrder g).mask (cmOrder g).perm.toList ∧ (cmOrder g).perm.size = g.nodes := by
  unfold cmOrder
  apply rcmOuter_inv hg hs
  · refine ⟨?_, by simp, by simp, ?_⟩
    · simp [mask0_size]
    · intro v h1 h2
      have := (mask0_fold (List.range' 1 g.nodes) (Array.replicate (g.nodes + 1) 0) v
        (Or.inr ⟨by simp [List.mem_range'_1]; omega, by simp; omega⟩)).2
      simp [this]
  · intro x hx; simp at hx
  · simp

/-! ### (e) reversal and the inverse permutation -/

theorem get!_swap (a : Array Nat) (i j k : Nat) (hi : i < a.size) (hj : j < a.size) :
    (a.swapIfInBounds i j)[k]! = if k = i then a[j]! else if k = j then a[i]! else a[k]! := by
  by_cases hk : k < a.size
  · rw [getElem!_pos _ k (by simpa using hk), getElem!_pos a j hj, getElem!_pos a i hi,
      getElem!_pos a k hk, Array.getElem_swapIfInBounds]
    simp only [hi, hj, and_true]
    split_ifs <;> rfl
  · have h1 : ¬ k = i := by omega
    have h2 : ¬ k = j := by omega
    simp only [h1, h2, if_false]
    rw [getElem!_neg _ k (by simpa using hk), getElem!_neg _ k hk]

/-- the swap loop reverses the segment `i..j` and leaves the other cells alone -/
theorem reverseLoop_spec (a : Array Nat) (i j : Nat) :
    j < a.size → (reverseLoop a i j).size = a.size ∧
      ∀ k, (reverseLoop a i j)[k]! = if i ≤ k ∧ k ≤ j then a[i + j - k]! else a[k]! := by
  induction a, i, j using reverseLoop.induct with
  | case1 a i j hij ih =>
    intro hj
    rw [reverseLoop.eq_1, if_pos hij]
    obtain ⟨h1, h2⟩ := ih (by simp; omega)
    refine ⟨by simpa using h1, fun k => ?_⟩
    rw [h2 k, get!_swap a i j _ (by omega) hj, get!_swap a i j _ (by omega) hj]
    split_ifs <;> first | rfl | omega | (congr 1; omega)
  | case2 a i j hij =>
    intro hj
    rw [reverseLoop.eq_1, if_neg hij]
    refine ⟨rfl, fun k => ?_⟩
    split_ifs with h
    · congr 1; omega
    · rfl

theorem get!_cons0 (a : Array Nat) (m : Nat) : (#[0] ++ a)[m + 1]! = a[m]! := by
  rw [get!_eq, get!_eq]; simp

theorem nodup_get!_inj (a : Array Nat) (h : a.toList.Nodup) {i j : Nat} (hi : i < a.size)
    (hj : j < a.size) (e : a[i]! = a[j]!) : i = j := by
  rw [getElem!_pos _ i hi, getElem!_pos _ j hj] at e
  have hi' : i < a.toList.length := by simpa using hi
  have hj' : j < a.toList.length := by simpa using hj
  have : a.toList[i] = a.toList[j] := by simpa using e
  exact (List.Nodup.getElem_inj_iff h).mp this

/-- `for (i = 1; i <= N; i++) invp(perm(i)) = i` when the values `perm(i)` are distinct -/
theorem invp_fold (P : Array Nat) (Ks : List Nat) :
    ∀ v : Array Nat, (∀ k ∈ Ks, P[k]! < v.size) → (Ks.map (fun k => P[k]!)).Nodup →
      (Ks.foldl (fun v i => v.setIfInBounds P[i]! i) v).size = v.size ∧
      (∀ k ∈ Ks, (Ks.foldl (fun v i => v.setIfInBounds P[i]! i) v)[P[k]!]! = k) ∧
      (∀ j, (∀ k ∈ Ks, P[k]! ≠ j) → (Ks.foldl (fun v i => v.setIfInBounds P[i]! i) v)[j]! = v[j]!) := by
  induction Ks with
  | nil => intro v _ _; exact ⟨rfl, by simp, fun j _ => rfl⟩
  | cons k Ks ih =>
    intro v hb hn
    simp only [List.foldl_cons]
    simp only [List.map_cons, List.nodup_cons] at hn
    obtain ⟨a, b, c⟩ := ih (v.setIfInBounds P[k]! k)
      (fun k' hk' => by simpa using hb k' (by simp [hk'])) hn.2
    refine ⟨by simpa using a, ?_, ?_⟩
    · intro k' hk'
      rcases List.mem_cons.mp hk' with e | e
      · subst e
        rw [c _ (fun k'' hk'' e => hn.1 (List.mem_map.mpr ⟨k'', hk'', e⟩))]
        exact get!_set_self _ _ _ (hb k' (by simp))
      · exact b k' e
    · intro j hj
      rw [c j (fun k' hk' => hj k' (by simp [hk']))]
      exact get!_set_ne _ _ _ _ (hj k (by simp))

/-- description of `(rcm g).perm` : cell `k` holds the node numbered `n+1-k` by Cuthill–McKee -/
theorem rcm_perm_get {g : Adj} (hsz : (cmOrder g).perm.size = g.nodes) (k : Nat) (h1 : 1 ≤ k)
    (h2 : k ≤ g.nodes) : (rcm g).perm[k]! = (cmOrder g).perm[g.nodes - k]! := by
  show (reverseLoop (#[0] ++ (cmOrder g).perm) 1 g.nodes)[k]! = _
  rw [(reverseLoop_spec _ 1 g.nodes (by simp [hsz])).2 k, if_pos ⟨h1, h2⟩]
  have : 1 + g.nodes - k = (g.nodes - k) + 1 := by omega
  rw [this, get!_cons0]

theorem rcm_perm_size {g : Adj} (hg : g.InRange) (hs : g.Sym) :
    (rcm g).perm.size = g.nodes + 1 := by
  have hsz := (cmOrder_inv hg hs).2
  show (reverseLoop (#[0] ++ (cmOrder g).perm) 1 g.nodes).size = _
  rw [(reverseLoop_spec _ 1 g.nodes (by simp [hsz])).1]
  simp [hsz]; omega

end RCMPerm

open RCMPerm in
/-- **Main theorem.**  For every graph with in-range, symmetric neighbour lists the reverse
    Cuthill–McKee ordering is a pair of mutually inverse bijections of `1..nodes`. -/
theorem rcm_isPerm (g : Adj) (hr : g.InRange) (hs : g.Sym) : (rcm g).IsPerm g.nodes := by
  obtain ⟨hm, hsz⟩ := cmOrder_inv hr hs
  have hlen : g.nodes ≤ (cmOrder g).perm.toList.length := by simp [hsz]
  -- facts about `Q k = (rcm g).perm[k]!`
  have Q1 : ∀ k, 1 ≤ k → k ≤ g.nodes → (rcm g).perm[k]! ∈ (cmOrder g).perm.toList := by
    intro k h1 h2
    rw [rcm_perm_get hsz k h1 h2]
    exact get!_mem _ _ (by omega)
  have Q2 : ∀ k, 1 ≤ k → k ≤ g.nodes → ∀ k', 1 ≤ k' → k' ≤ g.nodes →
      (rcm g).perm[k]! = (rcm g).perm[k']! → k = k' := by
    intro k h1 h2 k' h1' h2' e
    rw [rcm_perm_get hsz k h1 h2, rcm_perm_get hsz k' h1' h2'] at e
    have := nodup_get!_inj _ hm.nodup (by omega) (by omega) e
    omega
  have Q3 : ∀ v, 1 ≤ v → v ≤ g.nodes → ∃ k, 1 ≤ k ∧ k ≤ g.nodes ∧ (rcm g).perm[k]! = v := by
    intro v h1 h2
    have hv := mem_of_full hm.nodup hm.range hlen v h1 h2
    obtain ⟨idx, hidx, e⟩ := List.mem_iff_getElem.mp hv
    have hidx' : idx < (cmOrder g).perm.size := by simpa using hidx
    refine ⟨g.nodes - idx, by omega, by omega, ?_⟩
    rw [rcm_perm_get hsz _ (by omega) (by omega)]
    have : g.nodes - (g.nodes - idx) = idx := by omega
    rw [this, getElem!_pos _ idx hidx', ← e]
    simp
  have hfold := invp_fold (rcm g).perm (List.range' 1 g.nodes) (cmOrder g).mask
    (by
      intro k hk
      simp [List.mem_range'_1] at hk
      have := hm.range _ (Q1 k hk.1 (by omega))
      rw [hm.size]; omega)
    (by
      apply List.Nodup.map_on _ List.nodup_range'
      intro x hx y hy e
      simp [List.mem_range'_1] at hx hy
      exact Q2 x hx.1 (by omega) y hy.1 (by omega) e)
  have I2 : ∀ k, 1 ≤ k → k ≤ g.nodes → (rcm g).invp[(rcm g).perm[k]!]! = k := by
    intro k h1 h2
    exact hfold.2.1 k (by simp [List.mem_range'_1]; omega)
  refine ⟨?_, ?_, I2, ?_⟩
  · intro k h1 h2
    exact hm.range _ (Q1 k h1 h2)
  · intro v h1 h2
    obtain ⟨k, k1, k2, e⟩ := Q3 v h1 h2
    rw [← e, I2 k k1 k2]
    exact ⟨k1, k2⟩
  · intro v h1 h2
    obtain ⟨k, k1, k2, e⟩ := Q3 v h1 h2
    rw [← e, I2 k k1 k2]

theorem rcm_nodes (g : Adj) : (rcm g).nodes = g.nodes := rfl

open RCMPerm in
/-- the Cuthill–McKee numbering (before reversal) enumerates `1..nodes` -/
theorem cmOrder_perm (g : Adj) (hr : g.InRange) (hs : g.Sym) :
    (cmOrder g).perm.toList.Perm (List.range' 1 g.nodes) := by
  obtain ⟨hm, hsz⟩ := cmOrder_inv hr hs
  exact perm_range_of_nodup hm.nodup hm.range (by simp [hsz])

open RCMPerm in
/-- cells `1..nodes` of `perm` are the Cuthill–McKee numbering reversed -/
theorem rcm_perm_eq_reverse (g : Adj) (hr : g.InRange) (hs : g.Sym) :
    ((List.range' 1 g.nodes).map fun k => (rcm g).perm[k]!) = (cmOrder g).perm.toList.reverse := by
  obtain ⟨_, hsz⟩ := cmOrder_inv hr hs
  apply List.ext_getElem
  · simp [hsz]
  · intro i h1 h2
    simp at h1
    simp only [List.getElem_map, List.getElem_range', List.getElem_reverse, Array.length_toList]
    rw [rcm_perm_get hsz _ (by omega) (by omega), getElem!_pos _ _ (by omega)]
    simp only [Array.getElem_toList]
    congr 1
    omega

/-- cells `1..nodes` of `perm` enumerate `1..nodes` -/
theorem rcm_perm_list_perm (g : Adj) (hr : g.InRange) (hs : g.Sym) :
    ((List.range' 1 g.nodes).map fun k => (rcm g).perm[k]!).Perm (List.range' 1 g.nodes) := by
  rw [rcm_perm_eq_reverse g hr hs]
  exact (List.reverse_perm _).trans (cmOrder_perm g hr hs)

open RCMPerm in
theorem rcm_sizes (g : Adj) (hr : g.InRange) (hs : g.Sym) :
    (rcm g).perm.size = g.nodes + 1 ∧ (rcm g).invp.size = g.nodes + 1 := by
  refine ⟨rcm_perm_size hr hs, ?_⟩
  obtain ⟨hm, _⟩ := cmOrder_inv hr hs
  show ((List.range' 1 g.nodes).foldl (fun v i => v.setIfInBounds (rcm g).perm[i]! i)
    (cmOrder g).mask).size = _
  have : ∀ (l : List Nat) (v : Array Nat),
      (l.foldl (fun v i => v.setIfInBounds (rcm g).perm[i]! i) v).size = v.size := by
    intro l
    induction l with
    | nil => intro v; rfl
    | cons i l ih => intro v; simp [ih]
  rw [this, hm.size]

/-- non-vacuity: the hypotheses hold for the path 1-2-3 plus the isolated node 4 -/
example : (Adj.mk 4 #[0,0,1,3,4,4] #[2,1,3,2]).InRange ∧ (Adj.mk 4 #[0,0,1,3,4,4] #[2,1,3,2]).Sym := by
  have h1 : ∀ i ∈ List.range' 1 4, ∀ j ∈ (Adj.mk 4 #[0,0,1,3,4,4] #[2,1,3,2]).nbrs i,
      1 ≤ j ∧ j ≤ 4 := by decide
  have h2 : ∀ i ∈ List.range' 1 4, ∀ j ∈ List.range' 1 4,
      j ∈ (Adj.mk 4 #[0,0,1,3,4,4] #[2,1,3,2]).nbrs i →
      i ∈ (Adj.mk 4 #[0,0,1,3,4,4] #[2,1,3,2]).nbrs j := by decide
  have hm : ∀ i, 1 ≤ i → i ≤ 4 → i ∈ List.range' 1 4 := by
    intro i a b; simp [List.mem_range'_1]; omega
  exact ⟨fun i a b => h1 i (hm i a b), fun i j a b c d => h2 i (hm i a b) j (hm j c d)⟩

end Gama
