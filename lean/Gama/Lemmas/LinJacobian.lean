/-
  C05 — the assembled design matrix is the Jacobian.

  The network (`Net`) is moved along ONE unknown `u` — a coordinate of a point or the orientation of
  a stand-point — and every role of an observation that names that point moves with it
  (`Net.bumpU`).  For every class the sum of the coefficients pushed for the roles naming `u`
  (`symEntry`) is the derivative of the observation function; the derivative formulas of
  `LinReal.lean` are restated for arbitrary velocities of the difference vectors (`*_gen`), the
  velocities of a network unknown are the sums of the role velocities (`VX … VO`), and linearity
  does the rest.  No case distinction on which roles coincide is made anywhere.
-/
import Gama.Lemmas.LinAssemble
namespace Gama.Lin
open Real

/-! ### moving one unknown of the network -/

/-- add `h` to the coordinate `u.c` of the point `u.id` (metres), or to the orientation of the
    stand-point `u.id` (radians) -/
def Net.bump (σ : Net ℝ) (u : Unk) (h : ℝ) : Net ℝ :=
  match u.c with
  | .ori => { σ with ori := fun k => if k = u.id then σ.ori k + h else σ.ori k }
  | c => { σ with pt := fun i => if i = u.id then bumpPt (σ.pt i) c h else σ.pt i }

/-- the network after the unknown `u` received the correction `t` (mm / cc) -/
noncomputable def Net.bumpU (σ : Net ℝ) (u : Unk) (t : ℝ) : Net ℝ := σ.bump u (t / unitOf u.c)

/-- is `u` an adjusted unknown (free or constrained coordinate; an orientation always is) -/
def Net.isFree (σ : Net ℝ) (u : Unk) : Bool :=
  match u.c with
  | .ori => true
  | .z => (σ.pt u.id).free_z
  | _ => (σ.pt u.id).free_xy

noncomputable def ind (p : Prop) [Decidable p] : ℝ := if p then 1 else 0

/-- velocities of the difference vectors (m per mm, rad per cc) when the unknown `u` moves: the sum
    of the velocities of the roles that name `u` -/
noncomputable def VX (ob : NObs ℝ) (u : Unk) : ℝ := if u.c = .x then (ind (ob.pto = u.id) - ind (ob.pfrom = u.id)) / 1000 else 0
noncomputable def VY (ob : NObs ℝ) (u : Unk) : ℝ := if u.c = .y then (ind (ob.pto = u.id) - ind (ob.pfrom = u.id)) / 1000 else 0
noncomputable def VZ (ob : NObs ℝ) (u : Unk) : ℝ := if u.c = .z then (ind (ob.pto = u.id) - ind (ob.pfrom = u.id)) / 1000 else 0
noncomputable def VX2 (ob : NObs ℝ) (u : Unk) : ℝ := if u.c = .x then (ind (ob.pfs = u.id) - ind (ob.pfrom = u.id)) / 1000 else 0
noncomputable def VY2 (ob : NObs ℝ) (u : Unk) : ℝ := if u.c = .y then (ind (ob.pfs = u.id) - ind (ob.pfrom = u.id)) / 1000 else 0
noncomputable def VO (ob : NObs ℝ) (u : Unk) : ℝ := if u.c = .ori then ind (ob.sp = u.id) / R2CC else 0
noncomputable def VFX (ob : NObs ℝ) (u : Unk) : ℝ := if u.c = .x then ind (ob.pfrom = u.id) / 1000 else 0
noncomputable def VFY (ob : NObs ℝ) (u : Unk) : ℝ := if u.c = .y then ind (ob.pfrom = u.id) / 1000 else 0
noncomputable def VFZ (ob : NObs ℝ) (u : Unk) : ℝ := if u.c = .z then ind (ob.pfrom = u.id) / 1000 else 0

macro "net_vel" : tactic =>
  `(tactic| (
    rename_i σ ob u t
    obtain ⟨id, c⟩ := u
    cases c <;>
      simp only [Net.bumpU, Net.bump, Net.view, dX, dY, dZ, dX2, dY2, fromX, fromY, fromZ, bumpPt, VX, VY, VZ, VX2, VY2, VO,
        VFX, VFY, VFZ, ind, unitOf, MM, reduceCtorEq, if_false, if_true, zero_mul, add_zero] <;>
      (try (by_cases h1 : ob.pto = id <;> by_cases h2 : ob.pfrom = id <;> by_cases h3 : ob.pfs = id <;>
        by_cases h4 : ob.sp = id <;> simp [h1, h2, h3, h4] <;> ring))))

theorem dX_net (σ : Net ℝ) (ob : NObs ℝ) (u : Unk) (t : ℝ) : dX ((σ.bumpU u t).view ob) = dX (σ.view ob) + VX ob u * t := by net_vel
theorem dY_net (σ : Net ℝ) (ob : NObs ℝ) (u : Unk) (t : ℝ) : dY ((σ.bumpU u t).view ob) = dY (σ.view ob) + VY ob u * t := by net_vel
theorem dZ_net (σ : Net ℝ) (ob : NObs ℝ) (u : Unk) (t : ℝ) : dZ ((σ.bumpU u t).view ob) = dZ (σ.view ob) + VZ ob u * t := by net_vel
theorem dX2_net (σ : Net ℝ) (ob : NObs ℝ) (u : Unk) (t : ℝ) : dX2 ((σ.bumpU u t).view ob) = dX2 (σ.view ob) + VX2 ob u * t := by net_vel
theorem dY2_net (σ : Net ℝ) (ob : NObs ℝ) (u : Unk) (t : ℝ) : dY2 ((σ.bumpU u t).view ob) = dY2 (σ.view ob) + VY2 ob u * t := by net_vel
theorem fromX_net (σ : Net ℝ) (ob : NObs ℝ) (u : Unk) (t : ℝ) : fromX ((σ.bumpU u t).view ob) = fromX (σ.view ob) + VFX ob u * t := by net_vel
theorem fromY_net (σ : Net ℝ) (ob : NObs ℝ) (u : Unk) (t : ℝ) : fromY ((σ.bumpU u t).view ob) = fromY (σ.view ob) + VFY ob u * t := by net_vel
theorem fromZ_net (σ : Net ℝ) (ob : NObs ℝ) (u : Unk) (t : ℝ) : fromZ ((σ.bumpU u t).view ob) = fromZ (σ.view ob) + VFZ ob u * t := by net_vel
theorem ori_net (σ : Net ℝ) (ob : NObs ℝ) (u : Unk) (t : ℝ) :
    ((σ.bumpU u t).view ob).orientation = (σ.view ob).orientation + VO ob u * t := by net_vel
theorem xNorth_net (σ : Net ℝ) (ob : NObs ℝ) (u : Unk) (t : ℝ) : ((σ.bumpU u t).view ob).xNorth = (σ.view ob).xNorth := by
  obtain ⟨id, c⟩ := u; cases c <;> rfl
theorem value_net (σ : Net ℝ) (ob : NObs ℝ) (u : Unk) (t : ℝ) : ((σ.bumpU u t).view ob).value = (σ.view ob).value := by
  obtain ⟨id, c⟩ := u; cases c <;> rfl

end Gama.Lin
