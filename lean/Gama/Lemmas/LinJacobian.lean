/-
  C05 — the assembled design matrix is the Jacobian.

  The network (`Net`) is moved along ONE unknown `u` — a coordinate of a point or the orientation of
  a stand-point — and every role of an observation that names that point moves with it
  (`Net.bumpU`).  For every class the sum of the coefficients pushed for the roles naming `u`
  (`symEntry`) is the derivative of the observation function; the derivative formulas of
  `LinReal.lean` are restated for arbitrary velocities of the difference vectors (`*_gen`), the
  velocities of a network unknown are the sums of the role velocities (`VX … VO`), and linearity
  does the rest.  No case distinction on which roles coincide is made anywhere.
-/
import Gama.Lemmas.LinAssemble
namespace Gama.Lin
open Real

/-! ### moving one unknown of the network -/

/-- add `h` to the coordinate `u.c` of the point `u.id` (metres), or to the orientation of the
    stand-point `u.id` (radians) -/
def Net.bump (σ : Net ℝ) (u : Unk) (h : ℝ) : Net ℝ :=
  match u.c with
  | .ori => { σ with ori := fun k => if k = u.id then σ.ori k + h else σ.ori k }
  | c => { σ with pt := fun i => if i = u.id then bumpPt (σ.pt i) c h else σ.pt i }

/-- the network after the unknown `u` received the correction `t` (mm / cc) -/
noncomputable def Net.bumpU (σ : Net ℝ) (u : Unk) (t : ℝ) : Net ℝ := σ.bump u (t / unitOf u.c)

/-- is `u` an adjusted unknown (free or constrained coordinate; an orientation always is) -/
def Net.isFree (σ : Net ℝ) (u : Unk) : Bool :=
  match u.c with
  | .ori => true
  | .z => (σ.pt u.id).free_z
  | _ => (σ.pt u.id).free_xy

noncomputable def ind (p : Prop) [Decidable p] : ℝ := if p then 1 else 0

/-- velocities of the difference vectors (m per mm, rad per cc) when the unknown `u` moves: the sum
    of the velocities of the roles that name `u` -/
noncomputable def VX (ob : NObs ℝ) (u : Unk) : ℝ := if u.c = .x then (ind (ob.pto = u.id) - ind (ob.pfrom = u.id)) / 1000 else 0
noncomputable def VY (ob : NObs ℝ) (u : Unk) : ℝ := if u.c = .y then (ind (ob.pto = u.id) - ind (ob.pfrom = u.id)) / 1000 else 0
noncomputable def VZ (ob : NObs ℝ) (u : Unk) : ℝ := if u.c = .z then (ind (ob.pto = u.id) - ind (ob.pfrom = u.id)) / 1000 else 0
noncomputable def VX2 (ob : NObs ℝ) (u : Unk) : ℝ := if u.c = .x then (ind (ob.pfs = u.id) - ind (ob.pfrom = u.id)) / 1000 else 0
noncomputable def VY2 (ob : NObs ℝ) (u : Unk) : ℝ := if u.c = .y then (ind (ob.pfs = u.id) - ind (ob.pfrom = u.id)) / 1000 else 0
noncomputable def VO (ob : NObs ℝ) (u : Unk) : ℝ := if u.c = .ori then ind (ob.sp = u.id) / R2CC else 0
noncomputable def VFX (ob : NObs ℝ) (u : Unk) : ℝ := if u.c = .x then ind (ob.pfrom = u.id) / 1000 else 0
noncomputable def VFY (ob : NObs ℝ) (u : Unk) : ℝ := if u.c = .y then ind (ob.pfrom = u.id) / 1000 else 0
noncomputable def VFZ (ob : NObs ℝ) (u : Unk) : ℝ := if u.c = .z then ind (ob.pfrom = u.id) / 1000 else 0

macro "net_vel" : tactic =>
  `(tactic| (
    rename_i σ ob u t
    obtain ⟨id, c⟩ := u
    cases c <;>
      simp only [Net.bumpU, Net.bump, Net.view, dX, dY, dZ, dX2, dY2, fromX, fromY, fromZ, bumpPt, VX, VY, VZ, VX2, VY2, VO,
        VFX, VFY, VFZ, ind, unitOf, MM, reduceCtorEq, if_false, if_true, zero_mul, add_zero] <;>
      (try (by_cases h1 : ob.pto = id <;> by_cases h2 : ob.pfrom = id <;> by_cases h3 : ob.pfs = id <;>
        by_cases h4 : ob.sp = id <;> simp [h1, h2, h3, h4] <;> ring))))

theorem dX_net (σ : Net ℝ) (ob : NObs ℝ) (u : Unk) (t : ℝ) : dX ((σ.bumpU u t).view ob) = dX (σ.view ob) + VX ob u * t := by net_vel
theorem dY_net (σ : Net ℝ) (ob : NObs ℝ) (u : Unk) (t : ℝ) : dY ((σ.bumpU u t).view ob) = dY (σ.view ob) + VY ob u * t := by net_vel
theorem dZ_net (σ : Net ℝ) (ob : NObs ℝ) (u : Unk) (t : ℝ) : dZ ((σ.bumpU u t).view ob) = dZ (σ.view ob) + VZ ob u * t := by net_vel
theorem dX2_net (σ : Net ℝ) (ob : NObs ℝ) (u : Unk) (t : ℝ) : dX2 ((σ.bumpU u t).view ob) = dX2 (σ.view ob) + VX2 ob u * t := by net_vel
theorem dY2_net (σ : Net ℝ) (ob : NObs ℝ) (u : Unk) (t : ℝ) : dY2 ((σ.bumpU u t).view ob) = dY2 (σ.view ob) + VY2 ob u * t := by net_vel
theorem fromX_net (σ : Net ℝ) (ob : NObs ℝ) (u : Unk) (t : ℝ) : fromX ((σ.bumpU u t).view ob) = fromX (σ.view ob) + VFX ob u * t := by net_vel
theorem fromY_net (σ : Net ℝ) (ob : NObs ℝ) (u : Unk) (t : ℝ) : fromY ((σ.bumpU u t).view ob) = fromY (σ.view ob) + VFY ob u * t := by net_vel
theorem fromZ_net (σ : Net ℝ) (ob : NObs ℝ) (u : Unk) (t : ℝ) : fromZ ((σ.bumpU u t).view ob) = fromZ (σ.view ob) + VFZ ob u * t := by net_vel
theorem ori_net (σ : Net ℝ) (ob : NObs ℝ) (u : Unk) (t : ℝ) :
    ((σ.bumpU u t).view ob).orientation = (σ.view ob).orientation + VO ob u * t := by net_vel
theorem xNorth_net (σ : Net ℝ) (ob : NObs ℝ) (u : Unk) (t : ℝ) : ((σ.bumpU u t).view ob).xNorth = (σ.view ob).xNorth := by
  obtain ⟨id, c⟩ := u; cases c <;> rfl
theorem value_net (σ : Net ℝ) (ob : NObs ℝ) (u : Unk) (t : ℝ) : ((σ.bumpU u t).view ob).value = (σ.view ob).value := by
  obtain ⟨id, c⟩ := u; cases c <;> rfl

/-! ### derivative formulas for arbitrary velocities of the difference vectors -/

theorem hdist_gen (m : ℝ → Obs ℝ) (o : Obs ℝ) (a b : ℝ) (hX : ∀ t, dX (m t) = dX o + a * t)
    (hY : ∀ t, dY (m t) = dY o + b * t) (h : hdist o ≠ 0) :
    HasDerivAt (fun t => MM * hdist (m t)) (MM * ((dX o * a + dY o * b) / hdist o)) 0 := by
  have := (hasDerivAt_norm2 (dX o) (dY o) a b (hdist_sq_ne h)).const_mul MM
  simpa only [hdist, hX, hY] using this

theorem sdist_gen (m : ℝ → Obs ℝ) (o : Obs ℝ) (a b c : ℝ) (hX : ∀ t, dX (m t) = dX o + a * t)
    (hY : ∀ t, dY (m t) = dY o + b * t) (hZ : ∀ t, dZ (m t) = dZ o + c * t) (h : sdist o ≠ 0) :
    HasDerivAt (fun t => MM * sdist (m t)) (MM * ((dX o * a + dY o * b + dZ o * c) / sdist o)) 0 := by
  have := (hasDerivAt_norm3 (dX o) (dY o) (dZ o) a b c (sdist_sq_ne h)).const_mul MM
  simpa only [sdist, hX, hY, hZ] using this

theorem bearing_gen (m : ℝ → Obs ℝ) (o : Obs ℝ) (a b : ℝ) (hX : ∀ t, dX (m t) = dX o + a * t)
    (hY : ∀ t, dY (m t) = dY o + b * t) (h : hdist o ≠ 0) (off : Obs ℝ → ℝ) (vo : ℝ)
    (hoff : ∀ t, off (m t) = off o + vo * t) :
    ∃ θ : ℝ → ℝ, θ 0 = brg (dX o) (dY o) ∧ (∀ t, IsPolarAngle (dX (m t)) (dY (m t)) (θ t)) ∧
      HasDerivAt (fun t => R2CC * (θ t - off (m t)))
        (R2CC * ((dX o * b - dY o * a) / (hdist o * hdist o) - vo)) 0 := by
  obtain ⟨θ, h0, hp, hd⟩ := exists_polar_lift (dX o) (dY o) a b (hdist_sq_ne h)
  refine ⟨θ, h0, ?_, ?_⟩
  · intro t; simpa only [hX, hY] using hp t
  · simp only [hoff]
    rw [hdist_mul_self]
    exact (hd.sub (hasDerivAt_line (off o) vo)).const_mul R2CC

theorem angle_gen (m : ℝ → Obs ℝ) (o : Obs ℝ) (a b a2 b2 : ℝ) (hX : ∀ t, dX (m t) = dX o + a * t)
    (hY : ∀ t, dY (m t) = dY o + b * t) (hX2 : ∀ t, dX2 (m t) = dX2 o + a2 * t)
    (hY2 : ∀ t, dY2 (m t) = dY2 o + b2 * t) (h : hdist o ≠ 0) (h' : hdist2 o ≠ 0) :
    ∃ θ₁ θ₂ : ℝ → ℝ, θ₁ 0 = brg (dX o) (dY o) ∧ θ₂ 0 = brg (dX2 o) (dY2 o) ∧
      (∀ t, IsPolarAngle (dX (m t)) (dY (m t)) (θ₁ t)) ∧ (∀ t, IsPolarAngle (dX2 (m t)) (dY2 (m t)) (θ₂ t)) ∧
      HasDerivAt (fun t => R2CC * (θ₂ t - θ₁ t))
        (R2CC * ((dX2 o * b2 - dY2 o * a2) / (hdist2 o * hdist2 o) - (dX o * b - dY o * a) / (hdist o * hdist o))) 0 := by
  obtain ⟨θ₁, a0, ap, ad⟩ := exists_polar_lift (dX o) (dY o) a b (hdist_sq_ne h)
  obtain ⟨θ₂, b0, bp, bd⟩ := exists_polar_lift (dX2 o) (dY2 o) a2 b2 (hdist2_sq_ne h')
  refine ⟨θ₁, θ₂, a0, b0, ?_, ?_, ?_⟩
  · intro t; simpa only [hX, hY] using ap t
  · intro t; simpa only [hX2, hY2] using bp t
  · rw [hdist_mul_self, hdist2_mul_self]
    exact (bd.sub ad).const_mul R2CC

theorem zenith_gen (m : ℝ → Obs ℝ) (o : Obs ℝ) (a b c : ℝ) (hX : ∀ t, dX (m t) = dX o + a * t)
    (hY : ∀ t, dY (m t) = dY o + b * t) (hZ : ∀ t, dZ (m t) = dZ o + c * t) (h : hdist o ≠ 0) :
    HasDerivAt (fun t => R2CC * zenith (m t))
      (R2CC * (-c / hdist o + dZ o * (dX o * a + dY o * b + dZ o * c) / (hdist o * (sdist o * sdist o)))) 0 := by
  have hs : sdist o ≠ 0 := sdist_ne_of_hdist_ne h
  have hdp : 0 < hdist o := lt_of_le_of_ne (hdist_nonneg o) (Ne.symm h)
  have hsp : 0 < sdist o := lt_of_le_of_ne (sdist_nonneg o) (Ne.symm hs)
  have hN := hasDerivAt_norm3 (dX o) (dY o) (dZ o) a b c (sdist_sq_ne hs)
  have hZ' := hasDerivAt_line (dZ o) c
  have hu := hZ'.div hN (by simpa [sdist] using hs)
  have hlt : dZ o * dZ o < sdist o * sdist o := by rw [sdist_sq_eq]; nlinarith [mul_pos hdp hdp]
  have habs : |dZ o| < sdist o := abs_lt_of_sq_lt_sq' (by simpa [sq] using hlt) hsp.le |> fun ⟨a, b⟩ => abs_lt.mpr ⟨a, b⟩
  have hu0 : (dZ o + c * 0) / Real.sqrt ((dX o + a * 0) * (dX o + a * 0) +
      (dY o + b * 0) * (dY o + b * 0) + (dZ o + c * 0) * (dZ o + c * 0)) = dZ o / sdist o := by
    simp [sdist]
  have h1 : dZ o / sdist o ≠ -1 := by
    intro e; rw [div_eq_iff hs] at e; have := abs_lt.mp habs; linarith
  have h2 : dZ o / sdist o ≠ 1 := by
    intro e; rw [div_eq_iff hs] at e; have := abs_lt.mp habs; linarith
  have hac := (Real.hasDerivAt_arccos (x := dZ o / sdist o) h1 h2)
  have hcomp := (hu0 ▸ hac).comp (0:ℝ) hu
  have hsqrt : Real.sqrt (1 - (dZ o / sdist o) ^ 2) = hdist o / sdist o := by
    have : 1 - (dZ o / sdist o) ^ 2 = (hdist o / sdist o) ^ 2 := by
      field_simp
      have := sdist_sq_eq o
      nlinarith
    rw [this, Real.sqrt_sq (div_nonneg hdp.le hsp.le)]
  have hfin := hcomp.const_mul R2CC
  have hfun : (fun t => R2CC * zenith (m t)) =
      fun t => R2CC * (Real.arccos ∘ fun t => (dZ o + c * t) / Real.sqrt ((dX o + a * t) * (dX o + a * t) +
      (dY o + b * t) * (dY o + b * t) + (dZ o + c * t) * (dZ o + c * t))) t := by
    funext t
    simp only [zenith, sdist, hX, hY, hZ, Function.comp]
  rw [hfun]
  refine hfin.congr_deriv ?_
  simp only [mul_zero, add_zero]
  have e3 : Real.sqrt (dX o * dX o + dY o * dY o + dZ o * dZ o) = sdist o := rfl
  rw [e3, hsqrt]
  have hss := sdist_sq_eq o
  field_simp
  nlinarith [hss]

theorem zenithComputed_gen (m : ℝ → Obs ℝ) (o : Obs ℝ) (v : ℝ) (hv : ∀ t, (m t).value = o.value)
    (h : HasDerivAt (fun t => R2CC * zenith (m t)) v 0) :
    HasDerivAt (fun t => R2CC * zenithComputed (m t)) (zsign o * v) 0 := by
  by_cases hp : π < o.value
  · have e : (fun t => R2CC * zenithComputed (m t)) = fun t => R2CC * (2 * π) - R2CC * zenith (m t) := by
      funext t; simp [zenithComputed, hv, hp]; ring
    rw [e]
    simpa [zsign, hp] using h.const_sub (R2CC * (2 * π))
  · simpa [zenithComputed, hv, hp, zsign] using h

theorem affine_gen (F : Obs ℝ → ℝ) (m : ℝ → Obs ℝ) (o : Obs ℝ) (v : ℝ) (hF : ∀ t, F (m t) = F o + v * t) :
    HasDerivAt (fun t => MM * F (m t)) (MM * v) 0 := by
  simp only [hF]
  exact (hasDerivAt_line (F o) v).const_mul MM

/-! ### the statement: derivative of a row wrt an unknown of the network -/

/-- `v` = ∂(unit · F(row))/∂u at the linearisation point, `u` any unknown of the network -/
def NetPartial (unit : ℝ) (F : Obs ℝ → ℝ) (σ : Net ℝ) (ob : NObs ℝ) (u : Unk) (v : ℝ) : Prop :=
  HasDerivAt (fun t => unit * F ((σ.bumpU u t).view ob)) v 0

/-- the same for `θ(from → to) − off` with any differentiable polar angle `θ` starting at the code's bearing -/
def NetPartialBearing (off : Obs ℝ → ℝ) (σ : Net ℝ) (ob : NObs ℝ) (u : Unk) (v : ℝ) : Prop :=
  ∃ θ : ℝ → ℝ, θ 0 = brg (dX (σ.view ob)) (dY (σ.view ob)) ∧
    (∀ t, IsPolarAngle (dX ((σ.bumpU u t).view ob)) (dY ((σ.bumpU u t).view ob)) (θ t)) ∧
    HasDerivAt (fun t => R2CC * (θ t - off ((σ.bumpU u t).view ob))) v 0

/-- the same for the angle `θ₂(from → fs) − θ₁(from → bs)` -/
def NetPartialAngle (σ : Net ℝ) (ob : NObs ℝ) (u : Unk) (v : ℝ) : Prop :=
  ∃ θ₁ θ₂ : ℝ → ℝ, θ₁ 0 = brg (dX (σ.view ob)) (dY (σ.view ob)) ∧ θ₂ 0 = brg (dX2 (σ.view ob)) (dY2 (σ.view ob)) ∧
    (∀ t, IsPolarAngle (dX ((σ.bumpU u t).view ob)) (dY ((σ.bumpU u t).view ob)) (θ₁ t)) ∧
    (∀ t, IsPolarAngle (dX2 ((σ.bumpU u t).view ob)) (dY2 ((σ.bumpU u t).view ob)) (θ₂ t)) ∧
    HasDerivAt (fun t => R2CC * (θ₂ t - θ₁ t)) v 0

/-- "`v` is the partial derivative of the observation function of a row of class `k` wrt the
    unknown `u`, in gama's units" -/
def RowDeriv : Kind → Net ℝ → NObs ℝ → Unk → ℝ → Prop
  | .direction => NetPartialBearing (fun o => o.orientation)
  | .azimuth => NetPartialBearing (fun o => o.xNorth)
  | .distance => NetPartial MM hdist
  | .angle => NetPartialAngle
  | .s_distance => NetPartial MM sdist
  | .z_angle => NetPartial R2CC zenithComputed
  | .h_diff => NetPartial MM dZ
  | .zdiff => NetPartial MM dZ
  | .xdiff => NetPartial MM dX
  | .ydiff => NetPartial MM dY
  | .x => NetPartial MM fromX
  | .y => NetPartial MM fromY
  | .z => NetPartial MM fromZ

/-- the exclusion of `bearing_distance` for the classes that call it (the others exclude by throwing) -/
def Regular : Kind → Obs ℝ → Prop
  | .direction | .distance | .azimuth => fun o => ¬ hdist o < CUT
  | .angle => fun o => ¬ hdist o < CUT ∧ ¬ hdist2 o < CUT
  | _ => fun _ => True

/-! ### guarded blocks of pushes -/

theorem symEntry_block2 (name : Role → Coord → Unk) (b : Bool) (r : Role) (c1 c2 : Coord) (v1 v2 : ℝ) (u : Unk)
    (hb : name r c1 = u ∨ name r c2 = u → b = true) :
    symEntry name (if b = true then [(r, c1, v1), (r, c2, v2)] else []) u =
      (if name r c1 = u then v1 else 0) + (if name r c2 = u then v2 else 0) := by
  cases b
  · have h1 : ¬ name r c1 = u := fun h => by simpa using hb (Or.inl h)
    have h2 : ¬ name r c2 = u := fun h => by simpa using hb (Or.inr h)
    simp [h1, h2]
  · simp

theorem symEntry_block1 (name : Role → Coord → Unk) (b : Bool) (r : Role) (c1 : Coord) (v1 : ℝ) (u : Unk)
    (hb : name r c1 = u → b = true) :
    symEntry name (if b = true then [(r, c1, v1)] else []) u = (if name r c1 = u then v1 else 0) := by
  cases b
  · have h1 : ¬ name r c1 = u := fun h => by simpa using hb h
    simp [h1]
  · simp

theorem isFree_xy {σ : Net ℝ} {i : Nat} {c : Coord} {u : Unk} (hf : σ.isFree u = true)
    (h : (⟨i, .y⟩ : Unk) = u ∨ (⟨i, .x⟩ : Unk) = u) : (σ.pt i).free_xy = true := by
  rcases h with rfl | rfl <;> exact hf
theorem isFree_z {σ : Net ℝ} {i : Nat} {u : Unk} (hf : σ.isFree u = true)
    (h : (⟨i, .z⟩ : Unk) = u) : (σ.pt i).free_z = true := by
  subst h; exact hf
theorem isFree_x1 {σ : Net ℝ} {i : Nat} {u : Unk} (hf : σ.isFree u = true)
    (h : (⟨i, .x⟩ : Unk) = u) : (σ.pt i).free_xy = true := by
  subst h; exact hf
theorem isFree_y1 {σ : Net ℝ} {i : Nat} {u : Unk} (hf : σ.isFree u = true)
    (h : (⟨i, .y⟩ : Unk) = u) : (σ.pt i).free_xy = true := by
  subst h; exact hf

/-! ### every class: the sum of the pushes for the roles naming `u` is the derivative wrt `u` -/

theorem distance_row (σ : Net ℝ) (ob : NObs ℝ) (u : Unk) (fuel : Nat) (out : LinOut ℝ) (hf : σ.isFree u = true)
    (h : ¬ hdist (σ.view ob) < CUT) (hok : Gen.Lin.distance fuel (σ.view ob) = .ok out) :
    NetPartial MM hdist σ ob u (symEntry ob.name out.pushes u) := by
  have hd := (hdist_pos_of_not_cut h).ne'
  rw [distance_eq fuel _ h] at hok; injection hok with hok; subst hok
  refine (hdist_gen (fun t => (σ.bumpU u t).view ob) (σ.view ob) _ _ (dX_net σ ob u) (dY_net σ ob u) hd).congr_deriv ?_
  simp only [LinOut.pushes, pushes_append, pushes_ite, pushes_push, pushes_touch, pushes_nil, symEntry_append]
  rw [symEntry_block2 _ _ _ _ _ _ _ _ (isFree_xy (c := .x) hf), symEntry_block2 _ _ _ _ _ _ _ _ (isFree_xy (c := .x) hf)]
  obtain ⟨id, c⟩ := u
  cases c <;> simp only [NObs.name, Unk.mk.injEq, reduceCtorEq, and_false, and_true, if_false, VX, VY, ind, MM] <;>
    by_cases h1 : ob.pfrom = id <;> by_cases h2 : ob.pto = id <;> simp [h1, h2] <;> field_simp <;> ring

end Gama.Lin
