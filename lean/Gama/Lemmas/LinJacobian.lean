/-
  C05 — the assembled design matrix is the Jacobian.

  The network (`Net`) is moved along ONE unknown `u` — a coordinate of a point or the orientation of
  a stand-point — and every role of an observation that names that point moves with it
  (`Net.bumpU`).  For every class the sum of the coefficients pushed for the roles naming `u`
  (`symEntry`) is the derivative of the observation function; the derivative formulas of
  `LinReal.lean` are restated for arbitrary velocities of the difference vectors (`*_gen`), the
  velocities of a network unknown are the sums of the role velocities (`VX … VO`), and linearity
  does the rest.  No case distinction on which roles coincide is made anywhere.
-/
import Gama.Lemmas.LinAssemble
namespace Gama.Lin
open Real

/-! ### moving one unknown of the network -/

/-- add `h` to the coordinate `u.c` of the point `u.id` (metres), or to the orientation of the
    stand-point `u.id` (radians) -/
def Net.bump (σ : Net ℝ) (u : Unk) (h : ℝ) : Net ℝ :=
  match u.c with
  | .ori => { σ with ori := fun k => if k = u.id then σ.ori k + h else σ.ori k }
  | c => { σ with pt := fun i => if i = u.id then bumpPt (σ.pt i) c h else σ.pt i }

/-- the network after the unknown `u` received the correction `t` (mm / cc) -/
noncomputable def Net.bumpU (σ : Net ℝ) (u : Unk) (t : ℝ) : Net ℝ := σ.bump u (t / unitOf u.c)

/-- is `u` an adjusted unknown (free or constrained coordinate; an orientation always is) -/
def Net.isFree (σ : Net ℝ) (u : Unk) : Bool :=
  match u.c with
  | .ori => true
  | .z => (σ.pt u.id).free_z
  | _ => (σ.pt u.id).free_xy

noncomputable def ind (p : Prop) [Decidable p] : ℝ := if p then 1 else 0

/-- velocities of the difference vectors (m per mm, rad per cc) when the unknown `u` moves: the sum
    of the velocities of the roles that name `u` -/
noncomputable def VX (ob : NObs ℝ) (u : Unk) : ℝ := if u.c = .x then (ind (ob.pto = u.id) - ind (ob.pfrom = u.id)) / 1000 else 0
noncomputable def VY (ob : NObs ℝ) (u : Unk) : ℝ := if u.c = .y then (ind (ob.pto = u.id) - ind (ob.pfrom = u.id)) / 1000 else 0
noncomputable def VZ (ob : NObs ℝ) (u : Unk) : ℝ := if u.c = .z then (ind (ob.pto = u.id) - ind (ob.pfrom = u.id)) / 1000 else 0
noncomputable def VX2 (ob : NObs ℝ) (u : Unk) : ℝ := if u.c = .x then (ind (ob.pfs = u.id) - ind (ob.pfrom = u.id)) / 1000 else 0
noncomputable def VY2 (ob : NObs ℝ) (u : Unk) : ℝ := if u.c = .y then (ind (ob.pfs = u.id) - ind (ob.pfrom = u.id)) / 1000 else 0
noncomputable def VO (ob : NObs ℝ) (u : Unk) : ℝ := if u.c = .ori then ind (ob.sp = u.id) / R2CC else 0
noncomputable def VFX (ob : NObs ℝ) (u : Unk) : ℝ := if u.c = .x then ind (ob.pfrom = u.id) / 1000 else 0
noncomputable def VFY (ob : NObs ℝ) (u : Unk) : ℝ := if u.c = .y then ind (ob.pfrom = u.id) / 1000 else 0
noncomputable def VFZ (ob : NObs ℝ) (u : Unk) : ℝ := if u.c = .z then ind (ob.pfrom = u.id) / 1000 else 0

macro "net_vel" : tactic =>
  `(tactic| (
    rename_i σ ob u t
    obtain ⟨id, c⟩ := u
    cases c <;>
      simp only [Net.bumpU, Net.bump, Net.view, dX, dY, dZ, dX2, dY2, fromX, fromY, fromZ, bumpPt, VX, VY, VZ, VX2, VY2, VO,
        VFX, VFY, VFZ, ind, unitOf, MM, reduceCtorEq, if_false, if_true, zero_mul, add_zero] <;>
      (try (by_cases h1 : ob.pto = id <;> by_cases h2 : ob.pfrom = id <;> by_cases h3 : ob.pfs = id <;>
        by_cases h4 : ob.sp = id <;> simp [h1, h2, h3, h4] <;> ring))))

theorem dX_net (σ : Net ℝ) (ob : NObs ℝ) (u : Unk) (t : ℝ) : dX ((σ.bumpU u t).view ob) = dX (σ.view ob) + VX ob u * t := by net_vel
theorem dY_net (σ : Net ℝ) (ob : NObs ℝ) (u : Unk) (t : ℝ) : dY ((σ.bumpU u t).view ob) = dY (σ.view ob) + VY ob u * t := by net_vel
theorem dZ_net (σ : Net ℝ) (ob : NObs ℝ) (u : Unk) (t : ℝ) : dZ ((σ.bumpU u t).view ob) = dZ (σ.view ob) + VZ ob u * t := by net_vel
theorem dX2_net (σ : Net ℝ) (ob : NObs ℝ) (u : Unk) (t : ℝ) : dX2 ((σ.bumpU u t).view ob) = dX2 (σ.view ob) + VX2 ob u * t := by net_vel
theorem dY2_net (σ : Net ℝ) (ob : NObs ℝ) (u : Unk) (t : ℝ) : dY2 ((σ.bumpU u t).view ob) = dY2 (σ.view ob) + VY2 ob u * t := by net_vel
theorem fromX_net (σ : Net ℝ) (ob : NObs ℝ) (u : Unk) (t : ℝ) : fromX ((σ.bumpU u t).view ob) = fromX (σ.view ob) + VFX ob u * t := by net_vel
theorem fromY_net (σ : Net ℝ) (ob : NObs ℝ) (u : Unk) (t : ℝ) : fromY ((σ.bumpU u t).view ob) = fromY (σ.view ob) + VFY ob u * t := by net_vel
theorem fromZ_net (σ : Net ℝ) (ob : NObs ℝ) (u : Unk) (t : ℝ) : fromZ ((σ.bumpU u t).view ob) = fromZ (σ.view ob) + VFZ ob u * t := by net_vel
theorem ori_net (σ : Net ℝ) (ob : NObs ℝ) (u : Unk) (t : ℝ) :
    ((σ.bumpU u t).view ob).orientation = (σ.view ob).orientation + VO ob u * t := by net_vel
theorem xNorth_net (σ : Net ℝ) (ob : NObs ℝ) (u : Unk) (t : ℝ) : ((σ.bumpU u t).view ob).xNorth = (σ.view ob).xNorth := by
  obtain ⟨id, c⟩ := u; cases c <;> rfl
theorem value_net (σ : Net ℝ) (ob : NObs ℝ) (u : Unk) (t : ℝ) : ((σ.bumpU u t).view ob).value = (σ.view ob).value := by
  obtain ⟨id, c⟩ := u; cases c <;> rfl

/-! ### derivative formulas for arbitrary velocities of the difference vectors -/

theorem hdist_gen (m : ℝ → Obs ℝ) (o : Obs ℝ) (a b : ℝ) (hX : ∀ t, dX (m t) = dX o + a * t)
    (hY : ∀ t, dY (m t) = dY o + b * t) (h : hdist o ≠ 0) :
    HasDerivAt (fun t => MM * hdist (m t)) (MM * ((dX o * a + dY o * b) / hdist o)) 0 := by
  have := (hasDerivAt_norm2 (dX o) (dY o) a b (hdist_sq_ne h)).const_mul MM
  simpa only [hdist, hX, hY] using this

theorem sdist_gen (m : ℝ → Obs ℝ) (o : Obs ℝ) (a b c : ℝ) (hX : ∀ t, dX (m t) = dX o + a * t)
    (hY : ∀ t, dY (m t) = dY o + b * t) (hZ : ∀ t, dZ (m t) = dZ o + c * t) (h : sdist o ≠ 0) :
    HasDerivAt (fun t => MM * sdist (m t)) (MM * ((dX o * a + dY o * b + dZ o * c) / sdist o)) 0 := by
  have := (hasDerivAt_norm3 (dX o) (dY o) (dZ o) a b c (sdist_sq_ne h)).const_mul MM
  simpa only [sdist, hX, hY, hZ] using this

theorem bearing_gen (m : ℝ → Obs ℝ) (o : Obs ℝ) (a b : ℝ) (hX : ∀ t, dX (m t) = dX o + a * t)
    (hY : ∀ t, dY (m t) = dY o + b * t) (h : hdist o ≠ 0) (off : Obs ℝ → ℝ) (vo : ℝ)
    (hoff : ∀ t, off (m t) = off o + vo * t) :
    ∃ θ : ℝ → ℝ, θ 0 = brg (dX o) (dY o) ∧ (∀ t, IsPolarAngle (dX (m t)) (dY (m t)) (θ t)) ∧
      HasDerivAt (fun t => R2CC * (θ t - off (m t)))
        (R2CC * ((dX o * b - dY o * a) / (hdist o * hdist o) - vo)) 0 := by
  obtain ⟨θ, h0, hp, hd⟩ := exists_polar_lift (dX o) (dY o) a b (hdist_sq_ne h)
  refine ⟨θ, h0, ?_, ?_⟩
  · intro t; simpa only [hX, hY] using hp t
  · simp only [hoff]
    rw [hdist_mul_self]
    exact (hd.sub (hasDerivAt_line (off o) vo)).const_mul R2CC

theorem angle_gen (m : ℝ → Obs ℝ) (o : Obs ℝ) (a b a2 b2 : ℝ) (hX : ∀ t, dX (m t) = dX o + a * t)
    (hY : ∀ t, dY (m t) = dY o + b * t) (hX2 : ∀ t, dX2 (m t) = dX2 o + a2 * t)
    (hY2 : ∀ t, dY2 (m t) = dY2 o + b2 * t) (h : hdist o ≠ 0) (h' : hdist2 o ≠ 0) :
    ∃ θ₁ θ₂ : ℝ → ℝ, θ₁ 0 = brg (dX o) (dY o) ∧ θ₂ 0 = brg (dX2 o) (dY2 o) ∧
      (∀ t, IsPolarAngle (dX (m t)) (dY (m t)) (θ₁ t)) ∧ (∀ t, IsPolarAngle (dX2 (m t)) (dY2 (m t)) (θ₂ t)) ∧
      HasDerivAt (fun t => R2CC * (θ₂ t - θ₁ t))
        (R2CC * ((dX2 o * b2 - dY2 o * a2) / (hdist2 o * hdist2 o) - (dX o * b - dY o * a) / (hdist o * hdist o))) 0 := by
  obtain ⟨θ₁, a0, ap, ad⟩ := exists_polar_lift (dX o) (dY o) a b (hdist_sq_ne h)
  obtain ⟨θ₂, b0, bp, bd⟩ := exists_polar_lift (dX2 o) (dY2 o) a2 b2 (hdist2_sq_ne h')
  refine ⟨θ₁, θ₂, a0, b0, ?_, ?_, ?_⟩
  · intro t; simpa only [hX, hY] using ap t
  · intro t; simpa only [hX2, hY2] using bp t
  · rw [hdist_mul_self, hdist2_mul_self]
    exact (bd.sub ad).const_mul R2CC

theorem zenith_gen (m : ℝ → Obs ℝ) (o : Obs ℝ) (a b c : ℝ) (hX : ∀ t, dX (m t) = dX o + a * t)
    (hY : ∀ t, dY (m t) = dY o + b * t) (hZ : ∀ t, dZ (m t) = dZ o + c * t) (h : hdist o ≠ 0) :
    HasDerivAt (fun t => R2CC * zenith (m t))
      (R2CC * (-c / hdist o + dZ o * (dX o * a + dY o * b + dZ o * c) / (hdist o * (sdist o * sdist o)))) 0 := by
  have hs : sdist o ≠ 0 := sdist_ne_of_hdist_ne h
  have hdp : 0 < hdist o := lt_of_le_of_ne (hdist_nonneg o) (Ne.symm h)
  have hsp : 0 < sdist o := lt_of_le_of_ne (sdist_nonneg o) (Ne.symm hs)
  have hN := hasDerivAt_norm3 (dX o) (dY o) (dZ o) a b c (sdist_sq_ne hs)
  have hZ' := hasDerivAt_line (dZ o) c
  have hu := hZ'.div hN (by simpa [sdist] using hs)
  have hlt : dZ o * dZ o < sdist o * sdist o := by rw [sdist_sq_eq]; nlinarith [mul_pos hdp hdp]
  have habs : |dZ o| < sdist o := abs_lt_of_sq_lt_sq' (by simpa [sq] using hlt) hsp.le |> fun ⟨a, b⟩ => abs_lt.mpr ⟨a, b⟩
  have hu0 : (dZ o + c * 0) / Real.sqrt ((dX o + a * 0) * (dX o + a * 0) +
      (dY o + b * 0) * (dY o + b * 0) + (dZ o + c * 0) * (dZ o + c * 0)) = dZ o / sdist o := by
    simp [sdist]
  have h1 : dZ o / sdist o ≠ -1 := by
    intro e; rw [div_eq_iff hs] at e; have := abs_lt.mp habs; linarith
  have h2 : dZ o / sdist o ≠ 1 := by
    intro e; rw [div_eq_iff hs] at e; have := abs_lt.mp habs; linarith
  have hac := (Real.hasDerivAt_arccos (x := dZ o / sdist o) h1 h2)
  have hcomp := (hu0 ▸ hac).comp (0:ℝ) hu
  have hsqrt : Real.sqrt (1 - (dZ o / sdist o) ^ 2) = hdist o / sdist o := by
    have : 1 - (dZ o / sdist o) ^ 2 = (hdist o / sdist o) ^ 2 := by
      field_simp
      have := sdist_sq_eq o
      nlinarith
    rw [this, Real.sqrt_sq (div_nonneg hdp.le hsp.le)]
  have hfin := hcomp.const_mul R2CC
  have hfun : (fun t => R2CC * zenith (m t)) =
      fun t => R2CC * (Real.arccos ∘ fun t => (dZ o + c * t) / Real.sqrt ((dX o + a * t) * (dX o + a * t) +
      (dY o + b * t) * (dY o + b * t) + (dZ o + c * t) * (dZ o + c * t))) t := by
    funext t
    simp only [zenith, sdist, hX, hY, hZ, Function.comp]
  rw [hfun]
  refine hfin.congr_deriv ?_
  simp only [mul_zero, add_zero]
  have e3 : Real.sqrt (dX o * dX o + dY o * dY o + dZ o * dZ o) = sdist o := rfl
  rw [e3, hsqrt]
  have hss := sdist_sq_eq o
  field_simp
  nlinarith [hss]

theorem zenithComputed_gen (m : ℝ → Obs ℝ) (o : Obs ℝ) (v : ℝ) (hv : ∀ t, (m t).value = o.value)
    (h : HasDerivAt (fun t => R2CC * zenith (m t)) v 0) :
    HasDerivAt (fun t => R2CC * zenithComputed (m t)) (zsign o * v) 0 := by
  by_cases hp : π < o.value
  · have e : (fun t => R2CC * zenithComputed (m t)) = fun t => R2CC * (2 * π) - R2CC * zenith (m t) := by
      funext t; simp [zenithComputed, hv, hp]; ring
    rw [e]
    simpa [zsign, hp] using h.const_sub (R2CC * (2 * π))
  · simpa [zenithComputed, hv, hp, zsign] using h

theorem affine_gen (F : Obs ℝ → ℝ) (m : ℝ → Obs ℝ) (o : Obs ℝ) (v : ℝ) (hF : ∀ t, F (m t) = F o + v * t) :
    HasDerivAt (fun t => MM * F (m t)) (MM * v) 0 := by
  simp only [hF]
  exact (hasDerivAt_line (F o) v).const_mul MM

/-! ### the statement: derivative of a row wrt an unknown of the network -/

/-- `v` = ∂(unit · F(row))/∂u at the linearisation point, `u` any unknown of the network -/
def NetPartial (unit : ℝ) (F : Obs ℝ → ℝ) (σ : Net ℝ) (ob : NObs ℝ) (u : Unk) (v : ℝ) : Prop :=
  HasDerivAt (fun t => unit * F ((σ.bumpU u t).view ob)) v 0

/-- the same for `θ(from → to) − off` with any differentiable polar angle `θ` starting at the code's bearing -/
def NetPartialBearing (off : Obs ℝ → ℝ) (σ : Net ℝ) (ob : NObs ℝ) (u : Unk) (v : ℝ) : Prop :=
  ∃ θ : ℝ → ℝ, θ 0 = brg (dX (σ.view ob)) (dY (σ.view ob)) ∧
    (∀ t, IsPolarAngle (dX ((σ.bumpU u t).view ob)) (dY ((σ.bumpU u t).view ob)) (θ t)) ∧
    HasDerivAt (fun t => R2CC * (θ t - off ((σ.bumpU u t).view ob))) v 0

/-- the same for the angle `θ₂(from → fs) − θ₁(from → bs)` -/
def NetPartialAngle (σ : Net ℝ) (ob : NObs ℝ) (u : Unk) (v : ℝ) : Prop :=
  ∃ θ₁ θ₂ : ℝ → ℝ, θ₁ 0 = brg (dX (σ.view ob)) (dY (σ.view ob)) ∧ θ₂ 0 = brg (dX2 (σ.view ob)) (dY2 (σ.view ob)) ∧
    (∀ t, IsPolarAngle (dX ((σ.bumpU u t).view ob)) (dY ((σ.bumpU u t).view ob)) (θ₁ t)) ∧
    (∀ t, IsPolarAngle (dX2 ((σ.bumpU u t).view ob)) (dY2 ((σ.bumpU u t).view ob)) (θ₂ t)) ∧
    HasDerivAt (fun t => R2CC * (θ₂ t - θ₁ t)) v 0

/-- "`v` is the partial derivative of the observation function of a row of class `k` wrt the
    unknown `u`, in gama's units" -/
def RowDeriv : Kind → Net ℝ → NObs ℝ → Unk → ℝ → Prop
  | .direction => NetPartialBearing (fun o => o.orientation)
  | .azimuth => NetPartialBearing (fun o => o.xNorth)
  | .distance => NetPartial MM hdist
  | .angle => NetPartialAngle
  | .s_distance => NetPartial MM sdist
  | .z_angle => NetPartial R2CC zenithComputed
  | .h_diff => NetPartial MM dZ
  | .zdiff => NetPartial MM dZ
  | .xdiff => NetPartial MM dX
  | .ydiff => NetPartial MM dY
  | .x => NetPartial MM fromX
  | .y => NetPartial MM fromY
  | .z => NetPartial MM fromZ

/-- the exclusion of `bearing_distance` for the classes that call it (the others exclude by throwing) -/
def Regular : Kind → Obs ℝ → Prop
  | .direction | .distance | .azimuth => fun o => ¬ hdist o < CUT
  | .angle => fun o => ¬ hdist o < CUT ∧ ¬ hdist2 o < CUT
  | _ => fun _ => True

/-! ### guarded blocks of pushes -/

theorem symEntry_block2 (name : Role → Coord → Unk) (b : Bool) (r : Role) (c1 c2 : Coord) (v1 v2 : ℝ) (u : Unk)
    (hb : name r c1 = u ∨ name r c2 = u → b = true) :
    symEntry name (if b = true then [(r, c1, v1), (r, c2, v2)] else []) u =
      (if name r c1 = u then v1 else 0) + (if name r c2 = u then v2 else 0) := by
  cases b
  · have h1 : ¬ name r c1 = u := fun h => by simpa using hb (Or.inl h)
    have h2 : ¬ name r c2 = u := fun h => by simpa using hb (Or.inr h)
    simp [h1, h2]
  · simp

theorem symEntry_block1 (name : Role → Coord → Unk) (b : Bool) (r : Role) (c1 : Coord) (v1 : ℝ) (u : Unk)
    (hb : name r c1 = u → b = true) :
    symEntry name (if b = true then [(r, c1, v1)] else []) u = (if name r c1 = u then v1 else 0) := by
  cases b
  · have h1 : ¬ name r c1 = u := fun h => by simpa using hb h
    simp [h1]
  · simp

theorem isFree_xy {σ : Net ℝ} {i : Nat} {c : Coord} {u : Unk} (hf : σ.isFree u = true)
    (h : (⟨i, .y⟩ : Unk) = u ∨ (⟨i, .x⟩ : Unk) = u) : (σ.pt i).free_xy = true := by
  rcases h with rfl | rfl <;> exact hf
theorem isFree_z {σ : Net ℝ} {i : Nat} {u : Unk} (hf : σ.isFree u = true)
    (h : (⟨i, .z⟩ : Unk) = u) : (σ.pt i).free_z = true := by
  subst h; exact hf
theorem isFree_x1 {σ : Net ℝ} {i : Nat} {u : Unk} (hf : σ.isFree u = true)
    (h : (⟨i, .x⟩ : Unk) = u) : (σ.pt i).free_xy = true := by
  subst h; exact hf
theorem isFree_y1 {σ : Net ℝ} {i : Nat} {u : Unk} (hf : σ.isFree u = true)
    (h : (⟨i, .y⟩ : Unk) = u) : (σ.pt i).free_xy = true := by
  subst h; exact hf

/-! ### every class: the sum of the pushes for the roles naming `u` is the derivative wrt `u` -/

theorem distance_row (σ : Net ℝ) (ob : NObs ℝ) (u : Unk) (fuel : Nat) (out : LinOut ℝ) (hf : σ.isFree u = true)
    (h : ¬ hdist (σ.view ob) < CUT) (hok : Gen.Lin.distance fuel (σ.view ob) = .ok out) :
    NetPartial MM hdist σ ob u (symEntry ob.name out.pushes u) := by
  have hd := (hdist_pos_of_not_cut h).ne'
  rw [distance_eq fuel _ h] at hok; injection hok with hok; subst hok
  refine (hdist_gen (fun t => (σ.bumpU u t).view ob) (σ.view ob) _ _ (dX_net σ ob u) (dY_net σ ob u) hd).congr_deriv ?_
  simp only [LinOut.pushes, pushes_append, pushes_ite, pushes_push, pushes_touch, pushes_nil, symEntry_append]
  rw [symEntry_block2 _ _ _ _ _ _ _ _ (isFree_xy (c := .x) hf), symEntry_block2 _ _ _ _ _ _ _ _ (isFree_xy (c := .x) hf)]
  obtain ⟨id, c⟩ := u
  cases c <;> simp only [NObs.name, Unk.mk.injEq, reduceCtorEq, and_false, and_true, if_false, VX, VY, ind, MM] <;>
    by_cases h1 : ob.pfrom = id <;> by_cases h2 : ob.pto = id <;> simp [h1, h2] <;> field_simp <;> ring

theorem direction_row (σ : Net ℝ) (ob : NObs ℝ) (u : Unk) (fuel : Nat) (out : LinOut ℝ) (hf : σ.isFree u = true)
    (h : ¬ hdist (σ.view ob) < CUT) (hok : Gen.Lin.direction fuel (σ.view ob) = .ok out) :
    NetPartialBearing (fun o => o.orientation) σ ob u (symEntry ob.name out.pushes u) := by
  have hd := (hdist_pos_of_not_cut h).ne'
  have hpi : π ≠ 0 := Real.pi_ne_zero
  have he := (direction_ok fuel _ out h hok).2
  obtain ⟨θ, h0, hp, hder⟩ := bearing_gen (fun t => (σ.bumpU u t).view ob) (σ.view ob) _ _ (dX_net σ ob u) (dY_net σ ob u) hd
    (fun o => o.orientation) _ (ori_net σ ob u)
  refine ⟨θ, h0, hp, hder.congr_deriv ?_⟩
  unfold LinOut.pushes; rw [he]; unfold directionEvs
  simp only [pushes_append, pushes_ite, pushes_push, pushes_touch, pushes_nil, symEntry_append, symEntry_cons, symEntry_nil]
  rw [symEntry_block2 _ _ _ _ _ _ _ _ (isFree_xy (c := .x) hf), symEntry_block2 _ _ _ _ _ _ _ _ (isFree_xy (c := .x) hf)]
  obtain ⟨id, c⟩ := u
  cases c <;> simp only [NObs.name, Unk.mk.injEq, reduceCtorEq, and_false, and_true, if_false, VX, VY, VO, ind, KF, R2CC] <;>
    by_cases h1 : ob.pfrom = id <;> by_cases h2 : ob.pto = id <;> by_cases h3 : ob.sp = id <;>
    simp [h1, h2, h3] <;> field_simp <;> ring

theorem azimuth_row (σ : Net ℝ) (ob : NObs ℝ) (u : Unk) (fuel : Nat) (out : LinOut ℝ) (hf : σ.isFree u = true)
    (h : ¬ hdist (σ.view ob) < CUT) (hok : Gen.Lin.azimuth fuel (σ.view ob) = .ok out) :
    NetPartialBearing (fun o => o.xNorth) σ ob u (symEntry ob.name out.pushes u) := by
  have hd := (hdist_pos_of_not_cut h).ne'
  have hpi : π ≠ 0 := Real.pi_ne_zero
  have he := (azimuth_ok fuel _ out h hok).2
  obtain ⟨θ, h0, hp, hder⟩ := bearing_gen (fun t => (σ.bumpU u t).view ob) (σ.view ob) _ _ (dX_net σ ob u) (dY_net σ ob u) hd
    (fun o => o.xNorth) 0 (by intro t; simp [xNorth_net])
  refine ⟨θ, h0, hp, hder.congr_deriv ?_⟩
  unfold LinOut.pushes; rw [he]; unfold azimuthEvs
  simp only [pushes_append, pushes_ite, pushes_push, pushes_touch, pushes_nil, symEntry_append, symEntry_cons, symEntry_nil]
  rw [symEntry_block2 _ _ _ _ _ _ _ _ (isFree_xy (c := .x) hf), symEntry_block2 _ _ _ _ _ _ _ _ (isFree_xy (c := .x) hf)]
  obtain ⟨id, c⟩ := u
  cases c <;> simp only [NObs.name, Unk.mk.injEq, reduceCtorEq, and_false, and_true, if_false, VX, VY, ind, KF, R2CC] <;>
    by_cases h1 : ob.pfrom = id <;> by_cases h2 : ob.pto = id <;>
    simp [h1, h2] <;> field_simp <;> ring

theorem angle_row (σ : Net ℝ) (ob : NObs ℝ) (u : Unk) (fuel : Nat) (out : LinOut ℝ) (hf : σ.isFree u = true)
    (h : ¬ hdist (σ.view ob) < CUT) (h' : ¬ hdist2 (σ.view ob) < CUT) (hok : Gen.Lin.angle fuel (σ.view ob) = .ok out) :
    NetPartialAngle σ ob u (symEntry ob.name out.pushes u) := by
  have hd := (hdist_pos_of_not_cut h).ne'
  have hd2 := (hdist2_pos_of_not_cut h').ne'
  have hpi : π ≠ 0 := Real.pi_ne_zero
  have he := (angle_ok fuel _ out h h' hok).2
  obtain ⟨θ₁, θ₂, a0, b0, ap, bp, hder⟩ := angle_gen (fun t => (σ.bumpU u t).view ob) (σ.view ob) _ _ _ _
    (dX_net σ ob u) (dY_net σ ob u) (dX2_net σ ob u) (dY2_net σ ob u) hd hd2
  refine ⟨θ₁, θ₂, a0, b0, ap, bp, hder.congr_deriv ?_⟩
  unfold LinOut.pushes; rw [he]; unfold angleEvs
  simp only [pushes_append, pushes_ite, pushes_push, pushes_touch, pushes_nil, symEntry_append, symEntry_cons, symEntry_nil]
  rw [symEntry_block2 _ _ _ _ _ _ _ _ (isFree_xy (c := .x) hf), symEntry_block2 _ _ _ _ _ _ _ _ (isFree_xy (c := .x) hf),
    symEntry_block2 _ _ _ _ _ _ _ _ (isFree_xy (c := .x) hf)]
  obtain ⟨id, c⟩ := u
  cases c <;> simp only [NObs.name, Unk.mk.injEq, reduceCtorEq, and_false, and_true, if_false, VX, VY, VX2, VY2, ind, KF, R2CC] <;>
    by_cases h1 : ob.pfrom = id <;> by_cases h2 : ob.pto = id <;> by_cases h3 : ob.pfs = id <;>
    simp [h1, h2, h3] <;> field_simp <;> ring

theorem s_distance_row (σ : Net ℝ) (ob : NObs ℝ) (u : Unk) (fuel : Nat) (out : LinOut ℝ) (hf : σ.isFree u = true)
    (hok : Gen.Lin.s_distance fuel (σ.view ob) = .ok out) :
    NetPartial MM sdist σ ob u (symEntry ob.name out.pushes u) := by
  rw [s_distance_eq] at hok
  split at hok
  · exact absurd hok (by simp)
  · rename_i hs
    injection hok with hok; subst hok
    refine (sdist_gen (fun t => (σ.bumpU u t).view ob) (σ.view ob) _ _ _ (dX_net σ ob u) (dY_net σ ob u) (dZ_net σ ob u) hs).congr_deriv ?_
    unfold LinOut.pushes sdistEvs
    simp only [pushes_append, pushes_ite, pushes_push, pushes_touch, pushes_nil, symEntry_append]
    rw [symEntry_block2 _ _ _ _ _ _ _ _ (isFree_xy (c := .x) hf), symEntry_block2 _ _ _ _ _ _ _ _ (isFree_xy (c := .x) hf),
      symEntry_block1 _ _ _ _ _ _ (isFree_z hf), symEntry_block1 _ _ _ _ _ _ (isFree_z hf)]
    obtain ⟨id, c⟩ := u
    cases c <;> simp only [NObs.name, Unk.mk.injEq, reduceCtorEq, and_false, and_true, if_false, VX, VY, VZ, ind, MM] <;>
      by_cases h1 : ob.pfrom = id <;> by_cases h2 : ob.pto = id <;> simp [h1, h2] <;> field_simp <;> ring

theorem z_angle_row (σ : Net ℝ) (ob : NObs ℝ) (u : Unk) (fuel : Nat) (out : LinOut ℝ) (hf : σ.isFree u = true)
    (hok : Gen.Lin.z_angle fuel (σ.view ob) = .ok out) :
    NetPartial R2CC zenithComputed σ ob u (symEntry ob.name out.pushes u) := by
  rw [z_angle_eq] at hok
  split at hok
  · exact absurd hok (by simp)
  · rename_i hs
    push Not at hs
    injection hok with hok; subst hok
    have hpi : π ≠ 0 := Real.pi_ne_zero
    have hss := sdist_sq_eq (σ.view ob)
    have hsd := hs.2
    have hhd := hs.1
    have hz := zenith_gen (fun t => (σ.bumpU u t).view ob) (σ.view ob) _ _ _ (dX_net σ ob u) (dY_net σ ob u) (dZ_net σ ob u) hs.1
    refine (zenithComputed_gen (fun t => (σ.bumpU u t).view ob) (σ.view ob) _ (value_net σ ob u) hz).congr_deriv ?_
    unfold LinOut.pushes zangleEvs
    simp only [pushes_append, pushes_ite, pushes_push, pushes_touch, pushes_nil, symEntry_append]
    rw [symEntry_block2 _ _ _ _ _ _ _ _ (isFree_xy (c := .x) hf), symEntry_block2 _ _ _ _ _ _ _ _ (isFree_xy (c := .x) hf),
      symEntry_block1 _ _ _ _ _ _ (isFree_z hf), symEntry_block1 _ _ _ _ _ _ (isFree_z hf)]
    obtain ⟨id, c⟩ := u
    cases c <;> simp only [NObs.name, Unk.mk.injEq, reduceCtorEq, and_false, and_true, if_false, VX, VY, VZ, ind, KZ, R2CC] <;>
      by_cases h1 : ob.pfrom = id <;> by_cases h2 : ob.pto = id <;> simp [h1, h2] <;> (try field_simp) <;>
      first
      | ring1
      | (left; trivial)
      | (left; linear_combination (2000000 : ℝ) * hss)
      | linear_combination (-(2000000 : ℝ) * zsign (σ.view ob)) * hss
      | linear_combination ((2000000 : ℝ) * zsign (σ.view ob)) * hss
      | (left; ring1)
      | nlinarith [hss]

theorem h_diff_row (σ : Net ℝ) (ob : NObs ℝ) (u : Unk) (fuel : Nat) (out : LinOut ℝ) (hf : σ.isFree u = true)
    (hok : Gen.Lin.h_diff fuel (σ.view ob) = .ok out) :
    NetPartial MM dZ σ ob u (symEntry ob.name out.pushes u) := by
  rw [h_diff_eq fuel] at hok; injection hok with hok; subst hok
  refine (affine_gen dZ (fun t => (σ.bumpU u t).view ob) (σ.view ob) _ (dZ_net σ ob u)).congr_deriv ?_
  simp only [LinOut.pushes, pushes_append, pushes_ite, pushes_push, pushes_touch, pushes_nil, symEntry_append]
  rw [symEntry_block1 _ _ _ _ _ _ (isFree_z hf), symEntry_block1 _ _ _ _ _ _ (isFree_z hf)]
  obtain ⟨id, c⟩ := u
  cases c <;> simp only [NObs.name, Unk.mk.injEq, reduceCtorEq, and_false, and_true, if_false, VZ, ind, MM] <;>
    by_cases h1 : ob.pfrom = id <;> by_cases h2 : ob.pto = id <;> simp [h1, h2] <;> ring

theorem zdiff_row (σ : Net ℝ) (ob : NObs ℝ) (u : Unk) (fuel : Nat) (out : LinOut ℝ) (hf : σ.isFree u = true)
    (hok : Gen.Lin.zdiff fuel (σ.view ob) = .ok out) :
    NetPartial MM dZ σ ob u (symEntry ob.name out.pushes u) := by
  rw [zdiff_eq fuel] at hok; injection hok with hok; subst hok
  refine (affine_gen dZ (fun t => (σ.bumpU u t).view ob) (σ.view ob) _ (dZ_net σ ob u)).congr_deriv ?_
  simp only [LinOut.pushes, pushes_append, pushes_ite, pushes_push, pushes_touch, pushes_nil, symEntry_append]
  rw [symEntry_block1 _ _ _ _ _ _ (isFree_z hf), symEntry_block1 _ _ _ _ _ _ (isFree_z hf)]
  obtain ⟨id, c⟩ := u
  cases c <;> simp only [NObs.name, Unk.mk.injEq, reduceCtorEq, and_false, and_true, if_false, VZ, ind, MM] <;>
    by_cases h1 : ob.pfrom = id <;> by_cases h2 : ob.pto = id <;> simp [h1, h2] <;> ring

theorem xdiff_row (σ : Net ℝ) (ob : NObs ℝ) (u : Unk) (fuel : Nat) (out : LinOut ℝ) (hf : σ.isFree u = true)
    (hok : Gen.Lin.xdiff fuel (σ.view ob) = .ok out) :
    NetPartial MM dX σ ob u (symEntry ob.name out.pushes u) := by
  rw [xdiff_eq fuel] at hok; injection hok with hok; subst hok
  refine (affine_gen dX (fun t => (σ.bumpU u t).view ob) (σ.view ob) _ (dX_net σ ob u)).congr_deriv ?_
  simp only [LinOut.pushes, pushes_append, pushes_ite, pushes_push, pushes_touch, pushes_nil, symEntry_append]
  rw [symEntry_block1 _ _ _ _ _ _ (isFree_x1 hf), symEntry_block1 _ _ _ _ _ _ (isFree_x1 hf)]
  obtain ⟨id, c⟩ := u
  cases c <;> simp only [NObs.name, Unk.mk.injEq, reduceCtorEq, and_false, and_true, if_false, VX, ind, MM] <;>
    by_cases h1 : ob.pfrom = id <;> by_cases h2 : ob.pto = id <;> simp [h1, h2] <;> ring

theorem ydiff_row (σ : Net ℝ) (ob : NObs ℝ) (u : Unk) (fuel : Nat) (out : LinOut ℝ) (hf : σ.isFree u = true)
    (hok : Gen.Lin.ydiff fuel (σ.view ob) = .ok out) :
    NetPartial MM dY σ ob u (symEntry ob.name out.pushes u) := by
  rw [ydiff_eq fuel] at hok; injection hok with hok; subst hok
  refine (affine_gen dY (fun t => (σ.bumpU u t).view ob) (σ.view ob) _ (dY_net σ ob u)).congr_deriv ?_
  simp only [LinOut.pushes, pushes_append, pushes_ite, pushes_push, pushes_touch, pushes_nil, symEntry_append]
  rw [symEntry_block1 _ _ _ _ _ _ (isFree_y1 hf), symEntry_block1 _ _ _ _ _ _ (isFree_y1 hf)]
  obtain ⟨id, c⟩ := u
  cases c <;> simp only [NObs.name, Unk.mk.injEq, reduceCtorEq, and_false, and_true, if_false, VY, ind, MM] <;>
    by_cases h1 : ob.pfrom = id <;> by_cases h2 : ob.pto = id <;> simp [h1, h2] <;> ring

theorem x_row (σ : Net ℝ) (ob : NObs ℝ) (u : Unk) (fuel : Nat) (out : LinOut ℝ) (hf : σ.isFree u = true)
    (hok : Gen.Lin.x fuel (σ.view ob) = .ok out) :
    NetPartial MM fromX σ ob u (symEntry ob.name out.pushes u) := by
  rw [x_eq fuel] at hok; injection hok with hok; subst hok
  refine (affine_gen fromX (fun t => (σ.bumpU u t).view ob) (σ.view ob) _ (fromX_net σ ob u)).congr_deriv ?_
  simp only [LinOut.pushes, pushes_append, pushes_ite, pushes_push, pushes_touch, pushes_nil, symEntry_append]
  rw [symEntry_block1 _ _ _ _ _ _ (isFree_x1 hf)]
  obtain ⟨id, c⟩ := u
  cases c <;> simp only [NObs.name, Unk.mk.injEq, reduceCtorEq, and_false, and_true, if_false, VFX, ind, MM] <;>
    by_cases h1 : ob.pfrom = id <;> simp [h1]

theorem y_row (σ : Net ℝ) (ob : NObs ℝ) (u : Unk) (fuel : Nat) (out : LinOut ℝ) (hf : σ.isFree u = true)
    (hok : Gen.Lin.y fuel (σ.view ob) = .ok out) :
    NetPartial MM fromY σ ob u (symEntry ob.name out.pushes u) := by
  rw [y_eq fuel] at hok; injection hok with hok; subst hok
  refine (affine_gen fromY (fun t => (σ.bumpU u t).view ob) (σ.view ob) _ (fromY_net σ ob u)).congr_deriv ?_
  simp only [LinOut.pushes, pushes_append, pushes_ite, pushes_push, pushes_touch, pushes_nil, symEntry_append]
  rw [symEntry_block1 _ _ _ _ _ _ (isFree_y1 hf)]
  obtain ⟨id, c⟩ := u
  cases c <;> simp only [NObs.name, Unk.mk.injEq, reduceCtorEq, and_false, and_true, if_false, VFY, ind, MM] <;>
    by_cases h1 : ob.pfrom = id <;> simp [h1]

theorem z_row (σ : Net ℝ) (ob : NObs ℝ) (u : Unk) (fuel : Nat) (out : LinOut ℝ) (hf : σ.isFree u = true)
    (hok : Gen.Lin.z fuel (σ.view ob) = .ok out) :
    NetPartial MM fromZ σ ob u (symEntry ob.name out.pushes u) := by
  rw [z_eq fuel] at hok; injection hok with hok; subst hok
  refine (affine_gen fromZ (fun t => (σ.bumpU u t).view ob) (σ.view ob) _ (fromZ_net σ ob u)).congr_deriv ?_
  simp only [LinOut.pushes, pushes_append, pushes_ite, pushes_push, pushes_touch, pushes_nil, symEntry_append]
  rw [symEntry_block1 _ _ _ _ _ _ (isFree_z hf)]
  obtain ⟨id, c⟩ := u
  cases c <;> simp only [NObs.name, Unk.mk.injEq, reduceCtorEq, and_false, and_true, if_false, VFZ, ind, MM] <;>
    by_cases h1 : ob.pfrom = id <;> simp [h1]

/-! ### the shape of the event lists: which unknowns are referred to -/

/-- the (role, coordinate) pairs the member function of a class refers to, in push order -/
def Kind.roles : Kind → List (Role × Coord)
  | .direction => [(.station, .ori), (.pfrom, .y), (.pfrom, .x), (.pto, .y), (.pto, .x)]
  | .distance | .azimuth => [(.pfrom, .y), (.pfrom, .x), (.pto, .y), (.pto, .x)]
  | .angle => [(.pfrom, .y), (.pfrom, .x), (.pto, .y), (.pto, .x), (.pfs, .y), (.pfs, .x)]
  | .s_distance | .z_angle => [(.pfrom, .y), (.pfrom, .x), (.pfrom, .z), (.pto, .y), (.pto, .x), (.pto, .z)]
  | .h_diff | .zdiff => [(.pfrom, .z), (.pto, .z)]
  | .xdiff => [(.pfrom, .x), (.pto, .x)]
  | .ydiff => [(.pfrom, .y), (.pto, .y)]
  | .x => [(.pfrom, .x)]
  | .y => [(.pfrom, .y)]
  | .z => [(.pfrom, .z)]

def evRC {K : Type} : Ev K → Role × Coord
  | .touch r c => (r, c)
  | .push r c _ => (r, c)

/-- what is used of the shape of an event list: pushes follow touches, the unknowns touched are
    exactly the adjusted ones among the roles of the class, nothing else is mentioned -/
structure EvShape (k : Kind) (o : Obs ℝ) (evs : List (Ev ℝ)) : Prop where
  wt : wellTouched evs [] = true
  touched : ∀ rc, rc ∈ touches evs ↔ (rc ∈ k.roles ∧ freeAt o rc = true)
  free : ∀ e ∈ evs, freeAt o (evRC e) = true

theorem mem_ite_list {α : Type} (b : Bool) (l : List α) (x : α) :
    x ∈ (if b = true then l else []) ↔ (b = true ∧ x ∈ l) := by
  cases b <;> simp

theorem forall_mem_ite_list {α : Type} (b : Bool) (l : List α) (P : α → Prop) :
    (∀ x ∈ (if b = true then l else []), P x) ↔ (b = true → ∀ x ∈ l, P x) := by
  cases b <;> simp

theorem shape_2xy (k : Kind) (o : Obs ℝ) (hk : k.roles = [(.pfrom, .y), (.pfrom, .x), (.pto, .y), (.pto, .x)]) (a1 a2 b1 b2 : ℝ) :
    EvShape k o ((if o.pfrom.free_xy then [Ev.touch .pfrom .x, Ev.touch .pfrom .y, Ev.push .pfrom .y a1, Ev.push .pfrom .x a2] else []) ++
      (if o.pto.free_xy then [Ev.touch .pto .x, Ev.touch .pto .y, Ev.push .pto .y b1, Ev.push .pto .x b2] else [])) := by
  refine ⟨?_, ?_, ?_⟩
  · cases o.pfrom.free_xy <;> cases o.pto.free_xy <;> simp [wellTouched]
  · rintro ⟨r, c⟩
    rw [hk]
    simp only [touches_append, touches_ite, touches_touch, touches_push, touches_nil, List.mem_append, mem_ite_list]
    cases r <;> cases c <;> simp [freeAt, Obs.pt]
  · simp only [List.forall_mem_append, forall_mem_ite_list, List.forall_mem_cons]
    simp [evRC, freeAt, Obs.pt]

theorem shape_dir (o : Obs ℝ) (c0 a1 a2 b1 b2 : ℝ) :
    EvShape .direction o ([Ev.touch .station .ori] ++ [Ev.push .station .ori c0] ++
      (if o.pfrom.free_xy then [Ev.touch .pfrom .x, Ev.touch .pfrom .y, Ev.push .pfrom .y a1, Ev.push .pfrom .x a2] else []) ++
      (if o.pto.free_xy then [Ev.touch .pto .x, Ev.touch .pto .y, Ev.push .pto .y b1, Ev.push .pto .x b2] else [])) := by
  refine ⟨?_, ?_, ?_⟩
  · cases o.pfrom.free_xy <;> cases o.pto.free_xy <;> simp [wellTouched]
  · rintro ⟨r, c⟩
    simp only [touches_append, touches_ite, touches_touch, touches_push, touches_nil, List.mem_append, mem_ite_list]
    cases r <;> cases c <;> simp [Kind.roles, freeAt, Obs.pt]
  · simp only [List.forall_mem_append, forall_mem_ite_list, List.forall_mem_cons]
    simp [evRC, freeAt, Obs.pt]

theorem shape_3xy (o : Obs ℝ) (a1 a2 b1 b2 c1 c2 : ℝ) :
    EvShape .angle o ((if o.pfrom.free_xy then [Ev.touch .pfrom .x, Ev.touch .pfrom .y, Ev.push .pfrom .y a1, Ev.push .pfrom .x a2] else []) ++
      (if o.pto.free_xy then [Ev.touch .pto .x, Ev.touch .pto .y, Ev.push .pto .y b1, Ev.push .pto .x b2] else []) ++
      (if o.pfs.free_xy then [Ev.touch .pfs .x, Ev.touch .pfs .y, Ev.push .pfs .y c1, Ev.push .pfs .x c2] else [])) := by
  refine ⟨?_, ?_, ?_⟩
  · cases o.pfrom.free_xy <;> cases o.pto.free_xy <;> cases o.pfs.free_xy <;> simp [wellTouched]
  · rintro ⟨r, c⟩
    simp only [touches_append, touches_ite, touches_touch, touches_push, touches_nil, List.mem_append, mem_ite_list]
    cases r <;> cases c <;> simp [Kind.roles, freeAt, Obs.pt]
  · simp only [List.forall_mem_append, forall_mem_ite_list, List.forall_mem_cons]
    simp [evRC, freeAt, Obs.pt]

theorem shape_xyz2 (k : Kind) (o : Obs ℝ)
    (hk : k.roles = [(.pfrom, .y), (.pfrom, .x), (.pfrom, .z), (.pto, .y), (.pto, .x), (.pto, .z)]) (a1 a2 a3 b1 b2 b3 : ℝ) :
    EvShape k o ((if o.pfrom.free_xy then [Ev.touch .pfrom .x, Ev.touch .pfrom .y, Ev.push .pfrom .y a1, Ev.push .pfrom .x a2] else []) ++
      (if o.pfrom.free_z then [Ev.touch .pfrom .z, Ev.push .pfrom .z a3] else []) ++
      (if o.pto.free_xy then [Ev.touch .pto .x, Ev.touch .pto .y, Ev.push .pto .y b1, Ev.push .pto .x b2] else []) ++
      (if o.pto.free_z then [Ev.touch .pto .z, Ev.push .pto .z b3] else [])) := by
  refine ⟨?_, ?_, ?_⟩
  · cases o.pfrom.free_xy <;> cases o.pto.free_xy <;> cases o.pfrom.free_z <;> cases o.pto.free_z <;> simp [wellTouched]
  · rintro ⟨r, c⟩
    rw [hk]
    simp only [touches_append, touches_ite, touches_touch, touches_push, touches_nil, List.mem_append, mem_ite_list]
    cases r <;> cases c <;> simp [freeAt, Obs.pt]
  · simp only [List.forall_mem_append, forall_mem_ite_list, List.forall_mem_cons]
    simp [evRC, freeAt, Obs.pt]

theorem shape_two (k : Kind) (o : Obs ℝ) (c : Coord) (hc : c ≠ .ori) (hk : k.roles = [(.pfrom, c), (.pto, c)]) (a b : ℝ) :
    EvShape k o ((if freeAt o (.pfrom, c) then [Ev.touch .pfrom c, Ev.push .pfrom c a] else []) ++
      (if freeAt o (.pto, c) then [Ev.touch .pto c, Ev.push .pto c b] else [])) := by
  refine ⟨?_, ?_, ?_⟩
  · cases freeAt o (.pfrom, c) <;> cases freeAt o (.pto, c) <;> simp [wellTouched]
  · rintro ⟨r, c'⟩
    rw [hk]
    simp only [touches_append, touches_ite, touches_touch, touches_push, touches_nil, List.mem_append, mem_ite_list]
    simp only [List.mem_cons, List.not_mem_nil, or_false, Prod.mk.injEq]
    constructor
    · rintro (⟨h, rfl, rfl⟩ | ⟨h, rfl, rfl⟩)
      · exact ⟨Or.inl ⟨rfl, rfl⟩, h⟩
      · exact ⟨Or.inr ⟨rfl, rfl⟩, h⟩
    · rintro ⟨(⟨rfl, rfl⟩ | ⟨rfl, rfl⟩), h⟩
      · exact Or.inl ⟨h, rfl, rfl⟩
      · exact Or.inr ⟨h, rfl, rfl⟩
  · simp only [List.forall_mem_append, forall_mem_ite_list, List.forall_mem_cons]
    simp [evRC]

theorem shape_one (k : Kind) (o : Obs ℝ) (c : Coord) (hk : k.roles = [(.pfrom, c)]) (a : ℝ) :
    EvShape k o (if freeAt o (.pfrom, c) then [Ev.touch .pfrom c, Ev.push .pfrom c a] else []) := by
  refine ⟨?_, ?_, ?_⟩
  · cases freeAt o (.pfrom, c) <;> simp [wellTouched]
  · rintro ⟨r, c'⟩
    rw [hk]
    simp only [touches_ite, touches_touch, touches_push, touches_nil, mem_ite_list]
    simp only [List.mem_cons, List.not_mem_nil, or_false, Prod.mk.injEq]
    constructor
    · rintro ⟨h, rfl, rfl⟩; exact ⟨⟨rfl, rfl⟩, h⟩
    · rintro ⟨⟨rfl, rfl⟩, h⟩; exact ⟨h, rfl, rfl⟩
  · simp only [forall_mem_ite_list, List.forall_mem_cons]
    simp [evRC]

theorem shape_of_regular (k : Kind) (fuel : Nat) (o : Obs ℝ) (out : LinOut ℝ) (hreg : Regular k o)
    (hok : k.lin fuel o = .ok out) : EvShape k o out.evs := by
  cases k
  case direction =>
    rw [(direction_ok fuel o out hreg hok).2]; exact shape_dir o _ _ _ _ _
  case distance =>
    have hok' : Gen.Lin.distance fuel o = .ok out := hok
    rw [distance_eq fuel o hreg] at hok'; injection hok' with hok'; subst hok'
    exact shape_2xy _ o rfl _ _ _ _
  case azimuth =>
    rw [(azimuth_ok fuel o out hreg hok).2]; exact shape_2xy _ o rfl _ _ _ _
  case angle =>
    rw [(angle_ok fuel o out hreg.1 hreg.2 hok).2]; exact shape_3xy o _ _ _ _ _ _
  case s_distance =>
    have hok' : Gen.Lin.s_distance fuel o = .ok out := hok
    rw [s_distance_eq] at hok'
    split at hok'
    · exact absurd hok' (by simp)
    · injection hok' with hok'; subst hok'; exact shape_xyz2 _ o rfl _ _ _ _ _ _
  case z_angle =>
    have hok' : Gen.Lin.z_angle fuel o = .ok out := hok
    rw [z_angle_eq] at hok'
    split at hok'
    · exact absurd hok' (by simp)
    · injection hok' with hok'; subst hok'; exact shape_xyz2 _ o rfl _ _ _ _ _ _
  case h_diff =>
    have hok' : Gen.Lin.h_diff fuel o = .ok out := hok
    rw [h_diff_eq fuel o] at hok'; injection hok' with hok'; subst hok'
    exact shape_two _ o .z (by decide) rfl _ _
  case zdiff =>
    have hok' : Gen.Lin.zdiff fuel o = .ok out := hok
    rw [zdiff_eq fuel o] at hok'; injection hok' with hok'; subst hok'
    exact shape_two _ o .z (by decide) rfl _ _
  case xdiff =>
    have hok' : Gen.Lin.xdiff fuel o = .ok out := hok
    rw [xdiff_eq fuel o] at hok'; injection hok' with hok'; subst hok'
    exact shape_two _ o .x (by decide) rfl _ _
  case ydiff =>
    have hok' : Gen.Lin.ydiff fuel o = .ok out := hok
    rw [ydiff_eq fuel o] at hok'; injection hok' with hok'; subst hok'
    exact shape_two _ o .y (by decide) rfl _ _
  case x =>
    have hok' : Gen.Lin.x fuel o = .ok out := hok
    rw [x_eq fuel o] at hok'; injection hok' with hok'; subst hok'
    exact shape_one _ o .x rfl _
  case y =>
    have hok' : Gen.Lin.y fuel o = .ok out := hok
    rw [y_eq fuel o] at hok'; injection hok' with hok'; subst hok'
    exact shape_one _ o .y rfl _
  case z =>
    have hok' : Gen.Lin.z fuel o = .ok out := hok
    rw [z_eq fuel o] at hok'; injection hok' with hok'; subst hok'
    exact shape_one _ o .z rfl _

/-- every class: the sum of the pushes for the roles naming `u` is the derivative of the row wrt `u` -/
theorem row_deriv (k : Kind) (σ : Net ℝ) (ob : NObs ℝ) (u : Unk) (fuel : Nat) (out : LinOut ℝ)
    (hf : σ.isFree u = true) (hreg : Regular k (σ.view ob)) (hok : k.lin fuel (σ.view ob) = .ok out) :
    RowDeriv k σ ob u (symEntry ob.name out.pushes u) := by
  cases k
  case direction => exact direction_row σ ob u fuel out hf hreg hok
  case distance => exact distance_row σ ob u fuel out hf hreg hok
  case angle => exact angle_row σ ob u fuel out hf hreg.1 hreg.2 hok
  case h_diff => exact h_diff_row σ ob u fuel out hf hok
  case s_distance => exact s_distance_row σ ob u fuel out hf hok
  case z_angle => exact z_angle_row σ ob u fuel out hf hok
  case x => exact x_row σ ob u fuel out hf hok
  case y => exact y_row σ ob u fuel out hf hok
  case z => exact z_row σ ob u fuel out hf hok
  case xdiff => exact xdiff_row σ ob u fuel out hf hok
  case ydiff => exact ydiff_row σ ob u fuel out hf hok
  case zdiff => exact zdiff_row σ ob u fuel out hf hok
  case azimuth => exact azimuth_row σ ob u fuel out hf hreg hok

theorem symEntry_eq_zero (name : Role → Coord → Unk) (l : List (Role × Coord × ℝ)) (u : Unk)
    (h : ∀ p ∈ l, name p.1 p.2.1 ≠ u) : symEntry name l u = 0 := by
  induction l with
  | nil => rfl
  | cons p t ih =>
    obtain ⟨r, c, v⟩ := p
    have h1 : ¬ name r c = u := h (r, c, v) (List.mem_cons_self ..)
    simp [h1, ih (fun q hq => h q (List.mem_cons_of_mem _ hq))]

/-- **the assembled matrix is the Jacobian**: for every row whose own exclusion does not apply,
    the entry in the column of any adjusted unknown `u` — the sum of what the row pushed onto that
    column, whichever roles name `u` — is the derivative of the row's observation function wrt `u`;
    the entry in the column of an unknown no role of the row names is 0 -/
theorem design_matrix_is_jacobian (σ : Net ℝ) (fuel : Nat) (obs : List (NObs ℝ)) (s0 : IdxState) (hs0 : s0.WF)
    (res : PassOut ℝ) (hp : passFrom σ fuel obs s0 = .ok res) (r : Nat) (ob : NObs ℝ) (hr : obs[r]? = some ob)
    (hreg : Regular ob.kind (σ.view ob)) :
    (∀ u, σ.isFree u = true → RowDeriv ob.kind σ ob u (codeMatrix res.rows r (res.idx.get u))) ∧
    (∀ u, (∀ rc ∈ ob.kind.roles, ob.name rc.1 rc.2 ≠ u) → codeMatrix res.rows r (res.idx.get u) = 0) := by
  obtain ⟨out, ho, _, hsym⟩ := passFrom_rows σ fuel obs s0 res hs0 hp r ob hr
  have hsh := shape_of_regular ob.kind fuel _ out hreg ho
  have hsym := hsym hsh.wt
  refine ⟨fun u hf => ?_, fun u hu => ?_⟩
  · rw [hsym u]; exact row_deriv ob.kind σ ob u fuel out hf hreg ho
  · rw [hsym u]
    apply symEntry_eq_zero
    intro p hp' hn
    -- a push is preceded by a touch of the same (role, coordinate), which is one of the roles of the class
    have hmem : (p.1, p.2.1) ∈ touches out.evs := by
      have : ∀ (evs : List (Ev ℝ)) (seen : List (Role × Coord)), wellTouched evs seen = true →
          ∀ q ∈ pushes evs, (q.1, q.2.1) ∈ seen ∨ (q.1, q.2.1) ∈ touches evs := by
        intro evs
        induction evs with
        | nil => intro seen _ q hq; simp at hq
        | cons e t ih =>
          intro seen hw q hq
          cases e with
          | touch r' c' =>
            rcases ih ((r', c') :: seen) hw q (by simpa using hq) with h | h
            · rcases List.mem_cons.mp h with h | h
              · right; simp [h]
              · left; exact h
            · right; simp [h]
          | push r' c' v' =>
            have hw' : ((r', c') ∈ seen) ∧ wellTouched t seen = true := by simpa [wellTouched] using hw
            rcases List.mem_cons.mp (by simpa using hq) with h | h
            · left; subst h; exact hw'.1
            · rcases ih seen hw'.2 q h with h | h
              · left; exact h
              · right; simpa using h
      rcases this out.evs [] hsh.wt p hp' with h | h
      · simp at h
      · exact h
    exact hu _ ((hsh.touched _).mp hmem).1 hn

/-! ### number of columns = number of distinct adjusted unknowns the rows refer to -/

/-- the adjusted unknowns a row refers to -/
def involved (σ : Net ℝ) (ob : NObs ℝ) : List Unk :=
  ((ob.kind.roles).filter (freeAt (σ.view ob))).map (fun rc => ob.name rc.1 rc.2)

theorem passTouched_mem (σ : Net ℝ) (fuel : Nat) (obs : List (NObs ℝ)) :
    ∀ (s : IdxState) (res : PassOut ℝ), passFrom σ fuel obs s = .ok res →
      (∀ ob ∈ obs, Regular ob.kind (σ.view ob)) →
      ∀ v, v ∈ passTouched σ fuel obs ↔ v ∈ obs.flatMap (involved σ) := by
  induction obs with
  | nil => intro s res _ _ v; simp [passTouched]
  | cons ob t ih =>
    intro s res hp hreg v
    obtain ⟨out, r, ho, hr, rfl⟩ := passFrom_cons hp
    have hsh := shape_of_regular ob.kind fuel _ out (hreg ob (List.mem_cons_self ..)) ho
    have := ih _ r hr (fun ob' h' => hreg ob' (List.mem_cons_of_mem _ h')) v
    simp only [passTouched, ho, List.mem_append, List.flatMap_cons, this, involved, List.mem_map, List.mem_filter]
    constructor
    · rintro (⟨rc, h1, rfl⟩ | h)
      · exact Or.inl ⟨rc, (hsh.touched rc).mp h1, rfl⟩
      · exact Or.inr h
    · rintro (⟨rc, h1, rfl⟩ | h)
      · exact Or.inl ⟨rc, (hsh.touched rc).mpr h1, rfl⟩
      · exact Or.inr h

theorem design_matrix_columns (σ : Net ℝ) (fuel : Nat) (obs : List (NObs ℝ)) (res : PassOut ℝ)
    (hp : passFrom σ fuel obs IdxState.init = .ok res) (hreg : ∀ ob ∈ obs, Regular ob.kind (σ.view ob)) :
    res.idx.maxn = (obs.flatMap (involved σ)).dedup.length := by
  rw [passFrom_unknowns σ fuel obs res hp]
  apply List.Perm.length_eq
  apply (List.perm_ext_iff_of_nodup (List.nodup_dedup _) (List.nodup_dedup _)).mpr
  intro v
  simp only [List.mem_dedup]
  exact passTouched_mem σ fuel obs _ res hp hreg v

/-! ### the prologue of `project_equations` in front of the pass: history independence -/

theorem passFrom_agree (C : Unk → Prop) (σ : Net ℝ) (fuel : Nat) (obs : List (NObs ℝ)) :
    ∀ (s t : IdxState) (a : PassOut ℝ), AgreeOn C s t →
      (∀ ob ∈ obs, ∀ out, ob.kind.lin fuel (σ.view ob) = .ok out → ∀ e ∈ out.evs, C (evTarget ob.name e)) →
      passFrom σ fuel obs s = .ok a →
      ∃ b, passFrom σ fuel obs t = .ok b ∧ a.rows = b.rows ∧ a.rhs = b.rhs ∧ AgreeOn C a.idx b.idx := by
  induction obs with
  | nil =>
    intro s t a hag _ hp
    simp only [passFrom] at hp; injection hp with hp; subst hp
    exact ⟨⟨[], [], t⟩, rfl, rfl, rfl, hag⟩
  | cons ob l ih =>
    intro s t a hag hC hp
    obtain ⟨out, r, ho, hr, rfl⟩ := passFrom_cons hp
    obtain ⟨e1, e2⟩ := runEvs_agree ob.name C out.evs s t hag (hC ob (List.mem_cons_self ..) out ho)
    obtain ⟨b, hb, r1, r2, r3⟩ := ih _ _ r e2 (fun ob' h' => hC ob' (List.mem_cons_of_mem _ h')) hr
    refine ⟨⟨(runEvs ob.name out.evs t).2 :: b.rows, out.rhs :: b.rhs, b.idx⟩, ?_, ?_, ?_, r3⟩
    · simp only [passFrom, ho, hb]
    · simp [e1, r1]
    · simp [r2]

theorem evTarget_eq {K : Type} (name : Role → Coord → Unk) (e : Ev K) : evTarget name e = name (evRC e).1 (evRC e).2 := by
  cases e <;> rfl

/-- the real pass starts from whatever earlier passes left, after the prologue; it produces the
    rows, right-hand sides, number of unknowns and the indexes of all adjusted unknowns of the pass
    from the empty state — so everything proved for a well-formed start applies to it -/
theorem pass_after_prologue (σ : Net ℝ) (fuel : Nat) (obs : List (NObs ℝ)) (s : IdxState) (a : PassOut ℝ)
    (hreg : ∀ ob ∈ obs, Regular ob.kind (σ.view ob))
    (hp : passFrom σ fuel obs (s.resetPass (fun i => Gen.Lin.resetGuard (σ.pt i))) = .ok a) :
    ∃ b, passFrom σ fuel obs IdxState.init = .ok b ∧ a.rows = b.rows ∧ a.rhs = b.rhs ∧
      a.idx.maxn = b.idx.maxn ∧ ∀ u, σ.isFree u = true → a.idx.get u = b.idx.get u := by
  set g : Nat → Bool := fun i => Gen.Lin.resetGuard (σ.pt i) with hg
  have hag : AgreeOn (fun u => u.c = .ori ∨ g u.id = true) (s.resetPass g) IdxState.init := by
    obtain ⟨h0, h1, h2⟩ := IdxState.resetPass_clean g s
    refine ⟨h0, fun u hu => ?_⟩
    have : IdxState.init.get u = 0 := rfl
    rw [this]
    rcases hu with hu | hu
    · exact h1 u hu
    · exact h2 u hu
  have hC : ∀ ob ∈ obs, ∀ out, ob.kind.lin fuel (σ.view ob) = .ok out → ∀ e ∈ out.evs,
      (fun u : Unk => u.c = .ori ∨ g u.id = true) (evTarget ob.name e) := by
    intro ob hob out ho e he
    have hfr := (shape_of_regular ob.kind fuel _ out (hreg ob hob) ho).free e he
    rw [evTarget_eq]
    generalize evRC e = rc at hfr
    obtain ⟨r, c⟩ := rc
    cases r <;> cases c <;> simp [freeAt, Obs.pt, Net.view, NObs.name] at hfr ⊢ <;>
      first
      | exact (resetGuard_of_free _).1 hfr
      | exact (resetGuard_of_free _).2 hfr
  obtain ⟨b, hb, r1, r2, r3⟩ := passFrom_agree _ σ fuel obs _ _ a hag hC hp
  refine ⟨b, hb, r1, r2, r3.1, fun u hu => r3.2 u ?_⟩
  obtain ⟨id, c⟩ := u
  cases c
  · right; exact (resetGuard_of_free _).1 hu
  · right; exact (resetGuard_of_free _).1 hu
  · right; exact (resetGuard_of_free _).2 hu
  · left; rfl

end Gama.Lin
