/-
  Counterexamples showing that the extra hypotheses of `Gama/Lemmas/NetDecision.lean` are needed
  (all checked by the kernel):
    * `nullSpace_fuel` without `AdjCur`;
    * `decideA_adjusted` and `decideA_never_cannot` without `RefusalFirst`, in a world that satisfies
      `WF`, `Still` and `RefusalFlags`: a huge-covariance pass removes a point and then meets
      `BadRegularization`; `null_space` re-projects, nothing is flagged, and it returns the defect of
      project equations on which `vyrovnani_` has not run.
-/
import Gama.Lemmas.NetDecision
namespace Gama.NetDecision.Cex
open Gama Gama.Ls Gama.NetDecision

def P1 : Point := ⟨"a", .free, .free⟩
def P2 : Point := ⟨"b", .free, .free⟩
def P3 : Point := ⟨"c", .free, .free⟩
def P1u : Point := ⟨"a", .unused, .unused⟩
def P2z : Point := ⟨"b", .free, .unused⟩
def P2u : Point := ⟨"b", .unused, .unused⟩
def P3z : Point := ⟨"c", .free, .unused⟩
def net0 : Net := [P1, P2, P3]
def net1 : Net := [P1u, P2, P3]
def net2 : Net := [P1u, P2z, P3]
def net3 : Net := [P1u, P2u, P3]
def net4 : Net := [P1u, P2u, P3z]

def mk (us : List Unknown) (d : Nat) (fl : List Nat) (h : Point → Except ErrKind (Option Rm))
    (r : Except ErrKind Unit) : Abs :=
  { unknowns := us, nObs := 1, nPts := 1, defect := d, flagged := fl, huge := h, resid := r }

/-- `net0`: the pass removes `a`, then `b` throws `BadRegularization` (unknown 1 flagged);
    `net1`: nothing flagged, the pass switches `b.z` off;
    `net2`: the pass switches `b.xy` off, then `c` throws `BadRegularization` (unknown 1 flagged);
    `net3`: nothing flagged, defect `d3`, residual queries `r3`, the pass switches `c.z` off;
    otherwise: a regular configuration of defect `d4`. -/
def A (d3 : Nat) (r3 : Except ErrKind Unit) (d4 : Nat) (n : Net) : Abs :=
  if n = net0 then mk [⟨"a", .X⟩] 0 [1]
    (fun P => if P = P1 then .ok (some .huge_cov_xyz) else .error .BadRegularization) (.ok ())
  else if n = net1 then mk [⟨"c", .X⟩] 0 [] (fun P => if P = P2 then .ok (some .huge_cov_z) else .ok none) (.ok ())
  else if n = net2 then mk [⟨"c", .X⟩] 0 [1]
    (fun P => if P = P2z then .ok (some .huge_cov_xy) else if P = P3 then .error .BadRegularization else .ok none)
    (.ok ())
  else if n = net3 then mk [⟨"c", .X⟩] d3 [] (fun P => if P = P3 then .ok (some .huge_cov_z) else .ok none) r3
  else mk [⟨"c", .X⟩] d4 [] (fun _ => .ok none) (.ok ())

def W (d3 : Nat) (r3 : Except ErrKind Unit) (d4 : Nat) : WorldA := fun n => { net := n, rm := [], abs := A d3 r3 d4 n }

theorem W_still (d3 r3 d4) : (W d3 r3 d4).Still := fun _ => ⟨rfl, rfl⟩

theorem W_flags (d3 r3 d4) (hr : r3 ≠ .error .BadRegularization) : (W d3 r3 d4).RefusalFlags := by
  intro n h
  change ((A d3 r3 d4 n).resid = _ ∨ ∃ P, (A d3 r3 d4 n).huge P = _) at h
  show ∃ i u, (A d3 r3 d4 n).flagged = i :: (A d3 r3 d4 n).flagged.tail ∧ (A d3 r3 d4 n).unknowns[i-1]? = some u
  unfold A at h ⊢
  split_ifs at h ⊢
  · exact ⟨1, _, rfl, rfl⟩
  · rcases h with h | ⟨P, h⟩
    · cases h
    · simp only [mk] at h; split at h <;> cases h
  · exact ⟨1, _, rfl, rfl⟩
  · rcases h with h | ⟨P, h⟩
    · exact absurd h hr
    · simp only [mk] at h; split at h <;> cases h
  · rcases h with h | ⟨P, h⟩
    · cases h
    · cases h

theorem W_wf (d3 r3 d4) : (W d3 r3 d4).WF := by
  refine ⟨fun _ => Nat.le_refl _, ?_, ?_⟩
  · intro n i hi
    change i ∈ (A d3 r3 d4 n).flagged at hi
    show ∃ u, (A d3 r3 d4 n).unknowns[i-1]? = some u ∧ ∃ P ∈ n, _
    unfold A at hi ⊢
    split_ifs at hi ⊢ with h0 h1 h2 h3
    · simp only [mk, List.mem_singleton] at hi; subst hi; subst h0
      exact ⟨_, rfl, P1, by decide, rfl, rfl⟩
    · simp [mk] at hi
    · simp only [mk, List.mem_singleton] at hi; subst hi; subst h2
      exact ⟨_, rfl, P3, by decide, rfl, rfl⟩
    · simp [mk] at hi
    · simp [mk] at hi
  · intro n P c _ h
    change (A d3 r3 d4 n).huge P = _ at h
    unfold A at h
    split_ifs at h
    all_goals simp only [mk] at h
    all_goals first
      | (split at h
         · next hP => cases h; subst hP; decide
         · first | cases h | (split at h <;> cases h))
      | cases h

/-- `nullSpace_fuel` needs `AdjCur`: `tst_vyrovnani_` set without project equations -/
theorem nullSpace_fuel_needs_adjCur :
    let s : St := { net := [], removed := [], proj := none, adj := true }
    Inv (W 0 (.ok ()) 0) s ∧ actives s.net < 1 ∧ (nullSpace (W 0 (.ok ()) 0) 1 1 s).2 = .exc .fuel :=
  ⟨inv_of_proj_none _ _ rfl, by decide, by decide⟩

/-- `decideA_adjusted` needs `RefusalFirst`: `adjusted 0` is reported, the final points are those of
    a configuration of defect 7 -/
theorem adjusted_needs_refusalFirst :
    (W 0 (.ok ()) 7).WF ∧ (W 0 (.ok ()) 7).Still ∧ (W 0 (.ok ()) 7).RefusalFlags ∧
    (decideA (W 0 (.ok ()) 7) net0).2 = .adjusted 0 ∧
    ¬ ∃ n0, ((W 0 (.ok ()) 7) n0).abs.resid = .ok () ∧ ((W 0 (.ok ()) 7) n0).abs.defect = 0 ∧
      ((W 0 (.ok ()) 7) n0).net =
        (generalParameters (W 0 (.ok ()) 7) (fuelFor net0) (fuelFor net0) (St.init net0)).1.net ∧
      0 ≤ minN ((W 0 (.ok ()) 7) n0).abs.unknowns ((W 0 (.ok ()) 7) n0).net := by
  refine ⟨W_wf _ _ _, W_still _ _ _, W_flags _ _ _ (by simp), by decide, ?_⟩
  rintro ⟨n0, _, hd, hn, _⟩
  have : (generalParameters (W 0 (.ok ()) 7) (fuelFor net0) (fuelFor net0) (St.init net0)).1.net = net4 := by
    decide
  rw [this] at hn
  change n0 = net4 at hn
  subst hn
  revert hd
  decide

/-- `decideA_never_cannot` needs `RefusalFirst` -/
theorem never_cannot_needs_refusalFirst :
    (W 5 (.error .BadRank) 0).WF ∧ (W 5 (.error .BadRank) 0).Still ∧ (W 5 (.error .BadRank) 0).RefusalFlags ∧
    (∀ n, ((W 5 (.error .BadRank) 0) n).abs.resid = .ok () →
      ((W 5 (.error .BadRank) 0) n).abs.defect ≤
        minN ((W 5 (.error .BadRank) 0) n).abs.unknowns ((W 5 (.error .BadRank) 0) n).net) ∧
    (decideA (W 5 (.error .BadRank) 0) net0).2 = .cannot 5 true [] := by
  refine ⟨W_wf _ _ _, W_still _ _ _, W_flags _ _ _ (by simp), ?_, by decide⟩
  intro n h
  change (A 5 (.error .BadRank) 0 n).resid = _ at h
  show (A 5 (.error .BadRank) 0 n).defect ≤ _
  unfold A at h ⊢
  split_ifs at h ⊢
  all_goals first
    | exact Nat.zero_le _
    | (simp [mk] at h)

end Gama.NetDecision.Cex
