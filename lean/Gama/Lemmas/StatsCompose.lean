/-
  C09 ∘ (LS layer, C03) — glue between the statistics formulas (`Gama/Gen/StatsGen.lean`, read over ℝ
  by `Lemmas/StatsReal.lean`) and the matrices the solver theorems speak about.

  * `scalarReal_eq_fieldScalar` : the `Scalar ℝ` the statistics model is read at (`Gama.instScalarReal`)
    IS the signature every solver model is instantiated at in the C01/C03/C20 theorems
    (`LS.fieldScalar Real.sqrt`), so a solver theorem stated for `fieldScalar sq` can be used for the
    model at the shared instance (`solverFacts_*` in `Props/C09Solvers.lean` do it by `subst`).
  * `psd_block` : a symmetric positive semi-definite matrix has non-negative diagonal and every
    2×2 principal block satisfies `Q_ij² ≤ Q_ii Q_jj` — the hypotheses of the ellipse theorems.
  * `SolverFacts` : what the C01/C03/C20 theorems establish about ONE answer of a solver model
    (design matrix `A`, whitening `W`, regularisation subset `S`).
  * `IsEigenEllipse` : the specification of a standard error ellipse, independent of the code.
  * the σ_apr-scaling algebra on matrices (`smul` entries, whitening of the scaled weights).
-/
import Gama.Lemmas.StatsReal
import Gama.Gen.StatsGen
import Gama.Lemmas.LS
import Gama.Lemmas.Ls.ComposeGinvUnique
import Mathlib.Tactic.NormNum
import Mathlib.Tactic.Positivity

namespace Gama

/-- the shared `Scalar ℝ` is the ordered-field signature with `Real.sqrt` the solver theorems use -/
theorem scalarReal_eq_fieldScalar : (instScalarReal : Scalar ℝ) = LS.fieldScalar Real.sqrt := by
  unfold instScalarReal LS.fieldScalar
  congr
  · funext m s e; exact scalar_ofSci_eq_ofScientific m s e
  · funext x
    split_ifs with h
    · exact abs_of_neg h
    · exact abs_of_nonneg (not_lt.1 h)

namespace Stats
open Matrix Real

/-! ### a positive semi-definite matrix: diagonal and 2×2 principal blocks -/

theorem quad_single_pair {n : Type*} [Fintype n] [DecidableEq n] (Q : Matrix n n ℝ) (i j : n) (a b : ℝ) :
    (Pi.single i a + Pi.single j b) ⬝ᵥ Q *ᵥ (Pi.single i a + Pi.single j b)
      = a * a * Q i i + a * b * Q i j + b * a * Q j i + b * b * Q j j := by
  simp only [mulVec_add, dotProduct_add, add_dotProduct, single_dotProduct, mulVec_single,
    MulOpposite.smul_eq_mul_unop, MulOpposite.unop_op, Pi.smul_apply, col_apply]
  ring

theorem psd_diag_nonneg {n : Type*} [Fintype n] [DecidableEq n] (Q : Matrix n n ℝ)
    (hp : ∀ y : n → ℝ, 0 ≤ y ⬝ᵥ Q *ᵥ y) (i : n) : 0 ≤ Q i i := by
  have := hp (Pi.single i 1)
  simpa [single_dotProduct, mulVec_single] using this

/-- symmetric PSD ⇒ every 2×2 principal block is PSD in the closed form the ellipse theorems use -/
theorem psd_block {n : Type*} [Fintype n] [DecidableEq n] (Q : Matrix n n ℝ) (hs : Qᵀ = Q)
    (hp : ∀ y : n → ℝ, 0 ≤ y ⬝ᵥ Q *ᵥ y) (i j : n) :
    0 ≤ Q i i ∧ 0 ≤ Q j j ∧ Q i j ^ 2 ≤ Q i i * Q j j ∧ Q j i = Q i j := by
  have hii := psd_diag_nonneg Q hp i
  have hjj := psd_diag_nonneg Q hp j
  have hji : Q j i = Q i j := by
    have := congrFun (congrFun hs i) j
    simpa [transpose_apply] using this
  refine ⟨hii, hjj, ?_, hji⟩
  by_cases hij : i = j
  · subst hij; nlinarith
  · have key : ∀ a b : ℝ, 0 ≤ a * a * Q i i + 2 * (a * b) * Q i j + b * b * Q j j := by
      intro a b
      have := hp (Pi.single i a + Pi.single j b)
      rw [quad_single_pair Q i j, hji] at this
      linarith
    by_contra hlt
    have hD : Q i i * Q j j - Q i j ^ 2 < 0 := by linarith [not_le.1 hlt]
    have k1 := key (Q j j) (-(Q i j))
    have k2 := key (-(Q i j)) (Q i i)
    have hj0 : Q j j = 0 := by
      rcases eq_or_lt_of_le hjj with h | h
      · exact h.symm
      · nlinarith
    have hi0 : Q i i = 0 := by
      rcases eq_or_lt_of_le hii with h | h
      · exact h.symm
      · nlinarith
    have k3 := key 1 (-(Q i j))
    rw [hj0, hi0] at k3 hD
    nlinarith

/-! ### specification of a standard error ellipse (no reference to the code) -/

/-- `(a, b, α)` is the standard error ellipse of the covariance block `m0² · [[cxx,cxy],[cxy,cyy]]`:
    there are eigenvalues `λ₁ ≥ λ₂ ≥ 0` of the cofactor block (sum = trace, product = determinant) with
    `a² = m0² λ₁`, `b² = m0² λ₂`, `a ≥ b ≥ 0`, `(cos α, sin α)` an eigenvector for `λ₁`, `α ∈ [0, π)`,
    `α = 0` for a circle and otherwise the ONLY such bearing in `[0, π)` -/
def IsEigenEllipse (cxx cxy cyy m0 : ℝ) (e : ℝ × ℝ × ℝ) : Prop :=
  ∃ l1 l2 : ℝ,
    l1 + l2 = cxx + cyy ∧ l1 * l2 = cxx * cyy - cxy ^ 2 ∧ 0 ≤ l2 ∧ l2 ≤ l1 ∧
    e.1 ^ 2 = m0 ^ 2 * l1 ∧ e.2.1 ^ 2 = m0 ^ 2 * l2 ∧ 0 ≤ e.2.1 ∧ e.2.1 ≤ e.1 ∧
    cxx * cos e.2.2 + cxy * sin e.2.2 = l1 * cos e.2.2 ∧
    cxy * cos e.2.2 + cyy * sin e.2.2 = l1 * sin e.2.2 ∧
    0 ≤ e.2.2 ∧ e.2.2 < π ∧
    (l1 = l2 → e.2.2 = 0) ∧
    (l1 ≠ l2 → ∀ β : ℝ, 0 ≤ β → β < π →
      cxx * cos β + cxy * sin β = l1 * cos β → cxy * cos β + cyy * sin β = l1 * sin β → β = e.2.2)

/-! ### what the solver theorems establish about one answer -/

/-- The facts C01 / C03 / C20 prove about an answer `a` of a solver model for the design matrix `A`
    (m observations, n unknowns), whitening `W` (`WᵀW = P`; `W = 1` when the solver is handed the
    homogenised system) and regularisation subset `S`:
    `Q` = the matrix of ALL reported `q_xx(i,j)`, symmetric, positive semi-definite, a reflexive
    generalised inverse of `N = (WA)ᵀ(WA)` that belongs to `S`; `B` = the matrix of all reported
    `q_bb(i,j)` = `(WA) Q (WA)ᵀ` with diagonal in `[0,1]` and redundancy numbers `1 − B_ii` summing to `m − n + defect`;
    `defect + rank A = n`. -/
structure SolverFacts {m n : ℕ} (a : Ls.Answer ℝ) (A : Matrix (Fin m) (Fin n) ℝ)
    (W : Matrix (Fin m) (Fin m) ℝ) (S : Finset (Fin n))
    (Q : Matrix (Fin n) (Fin n) ℝ) (B : Matrix (Fin m) (Fin m) ℝ) : Prop where
  qxx : ∀ i j : Fin n, a.qxx (i.val + 1) (j.val + 1) = .ok (Q i j)
  qbb : ∀ i j : Fin m, a.qbb (i.val + 1) (j.val + 1) = .ok (B i j)
  symm : Qᵀ = Q
  psd : ∀ y, 0 ≤ y ⬝ᵥ Q *ᵥ y
  nqn : ((W * A)ᵀ * (W * A)) * Q * ((W * A)ᵀ * (W * A)) = (W * A)ᵀ * (W * A)
  qnq : Q * ((W * A)ᵀ * (W * A)) * Q = Q
  belongs : LS.BelongsTo A S Q
  hat : B = (W * A) * Q * (W * A)ᵀ
  hat_diag : ∀ i, 0 ≤ B i i ∧ B i i ≤ 1
  redundancy : ∑ i, (1 - B i i) = (m : ℝ) - n + a.defect
  defect_rank : a.defect + A.rank = n

/-! ### σ_apr ↦ s·σ_apr on the matrices (LS9) -/

section Scale
set_option linter.unusedSectionVars false
variable {m n : Type*} [Fintype m] [Fintype n] [DecidableEq m] [DecidableEq n]

theorem smul_inv_sq_apply (s : ℝ) (Q : Matrix n n ℝ) (i j : n) : ((s ^ 2)⁻¹ • Q) i j = Q i j / s ^ 2 := by
  rw [Matrix.smul_apply, smul_eq_mul, div_eq_inv_mul]

theorem belongs_smul {A : Matrix m n ℝ} {S : Finset n} {Q : Matrix n n ℝ} (c : ℝ) (hb : LS.BelongsTo A S Q) :
    LS.BelongsTo A S (c • Q) := by
  intro y g hg
  have := hb y g hg
  simp only [Matrix.smul_mulVec, Pi.smul_apply, smul_eq_mul, mul_assoc, ← Finset.mul_sum, this, mul_zero]

/-- the whitening of uncorrelated observations: `W = diag(σ_apr/stdev_i)`, `WᵀW = diag(weights)` -/
theorem diagonal_whiten (w : m → ℝ) : (diagonal w)ᵀ * diagonal w = diagonal (fun i => w i * w i) := by
  rw [diagonal_transpose, diagonal_mul_diagonal]

/-- the hat matrix does not change: `(sW A)(s⁻²Q)(sW A)ᵀ = (W A) Q (W A)ᵀ` -/
theorem hat_scale {s : ℝ} (hs : s ≠ 0) (W : Matrix m m ℝ) (A : Matrix m n ℝ) (Q : Matrix n n ℝ) :
    ((s • W) * A) * ((s ^ 2)⁻¹ • Q) * ((s • W) * A)ᵀ = (W * A) * Q * (W * A)ᵀ := by
  simp only [Matrix.smul_mul, transpose_smul, Matrix.mul_smul, smul_smul]
  have : s * ((s ^ 2)⁻¹ * s) = 1 := by field_simp
  rw [this, one_smul]

end Scale

end Stats
end Gama
