/-
  C14 round 13 — physical deletion, continued (`Lemmas/RevisePhysical.lean`):

    * (3) `RolesKept` is no longer a hypothesis.  The generated member functions of `LocalLinearization` do not
      read the role slots their class does not use (`lin_pfs`, `lin_pto`: `rfl` per class on the REGENERATED
      `Gen.Lin.*`), and on a network on which the revision is stable (`PE.revise net = net` — every network
      `project_equations()` leaves) the slots a class uses name points with an active group, i.e. kept
      points (`slots_kept`), and the cluster of a revised observation is a cluster with observations.
      `passFrom_relabel'` asks for equal RESULTS of the member function instead of equal records.
    * (2) `singular_coords` (verdict) and `min_x_` on the physically deleted network.
-/
import Gama.Lemmas.RevisePhysical
namespace Gama.RevPE
open Gama Gama.Lin

variable {K : Type}

/-! ### (3) the member functions read the slots of their class only -/

theorem lin_pfs [TrigScalar K] (k : Kind) (hk : k ≠ .angle) (fuel : Nat) (o : Obs K) (q : Pt K) :
    k.lin fuel { o with pfs := q } = k.lin fuel o := by
  cases k <;> first | rfl | exact absurd rfl hk

theorem lin_pto [TrigScalar K] (k : Kind) (hk : k = .x ∨ k = .y ∨ k = .z) (fuel : Nat) (o : Obs K) (q : Pt K) :
    k.lin fuel { o with pto := q } = k.lin fuel o := by
  rcases hk with rfl | rfl | rfl <;> rfl

/-- **the pass under a relabelling**, hypothesis on the results of the member functions -/
theorem passFrom_relabel' [TrigScalar K] (σ σ' : Lin.Net K) (fuel : Nat) (g gc : Nat → Nat)
    (hg : Function.Injective g) (hgc : Function.Injective gc) :
    ∀ (obs : List (NObs K)),
      (∀ ob ∈ obs, ob.kind.lin fuel (σ'.view (renN g gc ob)) = ob.kind.lin fuel (σ.view ob)) → ∀ s : IdxState,
    passFrom σ' fuel (obs.map (renN g gc)) (s.mapKeys (relab g gc)) =
      match passFrom σ fuel obs s with
      | .error e => .error e
      | .ok r => .ok ⟨r.rows, r.rhs, r.idx.mapKeys (relab g gc)⟩
  | [], _, _ => rfl
  | ob :: t, hv, s => by
    have hf := relab_injective g gc hg hgc
    have hview := hv ob List.mem_cons_self
    have hk : (renN g gc ob).kind = ob.kind := rfl
    simp only [List.map_cons, passFrom, hk, hview]
    cases ho : ob.kind.lin fuel (σ.view ob) with
    | error e => rfl
    | ok out =>
      simp only
      rw [runEvs_congr_names _ _ out.evs _ (names_relab g gc ob fuel _ out ho), runEvs_rename (relab g gc) hf]
      simp only
      rw [passFrom_relabel' σ σ' fuel g gc hg hgc t (fun ob' h' => hv ob' (List.mem_cons_of_mem _ h'))]
      cases passFrom σ fuel t (runEvs ob.name out.evs s).1 with
      | error e => rfl
      | ok r => rfl

/-- a position with an active group is a kept point of `PD` -/
theorem kept_of_active [Zero K] (net : PE.Net K) (i : Nat)
    (h : (MinX.xyOf (PE.ptsOf net) i).active = true ∨ (MinX.zOf (PE.ptsOf net) i).active = true) :
    ∃ p, net.points[i]? = some p ∧ keepPt p = true := by
  rw [PE.xyOf_ptsOf, PE.zOf_ptsOf, active_cstat', active_cstat'] at h
  unfold PE.ptAt at h
  cases hp : net.points[i]? with
  | none => rw [hp] at h; simp [Lin.Status.isActive] at h
  | some p =>
    rw [hp] at h
    refine ⟨p, rfl, ?_⟩
    unfold keepPt Lin.Pt.active_xy Lin.Pt.active_z
    simpa using h

/-- the slots the class uses, for an observation that passes the structural test of the revision -/
theorem slots_kept [Zero K] (net : PE.Net K) (k : Nat) (o : PE.Ob K)
    (h : MinX.activeBasic (PE.ptsOf net) (o.toMinX k) = true) :
    (∃ p, net.points[o.pfrom]? = some p ∧ keepPt p = true) ∧
    ((o.kind = .x ∨ o.kind = .y ∨ o.kind = .z) ∨ ∃ p, net.points[o.pto]? = some p ∧ keepPt p = true) ∧
    (o.kind ≠ .angle ∨ ∃ p, net.points[o.pfs]? = some p ∧ keepPt p = true) := by
  obtain ⟨act, kind, pf, pt, ps, v⟩ := o
  have K1 := fun i hx => kept_of_active net i (Or.inl hx)
  have K2 := fun i hz => kept_of_active net i (Or.inr hz)
  unfold MinX.activeBasic PE.Ob.toMinX MinX.Obs.needs at h
  cases kind <;> simp only [PE.kindM, List.all_cons, List.all_nil, Bool.and_true, Bool.and_eq_true, if_true,
      Bool.false_eq_true, if_false] at h <;>
    first
    | exact ⟨K1 _ h.2.1, Or.inr (K1 _ h.2.2), Or.inl (by simp)⟩
    | exact ⟨K1 _ h.2.1, Or.inr (K1 _ h.2.2.1), Or.inr (K1 _ h.2.2.2)⟩
    | exact ⟨K2 _ h.2.1, Or.inr (K2 _ h.2.2), Or.inl (by simp)⟩
    | exact ⟨K1 _ h.2.1, Or.inr (K1 _ h.2.2.2.1), Or.inl (by simp)⟩
    | exact ⟨K1 _ h.2, Or.inl (by simp), Or.inl (by simp)⟩
    | exact ⟨K2 _ h.2, Or.inl (by simp), Or.inl (by simp)⟩

theorem map_eq_self {α : Type} (f : α → α) : ∀ l : List α, l.map f = l → ∀ x ∈ l, f x = x
  | [], _, _, hx => by cases hx
  | a :: t, h, x, hx => by
    simp only [List.map_cons, List.cons.injEq] at h
    rcases List.mem_cons.mp hx with rfl | hx
    · exact h.1
    · exact map_eq_self f t h.2 x hx

/-- on a network on which the revision is stable every flag is the verdict of the revision -/
theorem reviseFrom_fix (pts : List MinX.PtS) (all : List (Bool × MinX.Obs)) : ∀ (cs : List (PE.Cluster K)) (k : Nat),
    PE.reviseFrom pts all k cs = cs → ∀ (j : Nat) (c : PE.Cluster K), cs[j]? = some c → ∀ o ∈ c.obs,
      MinX.isRevised pts all (o.toMinX (k + j)) = o.active
  | [], _, _, j, c, hj, _, _ => by simp at hj
  | c0 :: cs, k, h, j, c, hj, o, ho => by
    rw [reviseFrom_eq] at h
    simp only [List.cons.injEq] at h
    cases j with
    | zero =>
      simp only [List.getElem?_cons_zero, Option.some.injEq] at hj
      subst hj
      have h1 := congrArg PE.Cluster.obs h.1
      simp only at h1
      have := map_eq_self (setRev pts all k) c0.obs h1 o ho
      rw [Nat.add_zero]
      exact congrArg PE.Ob.active this
    | succ j =>
      have := reviseFrom_fix pts all cs (k + 1) h.2 j c (by simpa using hj) o ho
      rw [show k + (j + 1) = k + 1 + j by omega]; exact this

theorem mem_revisedFrom : ∀ (cs : List (PE.Cluster K)) (k : Nat) (ob : NObs K), ob ∈ PE.revisedFrom k cs →
    ∃ (j : Nat) (c : PE.Cluster K) (o : PE.Ob K), cs[j]? = some c ∧ o ∈ c.obs ∧ o.active = true ∧ ob = o.toN (k + j)
  | [], _, _, h => by simp [PE.revisedFrom] at h
  | c :: cs, k, ob, h => by
    simp only [PE.revisedFrom, List.mem_append, List.mem_map, List.mem_filter] at h
    rcases h with ⟨o, ⟨ho, ha⟩, rfl⟩ | h
    · exact ⟨0, c, o, by simp, ho, ha, rfl⟩
    · obtain ⟨j, c', o, h1, h2, h3, h4⟩ := mem_revisedFrom cs (k + 1) ob h
      exact ⟨j + 1, c', o, by rw [List.getElem?_cons_succ]; exact h1, h2, h3, by rw [h4, show k + 1 + j = k + (j + 1) by omega]⟩

/-- **what the member function returns for a renamed observation in the physically deleted network** -/
theorem lin_physDel [TrigScalar K] (net : PE.Net K) (hst : PE.revise net = net) (ob : NObs K)
    (hob : ob ∈ PE.revisedObs net) :
    ob.kind.lin net.fuel ((PE.sigmaOf (physDel net)).view (renN (gPt net) (gCl net) ob)) =
      ob.kind.lin net.fuel ((PE.sigmaOf net).view ob) := by
  obtain ⟨j, c, o, hc, ho, ha, rfl⟩ := mem_revisedFrom net.clusters 0 ob hob
  have hfix : PE.reviseFrom (PE.ptsOf net) (PE.flatFrom 0 net.clusters) 0 net.clusters = net.clusters :=
    congrArg PE.Net.clusters hst
  have hrev := reviseFrom_fix _ _ net.clusters 0 hfix j c hc o ho
  rw [ha] at hrev
  have hab : MinX.activeBasic (PE.ptsOf net) (o.toMinX (0 + j)) = true := by
    unfold MinX.isRevised at hrev
    simp only [Bool.and_eq_true] at hrev
    exact hrev.1
  obtain ⟨⟨p1, a1, b1⟩, h2, h3⟩ := slots_kept net (0 + j) o hab
  have hkc : keepCl c = true := by
    unfold keepCl
    cases hh : c.obs with
    | nil => rw [hh] at ho; cases ho
    | cons _ _ => rfl
  -- the records agree on `pfrom`, the value, the orientation, `xNorth`
  have hori : (PE.sigmaOf (physDel net)).ori (gCl net (0 + j)) = (PE.sigmaOf net).ori (0 + j) := by
    unfold PE.sigmaOf
    simp only [Nat.zero_add] at hc ⊢
    rw [cluster_physDel net _ c hc hkc, hc]
    unfold renCl
    obtain ⟨stand, cv, obs⟩ := c
    cases stand with
    | none => rfl
    | some so => obtain ⟨st, oo⟩ := so; cases oo <;> rfl
  have hpf : (PE.sigmaOf (physDel net)).pt (gPt net o.pfrom) = (PE.sigmaOf net).pt o.pfrom :=
    ptAt_physDel net _ p1 a1 b1
  have hV : ∀ (q r : Pt K), (PE.sigmaOf (physDel net)).view (renN (gPt net) (gCl net) (o.toN (0 + j))) =
      { ((PE.sigmaOf net).view (o.toN (0 + j))) with
        pto := (PE.sigmaOf (physDel net)).pt (gPt net o.pto), pfs := (PE.sigmaOf (physDel net)).pt (gPt net o.pfs) } := by
    intro _ _
    unfold Lin.Net.view renN PE.Ob.toN
    simp only
    rw [hpf, hori]
    rfl
  rw [hV ⟨0, 0, 0, .unused, .unused⟩ ⟨0, 0, 0, .unused, .unused⟩]
  have hkind : (o.toN (0 + j)).kind = o.kind := rfl
  rw [hkind]
  -- the two other slots: equal when used, not read otherwise
  have hpto : ∀ (p : PE.Point K), net.points[o.pto]? = some p → keepPt p = true →
      (PE.sigmaOf (physDel net)).pt (gPt net o.pto) = ((PE.sigmaOf net).view (o.toN (0 + j))).pto :=
    fun p a b => ptAt_physDel net _ p a b
  have hpfs : ∀ (p : PE.Point K), net.points[o.pfs]? = some p → keepPt p = true →
      (PE.sigmaOf (physDel net)).pt (gPt net o.pfs) = ((PE.sigmaOf net).view (o.toN (0 + j))).pfs :=
    fun p a b => ptAt_physDel net _ p a b
  generalize (PE.sigmaOf net).view (o.toN (0 + j)) = V at hpto hpfs ⊢
  generalize (PE.sigmaOf (physDel net)).pt (gPt net o.pto) = Q at hpto ⊢
  generalize (PE.sigmaOf (physDel net)).pt (gPt net o.pfs) = R at hpfs ⊢
  rcases h3 with hna | ⟨p3, a3, b3⟩
  · have e1 : o.kind.lin net.fuel { V with pto := Q, pfs := R } = o.kind.lin net.fuel { V with pto := Q } :=
      lin_pfs o.kind hna net.fuel { V with pto := Q } R
    rw [e1]
    rcases h2 with hx | ⟨p2, a2, b2⟩
    · exact lin_pto o.kind hx net.fuel V Q
    · rw [hpto p2 a2 b2]
  · rw [hpfs p3 a3 b3]
    rcases h2 with hx | ⟨p2, a2, b2⟩
    · exact lin_pto o.kind hx net.fuel V Q
    · rw [hpto p2 a2 b2]

theorem cluster_of_revised (net : PE.Net K) (ob : NObs K) (hob : ob ∈ PE.revisedObs net) :
    ∃ c, net.clusters[ob.sp]? = some c ∧ keepCl c = true := by
  obtain ⟨j, c, o, hc, ho, _, rfl⟩ := mem_revisedFrom net.clusters 0 ob hob
  refine ⟨c, by simpa [PE.Ob.toN] using hc, ?_⟩
  unfold keepCl
  cases hh : c.obs with
  | nil => rw [hh] at ho; cases ho
  | cons _ _ => rfl


/-- **one inner call on the physically deleted network, for every network on which the revision is stable** -/
theorem assemble_physDel' [TrigScalar K] (net : PE.Net K) (hst : PE.revise net = net) (a : PE.Asm K)
    (h : PE.assemble net = .ok a) :
    ∃ a' b, PE.assemble (physDel net) = .ok a' ∧ PE.Fresh net a b ∧
      a'.np.m = a.np.m ∧ a'.np.n = a.np.n ∧ a'.np.rows = a.np.rows ∧ a'.np.rhs = a.np.rhs ∧
      Ls.Net.cofs a'.np = Ls.Net.cofs a.np ∧ a'.np.minx = a.np.minx ∧
      AgreeOn (PE.Cleared (physDel net)) (b.idx.mapKeys (relab (gPt net) (gCl net))) a'.idx := by
  refine assemble_physDel_core net ?_ (cluster_of_revised net) a h
  rw [revisedObs_physDel]
  exact passFrom_relabel' (PE.sigmaOf net) (PE.sigmaOf (physDel net)) net.fuel (gPt net) (gCl net)
    (gmap_injective _) (gmap_injective _) (PE.revisedObs net) (fun ob hob => lin_physDel net hst ob hob) IdxState.init


/-! ### (2) the walks over `PD` on the shorter list: `singular_coords` (verdict), `min_n_`, `min_x_` -/

def ptS (p : PE.Point K) : MinX.PtS := ⟨p.id, PE.cstat p.pt.sxy, PE.cstat p.pt.sz⟩

theorem ptsOf_eq (net : PE.Net K) : PE.ptsOf net = net.points.map ptS := rfl
theorem ptsOf_physDel (net : PE.Net K) : PE.ptsOf (physDel net) = (net.points.filter keepPt).map ptS := rfl

/-- the relabelled numbering on the kept points of a tail of `PD` -/
def Shift (i i' : MinX.Unk → Nat) (ps : List (PE.Point K)) (k k' : Nat) : Prop :=
  ∀ j q, ps[j]? = some q → keepPt q = true →
    i' (.x (k' + rank (ps.map keepPt) j)) = i (.x (k + j)) ∧ i' (.y (k' + rank (ps.map keepPt) j)) = i (.y (k + j)) ∧
    i' (.z (k' + rank (ps.map keepPt) j)) = i (.z (k + j))

theorem Shift.head {i i' : MinX.Unk → Nat} {q : PE.Point K} {ps : List (PE.Point K)} {k k' : Nat}
    (H : Shift i i' (q :: ps) k k') (hq : keepPt q = true) :
    i' (.x k') = i (.x k) ∧ i' (.y k') = i (.y k) ∧ i' (.z k') = i (.z k) := by
  simpa [rank] using H 0 q (by simp) hq

theorem Shift.tail {i i' : MinX.Unk → Nat} {q : PE.Point K} {ps : List (PE.Point K)} {k k' : Nat}
    (H : Shift i i' (q :: ps) k k') :
    Shift i i' ps (k + 1) (k' + if keepPt q = true then 1 else 0) := by
  intro j q' hj hq'
  have := H (j + 1) q' (by rw [List.getElem?_cons_succ]; exact hj) hq'
  rw [show k + (j + 1) = k + 1 + j by omega, List.map_cons, rank_cons] at this
  rw [show k' + (if keepPt q = true then 1 else 0) + rank (ps.map keepPt) j =
    k' + ((if keepPt q = true then 1 else 0) + rank (ps.map keepPt) j) by omega]
  exact this

theorem dropped_status (q : PE.Point K) (h : keepPt q = false) :
    (PE.cstat q.pt.sxy).active = false ∧ (PE.cstat q.pt.sz).active = false := by
  unfold keepPt Lin.Pt.active_xy Lin.Pt.active_z at h
  rw [active_cstat', active_cstat']
  simpa using h

theorem singularFrom_physDel [Scalar K] (A : Ls.DMat K) (i i' : MinX.Unk → Nat) :
    ∀ (ps : List (PE.Point K)) (k k' : Nat), Shift i i' ps k k' →
    (MinX.singularFrom (fun p => SingularCoords.degenTest A (i' (.x p)) (i' (.y p))) i' k' ((ps.filter keepPt).map ptS)).1 =
    (MinX.singularFrom (fun p => SingularCoords.degenTest A (i (.x p)) (i (.y p))) i k (ps.map ptS)).1
  | [], _, _, _ => rfl
  | q :: ps, k, k', H => by
    by_cases hq : keepPt q = true
    · have ih := singularFrom_physDel A i i' ps (k + 1) (k' + 1) (by simpa [hq] using H.tail)
      obtain ⟨hx, hy, _⟩ := H.head hq
      simp only [List.filter_cons, hq, if_true, List.map_cons, MinX.singularFrom, MinX.singularPoint, hx, hy, ih]
    · simp only [Bool.not_eq_true] at hq
      have ih := singularFrom_physDel A i i' ps (k + 1) k' (by simpa [hq] using H.tail)
      obtain ⟨d1, _⟩ := dropped_status q hq
      have hsp : (ptS q).xy.active = false := d1
      simp only [List.filter_cons, hq, Bool.false_eq_true, if_false, List.map_cons, MinX.singularFrom,
        MinX.singularPoint, hsp, Bool.not_false, Bool.or_true, if_true, Bool.false_or, ih]

theorem constrained_active (s : NetDecision.CStat) (h : s.active = false) : (s = .constrained) = False := by
  cases s <;> simp_all [NetDecision.CStat.active]

theorem countFrom_physDel (i i' : MinX.Unk → Nat) :
    ∀ (ps : List (PE.Point K)) (k k' : Nat), Shift i i' ps k k' →
    MinX.countFrom i' k' ((ps.filter keepPt).map ptS) = MinX.countFrom i k (ps.map ptS)
  | [], _, _, _ => rfl
  | q :: ps, k, k', H => by
    by_cases hq : keepPt q = true
    · have ih := countFrom_physDel i i' ps (k + 1) (k' + 1) (by simpa [hq] using H.tail)
      obtain ⟨hx, _, hz⟩ := H.head hq
      simp only [List.filter_cons, hq, if_true, List.map_cons, MinX.countFrom, hx, hz, ih]
    · simp only [Bool.not_eq_true] at hq
      have ih := countFrom_physDel i i' ps (k + 1) k' (by simpa [hq] using H.tail)
      obtain ⟨d1, d2⟩ := dropped_status q hq
      have c1 : ((ptS q).xy = .constrained) = False := constrained_active _ d1
      have c2 : ((ptS q).z = .constrained) = False := constrained_active _ d2
      simp only [List.filter_cons, hq, Bool.false_eq_true, if_false, List.map_cons, MinX.countFrom, c1, c2,
        decide_false, Bool.false_and, Nat.zero_add, ih]

theorem fillFrom_physDel (i i' : MinX.Unk → Nat) :
    ∀ (ps : List (PE.Point K)) (k k' : Nat), Shift i i' ps k k' →
    MinX.fillFrom i' k' ((ps.filter keepPt).map ptS) = MinX.fillFrom i k (ps.map ptS)
  | [], _, _, _ => rfl
  | q :: ps, k, k', H => by
    by_cases hq : keepPt q = true
    · have ih := fillFrom_physDel i i' ps (k + 1) (k' + 1) (by simpa [hq] using H.tail)
      obtain ⟨hx, hy, hz⟩ := H.head hq
      simp only [List.filter_cons, hq, if_true, List.map_cons, MinX.fillFrom, hx, hy, hz, ih]
    · simp only [Bool.not_eq_true] at hq
      have ih := fillFrom_physDel i i' ps (k + 1) k' (by simpa [hq] using H.tail)
      obtain ⟨d1, d2⟩ := dropped_status q hq
      have c1 : ((ptS q).xy = .constrained) = False := constrained_active _ d1
      have c2 : ((ptS q).z = .constrained) = False := constrained_active _ d2
      simp only [List.filter_cons, hq, Bool.false_eq_true, if_false, List.map_cons, MinX.fillFrom, c1, c2,
        decide_false, Bool.false_and, List.nil_append, ih]


/-! ### the whole call on the physically deleted network -/

theorem gPt_kept (net : PE.Net K) (j : Nat) (q : PE.Point K) (hj : net.points[j]? = some q) (hq : keepPt q = true) :
    gPt net j = rank (net.points.map keepPt) j := by
  unfold gPt gmap
  have : (net.points.map keepPt).getD j false = true := by simp [List.getD, hj, hq]
  rw [if_pos this]

theorem shift_physDel [TrigScalar K] (net : PE.Net K) (a a' : PE.Asm K) (b : PassOut K) (F : PE.Fresh net a b)
    (hag : AgreeOn (PE.Cleared (physDel net)) (b.idx.mapKeys (relab (gPt net) (gCl net))) a'.idx) :
    Shift (PE.idxFn a.idx) (PE.idxFn a'.idx) net.points 0 0 := by
  intro j q hj hq
  have hinj : Function.Injective (relab (gPt net) (gCl net)) :=
    relab_injective _ _ (gmap_injective (net.points.map keepPt)) (gmap_injective (net.clusters.map keepCl))
  have hguard : Gen.Lin.resetGuard (PE.ptAt net j) = true := by
    rw [PE.ptAt_of_get net j q hj]
    unfold keepPt at hq
    simp only [Bool.or_eq_true] at hq
    rcases hq with hq | hq
    · exact (PE.resetGuard_of_active _).1 hq
    · exact (PE.resetGuard_of_active _).2 hq
  have key : ∀ c : Coord, c ≠ .ori → a'.idx.get ⟨rank (net.points.map keepPt) j, c⟩ = a.idx.get ⟨j, c⟩ := by
    intro c hc
    have hr : relab (gPt net) (gCl net) ⟨j, c⟩ = ⟨rank (net.points.map keepPt) j, c⟩ := by
      rw [← gPt_kept net j q hj hq]
      cases c <;> first | rfl | exact absurd rfl hc
    have hcl' : PE.Cleared (physDel net) (relab (gPt net) (gCl net) ⟨j, c⟩) := by
      right
      rw [hr]
      show Gen.Lin.resetGuard (PE.ptAt (physDel net) _) = true
      rw [← gPt_kept net j q hj hq, ptAt_physDel net j q hj hq]
      exact hguard
    have h1 := hag.2 _ hcl'
    rw [IdxState.get_mapKeys _ hinj, hr] at h1
    rw [← h1, F.agree ⟨j, c⟩ (Or.inr hguard)]
  simp only [Nat.zero_add, PE.idxFn, PE.toLin]
  exact ⟨key .x (by simp), key .y (by simp), key .z (by simp)⟩

/-- **`project_equations()` on the physically deleted network** when the call on the network is one inner
    call (revision stable, no singular point) — the situation of the deleted input of round 8.  Hypothesis
    `hrev'`: the revision is stable on the physically deleted network too (item (1), not proved). -/
theorem pe_physDel [TrigScalar K] (net : PE.Net K) (hst : PE.revise net = net)
    (hrev' : PE.revise (physDel net) = physDel net) (a : PE.Asm K) (ha : PE.assemble net = .ok a)
    (hh : Ls.Net.Hom K) (hprep : Ls.Net.prepare a.np = .ok hh)
    (hsc : (SingularCoords.singularCoords hh.Ad (PE.idxFn a.idx) (PE.ptsOf net)).1 = false) :
    PE.projectEquations net =
      .ok ({ a.np with minx := (MinX.feed (PE.idxFn a.idx) (PE.ptsOf net)).2 }, ⟨a.np.n, a.list, { net with idx := a.idx }, []⟩) ∧
    ∃ np' u', PE.projectEquations (physDel net) = .ok (np', u') ∧
      np'.m = a.np.m ∧ np'.n = a.np.n ∧ np'.rows = a.np.rows ∧ np'.rhs = a.np.rhs ∧
      np'.minx = (MinX.feed (PE.idxFn a.idx) (PE.ptsOf net)).2 ∧ Ls.Net.cofs np' = Ls.Net.cofs a.np ∧
      u'.n = a.np.n ∧ u'.removed = [] ∧ u'.net.points = (physDel net).points ∧ u'.net.clusters = (physDel net).clusters ∧
      ∀ alg : Ls.Alg, Ls.Net.netSolve alg np' =
        Ls.Net.netSolve alg { a.np with minx := (MinX.feed (PE.idxFn a.idx) (PE.ptsOf net)).2 } := by
  constructor
  · unfold PE.projectEquations
    simp only [PE.peLoop, hst, ha, hprep, hsc]
    rfl
  obtain ⟨a', b, h1, F, hm, hn, hr, hb, hc, _, hag⟩ := assemble_physDel' net hst a ha
  have hS := shift_physDel net a a' b F hag
  have hprep' : Ls.Net.prepare a'.np = .ok hh := by
    rw [prepare_congr a'.np a.np hm hn hr hb hc]; exact hprep
  have hsc' : (SingularCoords.singularCoords hh.Ad (PE.idxFn a'.idx) (PE.ptsOf (physDel net))).1 = false := by
    unfold SingularCoords.singularCoords MinX.singularCoords at hsc ⊢
    rw [ptsOf_physDel, singularFrom_physDel hh.Ad _ _ net.points 0 0 hS, ← ptsOf_eq]
    exact hsc
  have hfeed : (MinX.feed (PE.idxFn a'.idx) (PE.ptsOf (physDel net))).2 = (MinX.feed (PE.idxFn a.idx) (PE.ptsOf net)).2 := by
    unfold MinX.feed MinX.countMin MinX.fillMin
    simp only [ptsOf_physDel, countFrom_physDel _ _ net.points 0 0 hS, fillFrom_physDel _ _ net.points 0 0 hS, ← ptsOf_eq]
  refine ⟨{ a'.np with minx := (MinX.feed (PE.idxFn a'.idx) (PE.ptsOf (physDel net))).2 },
    ⟨a'.np.n, a'.list, { physDel net with idx := a'.idx }, []⟩, ?_, hm, hn, hr, hb, hfeed, ?_, hn, rfl, rfl, rfl, ?_⟩
  · unfold PE.projectEquations
    have hlen : (physDel net).points.length + 1 = ((physDel net).points.length) + 1 := rfl
    simp only [PE.peLoop, hrev', h1, hprep', hsc']
    rfl
  · exact hc
  · intro alg
    exact netSolve_congr alg _ _ hm hn hr hb hc hfeed

end Gama.RevPE
