/-
  C06 — exact observations through the EXECUTED models of `project_equations()` and of the solver façade:

      `PE.projectEquations net = .ok (np, u)`  ∧  every revised observation exact at the coordinates of the network
      ∧  `Net.netSolve alg np = .ok a`  (envelope / cholesky / gso, under the ONE rank-gap hypothesis of C01)
      ⟹  `a.x = 0`, `a.r = 0`, `a.pvv = 0`.

  Composition of `pe_final` + `assemble_fresh` (a completed call IS one pass of `Lin.passFrom` over `revised_obs_` of
  the network it leaves), `C06FP.pass_rhs_zero` (exact ⇒ every absolute term 0), `C01_net_of_gap` (the façade answers a
  least-squares solution for `P = m0²·Σ⁻¹`, `S = min_x_`), `Net.weight_gram` (that `P` is a Gram matrix of an injective
  `W`, hence positive definite — nothing is ASSUMED about the weights), `RankGap.resolves` and
  `C06FP.ls_solution_of_zero_rhs_resolves` (zero right-hand side + min-norm on `S` ⇒ 0).

  Carrier: ℝ with `Real.sqrt` as `scalarOfField` (the instance of the C01 façade theorems) and the real trigonometric
  functions (`realTrig`); `trig_eq` says this IS the `TrigScalar ℝ` instance the C05/C06 linearisation lemmas are
  stated at (`instTrigScalarReal`).
-/
import Gama.Props.C01.Gap2
import Gama.Props.C01.ProjectEquations
import Gama.Lemmas.C06FixedPoint
import Gama.Lemmas.StatsCompose
namespace Gama.C06NZ
open Gama Gama.Lin Gama.PE Gama.Ls Gama.Ls.Net Gama.LS Gama.C06FP Gama.Props.C01 Matrix

theorem getD_replicate_zero (m i : Nat) : ((List.replicate m (0 : ℝ)).toArray.getD i 0) = 0 := by
  rw [Array.getD_eq_getD_getElem?]
  simp only [List.toArray_replicate, Array.getElem?_replicate]
  split <;> rfl

attribute [local instance] sqrtFnOfSqrtField
attribute [local instance 2000] scalarOfField

/-- sin, cos, `atan2 y x = arg (x + iy)`, arccos, π -/
noncomputable def realTrig : TrigFns ℝ := ⟨Real.sin, Real.cos, fun y x => Complex.arg ⟨x, y⟩, Real.arccos, Real.pi⟩

/-- the carrier of the façade theorems with the real trigonometric functions is the `TrigScalar ℝ` of the
    linearisation lemmas -/
theorem trig_eq : trigOfField realTrig = instTrigScalarReal := by
  have h : (scalarOfField : Scalar ℝ) = instScalarReal := scalarReal_eq_fieldScalar.symm
  show (TrigScalar.mk (toScalar := scalarOfField) Real.sin Real.cos (fun y x => Complex.arg ⟨x, y⟩) Real.arccos Real.pi) =
    TrigScalar.mk (toScalar := instScalarReal) Real.sin Real.cos (fun y x => Complex.arg ⟨x, y⟩) Real.arccos Real.pi
  rw [h]

theorem passFrom_inst (σ : Lin.Net ℝ) (fuel : Nat) (obs : List (NObs ℝ)) (s : IdxState) :
    @passFrom ℝ (trigOfField realTrig) σ fuel obs s = @passFrom ℝ instTrigScalarReal σ fuel obs s := by
  rw [trig_eq]

/-- `trigOfField realTrig` as the instance in force below -/
@[reducible] noncomputable def fieldTrig : TrigScalar ℝ := trigOfField realTrig
attribute [local instance 3000] fieldTrig

/-- the right-hand side the call hands to the solver is zero when the observations it kept are exact -/
theorem pe_rhs_zero (net : PE.Net ℝ) (np : NetProblem ℝ) (u : Unknowns ℝ)
    (hpe : @projectEquations ℝ (trigOfField realTrig) net = .ok (np, u))
    (hex : ∀ ob ∈ revisedObs u.net, ExactObs (sigmaOf u.net) ob) :
    np.rhs = (List.replicate np.m (0 : ℝ)).toArray := by
  obtain ⟨net', a, F⟩ := pe_final net np u hpe
  obtain ⟨b, Fr⟩ := assemble_fresh net' a F.asm
  have hs : sigmaOf u.net = sigmaOf net' := by rw [F.u_net]; rfl
  have hr : revisedObs u.net = revisedObs net' := by rw [F.u_net]; rfl
  rw [hs, hr] at hex
  have hp := Fr.pass
  rw [passFrom_inst] at hp
  have h0 := pass_rhs_zero (sigmaOf net') net'.fuel (revisedObs net') IdxState.init b hex hp
  have hm : np.m = (revisedObs net').length := by rw [F.np_eq]; exact Fr.m
  have hrhs : np.rhs = b.rhs.toArray := by rw [F.np_eq]; exact Fr.rhs
  rw [hrhs, h0, hm]

/-- **exact network ⇒ zero solution**, for the executed models -/
theorem exact_network_solution_zero (net : PE.Net ℝ) (np : NetProblem ℝ) (u : Unknowns ℝ)
    (hpe : @projectEquations ℝ (trigOfField realTrig) net = .ok (np, u))
    (hex : ∀ ob ∈ revisedObs u.net, ExactObs (sigmaOf u.net) ob)
    (hm0 : np.m0 ≠ 0)
    (Pc : Matrix (Fin (toProblem np).m) (Fin (toProblem np).m) ℝ) (hPc : Sigma np * Pc = 1)
    (hreg : Env.RegListOK (toProblem np)) {τ : ℝ} (hτ : GapThresholds τ)
    (hgap : RankGap (toProblem np).A ((np.m0 * np.m0) • Pc) (toProblem np).S τ)
    (alg : Alg) (halg : alg ≠ .svd) (a : NetAnswer ℝ) (hs : netSolve alg np = .ok a) :
    toVec (toProblem np).n a.x = 0 ∧ toVec (toProblem np).m a.r = 0 ∧ a.pvv = 0 := by
  have hdim := C01_pe_dimsN realTrig net np u hpe
  have hrows := @C01_pe_rowsOK ℝ (trigOfField realTrig) net np u hpe
  have hls := C01_net_of_gap np hdim hrows hm0 Pc hPc hreg hτ hgap alg halg a hs
  -- b = 0
  have hb : (toProblem np).b = 0 := by
    funext i
    show toVec (toProblem np).m (toProblem np).rhs i = 0
    show (np.rhs.getD i.val 0 : ℝ) = 0
    rw [pe_rhs_zero net np u hpe hex]
    exact getD_replicate_zero _ _
  rw [hb] at hls
  -- P is positive definite: a Gram matrix of the injective whitening
  have hprep : ∃ hh, prepare np = .ok hh := by
    cases alg with
    | svd => exact absurd rfl halg
    | env => obtain ⟨hh, _, hp, _⟩ := netSparse_shape np a hs; exact ⟨hh, hp⟩
    | chol => obtain ⟨hh, _, hp, _⟩ := netFull_shape .chol np a hs; exact ⟨hh, hp⟩
    | gso => obtain ⟨hh, _, hp, _⟩ := netFull_shape .gso np a hs; exact ⟨hh, hp⟩
  obtain ⟨hh, hp⟩ := hprep
  obtain ⟨W, hW, hWinj⟩ := weight_gram C01_gap2_isSqrt np hdim hh hp _ (weight_of_sigma np hdim hm0 Pc hPc)
  have hpd : ∀ d, d ≠ 0 → 0 < d ⬝ᵥ ((np.m0 * np.m0) • Pc) *ᵥ d := by rw [← hW]; exact gram_pd W hWinj
  exact ls_solution_of_zero_rhs_resolves hls hpd hgap.2.resolves

end Gama.C06NZ
