/-
  C07: the hand model `PointId.init` (Model/PointIdBase.lean) equals the function regenerated from
  `PointID::init` of lib/gnu_gama/local/pointid.cpp (Gen/PointIdInit.lean, tools/gen/c07_pointid_init.py).
  A changed statement of the C++ changes the generated definition and breaks `init_eq_gen`.

  The generated loop appends (`sid.push_back(t)` = `sid ++ [t]`) and carries `t`, `prev`, `curr`;
  the hand model's `collapse` conses.  `foldl_loopBody_sid` relates them for every start state.
-/
import Gama.Gen.PointIdInit
import Gama.Lemmas.C07PointId

namespace Gama.PointId
open Gama.Gen.PointIdInit (loopBody LoopState)

/-- the loop of the generated `init`, from any state: what is appended to `sid` is `collapse prev s` -/
theorem foldl_loopBody_sid : ∀ (s : Bytes) (st : LoopState),
    (s.foldl loopBody st).sid = st.sid ++ collapse st.prev s
  | [], st => by simp [collapse]
  | c :: cs, st => by
    rw [List.foldl_cons, foldl_loopBody_sid cs (loopBody st c), collapse.eq_2]
    unfold loopBody
    by_cases h : (st.prev && isSpace c) = true
    · simp only [h, if_true]
    · simp only [h, if_false, Bool.false_eq_true, List.append_assoc, List.singleton_append]

/-- `if (!sid.empty() && std::isspace(sid.back())) sid.pop_back();` as generated = `dropTrailingSpace` -/
theorem dropTrailing_gen (l : Bytes) :
    (if ((!l.isEmpty) && isSpace (l.getLastD 0)) = true then l.dropLast else l) = dropTrailingSpace l := by
  unfold dropTrailingSpace
  cases l with
  | nil => simp
  | cons a t =>
    rw [List.getLastD_eq_getLast?]
    cases h : (a :: t).getLast? with
    | none => simp at h
    | some c => simp

theorem init_eq_gen (s : Bytes) : init s = Gen.PointIdInit.init s := by
  unfold init Gen.PointIdInit.init normalize
  simp only [foldl_loopBody_sid, List.nil_append, dropTrailing_gen, decide_eq_true_eq, Int.toNat_zero]

/-! ### the facts of Lemmas/C07PointId.lean on the generated function -/

theorem gen_init_valid (s : Bytes) : Valid (Gen.PointIdInit.init s) := init_eq_gen s ▸ init_valid s

theorem gen_sid (s : Bytes) : (Gen.PointIdInit.init s).sid = normalize s := by
  rw [← init_eq_gen]
  unfold init
  simp only
  split
  · rfl
  · split
    · rfl
    · split <;> rfl

/-- a non-zero `iid` is the value the normalised string spells: the string is accepted by `IsInteger`,
    its value is positive and printing the value gives the string back -/
theorem gen_iid_ne_zero {s : Bytes} (h : (Gen.PointIdInit.init s).iid ≠ 0) :
    isInteger (normalize s) = true ∧ 0 < parseLong (normalize s) ∧
    (Gen.PointIdInit.init s).iid = (parseLong (normalize s)).toNat ∧
    renderNat (Gen.PointIdInit.init s).iid = normalize s := by
  rw [← init_eq_gen] at h ⊢
  unfold init at h ⊢
  simp only at h ⊢
  split at h
  · exact absurd rfl h
  · rename_i h1
    split at h
    · exact absurd rfl h
    · rename_i h2
      split at h
      · exact absurd rfl h
      · rename_i h3
        rw [if_neg h1, if_neg h2, if_neg h3]
        simp only at h ⊢
        refine ⟨by simpa using h1, ?_, trivial, Classical.not_not.1 h3⟩
        omega

theorem gen_lt_trichotomy (s t : Bytes) :
    lt (Gen.PointIdInit.init s) (Gen.PointIdInit.init t) = true ∨ Gen.PointIdInit.init s = Gen.PointIdInit.init t ∨
      lt (Gen.PointIdInit.init t) (Gen.PointIdInit.init s) = true :=
  lt_trichotomy (gen_init_valid s) (gen_init_valid t)

end Gama.PointId
