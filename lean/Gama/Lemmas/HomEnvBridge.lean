/-
  `Homogenization::run` twice: C10's executable model `Cov.Hom.run` (Model/Homogenization.lean: sparse matrix
  `SMat`, `BlockDiag` object, counting / gather / scatter passes) and the homogenisation `envSolve` runs
  (`Ls.Env.homogenize`, Model/Ls/Env/Homog.lean: dense columns, `homVec`).  Both call the same kernels
  (`Cov.bdCholBlock`, `Cov.sweep`/`sweepTab`); this file proves that they compute the same numbers and
  reject the same inputs:

    * `factorsU_some_iff`   : `factorsU` accepts iff every block is accepted by `bdCholBlock`;
    * `locate_off`          : the offset `locate` returns is the number of rows before the block;
    * `tri_unique`          : a lower triangular system with non-zero diagonal has one solution;
    * `hom_run_eq_homogenize` : rejections coincide (both `NonPositiveDefinite`), and on acceptance
                              `out.pr = h.bt`, `dense(out.sm) = h.At` entry by entry.

  Scalar structures: `Hom.run` is run at C10's `Cov.fieldScalar K sq`, `homogenize` at the solver
  theorems' `scalarOfField` (= `Gama.fieldScalar sq`); the two are EQUAL (`covFieldScalar_eq`).
-/
import Gama.Lemmas.CovHomRun
import Gama.Lemmas.Ls.ComposeHomog

namespace Gama.Ls
open Finset Gama.LS Gama.Ls.AdjM Dn Gama.Ls.Env

set_option linter.unusedSectionVars false
set_option linter.unusedVariables false

/-! ### list bookkeeping -/

theorem locate_off : ∀ (dims : List Nat) (s : Nat), s < dims.sum →
    (AdjM.locate dims s).2 = (dims.take (AdjM.locate dims s).1).sum := by
  intro dims
  induction dims with
  | nil => intro s hs; simp at hs
  | cons d ds ih =>
    intro s hs
    rw [List.sum_cons] at hs
    rw [locate_cons]
    by_cases h : s < d
    · rw [if_pos h]; simp
    · rw [if_neg h]
      have := ih (s - d) (by omega)
      simp only [List.take_succ_cons, List.sum_cons]
      omega

section
variable {K : Type} [Field K] [LinearOrder K] [IsStrictOrderedRing K] [SqrtFn K]
attribute [local instance 2000] scalarOfField

theorem factorsU_some_iff : ∀ (bs : List (CovBlock K)),
    (∃ Fs, Env.factorsU bs = some Fs) ↔
      ∀ b ∈ bs, ∃ F, Cov.bdCholBlock (Env.bdTol : K) (Env.blockMat b) = .ok F := by
  intro bs
  induction bs with
  | nil => exact ⟨fun _ b hb => by simp at hb, fun _ => ⟨[], rfl⟩⟩
  | cons b0 bs ih =>
    constructor
    · rintro ⟨Fs, h⟩ b hb
      unfold Env.factorsU at h
      cases h0 : Cov.bdCholBlock (Env.bdTol : K) (Env.blockMat b0) with
      | error e => rw [h0] at h; cases h
      | ok F0 =>
        rw [h0] at h
        simp only at h
        cases h1 : Env.factorsU bs with
        | none => rw [h1] at h; cases h
        | some Fs' =>
          rcases List.mem_cons.1 hb with rfl | hb'
          · exact ⟨F0, h0⟩
          · exact ih.1 ⟨Fs', h1⟩ b hb'
    · intro h
      obtain ⟨F0, h0⟩ := h b0 (List.mem_cons_self ..)
      obtain ⟨Fs', h1⟩ := ih.2 (fun b hb => h b (List.mem_cons_of_mem _ hb))
      refine ⟨F0 :: Fs', ?_⟩
      unfold Env.factorsU
      rw [h0]
      simp only
      rw [h1]

/-- a lower triangular system with non-zero diagonal has at most one solution -/
theorem tri_unique (d : Nat) (a : Nat → Nat → K) (X Y R : Nat → K) (hne : ∀ u, u < d → a u u ≠ 0)
    (hX : ∀ u, u < d → ∑ v ∈ range (u + 1), a u v * X v = R u)
    (hY : ∀ u, u < d → ∑ v ∈ range (u + 1), a u v * Y v = R u) :
    ∀ u, u < d → X u = Y u := by
  intro u
  induction u using Nat.strong_induction_on with
  | _ u ih =>
    intro hu
    have h1 := hX u hu
    have h2 := hY u hu
    rw [Finset.sum_range_succ] at h1 h2
    have hs : ∑ v ∈ range u, a u v * X v = ∑ v ∈ range u, a u v * Y v := by
      refine Finset.sum_congr rfl fun v hv => ?_
      have hv' := Finset.mem_range.1 hv
      rw [ih v hv' (by omega)]
    rw [hs] at h1
    have : a u u * X u = a u u * Y u := by
      have := h1.trans h2.symm
      exact add_left_cancel this
    exact mul_left_cancel₀ (hne u hu) this

/-- C10's kernel at C10's scalar structure is the kernel `homogenize` runs -/
theorem bdCholBlock_inst (tol : K) (C : Cov.CovMat K) :
    @Cov.bdCholBlock K (Cov.fieldScalar K (SqrtFn.sq : K → K)) tol C = Cov.bdCholBlock tol C :=
  congrArg (fun S : Scalar K => @Cov.bdCholBlock K S tol C) (covFieldScalar_eq (SqrtFn.sq : K → K))

/-- the list of packed blocks `BlockDiagonal` holds for the problem `p` -/
def Env.covMats (p : Problem K) : List (Cov.CovMat K) := p.cov.toList.map Env.blockMat

theorem rowsBefore_covMats (p : Problem K) (k : Nat) :
    Cov.rowsBefore (Env.covMats p) k = ((dimsOf p).take k).sum := by
  unfold Cov.rowsBefore Env.covMats dimsOf
  rw [← List.map_take, ← List.map_take, List.map_map]
  rfl

/-- what `homogenize` returns, read off its definition -/
theorem homogenize_ok (p : Problem K) (h : Env.Homog K) (hh : Env.homogenize p = .ok h) :
    ∃ Fs, Env.factorsU p.cov.toList = some Fs ∧
      h.bt = Env.homVec (dimsOf p) Fs p.m (Env.vget p.rhs) ∧
      ∀ s c, s < p.m → c < p.n →
        Env.mget h.At s c = Dn.vget (Env.homVec (dimsOf p) Fs p.m fun i => Env.mget p.dense i c) s := by
  unfold Env.homogenize at hh
  cases hF : Env.factorsU p.cov.toList with
  | none => rw [hF] at hh; cases hh
  | some Fs =>
    rw [hF] at hh
    simp only at hh
    have hh' := (Except.ok.inj hh).symm
    subst hh'
    refine ⟨Fs, rfl, rfl, ?_⟩
    intro s c hs hc
    show Env.vget ((Array.ofFn _).getD s #[]) c = _
    rw [getD_ofFn', dif_pos hs]
    show (Array.ofFn _).getD c 0 = _
    rw [getD_ofFn', dif_pos hc]
    show Env.vget ((Array.ofFn _).getD c #[]) s = _
    rw [getD_ofFn', dif_pos hc]
    rfl

theorem homogenize_error (p : Problem K) (e : ErrKind) (hh : Env.homogenize p = .error e) :
    e = .NonPositiveDefinite ∧ Env.factorsU p.cov.toList = none := by
  unfold Env.homogenize at hh
  cases hF : Env.factorsU p.cov.toList with
  | none => rw [hF] at hh; simp only at hh; exact ⟨(Except.error.inj hh).symm, rfl⟩
  | some Fs => rw [hF] at hh; cases hh

theorem homVec_size (dims : List Nat) (Fs : List (Cov.CovMat K)) (m : Nat) (x : Nat → K) :
    (Env.homVec dims Fs m x).size = m := by
  simp [Env.homVec, Env.vecOf]

/-- the two forms of the block system (`Hom.run_spec`: `Icc`, `F.get i j`; `homVec_solve`: `range`, `lowerEntry`)
    have the same solution -/
theorem block_agree (F : Cov.CovMat K) (d off : Nat) (X Y R : Nat → K)
    (hpos : ∀ i, 1 ≤ i → i ≤ d → 0 < F.get i i)
    (hX : ∀ i, 1 ≤ i → i ≤ d → ∑ j ∈ Icc 1 i, F.get i j * X (off + j - 1) = R (off + i - 1))
    (hY : ∀ u, u < d → ∑ i ∈ range d, Env.lowerEntry F u i * Y (off + i) = R (off + u)) :
    ∀ u, u < d → X (off + u) = Y (off + u) := by
  refine tri_unique d (fun u v => F.get (u + 1) (v + 1)) (fun v => X (off + v)) (fun v => Y (off + v))
    (fun u => R (off + u)) (fun u hu => ne_of_gt (hpos (u + 1) (by omega) (by omega))) ?_ ?_
  · intro u hu
    have := hX (u + 1) (by omega) (by omega)
    rw [Env.sum_Icc_shift] at this
    rw [show off + (u + 1) - 1 = off + u by omega] at this
    refine Eq.trans ?_ this
    refine Finset.sum_congr rfl fun v _ => ?_
    rw [show off + (v + 1) - 1 = off + v by omega]
  · intro u hu
    have := hY u hu
    rw [← this, ← Env.sum_range_le d u hu]
    refine Finset.sum_congr rfl fun v _ => ?_
    unfold Env.lowerEntry
    by_cases hv : v ≤ u
    · rw [if_pos hv, if_pos hv, Cov.CovMat.get_symm F (u + 1) (v + 1)]
    · rw [if_neg hv, if_neg hv, zero_mul]

theorem homogenize_error_iff (p : Problem K) :
    (∃ e, Env.homogenize p = .error e) ↔ Env.factorsU p.cov.toList = none := by
  constructor
  · rintro ⟨e, he⟩; exact (homogenize_error p e he).2
  · intro h
    unfold Env.homogenize
    rw [h]
    exact ⟨_, rfl⟩

theorem covMats_length (p : Problem K) : (Env.covMats p).length = p.cov.toList.length := by
  simp [Env.covMats]

theorem covMats_get (p : Problem K) (k : Nat) (hk : k < (Env.covMats p).length) (hk' : k < p.cov.toList.length) :
    (Env.covMats p)[k] = Env.blockMat (p.cov.toList[k]) := by
  simp [Env.covMats]

theorem covMats_dims (p : Problem K) : (Env.covMats p).map (·.dim) = dimsOf p := by
  unfold Env.covMats dimsOf
  rw [List.map_map]
  rfl

/-- **one vector**: a vector `X` that solves, block by block, the lower triangular systems of the accepted
    factors (the form `Hom.run_spec` states) is the vector `homVec` computes -/
theorem hom_env_point (hsq : IsSqrt (SqrtFn.sq : K → K)) (p : Problem K) (hwf : Env.BlocksWF p)
    (hdim : (dimsOf p).sum = p.m) (Fs' : List (Cov.CovMat K)) (hF' : Env.factorsU p.cov.toList = some Fs')
    (x X : Nat → K)
    (hX : ∀ k (hk : k < (Env.covMats p).length), ∃ F,
      Cov.bdCholBlock (Env.bdTol : K) ((Env.covMats p)[k]) = .ok F ∧
      (∀ i, 1 ≤ i → i ≤ ((Env.covMats p)[k]).dim → 0 < F.get i i) ∧
      ∀ i, 1 ≤ i → i ≤ ((Env.covMats p)[k]).dim →
        ∑ j ∈ Icc 1 i, F.get i j * X (Cov.rowsBefore (Env.covMats p) k + j - 1)
          = x (Cov.rowsBefore (Env.covMats p) k + i - 1)) :
    ∀ s, s < p.m → X s = Dn.vget (Env.homVec (dimsOf p) Fs' p.m x) s := by
  intro s hs
  obtain ⟨a1, a2, a3, ⟨blk, hblk, hd⟩, a5⟩ := Env.block_index p hdim s hs
  have hoff := locate_off (dimsOf p) s (by rw [hdim]; exact hs)
  rw [← rowsBefore_covMats] at hoff
  generalize hkdef : (AdjM.locate (dimsOf p) s).1 = k at *
  generalize hodef : (AdjM.locate (dimsOf p) s).2 = off at *
  obtain ⟨hk, hblk'⟩ := List.getElem?_eq_some_iff.1 hblk
  have hkC : k < (Env.covMats p).length := by rw [covMats_length]; exact hk
  obtain ⟨F, hF, hpos, hsum⟩ := hX k hkC
  have hCk : (Env.covMats p)[k] = Env.blockMat blk := by rw [covMats_get p k hkC hk, hblk']
  have hdk : ((Env.covMats p)[k]).dim = blk.dim := by rw [hCk]; rfl
  have hch := Env.factorsU_spec p.cov.toList Fs' hF' k blk hblk
  rw [hCk, hch] at hF
  have hFF : Fs'.getD k ⟨0, 0, #[]⟩ = F := Except.ok.inj hF
  have key := block_agree F blk.dim off X (fun t => Dn.vget (Env.homVec (dimsOf p) Fs' p.m x) t) x
    (fun i h1 h2 => hpos i h1 (by rw [hdk]; exact h2))
    (fun i h1 h2 => by
      have := hsum i h1 (by rw [hdk]; exact h2)
      rw [← hoff] at this
      exact this)
    (fun u hu => by
      have ht : off + u < p.m := by omega
      have := Env.homVec_solve hsq p hwf hdim Fs' hF' x (off + u) ht
      rw [a5 (off + u) (by omega) (by omega), hkdef, hodef, hFF, ← hd, Nat.add_sub_cancel_left] at this
      exact this)
    (s - off) (by omega)
  rw [show off + (s - off) = s by omega] at key
  exact key

/-- the hypotheses under which the two models are compared: `mat`, `cov` are the sparse matrix and the
    `BlockDiagonal` object that hold the rows and the covariance blocks of the problem `p` -/
structure Env.HoldsProblem (p : Problem K) (mat : SMat K) (cov : Cov.BlockDiag K) (tail : List K) : Prop where
  blocks : Env.BlocksWF p
  dims : (dimsOf p).sum = p.m
  built : cov.Built (Env.covMats p) tail
  wf : mat.WF
  rows : mat.rows = p.m
  cols : mat.cols = p.n
  rhs : p.rhs.size = p.m
  dense : ∀ i c, i < p.m → c < p.n →
    Cov.denseRow (@SMat.rowEntries K ⟨0⟩ mat (i + 1)) (c + 1) = Env.mget p.dense i c
  /-- the stored rows of `mat` ARE the rows of `p` (same entries in the same storage order) -/
  entries : ∀ i, i < p.m → @SMat.rowEntries K ⟨0⟩ mat (i + 1) = (p.rows.getD i #[]).toList

/-- **`Hom.run` = `Env.homogenize`** -/
theorem hom_run_eq_homogenize (hsq : IsSqrt (SqrtFn.sq : K → K)) (p : Problem K)
    (mat : SMat K) (cov : Cov.BlockDiag K) (tail : List K) (H : Env.HoldsProblem p mat cov tail) :
    ((∃ e, @Cov.Hom.run K (Cov.fieldScalar K SqrtFn.sq) (Env.bdTol : K) mat cov p.rhs = .error e) ↔
      (∃ e, Env.homogenize p = .error e)) ∧
    (∀ e, @Cov.Hom.run K (Cov.fieldScalar K SqrtFn.sq) (Env.bdTol : K) mat cov p.rhs = .error e →
      e = .NonPositiveDefinite) ∧
    (∀ e, Env.homogenize p = .error e → e = .NonPositiveDefinite) ∧
    ∀ out h, @Cov.Hom.run K (Cov.fieldScalar K SqrtFn.sq) (Env.bdTol : K) mat cov p.rhs = .ok out →
      Env.homogenize p = .ok h →
      out.pr = h.bt ∧ out.pr.size = p.m ∧
      out.sm.rows = p.m ∧ out.sm.cols = p.n ∧
      ∀ s c, s < p.m → c < p.n →
        Cov.denseRow (@SMat.rowEntries K ⟨0⟩ out.sm (s + 1)) (c + 1) = Env.mget h.At s c := by
  obtain ⟨hwf, hdim, hcov, hmat, hrows, hcols, hrhs, hrep, _⟩ := H
  let _ : Cov.SqrtFn K := ⟨(SqrtFn.sq : K → K)⟩
  have hCwf : ∀ C ∈ Env.covMats p, C.WF := by
    intro C hC
    obtain ⟨b, hb, rfl⟩ := List.mem_map.1 hC
    exact Env.blockMat_WF b (hwf b hb)
  have hrows' : mat.rows = ((Env.covMats p).map (·.dim)).sum := by rw [covMats_dims, hdim, hrows]
  obtain ⟨h1, h2, h3⟩ := @Cov.Hom.run_spec K _ _ _ _ (Env.hsq_of_isSqrt hsq) (Env.bdTol : K) Env.bdTol_pos
    mat cov p.rhs (Env.covMats p) tail hcov hCwf hmat hrows' (by rw [hrhs, hrows])
  have hacc : (∀ k (hk : k < (Env.covMats p).length), ∃ F,
        @Cov.bdCholBlock K (Cov.fieldScalar K (SqrtFn.sq : K → K)) (Env.bdTol : K) ((Env.covMats p)[k]) = .ok F) ↔
      ∃ Fs, Env.factorsU p.cov.toList = some Fs := by
    rw [factorsU_some_iff]
    constructor
    · intro h b hb
      obtain ⟨k, hk, rfl⟩ := List.getElem_of_mem hb
      have hkC : k < (Env.covMats p).length := by rw [covMats_length]; exact hk
      obtain ⟨F, hF⟩ := h k hkC
      rw [bdCholBlock_inst, covMats_get p k hkC hk] at hF
      exact ⟨F, hF⟩
    · intro h k hkC
      have hk : k < p.cov.toList.length := by rw [← covMats_length]; exact hkC
      obtain ⟨F, hF⟩ := h _ (List.getElem_mem hk)
      refine ⟨F, ?_⟩
      rw [bdCholBlock_inst, covMats_get p k hkC hk]
      exact hF
  refine ⟨?_, h2, fun e he => (homogenize_error p e he).1, ?_⟩
  · have hz := @Cov.bdCholDec_ret_zero_iff K (Cov.fieldScalar K (SqrtFn.sq : K → K)) (Env.bdTol : K) (Env.covMats p)
    rw [homogenize_error_iff]
    constructor
    · intro he
      have hne := h1.1 he
      cases hFs : Env.factorsU p.cov.toList with
      | none => rfl
      | some Fs => exact absurd (hz.2 (hacc.2 ⟨Fs, hFs⟩)) hne
    · intro he
      apply h1.2
      intro h0
      obtain ⟨Fs, hFs⟩ := hacc.1 (hz.1 h0)
      rw [he] at hFs
      cases hFs
  · intro out h hrun hh
    obtain ⟨Fs, hlen, hprsize, hsmrows, hsmcols, hblk⟩ := h3 out hrun
    obtain ⟨Fs', hF', hbt, hAt⟩ := homogenize_ok p h hh
    have hbound : ∀ k (hk : k < (Env.covMats p).length),
        Cov.rowsBefore (Env.covMats p) k + ((Env.covMats p)[k]).dim ≤ p.m := by
      intro k hk
      rw [← Cov.rowsBefore_succ hk, ← hrows, hrows', ← Cov.rowsBefore_length]
      exact Cov.rowsBefore_mono _ (by omega) (Nat.le_refl _)
    have hpr : ∀ s, s < p.m → out.pr.getD s 0 = Dn.vget h.bt s := by
      rw [hbt]
      refine hom_env_point hsq p hwf hdim Fs' hF' (Env.vget p.rhs) (fun t => out.pr.getD t 0) ?_
      intro k hk
      obtain ⟨b1, b2, b3, b4, b5, b6, b7, b8⟩ := hblk k hk (by omega)
      rw [bdCholBlock_inst] at b1
      exact ⟨_, b1, b5, b7⟩
    refine ⟨?_, by rw [hprsize, hrhs], by rw [hsmrows, hrows], by rw [hsmcols, hcols], ?_⟩
    · apply Cov.array_ext_getD _ _ 0 (by rw [hprsize, hrhs, hbt, homVec_size])
      intro r hr
      exact hpr r (by rw [← hrhs, ← hprsize]; exact hr)
    · intro s c hs hc
      rw [hAt s c hs hc]
      refine hom_env_point hsq p hwf hdim Fs' hF' (fun i => Env.mget p.dense i c)
        (fun t => Cov.denseRow (@SMat.rowEntries K ⟨0⟩ out.sm (t + 1)) (c + 1)) ?_ s hs
      intro k hk
      obtain ⟨b1, b2, b3, b4, b5, b6, b7, b8⟩ := hblk k hk (by omega)
      rw [bdCholBlock_inst] at b1
      refine ⟨_, b1, b5, ?_⟩
      intro i hi1 hi2
      have := b8 i (c + 1) hi1 hi2
      have hb := hbound k hk
      rw [show Cov.rowsBefore (Env.covMats p) k + i = Cov.rowsBefore (Env.covMats p) k + i - 1 + 1 by omega,
        hrep _ c (by omega) hc] at this
      refine Eq.trans ?_ this
      refine Finset.sum_congr rfl fun j hj => ?_
      have hj1 := (Finset.mem_Icc.1 hj).1
      rw [show Cov.rowsBefore (Env.covMats p) k + j - 1 + 1 = Cov.rowsBefore (Env.covMats p) k + j by omega]

end
end Gama.Ls
