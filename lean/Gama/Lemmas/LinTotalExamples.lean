/-
  C05 — concrete objects for the non-vacuity examples of `Props/C05Total.lean`.
-/
import Gama.Lemmas.LinTotal
import Gama.Lemmas.LinExamples
namespace Gama.Lin
open Real

/-- one observation of each of the 13 classes on the 3-4-5 sight 7 → 8 of `exNet` (angle: bs = fs = 8) -/
noncomputable def all13 : List (NObs ℝ) := Kind.all.map (fun k => ⟨k, 0, 7, 8, 8, 1⟩)

theorem exNet_hdist (ob : NObs ℝ) (h1 : ob.pfrom = 7) (h2 : ob.pto = 8) : hdist (exNet.view ob) = 5 := by
  simp [hdist, dX, dY, Net.view, exNet, h1, h2]
  rw [show (3:ℝ) * 3 + 4 * 4 = 5 ^ 2 by norm_num]; exact Real.sqrt_sq (by norm_num)

theorem all13_no_throw : ∀ ob ∈ all13, ¬ Throws exNet ob := by
  intro ob hob ht
  obtain ⟨k, -, rfl⟩ := List.mem_map.mp hob
  have hd : hdist (exNet.view ⟨k, 0, 7, 8, 8, 1⟩) = 5 := exNet_hdist _ rfl rfl
  have hd0 : hdist (exNet.view ⟨k, 0, 7, 8, 8, 1⟩) ≠ 0 := by rw [hd]; norm_num
  have hs0 := sdist_ne_of_hdist_ne hd0
  rcases ht with ⟨-, h⟩ | ⟨-, h | h⟩
  · exact hs0 h
  · exact hd0 h
  · exact hs0 h

theorem exNet_hdist2 (ob : NObs ℝ) (h1 : ob.pfrom = 7) (h2 : ob.pfs = 8) : hdist2 (exNet.view ob) = 5 := by
  simp [hdist2, dX2, dY2, Net.view, exNet, h1, h2]
  rw [show (3:ℝ) * 3 + 4 * 4 = 5 ^ 2 by norm_num]; exact Real.sqrt_sq (by norm_num)

/-- every row of `all13` is outside the cut of `bearing_distance` -/
theorem all13_regular : ∀ ob ∈ all13, Regular ob.kind (exNet.view ob) := by
  intro ob hob
  obtain ⟨k, -, rfl⟩ := List.mem_map.mp hob
  have hd : ¬ hdist (exNet.view ⟨k, 0, 7, 8, 8, 1⟩) < CUT := by
    rw [exNet_hdist _ rfl rfl]; unfold CUT; norm_num
  have hd2 : ¬ hdist2 (exNet.view ⟨k, 0, 7, 8, 8, 1⟩) < CUT := by
    rw [exNet_hdist2 _ rfl rfl]; unfold CUT; norm_num
  cases k <;> simp only [Regular] <;> first | exact hd | exact ⟨hd, hd2⟩ | trivial

/-- a distance, a slope distance from a point to itself (throws), a zenith angle from a point to itself -/
noncomputable def obD : NObs ℝ := ⟨.distance, 0, 7, 8, 0, 5⟩
noncomputable def obS : NObs ℝ := ⟨.s_distance, 0, 7, 7, 0, 1⟩
noncomputable def obZ : NObs ℝ := ⟨.z_angle, 0, 7, 7, 0, 1⟩

theorem obD_no_throw : ∀ p ∈ [obD], ¬ Throws exNet p := by
  intro p hp ht
  rw [List.mem_singleton] at hp; subst hp
  rcases ht with ⟨h, -⟩ | ⟨h, -⟩ <;> simp [obD] at h

theorem obS_throws : Throws exNet obS :=
  Or.inl ⟨rfl, by simp [sdist, dX, dY, dZ, Net.view, exNet, obS]⟩

theorem obZ_hdist0 : hdist (exNet.view obZ) = 0 := by
  simp [hdist, dX, dY, Net.view, exNet, obZ]

/-- a direction inside the cut (7 → 7: bearing reported 0) with reading 2π: the misclosure 400 gon needs one
    turn of the first wrap loop -/
noncomputable def wrapOb : NObs ℝ := ⟨.direction, 0, 7, 7, 0, 2 * π⟩

theorem wrapOb_fuel : Kind.direction.lin 0 (exNet.view wrapOb) = .error .fuel ∧ ¬ Throws exNet wrapOb ∧
    ∃ out, Kind.direction.lin 1 (exNet.view wrapOb) = .ok out := by
  have hcut : hdist (exNet.view wrapOb) < CUT := by
    have : hdist (exNet.view wrapOb) = 0 := by simp [hdist, dX, dY, Net.view, exNet, wrapOb]
    rw [this]; exact CUT_pos
  have ha : (((exNet.view wrapOb).value + (exNet.view wrapOb).orientation - 0) * (Scalar.ofSci 2000 false 3 : ℝ) / π) = 4000000 := by
    simp [Net.view, exNet, wrapOb]
    field_simp
    norm_num
  refine ⟨?_, ?_, ?_⟩
  · simp only [Kind.lin, Gen.Lin.direction, bd_fst, bC_cut hcut, pi_real, ha]
    simp [whileLoop]
    norm_num
  · rintro (⟨h, -⟩ | ⟨h, -⟩) <;> simp [wrapOb] at h
  · simp only [Kind.lin, Gen.Lin.direction, bd_fst, bC_cut hcut, pi_real, ha]
    simp [whileLoop]
    norm_num

end Gama.Lin
