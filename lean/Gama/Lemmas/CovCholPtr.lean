/-
  The pointer walk of `CovMat::cholDec` (`cholDecPtr`, Model/BandChol.lean: `B`, `p` are raw
  offsets into the packed buffer) is the indexed loop nest `cholDec` (every access written as
  `operator()(i,j)`), on every well-formed object and for every `[Scalar K]`.
  Pure index bookkeeping:

    B           = rowOff d b row                    (start of the pivot row)
    B + l       = off d b row (row+l)               0 ≤ l ≤ k = min(b, d-row)
    p (before iteration n of the n-loop) = rowOff d b (row+n) - n
    p + l       = off d b (row+n) (row+l)           n ≤ l ≤ k
-/
import Gama.Lemmas.CovCholStep
namespace Gama.Cov
open Packed CovMat

variable {K : Type} [Scalar K]

/-! ### shape bookkeeping -/

omit [Scalar K] in
theorem Same.trans {m a c : CovMat K} (h1 : Same m a) (h2 : Same a c) : Same m c :=
  ⟨h2.1, h2.2.1.trans h1.2.1, h2.2.2.trans h1.2.2⟩

omit [Scalar K] in
theorem Same.band_le {m c : CovMat K} (h : Same m c) : m.band ≤ m.dim := by
  obtain ⟨hw, hd, hb⟩ := h
  rw [← hd, ← hb]; exact hw.band_le

theorem Same.get_raw {m c : CovMat K} (h : Same m c) {i j : Nat} (hb : InBand m.dim m.band i j) :
    c.get i j = c.raw 0 (off m.dim m.band i j) := by
  obtain ⟨_, hd, hbd⟩ := h
  have := get_upper (m := c) (i := i) (j := j) (by rw [hd, hbd]; exact hb)
  rw [hd, hbd] at this
  exact this

theorem Same.setU_raw {m c : CovMat K} (h : Same m c) {i j : Nat} (hb : InBand m.dim m.band i j)
    (v : K) : c.setU i j v = c.rawSet (off m.dim m.band i j) v := by
  obtain ⟨_, hd, hbd⟩ := h
  have := setU_upper (m := c) (i := i) (j := j) (by rw [hd, hbd]; exact hb) v
  rw [hd, hbd] at this
  exact this

/-! ### generic fold lemmas -/

/-- two folds over the same list agree if the steps agree on states satisfying a preserved invariant -/
theorem foldl_congr_inv {σ α : Type} (f g : σ → α → σ) (Inv : σ → Prop) (l : List α)
    (h : ∀ s a, a ∈ l → Inv s → f s a = g s a ∧ Inv (g s a)) (s0 : σ) (h0 : Inv s0) :
    l.foldl f s0 = l.foldl g s0 ∧ Inv (l.foldl g s0) := by
  induction l generalizing s0 with
  | nil => exact ⟨rfl, h0⟩
  | cons x xs ih =>
    obtain ⟨e, hi⟩ := h s0 x List.mem_cons_self h0
    rw [List.foldl_cons, List.foldl_cons, e]
    exact ih (fun s a ha => h s a (List.mem_cons_of_mem _ ha)) _ hi

/-- a fold whose state carries a "pointer" that evolves independently of the data is a fold over
    the data alone, the pointer being a known function `P` of the loop counter -/
theorem foldl_pair_range' {σ π : Type} (F : σ → π → Nat → σ) (G : π → Nat → π) (P : Nat → π)
    (k : Nat) : ∀ (s : Nat) (c0 : σ), (∀ n, s ≤ n → n < s + k → P (n + 1) = G (P n) n) →
    (List.range' s k).foldl (fun st n => (F st.1 st.2 n, G st.2 n)) (c0, P s) =
      ((List.range' s k).foldl (fun c n => F c (P n) n) c0, P (s + k)) := by
  induction k with
  | zero => intro s c0 _; rfl
  | succ k ih =>
    intro s c0 hP
    rw [List.range'_succ, List.foldl_cons, List.foldl_cons]
    have e : G (P s) s = P (s + 1) := (hP s (le_refl _) (by omega)).symm
    show List.foldl _ (F c0 (P s) s, G (P s) s) _ = _
    rw [e, ih (s + 1) (F c0 (P s) s) (fun n h1 h2 => hP n (by omega) (by omega)),
      show s + 1 + k = s + (k + 1) by omega]

/-! ### offsets -/

theorem off_row (d b row l : Nat) : off d b row (row + l) = rowOff d b row + (l : Int) := by
  unfold off; omega

/-- the pointer `p` of the `n`-loop -/
def pPtr (d b row n : Nat) : Int := rowOff d b (row + n) - (n : Int)

theorem off_pPtr (d b row n l : Nat) (_h : n ≤ l) :
    off d b (row + n) (row + l) = pPtr d b row n + (l : Int) := by
  unfold off pPtr; omega

theorem pPtr_one {d b row : Nat} (hb : b ≤ d) (hr : 1 ≤ row) (hrd : row ≤ d) :
    rowOff d b row + ((min b (d - row) : Nat) : Int) = pPtr d b row 1 := by
  unfold pPtr
  rw [rowOff_succ hb hr hrd]
  unfold rowLen
  omega

theorem pPtr_succ {d b row n : Nat} (hb : b ≤ d) (hr : 1 ≤ row) (hrd : row + n ≤ d) :
    pPtr d b row (n + 1) = pPtr d b row n + ((min b (d - row - n) : Nat) : Int) := by
  unfold pPtr
  rw [show row + (n + 1) = (row + n) + 1 by omega, rowOff_succ hb (by omega) hrd]
  unfold rowLen
  omega

/-! ### scaling the pivot row -/

theorem scalePtr_eq {m a : CovMat K} (ha : Same m a) {row k : Nat} (pivot : K)
    (hrow : 1 ≤ row) (hk : k ≤ m.band) (hkN : row + k ≤ m.dim) :
    scalePtr k (rowOff m.dim m.band row) pivot a = scaleRow row k pivot a := by
  unfold scalePtr scaleRow
  refine (foldl_congr_inv _ _ (Same m) _ ?_ a ha).1
  intro s j hj hs
  rw [List.mem_range'_1] at hj
  have hp : InBand m.dim m.band row (row + j) := ⟨hrow, by omega, by omega, by omega⟩
  refine ⟨?_, hs.setU hp _⟩
  show s.rawSet _ _ = s.setU row (row + j) (s.get row (row + j) / pivot)
  rw [hs.setU_raw hp, hs.get_raw hp, off_row]

/-! ### the elimination loops -/

/-- body of the `n`-loop of the pointer version, as a function of the data and the pointer -/
def elimPtrInner (k : Nat) (B : Int) (pivot : K) (c : CovMat K) (p : Int) (n : Nat) : CovMat K :=
  (List.range' n (k + 1 - n)).foldl
    (fun (a : CovMat K) (l : Nat) =>
      a.rawSet (p + (l : Int)) (a.raw 0 (p + (l : Int)) - (c.raw 0 (B + (n : Int)) / pivot) * a.raw 0 (B + (l : Int))))
    c

theorem elimPtr_unfold (W N row : Nat) (B : Int) (pivot : K) (m : CovMat K) :
    elimPtr W N row B pivot m =
      ((List.range' 1 (min W (N - row))).foldl
        (fun (st : CovMat K × Int) (n : Nat) =>
          (elimPtrInner (min W (N - row)) B pivot st.1 st.2 n,
            st.2 + ((min W (N - row - n) : Nat) : Int)))
        (m, B + ((min W (N - row) : Nat) : Int))).1 := rfl

theorem elimPtrInner_eq {m s : CovMat K} (hs : Same m s) {row k n : Nat} (pivot : K)
    (hrow : 1 ≤ row) (hk : k ≤ m.band) (hkN : row + k ≤ m.dim) (hn1 : 1 ≤ n) (hnk : n ≤ k) :
    elimPtrInner k (rowOff m.dim m.band row) pivot s (pPtr m.dim m.band row n) n =
      elimOuterStep row k pivot s n := by
  unfold elimPtrInner elimOuterStep
  have hq : s.raw 0 (rowOff m.dim m.band row + (n : Int)) = s.get row (row + n) := by
    rw [hs.get_raw ⟨hrow, by omega, by omega, by omega⟩, off_row]
  rw [hq]
  refine (foldl_congr_inv _ _ (Same m) _ ?_ s hs).1
  intro c l hl hc
  rw [List.mem_range'_1] at hl
  have hp : InBand m.dim m.band (row + n) (row + l) := ⟨by omega, by omega, by omega, by omega⟩
  have hp0 : InBand m.dim m.band row (row + l) := ⟨hrow, by omega, by omega, by omega⟩
  refine ⟨?_, hc.setU hp _⟩
  show c.rawSet _ _ = elimInnerStep row n (s.get row (row + n) / pivot) c l
  unfold elimInnerStep
  rw [hc.setU_raw hp, hc.get_raw hp, hc.get_raw hp0, off_row, off_pPtr _ _ _ _ _ hl.1]

theorem elimPtr_eq {m a : CovMat K} (ha : Same m a) {row : Nat} (pivot : K)
    (hrow : 1 ≤ row) (hrN : row ≤ m.dim) :
    elimPtr m.band m.dim row (rowOff m.dim m.band row) pivot a =
      elimRow row (min m.band (m.dim - row)) pivot a := by
  have hb := ha.band_le
  have hk : min m.band (m.dim - row) ≤ m.band := Nat.min_le_left _ _
  have hkN : row + min m.band (m.dim - row) ≤ m.dim := by
    have := Nat.min_le_right m.band (m.dim - row); omega
  rw [elimPtr_unfold, pPtr_one hb hrow hrN,
    foldl_pair_range' (elimPtrInner (min m.band (m.dim - row)) (rowOff m.dim m.band row) pivot)
      (fun p n => p + ((min m.band (m.dim - row - n) : Nat) : Int)) (pPtr m.dim m.band row)
      (min m.band (m.dim - row)) 1 a
      (by intro n h1 h2; exact pPtr_succ hb hrow (by omega)),
    elimRow_eq]
  refine (foldl_congr_inv _ _ (Same m) _ ?_ a ha).1
  intro s n hn hs
  rw [List.mem_range'_1] at hn
  exact ⟨elimPtrInner_eq hs pivot hrow hk hkN hn.1 (by omega),
    (elimInner_spec hs _ hrow hk hkN hn.1 (by omega)).1⟩

/-! ### the tolerance -/

theorem maxDiagPtr_eq {m : CovMat K} (h : m.WF) (hd : 1 ≤ m.dim) : maxDiagPtr m = maxDiag m := by
  have hb := h.band_le
  have e : maxDiagPtr m =
      ((List.range' 1 m.dim).foldl
        (fun (st : K × Int) (row : Nat) =>
          ((fun (q : K) (p : Int) (_ : Nat) => Scalar.max (m.raw 0 p) q) st.1 st.2 row,
            (fun (p : Int) (row : Nat) => p + ((min m.band (m.dim - row) : Nat) : Int) + 1) st.2 row))
        ((0 : K), rowOff m.dim m.band 1)).1 := by
    rw [rowOff_one m.dim m.band hd hb]; rfl
  rw [e, foldl_pair_range' (fun (q : K) (p : Int) (_ : Nat) => Scalar.max (m.raw 0 p) q)
    (fun (p : Int) (row : Nat) => p + ((min m.band (m.dim - row) : Nat) : Int) + 1)
    (rowOff m.dim m.band) m.dim 1 (0 : K)
    (by
      intro n h1 h2
      rw [rowOff_succ hb h1 (by omega)]
      unfold rowLen
      omega)]
  unfold maxDiag
  refine (foldl_congr_inv _ _ (fun _ => True) _ ?_ (0 : K) trivial).1
  intro q row hrow _
  rw [List.mem_range'_1] at hrow
  refine ⟨?_, trivial⟩
  have hp : InBand m.dim m.band row row := ⟨hrow.1, le_refl _, by omega, by omega⟩
  show Scalar.max (m.raw 0 (rowOff m.dim m.band row)) q = Scalar.max (m.get row row) q
  rw [(Same.refl h).get_raw hp]
  unfold off
  rw [sub_self, add_zero]

/-! ### the outer loop -/

/-- one iteration of the outer loop of the pointer version -/
def ptrStep (W N : Nat) (tol : K) (st : CovMat K × Int) (row : Nat) : Except Err (CovMat K × Int) :=
  let pivot := st.1.raw 0 st.2
  if pivot ≤ tol then (.error .NonPositiveDefinite : Except Err (CovMat K × Int)) else
  let k := min W (N - row)
  .ok (scalePtr k st.2 pivot (elimPtr W N row st.2 pivot st.1), st.2 + (k : Int) + 1)

theorem cholDecPtr_unfold (m : CovMat K) :
    cholDecPtr m =
      if m.dim = 0 then .error .BadRank else
        ((List.range' 1 m.dim).foldlM (ptrStep m.band m.dim (tolOf m.dim (maxDiagPtr m)))
          (m, (0 : Int))).map (·.1) := rfl

theorem ptrRows_eq {m : CovMat K} (tol : K) :
    ∀ (cnt row : Nat) (a : CovMat K), Same m a → 1 ≤ row → row + cnt = m.dim + 1 →
      ((List.range' row cnt).foldlM (ptrStep m.band m.dim tol)
          (a, rowOff m.dim m.band row)).map (·.1) = cholRows tol row cnt a := by
  intro cnt
  induction cnt with
  | zero => intro row a _ _ _; rfl
  | succ cnt ih =>
    intro row a ha hrow hcnt
    have hb := ha.band_le
    have hrN : row ≤ m.dim := by omega
    have hpp : InBand m.dim m.band row row := ⟨hrow, le_refl _, hrN, by omega⟩
    have hpiv : a.raw 0 (rowOff m.dim m.band row) = a.get row row := by
      rw [ha.get_raw hpp]; unfold off; rw [sub_self, add_zero]
    rw [List.range'_succ, List.foldlM_cons]
    unfold cholRows
    by_cases hc : a.get row row ≤ tol
    · have e : ptrStep m.band m.dim tol (a, rowOff m.dim m.band row) row
          = .error .NonPositiveDefinite := by
        unfold ptrStep
        simp only [hpiv, hc, if_true]
      rw [e]
      simp only [hc, if_true]
      rfl
    · -- the new matrix and the new row start
      have hstep : scalePtr (min m.band (m.dim - row)) (rowOff m.dim m.band row) (a.get row row)
            (elimPtr m.band m.dim row (rowOff m.dim m.band row) (a.get row row) a)
          = cholStep row (a.get row row) a := by
        have hk : min m.band (m.dim - row) ≤ m.band := Nat.min_le_left _ _
        have hkN : row + min m.band (m.dim - row) ≤ m.dim := by
          have := Nat.min_le_right m.band (m.dim - row); omega
        have hsame : Same m (elimRow row (min m.band (m.dim - row)) (a.get row row) a) := by
          have := (elimRow_spec ha.1 (row := row) (k := min m.band (m.dim - row)) (a.get row row)
            hrow (by rw [ha.2.2]; exact hk) (by rw [ha.2.1]; exact hkN)).1
          exact ha.trans this
        rw [elimPtr_eq ha _ hrow hrN, scalePtr_eq hsame _ hrow hk hkN]
        unfold cholStep
        simp only [ha.2.1, ha.2.2]
      have hnext : rowOff m.dim m.band row + ((min m.band (m.dim - row) : Nat) : Int) + 1
          = rowOff m.dim m.band (row + 1) := by
        rw [rowOff_succ hb hrow hrN]; unfold rowLen; omega
      have e : ptrStep m.band m.dim tol (a, rowOff m.dim m.band row) row
          = .ok (cholStep row (a.get row row) a, rowOff m.dim m.band (row + 1)) := by
        unfold ptrStep
        simp only [hpiv, hc, if_false, hstep, hnext]
      rw [e]
      simp only [hc, if_false]
      have hsame' : Same m (cholStep row (a.get row row) a) :=
        ha.trans (cholStep_spec ha.1 (a.get row row) hrow (by rw [ha.2.1]; exact hrN)).1
      exact ih (row + 1) _ hsame' (by omega) (by omega)

/-- **the pointer walk of `CovMat::cholDec` is the indexed loop nest** -/
theorem cholDecPtr_eq_cholDec {K : Type} [Scalar K] (m : CovMat K) (h : m.WF) :
    cholDecPtr m = cholDec m := by
  rw [cholDecPtr_unfold]
  unfold cholDec
  by_cases hd : m.dim = 0
  · simp only [hd, if_true]
  · simp only [hd, if_false]
    have hd1 : 1 ≤ m.dim := by omega
    rw [maxDiagPtr_eq h hd1]
    have := ptrRows_eq (m := m) (tolOf m.dim (maxDiag m)) m.dim 1 m (Same.refl h) (le_refl _)
      (by omega)
    rw [rowOff_one m.dim m.band hd1 h.band_le] at this
    exact this

end Gama.Cov
