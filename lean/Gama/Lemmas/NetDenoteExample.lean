/-
  C04 round 9 — the world of the non-vacuity example of `net_answer_denotes` (Props/C04Net.lean): the evaluated levelling
  networks of Lemmas/ProjectEquationsGapExample.lean.
-/
import Gama.Lemmas.NetDenote
import Gama.Lemmas.ProjectEquationsGapExample
namespace Gama.C04.Net
open Gama Gama.PE.Ex

/-- the levelling network `netW` (A fixed, B constrained, C free: `min_x_ = [1]`) until the second change at level
    Points, then `netW'` (B free, C constrained: `min_x_ = [2]`) -/
def exW : NWorld ℚ := fun c => if c.c0 < 2 then netW else netW'

end Gama.C04.Net
