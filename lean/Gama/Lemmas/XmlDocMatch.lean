/-
  C12 round 4 — the matcher `accepts` (Model/XmlDoc.lean; what the correspondence runs on the token shapes of every
  real document) is SOUND w.r.t. the generation relation `Gen`: an accepted shape is the shape of a token sequence
  the skeleton generates.  Hence `C12_document_wellformed` (about every generated sequence) covers a sequence with
  the shape of every checked document.
-/
import Gama.Lemmas.XmlDoc
namespace Gama.XmlDoc
open Gama.XmlEsc Gama.Gen.XmlSites

theorem mem_dedupNat (x : Nat) : ∀ l : List Nat, x ∈ dedupNat l ↔ x ∈ l
  | [] => Iff.rfl
  | r :: rs => by
    simp only [dedupNat, List.mem_cons, List.mem_filter, bne_iff_ne, ne_eq, mem_dedupNat x rs]
    by_cases h : x = r <;> simp [h]

/-- whatever `closure` returns satisfies every predicate that the start sets satisfy and `step` preserves -/
theorem closure_sub (P : Nat → Prop) (step : List Nat → List Nat)
    (hstep : ∀ fr, (∀ x ∈ fr, P x) → ∀ y ∈ step fr, P y) :
    ∀ (n : Nat) (fr acc : List Nat), (∀ x ∈ fr, P x) → (∀ x ∈ acc, P x) → ∀ y ∈ closure n step fr acc, P y
  | 0, _, _, _, hacc => hacc
  | n + 1, fr, acc, hfr, hacc => by
    intro y hy
    simp only [closure] at hy
    have hnew : ∀ x ∈ (step fr).filter (fun x => !acc.contains x), P x :=
      fun x hx => hstep fr hfr x (List.mem_filter.mp hx).1
    split at hy
    · exact hacc y hy
    · refine closure_sub P step hstep n _ _ hnew ?_ y hy
      intro x hx
      rcases List.mem_append.mp hx with h | h
      · exact hacc x h
      · exact hnew x h

theorem shape_append (u v : List Tok) : shape (u ++ v) = shape u ++ shape v := by
  simp [shape, List.filterMap_append]

/-- the empty operand: what `operator<<` of an empty string / nothing leaves -/
theorem operandOK_nil (k : Kind) (e : Bool) : OperandOK k e [] := by
  cases k
  · exact ⟨[], by cases e <;> rfl⟩
  · rfl
  · rfl

/-- a one-character operand that is not white space (`0`) -/
theorem operandOK_zero (k : Kind) (e : Bool) : OperandOK k e [48] := by
  cases k
  · exact ⟨[48], by cases e <;> decide⟩
  · show ([48] : Bytes).all numChar = true; decide
  · show ([48] : Bytes).all constChar = true; decide

theorem valOK_witness (v : Val) : ∃ b, ValOK v b := by
  cases v with
  | lit s => exact ⟨bytesOf s, rfl⟩
  | op k e => exact ⟨[], operandOK_nil k e⟩

/-- matched attribute names are the names of a concrete attribute list the skeleton produces -/
theorem attrsMatch_conc : ∀ (as : List AttrSk) (ns : List String), attrsMatch as ns = true →
    ∃ cs, AttrsConc as cs ∧ cs.map (·.1) = ns
  | [], [], _ => ⟨[], .nil, rfl⟩
  | [], _ :: _, h => by simp [attrsMatch] at h
  | a :: as, [], h => by
    simp only [attrsMatch, Bool.and_eq_true] at h
    obtain ⟨cs, hc, hm⟩ := attrsMatch_conc as [] h.2
    exact ⟨cs, .skip h.1 hc, hm⟩
  | a :: as, n :: ns, h => by
    simp only [attrsMatch, Bool.or_eq_true, Bool.and_eq_true, beq_iff_eq] at h
    rcases h with ⟨hn, hr⟩ | ⟨ho, hr⟩
    · obtain ⟨cs, hc, hm⟩ := attrsMatch_conc as ns hr
      obtain ⟨b, hb⟩ := valOK_witness a.val
      exact ⟨(a.name, b) :: cs, .take hb hc, by simp [hm, hn]⟩
    · obtain ⟨cs, hc, hm⟩ := attrsMatch_conc as (n :: ns) hr
      exact ⟨cs, .skip ho hc, hm⟩

/-- a matched token shape (other than white-space-only character data, which the plugin never sends) is the shape
    of a concrete token the skeleton token produces -/
theorem tokMatch_conc (t : TokSk) (r : RTok) (h : tokMatch t r = true) (hr : r ≠ .chars true) :
    ∃ c, Conc t c ∧ rshape c = some r := by
  cases t with
  | decl => cases r <;> simp [tokMatch] at h; exact ⟨.decl, .decl, rfl⟩
  | stag n as e =>
    cases r with
    | stag n' as' e' =>
      simp only [tokMatch, Bool.and_eq_true, beq_iff_eq] at h
      obtain ⟨cs, hc, hm⟩ := attrsMatch_conc as as' h.2
      obtain ⟨⟨rfl, rfl⟩, _⟩ := h
      exact ⟨.stag n cs e, .stag hc, by simp [rshape, hm]⟩
    | _ => simp [tokMatch] at h
  | etag n =>
    cases r with
    | etag n' =>
      simp only [tokMatch, beq_iff_eq] at h
      subst h
      exact ⟨.etag n, .etag, rfl⟩
    | _ => simp [tokMatch] at h
  | comment s =>
    cases r <;> simp [tokMatch] at h
    exact ⟨.comment s, .comment, rfl⟩
  | chars s =>
    cases r with
    | chars bl =>
      simp only [tokMatch, beq_iff_eq] at h
      have hb : bl = false := by cases bl; rfl; exact absurd rfl hr
      subst hb
      exact ⟨.chars (bytesOf s), .chars, by simp [rshape, h]⟩
    | _ => simp [tokMatch] at h
  | text tag k e =>
    cases r with
    | chars bl =>
      have hb : bl = false := by cases bl; rfl; exact absurd rfl hr
      subst hb
      exact ⟨.chars [48], .text (operandOK_zero k e), by decide⟩
    | _ => simp [tokMatch] at h

theorem gen_star_snoc {a : Sk} {u v : List Tok} (hv : Gen (.star a) v) (hu : Gen a u) : Gen (.star a) (v ++ u) := by
  generalize hs : Sk.star a = s at hv
  induction hv with
  | starNil => cases hs; simpa using Gen.starCons hu Gen.starNil
  | starCons h1 _ _ ih2 =>
    cases hs
    rw [List.append_assoc]
    exact Gen.starCons h1 (ih2 rfl)
  | _ => cases hs

/-- **soundness of `matchSk`**: every position `q` it reports from `p` is reached by the shape of a generated token
    sequence: the input from `p` is that shape followed by the input from `q` -/
theorem matchSk_sound (l : List RTok) (hl : ∀ r ∈ l, r ≠ .chars true) :
    ∀ (f : Nat) (sk : Sk) (p q : Nat), q ∈ matchSk f sk l.toArray p →
      ∃ t', Gen sk t' ∧ l.drop p = shape t' ++ l.drop q
  | 0, _, _, _, h => by simp [matchSk] at h
  | f + 1, .eps, p, q, h => by
    simp only [matchSk, List.mem_singleton] at h
    subst h
    exact ⟨[], .eps, rfl⟩
  | f + 1, .tok t, p, q, h => by
    simp only [matchSk, List.mem_append] at h
    rcases h with h | h
    · cases t with
      | chars s =>
        simp only at h
        split at h
        · rename_i hb
          simp only [List.mem_singleton] at h
          subst h
          exact ⟨[.chars (bytesOf s)], .tok .chars, by simp [shape, rshape, hb]⟩
        · simp at h
      | text tag k e =>
        simp only [List.mem_singleton] at h
        subst h
        exact ⟨[.chars []], .tok (.text (operandOK_nil k e)), by simp [shape, rshape, isBlank]⟩
      | _ => simp at h
    · simp only [List.getElem?_toArray] at h
      cases hr : l[p]? with
      | none => simp [hr] at h
      | some r =>
        simp only [hr] at h
        split at h
        · rename_i hm
          simp only [List.mem_singleton] at h
          subst h
          have hmem : r ∈ l := List.mem_of_getElem? hr
          obtain ⟨c, hc, hs⟩ := tokMatch_conc t r hm (hl r hmem)
          refine ⟨[c], .tok hc, ?_⟩
          obtain ⟨hlt, hget⟩ := List.getElem?_eq_some_iff.mp hr
          rw [List.drop_eq_getElem_cons hlt, hget]
          simp [shape, hs]
        · simp at h
  | f + 1, .seq a b, p, q, h => by
    simp only [matchSk, mem_dedupNat, List.mem_flatMap] at h
    obtain ⟨q1, h1, h2⟩ := h
    obtain ⟨u, gu, eu⟩ := matchSk_sound l hl f a p q1 h1
    obtain ⟨v, gv, ev⟩ := matchSk_sound l hl f b q1 q h2
    exact ⟨u ++ v, .seq gu gv, by rw [eu, ev, shape_append, List.append_assoc]⟩
  | f + 1, .alt a b, p, q, h => by
    simp only [matchSk, mem_dedupNat, List.mem_append] at h
    rcases h with h | h
    · obtain ⟨u, gu, eu⟩ := matchSk_sound l hl f a p q h
      exact ⟨u, .altL gu, eu⟩
    · obtain ⟨u, gu, eu⟩ := matchSk_sound l hl f b p q h
      exact ⟨u, .altR gu, eu⟩
  | f + 1, .star a, p, q, h => by
    simp only [matchSk] at h
    refine closure_sub (fun q => ∃ t', Gen (.star a) t' ∧ l.drop p = shape t' ++ l.drop q) _ ?_ _ [p] [p] ?_ ?_ q h
    · intro fr hfr y hy
      simp only [mem_dedupNat, List.mem_flatMap, List.mem_filter] at hy
      obtain ⟨q0, hq0, hy, _⟩ := hy
      obtain ⟨v, gv, ev⟩ := hfr q0 hq0
      obtain ⟨u, gu, eu⟩ := matchSk_sound l hl f a q0 y hy
      exact ⟨v ++ u, gen_star_snoc gv gu, by rw [ev, eu, shape_append, List.append_assoc]⟩
    · intro x hx
      simp only [List.mem_singleton] at hx
      subst hx
      exact ⟨[], .starNil, rfl⟩
    · intro x hx
      simp only [List.mem_singleton] at hx
      subst hx
      exact ⟨[], .starNil, rfl⟩

/-- a shape never contains white-space-only character data -/
theorem shape_no_blank (toks : List Tok) : ∀ r ∈ shape toks, r ≠ .chars true := by
  intro r hr
  simp only [shape, List.mem_filterMap] at hr
  obtain ⟨t, _, ht⟩ := hr
  cases t <;> simp only [rshape, Option.some.injEq] at ht
  · subst ht; simp
  · subst ht; simp
  · subst ht; simp
  · subst ht; simp
  · split at ht
    · simp at ht
    · simp only [Option.some.injEq] at ht; subst ht; simp

/-- **the matcher is sound**: an accepted list of token shapes (without white-space-only character data) is the
    shape of a token sequence the skeleton generates -/
theorem accepts_sound (sk : Sk) (l : List RTok) (hl : ∀ r ∈ l, r ≠ .chars true) (h : accepts sk l = true) :
    ∃ t', Gen sk t' ∧ shape t' = l := by
  simp only [accepts, List.contains_eq_mem, decide_eq_true_eq] at h
  obtain ⟨t', g, e⟩ := matchSk_sound l hl _ sk 0 l.length h
  refine ⟨t', g, ?_⟩
  simpa using e.symm

end Gama.XmlDoc
