/-
  Source tie of the angle string / sexagesimal functions (C18, round 9).

  `Gen/AnglesFns.lean` is rewritten from lib/gnu_gama/gon2deg.cpp, lib/gnu_gama/latlong.cpp and the macro
  `RAD_TO_DEG` of radian.h on every run of the check (tools/gen/c18_angles.py): one Lean definition per C++
  function, one line per C++ statement; the `while` loops of `dms2rad`/`rad2dms` and the iostream tail of
  `gon2deg`/`latlong` are pinned text.  Here every function of the hand model `Model/Angles.lean` — the object of
  the C18 string theorems — is proved EQUAL to the regenerated function, for every scalar type (`Float`, which the
  driver runs; `ℚ`, which the string theorems are about; `ℝ`, which the `dms2rad`/`rad2dms` theorems are about).
  A changed sign, factor, operand, guard or statement order in the C++ changes the right-hand side and the proof
  below fails.

  Core Lean only (no Mathlib): the equalities are definitional up to the case split of `dms2rad`'s `if`.
-/
import Gama.Model.Angles
import Gama.Gen.AnglesFns
namespace Gama.Angles
open Gama Scalar Transc Trunc
variable {K : Type} [Scalar K] [Trunc K]

/-- the macro the translator substituted is the one the hand model transcribes (`rad * (180/π)`, no parentheses
    in the macro: `rad *= 180.0/M_PI`) -/
theorem radToDeg_eq_gen : Gen.Ang.radToDegMacro = "180.0/M_PI" := rfl

section
variable [Transc K]

theorem rad2dms_eq_gen (fuel : Nat) (rad : K) : rad2dms fuel rad = Gen.Ang.rad2dms fuel rad := rfl

theorem dms2rad_eq_gen (fuel : Nat) (dms : K) : dms2rad fuel dms = Gen.Ang.dms2rad fuel dms := by
  unfold dms2rad Gen.Ang.dms2rad
  by_cases h : dms < (0 : K)
  · simp only [h, ↓reduceIte, decide_true]; rfl
  · simp only [h, ↓reduceIte, decide_false]; rfl

end

variable [Exact K]

/-- the current tree has both repairs of `gon2deg` (carry of seconds that print as 60; `std::fabs`) — this is what
    the pinned tail and the regenerated prefix contain -/
theorem gon2deg_eq_gen (gon : K) (sign : Int) (prec : Nat) : gon2deg gon sign prec = Gen.Ang.gon2deg gon sign prec := rfl

theorem gon2degStr_eq_gen (gon : K) (sign : Int) (prec : Nat) :
    gon2deg gon sign prec = Gen.Ang.gon2deg_str gon sign prec := rfl

variable [Transc K]

theorem rad2degStr_eq_gen (rad : K) (sign : Int) (prec : Nat) :
    rad2degStr rad sign prec = Gen.Ang.rad2deg_str rad sign prec := rfl

/-- `latlong` of the current tree: `rad * (180/π)` (the macro has no parentheses), both repairs -/
theorem latlong_eq_gen (rad : K) (prec : Nat) : latlong rad prec = Gen.Ang.latlong rad prec := rfl

theorem latitude_eq_gen (rad : K) (prec : Nat) : latlong rad prec = Gen.Ang.latitude rad prec := rfl
theorem longitude_eq_gen (rad : K) (prec : Nat) : latlong rad prec = Gen.Ang.longitude rad prec := rfl

end Gama.Angles
