/-
  C15 — `pinv.h` / `SVD::set_inv_W`: the executable model `pinvFrom` (Gama/Model/SymChol.lean)
  of the pseudo-inverse built from an SVD `A = U diag(W) Vᵀ` satisfies the four Moore–Penrose
  conditions, given a certificate of the decomposition:

    (hA)  A = U diag(W) Vᵀ
    (hV)  Vᵀ V = 1
    (hU)  Uᵀ U = 1 on the columns kept by the tolerance test (`W_inv(k) ≠ 0`)
    (h0)  every singular value dropped by the tolerance test is an exact zero.

  There is no assumption relating the number of rows `M` and of columns `N`
  (wide, square and tall matrices are all covered).
-/
import Gama.Model.SymChol
import Gama.Lemmas.C15Field
import Gama.Lemmas.SymChol
import Mathlib.Data.Matrix.Mul
import Mathlib.Data.Matrix.Diagonal
import Mathlib.Algebra.BigOperators.Fin
import Mathlib.Algebra.Order.Field.Basic
import Mathlib.Tactic.Ring
import Mathlib.Tactic.FinCases
import Mathlib.Tactic.NormNum

namespace Gama.MatVec
open Finset Matrix

set_option linter.unusedSectionVars false

/-! ### abstract statement: Moore–Penrose from an SVD certificate -/

section abstract
variable {K : Type} [Field K]
variable {m n : Type} [Fintype m] [Fintype n] [DecidableEq n]

/-- `E (UᵀU) D = diag(wi * w)`: the kept block of `UᵀU` is the identity, the dropped block is
    killed by the exact zeros of `w`. -/
theorem svd_key (𝕌 : Matrix m n K) (w wi : n → K)
    (hU : ∀ k l : n, wi k ≠ 0 → wi l ≠ 0 → (𝕌ᵀ * 𝕌) k l = if k = l then 1 else 0)
    (h0 : ∀ k : n, wi k = 0 → w k = 0) :
    diagonal wi * (𝕌ᵀ * 𝕌) * diagonal w = diagonal (fun k => wi k * w k) := by
  ext k l
  rw [Matrix.mul_diagonal, Matrix.diagonal_mul, Matrix.diagonal_apply]
  by_cases hk : wi k = 0
  · rw [hk]; split_ifs <;> simp
  · by_cases hl : wi l = 0
    · rw [h0 l hl]
      split_ifs with hkl
      · rw [hkl, h0 l hl]; simp
      · simp
    · rw [hU k l hk hl]
      split_ifs with hkl
      · rw [hkl]; ring
      · ring

/-- The four Moore–Penrose conditions for `X = V diag(wi) Uᵀ` when `A = U diag(w) Vᵀ`. -/
theorem moore_penrose_of_svd (𝔸 𝕌 : Matrix m n K) (𝕍 : Matrix n n K) (w wi : n → K)
    (hwi : ∀ k, wi k = 0 ∨ wi k * w k = 1)
    (hA : 𝔸 = 𝕌 * diagonal w * 𝕍ᵀ)
    (hV : 𝕍ᵀ * 𝕍 = 1)
    (hU : ∀ k l : n, wi k ≠ 0 → wi l ≠ 0 → (𝕌ᵀ * 𝕌) k l = if k = l then 1 else 0)
    (h0 : ∀ k : n, wi k = 0 → w k = 0) :
    let 𝕏 : Matrix n m K := 𝕍 * diagonal wi * 𝕌ᵀ
    𝔸 * 𝕏 * 𝔸 = 𝔸 ∧ 𝕏 * 𝔸 * 𝕏 = 𝕏 ∧ (𝔸 * 𝕏)ᵀ = 𝔸 * 𝕏 ∧ (𝕏 * 𝔸)ᵀ = 𝕏 * 𝔸 := by
  intro 𝕏
  have key := svd_key 𝕌 w wi hU h0
  -- diagonal algebra
  have hDP : diagonal w * diagonal (fun k => wi k * w k) = diagonal w := by
    rw [Matrix.diagonal_mul_diagonal]
    congr 1; funext k
    rcases hwi k with h | h
    · rw [h0 k h]; ring
    · rw [h]; ring
  have hPE : diagonal (fun k => wi k * w k) * diagonal wi = diagonal wi := by
    rw [Matrix.diagonal_mul_diagonal]
    congr 1; funext k
    rcases hwi k with h | h
    · rw [h]; ring
    · rw [h]; ring
  -- the two projectors
  have hAX : 𝔸 * 𝕏 = 𝕌 * diagonal (fun k => w k * wi k) * 𝕌ᵀ := by
    calc 𝔸 * 𝕏 = 𝕌 * (diagonal w * (𝕍ᵀ * 𝕍) * diagonal wi) * 𝕌ᵀ := by
            rw [hA]; simp only [𝕏, Matrix.mul_assoc]
      _ = 𝕌 * diagonal (fun k => w k * wi k) * 𝕌ᵀ := by
            rw [hV, Matrix.mul_one, Matrix.diagonal_mul_diagonal]
  have hXA : 𝕏 * 𝔸 = 𝕍 * diagonal (fun k => wi k * w k) * 𝕍ᵀ := by
    calc 𝕏 * 𝔸 = 𝕍 * (diagonal wi * (𝕌ᵀ * 𝕌) * diagonal w) * 𝕍ᵀ := by
            rw [hA]; simp only [𝕏, Matrix.mul_assoc]
      _ = 𝕍 * diagonal (fun k => wi k * w k) * 𝕍ᵀ := by rw [key]
  refine ⟨?_, ?_, ?_, ?_⟩
  · -- A X A = A
    calc 𝔸 * 𝕏 * 𝔸 = 𝔸 * (𝕏 * 𝔸) := Matrix.mul_assoc _ _ _
      _ = 𝕌 * (diagonal w * (𝕍ᵀ * 𝕍) * diagonal (fun k => wi k * w k)) * 𝕍ᵀ := by
            rw [hXA, hA]; simp only [Matrix.mul_assoc]
      _ = 𝕌 * diagonal w * 𝕍ᵀ := by rw [hV, Matrix.mul_one, hDP]
      _ = 𝔸 := hA.symm
  · -- X A X = X
    calc 𝕏 * 𝔸 * 𝕏 = 𝕍 * (diagonal (fun k => wi k * w k) * (𝕍ᵀ * 𝕍) * diagonal wi) * 𝕌ᵀ := by
            rw [hXA]; simp only [𝕏, Matrix.mul_assoc]
      _ = 𝕍 * diagonal wi * 𝕌ᵀ := by rw [hV, Matrix.mul_one, hPE]
  · rw [hAX]
    simp only [Matrix.transpose_mul, Matrix.transpose_transpose, Matrix.diagonal_transpose,
      Matrix.mul_assoc]
  · rw [hXA]
    simp only [Matrix.transpose_mul, Matrix.transpose_transpose, Matrix.diagonal_transpose,
      Matrix.mul_assoc]

end abstract

/-! ### the model over an ordered field -/

section field
variable {K : Type} [Field K] [LinearOrder K]

/-- row-major `r × c` matrix stored in `f` (0-based): entry `(i,j)` is `f (i*c + j)` -/
def rowMajor (r c : Nat) (f : Nat → K) : Matrix (Fin r) (Fin c) K :=
  fun i j => f (i.val * c + j.val)

/-- the first `n` entries of `f` as a vector -/
def vecOf (n : Nat) (f : Nat → K) : Fin n → K := fun k => f k.val

/-- `var_max` of `set_inv_W`: the running maximum of `0, W 0, …, W (N-1)` -/
def pinvVmax (N : Nat) (W : Nat → K) : K :=
  forUp N (fun k (v : K) => if v < W k then W k else v) (0 : K)

/-- `pinvWinv` written with the field operations -/
theorem pinvWinv_eq (sq : K → K) (N : Nat) (tol : K) (W : Nat → K) (k : Nat) :
    @pinvWinv K (fieldScalar K sq) N tol W k =
      if decide ((if tol * pinvVmax N W < (if (0 : K) ≤ W k then W k else -W k)
                    then (1 : K) / W k else 0) = 0) = true
      then 0 else (1 : K) / W k := rfl

/-- `W_inv(k)` is `1/W(k)` when `|W(k)|` passes the tolerance test and `0` otherwise -/
theorem pinvWinv_eq_ite (sq : K → K) (N : Nat) (tol : K) (W : Nat → K) (k : Nat) :
    @pinvWinv K (fieldScalar K sq) N tol W k =
      if tol * pinvVmax N W < (if (0 : K) ≤ W k then W k else -W k) then (1 : K) / W k else 0 := by
  rw [pinvWinv_eq]
  by_cases hW : W k = 0
  · simp [hW]
  · by_cases hc : tol * pinvVmax N W < (if (0 : K) ≤ W k then W k else -W k)
    · simp [hc, hW]
    · simp [hc]

/-- the only two possibilities for `W_inv(k)` -/
theorem pinvWinv_cases (sq : K → K) (N : Nat) (tol : K) (W : Nat → K) (k : Nat) :
    @pinvWinv K (fieldScalar K sq) N tol W k = 0 ∨
      @pinvWinv K (fieldScalar K sq) N tol W k * W k = 1 := by
  rw [pinvWinv_eq_ite]
  by_cases hW : W k = 0
  · left; simp [hW]
  · by_cases hc : tol * pinvVmax N W < (if (0 : K) ≤ W k then W k else -W k)
    · right; rw [if_pos hc, one_div, inv_mul_cancel₀ hW]
    · left; rw [if_neg hc]

theorem pinvWinv_ne_zero (sq : K → K) (N : Nat) (tol : K) (W : Nat → K) (k : Nat)
    (h : @pinvWinv K (fieldScalar K sq) N tol W k ≠ 0) :
    @pinvWinv K (fieldScalar K sq) N tol W k * W k = 1 :=
  (pinvWinv_cases sq N tol W k).resolve_left h

theorem pinvWinv_zero_or_inv (sq : K → K) (N : Nat) (tol : K) (W : Nat → K) (k : Nat) :
    @pinvWinv K (fieldScalar K sq) N tol W k = 0 ∨
      @pinvWinv K (fieldScalar K sq) N tol W k = 1 / W k := by
  rw [pinvWinv_eq_ite]
  by_cases hc : tol * pinvVmax N W < (if (0 : K) ≤ W k then W k else -W k)
  · right; rw [if_pos hc]
  · left; rw [if_neg hc]

/-- `pinvFrom` written with the field operations -/
theorem pinvFrom_eq (sq : K → K) (M N : Nat) (tol : K) (U W V : Nat → K) (p : Nat) :
    @pinvFrom K (fieldScalar K sq) M N tol U W V p =
      forUp N (fun k (s : K) =>
        s + V (p / M * N + k) * @pinvWinv K (fieldScalar K sq) N tol W k * U (p % M * N + k))
        (0 : K) := rfl

/-- entry `(i,j)` of the computed pseudo-inverse as a finite sum -/
theorem pinvFrom_entry (sq : K → K) (M N : Nat) (tol : K) (U W V : Nat → K) (i j : Nat)
    (hj : j < M) :
    @pinvFrom K (fieldScalar K sq) M N tol U W V (i * M + j) =
      ∑ k ∈ range N, V (i * N + k) * @pinvWinv K (fieldScalar K sq) N tol W k * U (j * N + k) := by
  have hM : 0 < M := Nat.lt_of_le_of_lt (Nat.zero_le _) hj
  have h1 : (i * M + j) / M = i := by
    rw [Nat.add_comm, Nat.add_mul_div_right _ _ hM, Nat.div_eq_of_lt hj, Nat.zero_add]
  have h2 : (i * M + j) % M = j := by
    rw [Nat.add_comm, Nat.add_mul_mod_self_right, Nat.mod_eq_of_lt hj]
  rw [pinvFrom_eq, h1, h2, forUp_sum]

/-- Deliverable 1: the computed `N × M` array is `V · diag(W_inv) · Uᵀ`. -/
theorem pinvFrom_eq_matrix (sq : K → K) (M N : Nat) (tol : K) (U W V : Nat → K) :
    rowMajor N M (@pinvFrom K (fieldScalar K sq) M N tol U W V) =
      rowMajor N N V * diagonal (vecOf N (@pinvWinv K (fieldScalar K sq) N tol W))
        * (rowMajor M N U)ᵀ := by
  ext i j
  rw [Matrix.mul_apply]
  simp only [Matrix.mul_diagonal, Matrix.transpose_apply, rowMajor, vecOf]
  rw [pinvFrom_entry sq M N tol U W V i.val j.val j.isLt, Finset.sum_range]

/-- Deliverable 2: **Moore–Penrose conditions for the computed pseudo-inverse**, given an SVD
    certificate `A = U diag(W) Vᵀ`, `VᵀV = 1`, `UᵀU = 1` on the kept columns, and exact zeros on the
    columns dropped by the tolerance test.  No relation between `M` and `N` is assumed. -/
theorem pinv_moore_penrose (sq : K → K) (M N : Nat) (tol : K) (A U W V : Nat → K)
    (hA : rowMajor M N A = rowMajor M N U * diagonal (vecOf N W) * (rowMajor N N V)ᵀ)
    (hV : (rowMajor N N V)ᵀ * rowMajor N N V = 1)
    (hU : ∀ k l : Fin N,
        @pinvWinv K (fieldScalar K sq) N tol W k.val ≠ 0 →
        @pinvWinv K (fieldScalar K sq) N tol W l.val ≠ 0 →
        ((rowMajor M N U)ᵀ * rowMajor M N U) k l = if k = l then 1 else 0)
    (h0 : ∀ k : Fin N, @pinvWinv K (fieldScalar K sq) N tol W k.val = 0 → W k.val = 0) :
    let 𝔸 : Matrix (Fin M) (Fin N) K := rowMajor M N A
    let 𝕏 : Matrix (Fin N) (Fin M) K := rowMajor N M (@pinvFrom K (fieldScalar K sq) M N tol U W V)
    𝔸 * 𝕏 * 𝔸 = 𝔸 ∧ 𝕏 * 𝔸 * 𝕏 = 𝕏 ∧ (𝔸 * 𝕏)ᵀ = 𝔸 * 𝕏 ∧ (𝕏 * 𝔸)ᵀ = 𝕏 * 𝔸 := by
  intro 𝔸 𝕏
  have hX : 𝕏 = rowMajor N N V * diagonal (vecOf N (@pinvWinv K (fieldScalar K sq) N tol W))
      * (rowMajor M N U)ᵀ := pinvFrom_eq_matrix sq M N tol U W V
  rw [hX]
  exact moore_penrose_of_svd 𝔸 (rowMajor M N U) (rowMajor N N V) (vecOf N W)
    (vecOf N (@pinvWinv K (fieldScalar K sq) N tol W))
    (fun k => pinvWinv_cases sq N tol W k.val) hA hV hU h0

/-- Deliverable 3: the same statement entrywise, with sums over `Finset.range` only
    (no `Matrix`, no `Fin`). `X` is the array returned by `pinvFrom` (`N × M`, row-major). -/
theorem pinv_moore_penrose_entrywise (sq : K → K) (M N : Nat) (tol : K) (A U W V : Nat → K)
    (hA : ∀ i, i < M → ∀ j, j < N →
        A (i * N + j) = ∑ k ∈ range N, U (i * N + k) * W k * V (j * N + k))
    (hV : ∀ k, k < N → ∀ l, l < N →
        ∑ i ∈ range N, V (i * N + k) * V (i * N + l) = if k = l then 1 else 0)
    (hU : ∀ k, k < N → ∀ l, l < N →
        @pinvWinv K (fieldScalar K sq) N tol W k ≠ 0 →
        @pinvWinv K (fieldScalar K sq) N tol W l ≠ 0 →
        ∑ i ∈ range M, U (i * N + k) * U (i * N + l) = if k = l then 1 else 0)
    (h0 : ∀ k, k < N → @pinvWinv K (fieldScalar K sq) N tol W k = 0 → W k = 0) :
    let X := @pinvFrom K (fieldScalar K sq) M N tol U W V
    (∀ i, i < M → ∀ j, j < N →
        ∑ q ∈ range M, (∑ k ∈ range N, A (i * N + k) * X (k * M + q)) * A (q * N + j)
          = A (i * N + j)) ∧
    (∀ i, i < N → ∀ j, j < M →
        ∑ q ∈ range N, (∑ k ∈ range M, X (i * M + k) * A (k * N + q)) * X (q * M + j)
          = X (i * M + j)) ∧
    (∀ i, i < M → ∀ j, j < M →
        ∑ k ∈ range N, A (j * N + k) * X (k * M + i) = ∑ k ∈ range N, A (i * N + k) * X (k * M + j)) ∧
    (∀ i, i < N → ∀ j, j < N →
        ∑ k ∈ range M, X (j * M + k) * A (k * N + i) = ∑ k ∈ range M, X (i * M + k) * A (k * N + j)) := by
  intro X
  have hA' : rowMajor M N A = rowMajor M N U * diagonal (vecOf N W) * (rowMajor N N V)ᵀ := by
    ext i j
    rw [Matrix.mul_apply]
    simp only [Matrix.mul_diagonal, Matrix.transpose_apply, rowMajor, vecOf]
    rw [hA i.val i.isLt j.val j.isLt, Finset.sum_range]
  have hV' : (rowMajor N N V)ᵀ * rowMajor N N V = 1 := by
    ext k l
    rw [Matrix.mul_apply, Matrix.one_apply]
    simp only [Matrix.transpose_apply, rowMajor]
    have h := hV k.val k.isLt l.val l.isLt
    rw [Finset.sum_range] at h
    rw [h]
    simp only [Fin.ext_iff]
  have hU' : ∀ k l : Fin N,
      @pinvWinv K (fieldScalar K sq) N tol W k.val ≠ 0 →
      @pinvWinv K (fieldScalar K sq) N tol W l.val ≠ 0 →
      ((rowMajor M N U)ᵀ * rowMajor M N U) k l = if k = l then 1 else 0 := by
    intro k l hk hl
    rw [Matrix.mul_apply]
    simp only [Matrix.transpose_apply, rowMajor]
    have h := hU k.val k.isLt l.val l.isLt hk hl
    rw [Finset.sum_range] at h
    rw [h]
    simp only [Fin.ext_iff]
  have h0' : ∀ k : Fin N, @pinvWinv K (fieldScalar K sq) N tol W k.val = 0 → W k.val = 0 :=
    fun k => h0 k.val k.isLt
  obtain ⟨h1, h2, h3, h4⟩ := pinv_moore_penrose sq M N tol A U W V hA' hV' hU' h0'
  refine ⟨?_, ?_, ?_, ?_⟩
  · intro i hi j hj
    have h := congrFun (congrFun h1 ⟨i, hi⟩) ⟨j, hj⟩
    simp only [Matrix.mul_apply, rowMajor] at h
    simp only [Finset.sum_range]
    exact h
  · intro i hi j hj
    have h := congrFun (congrFun h2 ⟨i, hi⟩) ⟨j, hj⟩
    simp only [Matrix.mul_apply, rowMajor] at h
    simp only [Finset.sum_range]
    exact h
  · intro i hi j hj
    have h := congrFun (congrFun h3 ⟨i, hi⟩) ⟨j, hj⟩
    simp only [Matrix.transpose_apply, Matrix.mul_apply, rowMajor] at h
    simp only [Finset.sum_range]
    exact h
  · intro i hi j hj
    have h := congrFun (congrFun h4 ⟨i, hi⟩) ⟨j, hj⟩
    simp only [Matrix.transpose_apply, Matrix.mul_apply, rowMajor] at h
    simp only [Finset.sum_range]
    exact h

end field

/-! ### the tolerance test in mathematical notation -/

section order
variable {K : Type} [Field K] [LinearOrder K]

theorem pinvVmax_succ (N : Nat) (W : Nat → K) :
    pinvVmax (N + 1) W = if pinvVmax N W < W N then W N else pinvVmax N W := rfl

/-- `var_max` is non-negative (it starts from `0`, as in `set_inv_W`) -/
theorem pinvVmax_nonneg (W : Nat → K) : ∀ N, 0 ≤ pinvVmax N W
  | 0 => le_refl _
  | N + 1 => by
    rw [pinvVmax_succ]
    split_ifs with h
    · exact le_trans (pinvVmax_nonneg W N) (le_of_lt h)
    · exact pinvVmax_nonneg W N

/-- `var_max` dominates every `W k`, `k < N` -/
theorem le_pinvVmax (W : Nat → K) : ∀ N k, k < N → W k ≤ pinvVmax N W
  | 0, _, hk => absurd hk (Nat.not_lt_zero _)
  | N + 1, k, hk => by
    rw [pinvVmax_succ]
    rcases Nat.lt_succ_iff_lt_or_eq.mp hk with h | h
    · have := le_pinvVmax W N k h
      split_ifs with hc
      · exact le_trans this (le_of_lt hc)
      · exact this
    · subst h
      split_ifs with hc
      · exact le_refl _
      · exact not_lt.mp hc

/-- `W_inv(k) = 1/W(k)` if `tol · var_max < |W(k)|`, and `0` otherwise -/
theorem pinvWinv_eq_abs [IsStrictOrderedRing K] (sq : K → K) (N : Nat) (tol : K) (W : Nat → K)
    (k : Nat) :
    @pinvWinv K (fieldScalar K sq) N tol W k =
      if tol * pinvVmax N W < |W k| then (W k)⁻¹ else 0 := by
  rw [pinvWinv_eq_ite, one_div]
  have : (if (0 : K) ≤ W k then W k else -W k) = |W k| := by
    split_ifs with h
    · exact (abs_of_nonneg h).symm
    · exact (abs_of_neg (not_le.mp h)).symm
  rw [this]

end order

/-! ### non-vacuity: a wide rank-one example over `ℚ`  (`M = 1`, `N = 2`)

  `A = [3 4]`, `U = [1 0]`, `W = (5, 0)`, `V = [[3/5, -4/5], [4/5, 3/5]]`, `tol = 1/1000`.
  The second singular value is an exact zero and is dropped; the second column of `U` is null, so
  `UᵀU ≠ 1` — only the kept block is the identity, which is all that (hU) asks for. -/

section example_
def pinvExA : Nat → ℚ | 0 => 3 | 1 => 4 | _ => 0
def pinvExU : Nat → ℚ | 0 => 1 | _ => 0
def pinvExW : Nat → ℚ | 0 => 5 | _ => 0
def pinvExV : Nat → ℚ | 0 => 3/5 | 1 => -4/5 | 2 => 4/5 | 3 => 3/5 | _ => 0

theorem pinvExWinv0 : @pinvWinv ℚ (fieldScalar ℚ id) 2 (1/1000) pinvExW 0 = 1/5 := by
  rw [pinvWinv_eq_ite]
  norm_num [pinvVmax, forUp, pinvExW]

theorem pinvExWinv1 : @pinvWinv ℚ (fieldScalar ℚ id) 2 (1/1000) pinvExW 1 = 0 := by
  rw [pinvWinv_eq_ite]
  norm_num [pinvVmax, forUp, pinvExW]

theorem pinvEx_hA : rowMajor 1 2 pinvExA = rowMajor 1 2 pinvExU * diagonal (vecOf 2 pinvExW) * (rowMajor 2 2 pinvExV)ᵀ := by
  ext i j
  fin_cases i
  fin_cases j <;>
    norm_num [Matrix.mul_apply, Fin.sum_univ_two, rowMajor, vecOf, pinvExA, pinvExU, pinvExW, pinvExV]

theorem pinvEx_hV : (rowMajor 2 2 pinvExV)ᵀ * rowMajor 2 2 pinvExV = 1 := by
  ext i j
  fin_cases i <;> fin_cases j <;>
    norm_num [Matrix.mul_apply, Fin.sum_univ_two, rowMajor, pinvExV]

theorem pinvEx_hU : ∀ k l : Fin 2,
    @pinvWinv ℚ (fieldScalar ℚ id) 2 (1/1000) pinvExW k.val ≠ 0 →
    @pinvWinv ℚ (fieldScalar ℚ id) 2 (1/1000) pinvExW l.val ≠ 0 →
    ((rowMajor 1 2 pinvExU)ᵀ * rowMajor 1 2 pinvExU) k l = if k = l then 1 else 0 := by
  intro k l hk hl
  fin_cases k
  · fin_cases l
    · norm_num [Matrix.mul_apply, rowMajor, pinvExU]
    · exact absurd pinvExWinv1 hl
  · exact absurd pinvExWinv1 hk

theorem pinvEx_h0 : ∀ k : Fin 2,
    @pinvWinv ℚ (fieldScalar ℚ id) 2 (1/1000) pinvExW k.val = 0 → pinvExW k.val = 0 := by
  intro k hk
  fin_cases k
  · rw [pinvExWinv0] at hk; norm_num at hk
  · rfl

/-- The hypotheses of `pinv_moore_penrose` are satisfiable (wide case `M = 1 < N = 2`, rank
    deficient `W`, `U` with a null column): the theorem applies to this instance. -/
theorem pinvEx_moore_penrose :
    let 𝔸 : Matrix (Fin 1) (Fin 2) ℚ := rowMajor 1 2 pinvExA
    let 𝕏 : Matrix (Fin 2) (Fin 1) ℚ :=
      rowMajor 2 1 (@pinvFrom ℚ (fieldScalar ℚ id) 1 2 (1/1000) pinvExU pinvExW pinvExV)
    𝔸 * 𝕏 * 𝔸 = 𝔸 ∧ 𝕏 * 𝔸 * 𝕏 = 𝕏 ∧ (𝔸 * 𝕏)ᵀ = 𝔸 * 𝕏 ∧ (𝕏 * 𝔸)ᵀ = 𝕏 * 𝔸 :=
  pinv_moore_penrose id 1 2 (1/1000) pinvExA pinvExU pinvExW pinvExV pinvEx_hA pinvEx_hV pinvEx_hU pinvEx_h0

/-- and the computed pseudo-inverse of `[3 4]` is `[3/25, 4/25]ᵀ = Aᵀ / (A Aᵀ)` -/
theorem pinvEx_value :
    @pinvFrom ℚ (fieldScalar ℚ id) 1 2 (1/1000) pinvExU pinvExW pinvExV 0 = 3/25 ∧
    @pinvFrom ℚ (fieldScalar ℚ id) 1 2 (1/1000) pinvExU pinvExW pinvExV 1 = 4/25 := by
  constructor
  · have := pinvFrom_entry id 1 2 (1/1000) pinvExU pinvExW pinvExV 0 0 (by norm_num)
    simp only [Nat.zero_mul, Nat.zero_add] at this
    rw [this, Finset.sum_range_succ, Finset.sum_range_one, pinvExWinv0, pinvExWinv1]
    norm_num [pinvExU, pinvExV]
  · have := pinvFrom_entry id 1 2 (1/1000) pinvExU pinvExW pinvExV 1 0 (by norm_num)
    simp only [Nat.one_mul, Nat.zero_mul, Nat.add_zero, Nat.zero_add] at this
    rw [this, Finset.sum_range_succ, Finset.sum_range_one, pinvExWinv0, pinvExWinv1]
    norm_num [pinvExU, pinvExV]

end example_

end Gama.MatVec
