/-
  **A symmetric covariance block that is not positive definite is rejected** by both Cholesky models
  (`cholDec` = `CovMat::cholDec`, `bdCholBlock` = one block of `BlockDiagonal::cholDec`).

  Acceptance gives a factorisation `C = Uᵀ D U` with `U` upper triangular with a non-zero diagonal and
  `D > 0` (`cholDec_reproduces`: `U` unit triangular, `D(r) = F(r,r)`; `bdCholBlock_reproduces`:
  `U = F`, `D = 1`).  Then for every vector `d`

      dᵀ C d = Σ_r D(r) · ( Σ_i U(r,i) d(i) )²,

  and for the LARGEST index `i0` with `d(i0) ≠ 0` the inner sum at `r = i0` is `U(i0,i0) d(i0) ≠ 0`
  (`U(i0,i) = 0` for `i < i0`, `d(i) = 0` for `i > i0`): the form is strictly positive.
  Contrapositive: a vector `d ≠ 0` with `dᵀ C d ≤ 0` forces the rejection.

  The quadratic form is written entrywise with `C.get` (symmetric by `CovMat.get_symm`, zero outside
  the band), indices `1 … C.dim`; only `d 1 … d C.dim` matter.
-/
import Gama.Lemmas.CovBd
import Mathlib.Algebra.BigOperators.Ring.Finset
import Mathlib.Algebra.Order.BigOperators.Group.Finset
import Mathlib.Data.Finset.Max
import Mathlib.Analysis.SpecialFunctions.Sqrt
import Mathlib.Tactic.NormNum
namespace Gama.Cov
open Finset Packed CovMat

set_option linter.unusedSectionVars false

variable {K : Type} [Field K] [LinearOrder K] [IsStrictOrderedRing K] [SqrtFn K]

@[reducible] local instance scalarOfFieldNPD : Scalar K := fieldScalar K SqrtFn.sq

/-! ### the algebra: the quadratic form of `Uᵀ D U` -/

/-- `dᵀ (Uᵀ D U) d = Σ_r D(r) (U d)(r)²`, indices `1 … N` -/
theorem quad_eq (N : Nat) (A U : Nat → Nat → K) (D d : Nat → K)
    (hA : ∀ i j, 1 ≤ i → i ≤ N → 1 ≤ j → j ≤ N → A i j = ∑ r ∈ Icc 1 N, U r i * D r * U r j) :
    ∑ i ∈ Icc 1 N, ∑ j ∈ Icc 1 N, d i * A i j * d j =
      ∑ r ∈ Icc 1 N, D r * ((∑ i ∈ Icc 1 N, U r i * d i) * (∑ i ∈ Icc 1 N, U r i * d i)) := by
  have e1 : ∀ i ∈ Icc 1 N, ∀ j ∈ Icc 1 N,
      d i * A i j * d j = ∑ r ∈ Icc 1 N, D r * ((U r i * d i) * (U r j * d j)) := by
    intro i hi j hj
    rw [mem_Icc] at hi hj
    rw [hA i j hi.1 hi.2 hj.1 hj.2, Finset.mul_sum, Finset.sum_mul]
    apply sum_congr rfl
    intro r _
    ring
  rw [sum_congr rfl (fun i hi => sum_congr rfl (fun j hj => e1 i hi j hj))]
  rw [sum_congr rfl (fun i _ => sum_comm)]
  rw [sum_comm]
  apply sum_congr rfl
  intro r _
  rw [sum_mul_sum, mul_sum]
  apply sum_congr rfl
  intro i _
  rw [mul_sum]

/-- `Uᵀ D U` with `D > 0`, `U` upper triangular with a non-zero diagonal, is positive definite -/
theorem quad_pos (N : Nat) (A U : Nat → Nat → K) (D d : Nat → K)
    (hD : ∀ r, 1 ≤ r → r ≤ N → 0 < D r)
    (hU0 : ∀ r i, i < r → U r i = 0)
    (hUd : ∀ r, 1 ≤ r → r ≤ N → U r r ≠ 0)
    (hA : ∀ i j, 1 ≤ i → i ≤ N → 1 ≤ j → j ≤ N → A i j = ∑ r ∈ Icc 1 N, U r i * D r * U r j)
    (hd : ∃ i, 1 ≤ i ∧ i ≤ N ∧ d i ≠ 0) :
    0 < ∑ i ∈ Icc 1 N, ∑ j ∈ Icc 1 N, d i * A i j * d j := by
  rw [quad_eq N A U D d hA]
  -- the largest index with `d ≠ 0`
  obtain ⟨i0, h1, h2, h3, hmax⟩ :
      ∃ i0, 1 ≤ i0 ∧ i0 ≤ N ∧ d i0 ≠ 0 ∧ ∀ i, i0 < i → i ≤ N → d i = 0 := by
    obtain ⟨i, hi1, hi2, hi3⟩ := hd
    have hne : ((Icc 1 N).filter (fun i => d i ≠ 0)).Nonempty :=
      ⟨i, by rw [mem_filter, mem_Icc]; exact ⟨⟨hi1, hi2⟩, hi3⟩⟩
    obtain ⟨m, hm, hmx⟩ := Finset.exists_max_image _ (fun i : Nat => i) hne
    rw [mem_filter, mem_Icc] at hm
    refine ⟨m, hm.1.1, hm.1.2, hm.2, ?_⟩
    intro i hi hiN
    by_contra hne'
    have := hmx i (by rw [mem_filter, mem_Icc]; exact ⟨⟨by omega, hiN⟩, hne'⟩)
    omega
  apply sum_pos'
  · intro r hr
    rw [mem_Icc] at hr
    exact mul_nonneg (le_of_lt (hD r hr.1 hr.2)) (mul_self_nonneg _)
  · refine ⟨i0, by rw [mem_Icc]; exact ⟨h1, h2⟩, ?_⟩
    have hs : ∑ i ∈ Icc 1 N, U i0 i * d i = U i0 i0 * d i0 := by
      rw [sum_eq_single i0]
      · intro i hi hne
        rw [mem_Icc] at hi
        rcases Nat.lt_or_gt_of_ne hne with h | h
        · rw [hU0 i0 i h, zero_mul]
        · rw [hmax i h hi.2, mul_zero]
      · intro h
        exact absurd (mem_Icc.mpr ⟨h1, h2⟩) h
    rw [hs]
    exact mul_pos (hD i0 h1 h2) (mul_self_pos.mpr (mul_ne_zero (hUd i0 h1 h2) h3))

/-- an entrywise identity for the upper triangle that is symmetric in `(i,j)` holds everywhere -/
theorem sym_extend (C : CovMat K) (G : Nat → Nat → K) (hG : ∀ i j, G i j = G j i)
    (hup : ∀ i j, 1 ≤ i → i ≤ j → j ≤ C.dim → C.get i j = G i j) :
    ∀ i j, 1 ≤ i → i ≤ C.dim → 1 ≤ j → j ≤ C.dim → C.get i j = G i j := by
  intro i j hi1 hi2 hj1 hj2
  rcases Nat.le_total i j with h | h
  · exact hup i j hi1 h hj2
  · rw [CovMat.get_symm C i j, hup j i hj1 h hi2, hG]

/-! ### dense variant: `CovMat::cholDec` -/

/-- **accepted by `CovMat::cholDec` ⇒ positive definite** -/
theorem cholDec_accepts_posdef {C F : CovMat K} (hC : C.WF) (h : cholDec C = .ok F)
    (d : Nat → K) (hd : ∃ i, 1 ≤ i ∧ i ≤ C.dim ∧ d i ≠ 0) :
    0 < ∑ i ∈ Icc 1 C.dim, ∑ j ∈ Icc 1 C.dim, d i * C.get i j * d j := by
  obtain ⟨_, _, _, hpos, hLDL, _⟩ := cholDec_reproduces hC h
  -- `U = Lᵀ`, unit upper triangular
  let U : Nat → Nat → K := fun r j => if r = j then 1 else if r < j then F.get r j else 0
  have hUdef : ∀ r j, U r j = if r = j then 1 else if r < j then F.get r j else 0 := fun _ _ => rfl
  have hup : ∀ i j, 1 ≤ i → i ≤ j → j ≤ C.dim →
      C.get i j = ∑ r ∈ Icc 1 C.dim, U r i * F.get r r * U r j := by
    intro i j h1 h2 h3
    have hsub : Icc 1 i ⊆ Icc 1 C.dim := Icc_subset_Icc (le_refl _) (by omega)
    rw [← sum_subset hsub (by
      intro r hr hnr
      rw [mem_Icc] at hr hnr
      rw [hUdef r i, if_neg (by omega), if_neg (by omega), zero_mul, zero_mul])]
    rw [hLDL i j h1 h2 h3, ← Finset.Ico_add_one_right_eq_Icc, sum_Ico_succ_top h1]
    congr 1
    · apply sum_congr rfl
      intro r hr
      rw [mem_Ico] at hr
      rw [hUdef r i, hUdef r j, if_neg (by omega), if_pos (by omega), if_neg (by omega), if_pos (by omega)]
    · rw [hUdef i i, hUdef i j, if_pos rfl, one_mul]
      by_cases e : i = j
      · rw [if_pos e, if_pos e]
      · rw [if_neg e, if_neg e, if_pos (by omega)]
  have hall := sym_extend C (fun i j => ∑ r ∈ Icc 1 C.dim, U r i * F.get r r * U r j)
    (fun i j => sum_congr rfl (fun r _ => by ring)) hup
  exact quad_pos C.dim (fun i j => C.get i j) U (fun r => F.get r r) d hpos
    (fun r i hir => by rw [hUdef r i, if_neg (by omega), if_neg (by omega)])
    (fun r _ _ => by rw [hUdef r r, if_pos rfl]; exact one_ne_zero)
    hall hd

/-- **not positive definite ⇒ `CovMat::cholDec` throws `NonPositiveDefinite`.**
    `C` symmetric (`get`), `N ≥ 1`, and some `d ≠ 0` on `1 … N` has `dᵀ C d ≤ 0`. -/
theorem not_pd_rejected_dense {C : CovMat K} (hC : C.WF) (hN : 1 ≤ C.dim)
    (hnpd : ∃ d : Nat → K, (∃ i, 1 ≤ i ∧ i ≤ C.dim ∧ d i ≠ 0) ∧
      ∑ i ∈ Icc 1 C.dim, ∑ j ∈ Icc 1 C.dim, d i * C.get i j * d j ≤ 0) :
    cholDec C = .error .NonPositiveDefinite := by
  obtain ⟨d, hd, hle⟩ := hnpd
  cases hres : cholDec C with
  | ok F => exact absurd (cholDec_accepts_posdef hC hres d hd) (not_lt.mpr hle)
  | error e =>
    rcases cholDec_error_kinds C e hres with ⟨_, h0⟩ | he
    · omega
    · rw [he]

/-! ### sparse variant: one block of `BlockDiagonal::cholDec(tol)`

  `tol > 0` is needed (the default is `1e-14`): with `tol = 0` the test `pivot < tol` lets a pivot
  `= 0` through (`0 < 0` is false); the code then stores `sqrt 0 = 0` on the diagonal and divides the
  rest of the row by it, so a singular (positive SEMI-definite, hence not positive definite) block
  would not be rejected at that row and `bdCholBlock_reproduces` has nothing to say. -/

/-- **accepted by `BlockDiagonal::cholDec` (one block, `tol > 0`) ⇒ positive definite** -/
theorem bdCholBlock_accepts_posdef
    (hsq : ∀ x : K, 0 < x → SqrtFn.sq x * SqrtFn.sq x = x ∧ 0 < SqrtFn.sq x)
    {C F : CovMat K} (hC : C.WF) (tol : K) (htol : 0 < tol) (h : bdCholBlock tol C = .ok F)
    (d : Nat → K) (hd : ∃ i, 1 ≤ i ∧ i ≤ C.dim ∧ d i ≠ 0) :
    0 < ∑ i ∈ Icc 1 C.dim, ∑ j ∈ Icc 1 C.dim, d i * C.get i j * d j := by
  obtain ⟨_, _, _, hpos, hUU, _⟩ := bdCholBlock_reproduces hsq hC tol htol h
  let U : Nat → Nat → K := fun r j => if r ≤ j then F.get r j else 0
  have hUdef : ∀ r j, U r j = if r ≤ j then F.get r j else 0 := fun _ _ => rfl
  have hup : ∀ i j, 1 ≤ i → i ≤ j → j ≤ C.dim →
      C.get i j = ∑ r ∈ Icc 1 C.dim, U r i * (1 : K) * U r j := by
    intro i j h1 h2 h3
    have hsub : Icc 1 i ⊆ Icc 1 C.dim := Icc_subset_Icc (le_refl _) (by omega)
    rw [← sum_subset hsub (by
      intro r hr hnr
      rw [mem_Icc] at hr hnr
      rw [hUdef r i, if_neg (by omega), zero_mul, zero_mul])]
    rw [hUU i j h1 h2 h3]
    apply sum_congr rfl
    intro r hr
    rw [mem_Icc] at hr
    rw [hUdef r i, hUdef r j, if_pos hr.2, if_pos (by omega), mul_one]
  have hall := sym_extend C (fun i j => ∑ r ∈ Icc 1 C.dim, U r i * (1 : K) * U r j)
    (fun i j => sum_congr rfl (fun r _ => by ring)) hup
  exact quad_pos C.dim (fun i j => C.get i j) U (fun _ => 1) d (fun _ _ _ => one_pos)
    (fun r i hir => by rw [hUdef r i, if_neg (by omega)])
    (fun r h1 h2 => by rw [hUdef r r, if_pos (le_refl _)]; exact ne_of_gt (hpos r h1 h2))
    hall hd

/-- **not positive definite ⇒ the block is rejected by `BlockDiagonal::cholDec`** (`return block`;
    `C'` is the partially factored buffer the C++ leaves behind) -/
theorem not_pd_rejected_sparse
    (hsq : ∀ x : K, 0 < x → SqrtFn.sq x * SqrtFn.sq x = x ∧ 0 < SqrtFn.sq x)
    {C : CovMat K} (hC : C.WF) (tol : K) (htol : 0 < tol)
    (hnpd : ∃ d : Nat → K, (∃ i, 1 ≤ i ∧ i ≤ C.dim ∧ d i ≠ 0) ∧
      ∑ i ∈ Icc 1 C.dim, ∑ j ∈ Icc 1 C.dim, d i * C.get i j * d j ≤ 0) :
    ∃ C', bdCholBlock tol C = .error C' := by
  obtain ⟨d, hd, hle⟩ := hnpd
  cases hres : bdCholBlock tol C with
  | ok F => exact absurd (bdCholBlock_accepts_posdef hsq hC tol htol hres d hd) (not_lt.mpr hle)
  | error C' => exact ⟨C', rfl⟩

/-! ### non-vacuity: the indefinite matrix `[[1,2],[2,1]]` (packed `1 2 | 1`), `d = (1,-1)`, `dᵀ C d = -2` -/

/-- the hypotheses of `not_pd_rejected_dense` hold for `[[1,2],[2,1]]` over ℚ -/
example : (⟨2, 1, #[1, 2, 1]⟩ : CovMat ℚ).WF ∧ 1 ≤ (⟨2, 1, #[1, 2, 1]⟩ : CovMat ℚ).dim ∧
    ∃ d : Nat → ℚ, (∃ i, 1 ≤ i ∧ i ≤ (⟨2, 1, #[1, 2, 1]⟩ : CovMat ℚ).dim ∧ d i ≠ 0) ∧
      ∑ i ∈ Icc 1 (⟨2, 1, #[1, 2, 1]⟩ : CovMat ℚ).dim, ∑ j ∈ Icc 1 (⟨2, 1, #[1, 2, 1]⟩ : CovMat ℚ).dim,
        d i * (⟨2, 1, #[1, 2, 1]⟩ : CovMat ℚ).get i j * d j ≤ 0 := by
  refine ⟨⟨by decide, by decide⟩, by decide,
    fun i => if i = 1 then 1 else -1, ⟨1, by decide, by decide, by decide⟩, ?_⟩
  decide +kernel

/-- … so the theorem applies (any `sqrt`, here `id`: `CovMat::cholDec` takes no square root) and agrees
    with running the model: `NonPositiveDefinite` -/
example : (letI := fieldScalar ℚ id; cholDec (⟨2, 1, #[1, 2, 1]⟩ : CovMat ℚ)) = .error .NonPositiveDefinite := by
  let _ : SqrtFn ℚ := ⟨id⟩
  exact not_pd_rejected_dense (K := ℚ) ⟨by decide, by decide⟩ (by decide)
    ⟨fun i => if i = 1 then 1 else -1, ⟨1, by decide, by decide, by decide⟩, by decide +kernel⟩

/-- non-vacuity of `not_pd_rejected_sparse`: over ℝ with `Real.sqrt` (which satisfies `hsq`) and
    `tol = 1/100 > 0` the block `[[1,2],[2,1]]` is rejected -/
example : ∃ C', (letI := fieldScalar ℝ Real.sqrt;
    bdCholBlock (1 / 100 : ℝ) (⟨2, 1, #[1, 2, 1]⟩ : CovMat ℝ)) = .error C' := by
  let _ : SqrtFn ℝ := ⟨Real.sqrt⟩
  have hget : ∀ i j, (i = 1 ∨ i = 2) → (j = 1 ∨ j = 2) →
      (⟨2, 1, #[1, 2, 1]⟩ : CovMat ℝ).get i j = if i = j then 1 else 2 := by
    intro i j hi hj
    rcases hi with rfl | rfl <;> rcases hj with rfl | rfl <;>
      simp [CovMat.get, Packed.idx, Packed.rowOff, CovMat.raw, CovMat.inBuf]
  refine not_pd_rejected_sparse (K := ℝ)
    (fun x hx => ⟨Real.mul_self_sqrt hx.le, Real.sqrt_pos.mpr hx⟩) ⟨by decide, by decide⟩ (1 / 100)
    (by norm_num) ⟨fun i => if i = 1 then 1 else -1, ⟨1, by decide, by decide, by norm_num⟩, ?_⟩
  show ∑ i ∈ Icc 1 2, ∑ j ∈ Icc 1 2, _ ≤ (0 : ℝ)
  have e : Icc 1 2 = ({1, 2} : Finset Nat) := by decide
  rw [e]
  simp [hget]
  norm_num

end Gama.Cov
