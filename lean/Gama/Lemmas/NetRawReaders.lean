/-
  C04 (audit #3, "Missing, by value 2", network part) — the CONDITIONAL guarantee of the raw readers of `LocalNetwork`.

  A raw reader (`Gen.Member` row with `uncovered ≠ []`: `stdev_obs`, `qxx`, `cond`, `rhs`, …) reads a cached artefact
  without bringing it up to date first, so it is outside `net_history_free` (`Member.WF` demands `uncovered = []`,
  witness `net_raw_reader_stale`).  What the callers rely on (`solve()` / `is_adjusted()` first, then the readers) is
  the conditional statement proved here:

    in a state of the invariant in which the flag of every level the member reads uncovered is set
    (`tst_vyrovnani_` set is enough for ALL raw readers, because the flags are monotone: `NInv.m1..m3`),
    and the solver does not throw, the member answers with artefacts computed from the CURRENT configuration —
    `rawSpec s.cfg m` — which is also what it answers on a brand-new network with that configuration on which
    `solve()` was called first.

  Order of the answer list (as `nstep` builds it): first the uncovered reads, in the order of `m.uncovered`
  (they are evaluated before the member's compute function), then the remaining reads in the order of `m.reads`.

  Core Lean only.  Depends only on `NState`, `nstep`, `NInv`, `run_spec`, `update` (not on `MState`).
-/
import Gama.Lemmas.NetState
namespace Gama.C04.Net
open Gen

/-- a table row that may read cached artefacts raw: every uncovered read is of an existing level, every OTHER read
    is covered by the unconditional prefix (as in `Member.WF`), levels in range.  `Member.WF` is the special case
    `uncovered = []` (`rawWF_of_wf`). -/
structure Gen.Member.RawWF (m : Member) : Prop where
  unc : ∀ l ∈ m.uncovered, l ≤ 3
  reads : ∀ r ∈ m.reads, r ∈ m.uncovered ∨ ∃ e, m.ensures = some e ∧ r ≤ e
  ens : ∀ e, m.ensures = some e → e ≤ 3
  upd : ∀ u, m.updates = some u → u ≤ 3

def Gen.Member.rawWfb (m : Member) : Bool :=
  m.uncovered.all (fun l => decide (l ≤ 3))
  && m.reads.all (fun r => m.uncovered.contains r
        || (match m.ensures with | some e => decide (r ≤ e) | none => false))
  && (match m.ensures with | some e => decide (e ≤ 3) | none => true)
  && (match m.updates with | some u => decide (u ≤ 3) | none => true)

theorem Gen.Member.rawWF_of_rawWfb {m : Member} (h : m.rawWfb = true) : m.RawWF := by
  simp only [Gen.Member.rawWfb, Bool.and_eq_true, List.all_eq_true, Bool.or_eq_true, decide_eq_true_eq] at h
  obtain ⟨⟨⟨h1, h2⟩, h3⟩, h4⟩ := h
  refine ⟨h1, ?_, ?_, ?_⟩
  · intro r hr
    rcases h2 r hr with hc | hc
    · exact Or.inl (by simpa using hc)
    · right
      cases he : m.ensures with
      | none => simp [he] at hc
      | some e => simp [he] at hc; exact ⟨e, rfl, hc⟩
  · intro e he; simp [he] at h3; exact h3
  · intro u hu; simp [hu] at h4; exact h4

theorem Gen.Member.rawWF_of_wf {m : Member} (h : m.WF) : m.RawWF :=
  ⟨(by rw [h.covered]; intro l hl; exact absurd hl (List.not_mem_nil)), fun r hr => Or.inr (h.reads r hr), h.ens, h.upd⟩

/-- the answer of a raw reader whose artefacts are all current: provenance = the configuration `c`, uncovered reads
    first -/
def rawSpec (c : Cfg) (m : Member) : NOut :=
  .read ((m.uncovered.map fun l => (l, some (snap c l)))
         ++ ((m.reads.filter fun l => !m.uncovered.contains l).map fun l => (l, some (snap c l))))

/-- for a covered member this is `nspec` -/
theorem rawSpec_wf (c : Cfg) (m : Member) (h : m.WF) : rawSpec c m = nspec c (.call m) := by
  unfold rawSpec nspec
  rw [h.covered]
  have : (m.reads.filter fun l => !([] : List Nat).contains l) = m.reads := by
    apply List.filter_eq_self.mpr; intro a _; simp
  rw [this]; rfl

/-- the unconditional prefix of a `RawWF` member in a state of the invariant (solver not throwing): no throw,
    invariant and configuration kept, flags only gained, every covered read current -/
theorem prefixRun_raw (inp : NInput) (hthr : inp.throws = false) {s : NState} (h : NInv s) (m : Member) (hm : m.RawWF) :
    ∃ s', prefixRun inp m s = (s', false) ∧ NInv s' ∧ s'.cfg = s.cfg
      ∧ ∀ r ∈ m.reads, r ∉ m.uncovered → s'.art r = some (snap s.cfg r) := by
  cases he : m.ensures with
  | none =>
    refine ⟨s, by simp [prefixRun, he], h, rfl, ?_⟩
    intro r hr hnu
    rcases hm.reads r hr with hu | ⟨e, he', _⟩
    · exact absurd hu hnu
    · rw [he] at he'; cases he'
  | some L =>
    have hL := hm.ens L he
    have hr := run_spec inp hthr h L hL
    refine ⟨(run inp L s).1, ?_, hr.2.1, hr.2.2.1, ?_⟩
    · simp only [prefixRun, he]
      rw [← hr.1]
    · intro r hrd hnu
      rcases hm.reads r hrd with hu | ⟨e, he', hre⟩
      · exact absurd hu hnu
      · rw [he] at he'; cases he'
        have hf := runOk_flag hr.2 r hre hL
        rw [ninv_art hr.2.1 r (by omega) hf, hr.2.2.1]

/-- **Raw readers, conditional guarantee (general form).**  If the flag of every level the member reads uncovered is
    set, the answer is the current one; the invariant and the configuration are kept. -/
theorem nstep_raw_spec (inp : NInput) (hthr : inp.throws = false) {s : NState} (h : NInv s) (m : Member) (hm : m.RawWF)
    (hfl : ∀ l ∈ m.uncovered, s.flag l = true) :
    (nstep inp s (.call m)).2 = rawSpec s.cfg m
    ∧ NInv (nstep inp s (.call m)).1 ∧ (nstep inp s (.call m)).1.cfg = s.cfg := by
  obtain ⟨s', hs', hi', hc', ha'⟩ := prefixRun_raw inp hthr h m hm
  have hout : (nstep inp s (.call m)).2 = rawSpec s.cfg m := by
    simp only [nstep, hs', rawSpec, Bool.false_eq_true, if_false]
    congr 2
    · apply List.map_congr_left
      intro l hl
      rw [ninv_art h l (hm.unc l hl) (hfl l hl)]
    · apply List.map_congr_left
      intro r hr
      have hr' := List.mem_filter.1 hr
      rw [ha' r hr'.1 (by simpa using hr'.2)]
  have hst : (nstep inp s (.call m)).1 = (match m.updates with | some u => update s' u | none => s') := by
    simp only [nstep, hs', Bool.false_eq_true, if_false]
    rfl
  refine ⟨hout, ?_, ?_⟩
  · rw [hst]
    cases hu : m.updates with
    | none => exact hi'
    | some u => exact ninv_update hi' u (hm.upd u hu)
  · rw [hst]
    cases hu : m.updates with
    | none => exact hc'
    | some u => simp only; rw [(update_frame s' u (hm.upd u hu)).1]; exact hc'

/-- in a state of the invariant `tst_vyrovnani_` implies every flag -/
theorem ninv_f3_all {s : NState} (h : NInv s) (h3 : s.f3 = true) (l : Nat) : s.flag l = true := by
  have h2 := h.m3 h3
  have h1 := h.m2 h2
  have h0 := h.m1 h1
  match l with
  | 0 => exact h0
  | 1 => exact h1
  | 2 => exact h2
  | _ + 3 => exact h3

/-- **Raw readers after an adjustment** (`is_adjusted()`): ANY raw reader — of whatever levels — answers with
    artefacts of the current configuration. -/
theorem nstep_raw_adjusted (inp : NInput) (hthr : inp.throws = false) {s : NState} (h : NInv s) (h3 : s.f3 = true)
    (m : Member) (hm : m.RawWF) : (nstep inp s (.call m)).2 = rawSpec s.cfg m :=
  (nstep_raw_spec inp hthr h m hm (fun l _ => ninv_f3_all h h3 l)).1

/-- the audit's form: members whose uncovered reads are all of level 3 (`cond`, `qxx`, `stdev_obs`, …); the
    hypothesis `uncovered ⊆ [3]` replaces `RawWF.unc` -/
theorem nstep_raw_level3 (inp : NInput) (hthr : inp.throws = false) {s : NState} (h : NInv s) (h3 : s.f3 = true)
    (m : Member) (hu : ∀ l ∈ m.uncovered, l = 3)
    (hreads : ∀ r ∈ m.reads, r ∈ m.uncovered ∨ ∃ e, m.ensures = some e ∧ r ≤ e)
    (hens : ∀ e, m.ensures = some e → e ≤ 3) (hupd : ∀ u, m.updates = some u → u ≤ 3) :
    (nstep inp s (.call m)).2
      = .read ((m.uncovered.map fun l => (l, some (snap s.cfg l)))
               ++ ((m.reads.filter fun l => !m.uncovered.contains l).map fun l => (l, some (snap s.cfg l)))) :=
  nstep_raw_adjusted inp hthr h h3 m ⟨fun l hl => by rw [hu l hl]; exact Nat.le_refl 3, hreads, hens, hupd⟩

/-! ### the same answer as a fresh network after `solve()` -/

/-- a covered member that ensures level 3 and issues no update (such as `solve`) leaves the network adjusted -/
theorem nstep_adjusts (inp : NInput) (hthr : inp.throws = false) {s : NState} (h : NInv s) (sol : Member)
    (he : sol.ensures = some 3) (hu : sol.updates = none) :
    NInv (nstep inp s (.call sol)).1 ∧ (nstep inp s (.call sol)).1.cfg = s.cfg
    ∧ (nstep inp s (.call sol)).1.f3 = true := by
  have hr := run_spec inp hthr h 3 (Nat.le_refl 3)
  have hp : prefixRun inp sol s = ((run inp 3 s).1, false) := by
    simp only [prefixRun, he]; rw [← hr.1]
  have hst : (nstep inp s (.call sol)).1 = (run inp 3 s).1 := by
    simp only [nstep, hp, hu, Bool.false_eq_true, if_false]
  rw [hst]
  exact ⟨hr.2.1, hr.2.2.1, hr.2.2.2.2.2.2 (Nat.le_refl 3)⟩

/-- **fresh-after-solve form**: on an adjusted network a raw reader answers what it answers on a brand-new network with
    the current configuration on which `sol` (a member ensuring level 3 without an update: `solve`) was called first -/
theorem nstep_raw_eq_fresh_after (inp : NInput) (hthr : inp.throws = false) {s : NState} (h : NInv s)
    (h3 : s.f3 = true) (m : Member) (hm : m.RawWF) (sol : Member) (he : sol.ensures = some 3) (hu : sol.updates = none) :
    (nstep inp s (.call m)).2 = (nstep inp (nstep inp (ninit s.cfg) (.call sol)).1 (.call m)).2 := by
  have h0 := nstep_adjusts inp hthr (ninv_init s.cfg) sol he hu
  rw [nstep_raw_adjusted inp hthr h h3 m hm, nstep_raw_adjusted inp hthr h0.1 h0.2.2 m hm, h0.2.1]
  rfl

/-- … with `solve` of the generated table -/
theorem nstep_raw_eq_fresh_after_solve (inp : NInput) (hthr : inp.throws = false) {s : NState} (h : NInv s)
    (h3 : s.f3 = true) (m : Member) (hm : m.RawWF) :
    (nstep inp s (.call m)).2 = (nstep inp (nstep inp (ninit s.cfg) (.call (memberD "solve"))).1 (.call m)).2 :=
  nstep_raw_eq_fresh_after inp hthr h h3 m hm (memberD "solve") (by decide) (by decide)

/-- along a history: after any history of `Ok` operations (covered members, changes, touches) that leaves the network
    adjusted, and further raw reads in between (they keep the invariant: `nstep_raw_spec`), see `nrun_inv` -/
theorem nrun_raw_adjusted (inp : NInput) (hthr : inp.throws = false) (c : Cfg) (ops : List NOp) (hops : ∀ o ∈ ops, o.Ok)
    (m : Member) (hm : m.RawWF) (h3 : (nrun inp (ninit c) ops).f3 = true) :
    let s := nrun inp (ninit c) ops
    (nstep inp s (.call m)).2 = rawSpec s.cfg m
    ∧ (nstep inp s (.call m)).2 = (nstep inp (nstep inp (ninit s.cfg) (.call (memberD "solve"))).1 (.call m)).2 := by
  intro s
  have hi : NInv s := nrun_inv inp hthr (ninv_init c) hops
  exact ⟨nstep_raw_adjusted inp hthr hi h3 m hm, nstep_raw_eq_fresh_after_solve inp hthr hi h3 m hm⟩

/-! ### the generated table -/

/-- every row of the CURRENT table is `RawWF` — the conditional guarantee covers every public member of the table -/
theorem table_all_rawWF : ∀ m ∈ Gen.members, m.RawWF := by
  intro m hm
  apply Gen.Member.rawWF_of_rawWfb
  revert m
  decide

/-- the raw readers whose uncovered reads are all of level 3 (premise of `nstep_raw_level3`): 12 of the 24 -/
theorem table_raw_level3 :
    (Gen.members.filter (fun m => !m.uncovered.isEmpty && m.uncovered.all (· == 3))).map (·.name)
      = ["cond", "lindep", "obs_control", "qbb", "qbx", "qxx", "std_error_ellipse", "stdev_obs", "stdev_res",
         "studentized_residual", "unknown_stdev", "wcoef_res"] := by decide

/-- … and the raw readers of lower levels (covered by `nstep_raw_adjusted` / `nstep_raw_spec`) -/
theorem table_raw_lower :
    (Gen.members.filter (fun m => !m.uncovered.isEmpty && !m.uncovered.all (· == 3))).map (·.name)
      = ["connected_network", "min_n", "observations_count", "ptr_obs", "rejected_observations", "rhs",
         "test_abs_term", "undefined_coordinates", "unknown_pointid", "unknown_standpoint", "unknown_type",
         "weight_obs"] := by decide

/-! ### non-vacuity -/

/-- `solve()` on a new network, then `stdev_obs`, `qxx`: hypotheses hold, the artefact read is the current one;
    after a configuration change (level 2) the hypothesis `f3 = true` fails and so does the conclusion
    (`net_raw_reader_stale`) -/
example :
    let inp : NInput := { throws := false }
    let solve := memberD "solve"
    let s := nrun inp (ninit ⟨0, 0, 0, 0⟩) [.call solve]
    NInv s ∧ s.f3 = true ∧ (memberD "stdev_obs").RawWF ∧ (memberD "qxx").RawWF
    ∧ (memberD "stdev_obs").uncovered = [3]
    ∧ (nstep inp s (.call (memberD "stdev_obs"))).2 = .read [(3, some ⟨0, 0, 0, 0⟩)]
    ∧ rawSpec s.cfg (memberD "qxx") = .read [(3, some ⟨0, 0, 0, 0⟩)]
    ∧ (nrun inp s [.change 2]).f3 = false
    ∧ (nstep inp (nrun inp s [.change 2]) (.call (memberD "stdev_obs"))).2
        ≠ rawSpec (nrun inp s [.change 2]).cfg (memberD "stdev_obs") := by
  refine ⟨?_, by decide, Gen.Member.rawWF_of_rawWfb (by decide), Gen.Member.rawWF_of_rawWfb (by decide), by decide,
    by decide, by decide, by decide, by decide⟩
  exact nrun_inv _ rfl (ninv_init _) (by
    intro o ho
    simp only [List.mem_cons, List.mem_nil_iff, or_false] at ho
    subst ho
    exact Gen.Member.wf_of_wfb (by decide))

/-- a raw reader of two lower levels with a non-trivial order (`test_abs_term`: uncovered [1, 2]) after `solve`,
    a level-3 change and `update_adjustment`: `f3` is false, `f1`, `f2` are set — the general form applies -/
example :
    let inp : NInput := { throws := false }
    let s := nrun inp (ninit ⟨0, 0, 0, 0⟩) [.call (memberD "solve"), .change 3]
    let m := memberD "test_abs_term"
    s.f3 = false ∧ (∀ l ∈ m.uncovered, s.flag l = true)
    ∧ (nstep inp s (.call m)).2 = .read [(1, some ⟨0, 0, 0, 0⟩), (2, some ⟨0, 0, 0, 0⟩)] := by
  exact ⟨by decide, by decide, by decide⟩

/-- `studentized_residual` (uncovered [3], ensures 3): on an adjusted network its early read is current -/
example :
    let inp : NInput := { throws := false }
    let s := nrun inp (ninit ⟨0, 0, 0, 7⟩) [.call (memberD "solve")]
    (nstep inp s (.call (memberD "studentized_residual"))).2 = .read [(3, some ⟨0, 0, 0, 7⟩)]
    ∧ rawSpec s.cfg (memberD "studentized_residual") = .read [(3, some ⟨0, 0, 0, 7⟩)] := by
  exact ⟨by decide, by decide⟩

end Gama.C04.Net
