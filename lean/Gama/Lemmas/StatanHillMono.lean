/-
  C17, round 9: the SECOND Hill branch of `Student` (N ≥ 3, the tail branch `y ≤ a + 0.05`, `y = (d·alfa)^(2/N)`) is
  strictly monotone: `hillY2 r d ·` is strictly decreasing on (0, a + 0.05] for 3 ≤ r ≤ 10000.
  `W = r·y·E = r + 6 − (0.089 d + 0.822)·r·y ≥ 0.3 r + 0.9` (quantitative form of `hillDiv2_pos`), hence the increasing
  part `((1/(3(r+2)E) + 0.5/(r+4))·y − 1)(r+1)/(r+2)` has slope < 1 while `1/y` has slope < −4.9.
-/
import Gama.Lemmas.StatanHill
namespace Gama.Statan
open Real

theorem hillW_lower {r d y : ℝ} (hr : 3 ≤ r) (hr' : r ≤ 10000) (hd0 : 0 < d) (hd : d ^ 2 ≤ 19 / 10 * r)
    (hy0 : 0 < y) (hy : y ≤ 1 / (r - 1 / 2) + 1 / 20) :
    3 / 10 * r + 9 / 10 ≤ r + 6 - (0.089 * d + 0.822) * (r * y) := by
  have hrh : 0 < r - 1 / 2 := by linarith
  have hdle : d ≤ 19 / 2000 * r + 50 := by nlinarith [sq_nonneg (d - 100)]
  have hW : 0.089 * d + 0.822 ≤ 0.0008455 * r + 5.272 := by linarith
  have hW0 : 0 < 0.089 * d + 0.822 := by positivity
  have hY : (1 / (r - 1 / 2) + 1 / 20) * (r - 1 / 2) = 1 + (r - 1 / 2) / 20 := by
    rw [add_mul, div_mul_cancel₀ _ hrh.ne']; ring
  have hcubic : (0.0008455 * r + 5.272) * r * (1 + (r - 1 / 2) / 20) ≤ (7 / 10 * r + 51 / 10) * (r - 1 / 2) := by
    nlinarith [mul_nonneg (mul_nonneg (sub_nonneg.mpr hr) (sub_nonneg.mpr hr')) (by linarith : (0 : ℝ) ≤ r),
      mul_nonneg (sub_nonneg.mpr hr) (sub_nonneg.mpr hr)]
  have h1 : (0.089 * d + 0.822) * (r * y) ≤ (0.0008455 * r + 5.272) * (r * (1 / (r - 1 / 2) + 1 / 20)) := by
    apply mul_le_mul hW (mul_le_mul_of_nonneg_left hy (by linarith)) (by positivity) (by positivity)
  have h2 : (0.0008455 * r + 5.272) * (r * (1 / (r - 1 / 2) + 1 / 20)) ≤ 7 / 10 * r + 51 / 10 := by
    have : (0.0008455 * r + 5.272) * (r * (1 / (r - 1 / 2) + 1 / 20)) * (r - 1 / 2)
        ≤ (7 / 10 * r + 51 / 10) * (r - 1 / 2) := by
      calc (0.0008455 * r + 5.272) * (r * (1 / (r - 1 / 2) + 1 / 20)) * (r - 1 / 2)
          = (0.0008455 * r + 5.272) * r * ((1 / (r - 1 / 2) + 1 / 20) * (r - 1 / 2)) := by ring
        _ = (0.0008455 * r + 5.272) * r * (1 + (r - 1 / 2) / 20) := by rw [hY]
        _ ≤ _ := hcubic
    exact le_of_mul_le_mul_right this hrh
  linarith

theorem hillY2_real (r d y : ℝ) :
    hillY2 r d y = ((1 / (hillDiv2 r d y * (r + 2) * 3) + (1 / 2) / (r + 4)) * y - 1) * (r + 1) / (r + 2) + 1 / y := by
  unfold hillY2; simp only [lit_real, scalar_ofNat_real]; norm_num

/-- the increasing part `u(y) = y/(3(r+2)E(y)) = r y²/(3(r+2)W(y))` has slope at most 13/14 -/
theorem hillU_slope {r K y1 y2 : ℝ} (hr : 3 ≤ r) (hK : 0 ≤ K) (h1 : 0 < y1) (h12 : y1 < y2) (h2 : y2 ≤ 9 / 20)
    (hW1 : 3 / 10 * r + 9 / 10 ≤ r + 6 - K * (r * y1)) (hW2 : 3 / 10 * r + 9 / 10 ≤ r + 6 - K * (r * y2)) :
    r * y2 ^ 2 / (3 * (r + 2) * (r + 6 - K * (r * y2))) - r * y1 ^ 2 / (3 * (r + 2) * (r + 6 - K * (r * y1)))
      ≤ 13 / 14 * (y2 - y1) := by
  set W1 := r + 6 - K * (r * y1) with hW1d
  set W2 := r + 6 - K * (r * y2) with hW2d
  have hm : 0 < 3 / 10 * r + 9 / 10 := by linarith
  have hW1p : 0 < W1 := by linarith
  have hW2p : 0 < W2 := by linarith
  have hd : 0 < y2 - y1 := by linarith
  have hr2 : 0 < 3 * (r + 2) := by linarith
  -- numerator identity and bound
  have hnum : y2 ^ 2 * W1 - y1 ^ 2 * W2 = (y2 - y1) * ((y1 + y2) * (r + 6) - K * r * y1 * y2) := by
    rw [hW1d, hW2d]; ring
  have hKr : 0 ≤ K * r * y1 * y2 :=
    mul_nonneg (mul_nonneg (mul_nonneg hK (by linarith)) h1.le) (by linarith)
  have hnum2 : y2 ^ 2 * W1 - y1 ^ 2 * W2 ≤ (y2 - y1) * (9 / 10 * (r + 6)) := by
    rw [hnum]
    apply mul_le_mul_of_nonneg_left _ hd.le
    nlinarith
  have hWW : (3 / 10 * r + 9 / 10) ^ 2 ≤ W1 * W2 := by nlinarith
  -- the algebraic core: r·(9/10)(r+6) ≤ (13/14)·3(r+2)·m²
  have hcore : r * (9 / 10 * (r + 6)) ≤ 13 / 14 * (3 * (r + 2)) * (3 / 10 * r + 9 / 10) ^ 2 := by
    nlinarith [mul_nonneg (sub_nonneg.mpr hr) (sub_nonneg.mpr hr), mul_nonneg (mul_nonneg (sub_nonneg.mpr hr) (sub_nonneg.mpr hr)) (sub_nonneg.mpr hr)]
  have e : r * y2 ^ 2 / (3 * (r + 2) * W2) - r * y1 ^ 2 / (3 * (r + 2) * W1)
      = r * (y2 ^ 2 * W1 - y1 ^ 2 * W2) / (3 * (r + 2) * (W1 * W2)) := by
    field_simp
  rw [e, div_le_iff₀ (by positivity)]
  have hr0 : 0 ≤ r := by linarith
  calc r * (y2 ^ 2 * W1 - y1 ^ 2 * W2) ≤ r * ((y2 - y1) * (9 / 10 * (r + 6))) := mul_le_mul_of_nonneg_left hnum2 hr0
    _ = (y2 - y1) * (r * (9 / 10 * (r + 6))) := by ring
    _ ≤ (y2 - y1) * (13 / 14 * (3 * (r + 2)) * (3 / 10 * r + 9 / 10) ^ 2) := mul_le_mul_of_nonneg_left hcore hd.le
    _ ≤ (y2 - y1) * (13 / 14 * (3 * (r + 2)) * (W1 * W2)) := by
        apply mul_le_mul_of_nonneg_left _ hd.le
        apply mul_le_mul_of_nonneg_left hWW (by positivity)
    _ = 13 / 14 * (y2 - y1) * (3 * (r + 2) * (W1 * W2)) := by ring

/-- **second Hill branch: strictly decreasing in y** on (0, a + 0.05], 3 ≤ r ≤ 10000 -/
theorem hillY2_strictAnti {r d y1 y2 : ℝ} (hr : 3 ≤ r) (hr' : r ≤ 10000) (hd0 : 0 < d) (hd : d ^ 2 ≤ 19 / 10 * r)
    (h1 : 0 < y1) (h12 : y1 < y2) (h2 : y2 ≤ 1 / (r - 1 / 2) + 1 / 20) : hillY2 r d y2 < hillY2 r d y1 := by
  have hK : (0 : ℝ) ≤ 0.089 * d + 0.822 := by positivity
  have hy45 : y2 ≤ 9 / 20 := by
    have : 1 / (r - 1 / 2) ≤ 2 / 5 := by
      rw [div_le_div_iff₀ (by linarith) (by norm_num)]; linarith
    linarith
  have hW1 := hillW_lower hr hr' hd0 hd h1 (by linarith)
  have hW2 := hillW_lower hr hr' hd0 hd (by linarith : 0 < y2) h2
  have hU := hillU_slope hr hK h1 h12 hy45 hW1 hW2
  have hy2 : 0 < y2 := by linarith
  -- y/(3(r+2)E) = r y²/(3(r+2)W)
  have hu : ∀ y : ℝ, 0 < y → 3 / 10 * r + 9 / 10 ≤ r + 6 - (0.089 * d + 0.822) * (r * y) →
      1 / (hillDiv2 r d y * (r + 2) * 3) * y = r * y ^ 2 / (3 * (r + 2) * (r + 6 - (0.089 * d + 0.822) * (r * y))) := by
    intro y hy hW
    have hWp : 0 < r + 6 - (0.089 * d + 0.822) * (r * y) := by linarith
    have hE : hillDiv2 r d y = (r + 6 - (0.089 * d + 0.822) * (r * y)) / (r * y) := by
      rw [hillDiv2_real]; field_simp; ring
    rw [hE]; field_simp
  rw [hillY2_real, hillY2_real]
  have e1 : ∀ y : ℝ, (1 / (hillDiv2 r d y * (r + 2) * 3) + 1 / 2 / (r + 4)) * y
      = 1 / (hillDiv2 r d y * (r + 2) * 3) * y + 1 / 2 / (r + 4) * y := by
    intro y; ring
  rw [e1 y1, e1 y2, hu y1 h1 hW1, hu y2 hy2 hW2]
  set u1 := r * y1 ^ 2 / (3 * (r + 2) * (r + 6 - (0.089 * d + 0.822) * (r * y1)))
  set u2 := r * y2 ^ 2 / (3 * (r + 2) * (r + 6 - (0.089 * d + 0.822) * (r * y2)))
  have hd' : 0 < y2 - y1 := by linarith
  have hB : 1 / 2 / (r + 4) ≤ 1 / 14 := by rw [div_le_iff₀ (by linarith)]; linarith
  have hg : (u2 + 1 / 2 / (r + 4) * y2) - (u1 + 1 / 2 / (r + 4) * y1) ≤ y2 - y1 := by
    have : 1 / 2 / (r + 4) * y2 - 1 / 2 / (r + 4) * y1 ≤ 1 / 14 * (y2 - y1) := by
      have := mul_le_mul_of_nonneg_right hB hd'.le
      linarith
    linarith
  have hq0 : 0 < (r + 1) / (r + 2) := by positivity
  have hq1 : (r + 1) / (r + 2) ≤ 1 := by rw [div_le_one (by linarith)]; linarith
  have hinv : y2 - y1 < 1 / y1 - 1 / y2 := by
    rw [div_sub_div _ _ h1.ne' hy2.ne', lt_div_iff₀ (by positivity)]
    have : y1 * y2 < 1 := by nlinarith
    nlinarith
  have hmain : ((u2 + 1 / 2 / (r + 4) * y2) - (u1 + 1 / 2 / (r + 4) * y1)) * ((r + 1) / (r + 2)) ≤ y2 - y1 := by
    calc _ ≤ (y2 - y1) * ((r + 1) / (r + 2)) := mul_le_mul_of_nonneg_right hg hq0.le
      _ ≤ (y2 - y1) * 1 := mul_le_mul_of_nonneg_left hq1 hd'.le
      _ = y2 - y1 := mul_one _
  have e2 : ∀ g y : ℝ, (g - 1) * (r + 1) / (r + 2) + 1 / y = (g - 1) * ((r + 1) / (r + 2)) + 1 / y := by
    intro g y; ring
  rw [e2, e2]
  nlinarith

/-! ### lifted to `Student` -/

/-- the `y` of Hill's algorithm: `pow(d·alfa, 2/r)` -/
noncomputable def hillY (N : ℤ) (u : ℝ) : ℝ :=
  ((hillABCD (Scalar.ofInt N : ℝ)).2.2.2 * u) ^ ((2 : ℝ) / (Scalar.ofInt N : ℝ))

/-- N ≥ 3, the tail branch (`y ≤ a + 0.05`): `studentHill = sqrt(r · hillY2 r d y)` -/
theorem studentHill_tail (fuel : ℕ) (N : ℤ) (u : ℝ)
    (hbr : ¬ ((hillABCD (Scalar.ofInt N : ℝ)).1 + 1 / 20 < hillY N u)) :
    studentHill fuel u N
      = Real.sqrt ((Scalar.ofInt N : ℝ) * hillY2 (Scalar.ofInt N : ℝ) (hillABCD (Scalar.ofInt N : ℝ)).2.2.2 (hillY N u)) := by
  unfold studentHill
  have e : (lit 5 2 : ℝ) = 1 / 20 := by rw [lit_real]; norm_num
  have hy : Transc.pow ((hillABCD (Scalar.ofInt N : ℝ)).2.2.2 * u) ((Scalar.ofNat 2 : ℝ) / (Scalar.ofInt N : ℝ)) = hillY N u := by
    unfold hillY; simp only [scalar_ofNat_real]; rfl
  simp only [hy, e, if_neg hbr, scalar_sqrt_real]

/-- **Student, 3 ≤ N ≤ 10000, tail branch**: for doubled tail probabilities `0 < u < v` whose `y` stays in the tail branch
    the unsigned critical value is strictly decreasing -/
theorem studentHill_tail_strictAnti (fuel : ℕ) {N : ℤ} (hN : 3 ≤ N) (hN' : N ≤ 10000) {u v : ℝ} (hu : 0 < u) (huv : u < v)
    (hbr : ¬ ((hillABCD (Scalar.ofInt N : ℝ)).1 + 1 / 20 < hillY N v)) :
    studentHill fuel v N < studentHill fuel u N ∧ 0 < studentHill fuel v N := by
  have hr : (3 : ℝ) ≤ (Scalar.ofInt N : ℝ) := by rw [ofInt_real]; exact_mod_cast hN
  have hr' : (Scalar.ofInt N : ℝ) ≤ 10000 := by rw [ofInt_real]; exact_mod_cast hN'
  obtain ⟨ha, _, _, hd, hd2⟩ := hill_bounds hr
  set r : ℝ := (Scalar.ofInt N : ℝ) with hrdef
  set d := (hillABCD r).2.2.2 with hddef
  have hr0 : 0 < r := by linarith
  have hx : 0 < (2 : ℝ) / r := by positivity
  have hyu : 0 < hillY N u := by unfold hillY; exact Real.rpow_pos_of_pos (mul_pos hd hu) _
  have hyuv : hillY N u < hillY N v := by
    unfold hillY
    exact Real.rpow_lt_rpow (mul_pos hd hu).le (mul_lt_mul_of_pos_left huv hd) hx
  have hv : hillY N v ≤ 1 / (r - 1 / 2) + 1 / 20 := by rw [← ha]; exact not_lt.mp hbr
  have hbru : ¬ ((hillABCD r).1 + 1 / 20 < hillY N u) := by
    rw [ha]; exact not_lt.mpr (by linarith)
  rw [studentHill_tail fuel N v hbr, studentHill_tail fuel N u hbru]
  have hanti := hillY2_strictAnti hr hr' hd hd2 hyu hyuv hv
  have hEv := hillDiv2_pos hr hr' hd hd2 (by linarith : 0 < hillY N v) hv
  have hpos := hillY2_pos hr hEv (by linarith : 0 < hillY N v) hv
  have hrv : 0 < r * hillY2 r d (hillY N v) := mul_pos hr0 hpos
  exact ⟨Real.sqrt_lt_sqrt hrv.le (mul_lt_mul_of_pos_left hanti hr0), Real.sqrt_pos.mpr hrv⟩

/-- the same for `Student(α, N)` itself, `0 < α < β < ½` -/
theorem student_hill_tail_strictAnti (fuel : ℕ) {N : ℤ} (hN : 3 ≤ N) (hN' : N ≤ 10000) {α β : ℝ} (h0 : 0 < α)
    (hab : α < β) (hb : β < 1 / 2)
    (hbr : ¬ ((hillABCD (Scalar.ofInt N : ℝ)).1 + 1 / 20 < hillY N (β * 2))) :
    student fuel β N < student fuel α N ∧ 0 < student fuel β N := by
  rw [student_lt_half fuel N hb, student_lt_half fuel N (by linarith : α < 1 / 2)]
  have e : ∀ w : ℝ, studentAbs fuel w N = studentHill fuel w N := by
    intro w; unfold studentAbs; rw [if_neg (by omega), if_neg (by omega)]
  rw [e, e]
  exact studentHill_tail_strictAnti fuel hN hN' (by linarith) (by linarith) hbr

/-- N = 3: every doubled tail probability `u ≤ 1/12` (α ≤ 1/24, e.g. the 95 % and 99 % levels) is in the tail branch -/
theorem hillY_tail_N3 {u : ℝ} (hu : 0 < u) (hu' : u ≤ 1 / 12) :
    ¬ ((hillABCD (Scalar.ofInt 3 : ℝ)).1 + 1 / 20 < hillY 3 u) := by
  have hr3 : (Scalar.ofInt 3 : ℝ) = 3 := by rw [ofInt_real]; norm_num
  obtain ⟨ha, _, _, hd, hd2⟩ := hill_bounds (r := (Scalar.ofInt 3 : ℝ)) (by rw [hr3])
  rw [ha, hr3]
  unfold hillY
  rw [hr3]
  rw [hr3] at hd hd2
  set d := (hillABCD (3 : ℝ)).2.2.2
  have hd24 : d ≤ 12 / 5 := by nlinarith
  have hx0 : 0 < d * u := mul_pos hd hu
  have hx1 : d * u ≤ 1 / 5 := by nlinarith
  have h1 : (d * u) ^ ((2 : ℝ) / 3) ≤ (d * u) ^ ((1 : ℝ) / 2) :=
    Real.rpow_le_rpow_of_exponent_ge hx0 (by linarith) (by norm_num)
  have h2 : (d * u) ^ ((1 : ℝ) / 2) = Real.sqrt (d * u) := (Real.sqrt_eq_rpow (d * u)).symm
  have h3 : Real.sqrt (d * u) ≤ 9 / 20 := by
    have := Real.sqrt_le_sqrt (show d * u ≤ (9 / 20 : ℝ) ^ 2 by norm_num; linarith)
    rwa [Real.sqrt_sq (by norm_num)] at this
  rw [not_lt]
  have : (1 : ℝ) / (3 - 1 / 2) + 1 / 20 = 9 / 20 := by norm_num
  linarith

end Gama.Statan
