/-
  VALUES of the products other than Mat·Mat (round 9): the closed-form models of Model/MatVec.lean — which the
  regenerated loops equal (Lemmas/MatVecKernels.lean) — compute the algebraic definition, for all dimensions,
  over any semiring: `A·b` (`Matrix.mulVec`), `trans(A)·b`, `bᵀ·A` (`Matrix.vecMul`), `aᵀ·b` (`dotProduct`);
  and what `operator*(Vec,TransMat)` computes AS CODED (known finding C15-vec-transmat).
-/
import Gama.Lemmas.MatVecAlg
import Gama.Lemmas.MatVecGuards
import Mathlib.Data.Matrix.Mul
namespace Gama.MatVec
open Finset
variable {K : Type}

/-- entry `k` of a vector given by its storage (junk `d` outside) -/
def vat (b : Vec K) (d : K) (k : Nat) : K := b.getD k d

theorem rd_vat {b : Vec K} (d : K) {k : Nat} (hk : k < b.size) : rd b k = .ok (vat b d k) := by
  rw [rd_ok hk]; simp [vat, Array.getD, hk]

/-- entry `(i,j)`, 0-based, of the VIEW `trans(M)` whose storage is `M`'s: `m[j*rows + i]` -/
def TMat.at (A : TMat K) (d : K) (i j : Nat) : K := A.data.getD (i + j * A.rows) d

theorem TMat.rd_at {A : TMat K} (hA : A.WF) (d : K) {i j : Nat} (hi : i < A.rows) (hj : j < A.cols) :
    rd A.data (i + j * A.rows) = .ok (A.at d i j) := by
  have : i + j * A.rows < A.data.size := by
    rw [hA, Nat.mul_comm A.rows A.cols, Nat.add_comm]; exact idx_lt hj hi
  rw [rd_ok this]; simp [TMat.at, Array.getD, this]

/-- the view of `trans(M)` IS the transpose of `M` -/
theorem trans_at (M : Mat K) (d : K) (i j : Nat) : (trans M).at d i j = M.at d j i := by
  simp [TMat.at, Mat.at, trans, Nat.add_comm]

theorem vec_of_tab {v : Array K} {g : Nat → K} {n : Nat} (d : K)
    (he : ∀ p, p < n → v[p]? = some (g p)) {i : Nat} (hi : i < n) : vat v d i = g i := by
  simp [vat, Array.getD_eq_getD_getElem?, he i hi]

section
variable [Semiring K]

/-- `operator*(const Mat&, const Vec&)`: `(A b)_i = Σ_k A(i,k) b_k` -/
theorem matMulVec_spec (A : Mat K) (b : Vec K) (hA : A.WF) (hc : A.cols = b.size) (d : K) :
    ∃ v, matMulVec A b = .ok v ∧ v.size = A.rows ∧
      ∀ i, i < A.rows → vat v d i = ∑ k ∈ range A.cols, A.at d i k * vat b d k := by
  have hl : ∀ i, i < A.rows → sumLoop A.cols (fun j => mulRd A.data (i * A.cols + j) b j)
      = .ok (∑ k ∈ range A.cols, A.at d i k * vat b d k) := by
    intro i hi
    apply sumLoop_spec
    intro k hk
    simp [mulRd, Mat.rd_at hA d hi hk, rd_vat d (show k < b.size by omega)]
  obtain ⟨a, ha, hs, he⟩ := tabulate_spec A.rows _ _ hl
  refine ⟨a, ?_, hs, fun i hi => vec_of_tab d he hi⟩
  have hg : ¬ (A.cols ≠ b.size) := by simp [hc]
  simp only [matMulVec, hg, if_false, ha]

/-- `operator*(const TransMat&, const Vec&)`: `(trans(M) b)_i = Σ_k T(i,k) b_k` -/
theorem tMulVec_spec (A : TMat K) (b : Vec K) (hA : A.WF) (hc : A.cols = b.size) (d : K) :
    ∃ v, tMulVec A b = .ok v ∧ v.size = A.rows ∧
      ∀ i, i < A.rows → vat v d i = ∑ k ∈ range A.cols, A.at d i k * vat b d k := by
  have hl : ∀ i, i < A.rows → sumLoop A.cols (fun j => mulRd A.data (i + j * A.rows) b j)
      = .ok (∑ k ∈ range A.cols, A.at d i k * vat b d k) := by
    intro i hi
    apply sumLoop_spec
    intro k hk
    simp [mulRd, TMat.rd_at hA d hi hk, rd_vat d (show k < b.size by omega)]
  obtain ⟨a, ha, hs, he⟩ := tabulate_spec A.rows _ _ hl
  refine ⟨a, ?_, hs, fun i hi => vec_of_tab d he hi⟩
  have hg : ¬ (A.cols ≠ b.size) := by simp [hc]
  simp only [tMulVec, hg, if_false, ha]

/-- `operator*(const TransVec&, const Mat&)`: `(bᵀ A)_j = Σ_k b_k A(k,j)` -/
theorem tvecMulMat_spec (b : Vec K) (A : Mat K) (hA : A.WF) (hc : b.size = A.rows) (d : K) :
    ∃ v, tvecMulMat b A = .ok v ∧ v.size = A.cols ∧
      ∀ j, j < A.cols → vat v d j = ∑ k ∈ range A.rows, vat b d k * A.at d k j := by
  have hl : ∀ j, j < A.cols → sumLoop A.rows (fun i => mulRd b i A.data (j + i * A.cols))
      = .ok (∑ k ∈ range A.rows, vat b d k * A.at d k j) := by
    intro j hj
    apply sumLoop_spec
    intro k hk
    have e2 : rd A.data (j + k * A.cols) = .ok (A.at d k j) := by
      rw [Nat.add_comm]; exact Mat.rd_at hA d hk hj
    simp [mulRd, e2, rd_vat d (show k < b.size by omega)]
  obtain ⟨a, ha, hs, he⟩ := tabulate_spec A.cols _ _ hl
  refine ⟨a, ?_, hs, fun i hi => vec_of_tab d he hi⟩
  have hg : ¬ (b.size ≠ A.rows) := by simp [hc]
  simp only [tvecMulMat, hg, if_false, ha]

/-- `VecBase::dot` / `operator*(TransVec,Vec)`: `Σ_k a_k b_k` -/
theorem dot_spec (a b : Vec K) (hc : a.size = b.size) (d : K) :
    dot a b = .ok (∑ k ∈ range a.size, vat a d k * vat b d k) := by
  have hg : ¬ (a.size ≠ b.size) := by simp [hc]
  simp only [dot, hg, if_false]
  apply sumLoop_spec
  intro k hk
  simp [mulRd, rd_vat d hk, rd_vat d (show k < b.size by omega)]

/-- `operator*(const Vec& b, const TransMat& A)` AS CODED, where it stays inside its operands (`cols ≤ rows`):
    entry `i` is `Σ_{j<cols} m[i + j·cols] · b_j` — the storage read with stride `cols`, not `rows`; it is
    `bᵀ·trans(M)` only for a square view (known finding C15-vec-transmat) -/
theorem vecMulT_spec (b : Vec K) (A : TMat K) (hA : A.WF) (hc : A.rows = b.size) (hle : A.cols ≤ A.rows) (d : K) :
    ∃ v, vecMulT b A = .ok v ∧ v.size = A.rows ∧
      ∀ i, i < A.rows → vat v d i = ∑ j ∈ range A.cols, A.data.getD (i + j * A.cols) d * vat b d j := by
  have hl : ∀ i, i < A.rows → sumLoop A.cols (fun j => mulRd A.data (i + j * A.cols) b j)
      = .ok (∑ j ∈ range A.cols, A.data.getD (i + j * A.cols) d * vat b d j) := by
    intro i hi
    apply sumLoop_spec
    intro k hk
    have hlt : i + k * A.cols < A.data.size := by
      rw [hA]
      calc i + k * A.cols < A.rows + k * A.cols := by omega
        _ ≤ A.rows + (A.cols - 1) * A.rows := by
            have : k * A.cols ≤ (A.cols - 1) * A.rows := Nat.mul_le_mul (by omega) hle
            omega
        _ = A.rows * A.cols := by
            obtain ⟨c, hcc⟩ : ∃ c, A.cols = c + 1 := ⟨A.cols - 1, by omega⟩
            rw [hcc]; simp [Nat.mul_succ, Nat.mul_comm, Nat.add_comm]
    have e1 : rd A.data (i + k * A.cols) = .ok (A.data.getD (i + k * A.cols) d) := by
      rw [rd_ok hlt]; simp [Array.getD, hlt]
    simp [mulRd, e1, rd_vat d (show k < b.size by omega)]
  obtain ⟨a, ha, hs, he⟩ := tabulate_spec A.rows _ _ hl
  refine ⟨a, ?_, hs, fun i hi => vec_of_tab d he hi⟩
  have hg : ¬ (A.rows ≠ b.size) := by simp [hc]
  simp only [vecMulT, hg, if_false, ha]

end
end Gama.MatVec
