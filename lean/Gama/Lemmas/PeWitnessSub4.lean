/-
  The sub-configuration `(unused, constrained, free)` of `Ex.netWobs` (`A` unused) evaluated over ℝ: the revision leaves the one
  height difference `B→C` of the CORRELATED cluster (active pattern `[f,f,t]`, `activeCov() = [40]`, cofactor 10 — `Adj::choldec`
  gives `√10`, kept symbolic); `project_equations()` hands over the 1×2 system `rows = [(1,−1),(2,1)]` (`B.z ↦ 1`, `C.z ↦ 2`),
  `rhs_ = (2)`, `min_x_ = [1]`: rank defect 1, kernel `(1,1)`, resolved by `min_x_`.  `NetHyp .gso` holds: `Σ = [40]`,
  every Schur pivot of `AᵀPA` is `0` or `1/10`, margin `τ²·2t² < t²` on the kernel.
-/
import Gama.Lemmas.PeWitnessSub
namespace Gama.C06NZ.Ex
open Gama Gama.Lin Gama.PE Gama.Ls Gama.Ls.Net Gama.LS Gama.C06FP Gama.C06NZ Gama.Ls.Ex Gama.Props.C01 Matrix Gama.NetDecision

noncomputable def net4 : PE.Net ℝ := netWs .unused .constrained .free
noncomputable def rn4 : PE.Net ℝ := revise net4
noncomputable def b4 : PassOut ℝ := ⟨[[(1, -1), (2, 1)]], [2], ⟨2, [(⟨2, .z⟩, 2), (⟨1, .z⟩, 1)]⟩⟩
noncomputable def np4 : NetProblem ℝ :=
  { m := 1, n := 2, rows := #[#[(1, -1), (2, 1)]], rhs := #[2], clusters := npClusters rn4, m0 := 2, minx := [1] }

theorem robs4 : revisedObs rn4 = [⟨.h_diff, 0, 1, 2, 0, -5 + 2 / 1000⟩] := rfl

theorem pass4_real : @passFrom ℝ instTrigScalarReal (sigmaOf rn4) rn4.fuel (revisedObs rn4) IdxState.init = .ok b4 := by
  rw [robs4]
  simp only [passFrom, Kind.lin, h_diff_eq]
  show Except.ok (⟨[[(1, -1), (2, 1)]], [((-5 + 2 / 1000 : ℝ) - (105 - 110)) * 1000], ⟨2, [(⟨2, .z⟩, 2), (⟨1, .z⟩, 1)]⟩⟩ : PassOut ℝ) = _
  unfold b4
  norm_num

section facade
attribute [local instance] sqrtFnOfSqrtField
attribute [local instance 2000] scalarOfField
attribute [local instance 3000] fieldTrig
attribute [-simp] Gama.C06R.add_eq Gama.C06R.sub_eq Gama.C06R.mul_eq Gama.C06R.div_eq Gama.C06R.neg_eq Gama.C06R.zero_eq
  Gama.C06R.one_eq Gama.C06R.lt_eq Gama.C06R.le_eq

theorem pass4 : passFrom (sigmaOf rn4) rn4.fuel (revisedObs rn4) IdxState.init = .ok b4 := by
  rw [passFrom_inst]; exact pass4_real

noncomputable def asm4 : Asm ℝ := { np := { np4 with minx := [] }, idx := b4.idx, list := unknownsList rn4 b4.idx }

theorem assemble4 : assemble rn4 = .ok asm4 := by
  have hlin : linPass rn4 (revisedObs rn4) (rn4.idx.resetPass (guardOf rn4)) = .ok b4 := by
    unfold linPass
    have h1 : (revisedObs rn4).takeWhile (oriOK rn4) = revisedObs rn4 := rfl
    have h2 : rn4.idx.resetPass (guardOf rn4) = IdxState.init := rfl
    simp only [h1, h2, pass4, if_true]
  unfold assemble
  simp only [hlin]
  rfl

theorem activeCov_3_2_fft {K : Type} [Zero K] (a b c d e f : K) :
    Cov.activeCov ⟨3, 2, #[a, b, c, d, e, f]⟩ [⟨false, 1⟩, ⟨false, 1⟩, ⟨true, 1⟩] = ⟨1, 0, #[f]⟩ := by
  simp [Cov.activeCov, Cov.activeCovOf, Cov.activeIdx, Cov.CovMat.mk', Cov.Packed.size, Cov.CovMat.set, Cov.CovMat.get,
    Cov.Packed.idx, Cov.Packed.rowOff, Cov.CovMat.rawSet, Cov.CovMat.raw, Cov.CovMat.inBuf, List.range, List.range.loop,
    List.range'_succ, List.range'_zero]

theorem np4_act : activeClusters np4 = [⟨⟨3, 2, #[16, 3, 8, 25, 5, 40]⟩, [false, false, true]⟩] := rfl

theorem np4_cofs : cofs np4 = [⟨1, 0, #[40 * (1 / (2 * 2))]⟩] := by
  unfold cofs
  rw [np4_act]
  have e2 := activeCov_3_2_fft (K := ℝ) 16 3 8 25 5 40
  have hm : np4.m0 = 2 := rfl
  simp only [List.map_cons, List.map_nil, Cluster.cofactor, Net.Cluster.obs, e2, scaleBuf, hm, List.map_toArray]

theorem np4_prepare : ∃ hh, prepare np4 = .ok hh := by
  have e1 := covEps_pos
  have e2 := covEps_small
  have hf : factors (cofs np4) = .ok [⟨1, 0, #[Real.sqrt 10]⟩] := by
    rw [np4_cofs, show (40 : ℝ) * (1 / (2 * 2)) = 10 by norm_num]
    have h2 : Cov.adjCholdec (⟨1, 0, #[10]⟩ : Cov.CovMat ℝ) = .ok ⟨1, 0, #[Real.sqrt 10]⟩ :=
      adjCholdec_1_0 10 (by rw [tolOfS, maxS]; norm_num; linarith)
    simp only [factors, h2]
  unfold prepare
  simp only [hf]
  exact ⟨_, rfl⟩

noncomputable def u4 : Unknowns ℝ := ⟨2, asm4.list, { rn4 with idx := b4.idx }, []⟩

theorem pe4 : projectEquations net4 = .ok (np4, u4) := by
  obtain ⟨hh, hp⟩ := np4_prepare
  have hp' : prepare asm4.np = .ok hh := hp
  have hs : (SingularCoords.singularCoords hh.Ad (idxFn asm4.idx) (ptsOf rn4)).1 = false := rfl
  have hr : revise net4 = rn4 := rfl
  show peLoop 4 net4 [] = _
  unfold peLoop
  simp only [hr, assemble4, hp', hs]
  rfl

theorem np4_dimsN : dimsN np4 = [1] := by unfold dimsN; rw [np4_cofs]; rfl

theorem np4_Sigma : (Sigma np4 : Matrix (Fin 1) (Fin 1) ℝ) = !![40] := by
  ext i j
  show sigmaF np4 i.val j.val = _
  unfold sigmaF
  rw [np4_dimsN, np4_act]
  fin_cases i <;> fin_cases j <;>
    simp [AdjM.locate, Net.Cluster.obs, Cov.activeIdx, Cov.CovMat.get, Cov.Packed.idx, Cov.Packed.rowOff, Cov.CovMat.raw,
      Cov.CovMat.inBuf, List.range, List.range.loop] <;> rfl

noncomputable def Pc4 : Matrix (Fin (toProblem np4).m) (Fin (toProblem np4).m) ℝ := (!![1 / 40] : Matrix (Fin 1) (Fin 1) ℝ)

theorem np4_sigma_inv : Sigma np4 * Pc4 = 1 := by
  have h := np4_Sigma
  have e : (!![40] : Matrix (Fin 1) (Fin 1) ℝ) * !![1 / 40] = 1 := by
    ext i j; fin_cases i; fin_cases j; simp [Matrix.mul_apply]
  exact (congrArg (fun M : Matrix (Fin 1) (Fin 1) ℝ => M * !![1 / 40]) h).trans e

theorem np4_A : ((toProblem np4).A : Matrix (Fin 1) (Fin 2) ℝ) = !![-1, 1] := by
  have h : (toProblem np4).A = toMatrix 1 2 (toProblem np4).dense := rfl
  have hd : (toProblem np4).dense = #[#[-1, 1]] := by
    simp [Problem.dense, toProblem, np4]
    rfl
  rw [h, hd]
  ext i j; fin_cases i; fin_cases j <;> rfl

/-- `(Aβ)ᵀP(Aβ) = (β₁ − β₀)²/10`, `(AᵀPAβ)_j = ±(β₁ − β₀)/10` -/
theorem gap4 : GapAllP (!![-1, 1] : Matrix (Fin 1) (Fin 2) ℝ) (((2 : ℝ) * 2) • (!![1 / 40] : Matrix (Fin 1) (Fin 1) ℝ)) (1 / 8192) := by
  intro k β hk horth
  have hq : ((!![-1, 1] : Matrix (Fin 1) (Fin 2) ℝ) *ᵥ β) ⬝ᵥ
      (((2 : ℝ) * 2) • (!![1 / 40] : Matrix (Fin 1) (Fin 1) ℝ)) *ᵥ ((!![-1, 1] : Matrix (Fin 1) (Fin 2) ℝ) *ᵥ β)
      = (β 1 - β 0) * (β 1 - β 0) / 10 := by
    simp [Matrix.mulVec, dotProduct, Fin.sum_univ_two, Matrix.smul_apply]
    ring
  have hN : ∀ j : Fin 2, ((!![-1, 1] : Matrix (Fin 1) (Fin 2) ℝ)ᵀ *ᵥ
      ((((2 : ℝ) * 2) • (!![1 / 40] : Matrix (Fin 1) (Fin 1) ℝ)) *ᵥ ((!![-1, 1] : Matrix (Fin 1) (Fin 2) ℝ) *ᵥ β))) j = 0 →
      β 1 - β 0 = 0 := by
    intro j hj
    fin_cases j <;> simp [Matrix.mulVec, dotProduct, Fin.sum_univ_two, Matrix.smul_apply] at hj <;> linarith
  rw [hq]
  obtain ⟨j, hjk, hall⟩ : ∃ j : Fin 2, j ≠ k ∧ (β 1 - β 0 = β k - β j ∨ β 1 - β 0 = β j - β k) := by
    fin_cases k
    · exact ⟨1, by decide, Or.inr rfl⟩
    · exact ⟨0, by decide, Or.inl rfl⟩
  by_cases hβ : β j = 0
  · right
    rcases hall with h | h <;> rw [h, hk, hβ] <;> norm_num
  · left
    rw [hN j (horth j hjk hβ)]
    norm_num

theorem margin4 : SMargin (!![-1, 1] : Matrix (Fin 1) (Fin 2) ℝ) ({0} : Finset (Fin 2)) (1 / 8192) := by
  intro g hg hne
  have h0 : -g 0 + g 1 = 0 := by
    have := congrFun hg 0
    simpa [Matrix.mulVec, dotProduct, Fin.sum_univ_two] using this
  have h1 : g 1 = g 0 := by linarith
  have hg0 : g 0 ≠ 0 := by
    intro h
    apply hne
    funext i
    fin_cases i
    · exact h
    · show g 1 = 0
      rw [h1, h]
  have hpos : 0 < g 0 * g 0 := mul_self_pos.mpr hg0
  have hgg : g ⬝ᵥ g = g 0 * g 0 + g 1 * g 1 := by simp [dotProduct, Fin.sum_univ_two]
  rw [hgg, h1]
  simp only [Finset.sum_singleton]
  nlinarith

theorem np4_netHyp : NetHyp .gso np4 := by
  have hrows : RowsOK (toProblem np4) := by
    intro i hi
    have : i = 0 := by have : i < 1 := hi; omega
    subst this
    simp [toProblem, np4, Array.getD]
  have hm0 : np4.m0 ≠ 0 := by show (2 : ℝ) ≠ 0; norm_num
  have hdim : (dimsN np4).sum = np4.m := by rw [np4_dimsN]; rfl
  have hreg : Env.RegListOK (toProblem np4) := by
    intro l hl
    have : l = [1] := by
      have h : Reg.subset [1] = Reg.subset l := hl
      injection h with h'; exact h'.symm
    subst this
    have hn : (toProblem np4).n = 2 := rfl
    rw [hn]
    exact ⟨by decide, by decide⟩
  have hS : ((toProblem np4).S : Finset (Fin 2)) = ({0} : Finset (Fin 2)) := by
    show Reg.toFinset 2 (.subset [1]) = _
    decide
  have hgap : RankGap (toProblem np4).A ((np4.m0 * np4.m0) • Pc4) (toProblem np4).S (1 / 8192) := by
    refine ⟨?_, ?_⟩
    · have h := gap4
      rw [← np4_A] at h
      exact h
    · have h := margin4
      rw [← np4_A, ← hS] at h
      exact h
  exact { rows := hrows, m0 := hm0, weight := ⟨Pc4, np4_sigma_inv⟩
          first := C01_net_solverhyp_of_gap np4 hdim hrows hm0 Pc4 np4_sigma_inv hreg C01_gap_thresholds_default hgap .gso (by decide)
          second := trivial }

theorem cfg4_netHyp (np : NetProblem ℝ) (hp : (peWorld netWobs (dcfg .unused .constrained .free)).prob = some np) :
    NetHyp .gso np := by
  have h : projectEquations (withStatuses netWobs (dcfg .unused .constrained .free)) = .ok (np4, u4) := pe4
  rw [peWorld_prob_eq netWobs _ _ _ h np hp]
  exact np4_netHyp

end facade
end Gama.C06NZ.Ex
