/-
  C07 on the pass's OWN matrix (round 7, gap #9 of notes/CLAUSES.md audit #3).

  `C07_circle_rotation_assembled` is about `C07Perm.codeMatrixOf`, a matrix typed by C07's own replay of the numbering,
  and takes `colOf … uOri ∉ S` as a hypothesis.  Here the statement is made about `passMatrix r` / `r.rhs` of a pass of
  `Lin.passFrom` (what `project_equations()` runs), with the orientation column read off C05's own row theorem
  (`Lin.passFrom_rows`: entry = sum of the pushes for roles naming the unknown; `Lin.design_matrix_is_jacobian` (2): 0 in
  the column of an unknown no role names) — no second numbering model:

    * `ori_column`        the column `index_orientation(k)` of the pass has −1 in the rows of the directions of
                          stand-point `k` and 0 in every other row (regular rows)
    * `rotation_of_pass`  the direction set of stand-point `k` read `c` larger, no row wrapping ⇒ the same matrix, the
                          right-hand sides of exactly those rows larger by `c·R2CC`, and the least-squares solution has the
                          same coordinates, residuals and Φ, the orientation unknown smaller by `c·R2CC` — whenever the
                          orientation column is not in the regularisation subset (LS6).
-/
import Gama.Lemmas.ProjectEquationsJacobian
import Gama.Lemmas.C06FixedPoint
import Gama.Lemmas.C07Lin
import Gama.Lemmas.C07LS
namespace Gama.C07PE
open Gama Gama.Lin Gama.PE Gama.LS Gama.C06FP Matrix

/-- row `i` is a direction of stand-point (cluster) `k` -/
def InSet (obs : List (NObs ℝ)) (k : Nat) (i : Fin obs.length) : Prop :=
  obs[i].kind = .direction ∧ obs[i].sp = k

instance (obs : List (NObs ℝ)) (k : Nat) (i : Fin obs.length) : Decidable (InSet obs k i) := by
  unfold InSet; infer_instance

/-- no role of a row that is not a direction of stand-point `k` names the orientation unknown of `k` -/
theorem roles_ne_ori (ob : NObs ℝ) (k : Nat) (h : ¬ (ob.kind = .direction ∧ ob.sp = k)) :
    ∀ rc ∈ ob.kind.roles, ob.name rc.1 rc.2 ≠ ⟨k, .ori⟩ := by
  intro rc hrc heq
  rw [name_eq] at heq
  have hc : rc.2 = .ori := congrArg Unk.c heq
  have hid : roleId ob rc.1 = k := congrArg Unk.id heq
  obtain ⟨ro, co⟩ := rc
  simp only at hc hid
  subst hc
  cases hk : ob.kind <;> rw [hk] at hrc <;> simp [Kind.roles] at hrc
  subst hrc
  exact h ⟨hk, hid⟩

/-- the pushes of a regular direction sum to −1 on its own orientation unknown -/
theorem direction_symEntry_ori (ob : NObs ℝ) (o : Obs ℝ) :
    symEntry ob.name (pushes (directionEvs o)) ⟨ob.sp, .ori⟩ = -1 := by
  unfold directionEvs
  cases o.pfrom.free_xy <;> cases o.pto.free_xy <;> simp [NObs.name]

section
variable (σ : Lin.Net ℝ) (fuel : Nat) (obs : List (NObs ℝ)) (s0 : IdxState) (r : PassOut ℝ)

/-- **the orientation column of the pass**: for a stand-point `k` with at least one direction in the pass, the index
    `index_orientation(k)` the pass ends with is a column `1 … n`, and that column holds −1 in the rows of the directions
    of `k` and 0 elsewhere -/
theorem ori_column (hs0 : s0.WF) (hp : passFrom σ fuel obs s0 = .ok r)
    (hreg : ∀ ob ∈ obs, Regular ob.kind (σ.view ob)) (k : Nat) (i0 : Fin obs.length) (hi0 : InSet obs k i0) :
    ∃ col : Fin r.idx.maxn, col.val + 1 = r.idx.get ⟨k, .ori⟩ ∧
      ∀ i : Fin obs.length, passMatrix r obs.length i col = if InSet obs k i then -1 else 0 := by
  have hok := PE.passFrom_ok σ fuel obs s0 r hs0 hp
  -- the entry of any row in the column of the orientation unknown
  have hent : ∀ i : Fin obs.length,
      codeMatrix r.rows i.val (r.idx.get ⟨k, .ori⟩) = if InSet obs k i then -1 else 0 := by
    intro i
    have hget : obs[i.val]? = some obs[i] := by simp
    have hregi := hreg obs[i] (List.getElem_mem i.isLt)
    by_cases hin : InSet obs k i
    · rw [if_pos hin]
      obtain ⟨out, ho, _, hsym⟩ := passFrom_rows σ fuel obs s0 r hs0 hp i.val obs[i] hget
      rw [hsym (PE.lin_wellTouched _ _ _ _ ho)]
      have hk : obs[i].kind = .direction := hin.1
      have ho' : Gen.Lin.direction fuel (σ.view obs[i]) = .ok out := by
        have := ho; rw [hk] at this; exact this
      have hc : ¬ hdist (σ.view obs[i]) < CUT := by
        have := hregi; rw [hk] at this; exact this
      have e := (direction_ok fuel _ out hc ho').2
      rw [← hin.2]
      show symEntry obs[i].name (pushes out.evs) _ = -1
      rw [e]
      exact direction_symEntry_ori obs[i] _
    · rw [if_neg hin]
      exact (design_matrix_is_jacobian σ fuel obs s0 hs0 r hp i.val obs[i] hget hregi).2 ⟨k, .ori⟩
        (roles_ne_ori obs[i] k hin)
  -- the index is a column: the entry −1 of row `i0` is not 0
  have hrow_mem : r.rows.getD i0.val [] ∈ r.rows := by
    have : i0.val < r.rows.length := by rw [hok.nrows]; exact i0.isLt
    simp [List.getD_eq_getElem?_getD, this]
  have hne : codeMatrix r.rows i0.val (r.idx.get ⟨k, .ori⟩) ≠ 0 := by rw [hent i0, if_pos hi0]; norm_num
  have hcol : ∃ e ∈ r.rows.getD i0.val [], e.1 = r.idx.get ⟨k, .ori⟩ := by
    by_contra hcon
    push_neg at hcon
    exact hne (rowSum_zero_of_not_col _ _ hcon)
  obtain ⟨e, he, hej⟩ := hcol
  have hrange := hok.range _ hrow_mem e he
  rw [hej] at hrange
  refine ⟨⟨r.idx.get ⟨k, .ori⟩ - 1, by omega⟩, by simp only; omega, ?_⟩
  intro i
  show codeMatrix r.rows i.val (r.idx.get ⟨k, .ori⟩ - 1 + 1) = _
  rw [show r.idx.get ⟨k, .ori⟩ - 1 + 1 = r.idx.get ⟨k, .ori⟩ by omega]
  exact hent i

/-- **circle rotation on the pass's own matrix and right-hand side** -/
theorem rotation_of_pass (hs0 : s0.WF) (hp : passFrom σ fuel obs s0 = .ok r)
    (hreg : ∀ ob ∈ obs, Regular ob.kind (σ.view ob)) (k : Nat) (c : ℝ) (fuel' : Nat)
    (i0 : Fin obs.length) (hi0 : InSet obs k i0) (b' : Fin obs.length → ℝ)
    (hin : ∀ i, InSet obs k i → ∃ out', Gen.Lin.direction fuel' (rotObs c (σ.view obs[i])) = .ok out' ∧ b' i = out'.rhs)
    (hout : ∀ i, ¬ InSet obs k i → b' i = r.rhs.getD i.val 0)
    (hsmall : ∀ i, InSet obs k i → |r.rhs.getD i.val 0 + c * R2CC| < HALF)
    (P : Matrix (Fin obs.length) (Fin obs.length) ℝ) (S : Finset (Fin r.idx.maxn))
    (hS : ∀ j ∈ S, j.val + 1 ≠ r.idx.get ⟨k, .ori⟩)
    (x : Fin r.idx.maxn → ℝ) (v : Fin obs.length → ℝ) (rtr : ℝ)
    (h : IsLSSolution (passMatrix r obs.length) (fun i : Fin obs.length => r.rhs.getD i.val 0) P S x v rtr) :
    ∃ col : Fin r.idx.maxn, col.val + 1 = r.idx.get ⟨k, .ori⟩ ∧
      IsLSSolution (passMatrix r obs.length) b' P S (x + (-(c * R2CC)) • Pi.single col 1) v rtr := by
  obtain ⟨col, hcol, hent⟩ := ori_column σ fuel obs s0 r hs0 hp hreg k i0 hi0
  refine ⟨col, hcol, ?_⟩
  have hk : col ∉ S := fun hm => hS col hm hcol
  classical
  let R : Finset (Fin obs.length) := Finset.univ.filter (fun i => InSet obs k i)
  have hR : ∀ i, i ∈ R ↔ InSet obs k i := fun i => by simp [R]
  have hb : ∀ i, b' i = if i ∈ R then (fun i : Fin obs.length => r.rhs.getD i.val 0) i + c * R2CC
      else (fun i : Fin obs.length => r.rhs.getD i.val 0) i := by
    intro i
    by_cases hi : InSet obs k i
    · rw [if_pos ((hR i).2 hi)]
      obtain ⟨out', ho', hb'⟩ := hin i hi
      have hget : obs[i.val]? = some obs[i] := by simp
      obtain ⟨out, ho, hrhs, _⟩ := passFrom_rows σ fuel obs s0 r hs0 hp i.val obs[i] hget
      have hkd : obs[i].kind = .direction := hi.1
      have ho2 : Gen.Lin.direction fuel (σ.view obs[i]) = .ok out := by
        have := ho; rw [hkd] at this; exact this
      have hc : ¬ hdist (σ.view obs[i]) < CUT := by
        have := hreg obs[i] (List.getElem_mem i.isLt); rw [hkd] at this; exact this
      have hr : r.rhs.getD i.val 0 = out.rhs := by simp [List.getD_eq_getElem?_getD, hrhs]
      have hsm := abs_lt.1 (hsmall i hi)
      rw [hr] at hsm
      show b' i = r.rhs.getD i.val 0 + c * R2CC
      rw [hb', hr]
      exact direction_rot_nowrap fuel fuel' c _ out out' hc ho2 ho' hsm.1 hsm.2.le
    · rw [if_neg (fun hm => hi ((hR i).1 hm))]
      exact hout i hi
  have hc' : ∀ i, passMatrix r obs.length i col = if i ∈ R then -1 else 0 := by
    intro i
    rw [hent i]
    by_cases hi : InSet obs k i
    · rw [if_pos hi, if_pos ((hR i).2 hi)]
    · rw [if_neg hi, if_neg (fun hm => hi ((hR i).1 hm))]
  rw [rhs_shift_eq col R (c * R2CC) b' hc' hb]
  exact h.shift_single col (-(c * R2CC)) hk

end

end Gama.C07PE
