/-
  Lemmas about the `<cov-mat>` handling of `GKFparser` (Model/CovParse.lean):
  `process_cov` accepts only `1 ≤ dim`, `band < dim`; `finish_cov` accepts exactly
  `dim*(band+1) - band*(band+1)/2` numeric words and stores the k-th word in the k-th packed
  element (fill order = storage order); `finish_coords` / `finish_vectors` accept only
  `dim = number of observations`; `finish_obs` / `finish_hdiffs` do so only with the dim check
  (finding F9: the code at HEAD does not).
-/
import Gama.Model.CovParse
import Gama.Lemmas.CovActive
namespace Gama.Cov.CovParse
open Gama.Cov Gama.Cov.Packed Gama.Cov.CovMat

variable {K : Type}

/-! ### `CoreParser::error` : first error wins -/

theorem error_err_ne (s : St K) (e : PErr) : (s.error e).err ≠ none := by
  unfold St.error
  cases h : s.err <;> simp [h]

theorem error_err_of_none {s : St K} (e : PErr) (h : s.err = none) : (s.error e).err = some e := by
  unfold St.error; simp [h]

theorem error_of_ne {s : St K} (e : PErr) (h : s.err ≠ none) : s.error e = s := by
  unfold St.error
  cases h' : s.err with
  | none => exact absurd h' h
  | some x => simp

theorem error_err_mono {s : St K} (e : PErr) (h : s.err ≠ none) : (s.error e).err ≠ none := by
  rw [error_of_ne e h]; exact h

theorem error_data (s : St K) (e : PErr) : (s.error e).data = s.data := by
  unfold St.error; split <;> rfl

theorem error_idim (s : St K) (e : PErr) : (s.error e).idim = s.idim := by
  unfold St.error; split <;> rfl

theorem error_iband (s : St K) (e : PErr) : (s.error e).iband = s.iband := by
  unfold St.error; split <;> rfl

/-! ### `process_cov` -/

theorem processCov_data (s : St K) (undef : Bool) (sdim sband : Attr) :
    (processCov s undef sdim sband).data = s.data := by
  unfold processCov
  split
  · exact error_data _ _
  · split
    · exact error_data _ _
    · exact error_data _ _
    · exact error_data _ _
    · rw [error_data]
    · dsimp only
      split
      · rw [error_data]
      · split
        · rw [error_data]
        · rfl

theorem processCov_err_mono {s : St K} (undef : Bool) (sdim sband : Attr) (h : s.err ≠ none) :
    (processCov s undef sdim sband).err ≠ none := by
  unfold processCov
  split
  · exact error_err_mono _ h
  · split
    · exact error_err_mono _ h
    · exact error_err_mono _ h
    · exact error_err_mono _ h
    · exact error_err_mono _ h
    · dsimp only
      split
      · exact error_err_mono _ h
      · split
        · exact error_err_mono _ h
        · exact h

/-- an accepted `<cov-mat dim= band=>` : both attributes are numbers, `1 ≤ dim`, `band < dim`,
    no other attribute, and the members are set accordingly -/
theorem processCov_accept {s : St K} {undef : Bool} {sdim sband : Attr}
    (_hs : s.err = none) (h : (processCov s undef sdim sband).err = none) :
    1 ≤ (processCov s undef sdim sband).idim ∧
    (processCov s undef sdim sband).iband < (processCov s undef sdim sband).idim ∧
    undef = false ∧
    ∃ d b, sdim = .val d ∧ sband = .val b ∧
      (processCov s undef sdim sband).idim = d ∧ (processCov s undef sdim sband).iband = b := by
  unfold processCov at h ⊢
  split at h
  · exact absurd h (error_err_ne _ _)
  · rename_i hu
    split at h
    · exact absurd h (error_err_ne _ _)
    · exact absurd h (error_err_ne _ _)
    · exact absurd h (error_err_ne _ _)
    · exact absurd h (error_err_ne _ _)
    · rename_i d b
      dsimp only at h
      split at h
      · exact absurd h (error_err_ne _ _)
      · rename_i hd
        split at h
        · exact absurd h (error_err_ne _ _)
        · rename_i hb
          have hu' : undef = false := by simpa using hu
          subst hu'
          simp only [Bool.false_eq_true, if_false, hd, hb]
          exact ⟨by omega, by omega, trivial, d, b, rfl, rfl, rfl, rfl⟩

/-! ### `finish_cov` : the fill loop walks the band in packed order -/

section fill
variable [Zero K]

/-- what the loop does, without the matrix: remaining element count and the stored numbers -/
def fillSpec : List (Option K) → Int → Except PErr (Int × List K)
  | [], el => .ok (el, [])
  | w :: ws, el =>
    if el = 0 then .error .TooMany else
    match w with
    | none => .error .BadElement
    | some v =>
      match fillSpec ws (el - 1) with
      | .error e => .error e
      | .ok (e, l) => .ok (e, v :: l)

omit [Zero K] in
theorem toList_setIfInBounds_append (a : Array K) (pre rest : List K) (v : K)
    (h : a.toList = pre ++ rest) (hr : rest ≠ []) :
    (a.setIfInBounds pre.length v).toList = (pre ++ [v]) ++ rest.tail := by
  rw [Array.toList_setIfInBounds, h]
  cases rest with
  | nil => exact absurd rfl hr
  | cons x xs => simp

/-- the fill loop agrees with `fillSpec`; the stored numbers go to consecutive raw offsets
    starting at `off row col = size - el` -/
theorem fillLoop_spec {d b : Nat} (_hd : 1 ≤ d) (hb : b < d) :
    ∀ (ws : List (Option K)) (el : Int) (row col : Nat) (m : CovMat K) (pre rest : List K),
      m.WF → m.dim = d → m.band = b → m.buf.toList = pre ++ rest →
      (pre.length : Int) = size d b - el → 0 ≤ el →
      (el ≠ 0 → InBand d b row col ∧ off d b row col = size d b - el) →
      match fillSpec ws el with
      | .error e => fillLoop d b ws el row col m = .error e
      | .ok (e, l) => ∃ m', fillLoop d b ws el row col m = .ok (e, m') ∧ m'.WF ∧ m'.dim = d ∧
          m'.band = b ∧ m'.buf.toList = pre ++ l ++ rest.drop l.length := by
  intro ws
  induction ws with
  | nil =>
    intro el row col m pre rest hwf hdim hband hbuf _ _ _
    simp only [fillSpec, fillLoop]
    exact ⟨m, rfl, hwf, hdim, hband, by simpa using hbuf⟩
  | cons w ws ih =>
    intro el row col m pre rest hwf hdim hband hbuf hpre hel hpos
    by_cases h0 : el = 0
    · simp [fillSpec, fillLoop, h0]
    · obtain ⟨hin, hoff⟩ := hpos h0
      cases w with
      | none => simp [fillSpec, fillLoop, h0]
      | some v =>
        have hin' : InBand m.dim m.band row col := by rw [hdim, hband]; exact hin
        have hset : m.set row col v = .ok (m.rawSet (off d b row col) v) := by
          have := set_upper hin' v
          rw [hdim, hband] at this; exact this
        have hbnd := off_bounds (Nat.le_of_lt hb) hin
        have hsz : (m.buf.size : Int) = size d b := by rw [hwf.size_eq, hdim, hband]
        have hinb : m.inBuf (off d b row col) = true := by
          have := inBuf_off hwf hin'
          rw [hdim, hband] at this; exact this
        -- the raw write goes to position `pre.length`
        have hk : (off d b row col).toNat = pre.length := by omega
        have hlen : (pre ++ rest).length = m.buf.size := by rw [← hbuf]; simp
        have hrest : rest ≠ [] := by
          intro e; subst e
          simp at hlen
          omega
        have hbuf' : (m.rawSet (off d b row col) v).buf.toList = (pre ++ [v]) ++ rest.tail := by
          unfold rawSet
          rw [if_pos hinb, hk]
          exact toList_setIfInBounds_append _ _ _ _ hbuf hrest
        have hwf' := rawSet_WF hwf (off d b row col) v
        have hdim' : (m.rawSet (off d b row col) v).dim = d := by rw [rawSet_dim]; exact hdim
        have hband' : (m.rawSet (off d b row col) v).band = b := by rw [rawSet_band]; exact hband
        have hpre' : (((pre ++ [v]).length : Nat) : Int) = size d b - (el - 1) := by
          simp; omega
        obtain ⟨i1, i2, i3, i4⟩ := hin
        -- the next position
        have hnext : ∀ (row' col' : Nat),
            (if col + 1 > row + b ∨ col + 1 > d then (row' = row + 1 ∧ col' = row + 1) else (row' = row ∧ col' = col + 1)) →
            (el - 1 ≠ 0 → InBand d b row' col' ∧ off d b row' col' = size d b - (el - 1)) := by
          intro row' col' hrc hne
          by_cases hc : col + 1 > row + b ∨ col + 1 > d
          · rw [if_pos hc] at hrc
            obtain ⟨e1, e2⟩ := hrc
            subst e1; subst e2
            have hs := rowOff_succ (d := d) (b := b) (r := row) (Nat.le_of_lt hb) i1 (by omega)
            have hl : (rowLen d b row : Int) = (col : Int) - (row : Int) + 1 := by
              unfold rowLen; omega
            have hoff' : off d b (row + 1) (row + 1) = off d b row col + 1 := by
              unfold off at hoff ⊢
              rw [hs, hl]; push_cast; omega
            have hrow : row + 1 ≤ d := by
              by_contra hcon
              have hrd : row = d := by omega
              have hlast := rowOff_last d b (Nat.le_of_lt hb)
              unfold off at hoff'
              rw [hrd] at hoff' hoff
              unfold off at hoff
              rw [hlast] at hoff'
              omega
            exact ⟨⟨by omega, le_refl _, hrow, by omega⟩, by rw [hoff']; omega⟩
          · rw [if_neg hc] at hrc
            obtain ⟨e1, e2⟩ := hrc
            subst e1; subst e2
            refine ⟨⟨i1, by omega, by omega, by omega⟩, ?_⟩
            unfold off at hoff ⊢
            push_cast; omega
        have hspec : fillSpec (some v :: ws) el =
            match fillSpec ws (el - 1) with
            | .error e => .error e
            | .ok (e, l) => .ok (e, v :: l) := by
          simp [fillSpec, h0]
        have hloop : fillLoop d b (some v :: ws) el row col m =
            if col + 1 > row + b ∨ col + 1 > d then
              fillLoop d b ws (el - 1) (row + 1) (row + 1) (m.rawSet (off d b row col) v)
            else fillLoop d b ws (el - 1) row (col + 1) (m.rawSet (off d b row col) v) := by
          simp only [fillLoop, h0, if_false, hset]
        rw [hspec, hloop]
        by_cases hc : col + 1 > row + b ∨ col + 1 > d
        · rw [if_pos hc]
          have := ih (el - 1) (row + 1) (row + 1) _ (pre ++ [v]) rest.tail hwf' hdim' hband' hbuf' hpre'
            (by omega) (hnext (row + 1) (row + 1) (by rw [if_pos hc]; exact ⟨rfl, rfl⟩))
          revert this
          cases fillSpec ws (el - 1) with
          | error e => intro this; exact this
          | ok p =>
            obtain ⟨e, l⟩ := p
            intro this
            obtain ⟨m', h1, h2, h3, h4, h5⟩ := this
            refine ⟨m', h1, h2, h3, h4, ?_⟩
            rw [h5]
            simp [List.drop_tail]
        · rw [if_neg hc]
          have := ih (el - 1) row (col + 1) _ (pre ++ [v]) rest.tail hwf' hdim' hband' hbuf' hpre'
            (by omega) (hnext row (col + 1) (by rw [if_neg hc]; exact ⟨rfl, rfl⟩))
          revert this
          cases fillSpec ws (el - 1) with
          | error e => intro this; exact this
          | ok p =>
            obtain ⟨e, l⟩ := p
            intro this
            obtain ⟨m', h1, h2, h3, h4, h5⟩ := this
            refine ⟨m', h1, h2, h3, h4, ?_⟩
            rw [h5]
            simp [List.drop_tail]

end fill

/-! ### `fillSpec` : exact element count and the three error kinds -/

section finish
variable [Zero K]

theorem fillSpec_ok : ∀ (ws : List (Option K)) (el : Int), (∀ w ∈ ws, w ≠ none) → (ws.length : Int) ≤ el →
    fillSpec ws el = .ok (el - ws.length, ws.map (fun w => w.getD 0))
  | [], el, _, _ => by simp [fillSpec]
  | w :: ws, el, hw, hl => by
    have hl' : (ws.length : Int) + 1 ≤ el := by simpa using hl
    have h0 : el ≠ 0 := by omega
    cases w with
    | none => exact absurd rfl (hw none List.mem_cons_self)
    | some v =>
      have ih := fillSpec_ok ws (el - 1) (fun w hm => hw w (List.mem_cons_of_mem _ hm)) (by omega)
      simp only [fillSpec, h0, if_false, ih]
      simp only [List.length_cons, List.map_cons, Option.getD_some]
      congr 2
      push_cast; omega

omit [Zero K] in
theorem take_cons_toNat (w : Option K) (ws : List (Option K)) {el : Int} (h0 : el ≠ 0) (hel : 0 ≤ el) :
    (w :: ws).take el.toNat = w :: ws.take (el - 1).toNat := by
  have : el.toNat = (el - 1).toNat + 1 := by omega
  rw [this, List.take_succ_cons]

omit [Zero K] in
theorem fillSpec_tooMany : ∀ (ws : List (Option K)) (el : Int), 0 ≤ el →
    (∀ w ∈ ws.take el.toNat, w ≠ none) → (ws.length : Int) > el → fillSpec ws el = .error .TooMany
  | [], el, hel, _, hl => by simp at hl; omega
  | w :: ws, el, hel, hw, hl => by
    by_cases h0 : el = 0
    · simp [fillSpec, h0]
    · rw [take_cons_toNat w ws h0 hel] at hw
      have hl' : (ws.length : Int) + 1 > el := by simpa using hl
      cases w with
      | none => exact absurd rfl (hw none List.mem_cons_self)
      | some v =>
        have ih := fillSpec_tooMany ws (el - 1) (by omega) (fun w hm => hw w (List.mem_cons_of_mem _ hm)) (by omega)
        simp only [fillSpec, h0, if_false, ih]

omit [Zero K] in
theorem fillSpec_badElement : ∀ (ws : List (Option K)) (el : Int), 0 ≤ el →
    (∃ w ∈ ws.take el.toNat, w = none) → fillSpec ws el = .error .BadElement
  | [], el, _, h => by simp at h
  | w :: ws, el, hel, h => by
    by_cases h0 : el = 0
    · subst h0; simp at h
    · rw [take_cons_toNat w ws h0 hel] at h
      cases w with
      | none => simp [fillSpec, h0]
      | some v =>
        obtain ⟨x, hx, hxn⟩ := h
        have hx' : x ∈ ws.take (el - 1).toNat := by
          rcases List.mem_cons.mp hx with e | e
          · subst e; cases hxn
          · exact e
        have ih := fillSpec_badElement ws (el - 1) (by omega) ⟨x, hx', hxn⟩
        simp only [fillSpec, h0, if_false, ih]

/-- `finish_cov` in terms of `fillSpec` -/
theorem finishCov_eq {s : St K} (hd : 1 ≤ s.idim) (hb : s.iband < s.idim) :
    match fillSpec s.data (size s.idim s.iband) with
    | .error e => finishCov s = (s.error e, CovMat.mk' s.idim s.iband 0)
    | .ok (e, l) => ∃ m', finishCov s =
          (if e ≠ 0 then s.error .NotEnough else { s with idim := 0, data := [] }, m') ∧
        m'.WF ∧ m'.dim = s.idim ∧ m'.band = s.iband ∧
        m'.buf.toList = l ++ (List.replicate (size s.idim s.iband).toNat (0 : K)).drop l.length := by
  have hble : s.iband ≤ s.idim := Nat.le_of_lt hb
  have hsz := Packed.size_nonneg hble
  have h := fillLoop_spec (K := K) hd hb s.data (size s.idim s.iband) 1 1 (CovMat.mk' s.idim s.iband 0) []
    (List.replicate (size s.idim s.iband).toNat (0 : K)) (CovMat.mk'_WF _ _ _ hble) rfl rfl
    (by simp [CovMat.mk']) (by simp) hsz
    (fun _ => ⟨⟨le_refl _, le_refl _, hd, by omega⟩, by
      unfold off; rw [rowOff_one _ _ hd hble]; simp⟩)
  revert h
  cases hfs : fillSpec s.data (size s.idim s.iband) with
  | error e =>
    intro h
    simp only [finishCov, h]
  | ok p =>
    obtain ⟨e, l⟩ := p
    intro h
    obtain ⟨m', h1, h2, h3, h4, h5⟩ := h
    refine ⟨m', ?_, h2, h3, h4, by simpa using h5⟩
    simp only [finishCov, h1]
    by_cases he : e = 0
    · simp [he]
    · simp [he]

/-- `finish_cov` accepts exactly `size dim band` numeric words -/
theorem finishCov_accept {s : St K} (hs : s.err = none) (hd : 1 ≤ s.idim) (hb : s.iband < s.idim) :
    (finishCov s).1.err = none ↔
      (s.data.length = (size s.idim s.iband).toNat ∧ ∀ w ∈ s.data, w ≠ none) := by
  have hsz := Packed.size_nonneg (Nat.le_of_lt hb)
  have heq := finishCov_eq hd hb
  by_cases hbad : ∃ w ∈ s.data.take (size s.idim s.iband).toNat, w = none
  · rw [fillSpec_badElement _ _ hsz hbad] at heq
    simp only at heq
    rw [heq]
    constructor
    · intro h; exact absurd h (error_err_ne _ _)
    · rintro ⟨h1, h2⟩
      obtain ⟨w, hw, hwn⟩ := hbad
      exact absurd hwn (h2 w (List.mem_of_mem_take hw))
  · have hgood : ∀ w ∈ s.data.take (size s.idim s.iband).toNat, w ≠ none := by
      intro w hw hwn; exact hbad ⟨w, hw, hwn⟩
    by_cases hlen : (s.data.length : Int) > size s.idim s.iband
    · rw [fillSpec_tooMany _ _ hsz hgood hlen] at heq
      simp only at heq
      rw [heq]
      constructor
      · intro h; exact absurd h (error_err_ne _ _)
      · rintro ⟨h1, _⟩; omega
    · have hle : (s.data.length : Int) ≤ size s.idim s.iband := by omega
      have htake : s.data.take (size s.idim s.iband).toNat = s.data := List.take_of_length_le (by omega)
      rw [htake] at hgood
      rw [fillSpec_ok _ _ hgood hle] at heq
      simp only at heq
      obtain ⟨m', h1, -⟩ := heq
      rw [h1]
      by_cases he : size s.idim s.iband - (s.data.length : Int) = 0
      · simp only [he, ne_eq, not_true_eq_false, if_false]
        constructor
        · intro _; exact ⟨by omega, hgood⟩
        · intro _; exact hs
      · simp only [he, ne_eq, not_false_eq_true, if_true]
        constructor
        · intro h; exact absurd h (error_err_ne _ _)
        · rintro ⟨h1, _⟩; omega

/-- an accepted cov-mat: dimension, band, invariant, and the k-th word is the k-th packed element -/
theorem finishCov_ok {s : St K} (hs : s.err = none) (hd : 1 ≤ s.idim) (hb : s.iband < s.idim)
    (h : (finishCov s).1.err = none) :
    (finishCov s).2.dim = s.idim ∧ (finishCov s).2.band = s.iband ∧ (finishCov s).2.WF ∧
    (finishCov s).2.buf.toList = s.data.map (fun w => w.getD 0) ∧
    (finishCov s).1.idim = 0 ∧ (finishCov s).1.data = [] ∧ (finishCov s).1.iband = s.iband ∧
    (finishCov s).1.err = none := by
  obtain ⟨hlen, hnum⟩ := (finishCov_accept hs hd hb).mp h
  have hsz := Packed.size_nonneg (Nat.le_of_lt hb)
  have heq := finishCov_eq hd hb
  rw [fillSpec_ok _ _ hnum (by omega)] at heq
  simp only at heq
  obtain ⟨m', h1, h2, h3, h4, h5⟩ := heq
  have he : size s.idim s.iband - (s.data.length : Int) = 0 := by omega
  rw [h1]
  simp only [he, ne_eq, not_true_eq_false, if_false]
  refine ⟨h3, h4, h2, ?_, trivial, trivial, trivial, hs⟩
  rw [h5]
  simp [hlen]

theorem finishCov_tooMany {s : St K} (hs : s.err = none) (hd : 1 ≤ s.idim) (hb : s.iband < s.idim)
    (hnum : ∀ w ∈ s.data.take (size s.idim s.iband).toNat, w ≠ none)
    (hlen : s.data.length > (size s.idim s.iband).toNat) : (finishCov s).1.err = some .TooMany := by
  have hsz := Packed.size_nonneg (Nat.le_of_lt hb)
  have heq := finishCov_eq hd hb
  rw [fillSpec_tooMany _ _ hsz hnum (by omega)] at heq
  simp only at heq
  rw [heq]; exact error_err_of_none _ hs

theorem finishCov_badElement {s : St K} (hs : s.err = none) (hd : 1 ≤ s.idim) (hb : s.iband < s.idim)
    (hbad : ∃ w ∈ s.data.take (size s.idim s.iband).toNat, w = none) :
    (finishCov s).1.err = some .BadElement := by
  have hsz := Packed.size_nonneg (Nat.le_of_lt hb)
  have heq := finishCov_eq hd hb
  rw [fillSpec_badElement _ _ hsz hbad] at heq
  simp only at heq
  rw [heq]; exact error_err_of_none _ hs

theorem finishCov_notEnough {s : St K} (hs : s.err = none) (hd : 1 ≤ s.idim) (hb : s.iband < s.idim)
    (hnum : ∀ w ∈ s.data, w ≠ none)
    (hlen : s.data.length < (size s.idim s.iband).toNat) : (finishCov s).1.err = some .NotEnough := by
  have heq := finishCov_eq hd hb
  rw [fillSpec_ok _ _ hnum (by omega)] at heq
  simp only at heq
  obtain ⟨m', h1, -⟩ := heq
  have he : size s.idim s.iband - (s.data.length : Int) ≠ 0 := by omega
  rw [h1]
  simp only [he, ne_eq, not_false_eq_true, if_true]
  exact error_err_of_none _ hs

/-- on an error `finish_cov` does not reset `idim` / the data (as coded) -/
theorem finishCov_err_mono {s : St K} (h : s.err ≠ none) : (finishCov s).1.err ≠ none := by
  unfold finishCov
  dsimp only
  split
  · exact error_err_mono _ h
  · split
    · exact error_err_mono _ h
    · exact h

end finish

/-! ### `finish_coords` / `finish_vectors` / `finish_obs` / `finish_hdiffs` -/

section clusters
variable [Scalar K]

theorem finishCoords_eq {ck : Bool} {s : St K} {nobs : Nat} (h0 : s.idim ≠ 0) (hn : s.idim = nobs) :
    finishCoords ck s nobs =
      if ck then
        (if checkThrows false [] (finishCov s).2 then ((finishCov s).1.error .NotPD, (finishCov s).2)
         else finishCov s)
      else finishCov s := by
  unfold finishCoords
  rw [if_neg h0, if_neg (by simpa using hn)]

/-- `finish_coords` / `finish_vectors` accept only `dim = number of observations` (and a cov-mat
    must be present) -/
theorem finishCoords_accept {ck : Bool} {s : St K} {nobs : Nat} (_hs : s.err = none)
    (h : (finishCoords ck s nobs).1.err = none) : s.idim = nobs ∧ s.idim ≠ 0 := by
  unfold finishCoords at h
  split at h
  · exact absurd h (error_err_ne _ _)
  · rename_i h0
    split at h
    · exact absurd h (error_err_ne _ _)
    · rename_i hn
      exact ⟨by simpa using hn, h0⟩

theorem finishCoords_err_mono {ck : Bool} {s : St K} {nobs : Nat} (h : s.err ≠ none) :
    (finishCoords ck s nobs).1.err ≠ none := by
  by_cases h0 : s.idim = 0
  · unfold finishCoords; rw [if_pos h0]; exact error_err_mono _ h
  · by_cases hn : s.idim = nobs
    · rw [finishCoords_eq h0 hn]
      have := finishCov_err_mono h
      split
      · split
        · exact error_err_mono _ this
        · exact this
      · exact this
    · unfold finishCoords; rw [if_neg h0, if_pos hn]; exact error_err_mono _ h

/-- when accepted, the parser state and the matrix are those of `finish_cov` -/
theorem finishCoords_ok {ck : Bool} {s : St K} {nobs : Nat} (hs : s.err = none)
    (h : (finishCoords ck s nobs).1.err = none) :
    finishCoords ck s nobs = finishCov s ∧ (finishCov s).1.err = none := by
  obtain ⟨hn, h0⟩ := finishCoords_accept hs h
  rw [finishCoords_eq h0 hn] at h ⊢
  split at h
  · split at h
    · exact absurd h (error_err_ne _ _)
    · rename_i h1 h2
      simp [h1, h2, h]
  · rename_i h1
    simp [h1, h]

theorem finishObsWith_eq {dc isObs ck : Bool} {s : St K} {sigma : List (K × Bool)}
    (hc : ¬ (dc = true ∧ s.idim ≠ 0 ∧ s.idim ≠ sigma.length)) :
    finishObsWith dc isObs ck s sigma =
      if ck then
        (if checkThrows isObs sigma (if s.idim ≠ 0 then finishCov s else (s, diagFromSigma sigma)).2 then
          ((if s.idim ≠ 0 then finishCov s else (s, diagFromSigma sigma)).1.error .NotPD,
           (if s.idim ≠ 0 then finishCov s else (s, diagFromSigma sigma)).2)
         else ((if s.idim ≠ 0 then finishCov s else (s, diagFromSigma sigma)).1,
               if isObs then scaledCov sigma (if s.idim ≠ 0 then finishCov s else (s, diagFromSigma sigma)).2
               else (if s.idim ≠ 0 then finishCov s else (s, diagFromSigma sigma)).2))
      else (if s.idim ≠ 0 then finishCov s else (s, diagFromSigma sigma)) := by
  unfold finishObsWith
  have hc' : (dc && decide (s.idim ≠ 0) && decide (s.idim ≠ sigma.length)) = false := by
    by_cases a : s.idim = 0 <;> by_cases b : s.idim = sigma.length <;> cases dc <;> simp_all
  simp only [hc']
  rfl

/-- with the dim check, `finish_obs` / `finish_hdiffs` accept a cov-mat only if
    `dim = number of observations` -/
theorem finishObs_fixed_accept {isObs ck : Bool} {s : St K} {sigma : List (K × Bool)} (_hs : s.err = none)
    (h : (finishObsWith true isObs ck s sigma).1.err = none) : s.idim = 0 ∨ s.idim = sigma.length := by
  by_cases hc : s.idim ≠ 0 ∧ s.idim ≠ sigma.length
  · unfold finishObsWith at h
    have hc' : (true && decide (s.idim ≠ 0) && decide (s.idim ≠ sigma.length)) = true := by
      simp [hc.1, hc.2]
    simp only [hc'] at h
    exact absurd h (error_err_ne _ _)
  · omega

theorem finishObsWith_err_mono {dc isObs ck : Bool} {s : St K} {sigma : List (K × Bool)} (h : s.err ≠ none) :
    (finishObsWith dc isObs ck s sigma).1.err ≠ none := by
  by_cases hc : dc = true ∧ s.idim ≠ 0 ∧ s.idim ≠ sigma.length
  · unfold finishObsWith
    have hc' : (dc && decide (s.idim ≠ 0) && decide (s.idim ≠ sigma.length)) = true := by
      simp [hc.1, hc.2.1, hc.2.2]
    simp only [hc']
    exact error_err_mono _ h
  · rw [finishObsWith_eq hc]
    have : (if s.idim ≠ 0 then finishCov s else (s, diagFromSigma sigma)).1.err ≠ none := by
      split
      · exact finishCov_err_mono h
      · exact h
    generalize (if s.idim ≠ 0 then finishCov s else (s, diagFromSigma sigma)) = p at this ⊢
    split
    · split
      · exact error_err_mono _ this
      · exact this
    · exact this

/-- when accepted (and a cov-mat is present), the parser state is that of `finish_cov` and the matrix
    is the one of `finish_cov`, possibly with rows/columns scaled (`finish_obs`, sexagesimal seconds) -/
theorem finishObsWith_ok {dc isObs ck : Bool} {s : St K} {sigma : List (K × Bool)}
    (h0 : s.idim ≠ 0) (hc : ¬ (dc = true ∧ s.idim ≠ 0 ∧ s.idim ≠ sigma.length))
    (h : (finishObsWith dc isObs ck s sigma).1.err = none) :
    (finishCov s).1.err = none ∧ (finishObsWith dc isObs ck s sigma).1 = (finishCov s).1 ∧
    ((finishObsWith dc isObs ck s sigma).2 = (finishCov s).2 ∨
     (finishObsWith dc isObs ck s sigma).2 = scaledCov sigma (finishCov s).2) := by
  rw [finishObsWith_eq hc] at h ⊢
  simp only [h0, ne_eq, not_false_eq_true, if_true] at h ⊢
  cases ck with
  | false =>
    simp only [Bool.false_eq_true, if_false] at h ⊢
    exact ⟨h, trivial, Or.inl trivial⟩
  | true =>
    simp only [if_true] at h ⊢
    by_cases hth : checkThrows isObs sigma (finishCov s).2 = true
    · rw [if_pos hth] at h; exact absurd h (error_err_ne _ _)
    · rw [if_neg hth] at h ⊢
      refine ⟨h, rfl, ?_⟩
      cases isObs
      · exact Or.inl (by simp)
      · exact Or.inr (by simp)

/-! `scaleCov` / `scaledCov` keep dimension and band -/

omit [Scalar K] in
theorem set_dim_band {m m' : CovMat K} {r c : Nat} {v : K} (h : m.set r c v = .ok m') :
    m'.dim = m.dim ∧ m'.band = m.band := by
  unfold CovMat.set at h
  split at h
  · cases h
  · cases h
    exact ⟨rawSet_dim _ _ _, rawSet_band _ _ _⟩

theorem foldlM_except_inv {σ α ε : Type} (step : σ → α → Except ε σ) (P : σ → Prop)
    (hstep : ∀ c i c', step c i = .ok c' → P c → P c') :
    ∀ (l : List α) (c0 c' : σ), P c0 → l.foldlM step c0 = .ok c' → P c'
  | [], c0, c', h0, h => by
    simp only [List.foldlM_nil] at h
    cases h; exact h0
  | a :: l, c0, c', h0, h => by
    rw [List.foldlM_cons] at h
    cases hs : step c0 a with
    | error e => rw [hs] at h; cases h
    | ok c1 =>
      rw [hs] at h
      exact foldlM_except_inv step P hstep l c1 c' (hstep _ _ _ hs h0) h

theorem scaleCov_dim_band {c c' : CovMat K} {p : Nat} {sc : K} (h : scaleCov c p sc = .ok c') :
    c'.dim = c.dim ∧ c'.band = c.band := by
  rw [scaleCov_eq] at h
  cases h1 : c.set p p (c.get p p * sc) with
  | error e => rw [h1] at h; cases h
  | ok c1 =>
    rw [h1] at h
    have e1 := set_dim_band h1
    have := foldlM_except_inv (scStep p sc) (fun x => x.dim = c.dim ∧ x.band = c.band)
      (fun a i a' ha hp => by
        have := set_dim_band ha
        exact ⟨this.1.trans hp.1, this.2.trans hp.2⟩) _ c1 c' e1 h
    exact this

theorem scaledCov_dim_band (sigma : List (K × Bool)) (cov : CovMat K) :
    (scaledCov sigma cov).dim = cov.dim ∧ (scaledCov sigma cov).band = cov.band := by
  unfold scaledCov
  refine foldl_inv _ (fun x : CovMat K => x.dim = cov.dim ∧ x.band = cov.band) _ ?_ _ ⟨rfl, rfl⟩
  · intro c i _ hp
    split
    · split
      · rename_i c' hc
        have := scaleCov_dim_band hc
        exact ⟨this.1.trans hp.1, this.2.trans hp.2⟩
      · exact hp
    · exact hp

/-! ### composition: a cluster WITH `<cov-mat>` -/

/-- `<coordinates>` / `<vectors>` : an accepted cluster with cov-mat has `1 ≤ dim = number of
    observations`, `band < dim`, exactly `size dim band` numeric words, stored in packed order -/
theorem parse_dim_coords {s0 : St K} {undef ck : Bool} {sdim sband : Attr} {nobs : Nat}
    (h0 : s0.err = none)
    (h : (finishCoords ck (processCov s0 undef sdim sband) nobs).1.err = none) :
    ∃ dim band, undef = false ∧ sdim = .val dim ∧ sband = .val band ∧
      1 ≤ dim ∧ band < dim ∧ dim = nobs ∧
      s0.data.length = (size dim band).toNat ∧ (∀ w ∈ s0.data, w ≠ none) ∧
      (finishCoords ck (processCov s0 undef sdim sband) nobs).2.dim = nobs ∧
      (finishCoords ck (processCov s0 undef sdim sband) nobs).2.band = band ∧
      (finishCoords ck (processCov s0 undef sdim sband) nobs).2.WF ∧
      (finishCoords ck (processCov s0 undef sdim sband) nobs).2.buf.toList = s0.data.map (fun w => w.getD 0) ∧
      (finishCoords ck (processCov s0 undef sdim sband) nobs).1.idim = 0 ∧
      (finishCoords ck (processCov s0 undef sdim sband) nobs).1.data = [] := by
  have h1 : (processCov s0 undef sdim sband).err = none := by
    by_contra hne
    exact finishCoords_err_mono hne h
  obtain ⟨hd, hb, hu, d, b, e1, e2, e3, e4⟩ := processCov_accept h0 h1
  obtain ⟨hn, -⟩ := finishCoords_accept h1 h
  obtain ⟨heq, hfc⟩ := finishCoords_ok h1 h
  obtain ⟨hlen, hnum⟩ := (finishCov_accept h1 hd hb).mp hfc
  obtain ⟨k1, k2, k3, k4, k5, k6, -, -⟩ := finishCov_ok h1 hd hb hfc
  rw [processCov_data] at hlen hnum k4
  rw [heq]
  rw [e3] at hd hb hn hlen k1
  rw [e4] at hb hlen k2
  exact ⟨d, b, hu, e1, e2, hd, hb, hn, hlen, hnum, k1.trans hn, k2, k3, k4, k5, k6⟩

/-- `<obs>` / `<height-differences>` WITH the dim check (the code after the proposed fix) -/
theorem parse_dim_obs_fixed {s0 : St K} {undef isObs ck : Bool} {sdim sband : Attr} {sigma : List (K × Bool)}
    (h0 : s0.err = none)
    (h : (finishObsWith true isObs ck (processCov s0 undef sdim sband) sigma).1.err = none) :
    ∃ dim band, undef = false ∧ sdim = .val dim ∧ sband = .val band ∧
      1 ≤ dim ∧ band < dim ∧ dim = sigma.length ∧
      s0.data.length = (size dim band).toNat ∧ (∀ w ∈ s0.data, w ≠ none) ∧
      (finishObsWith true isObs ck (processCov s0 undef sdim sband) sigma).2.dim = sigma.length ∧
      (finishObsWith true isObs ck (processCov s0 undef sdim sband) sigma).2.band = band ∧
      (finishObsWith true isObs ck (processCov s0 undef sdim sband) sigma).1.idim = 0 ∧
      (finishObsWith true isObs ck (processCov s0 undef sdim sband) sigma).1.data = [] := by
  have h1 : (processCov s0 undef sdim sband).err = none := by
    by_contra hne
    exact finishObsWith_err_mono hne h
  obtain ⟨hd, hb, hu, d, b, e1, e2, e3, e4⟩ := processCov_accept h0 h1
  have hn : (processCov s0 undef sdim sband).idim = sigma.length := by
    rcases finishObs_fixed_accept h1 h with h | h
    · omega
    · exact h
  have hne0 : (processCov s0 undef sdim sband).idim ≠ 0 := by omega
  have hc : ¬ (true = true ∧ (processCov s0 undef sdim sband).idim ≠ 0 ∧
      (processCov s0 undef sdim sband).idim ≠ sigma.length) := by
    intro hh; exact hh.2.2 hn
  obtain ⟨hfc, hst, hmat⟩ := finishObsWith_ok hne0 hc h
  obtain ⟨hlen, hnum⟩ := (finishCov_accept h1 hd hb).mp hfc
  obtain ⟨k1, k2, k3, k4, k5, k6, -, -⟩ := finishCov_ok h1 hd hb hfc
  rw [processCov_data] at hlen hnum
  rw [e3] at hd hb hn hlen k1
  rw [e4] at hb hlen k2
  refine ⟨d, b, hu, e1, e2, hd, hb, hn, hlen, hnum, ?_, ?_, by rw [hst]; exact k5, by rw [hst]; exact k6⟩
  · rcases hmat with e | e
    · rw [e]; exact k1.trans hn
    · rw [e, (scaledCov_dim_band _ _).1]; exact k1.trans hn
  · rcases hmat with e | e
    · rw [e]; exact k2
    · rw [e, (scaledCov_dim_band _ _).2]; exact k2

end clusters

/-! ### finding F9 : the code as it is (no dim check in `finish_obs` / `finish_hdiffs`) -/

/-- 3 observations, `<cov-mat dim="2" band="0"> 25 25 </cov-mat>` is accepted by `finish_obs` -/
theorem parse_dim_obs_current_violated :
    ∃ (s0 : St Rat) (sigma : List (Rat × Bool)) (dim band : Nat), s0.err = none ∧
      (let s1 := processCov s0 false (.val dim) (.val band)
       (finishObsWith false true true s1 sigma).1.err = none ∧ dim ≠ sigma.length) :=
  ⟨{ data := [some 25, some 25] }, [(5, false), (5, false), (5, false)], 2, 0, rfl, by decide +kernel⟩

/-- both witnesses (dim 2 < 3 observations; dim 4 > 3 observations), `finish_obs` and `finish_hdiffs`,
    with and without the positive-definiteness check: accepted by the code as it is -/
theorem parse_dim_obs_current_violated_all : ∀ isObs ck : Bool,
    ((finishObsWith false isObs ck
        (processCov ({ data := [some 25, some 25] } : St Rat) false (.val 2) (.val 0))
        [(5, false), (5, false), (5, false)]).1.err = none ∧
     (finishObsWith false isObs ck
        (processCov ({ data := [some 25, some 25] } : St Rat) false (.val 2) (.val 0))
        [(5, false), (5, false), (5, false)]).2.dim = 2) ∧
    ((finishObsWith false isObs ck
        (processCov ({ data := [some 25, some 25, some 25, some 25] } : St Rat) false (.val 4) (.val 0))
        [(5, false), (5, false), (5, false)]).1.err = none ∧
     (finishObsWith false isObs ck
        (processCov ({ data := [some 25, some 25, some 25, some 25] } : St Rat) false (.val 4) (.val 0))
        [(5, false), (5, false), (5, false)]).2.dim = 4) := by
  decide +kernel

theorem parse_dim_hdiffs_current_violated :
    ∃ (s0 : St Rat) (sigma : List (Rat × Bool)) (dim band : Nat), s0.err = none ∧
      (let s1 := processCov s0 false (.val dim) (.val band)
       (finishObsWith false false true s1 sigma).1.err = none ∧ dim ≠ sigma.length) :=
  ⟨{ data := [some 25, some 25, some 25, some 25] }, [(5, false), (5, false), (5, false)], 4, 0, rfl,
   by decide +kernel⟩

/-! ### non-vacuity -/

/-- the same inputs are rejected with `DimDiffers` once the dim check is there -/
example : ∀ isObs ck : Bool,
    (finishObsWith true isObs ck
        (processCov ({ data := [some 25, some 25] } : St Rat) false (.val 2) (.val 0))
        [(5, false), (5, false), (5, false)]).1.err = some .DimDiffers ∧
    (finishObsWith true isObs ck
        (processCov ({ data := [some 25, some 25, some 25, some 25] } : St Rat) false (.val 4) (.val 0))
        [(5, false), (5, false), (5, false)]).1.err = some .DimDiffers := by
  decide +kernel

/-- an accepted `<coordinates>` cluster: 3 coordinates, `<cov-mat dim="3" band="1"> 4 1 4 1 4` -/
example :
    (finishCoords true (processCov ({ data := [some 4, some 1, some 4, some 1, some 4] } : St Rat)
      false (.val 3) (.val 1)) 3).1.err = none ∧
    (finishCoords true (processCov ({ data := [some 4, some 1, some 4, some 1, some 4] } : St Rat)
      false (.val 3) (.val 1)) 3).2.buf.toList = [4, 1, 4, 1, 4] ∧
    (Packed.size 3 1).toNat = 5 := by
  decide +kernel

/-- an accepted `<obs>` cluster with the dim check: 3 observations, dim 3 band 1 -/
example :
    (finishObsWith true true true (processCov ({ data := [some 4, some 1, some 4, some 1, some 4] } : St Rat)
      false (.val 3) (.val 1)) [(2, false), (2, true), (2, false)]).1.err = none := by
  decide +kernel

/-- the three error kinds of `finish_cov` and a non positive definite matrix -/
example :
    (finishCoords true (processCov ({ data := [some 4, some 1, some 4, some 1, some 4, some 7] } : St Rat)
      false (.val 3) (.val 1)) 3).1.err = some .TooMany ∧
    (finishCoords true (processCov ({ data := [some 4, some 1, none, some 1, some 4] } : St Rat)
      false (.val 3) (.val 1)) 3).1.err = some .BadElement ∧
    (finishCoords true (processCov ({ data := [some 4, some 1, some 4, some 1] } : St Rat)
      false (.val 3) (.val 1)) 3).1.err = some .NotEnough ∧
    (finishCoords true (processCov ({ data := [some 1, some 2, some 1] } : St Rat)
      false (.val 2) (.val 1)) 2).1.err = some .NotPD ∧
    (finishCoords true (processCov ({ data := [some 1, some 2, some 1] } : St Rat)
      false (.val 2) (.val 2)) 2).1.err = some .BadBand ∧
    (finishCoords true (processCov ({ data := [some 4, some 4] } : St Rat)
      false (.val 2) (.val 0)) 3).1.err = some .DimDiffers := by
  decide +kernel

end Gama.Cov.CovParse
