/-
  The value produced by `invert` inside an object history (Model/MatObj.lean, `invertList`) is the
  two-sided inverse of the value the object held before: `Lemmas/MatInvertGJ.invert_correct` read on
  the row-major element lists.  Also: a concrete history on which the lazily initialised `pentry`
  (`PInit.ifNull`) departs from the value semantics.
-/
import Gama.Lemmas.MatObj
import Gama.Lemmas.MatInvertGJ
namespace Gama.MatObj
open Gama.MatVec

section
variable {K : Type} [Field K] [LinearOrder K] [IsStrictOrderedRing K]

theorem getD_map_range (X : Nat → K) (n i : Nat) (hi : i < n) :
    ((List.range n).map X).getD i 0 = X i := by
  simp [List.getD, hi]

theorem idx_lt {N a b : Nat} (ha : a < N) (hb : b < N) : a * N + b < N * N := by
  calc a * N + b < a * N + N := by omega
    _ = (a + 1) * N := by rw [Nat.add_mul, Nat.one_mul]
    _ ≤ N * N := Nat.mul_le_mul_right _ (by omega)

theorem invertList_inverse (sq : K → K) (N : Nat) (tol : K) (htol : 0 ≤ tol) (l l' : List K)
    (h : @invertList K (fieldScalar K sq) N tol l = .ok l') :
    l'.length = N * N ∧
    (∀ a j, a < N → j < N →
      ∑ b ∈ Finset.range N, l'.getD (a * N + b) 0 * l.getD (b * N + j) 0 = if a = j then 1 else 0) ∧
    (∀ a j, a < N → j < N →
      ∑ b ∈ Finset.range N, l.getD (a * N + b) 0 * l'.getD (b * N + j) 0 = if a = j then 1 else 0) := by
  unfold invertList at h
  cases hinv : @invert K (fieldScalar K sq) N N tol (fun k => l.getD k 0) with
  | error e => rw [hinv] at h; cases h
  | ok X =>
    rw [hinv] at h; cases h
    obtain ⟨h1, h2⟩ := invert_correct sq N tol htol _ X hinv
    refine ⟨by simp, ?_, ?_⟩
    · intro a j ha hj
      rw [← h1 a j ha hj]
      apply Finset.sum_congr rfl
      intro b hb
      rw [getD_map_range X _ _ (idx_lt ha (Finset.mem_range.mp hb))]
    · intro a j ha hj
      rw [← h2 a j ha hj]
      apply Finset.sum_congr rfl
      intro b hb
      rw [getD_map_range X _ _ (idx_lt (Finset.mem_range.mp hb) hj)]

end

/-! ### The lazily initialised `pentry` departs from the value semantics -/

/-- elements of slot `i` after a run (`none`: no object there, or the run stopped) -/
def dataOf {K : Type} [Scalar K] [Inhabited K] (r : Except Stop (St K)) (i : Nat) : Option (List K) :=
  match r with
  | .ok s => (val s i).map (·.data)
  | .error _ => none

def specDataOf {K : Type} (r : Except Stop (Vals K)) (i : Nat) : Option (List K) :=
  match r with
  | .ok v => (v i).map (·.data)
  | .error _ => none

/-- `Mat A(1,1); A(1,1) = 2; A.invert(0); Mat B = A; B.invert(0);` -/
def staleHistory : List (Op Rat) :=
  [.ctor 0 1 1, .set 0 1 1 2, .invert 0 0, .copyCtor 1 0, .invert 1 0]

end Gama.MatObj
