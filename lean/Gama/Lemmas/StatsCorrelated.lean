/-
  C09 — the standard deviation of an adjusted observation inside a CORRELATED cluster: linear algebra.

  A cluster's cofactor block is `C = L Lᵀ` (`L` lower triangular, positive diagonal).  The homogenised system has
  the hat matrix `B` (`Bᵀ = B`, `B * B = B`).  The true cofactor of the `n`-th adjusted observation in its own units
  is `t = (L B Lᵀ)_nn`; `LocalNetwork` reports `c = B_nn · C_nn`.

    proj_*                 a symmetric idempotent real matrix: `(Bx)·(By) = x·By`, `0 ≤ x·Bx ≤ x·x`, `0 ≤ B_nn ≤ 1`,
                           Cauchy–Schwarz `(x·By)² ≤ (x·Bx)(y·By)`
    quad_split             row `u = ℓ e_n + r`, `r_n = 0`:  `t − c = 2ℓ (Br)_n + r·Br − B_nn (r·r)`
    coded_bound_vec        `|t − c| ≤ 2 ℓ √(B_nn · r·r) + r·r`
    true_eq_coded_iff      `t = c` for every projector  ⇔  row `n` of `L` is diagonal  ⇔  row `n` of `C` has no entry left of
                           the diagonal
-/
import Mathlib.Data.Matrix.Basis
import Mathlib.Data.Matrix.Mul
import Mathlib.Data.Real.Basic
import Mathlib.Analysis.Real.Sqrt
import Mathlib.Algebra.Order.BigOperators.Ring.Finset
import Mathlib.Tactic.Ring
import Mathlib.Tactic.Linarith
import Mathlib.Tactic.LinearCombination
import Mathlib.Tactic.FinCases
import Mathlib.Tactic.NormNum
import Mathlib.LinearAlgebra.Matrix.Notation

namespace Gama.StatsCorr
open Matrix

/-! ## symmetric projectors -/

section proj
variable {ι : Type*} [Fintype ι] [DecidableEq ι]
set_option linter.unusedSectionVars false

/-- `(Bx)·(By) = x·By` for a symmetric idempotent `B` -/
theorem proj_dot (B : Matrix ι ι ℝ) (hs : Bᵀ = B) (hi : B * B = B) (x y : ι → ℝ) :
    (B *ᵥ x) ⬝ᵥ (B *ᵥ y) = x ⬝ᵥ B *ᵥ y := by
  have e1 : (B *ᵥ x) ᵥ* B = B *ᵥ x := by
    conv_lhs => rw [← mulVec_transpose, hs, mulVec_mulVec, hi]
  have e2 : x ᵥ* B = B *ᵥ x := by
    conv_lhs => rw [← mulVec_transpose, hs]
  rw [dotProduct_mulVec, e1, dotProduct_mulVec x, e2]

theorem proj_symm_dot (B : Matrix ι ι ℝ) (hs : Bᵀ = B) (x y : ι → ℝ) :
    x ⬝ᵥ B *ᵥ y = y ⬝ᵥ B *ᵥ x := by
  have e2 : x ᵥ* B = B *ᵥ x := by
    conv_lhs => rw [← mulVec_transpose, hs]
  rw [dotProduct_mulVec, e2, dotProduct_comm]

theorem dot_self_nonneg (x : ι → ℝ) : 0 ≤ x ⬝ᵥ x :=
  Finset.sum_nonneg fun i _ => mul_self_nonneg (x i)

theorem proj_quad_nonneg (B : Matrix ι ι ℝ) (hs : Bᵀ = B) (hi : B * B = B) (x : ι → ℝ) :
    0 ≤ x ⬝ᵥ B *ᵥ x := by
  rw [← proj_dot B hs hi]; exact dot_self_nonneg _

/-- `‖x‖² = ‖Bx‖² + ‖x − Bx‖²`, so `x·Bx ≤ x·x` -/
theorem proj_quad_le (B : Matrix ι ι ℝ) (hs : Bᵀ = B) (hi : B * B = B) (x : ι → ℝ) :
    x ⬝ᵥ B *ᵥ x ≤ x ⬝ᵥ x := by
  have h := dot_self_nonneg (x - B *ᵥ x)
  have e : (x - B *ᵥ x) ⬝ᵥ (x - B *ᵥ x) = x ⬝ᵥ x - x ⬝ᵥ B *ᵥ x := by
    rw [sub_dotProduct, dotProduct_sub, dotProduct_sub, proj_dot B hs hi,
      dotProduct_comm (B *ᵥ x) x]
    ring
  linarith

theorem diag_eq_quad (B : Matrix ι ι ℝ) (n : ι) :
    B n n = (Pi.single n (1:ℝ)) ⬝ᵥ B *ᵥ (Pi.single n 1) := by
  rw [single_one_dotProduct, mulVec_single_one]; rfl

theorem proj_diag_nonneg (B : Matrix ι ι ℝ) (hs : Bᵀ = B) (hi : B * B = B) (n : ι) : 0 ≤ B n n := by
  rw [diag_eq_quad B n]; exact proj_quad_nonneg B hs hi _

theorem proj_diag_le_one (B : Matrix ι ι ℝ) (hs : Bᵀ = B) (hi : B * B = B) (n : ι) : B n n ≤ 1 := by
  rw [diag_eq_quad B n]
  refine (proj_quad_le B hs hi _).trans_eq ?_
  rw [single_one_dotProduct]; simp

/-- Cauchy–Schwarz in the semi-inner product of the projector -/
theorem proj_cauchy (B : Matrix ι ι ℝ) (hs : Bᵀ = B) (hi : B * B = B) (x y : ι → ℝ) :
    (x ⬝ᵥ B *ᵥ y) ^ 2 ≤ (x ⬝ᵥ B *ᵥ x) * (y ⬝ᵥ B *ᵥ y) := by
  rw [← proj_dot B hs hi x y, ← proj_dot B hs hi x x, ← proj_dot B hs hi y y]
  have := Finset.sum_mul_sq_le_sq_mul_sq Finset.univ (B *ᵥ x) (B *ᵥ y)
  simpa [dotProduct, pow_two] using this

/-- row `u = ℓ e_n + r`, `r_n = 0`: true minus coded cofactor -/
theorem quad_split (B : Matrix ι ι ℝ) (hs : Bᵀ = B) (n : ι) (ℓ : ℝ) (u r : ι → ℝ)
    (hu : u = ℓ • Pi.single n (1:ℝ) + r) (hr : r n = 0) :
    u ⬝ᵥ B *ᵥ u - B n n * (u ⬝ᵥ u)
      = 2 * ℓ * (B *ᵥ r) n + (r ⬝ᵥ B *ᵥ r - B n n * (r ⬝ᵥ r)) ∧
    u ⬝ᵥ u = ℓ ^ 2 + r ⬝ᵥ r := by
  have e1 : r ⬝ᵥ B *ᵥ (Pi.single n (1:ℝ)) = (B *ᵥ r) n := by
    rw [proj_symm_dot B hs, single_one_dotProduct]
  have e2 : (Pi.single n (1:ℝ)) ⬝ᵥ B *ᵥ r = (B *ᵥ r) n := single_one_dotProduct _ _
  have e3 : (Pi.single n (1:ℝ)) ⬝ᵥ B *ᵥ (Pi.single n 1) = B n n := (diag_eq_quad B n).symm
  have e4 : (Pi.single n (1:ℝ)) ⬝ᵥ r = 0 := by rw [single_one_dotProduct, hr]
  have e5 : r ⬝ᵥ (Pi.single n (1:ℝ)) = 0 := by rw [dotProduct_single_one, hr]
  have e6 : (Pi.single n (1:ℝ)) ⬝ᵥ (Pi.single n (1:ℝ)) = 1 := by rw [single_one_dotProduct]; simp
  have huu : u ⬝ᵥ u = ℓ ^ 2 + r ⬝ᵥ r := by
    rw [hu]
    simp only [add_dotProduct, dotProduct_add, smul_dotProduct, dotProduct_smul, smul_eq_mul, e4, e5, e6]
    ring
  refine ⟨?_, huu⟩
  rw [huu, hu]
  simp only [mulVec_add, mulVec_smul, add_dotProduct, dotProduct_add, smul_dotProduct, dotProduct_smul,
    smul_eq_mul, e1, e2, e3]
  ring

/-- THE BOUND, vector form -/
theorem coded_bound_vec (B : Matrix ι ι ℝ) (hs : Bᵀ = B) (hi : B * B = B) (n : ι) (ℓ : ℝ) (hℓ : 0 ≤ ℓ)
    (u r : ι → ℝ) (hu : u = ℓ • Pi.single n (1:ℝ) + r) (hr : r n = 0) :
    |u ⬝ᵥ B *ᵥ u - B n n * (u ⬝ᵥ u)| ≤ 2 * ℓ * Real.sqrt (B n n * (r ⬝ᵥ r)) + r ⬝ᵥ r := by
  obtain ⟨e, -⟩ := quad_split B hs n ℓ u r hu hr
  rw [e]
  have hb0 := proj_diag_nonneg B hs hi n
  have hb1 := proj_diag_le_one B hs hi n
  have hs0 := proj_quad_nonneg B hs hi r
  have hs1 := proj_quad_le B hs hi r
  have hR : 0 ≤ r ⬝ᵥ r := dot_self_nonneg r
  have hg : |(B *ᵥ r) n| ≤ Real.sqrt (B n n * (r ⬝ᵥ r)) := by
    apply Real.abs_le_sqrt
    have c := proj_cauchy B hs hi (Pi.single n (1:ℝ)) r
    rw [single_one_dotProduct, ← diag_eq_quad] at c
    exact c.trans (mul_le_mul_of_nonneg_left hs1 hb0)
  have h2 : |r ⬝ᵥ B *ᵥ r - B n n * (r ⬝ᵥ r)| ≤ r ⬝ᵥ r := by
    have : 0 ≤ B n n * (r ⬝ᵥ r) := mul_nonneg hb0 hR
    have : B n n * (r ⬝ᵥ r) ≤ r ⬝ᵥ r := by nlinarith
    rw [abs_le]; constructor <;> linarith
  calc |2 * ℓ * (B *ᵥ r) n + (r ⬝ᵥ B *ᵥ r - B n n * (r ⬝ᵥ r))|
      ≤ |2 * ℓ * (B *ᵥ r) n| + |r ⬝ᵥ B *ᵥ r - B n n * (r ⬝ᵥ r)| := abs_add_le _ _
    _ = 2 * ℓ * |(B *ᵥ r) n| + |r ⬝ᵥ B *ᵥ r - B n n * (r ⬝ᵥ r)| := by
        rw [abs_mul, abs_of_nonneg (by positivity : (0:ℝ) ≤ 2 * ℓ)]
    _ ≤ _ := add_le_add (mul_le_mul_of_nonneg_left hg (by positivity)) h2

/-- the rank-one projector `e_j e_jᵀ` (the hat matrix of the one-column design `e_j`) -/
theorem single_symm (j : ι) : (Matrix.single j j (1:ℝ))ᵀ = Matrix.single j j 1 := transpose_single j j 1

theorem single_idem (j : ι) : Matrix.single j j (1:ℝ) * Matrix.single j j 1 = Matrix.single j j 1 := by
  rw [single_mul_single_same, mul_one]

end proj

/-! ## matrix entries as dot products of rows -/

section rows
variable {N : ℕ}

theorem sandwich_diag (L B : Matrix (Fin N) (Fin N) ℝ) (n : Fin N) :
    (L * B * Lᵀ) n n = (L n) ⬝ᵥ B *ᵥ (L n) := by
  rw [Matrix.mul_apply, dotProduct_mulVec]
  rfl

theorem gram_entry (L : Matrix (Fin N) (Fin N) ℝ) (n j : Fin N) :
    (L * Lᵀ) n j = (L n) ⬝ᵥ (L j) := rfl

theorem gram_diag (L : Matrix (Fin N) (Fin N) ℝ) (n : Fin N) :
    (L * Lᵀ) n n = ∑ j, L n j ^ 2 := by
  rw [gram_entry]; simp only [dotProduct, pow_two]

/-- strictly-lower part of row `n` -/
def lowRow (L : Matrix (Fin N) (Fin N) ℝ) (n : Fin N) : Fin N → ℝ := fun j => if j < n then L n j else 0

theorem lowRow_self (L : Matrix (Fin N) (Fin N) ℝ) (n : Fin N) : lowRow L n n = 0 := by simp [lowRow]

theorem row_split (L : Matrix (Fin N) (Fin N) ℝ) (hL : ∀ i j, i < j → L i j = 0) (n : Fin N) :
    L n = L n n • Pi.single n (1:ℝ) + lowRow L n := by
  funext j
  simp only [Pi.add_apply, Pi.smul_apply, smul_eq_mul, lowRow, Pi.single_apply]
  rcases lt_trichotomy j n with h | h | h
  · simp [h, h.ne]
  · subst h; simp
  · simp [hL n j h, h.ne', not_lt.mpr h.le]

theorem lowRow_dot (L : Matrix (Fin N) (Fin N) ℝ) (n : Fin N) :
    lowRow L n ⬝ᵥ lowRow L n = ∑ j with j < n, L n j ^ 2 := by
  rw [Finset.sum_filter]
  simp only [dotProduct, lowRow]
  refine Finset.sum_congr rfl fun j _ => ?_
  by_cases h : j < n <;> simp [h, pow_two]

/-- THE BOUND, matrix form: `|（L B Lᵀ)_nn − B_nn (L Lᵀ)_nn| ≤ 2 ℓ √(B_nn R) + R` -/
theorem coded_bound (L B : Matrix (Fin N) (Fin N) ℝ) (hL : ∀ i j, i < j → L i j = 0) (hs : Bᵀ = B)
    (hi : B * B = B) (n : Fin N) (hℓ : 0 ≤ L n n) :
    |(L * B * Lᵀ) n n - B n n * (L * Lᵀ) n n|
      ≤ 2 * L n n * Real.sqrt (B n n * ∑ j with j < n, L n j ^ 2) + ∑ j with j < n, L n j ^ 2 := by
  rw [sandwich_diag, gram_entry, ← lowRow_dot]
  exact coded_bound_vec B hs hi n (L n n) hℓ (L n) (lowRow L n) (row_split L hL n) (lowRow_self L n)

theorem true_cof_bounds (L B : Matrix (Fin N) (Fin N) ℝ) (hs : Bᵀ = B) (hi : B * B = B) (n : Fin N) :
    0 ≤ (L * B * Lᵀ) n n ∧ (L * B * Lᵀ) n n ≤ (L * Lᵀ) n n := by
  rw [sandwich_diag, gram_entry]
  exact ⟨proj_quad_nonneg B hs hi _, proj_quad_le B hs hi _⟩

theorem coded_cof_bounds (L B : Matrix (Fin N) (Fin N) ℝ) (hs : Bᵀ = B) (hi : B * B = B) (n : Fin N) :
    0 ≤ B n n * (L * Lᵀ) n n ∧ B n n * (L * Lᵀ) n n ≤ (L * Lᵀ) n n := by
  have h0 : 0 ≤ (L * Lᵀ) n n := by rw [gram_entry]; exact dot_self_nonneg _
  have hb0 := proj_diag_nonneg B hs hi n
  have hb1 := proj_diag_le_one B hs hi n
  exact ⟨mul_nonneg hb0 h0, by nlinarith⟩

/-! ## when is the coded value the true one -/

/-- row `n` diagonal ⇒ coded = true, for every `B` -/
theorem coded_eq_of_row_diag (L B : Matrix (Fin N) (Fin N) ℝ) (hL : ∀ i j, i < j → L i j = 0) (n : Fin N)
    (hrow : ∀ j, j < n → L n j = 0) : (L * B * Lᵀ) n n = B n n * (L * Lᵀ) n n := by
  have hr : lowRow L n = 0 := by
    funext j; simp only [lowRow, Pi.zero_apply]
    by_cases h : j < n
    · simp [h, hrow j h]
    · simp [h]
  have hu : L n = L n n • Pi.single n (1:ℝ) := by
    have := row_split L hL n; rwa [hr, add_zero] at this
  have e3 : (Pi.single n (1:ℝ)) ⬝ᵥ B *ᵥ (Pi.single n 1) = B n n := (diag_eq_quad B n).symm
  have e6 : (Pi.single n (1:ℝ)) ⬝ᵥ (Pi.single n (1:ℝ)) = 1 := by rw [single_one_dotProduct]; simp
  rw [sandwich_diag, gram_entry, hu]
  simp only [mulVec_smul, smul_dotProduct, dotProduct_smul, smul_eq_mul, e3, e6]
  ring

/-- testing with `B = e_j e_jᵀ`, `j ≠ n`: true = `(L n j)²`, coded = 0 -/
theorem single_test (L : Matrix (Fin N) (Fin N) ℝ) (n j : Fin N) (hj : j ≠ n) :
    (L * Matrix.single j j (1:ℝ) * Lᵀ) n n = L n j ^ 2 ∧ (Matrix.single j j (1:ℝ)) n n = 0 := by
  constructor
  · rw [Matrix.mul_apply, Finset.sum_eq_single j]
    · rw [mul_single_apply_same, transpose_apply]; ring
    · intro k _ hk
      have := mul_single_apply_of_ne (c := (1:ℝ)) j j n k hk L
      rw [this, zero_mul]
    · intro hh; exact absurd (Finset.mem_univ j) hh
  · rw [single_apply_of_ne]; rintro ⟨h, -⟩; exact hj h

theorem row_diag_of_coded_eq (L : Matrix (Fin N) (Fin N) ℝ) (n : Fin N)
    (h : ∀ B : Matrix (Fin N) (Fin N) ℝ, Bᵀ = B → B * B = B → (L * B * Lᵀ) n n = B n n * (L * Lᵀ) n n) :
    ∀ j, j < n → L n j = 0 := by
  intro j hj
  have e := h _ (single_symm j) (single_idem j)
  obtain ⟨e1, e2⟩ := single_test L n j hj.ne
  rw [e1, e2, zero_mul] at e
  exact pow_eq_zero_iff (two_ne_zero) |>.mp e

/-- row `n` of the Cholesky factor is diagonal ⇔ row `n` of `C = L Lᵀ` vanishes left of the diagonal -/
theorem row_diag_iff_gram (L : Matrix (Fin N) (Fin N) ℝ) (hL : ∀ i j, i < j → L i j = 0)
    (hpos : ∀ i, 0 < L i i) (n : Fin N) :
    (∀ j, j < n → L n j = 0) ↔ (∀ j, j < n → (L * Lᵀ) n j = 0) := by
  constructor
  · intro h j hj
    rw [gram_entry]
    refine Finset.sum_eq_zero fun k _ => ?_
    by_cases hk : k < n
    · rw [h k hk, zero_mul]
    · rw [hL j k (lt_of_lt_of_le hj (not_lt.mp hk)), mul_zero]
  · intro h
    have key : ∀ m : ℕ, ∀ j : Fin N, j.val = m → j < n → L n j = 0 := by
      intro m
      induction m using Nat.strong_induction_on with
      | _ m ih =>
        intro j hjm hj
        have e := h j hj
        rw [gram_entry, dotProduct, Finset.sum_eq_single j] at e
        · exact (mul_eq_zero.mp e).resolve_right (hpos j).ne'
        · intro k _ hk
          rcases lt_or_gt_of_ne hk with hlt | hgt
          · rw [ih k.val (hjm ▸ hlt) k rfl (hlt.trans hj), zero_mul]
          · rw [hL j k hgt, mul_zero]
        · intro hh; exact absurd (Finset.mem_univ j) hh
    exact fun j hj => key j.val j rfl hj

end rows

/-! ## the witness of C09-F1 -/

/-- the witness of `C09_sigmaL_correlated_violated`: Cholesky factor of `C = [[1,1],[1,2]]` -/
theorem wL_lower : ∀ i j : Fin 2, i < j → (!![1, 0; 1, 1] : Matrix (Fin 2) (Fin 2) ℝ) i j = 0 := by
  intro i j; fin_cases i <;> fin_cases j <;> simp

theorem wL_pos : ∀ i : Fin 2, 0 < (!![1, 0; 1, 1] : Matrix (Fin 2) (Fin 2) ℝ) i i := by
  intro i; fin_cases i <;> simp

theorem wB_symm : (!![1/2, 1/2; 1/2, 1/2] : Matrix (Fin 2) (Fin 2) ℝ)ᵀ = !![1/2, 1/2; 1/2, 1/2] := by
  ext i j; fin_cases i <;> fin_cases j <;> simp

theorem wB_idem : (!![1/2, 1/2; 1/2, 1/2] : Matrix (Fin 2) (Fin 2) ℝ) * !![1/2, 1/2; 1/2, 1/2]
    = !![1/2, 1/2; 1/2, 1/2] := by
  ext i j; fin_cases i <;> fin_cases j <;> simp [Matrix.mul_apply, Fin.sum_univ_two] <;> norm_num

end Gama.StatsCorr
