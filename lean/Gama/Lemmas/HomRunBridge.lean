/-
  Network-level glue for property C10 ("correlated observations are weighted by their full covariance matrix"):

    * `Net.rowCluster`, `Net.clusterAt`, `Net.origPos` — the vocabulary in which `Net.Sigma` is the FULL block
      covariance: `sigmaF_same` (rows of one active cluster: the cluster's `covariance_matrix` entry at the ORIGINAL
      positions of the two active observations, band entries included), `sigmaF_other` (0 across clusters),
      `Sigma_symm`, `inv_symm_of_symm` (so `Pc = Σ⁻¹` is symmetric);
    * `netSolve_prepared` — a `LocalNetwork` that answers has accepted `prepareProjectEquations()`;
    * `hom_run_reaches_homogenize` — C10's executable `Cov.Hom.run` accepted ⇒ `Env.homogenize` accepted, same numbers
      (from `hom_run_eq_homogenize`);
    * repeated column indices: `denseA_entry_sum` (`project_equations()`'s `+=`: the dense entry is the SUM of the
      stored coefficients, no `Nodup` hypothesis), `diagBlock_row_dense` (an uncorrelated block keeps every entry),
      `gather_col_dense` / `corrBlock_row_dense` (a CORRELATED block: since /repo 6d0f7107 the gather loop is
      `T(i, perm[c]) += *b++`, so `T` holds the same SUM — `Cov.gather_spec`, no `Nodup` hypothesis);
      the witness `Ex.repNp` / `Ex.repMat` / `Ex.repCov` (a correlated block whose first row stores column 1 twice),
      evaluated over `Rat` (every pivot is 1, so the marker `sqrt = id` of `Scalar Rat` is exact on it):
      `rep_same_input`, `rep_dense_path`, `rep_sparse_path`, `rep_agree`; `rep_ls_model_sums` (the LS-side model
      `Env.homogenize` / `Problem.dense` reads a repeated column as the SUM too, round 11);
    * non-vacuity of the sparse-path bridge: `Ex.npRMat`, `Ex.npRCov` hold the correlated network `Ex.npR`
      (`npR_holds : Env.HoldsProblem (toProblem npR) npRMat npRCov []`) and `Hom.run` accepts them (`npR_homrun_accepted`).
-/
import Gama.Lemmas.HomEnvBridge
import Gama.Lemmas.Ls.NetFacade
import Gama.Lemmas.CovHomAsm
import Gama.Lemmas.Ls.NetFacadeReal

namespace Gama.Ls
open Finset Gama.LS Gama.Ls.AdjM Dn Gama.Ls.Env Matrix

set_option linter.unusedSectionVars false
set_option linter.unusedVariables false

section
variable {K : Type} [Field K] [LinearOrder K] [IsStrictOrderedRing K] [SqrtFn K]
attribute [local instance 2000] scalarOfField

namespace Net

/-- index (0-based, among the clusters with an active observation) of the cluster that holds row `s` -/
def rowCluster (np : NetProblem K) (s : Nat) : Nat := (AdjM.locate (dimsN np) s).1

/-- number of rows before that cluster (`ind_0` of `prepareProjectEquations()`) -/
def rowOff (np : NetProblem K) (s : Nat) : Nat := (AdjM.locate (dimsN np) s).2

/-- the cluster that holds row `s` -/
def clusterAt (np : NetProblem K) (s : Nat) : Cluster K :=
  (activeClusters np).getD (rowCluster np s) ⟨⟨0, 0, #[]⟩, []⟩

/-- ORIGINAL (1-based) position, inside its cluster's `covariance_matrix`, of the active observation of row `s`
    (passive observations keep their position) -/
def origPos (np : NetProblem K) (s : Nat) : Nat :=
  (Cov.activeIdx 1 (clusterAt np s).obs).toArray.getD (s - rowOff np s) 0

/-- two rows belong to the same cluster iff the second lies in the row range of the first one's cluster -/
theorem sameCluster_iff (np : NetProblem K) (hdim : (dimsN np).sum = np.m) (s t : Nat) (hs : s < np.m)
    (ht : t < np.m) :
    (rowOff np s ≤ t ∧ t < rowOff np s + (dimsN np).getD (rowCluster np s) 0) ↔
      rowCluster np s = rowCluster np t := by
  have hs' : s < (dimsN np).sum := by rw [hdim]; exact hs
  have ht' : t < (dimsN np).sum := by rw [hdim]; exact ht
  constructor
  · rintro ⟨h1, h2⟩
    have := (locate_spec (dimsN np) s hs').2.2.2.2 t h1 h2
    unfold rowCluster
    rw [this]
  · intro h
    have os := locate_off (dimsN np) s hs'
    have ot := locate_off (dimsN np) t ht'
    obtain ⟨_, b1, b2, _, _⟩ := locate_spec (dimsN np) t ht'
    unfold rowCluster at h
    unfold rowOff rowCluster
    rw [os, h, ← ot]
    exact ⟨b1, b2⟩

/-- **`Σ` inside a cluster**: the entry of the cluster's FULL `covariance_matrix` at the original positions of the two
    active observations (`CovMat.get`: the band entries, 0 outside the band) -/
theorem sigmaF_same (np : NetProblem K) (hdim : (dimsN np).sum = np.m) (s t : Nat) (hs : s < np.m) (ht : t < np.m)
    (h : rowCluster np s = rowCluster np t) :
    sigmaF np s t = (clusterAt np s).cov.get (origPos np s) (origPos np t) := by
  have hin := (sameCluster_iff np hdim s t hs ht).2 h
  have hl := (locate_spec (dimsN np) s (by rw [hdim]; exact hs)).2.2.2.2 t hin.1 hin.2
  unfold rowOff rowCluster at hin
  unfold sigmaF
  rw [if_pos hin]
  unfold origPos clusterAt rowOff rowCluster
  rw [hl]

/-- **`Σ` across clusters** is 0 -/
theorem sigmaF_other (np : NetProblem K) (hdim : (dimsN np).sum = np.m) (s t : Nat) (hs : s < np.m) (ht : t < np.m)
    (h : rowCluster np s ≠ rowCluster np t) : sigmaF np s t = 0 := by
  have hn : ¬ ((AdjM.locate (dimsN np) s).2 ≤ t ∧
      t < (AdjM.locate (dimsN np) s).2 + (dimsN np).getD (AdjM.locate (dimsN np) s).1 0) :=
    fun hin => h ((sameCluster_iff np hdim s t hs ht).1 hin)
  unfold sigmaF
  rw [if_neg hn]

/-- `Σ` is symmetric (`CovMat.get` is) -/
theorem Sigma_symm (np : NetProblem K) (hdim : (dimsN np).sum = np.m) : (Sigma np)ᵀ = Sigma np := by
  ext s t
  show sigmaF np t.val s.val = sigmaF np s.val t.val
  have hs : s.val < np.m := s.isLt
  have ht : t.val < np.m := t.isLt
  by_cases h : rowCluster np s.val = rowCluster np t.val
  · rw [sigmaF_same np hdim _ _ hs ht h, sigmaF_same np hdim _ _ ht hs h.symm, Cov.CovMat.get_symm]
    unfold clusterAt
    rw [h]
  · rw [sigmaF_other np hdim _ _ hs ht h, sigmaF_other np hdim _ _ ht hs (fun e => h e.symm)]

/-- a `LocalNetwork` that answers has accepted `prepareProjectEquations()` (every algorithm runs it first) -/
theorem netSolve_prepared (alg : Alg) (np : NetProblem K) (a : NetAnswer K) (h : netSolve alg np = .ok a) :
    ∃ hh, prepare np = .ok hh := by
  cases alg with
  | env => obtain ⟨hh, _, hp, _⟩ := netSparse_shape np a h; exact ⟨hh, hp⟩
  | chol => obtain ⟨hh, _, hp, _⟩ := netFull_shape .chol np a h; exact ⟨hh, hp⟩
  | gso => obtain ⟨hh, _, hp, _⟩ := netFull_shape .gso np a h; exact ⟨hh, hp⟩
  | svd => obtain ⟨hh, _, hp, _⟩ := netFull_shape .svd np a h; exact ⟨hh, hp⟩

end Net

/-- a right inverse of a symmetric matrix is symmetric -/
theorem inv_symm_of_symm {n : Nat} (S P : Matrix (Fin n) (Fin n) K) (hS : Sᵀ = S) (h : S * P = 1) : Pᵀ = P := by
  have h3 : Pᵀ * S = 1 := by
    have := congrArg Matrix.transpose h
    rwa [Matrix.transpose_mul, hS, Matrix.transpose_one] at this
  calc Pᵀ = Pᵀ * (S * P) := by rw [h, Matrix.mul_one]
    _ = (Pᵀ * S) * P := (Matrix.mul_assoc _ _ _).symm
    _ = P := by rw [h3, Matrix.one_mul]

/-! ### repeated column indices on the dense path: `A(row, *i++) += *a++` -/

theorem denseRow_cons (e : Nat × K) (l : List (Nat × K)) (c : Nat) :
    Cov.denseRow (e :: l) c = (if e.1 = c then e.2 else 0) + Cov.denseRow l c := by
  have shift : ∀ (l : List (Nat × K)) (x : K),
      l.foldl (fun acc e => acc + e.2) x = x + l.foldl (fun acc e => acc + e.2) 0 := by
    intro l
    induction l with
    | nil => intro x; simp
    | cons a l ih => intro x; rw [List.foldl_cons, List.foldl_cons, ih (x + a.2), ih (0 + a.2)]; ring
  by_cases hc : e.1 = c
  · unfold Cov.denseRow
    have : (e.1 == c) = true := by simpa using hc
    rw [List.filter_cons, this, if_pos hc]
    simp only [if_true, List.foldl_cons]
    rw [shift]; ring
  · rw [Cov.denseRow_cons_ne e l c hc, if_neg hc, zero_add]

/-- the accumulation loop of `project_equations()` on one sparse row: entry `j` of the dense row is the SUM of the
    coefficients stored with column `j+1` — no hypothesis on repeated columns (only `1 ≤ column`: the indices are
    1-based, index 0 would alias column 1 in the model's `cv.1 - 1`) -/
theorem rowSum_entry (n : Nat) (l : List (Nat × K)) (h1 : ∀ cv ∈ l, 1 ≤ cv.1) (j : Nat) (hj : j < n) :
    (l.foldl (fun (acc : Array K) (cv : Nat × K) => acc.setIfInBounds (cv.1 - 1) (acc.getD (cv.1 - 1) 0 + cv.2))
      (Array.replicate n 0)).getD j 0 = Cov.denseRow l (j + 1) := by
  have key : ∀ (l : List (Nat × K)), (∀ cv ∈ l, 1 ≤ cv.1) → ∀ acc : Array K, acc.size = n →
      (l.foldl (fun (acc : Array K) (cv : Nat × K) => acc.setIfInBounds (cv.1 - 1) (acc.getD (cv.1 - 1) 0 + cv.2))
        acc).getD j 0 = acc.getD j 0 + Cov.denseRow l (j + 1) := by
    intro l
    induction l with
    | nil => intro _ acc _; simp [Cov.denseRow]
    | cons cv l ih =>
      intro h1 acc hacc
      rw [List.foldl_cons, ih (fun c hc => h1 c (List.mem_cons_of_mem _ hc)) _ (by simp [hacc]), denseRow_cons,
        getD_setIfInBounds']
      have hcv := h1 cv List.mem_cons_self
      by_cases hc : cv.1 = j + 1
      · have e : cv.1 - 1 = j := by omega
        rw [if_pos ⟨e, by rw [hacc]; exact hj⟩, if_pos hc, e]; ring
      · rw [if_neg (fun h => hc (by omega)), if_neg hc]; ring
  rw [key l h1 _ (by simp)]
  simp [Array.getD, hj]

/-- **the dense design matrix of `LocalNetwork`, entry by entry, with repeated columns**: `A(i,j)` is the sum of ALL
    coefficients row `i` stores with column `j+1` -/
theorem denseA_entry_sum (np : Net.NetProblem K) (i j : Nat) (hi : i < np.m) (hj : j < np.n)
    (h1 : ∀ cv ∈ (np.rows.getD i #[]).toList, 1 ≤ cv.1) :
    Dn.mget (Net.denseA np) i j = Cov.denseRow (np.rows.getD i #[]).toList (j + 1) := by
  unfold Net.denseA
  rw [mget_mmk, if_pos ⟨hi, hj⟩]
  unfold Net.rowSum
  rw [← Array.foldl_toList]
  exact rowSum_entry np.n _ h1 j hj

/-! ### repeated column indices in an UNCORRELATED block of `Homogenization::run` -/

/-- one row of `Hom.diagBlock` (`add_element(*b++/d, *n++)` for every stored element): every entry is kept, so the
    dense reading of the output row is (the sum of the repeated entries)`/d` -/
theorem diagBlock_row_dense (mat : SMat K) (nonz : Array K) (begin_ off dim i : Nat) (h1 : 1 ≤ i) (h2 : i ≤ dim)
    (c : Nat) :
    Cov.denseRow ((@Cov.Hom.diagBlock K (Cov.fieldScalar K SqrtFn.sq) mat nonz begin_ off dim).getD (i - 1) []) c
      = Cov.denseRow (@SMat.rowEntries K ⟨0⟩ mat (off + i)) c / nonz.getD (begin_ + (i - 1)) 0 := by
  rw [@Cov.diagBlock_getD K (Cov.fieldScalar K SqrtFn.sq) mat nonz begin_ off dim i h1 h2]
  exact @Cov.denseRow_map_div K (Cov.fieldScalar K SqrtFn.sq) (fun a b d => add_div a b d) (fun d => zero_div d) _ _ c

/-! ### repeated column indices in a CORRELATED block of `Homogenization::run`: `T(i, perm[c]) += *b++` -/

/-- the gather loop of a correlated block (`T.set_zero(); … T(i, perm[c]) += *b++`): column `j` of `T` is the dense
    column `c = occ[j-1]` of the block's rows, i.e. entry `r` is the SUM of all coefficients row `off+r+1` stores with
    column `c` — NO hypothesis on repeated columns (`Cov.gather_spec`) -/
theorem gather_col_dense (mat : SMat K) (off dim cols : Nat) (perm : Array Nat)
    (hperm0 : ∀ c, perm.getD c 0 = 0) (hpsize : perm.size = cols + 1)
    (hcols : ∀ i, 1 ≤ i → i ≤ dim → ∀ e ∈ @SMat.rowEntries K ⟨0⟩ mat (off + i), 1 ≤ e.1 ∧ e.1 ≤ cols)
    (j : Nat) (hj1 : 1 ≤ j) (hj2 : j ≤ (Cov.blockOcc mat off dim).length) :
    (@Cov.gatherOf K (Cov.fieldScalar K SqrtFn.sq) mat off dim
        (Cov.blockOcc mat off dim).length perm).T.getD (j - 1) #[] =
      @Cov.colOf K _ _ ⟨0⟩ mat off dim ((Cov.blockOcc mat off dim).getD (j - 1) 0) ∧
    ∀ r, r < dim →
      ((@Cov.gatherOf K (Cov.fieldScalar K SqrtFn.sq) mat off dim
        (Cov.blockOcc mat off dim).length perm).T.getD (j - 1) #[]).getD r 0 =
      Cov.denseRow (@SMat.rowEntries K ⟨0⟩ mat (off + (r + 1)))
        ((Cov.blockOcc mat off dim).getD (j - 1) 0) := by
  have h := (Cov.gather_spec_field (SqrtFn.sq : K → K) mat off dim _ cols perm hperm0 hpsize hcols rfl).2.2.2.2.2
    j hj1 hj2
  refine ⟨h, fun r hr => ?_⟩
  rw [h]
  exact @Cov.colOf_getD K (Cov.fieldScalar K SqrtFn.sq) mat off dim _ r hr

/-- the rows `Hom.corrBlock` writes, read densely: entry `c` of output row `i` is entry `i` of the forward-substituted
    dense column `c` of the block (`Cov.colOf`: the SUMS of the repeated entries), 0 for a column the block does not
    touch — NO hypothesis on repeated columns (`Cov.corrBlock_rows`) -/
theorem corrBlock_row_dense (mat : SMat K) (nonz : Array K) (tab : Array Nat) (off dim cols : Nat) (perm : Array Nat)
    (hperm0 : ∀ c, perm.getD c 0 = 0) (hpsize : perm.size = cols + 1)
    (hcols : ∀ i, 1 ≤ i → i ≤ dim → ∀ e ∈ @SMat.rowEntries K ⟨0⟩ mat (off + i), 1 ≤ e.1 ∧ e.1 ≤ cols)
    (i : Nat) (h1 : 1 ≤ i) (h2 : i ≤ dim) (c : Nat) :
    Cov.denseRow ((@Cov.Hom.corrBlock K (Cov.fieldScalar K SqrtFn.sq) mat nonz tab off dim
        (Cov.blockOcc mat off dim).length perm).1.getD (i - 1) []) c =
      if c ∈ Cov.blockOcc mat off dim then
        (@Cov.sweepTab K (Cov.fieldScalar K SqrtFn.sq) nonz tab off dim (@Cov.colOf K _ _ ⟨0⟩ mat off dim c)).getD (i - 1) 0
      else 0 :=
  ((Cov.corrBlock_rows (SqrtFn.sq : K → K) mat nonz tab off dim _ cols perm hperm0 hpsize hcols rfl).2 i h1 h2).2.1 c

/-! ### `Homogenization::run` accepted ⇒ the homogenisation of `envSolve` accepted, same numbers -/

theorem hom_run_reaches_homogenize (hsq : IsSqrt (SqrtFn.sq : K → K)) (p : Problem K)
    (mat : SMat K) (cov : Cov.BlockDiag K) (tail : List K) (H : Env.HoldsProblem p mat cov tail)
    (out : Cov.Hom.Out K)
    (hrun : @Cov.Hom.run K (Cov.fieldScalar K SqrtFn.sq) (Env.bdTol : K) mat cov p.rhs = .ok out) :
    ∃ he, Env.homogenize p = .ok he ∧ out.pr = he.bt ∧ out.pr.size = p.m ∧ out.sm.rows = p.m ∧ out.sm.cols = p.n ∧
      ∀ s c, s < p.m → c < p.n →
        Cov.denseRow (@SMat.rowEntries K ⟨0⟩ out.sm (s + 1)) (c + 1) = Env.mget he.At s c := by
  obtain ⟨h1, _, _, h4⟩ := hom_run_eq_homogenize hsq p mat cov tail H
  cases hh : Env.homogenize p with
  | error e =>
    obtain ⟨e', he'⟩ := h1.2 ⟨e, hh⟩
    rw [hrun] at he'
    cases he'
  | ok he => exact ⟨he, rfl, h4 out he hrun hh⟩

end

/-! ### repeated column index inside a CORRELATED block: the witness

  One cluster of two observations with covariance `[[1,1],[1,2]]` (band 1; positive definite, every Cholesky pivot is 1, so
  `sqrt = id` of `Scalar Rat` is exact on it), `m_0_apr_ = 1`; two unknowns; the first row stores column 1 TWICE
  (coefficients `−1` and `+1`: an observation from a point to itself), the second row is `(2, 1)`; `rhs = (1, 2)`.
  The Cholesky factor is `L = [[1,0],[1,1]]`, `L⁻¹ = [[1,0],[−1,1]]`.
    dense path  (`project_equations()` `+=`, then `prepareProjectEquations()`): `A = [[0,0],[0,1]]`, `L⁻¹A = [[0,0],[0,1]]`;
    sparse path (`Homogenization::run`, gather `T(i,perm[c]) += a`):           `A = [[0,0],[0,1]]`, `L⁻¹A = [[0,0],[0,1]]`
      (row 1 of the output is EMPTY: the exact zero `T(1,1)` is dropped; row 2 is `(2, 1)`).
  Both homogenise `rhs` to `(1, 1)`.  Before /repo 6d0f7107 (gather `T(i,perm[c]) = a`, the last value won) the sparse
  path homogenised `A = [[1,0],[0,1]]` to `[[1,0],[−1,1]]`; so did the LS-side MODEL `Env.homogenize` until `Problem.dense`
  (`AdjDense.rowDense`) became a sum (round 11) — `rep_ls_model_sums`. -/
namespace Ex

def repNp : Net.NetProblem Rat :=
  { m := 2, n := 2, rows := #[#[(1, -1), (1, 1)], #[(2, 1)]], rhs := #[1, 2]
    clusters := [⟨⟨2, 1, #[1, 1, 2]⟩, [true, true]⟩], m0 := 1, minx := [] }

/-- the same rows as a `SparseMatrix` -/
def repMat : SMat Rat := SMat.ofRows 2 2 [[(1, -1), (1, 1)], [(2, 1)]] []

/-- `BlockDiagonal(1, 3)` after `add_block(2, 1, [1,1,2])` -/
def repCov : Cov.BlockDiag Rat := (Cov.BlockDiag.init 0 1 3).addBlock 0 2 1 #[1, 1, 2]

/-- the two paths get the same input: the rows, the cofactor block, the right-hand side -/
theorem rep_same_input :
    @SMat.toRows Rat ⟨0⟩ repMat = repNp.rows.toList.map Array.toList ∧
    (Net.cofs repNp).map (fun C => (C.dim, C.band, C.buf)) = [(2, 1, #[1, 1, 2])] ∧
    repCov.Built [⟨2, 1, #[1, 1, 2]⟩] [] ∧
    (repMat.rows, repMat.cols) = (repNp.m, repNp.n) := by
  refine ⟨by decide +kernel, by decide +kernel, ?_, rfl⟩
  have h0 := Cov.BlockDiag.built_init (0 : Rat) 1 3
  exact Cov.BlockDiag.built_addBlock 0 2 1 #[1, 1, 2] h0 (by decide)

/-- dense path: the matrix that is homogenised holds the SUM `−1 + 1 = 0` -/
theorem rep_dense_path :
    Net.denseA repNp = #[#[0, 0], #[0, 1]] ∧
    (Net.prepare repNp).toOption.map (fun h => (h.Ad, h.bd)) = some (#[#[0, 0], #[0, 1]], #[1, 1]) := by
  refine ⟨by decide +kernel, by decide +kernel⟩

/-- sparse path: `Homogenization::run` homogenises the SUM `−1 + 1 = 0` too (`T(1, perm[1]) += −1; += 1`): output row 1 is
    empty (the exact zero is dropped), row 2 is `(2, 1)` -/
theorem rep_sparse_path :
    (Cov.Hom.run (Cov.bdTol : Rat) repMat repCov repNp.rhs).toOption.map
        (fun o => (@SMat.toRows Rat ⟨0⟩ o.sm, o.pr)) = some ([[], [(2, 1)]], #[1, 1]) := by
  decide +kernel

/-- the LS-side model of the envelope solver's homogenisation reads its dense matrix `Problem.dense` with `+=`
    (`AdjDense.rowDense`: coefficients stored with the same column index add up, as in every C++ consumer), so on this
    input it homogenises `[[0,0],[0,1]]` to `[[0,0],[0,1]]` like the other two paths (before round 11: last-write-wins,
    `[[1,0],[−1,1]]`) -/
theorem rep_ls_model_sums :
    (Env.homogenize (Net.toProblem repNp)).toOption.map (fun h => (h.At, h.bt)) = some (#[#[0, 0], #[0, 1]], #[1, 1]) := by
  decide +kernel

/-- **the two paths agree**: both accept, the homogenised design matrix is `[[0,0],[0,1]]` on the dense path and the
    output of `Homogenization::run` reads densely as the same matrix, entry by entry; same right-hand side -/
theorem rep_agree : ∃ hh out, Net.prepare repNp = .ok hh ∧
    Cov.Hom.run (Cov.bdTol : Rat) repMat repCov repNp.rhs = .ok out ∧
    hh.Ad = #[#[0, 0], #[0, 1]] ∧
    (∀ s c, s < 2 → c < 2 → Cov.denseRow (@SMat.rowEntries Rat ⟨0⟩ out.sm (s + 1)) (c + 1) = Dn.mget hh.Ad s c) ∧
    out.pr = hh.bd := by
  have h1 : (Net.prepare repNp).toOption.map (fun h => (h.Ad, h.bd)) = some (#[#[0, 0], #[0, 1]], #[1, 1]) := by
    decide +kernel
  have h2 : (Cov.Hom.run (Cov.bdTol : Rat) repMat repCov repNp.rhs).toOption.map
      (fun o => ((Cov.denseRow (@SMat.rowEntries Rat ⟨0⟩ o.sm 1) 1, Cov.denseRow (@SMat.rowEntries Rat ⟨0⟩ o.sm 1) 2,
        Cov.denseRow (@SMat.rowEntries Rat ⟨0⟩ o.sm 2) 1, Cov.denseRow (@SMat.rowEntries Rat ⟨0⟩ o.sm 2) 2), o.pr))
      = some ((0, 0, 0, 1), #[1, 1]) := by decide +kernel
  cases hp : Net.prepare repNp with
  | error e => rw [hp] at h1; cases h1
  | ok hh =>
    cases hr : Cov.Hom.run (Cov.bdTol : Rat) repMat repCov repNp.rhs with
    | error e => rw [hr] at h2; cases h2
    | ok out =>
      rw [hp] at h1
      rw [hr] at h2
      have e1 := Option.some.inj h1
      have e2 := Option.some.inj h2
      have eA : hh.Ad = #[#[0, 0], #[0, 1]] := congrArg Prod.fst e1
      have eb : hh.bd = #[1, 1] := congrArg Prod.snd e1
      have ep : out.pr = #[1, 1] := congrArg Prod.snd e2
      have d := congrArg Prod.fst e2
      simp only [Prod.mk.injEq] at d
      obtain ⟨d11, d12, d21, d22⟩ := d
      refine ⟨hh, out, rfl, rfl, eA, ?_, by rw [ep, eb]⟩
      intro s c hs hc
      rw [eA]
      have hs' : s = 0 ∨ s = 1 := by omega
      have hc' : c = 0 ∨ c = 1 := by omega
      rcases hs' with rfl | rfl <;> rcases hc' with rfl | rfl
      · exact d11
      · exact d12
      · exact d21
      · exact d22

end Ex


/-! ### non-vacuity of the sparse-path bridge: the correlated network `Ex.npR` as `SparseMatrix` + `BlockDiagonal` -/
namespace Ex
open Gama.Ls.Net
attribute [local instance] sqrtFnOfSqrtField
attribute [local instance 2000] scalarOfField

/-- the sparse rows of `npR` as a `SparseMatrix` -/
noncomputable def npRMat : SMat ℝ := SMat.ofRows 3 2 [[(1, 4), (2, 4)], [(1, 5), (2, 5)], [(1, 4), (2, 4)]] []

/-- `BlockDiagonal(2, 4)` after `add_block(2,1,[4,2,10])` (the correlated cluster's `activeCov()/m0²`), `add_block(1,0,[4])` -/
noncomputable def npRCov : Cov.BlockDiag ℝ :=
  ((Cov.BlockDiag.init 0 2 4).addBlock 0 2 1 #[4, 2, 10]).addBlock 0 1 0 #[4]

theorem npRMat_wf : npRMat.WF := SMat.ofRows_WF 3 2 _ [] rfl (by
    intro row hrow e he
    simp only [List.mem_cons, List.not_mem_nil, or_false] at hrow
    rcases hrow with rfl | rfl | rfl <;> simp at he <;> rcases he with rfl | rfl <;> decide)

theorem npR_holds : Env.HoldsProblem (toProblem npR) npRMat npRCov [] := by
  have hin := Net.inputOK npR (npW_dims 2 [1]) (npW_rows 2 [1])
  refine ⟨hin.blocks, hin.dims, ?_, npRMat_wf, rfl, rfl, rfl, ?_, ?_⟩
  · show npRCov.Built (Env.covMats (toProblem (npW 2 [1]))) []
    rw [npW2_toProblem]
    have h0 := Cov.BlockDiag.built_init (0 : ℝ) 2 4
    have h1 := Cov.BlockDiag.built_addBlock 0 2 1 #[4, 2, 10] h0 (by decide)
    have h2 := Cov.BlockDiag.built_addBlock 0 1 0 #[4] h1 (by decide)
    exact h2
  · intro i c hi hc
    have hi' : i < 3 := hi
    have hc' : c < 2 := hc
    have hd : (toProblem npR).dense = #[#[4, 4], #[5, 5], #[4, 4]] := npW_dense 2 [1]
    have r1 : @SMat.rowEntries ℝ ⟨0⟩ npRMat 1 = [(1, 4), (2, 4)] := rfl
    have r2 : @SMat.rowEntries ℝ ⟨0⟩ npRMat 2 = [(1, 5), (2, 5)] := rfl
    have r3 : @SMat.rowEntries ℝ ⟨0⟩ npRMat 3 = [(1, 4), (2, 4)] := rfl
    have hi2 : i = 0 ∨ i = 1 ∨ i = 2 := by omega
    have hc2 : c = 0 ∨ c = 1 := by omega
    rw [hd]
    rcases hi2 with rfl | rfl | rfl <;> rcases hc2 with rfl | rfl <;>
      simp [r1, r2, r3, Cov.denseRow, Env.mget, Env.vget]
  · intro i hi
    have hi' : i < 3 := hi
    have hi2 : i = 0 ∨ i = 1 ∨ i = 2 := by omega
    rcases hi2 with rfl | rfl | rfl <;> rfl

/-- `Homogenization::run` accepts it (because `Env.homogenize` does: `pSp_homogenize`) -/
theorem npR_homrun_accepted (hsq : IsSqrt (SqrtFn.sq : ℝ → ℝ)) :
    ∃ out, @Cov.Hom.run ℝ (Cov.fieldScalar ℝ SqrtFn.sq) (Env.bdTol : ℝ) npRMat npRCov (toProblem npR).rhs = .ok out := by
  obtain ⟨h1, -⟩ := hom_run_eq_homogenize hsq (toProblem npR) npRMat npRCov [] npR_holds
  cases hr : @Cov.Hom.run ℝ (Cov.fieldScalar ℝ SqrtFn.sq) (Env.bdTol : ℝ) npRMat npRCov (toProblem npR).rhs with
  | ok out => exact ⟨out, rfl⟩
  | error e =>
    obtain ⟨e', he'⟩ := h1.1 ⟨e, hr⟩
    rw [show toProblem npR = pSp [1] from npW2_toProblem [1], pSp_homogenize] at he'
    cases he'

end Ex

end Gama.Ls
