/-
  Lemmas for `Props/C09Cluster.lean`: the numbering `Cluster<Observation>::update()` gives to the observations of a
  cluster (`cluster_index`, `Model/ClusterIndex.lean`; the regenerated version `Gen/ClusterUpdate.lean` is related to it in
  `Props/C09Cluster.lean`, so that a change of the source breaks a NAMED obligation there) against the index list
  `activeCov()` builds (`Cov.activeIdx`, `Model/ActiveCov.lean`) — the two conventions `LocalNetwork::weight_obs`
  silently combines (`Observation::stdDev()` reads the FULL covariance matrix at `cluster_index + 1`, the adjustment
  takes its weights from the sub-matrix `activeCov()`).
-/
import Gama.Model.ClusterIndex
import Gama.Model.NetFacade

namespace Gama.Cov

/-- `update()` hands out `index, index+1, …` : the 0-based position in the full list -/
theorem updateIdx_eq : ∀ (n : Nat) (obs : List ObsInfo), updateIdx n obs = List.range' n obs.length
  | _, [] => rfl
  | n, _ :: rest => by
    rw [updateIdx, updateIdx_eq (n + 1) rest, List.length_cons, List.range'_succ]

theorem clusterIndex_eq (obs : List ObsInfo) (j : Nat) (h : j < obs.length) : clusterIndex obs j = some j := by
  unfold clusterIndex
  rw [updateIdx_eq, List.getElem?_range' h]
  simp

theorem clusterIndex_none (obs : List ObsInfo) (j : Nat) (h : obs.length ≤ j) : clusterIndex obs j = none := by
  unfold clusterIndex
  rw [updateIdx_eq]
  exact List.getElem?_eq_none (by rw [List.length_range']; exact h)

/-- the 0-based positions (in the full list) of the active observations, in list order -/
def activePos (act : List Bool) : List Nat := (List.range act.length).filter fun j => act.getD j false

theorem mem_activePos {act : List Bool} {j : Nat} : j ∈ activePos act ↔ j < act.length ∧ act.getD j false = true := by
  unfold activePos
  rw [List.mem_filter, List.mem_range]

theorem activePos_length (act : List Bool) : (activePos act).length = (act.filter id).length := by
  unfold activePos
  induction act with
  | nil => rfl
  | cons a act ih =>
    rw [List.length_cons, List.range_succ_eq_map, List.filter_cons]
    have h0 : (a :: act).getD 0 false = a := rfl
    rw [h0, List.filter_map]
    have hc : ((fun j => (a :: act).getD j false) ∘ Nat.succ) = fun j => act.getD j false := by
      funext j; rfl
    rw [hc, List.filter_cons]
    cases a
    · simpa using ih
    · simp only [if_true, List.length_cons, List.length_map, id]
      rw [ih]

theorem activeIdx_cons_one (n : Nat) (a : Bool) (rest : List ObsInfo) :
    activeIdx n ((⟨a, 1⟩ : ObsInfo) :: rest) = (if a = true then [n] else []) ++ activeIdx (n + 1) rest := by
  cases a <;> rfl

/-- **the index list of `activeCov()` for observations of dimension 1** (every observation of gama-local):
    `ind = [n + j | j a position of an active observation]` -/
theorem activeIdx_ones : ∀ (n : Nat) (act : List Bool),
    activeIdx n (act.map fun a => (⟨a, 1⟩ : ObsInfo)) = (activePos act).map (n + ·)
  | _, [] => rfl
  | n, a :: act => by
    rw [List.map_cons, activeIdx_cons_one, activeIdx_ones (n + 1) act]
    unfold activePos
    rw [List.length_cons, List.range_succ_eq_map, List.filter_cons]
    have h0 : (a :: act).getD 0 false = a := rfl
    rw [h0, List.filter_map]
    have hc : ((fun j => (a :: act).getD j false) ∘ Nat.succ) = fun j => act.getD j false := by
      funext j; rfl
    rw [hc]
    have hm : List.map (fun x => n + 1 + x) (List.filter (fun j => act.getD j false) (List.range act.length))
        = List.map (fun x => n + x) (List.map Nat.succ (List.filter (fun j => act.getD j false) (List.range act.length))) := by
      rw [List.map_map]
      apply List.map_congr_left
      intro j _
      show n + 1 + j = n + (j + 1)
      omega
    cases a
    · simp only [Bool.false_eq_true, if_false, List.nil_append]
      exact hm
    · simp only [if_true, List.map_cons, List.cons_append, List.nil_append]
      rw [← hm]
      rfl

/-- the rule of the independently seeded change `seeded/C09-seed4` (assignment moved inside `if (p->active())`:
    the counter advances for active observations only; a passive observation keeps its old index, 0 at
    construction) — used ONLY by the sensitivity `example` of `Props/C09Cluster.lean` -/
def seededUpdateIdx : Nat → List ObsInfo → List Nat
  | _, [] => []
  | index, p :: rest => if p.active then index :: seededUpdateIdx (index + 1) rest else 0 :: seededUpdateIdx index rest

end Gama.Cov

namespace Gama.Cov

/-- `Observation::stdDev()` of the observation at position `j` reads the variance at `(j+1, j+1)` of the FULL matrix -/
theorem observationStdDev_own {K : Type} [Scalar K] (cov : CovMat K) (obs : List ObsInfo) (j : Nat)
    (h : j < obs.length) : observationStdDev cov obs j = some (Scalar.sqrt (cov.get (j + 1) (j + 1))) := by
  unfold observationStdDev
  rw [clusterIndex_eq obs j h]
  rfl

end Gama.Cov

namespace Gama.Ls.Net
open Gama.Cov

set_option linter.unusedSectionVars false
variable {K : Type} [Scalar K]

theorem Cluster.obs_length (c : Cluster K) : c.obs.length = c.active.length := by
  unfold Cluster.obs; rw [List.length_map]

/-- one cluster: the standard deviations `Net.obsStdDev` lists for it (written with the index list of
    `activeCov()`) are `Observation::stdDev()` — through `cluster_index` as `update()` assigns it — of its active
    observations, in list order -/
theorem cluster_stdDev_via_index (c : Cluster K) :
    ((Cov.activeIdx 1 c.obs).map fun k => Scalar.sqrt (c.cov.get k k)).map some
      = (Cov.activePos c.active).map fun j => Cov.observationStdDev c.cov c.obs j := by
  have hobs : c.obs = c.active.map fun a => (⟨a, 1⟩ : ObsInfo) := rfl
  rw [hobs, Cov.activeIdx_ones, ← hobs, List.map_map, List.map_map]
  apply List.map_congr_left
  intro j hj
  have hlt : j < c.obs.length := by rw [Cluster.obs_length]; exact (Cov.mem_activePos.mp hj).1
  rw [Cov.observationStdDev_own c.cov c.obs j hlt]
  show some (Scalar.sqrt (c.cov.get (1 + j) (1 + j))) = _
  rw [Nat.add_comm 1 j]

/-- **whole network**: `Net.obsStdDev np` (the numbers `weight_obs`, `sigma_L` are applied to) entry by entry -/
theorem obsStdDev_via_index (np : NetProblem K) :
    (obsStdDev np).toList.map some
      = np.clusters.flatMap fun c =>
          (Cov.activePos c.active).map fun j => Cov.observationStdDev c.cov c.obs j := by
  unfold obsStdDev
  rw [List.toList_toArray, List.map_flatMap]
  induction np.clusters with
  | nil => rfl
  | cons c l ih => rw [List.flatMap_cons, List.flatMap_cons, ih, cluster_stdDev_via_index c]

end Gama.Ls.Net
