/-
  The stored column PATTERN of the sparse matrix `Homogenization::run` leaves (`Cov.Hom.run`, exported by
  Lemmas/HomRunExport.lean) is the pattern `Ls.Env.homogenize` hands to the ordering (`Homog.pat`); hence
  `SparseMatrixGraph(hom.mat())` is the graph `Env.rcmOrd` builds, and the reverse Cuthill–McKee ordering `envSolve`
  uses is the one computed from `out.sm` itself.

    * `blockOcc_eq_occOf`      : first-appearance column lists of a block, Hom side = Env side;
    * `hom_run_pattern`        : `(range' 1 rows).map out.sm.rowCols = hh.pat.toList`, and `out.sm.WF`;
    * `hom_run_graph`          : `graphOf out.sm = patGraph n hh.pat`.
-/
import Gama.Lemmas.HomRunExport
import Gama.Lemmas.EnvPatBridge
import Gama.Lemmas.HomEnvBridge

namespace Gama.Ls
open Finset Gama.LS Gama.Ls.AdjM Dn Gama.Ls.Env

set_option linter.unusedSectionVars false
set_option linter.unusedVariables false

section
variable {K : Type} [Field K] [LinearOrder K] [IsStrictOrderedRing K] [SqrtFn K]
attribute [local instance 2000] scalarOfField
attribute [local instance] Cov.inhabitedOfScalarH

theorem foldl_insertNew_flatMap (f : Nat → List Nat) : ∀ (l : List Nat) (s : List Nat),
    l.foldl (fun s i => (f i).foldl Cov.Hom.insertNew s) s = (l.flatMap f).foldl Cov.Hom.insertNew s
  | [], _ => rfl
  | a :: l, s => by
    rw [List.foldl_cons, List.flatMap_cons, List.foldl_append, foldl_insertNew_flatMap f l]

/-- the distinct columns of the block rows `off+1 … off+dim` in order of first appearance: `Hom.run`'s `invp`
    numbering (`Cov.blockOcc`) is `Env.occOf` of the same rows -/
theorem blockOcc_eq_occOf (p : Problem K) (mat : SMat K) (off dim : Nat)
    (hent : ∀ i, i < dim → @SMat.rowEntries K ⟨0⟩ mat (off + i + 1) = (p.rows.getD (off + i) #[]).toList) :
    Cov.blockOcc mat off dim = Env.occOf ((List.range dim).map fun i => p.rows.getD (off + i) #[]) := by
  rw [Env.occOf_eq_insertNew]
  unfold Cov.blockOcc
  rw [foldl_insertNew_flatMap, List.flatMap_map, List.range'_eq_map_range, List.flatMap_map]
  congr 1
  apply List.flatMap_congr
  intro i hi
  rw [List.mem_range] at hi
  show mat.rowCols (off + (1 + i)) = _
  rw [show off + (1 + i) = off + i + 1 by omega]
  exact (Cov.rowCols_eq mat (off + i + 1)).trans (congrArg (List.map fun e => e.1) (hent i hi))

theorem homogenize_pat (p : Problem K) (h : Env.Homog K) (hh : Env.homogenize p = .ok h) :
    h.pat = (Env.patOf p h.At p.cov.toList 0).toArray := by
  unfold Env.homogenize at hh
  cases hF : Env.factorsU p.cov.toList with
  | none => rw [hF] at hh; cases hh
  | some Fs =>
    rw [hF] at hh
    simp only at hh
    have hh' := (Except.ok.inj hh).symm
    subst hh'
    rfl

theorem getD_map_range {α : Type} (f : Nat → α) (n i : Nat) (d : α) (hi : i < n) :
    ((List.range n).map f).getD i d = f i := by
  simp [List.getD_eq_getElem?_getD, hi]

/-- `beq` of C10's scalar structure is `beq` of the solver's -/
theorem beq_inst (x y : K) :
    @Scalar.beq K (Cov.fieldScalar K (SqrtFn.sq : K → K)) x y = Scalar.beq x y :=
  congrArg (fun S : Scalar K => @Scalar.beq K S x y) (covFieldScalar_eq (SqrtFn.sq : K → K))

/-- **pattern of `Hom.run`'s output = `Homog.pat`**, and the output is well formed -/
theorem hom_run_pattern (hsq : IsSqrt (SqrtFn.sq : K → K)) (p : Problem K) (hrowsOK : RowsOK p)
    (mat : SMat K) (cov : Cov.BlockDiag K) (tail : List K) (H : Env.HoldsProblem p mat cov tail)
    (out : Cov.Hom.Out K) (hh : Env.Homog K)
    (hout : @Cov.Hom.run K (Cov.fieldScalar K SqrtFn.sq) (Env.bdTol : K) mat cov p.rhs = .ok out)
    (hhom : Env.homogenize p = .ok hh) :
    out.sm.WF ∧ (List.range' 1 out.sm.rows).map out.sm.rowCols = hh.pat.toList := by
  let _ : Cov.SqrtFn K := ⟨(SqrtFn.sq : K → K)⟩
  have hCwf : ∀ C ∈ Env.covMats p, C.WF := by
    intro C hC
    obtain ⟨b, hb, rfl⟩ := List.mem_map.1 hC
    exact Env.blockMat_WF b (H.blocks b hb)
  have hrows' : mat.rows = ((Env.covMats p).map (·.dim)).sum := by rw [covMats_dims, H.dims, H.rows]
  obtain ⟨hWF, hcolsx⟩ := @Cov.Hom.run_export K _ _ _ _ (Env.hsq_of_isSqrt hsq) (Env.bdTol : K) Env.bdTol_pos
    mat cov p.rhs (Env.covMats p) tail H.built hCwf H.wf hrows' out hout
  obtain ⟨_, _, g3, g4, g5⟩ := (hom_run_eq_homogenize hsq p mat cov tail H).2.2.2 out hh hout hhom
  refine ⟨hWF, ?_⟩
  rw [homogenize_pat p hh hhom, g3]
  have hlenR : (Env.patOf p hh.At p.cov.toList 0).length = p.m := by
    rw [Env.patOf_length]; exact H.dims
  apply List.ext_getElem (by rw [List.length_map, List.length_range', hlenR])
  intro s h1 h2
  have hs : s < p.m := by rw [← hlenR]; exact h2
  rw [List.getElem_map, List.getElem_range', Nat.one_mul]
  have hR : (Env.patOf p hh.At p.cov.toList 0).toArray.toList[s] =
      (Env.patOf p hh.At p.cov.toList 0).getD s [] := by
    have hs' : s < (Env.patOf p hh.At p.cov.toList 0).length := by rw [hlenR]; exact hs
    simp [List.getD_eq_getElem?_getD, hs']
  rw [hR, Env.patOf_getD p hh.At p.cov.toList 0 s (by
      have := H.dims; unfold dimsOf at this; rw [this]; exact hs)]
  obtain ⟨a1, a2, a3, ⟨blk, hblk, hd⟩, _⟩ := Env.block_index p H.dims s hs
  have hoff := locate_off (dimsOf p) s (by rw [H.dims]; exact hs)
  rw [← rowsBefore_covMats] at hoff
  have hdims : p.cov.toList.map (·.dim) = dimsOf p := rfl
  rw [hdims]
  generalize hkdef : (AdjM.locate (dimsOf p) s).1 = k at *
  generalize hodef : (AdjM.locate (dimsOf p) s).2 = off at *
  obtain ⟨hk, hblk'⟩ := List.getElem?_eq_some_iff.1 hblk
  have hkC : k < (Env.covMats p).length := by rw [covMats_length]; exact hk
  have hCk : (Env.covMats p)[k] = Env.blockMat blk := by rw [covMats_get p k hkC hk, hblk']
  have hget : p.cov.toList.getD k ⟨0, 0, #[]⟩ = blk := by
    rw [List.getD_eq_getElem?_getD, hblk]; rfl
  rw [hget, Nat.zero_add]
  obtain ⟨c0, c1⟩ := hcolsx k hkC (s - off + 1) (by omega) (by rw [hCk]; show s - off + 1 ≤ blk.dim; omega)
  rw [hCk] at c0 c1
  rw [← hoff, show off + (s - off + 1) = s + 1 by omega] at c0 c1
  rw [show 1 + s = s + 1 by omega]
  have hrc : out.sm.rowCols (s + 1) = (out.sm.rowEntries (s + 1)).map (fun e => e.1) := Cov.rowCols_eq _ _
  rw [hrc]
  unfold Env.blockPat
  by_cases hw : blk.width = 0
  · have hw' : (blk.width == 0) = true := by rw [hw]; rfl
    rw [if_pos hw', getD_map_range _ _ _ _ (by omega)]
    refine (c0 hw).trans ?_
    rw [show off + (s - off) = s by omega]
    exact congrArg (List.map fun e => e.1) (H.entries s hs)
  · have hw' : ¬ (blk.width == 0) = true := by simpa using hw
    rw [if_neg hw']
    simp only
    rw [getD_map_range _ _ _ _ (by omega)]
    refine (c1 hw).trans ?_
    have hocc := blockOcc_eq_occOf p mat off blk.dim (fun i hi => H.entries (off + i) (by omega))
    rw [show (Env.blockMat blk).dim = blk.dim from rfl, hocc]
    apply List.filter_congr
    intro c hc
    -- `c` occurs in a row of the block: it is a valid column index
    obtain hcase | ⟨r, hr, e, he, hec⟩ := Env.mem_occOf c _ [] hc
    · cases hcase
    obtain ⟨i, hi, rfl⟩ := List.mem_map.1 hr
    rw [List.mem_range] at hi
    have hrng := hrowsOK (off + i) (by omega) e he
    rw [hec] at hrng
    have := g5 s (c - 1) hs (by omega)
    rw [show c - 1 + 1 = c by omega] at this
    rw [show off + (s - off) = s by omega, ← this]
    exact congrArg (fun b => !b) (beq_inst _ _)

/-- **`SparseMatrixGraph(hom.mat())` is the graph `envSolve` orders**: the graph of the sparse matrix `Hom.run` leaves
    is `patGraph n hh.pat`, whose reverse Cuthill–McKee ordering `Env.rcmOrd` copies -/
theorem hom_run_graph (hsq : IsSqrt (SqrtFn.sq : K → K)) (p : Problem K) (hrowsOK : RowsOK p)
    (mat : SMat K) (cov : Cov.BlockDiag K) (tail : List K) (H : Env.HoldsProblem p mat cov tail)
    (out : Cov.Hom.Out K) (hh : Env.Homog K)
    (hout : @Cov.Hom.run K (Cov.fieldScalar K SqrtFn.sq) (Env.bdTol : K) mat cov p.rhs = .ok out)
    (hhom : Env.homogenize p = .ok hh) :
    out.sm.WF ∧ graphOf out.sm = Env.patGraph p.n hh.pat := by
  obtain ⟨hWF, hpat⟩ := hom_run_pattern hsq p hrowsOK mat cov tail H out hh hout hhom
  obtain ⟨_, _, _, g4, _⟩ := (hom_run_eq_homogenize hsq p mat cov tail H).2.2.2 out hh hout hhom
  exact ⟨hWF, graphOf_eq_patGraph out.sm p.n hh.pat g4 hpat⟩

end
end Gama.Ls
