/-
  The decision layer (`Model/NetDecision.lean`: `vyrovnani_`, `null_space`, `GeneralParameters`) only ever asks the world
  about configurations REACHABLE from the given one: by making coordinate groups unused (`hugePass`, `removeUnknown`) and by
  what `project_equations()` itself returns (`(W n).net`).  Two worlds that agree on a set `R` closed under these give the
  same `decideA` on every network of `R` (`decideA_congr`): a hypothesis "for every configuration" can be asked of `R` only.
  `SubOf n0` (same ids, every status the original one or `unused`) is closed under the two removal operations.
-/
import Gama.Lemmas.NetDecision
namespace Gama.NetDecision

/-- `Q` is `P` with some coordinate groups made unused -/
def SubPt (P Q : Point) : Prop := Q.id = P.id ∧ (Q.xy = P.xy ∨ Q.xy = .unused) ∧ (Q.z = P.z ∨ Q.z = .unused)

inductive SubOf : Net → Net → Prop
  | nil : SubOf [] []
  | cons {P Q : Point} {r0 r : Net} : SubPt P Q → SubOf r0 r → SubOf (P :: r0) (Q :: r)

theorem SubPt.refl (P : Point) : SubPt P P := ⟨rfl, Or.inl rfl, Or.inl rfl⟩

theorem SubOf.refl : ∀ n : Net, SubOf n n
  | [] => .nil
  | P :: r => .cons (SubPt.refl P) (SubOf.refl r)

theorem SubPt.strip {P Q : Point} (h : SubPt P Q) (c : Rm) : SubPt P (Q.strip c) := by
  obtain ⟨h1, h2, h3⟩ := h
  cases c <;> exact ⟨h1, by first | exact Or.inr rfl | exact h2, by first | exact Or.inr rfl | exact h3⟩

theorem SubOf.hugePass (a : Abs) {n0 n : Net} (h : SubOf n0 n) : SubOf n0 (hugePass a n).1 := by
  induction h with
  | nil => exact .nil
  | @cons P Q r0 r hPQ hr ih =>
    unfold NetDecision.hugePass
    cases a.huge Q with
    | error e => exact .cons hPQ hr
    | ok o =>
      cases o with
      | none => exact .cons hPQ ih
      | some c => exact .cons (hPQ.strip c) ih

theorem SubOf.mapStrip (pid : String) (c : Rm) {n0 n : Net} (h : SubOf n0 n) :
    SubOf n0 (n.map fun P => if P.id == pid then P.strip c else P) := by
  induction h with
  | nil => exact .nil
  | @cons P Q r0 r hPQ hr ih =>
    simp only [List.map_cons]
    refine .cons ?_ ih
    split
    · exact hPQ.strip c
    · exact hPQ

theorem SubPt.trans {P Q S : Point} (h1 : SubPt P Q) (h2 : SubPt Q S) : SubPt P S := by
  obtain ⟨a1, a2, a3⟩ := h1
  obtain ⟨b1, b2, b3⟩ := h2
  refine ⟨b1.trans a1, ?_, ?_⟩
  · rcases b2 with b | b
    · rw [b]; exact a2
    · exact Or.inr b
  · rcases b3 with b | b
    · rw [b]; exact a3
    · exact Or.inr b

theorem SubOf.trans {n0 n1 n2 : Net} (h1 : SubOf n0 n1) (h2 : SubOf n1 n2) : SubOf n0 n2 := by
  induction h1 generalizing n2 with
  | nil => cases h2; exact .nil
  | @cons P Q r0 r hPQ hr ih =>
    cases h2 with
    | cons hQS hr' => exact .cons (hPQ.trans hQS) (ih hr')

/-- closure of a set of configurations under what the decision layer does to the network -/
structure Closed (R : Net → Prop) (W : WorldA) : Prop where
  world : ∀ n, R n → R (W n).net
  huge : ∀ a n, R n → R (hugePass a n).1
  rem : ∀ pid c n, R n → R (n.map fun P => if P.id == pid then P.strip c else P)

section congr
variable {R : Net → Prop} {W W' : WorldA}

theorem projectEq_congr (hag : ∀ n, R n → W n = W' n) (s : St) (hs : R s.net) : projectEq W s = projectEq W' s := by
  unfold projectEq
  cases hp : s.proj with
  | some a => rfl
  | none => simp only []; rw [← hag s.net hs]

theorem vS1_R (hc : Closed R W) (s : St) (hs : R s.net) : R (vS1 W s).net := by
  unfold vS1 projectEq
  cases hp : s.proj with
  | some a => exact hs
  | none => exact hc.world s.net hs

theorem vS2_R (hc : Closed R W) (s : St) (hs : R s.net) : R (vS2 W s).net :=
  hc.huge _ _ (vS1_R hc s hs)

theorem vyrovnani_R (hc : Closed R W) : ∀ (f : Nat) (s : St), R s.net → R (vyrovnani W f s).1.net
  | 0, s, hs => by rw [vyrovnani_zero]; exact hs
  | f + 1, s, hs => by
    cases hadj : s.adj with
    | true => rw [vyrovnani_adj W _ s hadj]; exact hs
    | false =>
      rw [vyrovnani_succ W f s hadj]
      have h1 := vS1_R hc s hs
      have h2 := vS2_R hc s hs
      have h2c : R (vS2c W s).net := h1
      split_ifs
      · exact h1
      · exact h1
      · exact h1
      · exact h2c
      · exact h1
      · cases (vR W s).2.2 with
        | some e => exact h2
        | none => exact vyrovnani_R hc f _ h2

theorem vyrovnani_congr (hag : ∀ n, R n → W n = W' n) (hc : Closed R W) : ∀ (f : Nat) (s : St), R s.net →
    vyrovnani W f s = vyrovnani W' f s
  | 0, s, _ => by rw [vyrovnani_zero, vyrovnani_zero]
  | f + 1, s, hs => by
    cases hadj : s.adj with
    | true => rw [vyrovnani_adj W _ s hadj, vyrovnani_adj W' _ s hadj]
    | false =>
      have e := projectEq_congr hag s hs
      have e1 : vS1 W' s = vS1 W s := by unfold vS1; rw [e]
      have eA : vA W' s = vA W s := by unfold vA; rw [e]
      have eR : vR W' s = vR W s := by unfold vR; rw [e1, eA]
      have e2 : vS2 W' s = vS2 W s := by unfold vS2; rw [e1, eR]
      have e2c : vS2c W' s = vS2c W s := by unfold vS2c; rw [e1]
      have eO : vOutClean W' s = vOutClean W s := by unfold vOutClean; rw [eR, eA]
      rw [vyrovnani_succ W f s hadj, vyrovnani_succ W' f s hadj, e1, eA, eR, e2, e2c, eO,
        vyrovnani_congr hag hc f (vS2 W s) (vS2_R hc s hs)]

theorem removeUnknown_R (hc : Closed R W) (s : St) (u : Unknown) (hs : R s.net) : R (removeUnknown s u).net := by
  unfold removeUnknown
  exact hc.rem _ _ _ hs

theorem nullSpace_both (hag : ∀ n, R n → W n = W' n) (hc : Closed R W) (vf : Nat) : ∀ (f : Nat) (s : St), R s.net →
    nullSpace W vf f s = nullSpace W' vf f s ∧ R (nullSpace W vf f s).1.net
  | 0, s, hs => by rw [nullSpace_zero, nullSpace_zero]; exact ⟨rfl, hs⟩
  | f + 1, s, hs => by
    have ev := vyrovnani_congr hag hc vf s hs
    have hv := vyrovnani_R hc vf s hs
    have e := projectEq_congr hag (vyrovnani W vf s).1 hv
    have e1 : vS1 W' (vyrovnani W vf s).1 = vS1 W (vyrovnani W vf s).1 := by unfold vS1; rw [e]
    have eA : vA W' (vyrovnani W vf s).1 = vA W (vyrovnani W vf s).1 := by unfold vA; rw [e]
    have h1 := vS1_R hc _ hv
    rw [nullSpace_succ W vf f s, nullSpace_succ W' vf f s, ← ev, e1, eA]
    cases (vyrovnani W vf s).2 with
    | ok =>
      simp only []
      cases (vyrovnani W vf s).1.proj with
      | some a => exact ⟨trivial, hv⟩
      | none => exact ⟨trivial, hv⟩
    | badReg =>
      simp only []
      cases (vA W (vyrovnani W vf s).1).flagged with
      | nil => exact ⟨rfl, h1⟩
      | cons i t =>
        simp only []
        cases (vA W (vyrovnani W vf s).1).unknowns[i - 1]? with
        | none => exact ⟨rfl, h1⟩
        | some u => exact nullSpace_both hag hc vf f _ (removeUnknown_R hc _ u h1)
    | matvec e => exact ⟨rfl, hv⟩
    | noUnknowns => exact ⟨rfl, hv⟩
    | noObs => exact ⟨rfl, hv⟩
    | noPoints => exact ⟨rfl, hv⟩
    | fuel => exact ⟨rfl, hv⟩

/-- **two worlds that agree on a closed set of configurations decide alike on it** -/
theorem decideA_congr (hag : ∀ n, R n → W n = W' n) (hc : Closed R W) (net : Net) (hn : R net) :
    decideA W net = decideA W' net := by
  unfold decideA
  generalize fuelFor net = f
  have hs0 : R (St.init net).net := hn
  generalize St.init net = s0 at hs0
  obtain ⟨n1, r1⟩ := nullSpace_both hag hc f f s0 hs0
  obtain ⟨n2, r2⟩ := nullSpace_both hag hc f f _ r1
  have e := projectEq_congr hag _ r2
  have e1 : vS1 W' (nullSpace W f f (nullSpace W f f s0).1).1 = vS1 W (nullSpace W f f (nullSpace W f f s0).1).1 := by
    unfold vS1; rw [e]
  have eA : vA W' (nullSpace W f f (nullSpace W f f s0).1).1 = vA W (nullSpace W f f (nullSpace W f f s0).1).1 := by
    unfold vA; rw [e]
  have ev := vyrovnani_congr hag hc f _ (vS1_R hc _ r2)
  rw [generalParameters_eq W, generalParameters_eq W', ← n1, ← n2, e1, eA, ← ev]

end congr

end Gama.NetDecision
