/-
  Bridge between the two dense descriptions of the envelope kernels:

  * the solver builder's functional restatement `Gama.Ls.Env.{ldl, solve, invRec/zEntry}`
    (`Model/Ls/Env/Core.lean`), instantiated at `Gama.fieldScalar sq` (= `Gama.LS.fieldScalar sq`);
  * the reference `Gama.Dense.{ldl, solve, inverse}` (`Model/Envelope.lean`), instantiated at
    `ordFieldScalar K sq`, to which `Lemmas/EnvelopeLDL.lean` proves the packed profile storage
    (`Env.cholDec / solve / inverse`) equal.

  Both satisfy the same triangular recurrences; composing gives "packed profile storage =
  dense functional model", the obligation that `Model/Ls/Env/Core.lean` leaves to C16.
-/
import Gama.Lemmas.EnvelopeLDL
import Gama.Lemmas.Ls.EnvLDL

namespace Gama
namespace EnvLsBridge

open Finset EnvLDL

set_option linter.unusedSectionVars false
set_option linter.unusedVariables false

section
variable {K : Type} [Field K] [LinearOrder K] [IsStrictOrderedRing K] [SqrtFn K]

attribute [local instance] EnvLDL.scalarOfField

/-- the solver builder's `Scalar` structure -/
local notation "𝔽" => Gama.fieldScalar (SqrtFn.sq : K → K)

/-- the normal matrix as a function (what `Ls.Env.ldl` consumes) -/
def fnOf (N : Dense K) : Nat → Nat → K := fun i j => Dense.get N i j

/-! ### B1 : the factorisations -/

theorem defectOf_push (rows : Array (Ls.Env.Row K)) (r : Ls.Env.Row K) :
    Ls.Env.defectOf (rows.push r) = if r.dep then Ls.Env.defectOf rows + 1 else Ls.Env.defectOf rows := by
  unfold Ls.Env.defectOf
  rw [Array.foldl_push]

theorem ldl_joint (N : Dense K) (tol : K) (m : Nat) :
    (Dense.ldl tol N m).L.size = m ∧ (Dense.ldl tol N m).D.size = m ∧
    (∀ i j, j < i → i < m → Ls.Env.Lf SqrtFn.sq (fnOf N) tol i j = (Dense.ldl tol N m).L.get i j) ∧
    (∀ i, i < m → Ls.Env.Df SqrtFn.sq (fnOf N) tol i = (Dense.ldl tol N m).D.getD i 0) ∧
    Ls.Env.defectOf (@Ls.Env.ldl K 𝔽 (fnOf N) tol m) = (Dense.ldl tol N m).defect := by
  induction m with
  | zero =>
    refine ⟨rfl, rfl, ?_, ?_, rfl⟩
    · intro i j _ h; omega
    · intro i h; omega
  | succ m ih =>
    obtain ⟨hLs, hDs, hL, hD, hdef⟩ := ih
    obtain ⟨hL', hD', hdef'⟩ := ldl_succ tol N m
    rw [hL', hD', hdef']
    generalize Dense.ldl tol N m = fm at *
    -- the new row
    have hy : ∀ j, j < m → Ls.Env.yf SqrtFn.sq (fnOf N) tol m j = (dY N fm.L m).getD j 0 := by
      refine tri_unique (fun j => N.get m j) (fun j k => fm.L.get j k) _ _ m ?_ (fun j hj => dY_rec N fm.L m j hj)
      intro j hj
      rw [Ls.Env.yf_eq SqrtFn.sq (fnOf N) tol hj]
      congr 1
      apply Finset.sum_congr rfl
      intro k hk
      rw [hL j k (Finset.mem_range.mp hk) hj]
    have hrow : ∀ j, j < m → Ls.Env.Lf SqrtFn.sq (fnOf N) tol m j = (Dense.ldlRow N fm.L fm.D m).getD j 0 := by
      intro j hj
      rw [Ls.Env.Lf_eq SqrtFn.sq (fnOf N) tol hj, ldlRow_getD N fm.L fm.D m j hj, hD j hj, hy j hj]
    have hpiv : Ls.Env.dpiv SqrtFn.sq (fnOf N) tol m = dPiv N fm m := by
      unfold Ls.Env.dpiv dPiv
      congr 1
      apply Finset.sum_congr rfl
      intro j hj
      have hj' := Finset.mem_range.mp hj
      rw [hrow j hj', hD j hj']
    refine ⟨by simp [hLs], by simp [hDs], ?_, ?_, ?_⟩
    · intro i j hji him
      rw [dense_get_push, hLs]
      by_cases hi : i = m
      · subst hi
        rw [if_pos rfl]
        exact hrow j hji
      · rw [if_neg hi]
        exact hL i j hji (by omega)
    · intro i him
      rw [getD_push, hDs]
      by_cases hi : i = m
      · subst hi
        rw [if_pos rfl, Ls.Env.Df_eq, hpiv]
      · rw [if_neg hi]
        exact hD i (by omega)
    · have : @Ls.Env.ldl K 𝔽 (fnOf N) tol (m + 1) =
          (@Ls.Env.ldl K 𝔽 (fnOf N) tol m).push (Ls.Env.rowAt SqrtFn.sq (fnOf N) tol m) := rfl
      rw [this, defectOf_push, Ls.Env.rowAt_dep, hpiv, hdef]
      simp

/-- the rows of the functional model and the dense reference factor hold the same `L`, `D` -/
structure LsRel (rows : Array (Ls.Env.Row K)) (f : Dense.LDL K) (n : Nat) : Prop where
  L : ∀ i j, j < i → i < n → @Ls.Env.Lget K 𝔽 rows i j = f.L.get i j
  D : ∀ i, i < n → @Ls.Env.Dget K 𝔽 rows i = f.D.getD i 0

/-- B1 -/
theorem ls_ldl_eq_dense' (N : Dense K) (tol : K) (n : Nat) :
    LsRel (@Ls.Env.ldl K 𝔽 (fnOf N) tol n) (Dense.ldl tol N n) n ∧
    Ls.Env.defectOf (@Ls.Env.ldl K 𝔽 (fnOf N) tol n) = (Dense.ldl tol N n).defect ∧
    (@Ls.Env.ldl K 𝔽 (fnOf N) tol n).size = n := by
  obtain ⟨_, _, hL, hD, hdef⟩ := ldl_joint N tol n
  refine ⟨⟨?_, ?_⟩, hdef, Ls.Env.build_size _ n⟩
  · intro i j hji hin
    rw [Ls.Env.Lget_ldl SqrtFn.sq (fnOf N) tol hin]
    exact hL i j hji hin
  · intro i hin
    rw [Ls.Env.Dget_ldl SqrtFn.sq (fnOf N) tol hin]
    exact hD i hin

/-! ### B2 : the solves -/

theorem ls_lower_rec (rows : Array (Ls.Env.Row K)) (n : Nat) (c : Nat → K) {i : Nat} (h : i < n) :
    @Ls.Env.vget K 𝔽 (@Ls.Env.lower K 𝔽 rows n c) i =
      c i - ∑ j ∈ range i, @Ls.Env.Lget K 𝔽 rows i j * @Ls.Env.vget K 𝔽 (@Ls.Env.lower K 𝔽 rows n c) j := by
  unfold Ls.Env.lower
  rw [Ls.Env.vget_build SqrtFn.sq h, Ls.Env.sumTo_eq]
  simp only [fs_sub, fs_mul]
  congr 1
  refine sum_congr rfl fun j hj => ?_
  have hj' : j < i := mem_range.1 hj
  congr 1
  exact Ls.Env.build_getD_prefix _ _ hj' (hj'.trans h)

theorem ls_lower_eq {rows : Array (Ls.Env.Row K)} {f : Dense.LDL K} {n : Nat} (h : LsRel rows f n)
    (c : Nat → K) (b : Array K) (hc : ∀ i, i < n → c i = b.getD i 0) :
    ∀ i, i < n → @Ls.Env.vget K 𝔽 (@Ls.Env.lower K 𝔽 rows n c) i = (Dense.lower f n b).getD i 0 := by
  obtain ⟨_, drec⟩ := push_rec_tri (fun i => b.getD i 0) (fun i j => f.L.get i j) n
  have hd : Dense.lower f n b = (List.range n).foldl (fun (y : Array K) i =>
        y.push ((fun i => b.getD i 0) i - Dense.sum ((List.range i).map fun c => (fun i j => f.L.get i j) i c * y.getD c 0))) #[] := rfl
  rw [← hd] at drec
  refine tri_unique (fun i => b.getD i 0) (fun i j => f.L.get i j) _ _ n ?_ drec
  intro i hi
  rw [ls_lower_rec rows n c hi, hc i hi]
  congr 1
  refine sum_congr rfl fun j hj => ?_
  rw [h.L i j (mem_range.1 hj) hi]

theorem ls_diagS_eq {rows : Array (Ls.Env.Row K)} {f : Dense.LDL K} {n : Nat} (h : LsRel rows f n)
    (z : Nat → K) (y : Array K) (hz : ∀ i, i < n → z i = y.getD i 0) :
    ∀ i, i < n → @Ls.Env.vget K 𝔽 (@Ls.Env.diagS K 𝔽 rows n z) i = (Dense.diagS f n y).getD i 0 := by
  intro i hi
  unfold Ls.Env.diagS Dense.diagS
  rw [Ls.Env.vget_vecOf SqrtFn.sq _ _ hi, getD_ofFn, dif_pos hi, h.D i hi, hz i hi]
  simp only [fs_beq, fs_div, fs_zero]
  rfl

theorem ls_upperRev_rec (rows : Array (Ls.Env.Row K)) (n : Nat) (w : Nat → K) {t : Nat} (h : t < n) :
    @Ls.Env.vget K 𝔽 (@Ls.Env.upperRev K 𝔽 rows n w) t
      = w (n - 1 - t) - ∑ s ∈ range t, @Ls.Env.Lget K 𝔽 rows (n - 1 - s) (n - 1 - t)
          * @Ls.Env.vget K 𝔽 (@Ls.Env.upperRev K 𝔽 rows n w) s := by
  unfold Ls.Env.upperRev
  rw [Ls.Env.vget_build SqrtFn.sq h, Ls.Env.sumTo_eq]
  simp only [fs_sub, fs_mul]
  congr 1
  refine sum_congr rfl fun s hs => ?_
  have hs' : s < t := mem_range.1 hs
  congr 1
  exact Ls.Env.build_getD_prefix _ _ hs' (hs'.trans h)

theorem ls_upper_rec (rows : Array (Ls.Env.Row K)) (n : Nat) (w : Nat → K) {i : Nat} (h : i < n) :
    @Ls.Env.vget K 𝔽 (@Ls.Env.upper K 𝔽 rows n w) i =
      w i - ∑ m ∈ range (n - 1 - i), @Ls.Env.Lget K 𝔽 rows (i + 1 + m) i *
        @Ls.Env.vget K 𝔽 (@Ls.Env.upper K 𝔽 rows n w) (i + 1 + m) := by
  unfold Ls.Env.upper
  simp only
  rw [Ls.Env.vget_vecOf SqrtFn.sq _ _ h, ls_upperRev_rec rows n w (by omega : n - 1 - i < n)]
  have e1 : n - 1 - (n - 1 - i) = i := by omega
  rw [e1]
  congr 1
  rw [← Finset.sum_range_reflect (fun m => @Ls.Env.Lget K 𝔽 rows (i + 1 + m) i *
        @Ls.Env.vget K 𝔽 (@Ls.Env.vecOf K n fun i => @Ls.Env.vget K 𝔽 (@Ls.Env.upperRev K 𝔽 rows n w) (n - 1 - i)) (i + 1 + m))
      (n - 1 - i)]
  refine sum_congr rfl fun s hs => ?_
  have hs' : s < n - 1 - i := mem_range.1 hs
  have e3 : i + 1 + (n - 1 - i - 1 - s) = n - 1 - s := by omega
  rw [e3, Ls.Env.vget_vecOf SqrtFn.sq _ _ (by omega : n - 1 - s < n)]
  have e4 : n - 1 - (n - 1 - s) = s := by omega
  rw [e4]

theorem dense_upper_rec (f : Dense.LDL K) (n : Nat) (z : Array K) {i : Nat} (hi : i < n) :
    (Dense.upper f n z).getD i 0 = z.getD i 0 -
      ∑ m ∈ range (n - 1 - i), f.L.get (i + 1 + m) i * (Dense.upper f n z).getD (i + 1 + m) 0 := by
  obtain ⟨dlen, drec⟩ := duFold_inv f n z n (Nat.le_refl n)
  have hd : Dense.upper f n z = (duFold f n z n).toArray := rfl
  have hga : ∀ i, (duFold f n z n).toArray.getD i 0 = (duFold f n z n).getD i 0 := by
    intro i
    simp [List.getD_eq_getElem?_getD]
  rw [hd, hga, drec i hi]
  simp only [Nat.sub_self, Nat.zero_add, hga]

theorem ls_upper_eq {rows : Array (Ls.Env.Row K)} {f : Dense.LDL K} {n : Nat} (h : LsRel rows f n)
    (w : Nat → K) (z : Array K) (hw : ∀ i, i < n → w i = z.getD i 0) :
    ∀ i, i < n → @Ls.Env.vget K 𝔽 (@Ls.Env.upper K 𝔽 rows n w) i = (Dense.upper f n z).getD i 0 := by
  refine tri_unique_back (fun i => z.getD i 0) (fun q p => f.L.get q p) _ _ n ?_
    (fun i hi => dense_upper_rec f n z hi)
  intro i hi
  rw [ls_upper_rec rows n w hi, hw i hi]
  congr 1
  refine sum_congr rfl fun m hm => ?_
  have := mem_range.1 hm
  rw [h.L (i + 1 + m) i (by omega) (by omega)]

theorem dense_upper_size (f : Dense.LDL K) (n : Nat) (z : Array K) : (Dense.upper f n z).size = n := by
  obtain ⟨dlen, _⟩ := duFold_inv f n z n (Nat.le_refl n)
  have hd : Dense.upper f n z = (duFold f n z n).toArray := rfl
  rw [hd]
  simp [dlen]

/-- B2 -/
theorem ls_solve_eq_dense' {rows : Array (Ls.Env.Row K)} {f : Dense.LDL K} {n : Nat} (h : LsRel rows f n)
    (b : Array K) :
    @Ls.Env.solve K 𝔽 rows n (fun i => b.getD i 0) = Dense.solve f n b := by
  unfold Ls.Env.solve Dense.solve
  have h1 := ls_lower_eq h (fun i => b.getD i 0) b (fun _ _ => rfl)
  have h2 := ls_diagS_eq h _ _ h1
  have h3 := ls_upper_eq h _ _ h2
  apply arr_ext_getD _ _ (by rw [dense_upper_size]; unfold Ls.Env.upper; exact Ls.Env.vecOf_size _ _)
  intro i hi
  have hsz : (@Ls.Env.upper K 𝔽 rows n (@Ls.Env.vget K 𝔽 (@Ls.Env.diagS K 𝔽 rows n
      (@Ls.Env.vget K 𝔽 (@Ls.Env.lower K 𝔽 rows n fun i => b.getD i 0))))).size = n := by
    unfold Ls.Env.upper; exact Ls.Env.vecOf_size _ _
  rw [hsz] at hi
  exact h3 i hi

/-! ### B4 (factor part) : packed `cholDec` = functional `ldl` -/

theorem packed_ldl_eq_ls' {E : Env K} (hE : E.ProfileOK) (N : Dense K) (tol : K) (htol : 0 < tol)
    (hN : ∀ i j, 1 ≤ j → j ≤ i → i ≤ E.dim → E.entry i j = N.get (i - 1) (j - 1)) :
    (∀ i j, 1 ≤ j → j < i → i ≤ E.dim → (E.cholDec tol).entry i j =
      @Ls.Env.Lget K 𝔽 (@Ls.Env.ldl K 𝔽 (fnOf N) tol E.dim) (i - 1) (j - 1)) ∧
    (∀ i, 1 ≤ i → i ≤ E.dim → (E.cholDec tol).diagonal i =
      @Ls.Env.Dget K 𝔽 (@Ls.Env.ldl K 𝔽 (fnOf N) tol E.dim) (i - 1)) ∧
    (E.cholDec tol).defect = Ls.Env.defectOf (@Ls.Env.ldl K 𝔽 (fnOf N) tol E.dim) := by
  obtain ⟨hR, hdef⟩ := cholDec_refines' hE N tol htol hN
  obtain ⟨hrel, hdef', _⟩ := ls_ldl_eq_dense' N tol E.dim
  refine ⟨?_, ?_, by rw [hdef, hdef']⟩
  · intro i j hj hji hi
    rw [hR.L i j hj hji hi, hrel.L (i - 1) (j - 1) (by omega) (by omega)]
  · intro i hi1 hi
    rw [hR.D i hi1 hi, hrel.D (i - 1) (by omega)]

/-! ### B3 : the inverses -/

theorem Zget_push (n t : Nat) (zcols : Array (Array K)) (hsz : zcols.size = t) (col : Array K) (a b : Nat) :
    @Ls.Env.Zget K 𝔽 n (zcols.push col) a b =
      if n - 1 - max a b = t then @Ls.Env.vget K 𝔽 col (min a b) else @Ls.Env.Zget K 𝔽 n zcols a b := by
  unfold Ls.Env.Zget
  simp only
  rw [getD_push, hsz]
  split <;> rfl

/-- what one column of the functional `inverse` contains -/
theorem invCol_spec (rows : Array (Ls.Env.Row K)) (n t : Nat) (ht : t < n) (zcols : Array (Array K)) :
    (@Ls.Env.Dget K 𝔽 rows (n - 1 - t) = 0 →
      ∀ i, i ≤ n - 1 - t → @Ls.Env.vget K 𝔽 (@Ls.Env.invCol K 𝔽 rows n t zcols) i = 0) ∧
    (@Ls.Env.Dget K 𝔽 rows (n - 1 - t) ≠ 0 →
      @Ls.Env.vget K 𝔽 (@Ls.Env.invCol K 𝔽 rows n t zcols) (n - 1 - t) =
        1 / @Ls.Env.Dget K 𝔽 rows (n - 1 - t) -
          ∑ m ∈ range (n - 1 - (n - 1 - t)), @Ls.Env.Lget K 𝔽 rows (n - 1 - t + 1 + m) (n - 1 - t) *
            @Ls.Env.Zget K 𝔽 n zcols (n - 1 - t) (n - 1 - t + 1 + m) ∧
      ∀ i, i < n - 1 - t → @Ls.Env.vget K 𝔽 (@Ls.Env.invCol K 𝔽 rows n t zcols) i =
        0 - ∑ m ∈ range (n - 1 - i), @Ls.Env.Lget K 𝔽 rows (i + 1 + m) i *
          (if i + 1 + m ≤ n - 1 - t then @Ls.Env.vget K 𝔽 (@Ls.Env.invCol K 𝔽 rows n t zcols) (i + 1 + m)
           else @Ls.Env.Zget K 𝔽 n zcols (i + 1 + m) (n - 1 - t))) := by
  generalize hs0 : n - 1 - t = s0
  refine ⟨?_, ?_⟩
  · intro hd i hi
    unfold Ls.Env.invCol
    simp only [hs0, fs_beq, hd, decide_true, if_true]
    exact Ls.Env.vget_vecOf SqrtFn.sq _ _ (by omega)
  · intro hd
    have hb : ¬ (@Scalar.beq K 𝔽 (@Ls.Env.Dget K 𝔽 rows s0) 0 = true) := by
      rw [fs_beq]; simpa using hd
    -- name the reversed table
    have hcol : ∀ i, i ≤ s0 → @Ls.Env.vget K 𝔽 (@Ls.Env.invCol K 𝔽 rows n t zcols) i =
        @Ls.Env.vget K 𝔽 (Ls.Env.build (fun u acc =>
          if u = 0 then (1 / @Ls.Env.Dget K 𝔽 rows s0) - @Ls.Env.sumTo K 𝔽 (n - 1 - s0) (fun m =>
              @Ls.Env.Lget K 𝔽 rows (s0 + 1 + m) s0 * @Ls.Env.Zget K 𝔽 n zcols s0 (s0 + 1 + m)) else
            0 - @Ls.Env.sumTo K 𝔽 (n - 1 - (s0 - u)) (fun m =>
                  @Ls.Env.Lget K 𝔽 rows (s0 - u + 1 + m) (s0 - u) *
                    (if s0 - u + 1 + m ≤ s0 then @Ls.Env.vget K 𝔽 acc (s0 - (s0 - u + 1 + m))
                     else @Ls.Env.Zget K 𝔽 n zcols (s0 - u + 1 + m) s0))) (s0 + 1)) (s0 - i) := by
      intro i hi
      unfold Ls.Env.invCol
      simp only [hs0]
      rw [if_neg hb]
      exact Ls.Env.vget_vecOf SqrtFn.sq _ _ (by omega)
    refine ⟨?_, ?_⟩
    · rw [hcol s0 (Nat.le_refl _), Nat.sub_self, Ls.Env.vget_build SqrtFn.sq (by omega), if_pos rfl,
        Ls.Env.sumTo_eq]
    · intro i hi
      rw [hcol i (by omega), Ls.Env.vget_build SqrtFn.sq (by omega), if_neg (by omega), Ls.Env.sumTo_eq]
      have e1 : s0 - (s0 - i) = i := by omega
      simp only [e1]
      congr 1
      refine sum_congr rfl fun m hm => ?_
      congr 1
      by_cases hk : i + 1 + m ≤ s0
      · rw [if_pos hk, if_pos hk, hcol (i + 1 + m) hk]
        exact Ls.Env.build_getD_prefix _ _ (by omega) (by omega)
      · rw [if_neg hk, if_neg hk]

/-- invariant of the two dense `inverse` loops after `t` columns (columns `≥ n - t` done) -/
def ZRel (n t : Nat) (zcols : Array (Array K)) (Zd : Dense K) : Prop :=
  ∀ a b, a < n → b < n → n - t ≤ max a b →
    @Ls.Env.Zget K 𝔽 n zcols a b = Zd.get a b ∧ Zd.get b a = Zd.get a b

theorem zrel_step {rows : Array (Ls.Env.Row K)} {f : Dense.LDL K} {n : Nat} (h : LsRel rows f n)
    (t : Nat) (ht : t < n) (zcols : Array (Array K)) (hsz : zcols.size = t) (Zd : Dense K)
    (hZd : Square Zd n) (hrel : ZRel n t zcols Zd) :
    Square (dStep f n Zd (n - 1 - t)) n ∧
    ZRel n (t + 1) (zcols.push (@Ls.Env.invCol K 𝔽 rows n t zcols)) (dStep f n Zd (n - 1 - t)) := by
  obtain ⟨dsq, dun, dzero, dnz⟩ := dStep_spec f n Zd hZd (n - 1 - t) (by omega)
  obtain ⟨czero, cnz⟩ := invCol_spec rows n t ht zcols
  have hD := h.D (n - 1 - t) (by omega)
  generalize hs0 : n - 1 - t = s0 at *
  generalize dStep f n Zd s0 = Zd' at *
  generalize @Ls.Env.invCol K 𝔽 rows n t zcols = col at *
  refine ⟨dsq, ?_⟩
  -- the new column equals the new dense row
  have hcol : ∀ i, i ≤ s0 → @Ls.Env.vget K 𝔽 col i = Zd'.get s0 i := by
    by_cases hpz : @Ls.Env.Dget K 𝔽 rows s0 = 0
    · intro i hi
      rw [czero hpz i hi, (dzero (by rw [← hD]; exact hpz) i hi).1]
    · obtain ⟨c1, c2⟩ := cnz hpz
      obtain ⟨d1, d2⟩ := dnz (by rw [← hD]; exact hpz)
      have hdiag : @Ls.Env.vget K 𝔽 col s0 = Zd'.get s0 s0 := by
        rw [c1, d1, hD]
        congr 1
        refine sum_congr (by congr 1) fun m hm => ?_
        have hm' := mem_range.1 hm
        rw [h.L (s0 + 1 + m) s0 (by omega) (by omega),
          (hrel s0 (s0 + 1 + m) (by omega) (by omega) (by omega)).1]
      have hoff : ∀ k i, s0 - k ≤ i → i < s0 → @Ls.Env.vget K 𝔽 col i = Zd'.get s0 i := by
        intro k
        induction k with
        | zero => intro i a1 a2; omega
        | succ k ih =>
          intro i a1 a2
          rw [c2 i a2, (d2 i a2).1]
          congr 1
          refine sum_congr rfl fun m hm => ?_
          have hm' := mem_range.1 hm
          rw [h.L (i + 1 + m) i (by omega) (by omega)]
          congr 1
          by_cases hk : i + 1 + m ≤ s0
          · rw [if_pos hk]
            by_cases hke : i + 1 + m = s0
            · rw [hke]; exact hdiag
            · rw [ih (i + 1 + m) (by omega) (by omega)]
              exact ((d2 (i + 1 + m) (by omega)).2).symm
          · rw [if_neg hk, (hrel (i + 1 + m) s0 (by omega) (by omega) (by omega)).1]
            exact (dun _ _ (by omega)).symm
      intro i hi
      by_cases hie : i = s0
      · rw [hie]; exact hdiag
      · exact hoff s0 i (by omega) (by omega)
  have hsym : ∀ i, i ≤ s0 → Zd'.get i s0 = Zd'.get s0 i := by
    intro i hi
    by_cases hie : i = s0
    · rw [hie]
    · by_cases hpz : @Ls.Env.Dget K 𝔽 rows s0 = 0
      · obtain ⟨z1, z2⟩ := dzero (by rw [← hD]; exact hpz) i hi
        rw [z1, z2]
      · exact ((dnz (by rw [← hD]; exact hpz)).2 i (by omega)).2
  intro a b ha hb hmax
  rw [Zget_push n t zcols hsz]
  by_cases hcase : max a b = s0
  · rw [if_pos (by omega)]
    rcases Nat.le_total a b with hab | hab
    · have hb0 : b = s0 := by omega
      subst hb0
      rw [Nat.min_eq_left hab, hcol a hab]
      exact ⟨(hsym a hab).symm, (hsym a hab).symm⟩
    · have ha0 : a = s0 := by omega
      subst ha0
      rw [Nat.min_eq_right hab, hcol b hab]
      exact ⟨rfl, hsym b hab⟩
  · rw [if_neg (by omega)]
    obtain ⟨r1, r2⟩ := hrel a b ha hb (by omega)
    rw [dun a b (by omega), dun b a (by omega)]
    exact ⟨r1, r2⟩

/-- B3 : every cell of the functional `inverse` equals the dense reference -/
theorem ls_inverse_eq_dense' {rows : Array (Ls.Env.Row K)} {f : Dense.LDL K} {n : Nat} (h : LsRel rows f n)
    (i j : Nat) (hi : i < n) (hj : j < n) :
    @Ls.Env.zEntry K 𝔽 rows n i j = (Dense.inverse f n).get i j := by
  have key : ∀ t, t ≤ n →
      Square ((List.range t).foldl (fun Z t => dStep f n Z (n - 1 - t))
        (Array.replicate n (Array.replicate n 0))) n ∧
      ZRel n t (Ls.Env.build (@Ls.Env.invCol K 𝔽 rows n) t)
        ((List.range t).foldl (fun Z t => dStep f n Z (n - 1 - t))
          (Array.replicate n (Array.replicate n 0))) := by
    intro t
    induction t with
    | zero =>
      intro _
      refine ⟨⟨by simp, ?_⟩, ?_⟩
      · intro r hr
        show ((Array.replicate n (Array.replicate n (0:K))).getD r #[]).size = n
        rw [getD_replicate, if_pos hr, Array.size_replicate]
      · intro a b ha hb hmax
        omega
    | succ t ih =>
      intro ht
      obtain ⟨hsq, hrel⟩ := ih (by omega)
      rw [List.range_succ, List.foldl_append]
      simp only [List.foldl_cons, List.foldl_nil]
      exact zrel_step h t (by omega) _ (Ls.Env.build_size _ t) _ hsq hrel
  obtain ⟨_, hrel⟩ := key n (Nat.le_refl n)
  rw [dense_inverse_eq]
  exact (hrel i j hi hj (by omega)).1

/-! ### B4 (rest) : packed `solve` / `inverse` = functional `solve` / `zEntry` -/

theorem packed_solve_eq_ls' {E : Env K} (hE : E.ProfileOK) (N : Dense K) (tol : K) (htol : 0 < tol)
    (hN : ∀ i j, 1 ≤ j → j ≤ i → i ≤ E.dim → E.entry i j = N.get (i - 1) (j - 1))
    (b : Array K) (hb : b.size = E.dim) :
    (E.cholDec tol).solve b E.dim =
      @Ls.Env.solve K 𝔽 (@Ls.Env.ldl K 𝔽 (fnOf N) tol E.dim) E.dim (fun i => b.getD i 0) := by
  obtain ⟨hR, _⟩ := cholDec_refines' hE N tol htol hN
  obtain ⟨hrel, _, _⟩ := ls_ldl_eq_dense' N tol E.dim
  rw [solve_refines' hR b hb, ls_solve_eq_dense' hrel b]

theorem packed_inverse_eq_ls' {E : Env K} (hE : E.ProfileOK) (N : Dense K) (tol : K) (htol : 0 < tol)
    (hN : ∀ i j, 1 ≤ j → j ≤ i → i ≤ E.dim → E.entry i j = N.get (i - 1) (j - 1))
    (i j : Nat) (hj : 1 ≤ j) (hji : j ≤ i) (hi : i ≤ E.dim) (hprof : i - j ≤ E.width i) :
    (E.cholDec tol).inverse.entry i j =
      @Ls.Env.zEntry K 𝔽 (@Ls.Env.ldl K 𝔽 (fnOf N) tol E.dim) E.dim (i - 1) (j - 1) := by
  obtain ⟨hR, _⟩ := cholDec_refines' hE N tol htol hN
  obtain ⟨hrel, _, _⟩ := ls_ldl_eq_dense' N tol E.dim
  obtain ⟨_, hx, _⟩ := cholDec_profileOK' hE tol
  have hw : (E.cholDec tol).width i = E.width i := by
    simp [Env.width, Env.rowEnd, Env.rowBegin, hx]
  rw [inverse_refines' hR i j hj hji hi (by rw [hw]; exact hprof),
    ls_inverse_eq_dense' hrel (i - 1) (j - 1) (by omega) (by omega)]

/-! ### B5 : the normal matrices -/

/-- `At` is the dense matrix of the sparse `A` (0-based; duplicates in a sparse row add up) -/
def IsDenseOf (A : SMat K) (At : Ls.DMat K) : Prop :=
  ∀ r v, 1 ≤ r → r ≤ A.rows → 1 ≤ v → v ≤ A.cols →
    @Ls.Env.mget K 𝔽 At (r - 1) (v - 1) =
      Dense.sum (((A.rowRange r).filter fun q => A.cind[q]! == v).map fun q => A.nonz.getD q 0)

/-- the canonical dense matrix of a sparse matrix -/
def denseOf (A : SMat K) : Ls.DMat K :=
  Array.ofFn (n := A.rows) fun r => Array.ofFn (n := A.cols) fun c =>
    Dense.sum (((A.rowRange (r.1 + 1)).filter fun q => A.cind[q]! == c.1 + 1).map fun q => A.nonz.getD q 0)

theorem denseOf_isDenseOf (A : SMat K) : IsDenseOf A (denseOf A) := by
  intro r v hr1 hr2 hv1 hv2
  unfold Ls.Env.mget Ls.Env.vget denseOf
  rw [getD_ofFn, dif_pos (by omega), getD_ofFn, dif_pos (by omega)]
  simp only [show r - 1 + 1 = r by omega, show v - 1 + 1 = v by omega]

/-- a coefficient of the permuted sparse matrix is an entry of the dense matrix with permuted
    columns -/
theorem coeff_eq_mget (A : SMat K) (o : SOrdering) (hperm : o.IsPerm A.cols)
    (hcols : ∀ r, 1 ≤ r → r ≤ A.rows → ∀ q ∈ A.rowRange r, 1 ≤ A.cind[q]! ∧ A.cind[q]! ≤ A.cols)
    (At : Ls.DMat K) (hAt : IsDenseOf A At) (r i : Nat) (hr1 : 1 ≤ r) (hr2 : r ≤ A.rows) (hi : i < A.cols) :
    Dense.coeff A o.invp r (i + 1) = @Ls.Env.mget K 𝔽 At (r - 1) (o.perm[i + 1]! - 1) := by
  obtain ⟨hp1, hp2⟩ := hperm.perm_range (i + 1) (by omega) (by omega)
  rw [hAt r (o.perm[i + 1]!) hr1 hr2 hp1 hp2]
  unfold Dense.coeff
  congr 2
  apply List.filter_congr
  intro q hq
  obtain ⟨hc1, hc2⟩ := hcols r hr1 hr2 q hq
  have h1 : o.invp[A.cind[q]!]! = i + 1 ↔ A.cind[q]! = o.perm[i + 1]! := by
    constructor
    · intro h
      have := hperm.perm_invp (A.cind[q]!) hc1 hc2
      rw [h] at this
      exact this.symm
    · intro h
      rw [h]
      exact hperm.invp_perm (i + 1) (by omega) (by omega)
  by_cases h : A.cind[q]! = o.perm[i + 1]!
  · have h' := h1.mpr h
    rw [beq_iff_eq.mpr h', beq_iff_eq.mpr h]
  · have h' : ¬ o.invp[A.cind[q]!]! = i + 1 := fun hh => h (h1.mp hh)
    rw [beq_eq_false_iff_ne.mpr h', beq_eq_false_iff_ne.mpr h]

/-- B5 : the normal matrix assembled from the sparse rows (`Dense.normal`, what the packed
    `Envelope::set` represents) is `ÃᵀÃ` of the dense matrix with permuted columns (what
    `Ls.Env.factor` factorises), for the 0-based ordering `perm0 i = perm[i+1] - 1` -/
theorem normal_eq_ls' (A : SMat K) (o : SOrdering) (hperm : o.IsPerm A.cols)
    (hcols : ∀ r, 1 ≤ r → r ≤ A.rows → ∀ q ∈ A.rowRange r, 1 ≤ A.cind[q]! ∧ A.cind[q]! ≤ A.cols)
    (At : Ls.DMat K) (hAt : IsDenseOf A At) (perm0 : Array Nat)
    (hp0 : ∀ i, i < A.cols → perm0.getD i 0 = o.perm[i + 1]! - 1)
    (i j : Nat) (hi : i < A.cols) (hj : j < A.cols) :
    (Dense.normal A o.invp A.cols).get i j =
      @Ls.Env.sumTo K 𝔽 A.rows (fun r => @Ls.Env.mget K 𝔽 At r (perm0.getD i 0) *
        @Ls.Env.mget K 𝔽 At r (perm0.getD j 0)) := by
  unfold Dense.normal Dense.get
  rw [getD_ofFn, dif_pos hi, getD_ofFn, dif_pos hj, Ls.Env.sumTo_eq, List.range'_eq_map_range,
    List.map_map, dsum_map_range]
  refine sum_congr rfl fun r hr => ?_
  have hr' := mem_range.1 hr
  simp only [Function.comp]
  rw [coeff_eq_mget A o hperm hcols At hAt (1 + r) i (by omega) (by omega) hi,
    coeff_eq_mget A o hperm hcols At hAt (1 + r) j (by omega) (by omega) hj, hp0 i hi, hp0 j hj]
  simp only [Nat.add_sub_cancel_left]

end

/-! ### the same statements with explicit `Scalar` structures:
    `Gama.fieldScalar sq` for the functional model, `ordFieldScalar K sq` for `Dense` / `Env` -/

section Explicit
variable {K : Type} [Field K] [LinearOrder K] [IsStrictOrderedRing K]

/-- `LsRel` with the square-root function explicit -/
def LsRelWith (sq : K → K) (rows : Array (Ls.Env.Row K)) (f : Dense.LDL K) (n : Nat) : Prop :=
  @LsRel K _ _ ⟨sq⟩ rows f n

/-- B1 -/
theorem ls_ldl_eq_dense (sq : K → K) (N : Dense K) (tol : K) (n : Nat) :
    (∀ i j, j < i → i < n →
      @Ls.Env.Lget K (Gama.fieldScalar sq)
        (@Ls.Env.ldl K (Gama.fieldScalar sq) (fun i j => @Dense.get K (ordFieldScalar K sq) N i j) tol n) i j =
      @Dense.get K (ordFieldScalar K sq) (@Dense.ldl K (ordFieldScalar K sq) tol N n).L i j) ∧
    (∀ i, i < n →
      @Ls.Env.Dget K (Gama.fieldScalar sq)
        (@Ls.Env.ldl K (Gama.fieldScalar sq) (fun i j => @Dense.get K (ordFieldScalar K sq) N i j) tol n) i =
      (@Dense.ldl K (ordFieldScalar K sq) tol N n).D.getD i 0) ∧
    Ls.Env.defectOf (@Ls.Env.ldl K (Gama.fieldScalar sq) (fun i j => @Dense.get K (ordFieldScalar K sq) N i j) tol n) =
      (@Dense.ldl K (ordFieldScalar K sq) tol N n).defect ∧
    (@Ls.Env.ldl K (Gama.fieldScalar sq) (fun i j => @Dense.get K (ordFieldScalar K sq) N i j) tol n).size = n ∧
    LsRelWith sq (@Ls.Env.ldl K (Gama.fieldScalar sq) (fun i j => @Dense.get K (ordFieldScalar K sq) N i j) tol n)
      (@Dense.ldl K (ordFieldScalar K sq) tol N n) n := by
  obtain ⟨hrel, hdef, hsz⟩ := @ls_ldl_eq_dense' K _ _ _ ⟨sq⟩ N tol n
  exact ⟨@LsRel.L K _ _ ⟨sq⟩ _ _ _ hrel, @LsRel.D K _ _ ⟨sq⟩ _ _ _ hrel, hdef, hsz, hrel⟩

/-- B2 -/
theorem ls_solve_eq_dense (sq : K → K) {rows : Array (Ls.Env.Row K)} {f : Dense.LDL K} {n : Nat}
    (h : LsRelWith sq rows f n) (b : Array K) :
    @Ls.Env.solve K (Gama.fieldScalar sq) rows n (fun i => b.getD i 0) =
      @Dense.solve K (ordFieldScalar K sq) f n b :=
  @ls_solve_eq_dense' K _ _ _ ⟨sq⟩ rows f n h b

/-- B3 -/
theorem ls_inverse_eq_dense (sq : K → K) {rows : Array (Ls.Env.Row K)} {f : Dense.LDL K} {n : Nat}
    (h : LsRelWith sq rows f n) (i j : Nat) (hi : i < n) (hj : j < n) :
    @Ls.Env.zEntry K (Gama.fieldScalar sq) rows n i j =
      @Dense.get K (ordFieldScalar K sq) (@Dense.inverse K (ordFieldScalar K sq) f n) i j :=
  @ls_inverse_eq_dense' K _ _ _ ⟨sq⟩ rows f n h i j hi hj

/-- B4 : the packed factorisation is the functional model's factorisation -/
theorem packed_ldl_eq_ls (sq : K → K) {E : Env K} (hE : E.ProfileOK) (N : Dense K) (tol : K) (htol : 0 < tol)
    (hN : ∀ i j, 1 ≤ j → j ≤ i → i ≤ E.dim →
      @Env.entry K (ordFieldScalar K sq) E i j = @Dense.get K (ordFieldScalar K sq) N (i - 1) (j - 1)) :
    (∀ i j, 1 ≤ j → j < i → i ≤ E.dim →
      @Env.entry K (ordFieldScalar K sq) (@Env.cholDec K (ordFieldScalar K sq) E tol) i j =
      @Ls.Env.Lget K (Gama.fieldScalar sq)
        (@Ls.Env.ldl K (Gama.fieldScalar sq) (fun i j => @Dense.get K (ordFieldScalar K sq) N i j) tol E.dim)
        (i - 1) (j - 1)) ∧
    (∀ i, 1 ≤ i → i ≤ E.dim →
      @Env.diagonal K (ordFieldScalar K sq) (@Env.cholDec K (ordFieldScalar K sq) E tol) i =
      @Ls.Env.Dget K (Gama.fieldScalar sq)
        (@Ls.Env.ldl K (Gama.fieldScalar sq) (fun i j => @Dense.get K (ordFieldScalar K sq) N i j) tol E.dim)
        (i - 1)) ∧
    (@Env.cholDec K (ordFieldScalar K sq) E tol).defect =
      Ls.Env.defectOf
        (@Ls.Env.ldl K (Gama.fieldScalar sq) (fun i j => @Dense.get K (ordFieldScalar K sq) N i j) tol E.dim) :=
  @packed_ldl_eq_ls' K _ _ _ ⟨sq⟩ E hE N tol htol hN

/-- B4 : the packed `solve` is the functional model's `solve` -/
theorem packed_solve_eq_ls (sq : K → K) {E : Env K} (hE : E.ProfileOK) (N : Dense K) (tol : K) (htol : 0 < tol)
    (hN : ∀ i j, 1 ≤ j → j ≤ i → i ≤ E.dim →
      @Env.entry K (ordFieldScalar K sq) E i j = @Dense.get K (ordFieldScalar K sq) N (i - 1) (j - 1))
    (b : Array K) (hb : b.size = E.dim) :
    @Env.solve K (ordFieldScalar K sq) (@Env.cholDec K (ordFieldScalar K sq) E tol) b E.dim =
      @Ls.Env.solve K (Gama.fieldScalar sq)
        (@Ls.Env.ldl K (Gama.fieldScalar sq) (fun i j => @Dense.get K (ordFieldScalar K sq) N i j) tol E.dim)
        E.dim (fun i => b.getD i 0) :=
  @packed_solve_eq_ls' K _ _ _ ⟨sq⟩ E hE N tol htol hN b hb

/-- B4 : inside the profile the packed `inverse` is the functional model's `zEntry` -/
theorem packed_inverse_eq_ls (sq : K → K) {E : Env K} (hE : E.ProfileOK) (N : Dense K) (tol : K) (htol : 0 < tol)
    (hN : ∀ i j, 1 ≤ j → j ≤ i → i ≤ E.dim →
      @Env.entry K (ordFieldScalar K sq) E i j = @Dense.get K (ordFieldScalar K sq) N (i - 1) (j - 1))
    (i j : Nat) (hj : 1 ≤ j) (hji : j ≤ i) (hi : i ≤ E.dim) (hprof : i - j ≤ E.width i) :
    @Env.entry K (ordFieldScalar K sq)
        (@Env.inverse K (ordFieldScalar K sq) (@Env.cholDec K (ordFieldScalar K sq) E tol)) i j =
      @Ls.Env.zEntry K (Gama.fieldScalar sq)
        (@Ls.Env.ldl K (Gama.fieldScalar sq) (fun i j => @Dense.get K (ordFieldScalar K sq) N i j) tol E.dim)
        E.dim (i - 1) (j - 1) :=
  @packed_inverse_eq_ls' K _ _ _ ⟨sq⟩ E hE N tol htol hN i j hj hji hi hprof

/-- `IsDenseOf` with the square-root function explicit -/
def IsDenseOfWith (sq : K → K) (A : SMat K) (At : Ls.DMat K) : Prop := @IsDenseOf K _ _ ⟨sq⟩ A At

theorem denseOf_isDenseOfWith (sq : K → K) (A : SMat K) :
    IsDenseOfWith sq A (@denseOf K _ _ ⟨sq⟩ A) := @denseOf_isDenseOf K _ _ _ ⟨sq⟩ A

/-- B5 -/
theorem normal_eq_ls (sq : K → K) (A : SMat K) (o : SOrdering) (hperm : o.IsPerm A.cols)
    (hcols : ∀ r, 1 ≤ r → r ≤ A.rows → ∀ q ∈ A.rowRange r, 1 ≤ A.cind[q]! ∧ A.cind[q]! ≤ A.cols)
    (At : Ls.DMat K) (hAt : IsDenseOfWith sq A At) (perm0 : Array Nat)
    (hp0 : ∀ i, i < A.cols → perm0.getD i 0 = o.perm[i + 1]! - 1)
    (i j : Nat) (hi : i < A.cols) (hj : j < A.cols) :
    @Dense.get K (ordFieldScalar K sq) (@Dense.normal K (ordFieldScalar K sq) A o.invp A.cols) i j =
      @Ls.Env.sumTo K (Gama.fieldScalar sq) A.rows (fun r =>
        @Ls.Env.mget K (Gama.fieldScalar sq) At r (perm0.getD i 0) *
        @Ls.Env.mget K (Gama.fieldScalar sq) At r (perm0.getD j 0)) :=
  @normal_eq_ls' K _ _ _ ⟨sq⟩ A o hperm hcols At hAt perm0 hp0 i j hi hj

end Explicit
end EnvLsBridge
end Gama
