/-
  PE — glue definitions used by the statements of `Props/C01/ProjectEquations.lean` (Props files hold theorems
  and examples only).
    * `orisOf`       the orientation records the XML writer builds from `unknowns_` (C12's `Ori`)
    * `TrigFns`, `trigOfField`   the carrier of the C01 façade theorems (`scalarOfField`) with arbitrary
                     trigonometric functions: no structural fact about `project_equations()` depends on them
-/
import Gama.Model.ProjectEquations
import Gama.Model.CovBand
import Gama.Lemmas.Ls.CholScalar
namespace Gama.PE
open Gama Gama.Lin Gama.NetDecision

/-- the orientation records the XML writer builds from `unknowns_`: number `i` (`unknown_type(i) == 'R'`) and
    `unknown_standpoint(i)->index_orientation()` -/
def orisOf {K : Type} (u : Unknowns K) : List CovBand.Ori :=
  u.list.zipIdx.filterMap fun ej => match ej.1 with
    | some ⟨_, .R, some k⟩ => some ⟨ej.2 + 1, u.net.idx.get ⟨k, .ori⟩⟩
    | _ => none

/-- the trigonometric functions the linearisation is run with -/
structure TrigFns (K : Type) where
  sin : K → K
  cos : K → K
  atan2 : K → K → K
  acos : K → K
  pi : K

/-- the carrier of the façade theorems (`scalarOfField`) with trigonometric functions -/
@[reducible] def trigOfField {K : Type} [Field K] [LinearOrder K] [Ls.SqrtFn K] (t : TrigFns K) : TrigScalar K :=
  { toScalar := Ls.scalarOfField, sin := t.sin, cos := t.cos, atan2 := t.atan2, acos := t.acos, pi := t.pi }

end Gama.PE
