/-
  C13 — `Obs.WF` of what `process_distance/direction/angle/sdistance/zangle/azimuth` return (round 3b left it open:
  "one case analysis per kind"): every observation `parseObsV` accepts has non-empty `from` / `to`, an `fs` exactly when it
  is an angle, and `fs_dh = 0` otherwise — the observation part of `Net.WF` IS established by the parser.
-/
import Gama.Model.Export
import Mathlib.Tactic.Common
namespace Gama.Export
open Gama.Gen.GkfAttrs

variable {K : Type}

theorem parseObsV_wf (F : NumFmt K) (rdVal : String → Option K) (cf : String) (cdh impl : K) (k : Kind) (as : Attrs)
    (o : Obs K) (h : parseObsV F rdVal cf cdh impl k as = .ok o) : o.WF F ∧ o.kind = k := by
  unfold parseObsV at h
  simp only [bind, Except.bind, pure, Except.pure, throw, throwThe, MonadExceptOf.throw] at h
  by_cases hk : k = .angle
  · subst hk
    simp only [if_true, true_and] at h
    repeat' split at h
    all_goals first | (cases h; done) | skip
    all_goals
      simp only [Except.ok.injEq] at h
      subst h
      refine ⟨⟨?_, ?_, ?_, ?_⟩, rfl⟩ <;> simp_all
  · simp only [hk, if_false, false_and] at h
    repeat' split at h
    all_goals first | (cases h; done) | skip
    all_goals
      simp only [Except.ok.injEq] at h
      subst h
      refine ⟨⟨?_, ?_, ?_, ?_⟩, rfl⟩ <;> simp_all

end Gama.Export
