/-
  C06 — Circle::calculation and the three compound primitives built on it (Direction_angle, Distance_angle,
  Angle_angle): the inscribed-angle identity and exactness on data derived from a true point.
  The bearing of the model is identified with C05's `Lin.brg` (Gama/Lemmas/LinReal.lean) to obtain
  sin/cos of atan2.
-/
import Gama.Lemmas.C06Cogo
import Gama.Lemmas.C06Median
import Gama.Lemmas.LinReal
open Gama Gama.Cogo Gama.C06R
namespace Gama.C06L

/-- the inscribed-angle identity in polynomial form -/
theorem circle_alg (c1 s1 c2 s2 r1 r2 : ℝ) (h1 : s1 ^ 2 + c1 ^ 2 = 1) (h2 : s2 ^ 2 + c2 ^ 2 = 1) :
    (-2 * (s2 * c1 - c2 * s1) * r1 * c1 + (r2 * s2 - r1 * s1) * (c2 * c1 + s2 * s1)
        - (r2 * c2 - r1 * c1) * (s2 * c1 - c2 * s1)) ^ 2 +
    (-2 * (s2 * c1 - c2 * s1) * r1 * s1 - (r2 * c2 - r1 * c1) * (c2 * c1 + s2 * s1)
        - (r2 * s2 - r1 * s1) * (s2 * c1 - c2 * s1)) ^ 2 =
    (r2 * c2 - r1 * c1) ^ 2 + (r2 * s2 - r1 * s1) ^ 2 := by
  linear_combination
    (c1^2*c2^2*r1^2 + c1^2*r1^2*s2^2 - 2*c1*c2^3*r1*r2 - 2*c1*c2*r1*r2*s2^2 + c2^4*r2^2 + c2^2*r1^2*s1^2
      + c2^2*r1^2 - 2*c2^2*r1*r2*s1*s2 + 2*c2^2*r2^2*s2^2 + r1^2*s1^2*s2^2 + r1^2*s2^2 - r1^2
      - 2*r1*r2*s1*s2^3 + r2^2*s2^4) * h1 +
    (-2*c1*c2*r1*r2 + c2^2*r2^2 + r1^2 - 2*r1*r2*s1*s2 + r2^2*s2^2) * h2

/-- centre of the circle through B1, B2 seen from X under the angle u: X is at distance |rr| from it -/
theorem circle_center_alg (c1 s1 c2 s2 r1 r2 d S Cm su cu : ℝ)
    (h1 : s1 ^ 2 + c1 ^ 2 = 1) (h2 : s2 ^ 2 + c2 ^ 2 = 1)
    (hsu : su = s2 * c1 - c2 * s1) (hcu : cu = c2 * c1 + s2 * s1) (hne : su ≠ 0)
    (hC : d * Cm = r2 * c2 - r1 * c1) (hS : d * S = r2 * s2 - r1 * s1) (hSC : S ^ 2 + Cm ^ 2 = 1) :
    (-(r1 * c1) + d / su / 2 * (S * cu - Cm * su)) ^ 2 + (-(r1 * s1) - d / su / 2 * (Cm * cu + S * su)) ^ 2
      = (d / su / 2) ^ 2 := by
  have e1 : -(r1 * c1) + d / su / 2 * (S * cu - Cm * su)
      = (-2 * su * r1 * c1 + (d * S) * cu - (d * Cm) * su) / (2 * su) := by field_simp; ring
  have e2 : -(r1 * s1) - d / su / 2 * (Cm * cu + S * su)
      = (-2 * su * r1 * s1 - (d * Cm) * cu - (d * S) * su) / (2 * su) := by field_simp; ring
  have e3 : (d / su / 2) ^ 2 = ((d * Cm) ^ 2 + (d * S) ^ 2) / (2 * su) ^ 2 := by
    have : (d * Cm) ^ 2 + (d * S) ^ 2 = d ^ 2 := by
      have : (d * Cm) ^ 2 + (d * S) ^ 2 = d ^ 2 * (S ^ 2 + Cm ^ 2) := by ring
      rw [this, hSC]; ring
    rw [this]; field_simp
  rw [e1, e2, e3, hC, hS, div_pow, div_pow, ← add_div]
  congr 1
  have := circle_alg c1 s1 c2 s2 r1 r2 h1 h2
  rw [hsu, hcu]
  linarith [this]


theorem win_eq : (win : ℝ) = 1 / 10 := by simp [win, Scalar.ofSci]

/-- bearing_distance outside its 1e-6 cut: the bearing is C05's `brg`, the distance the Euclidean one -/
theorem bearingDistance_spec (ya xa yb xb : ℝ)
    (h : ¬ Real.sqrt ((yb - ya) * (yb - ya) + (xb - xa) * (xb - xa)) < 1 / 10 ^ 6) :
    bearingDistance ya xa yb xb =
      (Lin.brg (xb - xa) (yb - ya), Real.sqrt ((yb - ya) * (yb - ya) + (xb - xa) * (xb - xa))) := by
  unfold bearingDistance
  simp only [sub_eq, mul_eq, add_eq, sqrt_eq, lt_eq, tiny_eq, h, if_false, atan2_eq, le_eq, zero_eq, twoPi_eq,
    Lin.brg]

/-- polar form of the vector p → q through the model's bearing -/
theorem bearing_polar (p q : Pt ℝ)
    (h : ¬ Real.sqrt ((q.y - p.y) * (q.y - p.y) + (q.x - p.x) * (q.x - p.x)) < 1 / 10 ^ 6) :
    q.x = p.x + Real.sqrt ((q.y - p.y) * (q.y - p.y) + (q.x - p.x) * (q.x - p.x)) * Real.cos (bearing p q) ∧
    q.y = p.y + Real.sqrt ((q.y - p.y) * (q.y - p.y) + (q.x - p.x) * (q.x - p.x)) * Real.sin (bearing p q) := by
  unfold bearing
  rw [bearingDistance_spec _ _ _ _ h]
  obtain ⟨hx, hy⟩ := Lin.isPolarAngle_brg (q.x - p.x) (q.y - p.y)
  have e : (q.x - p.x) * (q.x - p.x) + (q.y - p.y) * (q.y - p.y)
      = (q.y - p.y) * (q.y - p.y) + (q.x - p.x) * (q.x - p.x) := by ring
  rw [e] at hx hy
  constructor <;> linarith

/-- Circle::calculation: X sees B1, B2 under the (inner) angle u ≡ β2 − β1; the returned circle passes through X -/
theorem circle_exact (B1 B2 X : Pt ℝ) (u sal r1 r2 β1 β2 : ℝ)
    (hb1x : B1.x = X.x + r1 * Real.cos β1) (hb1y : B1.y = X.y + r1 * Real.sin β1)
    (hb2x : B2.x = X.x + r2 * Real.cos β2) (hb2y : B2.y = X.y + r2 * Real.sin β2)
    (hsu : Real.sin u = Real.sin (β2 - β1)) (hcu : Real.cos u = Real.cos (β2 - β1))
    (hd : ¬ Real.sqrt ((B2.y - B1.y) * (B2.y - B1.y) + (B2.x - B1.x) * (B2.x - B1.x)) < 1 / 10 ^ 6)
    (hsal : 0 < sal) (hsm : ¬ |Real.sin u| < sal) :
    ∃ C R, circle B1 B2 u sal = (some (C, R), false) ∧ (X.x - C.x) ^ 2 + (X.y - C.y) ^ 2 = R ^ 2 ∧ 0 < R := by
  set d := Real.sqrt ((B2.y - B1.y) * (B2.y - B1.y) + (B2.x - B1.x) * (B2.x - B1.x)) with hdd
  have hdpos : 0 < d := lt_of_lt_of_le (by positivity) (not_lt.mp hd)
  have hsune : Real.sin u ≠ 0 := by
    intro e; rw [e, abs_zero] at hsm; exact hsm hsal
  have hbd := bearingDistance_spec B1.y B1.x B2.y B2.x hd
  rw [← hdd] at hbd
  set sm := Lin.brg (B2.x - B1.x) (B2.y - B1.y) with hsm'
  obtain ⟨hpx, hpy⟩ := bearing_polar B1 B2 hd
  have hbrg : bearing B1 B2 = sm := by unfold bearing; rw [hbd]
  rw [hbrg, ← hdd] at hpx hpy
  have hbeq : Scalar.beq d 0 = false := by
    rw [Bool.eq_false_iff]; intro h; rw [beq_eq] at h; exact hdpos.ne' h
  refine ⟨⟨B1.x - d / Real.sin u / 2 * Real.sin (sm - u), B1.y + d / Real.sin u / 2 * Real.cos (sm - u)⟩,
    |d / Real.sin u / 2|, ?_, ?_, ?_⟩
  · unfold circle
    simp only [abs_eq, sin_eq, lt_eq, hsm, if_false, hbd, hbeq, Bool.false_eq_true, div_eq, two_eq, sub_eq,
      mul_eq, add_eq, cos_eq]
  · simp only
    rw [sq_abs, Real.sin_sub, Real.cos_sub]
    have := circle_center_alg (Real.cos β1) (Real.sin β1) (Real.cos β2) (Real.sin β2) r1 r2 d
      (Real.sin sm) (Real.cos sm) (Real.sin u) (Real.cos u)
      (Real.sin_sq_add_cos_sq β1) (Real.sin_sq_add_cos_sq β2)
      (by rw [hsu, Real.sin_sub]) (by rw [hcu, Real.cos_sub]) hsune
      (by linarith) (by linarith) (Real.sin_sq_add_cos_sq sm)
    rw [← this]
    rw [hb1x, hb1y]; ring
  · exact abs_pos.mpr (by positivity)


/-- squared-distance guard in the form used by the statements -/
def Far (p q : Pt ℝ) : Prop :=
  ¬ Real.sqrt ((q.y - p.y) * (q.y - p.y) + (q.x - p.x) * (q.x - p.x)) < 1 / 10 ^ 6

theorem angleOk_self (a : ℝ) : angleOk a a = true := by
  unfold angleOk
  simp only [lt_eq, add_eq, sub_eq, win_eq]
  have h1 : a < a + 1 / 10 := by linarith
  have h2 : a - 1 / 10 < a := by linarith
  simp [h1, h2]

theorem sin_innerAngle (X B1 B2 : Pt ℝ) :
    Real.sin (innerAngle X B1 B2) = Real.sin (bearing X B2 - bearing X B1) ∧
    Real.cos (innerAngle X B1 B2) = Real.cos (bearing X B2 - bearing X B1) := by
  unfold innerAngle
  simp only [sub_eq, add_eq, lt_eq, zero_eq, twoPi_eq]
  split_ifs
  · exact ⟨Real.sin_add_two_pi _, Real.cos_add_two_pi _⟩
  · simp

/-- the circle through B1, B2 for the inner angle observed at X passes through X -/
theorem circle_of_obs (B1 B2 X : Pt ℝ) (sal : ℝ) (h1 : Far X B1) (h2 : Far X B2) (h12 : Far B1 B2)
    (hsal : 0 < sal) (hsm : ¬ |Real.sin (innerAngle X B1 B2)| < sal) :
    ∃ C R, circle B1 B2 (innerAngle X B1 B2) sal = (some (C, R), false) ∧
      (X.x - C.x) ^ 2 + (X.y - C.y) ^ 2 = R ^ 2 ∧ 0 < R := by
  obtain ⟨hb1x, hb1y⟩ := bearing_polar X B1 h1
  obtain ⟨hb2x, hb2y⟩ := bearing_polar X B2 h2
  obtain ⟨hs, hc⟩ := sin_innerAngle X B1 B2
  exact circle_exact B1 B2 X _ sal _ _ _ _ hb1x hb1y hb2x hb2y hs hc h12 hsal hsm

/-- X is one of the two Distance_distance solutions -/
theorem distDist_mem (B1 B2 X : Pt ℝ) (r1 r2 sal : ℝ)
    (hne : (B2.x - B1.x) ^ 2 + (B2.y - B1.y) ^ 2 ≠ 0) (hr1 : 0 ≤ r1) (hr2 : 0 ≤ r2)
    (h1 : r1 ^ 2 = (X.x - B1.x) ^ 2 + (X.y - B1.y) ^ 2)
    (h2 : r2 ^ 2 = (X.x - B2.x) ^ 2 + (X.y - B2.y) ^ 2)
    (hs : (distDist B1 B2 r1 r2 sal).small = false) : X ∈ (distDist B1 B2 r1 r2 sal).sols := by
  obtain ⟨ha, hb, hc⟩ := distDist_exact B1 B2 X r1 r2 sal hne hr1 hr2 h1 h2 hs
  rcases lt_trichotomy (across B1 B2 X) 0 with h | h | h
  · rw [hb h]; simp
  · rw [hc h]; simp
  · rw [ha h]; simp

theorem dirAngle_exact (S B1 B2 X : Pt ℝ) (h1 t sal : ℝ)
    (hf1 : Far X B1) (hf2 : Far X B2) (hf12 : Far B1 B2) (hsal : 0 < sal)
    (hsm : ¬ |Real.sin (innerAngle X B1 B2)| < sal)
    (ht : 1 / 10 ^ 6 < t)
    (hx : X.x = S.x + t * Real.cos h1) (hy : X.y = S.y + t * Real.sin h1)
    (hs : (dirAngle S h1 B1 B2 (innerAngle X B1 B2) sal).small = false) :
    X ∈ (dirAngle S h1 B1 B2 (innerAngle X B1 B2) sal).sols := by
  obtain ⟨C, R, hc, hR, hRpos⟩ := circle_of_obs B1 B2 X sal hf1 hf2 hf12 hsal hsm
  unfold dirAngle at hs ⊢
  rw [hc] at hs ⊢
  simp only at hs ⊢
  have hmem := dirDist_exact S C X h1 t R sal ht hRpos hx hy hR.symm hs
  unfold keepByAngle
  rw [List.mem_filter]
  exact ⟨hmem, angleOk_self _⟩

theorem distAngle_exact (BB B1 B2 X : Pt ℝ) (dd1 sal : ℝ)
    (hf1 : Far X B1) (hf2 : Far X B2) (hf12 : Far B1 B2) (hsal : 0 < sal)
    (hsm : ¬ |Real.sin (innerAngle X B1 B2)| < sal)
    (hdd0 : 0 ≤ dd1) (hdd : dd1 ^ 2 = (X.x - BB.x) ^ 2 + (X.y - BB.y) ^ 2)
    (hcen : ∀ C R, circle B1 B2 (innerAngle X B1 B2) sal = (some (C, R), false) →
        (C.x - BB.x) ^ 2 + (C.y - BB.y) ^ 2 ≠ 0)
    (hs : (distAngle BB dd1 B1 B2 (innerAngle X B1 B2) sal).small = false) :
    X ∈ (distAngle BB dd1 B1 B2 (innerAngle X B1 B2) sal).sols := by
  obtain ⟨C, R, hc, hR, hRpos⟩ := circle_of_obs B1 B2 X sal hf1 hf2 hf12 hsal hsm
  have hne := hcen C R hc
  unfold distAngle at hs ⊢
  rw [hc] at hs ⊢
  simp only at hs ⊢
  have hmem := distDist_mem BB C X dd1 R sal hne hdd0 hRpos.le hdd hR.symm hs
  unfold keepByAngle
  rw [List.mem_filter]
  exact ⟨hmem, angleOk_self _⟩

theorem far_ne (X B : Pt ℝ) (h : Far X B) : ptBeq B X = false := by
  unfold ptBeq
  rw [Bool.eq_false_iff]
  intro hb
  simp only [Bool.and_eq_true, beq_eq] at hb
  apply h
  rw [hb.1, hb.2]; simp

theorem angleAngle_exact (B1 B2 B3 B4 X : Pt ℝ) (sal : ℝ)
    (hf1 : Far X B1) (hf2 : Far X B2) (hf12 : Far B1 B2)
    (hf3 : Far X B3) (hf4 : Far X B4) (hf34 : Far B3 B4) (hsal : 0 < sal)
    (hsm1 : ¬ |Real.sin (innerAngle X B1 B2)| < sal) (hsm2 : ¬ |Real.sin (innerAngle X B3 B4)| < sal)
    (hcen : ∀ C1 R1 C2 R2, circle B1 B2 (innerAngle X B1 B2) sal = (some (C1, R1), false) →
        circle B3 B4 (innerAngle X B3 B4) sal = (some (C2, R2), false) →
        (C2.x - C1.x) ^ 2 + (C2.y - C1.y) ^ 2 ≠ 0)
    (hs : (angleAngle B1 B2 (innerAngle X B1 B2) B3 B4 (innerAngle X B3 B4) sal).small = false) :
    X ∈ (angleAngle B1 B2 (innerAngle X B1 B2) B3 B4 (innerAngle X B3 B4) sal).sols := by
  obtain ⟨C1, R1, hc1, hR1, hR1pos⟩ := circle_of_obs B1 B2 X sal hf1 hf2 hf12 hsal hsm1
  obtain ⟨C2, R2, hc2, hR2, hR2pos⟩ := circle_of_obs B3 B4 X sal hf3 hf4 hf34 hsal hsm2
  have hne := hcen C1 R1 C2 R2 hc1 hc2
  unfold angleAngle at hs ⊢
  rw [hc1, hc2] at hs ⊢
  simp only at hs ⊢
  have hmem := distDist_mem C1 C2 X R1 R2 sal hne hR1pos.le hR2pos.le hR1.symm hR2.symm hs
  rw [List.mem_filter]
  refine ⟨hmem, ?_⟩
  simp [far_ne X B1 hf1, far_ne X B2 hf2, angleOk_self]

end Gama.C06L
