/-
  The world of `Gama.NetDecision` derived from a solver (`Model/NetWorld.lean`): the hypotheses
  `WorldA.WF`, `WorldA.RefusalFlags`, `WorldA.RefusalFirst` of the removal / verdict theorems are
  THEOREMS about `worldOf pe solver`, under
    * `PEWF pe`       — what `project_equations()` guarantees about `unknowns_` (explicit, structural);
    * `Counted n o`   — two facts about the solver's answers: #flags = defect, refusal ⇒ defect > 0
                         (per algorithm: `Lemmas/NetWorldSolvers.lean`, from `C20_*_count`, `C02_refusal_*`);
    * `Big K`         — the single law of the scalar type the huge-covariance test needs: `¬ 1e4 < 0`.
-/
import Gama.Model.NetWorld
import Gama.Lemmas.NetDecision
namespace Gama.NetDecision
open Gama Gama.Ls

/-- the only law of the scalars the huge-covariance test needs (a point without an index has σ = 0) -/
def Big (K : Type) [Scalar K] : Prop := ¬ ((Scalar.ofNat 10000 : K) < (0 : K))

/-- what `project_equations()` guarantees about `unknowns_`: revision only switches coordinates off;
    every unknown belongs to a point of `PD`, and the coordinate group of an unknown is active at its
    point (`X`,`Y`,`R`: `active_xy()`; `Z`: `active_z()` — the guards of the loops that fill `unknowns_`) -/
structure PEWF {P : Type} (pe : Net → ProjEq P) : Prop where
  shrink : ∀ net, actives (pe net).net ≤ actives net
  unknown_point : ∀ net u, u ∈ (pe net).unknowns → ∃ Q ∈ (pe net).net, Q.id = u.pid
  unknown_active : ∀ net u, u ∈ (pe net).unknowns → ∀ Q ∈ (pe net).net, Q.id = u.pid →
      (if u.type = .Z then Q.z.active else Q.xy.active) = true

/-- the two facts about a solver's answers on `n` unknowns that the decision layer relies on -/
structure SolverObs.Counted {K : Type} (n : Nat) (o : SolverObs K) : Prop where
  count : (flaggedOf n o.lindep).length = o.defect
  refusal_pos : o.refused = some .BadRegularization → 0 < o.defect

-- ------------------------------------------------------------------ indices

theorem indexOf_ne_zero {us : List Unknown} {pid : String} {t : UType} (h : indexOf us pid t ≠ 0) :
    (⟨pid, t⟩ : Unknown) ∈ us := by
  unfold indexOf at h
  cases hf : us.findIdx? (fun u => u.pid == pid && u.type == t) with
  | none => simp [hf] at h
  | some k =>
    obtain ⟨hk, hp, -⟩ := List.findIdx?_eq_some_iff_getElem.1 hf
    have hp' : us[k].pid = pid ∧ us[k].type = t := by simpa using hp
    have : us[k] = ⟨pid, t⟩ := by
      cases hu : us[k] with
      | mk a b => rw [hu] at hp'; simp at hp'; rw [hp'.1, hp'.2]
    rw [← this]; exact List.getElem_mem hk

theorem mem_flaggedOf {n : Nat} {f : Nat → Bool} {i : Nat} :
    i ∈ flaggedOf n f ↔ 1 ≤ i ∧ i ≤ n ∧ f i = true := by
  unfold flaggedOf
  simp only [List.mem_filterMap, List.mem_range]
  constructor
  · rintro ⟨k, hk, h⟩
    by_cases hf : f (k + 1) = true
    · rw [if_pos hf] at h; cases h; exact ⟨by omega, by omega, hf⟩
    · rw [if_neg hf] at h; cases h
  · rintro ⟨h1, h2, h3⟩
    exact ⟨i - 1, by omega, by rw [Nat.sub_add_cancel h1, if_pos h3]⟩

-- ------------------------------------------------------------------ the huge-covariance test

section Huge
variable {K : Type} [Scalar K]

/-- removal code from the two comparisons -/
def codeOf (bxy bz : Bool) : Option Rm :=
  if bxy && bz then some .huge_cov_xyz else if bxy then some .huge_cov_xy else if bz then some .huge_cov_z else none

theorem sigmaOf_zero (m0 : K) (v : View K) : sigmaOf m0 v 0 = .ok 0 := by simp [sigmaOf]

/-- the three ways the test of one point ends -/
theorem hugeDecision_cases (m0 : K) (v : View K) (P : Point) :
    (P.xy.adjusted = false ∧ P.z.adjusted = false ∧ hugeDecision m0 v P = .ok none) ∨
    (∃ e, (sigmaOf m0 v (indexOf v.unknowns P.id .X) = .error e ∨ sigmaOf m0 v (indexOf v.unknowns P.id .Y) = .error e
          ∨ sigmaOf m0 v (indexOf v.unknowns P.id .Z) = .error e) ∧ hugeDecision m0 v P = .error e) ∨
    (∃ tx ty tz, sigmaOf m0 v (indexOf v.unknowns P.id .X) = .ok tx ∧ sigmaOf m0 v (indexOf v.unknowns P.id .Y) = .ok ty
        ∧ sigmaOf m0 v (indexOf v.unknowns P.id .Z) = .ok tz
        ∧ hugeDecision m0 v P = .ok (codeOf (Decidable.decide ((Scalar.ofNat 10000 : K) < tx) || Decidable.decide ((Scalar.ofNat 10000 : K) < ty))
            (Decidable.decide ((Scalar.ofNat 10000 : K) < tz)))) := by
  unfold hugeDecision
  by_cases h0 : (!P.xy.adjusted && !P.z.adjusted) = true
  · left
    rw [if_pos h0]
    simp at h0
    exact ⟨h0.1, h0.2, rfl⟩
  · right
    rw [if_neg h0]
    cases hx : sigmaOf m0 v (indexOf v.unknowns P.id .X) with
    | error e => left; exact ⟨e, Or.inl rfl, rfl⟩
    | ok tx =>
      cases hy : sigmaOf m0 v (indexOf v.unknowns P.id .Y) with
      | error e => left; exact ⟨e, Or.inr (Or.inl rfl), rfl⟩
      | ok ty =>
        cases hz : sigmaOf m0 v (indexOf v.unknowns P.id .Z) with
        | error e => left; exact ⟨e, Or.inr (Or.inr rfl), rfl⟩
        | ok tz =>
          right
          refine ⟨tx, ty, tz, rfl, rfl, rfl, ?_⟩
          simp only [bind, Except.bind, pure, Except.pure, codeOf]
          split
          · rfl
          · split
            · rfl
            · split <;> rfl

end Huge


-- ------------------------------------------------------------------ the derived world

section World
variable {K : Type} [Scalar K] {P : Type}

theorem sigmaOf_refused (m0 : K) (q : ProjEq P) (o : SolverObs K) (e : ErrKind) (h : o.refused = some e) (i : Nat) :
    sigmaOf m0 (viewOf q o) i = if i = 0 then .ok 0 else .error e := by
  unfold sigmaOf viewOf
  by_cases hi : i = 0
  · simp [hi]
  · simp [hi, h, Except.map]

theorem sigmaOf_answered (m0 : K) (q : ProjEq P) (o : SolverObs K) (h : o.refused = none) (i : Nat) :
    sigmaOf m0 (viewOf q o) i = .ok (if i = 0 then 0 else m0 * Scalar.sqrt (o.qxx i)) := by
  unfold sigmaOf viewOf
  by_cases hi : i = 0
  · simp [hi]
  · simp [hi, h, Except.map]

theorem big_index (hB : Big K) (m0 : K) (v : View K) (i : Nat) (t : K) (hs : sigmaOf m0 v i = .ok t)
    (hb : (Scalar.ofNat 10000 : K) < t) : i ≠ 0 := by
  intro h
  subst h
  rw [sigmaOf_zero] at hs
  cases hs
  exact hB hb

theorem codeOf_some {bxy bz : Bool} {c : Rm} (h : codeOf bxy bz = some c) :
    (c = .huge_cov_xyz ∧ bxy = true ∧ bz = true) ∨ (c = .huge_cov_xy ∧ bxy = true) ∨ (c = .huge_cov_z ∧ bz = true) := by
  cases bxy <;> cases bz <;> simp [codeOf] at h <;> subst h <;> simp

/-- a refusing solver object never yields a removal in the huge-covariance test -/
theorem huge_refused (hB : Big K) (m0 : K) (q : ProjEq P) (o : SolverObs K) (e : ErrKind) (h : o.refused = some e)
    (Pt : Point) (c : Rm) : hugeDecision m0 (viewOf q o) Pt ≠ .ok (some c) := by
  intro hc
  rcases hugeDecision_cases m0 (viewOf q o) Pt with ⟨_, _, h0⟩ | ⟨e', _, h0⟩ | ⟨tx, ty, tz, hx, hy, hz, h0⟩
  · rw [h0] at hc; cases hc
  · rw [h0] at hc; cases hc
  · rw [h0] at hc
    have hcode := Except.ok.inj hc
    have zero : ∀ i t, sigmaOf m0 (viewOf q o) i = .ok t → ¬ ((Scalar.ofNat 10000 : K) < t) := by
      intro i t ht hb
      have hi := big_index hB m0 _ i t ht hb
      rw [sigmaOf_refused m0 q o e h, if_neg hi] at ht
      cases ht
    have bx := zero _ _ hx
    have by' := zero _ _ hy
    have bz := zero _ _ hz
    simp [bx, by', bz, codeOf] at hcode

/-- an answering solver object never throws in the huge-covariance test -/
theorem huge_answered (m0 : K) (q : ProjEq P) (o : SolverObs K) (h : o.refused = none) (Pt : Point) (e : ErrKind) :
    hugeDecision m0 (viewOf q o) Pt ≠ .error e := by
  intro hc
  rcases hugeDecision_cases m0 (viewOf q o) Pt with ⟨_, _, h0⟩ | ⟨e', he, h0⟩ | ⟨tx, ty, tz, hx, hy, hz, h0⟩
  · rw [h0] at hc; cases hc
  · rcases he with he | he | he <;> (rw [sigmaOf_answered m0 q o h] at he; cases he)
  · rw [h0] at hc; cases hc

/-- an error of the test is the solver's refusal -/
theorem huge_error (m0 : K) (q : ProjEq P) (o : SolverObs K) (Pt : Point) (e : ErrKind)
    (hc : hugeDecision m0 (viewOf q o) Pt = .error e) : o.refused = some e := by
  cases hr : o.refused with
  | none => exact absurd hc (huge_answered m0 q o hr Pt e)
  | some e' =>
    rcases hugeDecision_cases m0 (viewOf q o) Pt with ⟨_, _, h0⟩ | ⟨e2, he, h0⟩ | ⟨tx, ty, tz, hx, hy, hz, h0⟩
    · rw [h0] at hc; cases hc
    · rw [h0] at hc
      cases hc
      rcases he with he | he | he <;>
      · rw [sigmaOf_refused m0 q o e' hr] at he
        split at he
        · cases he
        · cases he; rfl
    · rw [h0] at hc; cases hc

theorem strip_lt_xy (Q : Point) (c : Rm) (hc : c = .huge_cov_xyz ∨ c = .huge_cov_xy) (h : Q.xy.active = true) :
    (Q.strip c).actives < Q.actives := by
  obtain ⟨id, xy, z⟩ := Q
  rcases hc with rfl | rfl <;> cases xy <;> cases z <;> simp_all [Point.strip, Point.actives, CStat.active]

theorem strip_lt_z (Q : Point) (c : Rm) (hc : c = .huge_cov_xyz ∨ c = .huge_cov_z) (h : Q.z.active = true) :
    (Q.strip c).actives < Q.actives := by
  obtain ⟨id, xy, z⟩ := Q
  rcases hc with rfl | rfl <;> cases xy <;> cases z <;> simp_all [Point.strip, Point.actives, CStat.active]

variable (pe : Net → ProjEq P) (solver : P → SolverObs K) (m0 : K)

theorem worldOf_abs (net : Net) :
    ((worldOf pe solver).abs m0 net).abs = (viewOf (pe net) (solver (pe net).prob)).abs m0
    ∧ ((worldOf pe solver).abs m0 net).net = (pe net).net ∧ ((worldOf pe solver).abs m0 net).rm = (pe net).rm :=
  ⟨rfl, rfl, rfl⟩

/-- **`WF` is a theorem** for every solver: it only needs what `project_equations()` guarantees -/
theorem worldOf_WF (hpe : PEWF pe) (hB : Big K) : ((worldOf pe solver).abs m0).WF := by
  refine ⟨fun net => hpe.shrink net, ?_, ?_⟩
  · intro net i hi
    have hi' : i ∈ flaggedOf (pe net).unknowns.length (solver (pe net).prob).lindep := hi
    obtain ⟨h1, h2, -⟩ := mem_flaggedOf.1 hi'
    have hlt : i - 1 < (pe net).unknowns.length := by omega
    refine ⟨(pe net).unknowns[i - 1], List.getElem?_eq_getElem hlt, ?_⟩
    have hmem : (pe net).unknowns[i - 1] ∈ (pe net).unknowns := List.getElem_mem hlt
    obtain ⟨Q, hQ, hid⟩ := hpe.unknown_point net _ hmem
    exact ⟨Q, hQ, hid, hpe.unknown_active net _ hmem Q hQ hid⟩
  · intro net Q c hQ hc
    have hQ' : Q ∈ (pe net).net := hQ
    have hc' : hugeDecision m0 (viewOf (pe net) (solver (pe net).prob)) Q = .ok (some c) := hc
    rcases hugeDecision_cases m0 (viewOf (pe net) (solver (pe net).prob)) Q with
      ⟨_, _, h0⟩ | ⟨e', _, h0⟩ | ⟨tx, ty, tz, hx, hy, hz, h0⟩
    · rw [h0] at hc'; cases hc'
    · rw [h0] at hc'; cases hc'
    · rw [h0] at hc'
      have hcode := Except.ok.inj hc'
      have act : ∀ (t : UType) (s : K), sigmaOf m0 (viewOf (pe net) (solver (pe net).prob))
            (indexOf (pe net).unknowns Q.id t) = .ok s → (Scalar.ofNat 10000 : K) < s →
            (if t = .Z then Q.z.active else Q.xy.active) = true := by
        intro t s hs hb
        have hi := big_index hB m0 _ _ s hs hb
        have hm := indexOf_ne_zero hi
        have := hpe.unknown_active net _ hm Q hQ' rfl
        exact this
      have hxy : (Decidable.decide ((Scalar.ofNat 10000 : K) < tx) || Decidable.decide ((Scalar.ofNat 10000 : K) < ty)) = true →
          Q.xy.active = true := by
        intro hb
        rcases Bool.or_eq_true_iff.1 hb with hb | hb
        · have := act .X tx hx (of_decide_eq_true hb); simpa using this
        · have := act .Y ty hy (of_decide_eq_true hb); simpa using this
      have hz' : Decidable.decide ((Scalar.ofNat 10000 : K) < tz) = true → Q.z.active = true := by
        intro hb
        have := act .Z tz hz (of_decide_eq_true hb); simpa using this
      rcases codeOf_some hcode with ⟨rfl, b1, _⟩ | ⟨rfl, b1⟩ | ⟨rfl, b2⟩
      · exact strip_lt_xy Q _ (Or.inl rfl) (hxy b1)
      · exact strip_lt_xy Q _ (Or.inr rfl) (hxy b1)
      · exact strip_lt_z Q _ (Or.inr rfl) (hz' b2)

/-- **`RefusalFirst` is a theorem** for every solver object that either answers all covariance queries
    or refuses them all (a `SolverObs` by construction): a pass that ends in a refusal removed nothing -/
theorem worldOf_UniformRefusal (hB : Big K) : ((worldOf pe solver).abs m0).UniformRefusal := by
  intro net Pt Qt c hP hQ
  have hP' : hugeDecision m0 (viewOf (pe net) (solver (pe net).prob)) Pt = .ok (some c) := hP
  have hQ' : hugeDecision m0 (viewOf (pe net) (solver (pe net).prob)) Qt = .error .BadRegularization := hQ
  have hr := huge_error m0 _ _ Qt _ hQ'
  exact huge_refused hB m0 _ _ _ hr Pt c hP'

theorem worldOf_RefusalFirst (hB : Big K) : ((worldOf pe solver).abs m0).RefusalFirst :=
  (worldOf_UniformRefusal pe solver m0 hB).refusalFirst

/-- **`RefusalFlags` is a theorem** for every solver whose answers are `Counted`: a refusal means
    defect > 0, the number of flags is the defect, so a first flagged index exists and it is an index
    of `unknowns_` -/
theorem worldOf_RefusalFlags (dim : P → Nat) (hdim : ∀ net, dim (pe net).prob = (pe net).unknowns.length)
    (hC : ∀ net, (solver (pe net).prob).Counted (dim (pe net).prob)) :
    ((worldOf pe solver).abs m0).RefusalFlags := by
  intro net href
  have hr : (solver (pe net).prob).refused = some .BadRegularization := by
    rcases href with href | ⟨Pt, href⟩
    · have href' : (viewOf (pe net) (solver (pe net).prob)).resid = .error .BadRegularization := href
      unfold viewOf at href'
      cases hr : (solver (pe net).prob).refused with
      | none => simp [hr] at href'
      | some e => simp [hr] at href'; rw [href']
    · exact huge_error m0 _ _ Pt _ href
  have hc := hC net
  rw [hdim net] at hc
  have hpos := hc.refusal_pos hr
  have hlen := hc.count
  show ∃ i u, flaggedOf (pe net).unknowns.length (solver (pe net).prob).lindep = i :: _ ∧ (pe net).unknowns[i - 1]? = some u
  cases hfl : flaggedOf (pe net).unknowns.length (solver (pe net).prob).lindep with
  | nil => rw [hfl] at hlen; simp at hlen; omega
  | cons i t =>
    have hi : i ∈ flaggedOf (pe net).unknowns.length (solver (pe net).prob).lindep := by rw [hfl]; exact List.mem_cons_self ..
    obtain ⟨h1, h2, -⟩ := mem_flaggedOf.1 hi
    have hlt : i - 1 < (pe net).unknowns.length := by omega
    refine ⟨i, (pe net).unknowns[i - 1], ?_, List.getElem?_eq_getElem hlt⟩
    show i :: t = i :: (flaggedOf (pe net).unknowns.length (solver (pe net).prob).lindep).tail
    rw [hfl]; rfl

end World

end Gama.NetDecision
