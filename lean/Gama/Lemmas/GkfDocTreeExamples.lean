/-
  Concrete `Doc'` trees for the non-vacuity examples of Props/C11Valid.lean (definitions only).
-/
import Gama.Lemmas.GkfDocTree
import Gama.Lemmas.GkfValuesExamples
namespace Gama.Gkf.TreeEx
open Gama.Gkf Gama.Gkf.ValuesEx

/-- the document of `ValuesEx.exEvs` as a tree -/
def exDoc' : Doc' :=
  { attrs := [c "xmlns" "http://www.gnu.org/software/gama/gama-local"],
    netAttrs := [c "axes-xy" "ne", c "epoch" "2020.5"],
    items := [.parameters [c "sigma-apr" "10", c "conf-pr" " 0.95", c "latitude" "50", c "algorithm" "svd"],
      .pointsObs [c "distance-stdev" "5 3 1", c "direction-stdev" "10"]
        [.point ⟨.point_, [c "id" "A", c "x" "1.5", c "y" "-2e1", c "fix" "xy"]⟩,
         .cluster ⟨.obs, [c "from" "A"],
           [⟨.distance, [c "to" "B", c "val" "+100.25"]⟩, ⟨.direction, [c "to" "B", c "val" "10-20-30.5", c "stdev" "3"]⟩],
           some ⟨[c "dim" "2", c "band" "1"], [" 4 0.1 ".toList, "4".toList]⟩, true⟩,
         .cluster ⟨.coords, [], [⟨.point_, [c "id" "A", c "z" "3"]⟩], some ⟨[c "dim" "1", c "band" "0"], ["1".toList]⟩, true⟩]] }

/-- `<gama-local><network><points-observations><point id=A x=1 y=2/> CLUSTER </…>`: the cluster's opening tag is event 5,
    its first item event 6 -/
def mk (cl : Cluster') : Doc' :=
  { attrs := [c "xmlns" "http://www.gnu.org/software/gama/gama-local"], netAttrs := [],
    items := [.pointsObs [] [.point ⟨.point_, [c "id" "A", c "x" "1", c "y" "2"]⟩, .cluster cl]] }

def obs (attrs : List CAttr) (items : List Leaf') (cov : Option CovEl') : Doc' := mk ⟨.obs, attrs, items, cov, true⟩

def dist (as : List CAttr) : Leaf' := ⟨.distance, as⟩

/-- two distances and an angle from A, 3×3 band 1 -/
def good : Doc' :=
  obs [c "from" "A"] [dist [c "to" "B", c "val" "100"], dist [c "from" "C", c "to" "B", c "val" "1e2"],
    ⟨.angle, [c "bs" "B", c "fs" "C", c "val" "50"]⟩] (some ⟨[c "dim" "3", c "band" "1"], ["1 0 1".toList, " 0 1".toList]⟩)

end Gama.Gkf.TreeEx
