/-
  C04 (audit #3, "Missing, by value 2", chol / gso part) — the `Pending` region of Lemmas/FullRefusal.lean is a
  region of REAL difference from a fresh object, for every query.

  `full_history_free_across_inputs` says `¬ Pending → step = fresh` and `Pending → fresh = .badReg`.  What was only an
  `example` is the inequality: in a `Pending` state `is_solved` is set (both classes set it BEFORE they throw), so the
  next query takes the early return of `solve()` and answers from whatever the abandoned regularisation left behind —
  it never throws again — while a fresh object refuses.  Neither the invariant `InvR` nor anything else about the
  history is needed: the inequality is a property of `is_solved = true` alone.

  Core Lean only.
-/
import Gama.Lemmas.FullRefusal
namespace Gama.C04.Full
open Gama Gama.C04

/-- a solved object (`is_solved = true`, however it got there) never refuses a query: `solve()` returns early, and a
    refusal is only ever raised inside `solve()` -/
theorem solved_step_ne_badReg (k : Kind) (inp : Input) (s : FState) (hs : s.solved = true) (q : Op) (hq : q.IsQuery) :
    (step k inp s q).2 ≠ .badReg := by
  have hsolve : solve k inp s = (s, false) := by rw [solve_eq]; simp [hs]
  cases q <;> simp only [Op.IsQuery] at hq <;>
    simp only [step, stepWith, solveWith_code, hsolve] <;>
    (repeat' split) <;> simp_all

/-- a solved object leaves the state alone on a query (early return of `solve()`) -/
theorem solved_step_fst (k : Kind) (inp : Input) (s : FState) (hs : s.solved = true) (q : Op) (hq : q.IsQuery) :
    (step k inp s q).1 = s := by
  rw [step_query_fst k inp s q hq, solve_eq]; simp [hs]

/-- **chol, gso: on `Pending` the object really differs from a fresh one, for EVERY query.**  The object answers from
    the cached artefacts of the abandoned regularisation (never `BadRegularization`), a fresh object with the same
    configuration refuses.  No invariant is needed. -/
theorem pending_step_ne_fresh (k : Kind) (inp : Input) (s : FState) (hp : Pending k inp s) (q : Op) (hq : q.IsQuery) :
    (step k inp s q).2 ≠ fresh k inp s.useAll s.list q := by
  rw [pending_fresh_refuses k inp s hp q hq]
  exact solved_step_ne_badReg k inp s hp.1 q hq

/-- `Pending` is absorbing under queries: the object stays in that state (and keeps differing) until a `min_x…` or a
    `reset` clears `is_solved` -/
theorem pending_step_pending (k : Kind) (inp : Input) (s : FState) (hp : Pending k inp s) (q : Op) (hq : q.IsQuery) :
    Pending k inp (step k inp s q).1 := by
  rw [solved_step_fst k inp s hp.1 q hq]; exact hp

/-- history version, across inputs, refusals anywhere in the history: whenever the object is `Pending`, its answer to
    any query differs from the fresh object's -/
theorem hf_pending_step_ne_fresh (k : Kind) (inp0 : Input) (ua : Bool) (l0 : Option (List Nat)) (ops : List HOp)
    (q : Op) :
    let h := hfrun k ⟨inp0, init ua l0⟩ ops
    Pending k h.inp h.s → q.IsQuery → (hfstep k h (.q q)).2 ≠ fresh k h.inp h.s.useAll h.s.list q := by
  intro h hp hq
  exact pending_step_ne_fresh k h.inp h.s hp q hq

/-- together with `stepR`: along every history the answer to a QUERY equals the fresh one iff no refusal is pending -/
theorem hf_step_eq_fresh_iff (k : Kind) (inp0 : Input) (ua : Bool) (l0 : Option (List Nat)) (ops : List HOp)
    (q : Op) (hq : q.IsQuery) :
    let h := hfrun k ⟨inp0, init ua l0⟩ ops
    (hfstep k h (.q q)).2 = fresh k h.inp h.s.useAll h.s.list q ↔ ¬ Pending k h.inp h.s := by
  intro h
  have hi := hfrunR k ⟨inp0, init ua l0⟩ (invR_unsolved _ _ _ rfl) ops
  constructor
  · intro he hp
    exact pending_step_ne_fresh k h.inp h.s hp q hq he
  · exact (stepR k h.inp h.s hi q).2

/-- non-vacuity (both kinds): defect 3, list [1,2] too short — the first `unknowns` is refused and leaves the object
    `Pending`; the hypotheses of the three theorems hold and the two answers are `.x (.broken [1,2])` vs `.badReg` -/
example :
    let a : Input := { n := 6, nullity := 3, resolves := fun l => decide (3 ≤ l.length) }
    ∀ k : Kind,
      let h := hfrun k ⟨a, init false (some [1, 2])⟩ [.q .unknowns]
      Pending k h.inp h.s ∧ Op.unknowns.IsQuery
      ∧ (hfstep k h (.q .unknowns)).2 = .x (.broken [1, 2])
      ∧ fresh k h.inp h.s.useAll h.s.list .unknowns = .badReg := by
  intro a k
  cases k <;> exact ⟨by decide, trivial, by decide, by decide⟩

/-- non-vacuity of the iff, `¬ Pending` side: the same object after `min_x([1,2,3])` -/
example :
    let a : Input := { n := 6, nullity := 3, resolves := fun l => decide (3 ≤ l.length) }
    let h := hfrun .gso ⟨a, init false (some [1, 2])⟩ [.q .unknowns, .q (.minx [1, 2, 3])]
    ¬ Pending .gso h.inp h.s ∧ (hfstep .gso h (.q .unknowns)).2 = .x (.reg [1, 2, 3]) := by
  exact ⟨by decide, by decide⟩

end Gama.C04.Full
