/-
  C04 round 3 — invariant of the `Adj` machine with explicit work matrices across `set(other data)`.
  Core Lean only.
-/
import Gama.Model.AdjHist
import Gama.Lemmas.AdjState
namespace Gama.C04.AdjM
open Gama Gama.C04 Gama.C04.Full

/-- a call is valid relative to the data the object holds when it is made -/
def HAOp.Valid (cur : AInput) : HAOp → Prop
  | .q op => op.Valid cur.env.n
  | .setData inp' => inp'.Ok

def HAOp.next (cur : AInput) : HAOp → AInput
  | .q _ => cur
  | .setData inp' => inp'

/-- validity of a history starting with data `cur` (round 4) -/
def HAValid (cur : AInput) : List HAOp → Prop
  | [] => True
  | o :: os => o.Valid cur ∧ HAValid (o.next cur) os

/-- the matrix a fresh object's solver is given -/
def expectedIn (inp : AInput) (a : Alg) : Option AProv :=
  if a = .env then none else some (.filled inp.id .zero)

structure HAInv (h : HA) : Prop where
  ok : h.inp.Ok
  adj : AInv h.inp h.s
  /-- whenever `solved`, the solver object was given the rows of the CURRENT data on a ZEROED matrix -/
  mat : h.s.solved = true → h.lsIn = expectedIn h.inp h.s.alg

theorem isQuery_iff (op : AOp) : isQuery op = true ↔ op.IsQuery := by
  cases op <;> simp [isQuery, AOp.IsQuery]

theorem hainv_init {inp : AInput} (hok : inp.Ok) (a : Alg) : HAInv (hainit inp a) :=
  ⟨hok, ainv_init inp a, fun hh => absurd hh (by simp [hainit, ainit])⟩

theorem set_unsolved (inp : AInput) (s : AState) : (astep inp s .set).1.solved = false := rfl
theorem setAlg_unsolved (inp : AInput) (s : AState) (a : Alg) : (astep inp s (.setAlg a)).1.solved = false := rfl

theorem hastep_q (h : HA) (op : AOp) :
    (hastep h (.q op)).1.inp = h.inp ∧ (hastep h (.q op)).1.s = (astep h.inp h.s op).1 := by
  simp only [hastep, hastepWith]
  split
  · split <;> exact ⟨rfl, rfl⟩
  · exact ⟨rfl, rfl⟩

theorem hastep_inp (h : HA) (o : HAOp) : (hastep h o).1.inp = o.next h.inp := by
  cases o with
  | setData inp' => rfl
  | q op => exact (hastep_q h op).1

theorem hastep_inv {h : HA} (hi : HAInv h) (o : HAOp) (hv : o.Valid h.inp) : HAInv (hastep h o).1 := by
  cases o with
  | setData inp' =>
    refine ⟨hv, ⟨fun hh => ?_⟩, fun hh => ?_⟩
    · exact absurd hh (by simp [hastep, hastepWith, set_unsolved])
    · exact absurd hh (by simp [hastep, hastepWith, set_unsolved])
  | q op =>
    have hs := astep_spec hi.ok hi.adj op hv
    obtain ⟨e1, e2⟩ := hastep_q h op
    refine ⟨by rw [e1]; exact hi.ok, by rw [e1, e2]; exact hs.1, ?_⟩
    intro hsd
    rw [e1, e2]
    rw [e2] at hsd
    by_cases hq : isQuery op = true
    · have halg := hs.2.2 ((isQuery_iff op).mp hq)
      rw [halg]
      by_cases hsol : h.s.solved = true
      · have := hi.mat hsol
        simpa [hastep, hastepWith, hsol] using this
      · have hsol' : h.s.solved = false := by simpa using hsol
        by_cases ha : h.s.alg = .env
        · simp [hastep, hastepWith, hsol', hq, ha, expectedIn]
        · simp [hastep, hastepWith, hsol', hq, ha, expectedIn, fillCode]
    · have hq' : isQuery op = false := by simpa using hq
      exfalso
      cases op <;> simp_all [isQuery, set_unsolved, setAlg_unsolved]

theorem harun_inv {h : HA} (hi : HAInv h) {ops : List HAOp} (hops : HAValid h.inp ops) :
    HAInv (harun h ops) := by
  induction ops generalizing h with
  | nil => exact hi
  | cons o ops ih =>
    exact ih (hastep_inv hi o hops.1) ((hastep_inp h o).symm ▸ hops.2)

/-- the history-free specification: `aspec` and the zero-based matrix of the current data -/
def haspec (inp : AInput) (a : Alg) (op : AOp) : HAOut :=
  (aspec inp a op, if isQuery op then expectedIn inp a else none)

theorem hastep_spec {h : HA} (hi : HAInv h) (op : AOp) (hv : op.Valid h.inp.env.n) :
    (hastep h (.q op)).2 = haspec h.inp h.s.alg op := by
  have hs := astep_spec hi.ok hi.adj op hv
  by_cases hq : isQuery op = true
  · by_cases hsol : h.s.solved = true
    · have := hi.mat hsol
      simp [hastep, hastepWith, hsol, hq, haspec, hs.2.1, this]
    · have hsol' : h.s.solved = false := by simpa using hsol
      by_cases ha : h.s.alg = .env
      · simp [hastep, hastepWith, hsol', hq, ha, haspec, hs.2.1, expectedIn]
      · simp [hastep, hastepWith, hsol', hq, ha, haspec, hs.2.1, expectedIn, fillCode]
  · have hq' : isQuery op = false := by simpa using hq
    simp [hastep, hastepWith, hq', haspec, hs.2.1]

theorem hastep_eq_fresh {h : HA} (hi : HAInv h) (op : AOp) (hv : op.Valid h.inp.env.n) :
    (hastep h (.q op)).2 = hafresh h.inp h.s.alg op := by
  rw [hastep_spec hi op hv]
  unfold hafresh
  rw [hastep_spec (hainv_init hi.ok h.s.alg) op hv]
  rfl

end Gama.C04.AdjM
