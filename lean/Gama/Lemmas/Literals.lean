/-
  Specification languages of the numeric-literal recognisers and the proofs that every accepted
  string belongs to them (Model/Literals.lean).
-/
import Gama.Model.Literals
namespace Gama.Lit

def AllSpace (l : List Char) : Prop := ∀ c ∈ l, isSpace c = true
def AllDigit (l : List Char) : Prop := ∀ c ∈ l, isDigit c = true
/-- `[+-]?` -/
def SignOpt (l : List Char) : Prop := l = [] ∨ l = ['+'] ∨ l = ['-']
/-- `([eE][+-]?d+)?` -/
def ExpOpt (l : List Char) : Prop :=
  l = [] ∨ ∃ c sg ds, isExp c = true ∧ SignOpt sg ∧ AllDigit ds ∧ ds ≠ [] ∧ l = c :: (sg ++ ds)
/-- `[+-]? (d+ ('.' d*)? | '.' d+) ([eE][+-]?d+)?`  written as  `[+-]? d* '.'? d* exp?` with at least one digit -/
def FloatCore (t : List Char) : Prop :=
  ∃ sg d1 dot d2 ex, t = sg ++ (d1 ++ (dot ++ (d2 ++ ex))) ∧ SignOpt sg ∧ AllDigit d1 ∧
    (dot = [] ∨ dot = ['.']) ∧ AllDigit d2 ∧ (d1 ≠ [] ∨ d2 ≠ []) ∧ ExpOpt ex
/-- the documented float format: `ws* [+-]? (d+ ('.' d*)? | '.' d+) ([eE][+-]?d+)? ws*` -/
def FloatLang (s : List Char) : Prop :=
  ∃ ws1 t ws2, s = ws1 ++ (t ++ ws2) ∧ AllSpace ws1 ∧ AllSpace ws2 ∧ FloatCore t
/-- `ws* [+-]? d* ws*`, not blank: the language of IsInteger WITHOUT the guard after the sign (a lone sign is
    in it).  The exact language for the current source (`Gkf.intLoneSignRejected`) is `IntLang` in
    Lemmas/LiteralsComplete.lean. -/
def IntLangLoose (s : List Char) : Prop :=
  ∃ ws1 sg ds ws2, s = ws1 ++ (sg ++ ds ++ ws2) ∧ AllSpace ws1 ∧ AllSpace ws2 ∧ SignOpt sg ∧ AllDigit ds ∧
    sg ++ ds ≠ []
/-- `ws* d+ ws*` with value `v` -/
def IndexLang (s : List Char) (v : Nat) : Prop :=
  ∃ ws1 ds ws2, s = ws1 ++ (ds ++ ws2) ∧ AllSpace ws1 ∧ AllSpace ws2 ∧ AllDigit ds ∧ ds ≠ [] ∧ v = digitsVal ds

theorem skipWs_decomp (s : List Char) : ∃ ws, s = ws ++ skipWs s ∧ AllSpace ws := by
  induction s with
  | nil => exact ⟨[], rfl, by intro c h; cases h⟩
  | cons c cs ih =>
    unfold skipWs
    split
    · obtain ⟨ws, h1, h2⟩ := ih
      refine ⟨c :: ws, by rw [List.cons_append, ← h1], ?_⟩
      intro x hx
      cases hx with
      | head => assumption
      | tail _ hx => exact h2 x hx
    · exact ⟨[], rfl, by intro c h; cases h⟩

theorem dropBack_decomp (r : List Char) : ∃ ws, r = dropBack r ++ ws ∧ AllSpace ws := by
  induction r with
  | nil => exact ⟨[], rfl, by intro c h; cases h⟩
  | cons c cs ih =>
    obtain ⟨ws, h1, h2⟩ := ih
    unfold dropBack
    split
    · rename_i hnil
      rw [hnil] at h1
      split
      · refine ⟨c :: cs, rfl, ?_⟩
        intro x hx
        cases hx with
        | head => assumption
        | tail _ hx => rw [h1] at hx; exact h2 x hx
      · exact ⟨ws, by rw [h1]; rfl, h2⟩
    · rename_i hne
      exact ⟨ws, by rw [List.cons_append, ← h1], h2⟩

theorem trim_decomp (s : List Char) : ∃ ws1 ws2, s = ws1 ++ (trim s ++ ws2) ∧ AllSpace ws1 ∧ AllSpace ws2 := by
  obtain ⟨ws1, h1, a1⟩ := skipWs_decomp s
  obtain ⟨ws2, h2, a2⟩ := dropBack_decomp (skipWs s)
  exact ⟨ws1, ws2, by unfold trim; rw [← h2, ← h1], a1, a2⟩

theorem skipSign_decomp (t : List Char) : ∃ sg, t = sg ++ skipSign t ∧ SignOpt sg := by
  cases t with
  | nil => exact ⟨[], rfl, Or.inl rfl⟩
  | cons c cs =>
    by_cases h : isSign c = true
    · refine ⟨[c], by simp [skipSign, h], ?_⟩
      simp only [isSign, Bool.or_eq_true, beq_iff_eq] at h
      rcases h with h | h <;> simp [SignOpt, h]
    · exact ⟨[], by simp [skipSign, h], Or.inl rfl⟩

theorem skipDigits_decomp (t : List Char) :
    ∃ ds, t = ds ++ skipDigits t ∧ AllDigit ds ∧ ((skipDigits t).length < t.length → ds ≠ []) := by
  induction t with
  | nil =>
    refine ⟨[], rfl, ?_, ?_⟩
    · intro c h; cases h
    · intro h; simp [skipDigits] at h
  | cons c cs ih =>
    by_cases hc : isDigit c = true
    · obtain ⟨ds, h1, h2, _⟩ := ih
      refine ⟨c :: ds, by simp only [skipDigits, hc, if_true, List.cons_append]; rw [← h1], ?_, by simp⟩
      intro x hx
      cases hx with
      | head => exact hc
      | tail _ hx => exact h2 x hx
    · refine ⟨[], by simp [skipDigits, hc], ?_, ?_⟩
      · intro c h; cases h
      · intro h; simp [skipDigits, hc] at h

theorem skipDigits_isEmpty_allDigit (r : List Char) (h : (skipDigits r).isEmpty = true) : AllDigit r := by
  obtain ⟨ds, h1, h2, _⟩ := skipDigits_decomp r
  have : skipDigits r = [] := by simpa using h
  rw [this, List.append_nil] at h1
  rw [h1]; exact h2

theorem expPart_sound (t : List Char) (hne : t ≠ []) (h : expPart t = true) : ExpOpt t := by
  cases t with
  | nil => exact absurd rfl hne
  | cons c cs =>
    right
    by_cases hexp : isExp c = true
    · cases cs with
      | nil => simp [expPart, hexp] at h
      | cons a as =>
        obtain ⟨sg, hs1, hs2⟩ := skipSign_decomp (a :: as)
        cases hr : skipSign (a :: as) with
        | nil => simp [expPart, hexp, hr] at h
        | cons b bs =>
          have h' : (skipDigits (b :: bs)).isEmpty = true := by
            simpa [expPart, hexp, hr] using h
          have hd := skipDigits_isEmpty_allDigit _ h'
          refine ⟨c, sg, b :: bs, hexp, hs2, hd, by simp, ?_⟩
          rw [hr] at hs1; rw [← hs1]
    · simp [expPart, hexp] at h

/-- `floatBody` with its `let`s named -/
theorem floatBody_eq (t : List Char) :
    floatBody t =
      (let t1 := skipSign t
       let t2 := skipDigits t1
       let t3 := (match t2 with | '.' :: r => r | r => r)
       let t4 := skipDigits t3
       let dd := decide (t2.length < t1.length) || decide (t4.length < t3.length)
       if t4.isEmpty then dd else if expPart t4 then dd else false) := rfl

theorem floatBody_sound (t : List Char) (h : floatBody t = true) : FloatCore t := by
  rw [floatBody_eq] at h
  simp only at h
  obtain ⟨sg, hsg, hsg'⟩ := skipSign_decomp t
  obtain ⟨d1, hd1, hd1', hd1n⟩ := skipDigits_decomp (skipSign t)
  generalize ht3 : (match skipDigits (skipSign t) with | '.' :: r => r | r => r) = t3 at h
  have hdot : ∃ dot, skipDigits (skipSign t) = dot ++ t3 ∧ (dot = [] ∨ dot = ['.']) := by
    cases hq : skipDigits (skipSign t) with
    | nil => rw [hq] at ht3; simp at ht3; exact ⟨[], by simp [← ht3], Or.inl rfl⟩
    | cons a as =>
      rw [hq] at ht3
      by_cases ha : a = '.'
      · subst ha; simp at ht3; exact ⟨['.'], by simp [ht3], Or.inr rfl⟩
      · refine ⟨[], ?_, Or.inl rfl⟩
        have : t3 = a :: as := by
          rw [← ht3]
          split
          · rename_i heq; cases heq; exact absurd rfl ha
          · rfl
        simp [this]
  obtain ⟨dot, hdot1, hdot2⟩ := hdot
  obtain ⟨d2, hd2, hd2', hd2n⟩ := skipDigits_decomp t3
  have hdig : (decide ((skipDigits (skipSign t)).length < (skipSign t).length) ||
      decide ((skipDigits t3).length < t3.length)) = true ∧ ExpOpt (skipDigits t3) := by
    by_cases he : (skipDigits t3).isEmpty = true
    · rw [if_pos he] at h
      exact ⟨h, Or.inl (by simpa using he)⟩
    · rw [if_neg he] at h
      by_cases hexp : expPart (skipDigits t3) = true
      · rw [if_pos hexp] at h
        exact ⟨h, expPart_sound _ (by simpa using he) hexp⟩
      · rw [if_neg hexp] at h; cases h
  refine ⟨sg, d1, dot, d2, skipDigits t3, ?_, hsg', hd1', hdot2, hd2', ?_, hdig.2⟩
  · rw [← hd2, ← hdot1, ← hd1, ← hsg]
  · have := hdig.1
    simp only [Bool.or_eq_true, decide_eq_true_eq] at this
    rcases this with h1 | h2
    · exact Or.inl (hd1n h1)
    · exact Or.inr (hd2n h2)

/-- every string accepted by `IsFloat` is in the documented float format -/
theorem isFloat_sound (s : List Char) (h : isFloat s = true) : FloatLang s := by
  obtain ⟨ws1, ws2, h1, a1, a2⟩ := trim_decomp s
  unfold isFloat at h
  split at h
  · cases h
  · exact ⟨ws1, trim s, ws2, h1, a1, a2, floatBody_sound _ h⟩

theorem allDigits_sound (l : List Char) (h : allDigits l = true) : AllDigit l := by
  induction l with
  | nil => intro c hc; cases hc
  | cons c cs ih =>
    simp only [allDigits, Bool.and_eq_true] at h
    intro x hx
    cases hx with
    | head => exact h.1
    | tail _ hx => exact ih h.2 x hx

/-- every string accepted by `IsInteger` is `ws* [+-]? d* ws*` and not blank -/
theorem isInteger_sound (s : List Char) (h : isInteger s = true) : IntLangLoose s := by
  obtain ⟨ws1, ws2, h1, a1, a2⟩ := trim_decomp s
  unfold isInteger at h
  split at h
  · cases h
  · rename_i hne
    obtain ⟨sg, hsg, hsg'⟩ := skipSign_decomp (trim s)
    simp only at h
    split at h
    · cases h
    · refine ⟨ws1, sg, skipSign (trim s), ws2, by rw [← hsg]; exact h1, a1, a2, hsg', allDigits_sound _ h, ?_⟩
      rw [← hsg]; exact hne

def SD (c : Char) : Bool := isSpace c || isDigit c

theorem signOpt_nil_of_SD {sg : List Char} (h : SignOpt sg) (hsd : ∀ c ∈ sg, SD c = true) : sg = [] := by
  rcases h with h | h | h
  · exact h
  · subst h; have := hsd '+' (by simp); revert this; decide
  · subst h; have := hsd '-' (by simp); revert this; decide

theorem dot_nil_of_SD {dot : List Char} (h : dot = [] ∨ dot = ['.']) (hsd : ∀ c ∈ dot, SD c = true) : dot = [] := by
  rcases h with h | h
  · exact h
  · subst h; have := hsd '.' (by simp); revert this; decide

theorem expOpt_nil_of_SD {ex : List Char} (h : ExpOpt ex) (hsd : ∀ c ∈ ex, SD c = true) : ex = [] := by
  rcases h with h | ⟨c, sg, ds, hc, _, _, _, h⟩
  · exact h
  · subst h
    have h1 := hsd c (by simp)
    simp only [isExp, Bool.or_eq_true, beq_iff_eq] at hc
    exfalso
    rcases hc with hc | hc
    · subst hc; exact absurd h1 (by decide)
    · subst hc; exact absurd h1 (by decide)

/-- every string accepted by `CoreParser::toIndex` is `ws* d+ ws*` and the value is that of the digits -/
theorem toIndex_sound (s : List Char) (v : Nat) (h : toIndex s = some v) : IndexLang s v := by
  unfold toIndex at h
  split at h
  · rename_i hall
    split at h
    · rename_i hf0
      have hf : isFloat s = true := by
        have h0 := hf0
        simp only [Bool.and_eq_true] at h0
        exact h0.1
      cases h
      obtain ⟨ws1, ws2, h1, a1, a2⟩ := trim_decomp s
      have hsd : ∀ c ∈ trim s, SD c = true := by
        intro c hc
        have : c ∈ s := by rw [h1]; simp [hc]
        have := (List.all_eq_true.mp hall) c this
        simpa [SD] using this
      unfold isFloat at hf
      split at hf
      · cases hf
      · rename_i hne
        obtain ⟨sg, d1, dot, d2, ex, ht, hsg, hd1, hdot, hd2, hdig, hex⟩ := floatBody_sound _ hf
        have hsub : ∀ (l : List Char), (∀ c ∈ l, c ∈ trim s) → ∀ c ∈ l, SD c = true :=
          fun l hl c hc => hsd c (hl c hc)
        have e1 := signOpt_nil_of_SD hsg (hsub sg (by intro c hc; rw [ht]; simp [hc]))
        have e2 := dot_nil_of_SD hdot (hsub dot (by intro c hc; rw [ht]; simp [hc]))
        have e3 := expOpt_nil_of_SD hex (hsub ex (by intro c hc; rw [ht]; simp [hc]))
        subst e1 e2 e3
        simp only [List.nil_append, List.append_nil] at ht
        refine ⟨ws1, d1 ++ d2, ws2, by rw [← ht]; exact h1, a1, a2, ?_, ?_, by rw [ht]⟩
        · intro c hc
          rcases List.mem_append.mp hc with h | h
          · exact hd1 c h
          · exact hd2 c h
        · rcases hdig with h | h
          · intro hn; exact h (List.append_eq_nil_iff.mp hn).1
          · intro hn; exact h (List.append_eq_nil_iff.mp hn).2
    · cases h
  · cases h

end Gama.Lit
