/-
  C18: the ellipsoid table of lib/gnu_gama/ellipsoids.cpp (Gen/Ellipsoids.lean) against the list the
  project publishes, xml/ellipsoids.xml (Gen/EllipsoidsPublished.lean).  Both are regenerated from the
  tree on every run; the two texts were typed independently (C++ switch / XML attributes), so a digit
  changed in one of them breaks `table_is_published_check` below.

  Literals are compared by VALUE: (mantissa, decimals) denotes mantissa / 10^decimals in ℚ, so
  `300.0` = `300`.  The Boolean checkers compare `m·10^d' = m'·10^d` in ℕ; `sameVal_iff` is the bridge.
-/
import Gama.Gen.EllipsoidsPublished
import Mathlib.Algebra.Order.Field.Basic
import Mathlib.Tactic.Linarith

namespace Gama.GeoPublished
open Gama.Gen

/-- the rational number the decimal literal (mantissa, number of decimals) denotes -/
def val (x : Nat × Nat) : ℚ := (x.1 : ℚ) / 10 ^ x.2

def sameVal (x y : Nat × Nat) : Bool := x.1 * 10 ^ y.2 == y.1 * 10 ^ x.2

theorem sameVal_iff (x y : Nat × Nat) : sameVal x y = true ↔ val x = val y := by
  unfold sameVal val
  rw [beq_iff_eq, div_eq_div_iff (by positivity) (by positivity)]
  constructor
  · intro h; exact_mod_cast h
  · intro h; exact_mod_cast h

/-- the attribute is written and has the value of `y` -/
def HasVal (o : Option (Nat × Nat)) (y : Nat × Nat) : Prop := ∃ x, o = some x ∧ val x = val y

def hasVal (o : Option (Nat × Nat)) (y : Nat × Nat) : Bool :=
  match o with
  | some x => sameVal x y
  | none => false

theorem hasVal_iff (o : Option (Nat × Nat)) (y : Nat × Nat) : hasVal o y = true ↔ HasVal o y := by
  cases o with
  | none => simp [hasVal, HasVal]
  | some x => simp [hasVal, HasVal, sameVal_iff]

/-- the attribute of the published entry that the setter of the code row takes as second argument -/
def second (q : PubRow) : EllKind → Option (Nat × Nat)
  | .ab => q.b
  | .af => q.f
  | .af1 => q.f1

/-- the published entry `q` says what the code row `r` says: same id, same caption, same `a`,
    and the second parameter of the row's setter (`b`, `f` or `1/f`) is written with the same value -/
def Publishes (q : PubRow) (r : EllRow) : Prop :=
  q.id = r.id ∧ q.caption = r.caption ∧ HasVal q.a r.a ∧ HasVal (second q r.kind) r.p

def publishes (q : PubRow) (r : EllRow) : Bool :=
  q.id == r.id && q.caption == r.caption && hasVal q.a r.a && hasVal (second q r.kind) r.p

theorem publishes_iff (q : PubRow) (r : EllRow) : publishes q r = true ↔ Publishes q r := by
  simp [publishes, Publishes, hasVal_iff, and_assoc]

def tableIsPublished (t : List EllRow) (p : List PubRow) : Bool := t.all fun r => p.any fun q => publishes q r

theorem tableIsPublished_iff (t : List EllRow) (p : List PubRow) :
    tableIsPublished t p = true ↔ ∀ r ∈ t, ∃ q ∈ p, Publishes q r := by
  simp [tableIsPublished, publishes_iff]

def publishedIsInTable (p : List PubRow) (t : List EllRow) : Bool := p.all fun q => t.any fun r => publishes q r

theorem publishedIsInTable_iff (p : List PubRow) (t : List EllRow) :
    publishedIsInTable p t = true ↔ ∀ q ∈ p, ∃ r ∈ t, Publishes q r := by
  simp [publishedIsInTable, publishes_iff]

/-- position by position: the two lists have the same length and the k-th entry publishes the k-th row -/
def alignedCheck : List PubRow → List EllRow → Bool
  | [], [] => true
  | q :: p, r :: t => publishes q r && alignedCheck p t
  | _, _ => false

theorem alignedCheck_iff : ∀ (p : List PubRow) (t : List EllRow),
    alignedCheck p t = true ↔ List.Forall₂ Publishes p t
  | [], [] => by simp [alignedCheck]
  | [], _ :: _ => by simp only [alignedCheck]; constructor <;> intro h <;> cases h
  | _ :: _, [] => by simp only [alignedCheck]; constructor <;> intro h <;> cases h
  | q :: p, r :: t => by simp [alignedCheck, publishes_iff, alignedCheck_iff p t]

/-- number of the attributes a, b, f, f1 an entry writes -/
def given (q : PubRow) : Nat :=
  q.a.isSome.toNat + q.b.isSome.toNat + q.f.isSome.toNat + q.f1.isSome.toNat

/-! ### the checks on the regenerated data (evaluated by the kernel: `decide +kernel`) -/

theorem table_is_published_check : tableIsPublished ellipsoidTable publishedEllipsoids = true := by decide +kernel

theorem published_is_in_table_check : publishedIsInTable publishedEllipsoids ellipsoidTable = true := by decide +kernel

theorem aligned_check : alignedCheck publishedEllipsoids ellipsoidTable = true := by decide +kernel

theorem published_two_parameters :
    (publishedEllipsoids.all fun q => q.a.isSome && given q == 2) = true := by decide +kernel

theorem published_ids_nodup : (publishedEllipsoids.map (·.id)).Nodup := by decide +kernel

theorem default_is_published_check :
    (publishedEllipsoids.any fun q =>
      q.id == "wgs84" && hasVal q.a defaultEllipsoid.a && hasVal (second q defaultEllipsoid.kind) defaultEllipsoid.p) = true := by
  decide +kernel

end Gama.GeoPublished
