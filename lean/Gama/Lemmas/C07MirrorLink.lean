/-
  C07 — instantiating `C07_mirror_sigma` at what `project_equations()` hands over, and the LINK between the two row signs
  (round 11): the sign `rowSig` of global row `s` by the position of the active observation inside its cluster
  (`Lemmas/C07MirrorSigma.lean`) IS the sign `kSgn` of the class of the `s`-th revised observation that
  `C07_mirror_of_pass` uses.

    * `locate_flatten`      `locate` on the block lengths of a concatenation finds the block and the offset
    * `activeIdx_pos`       the `j`-th entry of `activeIdx` is the 1-based position of the `j`-th active observation
    * `clusters_signed`     `npClusters net = (signedClusters net).map (·.2)`, `npClusters (mirNet net) = … .map conj`
    * `rowSig_eq_kSgn`      the link
-/
import Gama.Lemmas.C07MirrorLoop
import Gama.Lemmas.C07MirrorSigma
namespace Gama.C07Link
open Gama Gama.Lin Gama.PE Gama.C07Mir Gama.Ls Gama.Ls.Net Gama.Ls.AdjM Gama.Cov.YSign

/-! ### generic bookkeeping -/

theorem locate_flatten {α : Type} (d : α) : ∀ (B : List (List α)) (s : Nat), s < (B.map List.length).sum →
    B.flatten.getD s d =
      (B.getD (locate (B.map List.length) s).1 []).getD (s - (locate (B.map List.length) s).2) d := by
  intro B
  induction B with
  | nil => intro s hs; simp at hs
  | cons b B ih =>
    intro s hs
    rw [List.map_cons, List.sum_cons] at hs
    rw [List.map_cons, locate_cons, List.flatten_cons]
    by_cases h : s < b.length
    · rw [if_pos h]
      simp only [List.getD_cons_zero, Nat.sub_zero]
      rw [List.getD_eq_getElem?_getD, List.getD_eq_getElem?_getD, List.getElem?_append_left h]
    · rw [if_neg h]
      simp only [List.getD_cons_succ]
      rw [List.getD_eq_getElem?_getD, List.getElem?_append_right (by omega), ← List.getD_eq_getElem?_getD,
        ih (s - b.length) (by omega)]
      congr 1
      omega

theorem flatten_filter_nonempty {α β : Type} (f : α → List β) : ∀ l : List α,
    ((l.filter fun a => (f a).length != 0).map f).flatten = (l.map f).flatten
  | [] => rfl
  | a :: l => by
    rw [List.filter_cons]
    by_cases h : (f a).length != 0
    · rw [if_pos h, List.map_cons, List.map_cons, List.flatten_cons, List.flatten_cons, flatten_filter_nonempty f l]
    · rw [if_neg h, List.map_cons, List.flatten_cons, flatten_filter_nonempty f l]
      have : f a = [] := by
        have : (f a).length = 0 := by simpa using h
        exact List.eq_nil_of_length_eq_zero this
      rw [this, List.nil_append]

theorem activeIdx_len {α : Type} (act : α → Bool) (l : List α) (n : Nat) :
    (Cov.activeIdx n (l.map fun a => (⟨act a, 1⟩ : Cov.ObsInfo))).length = (l.filter act).length := by
  have e : (l.map fun a => (⟨act a, 1⟩ : Cov.ObsInfo)) = (l.map act).map fun b => (⟨b, 1⟩ : Cov.ObsInfo) := by
    rw [List.map_map]; rfl
  rw [e, activeIdx_length_ones]
  induction l with
  | nil => rfl
  | cons a l ih =>
    simp only [List.map_cons, List.filter_cons]
    cases act a <;> simp [ih]

/-- the `j`-th entry of the index list is the (offset) position of the `j`-th active observation -/
theorem activeIdx_pos {α : Type} (d : α) (act : α → Bool) : ∀ (l : List α) (n j : Nat), j < (l.filter act).length →
    l.getD ((Cov.activeIdx n (l.map fun a => (⟨act a, 1⟩ : Cov.ObsInfo))).getD j 0 - n) d = (l.filter act).getD j d := by
  intro l
  induction l with
  | nil => intro n j hj; simp at hj
  | cons a l ih =>
    intro n j hj
    have hstep : Cov.activeIdx n ((a :: l).map fun a => (⟨act a, 1⟩ : Cov.ObsInfo)) =
        (if act a then [n] else []) ++ Cov.activeIdx (n + 1) (l.map fun a => (⟨act a, 1⟩ : Cov.ObsInfo)) := by
      rw [List.map_cons]
      show (if act a = true then (List.range 1).map (n + ·) else []) ++ _ = _
      simp
    rw [hstep]
    have tail : ∀ j', j' < (l.filter act).length →
        (a :: l).getD ((Cov.activeIdx (n + 1) (l.map fun a => (⟨act a, 1⟩ : Cov.ObsInfo))).getD j' 0 - n) d
          = (l.filter act).getD j' d := by
      intro j' hj'
      have hlen : j' < (Cov.activeIdx (n + 1) (l.map fun a => (⟨act a, 1⟩ : Cov.ObsInfo))).length := by
        rw [activeIdx_len]; exact hj'
      have hmem : (Cov.activeIdx (n + 1) (l.map fun a => (⟨act a, 1⟩ : Cov.ObsInfo))).getD j' 0 ∈
          Cov.activeIdx (n + 1) (l.map fun a => (⟨act a, 1⟩ : Cov.ObsInfo)) := by
        rw [List.getD_eq_getElem?_getD, List.getElem?_eq_getElem hlen]; exact List.getElem_mem hlen
      have hge := Cov.activeIdx_ge _ _ _ hmem
      set i := (Cov.activeIdx (n + 1) (l.map fun a => (⟨act a, 1⟩ : Cov.ObsInfo))).getD j' 0 with hi
      have : i - n = (i - (n + 1)) + 1 := by omega
      rw [this, List.getD_cons_succ]
      exact ih (n + 1) j' hj'
    by_cases ha : act a = true
    · rw [if_pos ha]
      rw [List.filter_cons, if_pos ha] at hj ⊢
      cases j with
      | zero => simp
      | succ j =>
        simp only [List.cons_append, List.nil_append, List.getD_cons_succ]
        exact tail j (by simpa using hj)
    · rw [if_neg ha, List.nil_append]
      rw [List.filter_cons, if_neg ha] at hj ⊢
      exact tail j hj

/-! ### the clusters handed over, with their sign patterns -/

theorem clusters_signed (net : PE.Net ℝ) : npClusters net = (signedClusters net).map (·.2) := by
  unfold npClusters signedClusters
  rw [List.map_map]
  rfl

theorem clusters_conj (net : PE.Net ℝ) : npClusters (mirNet net) = (signedClusters net).map C07Sig.conj := by
  unfold npClusters signedClusters mirNet
  simp only [List.map_map]
  refine List.map_congr_left fun c _ => ?_
  show (⟨(mirCluster c).cov, (mirCluster c).obs.map (·.active)⟩ : Ls.Net.Cluster ℝ) = ⟨_, _⟩
  have : (mirCluster c).obs.map (·.active) = c.obs.map (·.active) := by
    unfold mirCluster
    rw [List.map_map]
    rfl
  rw [this]
  rfl

/-! ### the link -/

/-- classes of the active observations of a cluster, in order -/
def blkK (c : PE.Cluster ℝ) : List Kind := (c.obs.filter (·.active)).map (·.kind)

theorem kinds_flatten : ∀ (k : Nat) (cs : List (PE.Cluster ℝ)),
    (revisedFrom k cs).map (·.kind) = (cs.map blkK).flatten
  | _, [] => rfl
  | k, c :: cs => by
    rw [revisedFrom, List.map_append, kinds_flatten (k + 1) cs, List.map_cons, List.flatten_cons, List.map_map]
    rfl

theorem nAct_signed (c : PE.Cluster ℝ) :
    (⟨c.cov, c.obs.map (·.active)⟩ : Ls.Net.Cluster ℝ).nAct = (blkK c).length := by
  unfold Ls.Net.Cluster.nAct blkK
  rw [List.length_map]
  induction c.obs with
  | nil => rfl
  | cons o l ih =>
    simp only [List.map_cons, List.filter_cons]
    cases o.active <;> simp [ih]

theorem actL_signed (net : PE.Net ℝ) :
    C07Sig.actL (signedClusters net) =
      (net.clusters.filter fun c => (blkK c).length != 0).map fun c => (msOf c, ⟨c.cov, c.obs.map (·.active)⟩) := by
  unfold C07Sig.actL signedClusters
  rw [List.filter_map]
  congr 1
  refine List.filter_congr fun c _ => ?_
  show ((⟨c.cov, c.obs.map (·.active)⟩ : Ls.Net.Cluster ℝ).nAct != 0) = _
  rw [nAct_signed]

/-- a default observation of a class that is not negated -/
def dOb : PE.Ob ℝ := ⟨false, .distance, 0, 0, 0, 0⟩

theorem mirroredAt_msOf (c : PE.Cluster ℝ) : ∀ i : Nat, 1 ≤ i →
    mirroredAt (msOf c) i = kNeg (c.obs.getD (i - 1) dOb).kind
  | 0, h => by omega
  | i' + 1, _ => by
    unfold mirroredAt msOf
    rw [List.getD_cons_succ, Nat.add_sub_cancel]
    rw [List.getD_eq_getElem?_getD, List.getD_eq_getElem?_getD, List.getElem?_map]
    cases c.obs[i']? <;> rfl

/-- **the link**: for the problem `np` assembled from `net` (`np.clusters = npClusters net`), the row sign by cluster
    position of `C07_mirror_sigma` is the row sign by class of `C07_mirror_of_pass` -/
theorem rowSig_eq_kSgn (net : PE.Net ℝ) (dims : List Nat)
    (hd : dims = (net.clusters.filter fun c => (blkK c).length != 0).map fun c => (blkK c).length)
    (s : Nat) (hs : s < (revisedObs net).length) :
    (C07Sig.rowSig (signedClusters net) dims s : ℝ) = kSgn (((revisedObs net).map (·.kind)).getD s .distance) := by
  set csA := net.clusters.filter fun c => (blkK c).length != 0 with hcsA
  have hk : (revisedObs net).map (·.kind) = (csA.map blkK).flatten := by
    rw [show revisedObs net = revisedFrom 0 net.clusters from rfl, kinds_flatten, hcsA, flatten_filter_nonempty]
  have hdl : dims = (csA.map blkK).map List.length := by rw [hd, List.map_map]; rfl
  have hsum : s < ((csA.map blkK).map List.length).sum := by
    have : ((csA.map blkK).map List.length).sum = (csA.map blkK).flatten.length := by
      rw [List.length_flatten]
    rw [this, ← hk, List.length_map]; exact hs
  rw [hk, locate_flatten Kind.distance _ s hsum, ← hdl]
  obtain ⟨l1, l2, l3, _, _⟩ := locate_spec dims s (by rw [hdl]; exact hsum)
  set k := (locate dims s).1 with hkdef
  set off := (locate dims s).2 with hoff
  have hklen : k < csA.length := by
    have : dims.length = csA.length := by rw [hdl, List.length_map, List.length_map]
    omega
  set c := csA[k] with hc
  have hB : (csA.map blkK).getD k [] = blkK c := by
    rw [List.getD_eq_getElem?_getD, List.getElem?_map, List.getElem?_eq_getElem hklen]; rfl
  have hdk : dims.getD k 0 = (blkK c).length := by
    rw [hdl, List.map_map, List.getD_eq_getElem?_getD, List.getElem?_map, List.getElem?_eq_getElem hklen]; rfl
  have hj : s - off < (c.obs.filter (·.active)).length := by
    have : (blkK c).length = (c.obs.filter (·.active)).length := by unfold blkK; rw [List.length_map]
    omega
  -- the left-hand side
  unfold C07Sig.rowSig
  simp only []
  rw [← hkdef, ← hoff, actL_signed, ← hcsA]
  have hp : (csA.map fun c => (msOf c, (⟨c.cov, c.obs.map (·.active)⟩ : Ls.Net.Cluster ℝ))).getD k
      ([], ⟨⟨0, 0, #[]⟩, []⟩) = (msOf c, ⟨c.cov, c.obs.map (·.active)⟩) := by
    rw [List.getD_eq_getElem?_getD, List.getElem?_map, List.getElem?_eq_getElem hklen]; rfl
  rw [hp, hB]
  simp only []
  have hobs : (⟨c.cov, c.obs.map (·.active)⟩ : Ls.Net.Cluster ℝ).obs =
      c.obs.map fun o => (⟨o.active, 1⟩ : Cov.ObsInfo) := by
    unfold Ls.Net.Cluster.obs; rw [List.map_map]; rfl
  rw [hobs]
  set i := (Cov.activeIdx 1 (c.obs.map fun o => (⟨o.active, 1⟩ : Cov.ObsInfo))).toArray.getD (s - off) 0 with hi
  have hlen : s - off < (Cov.activeIdx 1 (c.obs.map fun o => (⟨o.active, 1⟩ : Cov.ObsInfo))).length := by
    rw [activeIdx_len]; exact hj
  have hi' : i = (Cov.activeIdx 1 (c.obs.map fun o => (⟨o.active, 1⟩ : Cov.ObsInfo))).getD (s - off) 0 := by
    rw [hi]; simp [Array.getD, List.getD_eq_getElem?_getD, hlen]
  have hpos := activeIdx_pos dOb (·.active) c.obs 1 (s - off) hj
  rw [← hi'] at hpos
  have hi1 : 1 ≤ i := by
    have hmem : i ∈ Cov.activeIdx 1 (c.obs.map fun o => (⟨o.active, 1⟩ : Cov.ObsInfo)) := by
      rw [hi', List.getD_eq_getElem?_getD, List.getElem?_eq_getElem hlen]; exact List.getElem_mem hlen
    exact Cov.activeIdx_ge _ _ _ hmem
  -- sgn at position i is the sign of the class of observation i-1
  have hm := mirroredAt_msOf c i hi1
  unfold sgn
  rw [hm, hpos, kSgn_eq]
  have : (blkK c).getD (s - off) Kind.distance = ((c.obs.filter (·.active)).getD (s - off) dOb).kind := by
    unfold blkK
    rw [List.getD_eq_getElem?_getD, List.getD_eq_getElem?_getD, List.getElem?_map]
    cases (c.obs.filter (·.active))[s - off]? <;> rfl
  rw [this]

section
attribute [local instance 2000] scalarOfField

/-- the block dimensions of the assembled problem, from the network -/
theorem dimsN_of_clusters [SqrtFn ℝ] (net : PE.Net ℝ) (np : NetProblem ℝ) (h : np.clusters = npClusters net) :
    dimsN np = (net.clusters.filter fun c => (blkK c).length != 0).map fun c => (blkK c).length := by
  rw [dimsN_eq, C07Sig.activeClusters_snd np (signedClusters net) (by rw [h, clusters_signed]), actL_signed,
    List.map_map, List.map_map]
  refine List.map_congr_left fun c _ => ?_
  exact nAct_signed c

end

theorem dims_sum (net : PE.Net ℝ) :
    ((net.clusters.filter fun c => (blkK c).length != 0).map fun c => (blkK c).length).sum = (revisedObs net).length := by
  have hk : (revisedObs net).map (·.kind) = ((net.clusters.filter fun c => (blkK c).length != 0).map blkK).flatten := by
    rw [show revisedObs net = revisedFrom 0 net.clusters from rfl, kinds_flatten, flatten_filter_nonempty]
  have := congrArg List.length hk
  rw [List.length_map, List.length_flatten, List.map_map] at this
  rw [this]
  rfl


end Gama.C07Link
