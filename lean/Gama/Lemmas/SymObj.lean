/-
  Refinement for object histories of `SymMat` (Model/SymObj.lean): every operation of the
  store-of-objects machine acts on the VALUES of the objects (all members + packed elements) like the
  value-level semantics `spec`; only the target object changes.

  Invariant `SInv`: the ownership invariant of the `MemRep` sub-objects and the class invariant of
  `SymMat`: `size() = dim_(dim_+1)/2`, `row_ = col_ = dim_`.
-/
import Gama.Lemmas.MatObj
import Gama.Model.SymObj
import Gama.Lemmas.SymChol
namespace Gama.SymObj
open Gama.MemRep (upd upd_same upd_other)
open Gama.MatObj (Stop readAt writeAt rewriteAt readAt_own writeAt_own rewriteAt_own)
open Gama.MatVec

variable {K : Type} [Scalar K] [Inhabited K]

/-- the class invariant on the members of one object holding `n` cells -/
def ExtOk (e : Ext K) (n : Nat) : Prop := n = triSz e.dim ∧ e.row = e.dim ∧ e.col = e.dim

structure SInv (s : St K) : Prop where
  mem : MemRep.Inv s.mem
  size : ∀ i l, MemRep.val s.mem i = some l → ExtOk (s.ext i) l.length

theorem sinv_init : SInv (St.init : St K) :=
  ⟨MemRep.inv_init, by intro i l h; simp [St.init, MemRep.val, MemRep.St.init] at h⟩

theorem val_init : val (St.init : St K) = fun _ => none := by
  funext k; simp [val, St.init, MemRep.val, MemRep.St.init]

theorem val_install {s : St K} {m : MemRep.St K} {ext' : Nat → Ext K} {i : Nat} {w : Option (List K)}
    (h : MemRep.val m = upd (MemRep.val s.mem) i w) (hext : ∀ k, k ≠ i → ext' k = s.ext k) :
    val (⟨m, ext'⟩ : St K) = upd (val s) i (w.map fun l => ⟨ext' i, l⟩) := by
  funext k
  by_cases hk : k = i
  · subst hk; simp [val, h]
  · simp [val, h, upd_other _ _ hk, hext k hk]

theorem sinv_install {s : St K} (hI : SInv s) {m : MemRep.St K} (hm : MemRep.Inv m)
    {ext' : Nat → Ext K} {i : Nat} {w : Option (List K)}
    (h : MemRep.val m = upd (MemRep.val s.mem) i w) (hext : ∀ k, k ≠ i → ext' k = s.ext k)
    (hlen : ∀ l, w = some l → ExtOk (ext' i) l.length) : SInv (⟨m, ext'⟩ : St K) := by
  refine ⟨hm, ?_⟩
  intro k l hk
  simp only at hk
  rw [h] at hk
  by_cases hki : k = i
  · subst hki; simp at hk; exact hlen l hk
  · rw [upd_other _ _ hki] at hk
    simp only [hext k hki]
    exact hI.size k l hk

theorem upd_ext_other (ext : Nat → Ext K) (i : Nat) (e : Ext K) : ∀ k, k ≠ i → upd ext i e k = ext k :=
  fun _ hk => upd_other _ _ hk

theorem val_none_iff' (s : St K) (i : Nat) : val s i = none ↔ s.mem.objs i = none := by
  simp [val, MemRep.val_none_iff]

@[reducible] def Post (sp : Except Stop (Vals K)) : Except Stop (St K) → Prop
  | .ok s' => SInv s' ∧ sp = .ok (val s')
  | .error e => sp = .error e

theorem viaMem_cases {s : St K} (h : SInv s) (op : MemRep.Op K) (i : Nat) (e : Ext K) :
    (∃ m, viaMem s op i e = .ok ⟨m, upd s.ext i e⟩ ∧ MemRep.Inv m ∧
        MemRep.spec (MemRep.val s.mem) op = .ok (MemRep.val m)) ∨
    (∃ x, viaMem s op i e = .error (Stop.ofMem x) ∧ MemRep.spec (MemRep.val s.mem) op = .error x) := by
  unfold viaMem
  cases hs : MemRep.step s.mem op with
  | ok m => exact .inl ⟨m, rfl, MemRep.step_ok h.mem hs⟩
  | error x => exact .inr ⟨x, rfl, MemRep.step_error h.mem hs⟩

/-- construction of `d(d+1)/2` cells with members `e` -/
theorem refines_ctorWith (s : St K) (h : SInv s) (i d : Nat) (e : Ext K) (he : ExtOk e (triSz d)) :
    Post (match val s i with
          | some _ => .error .precondition
          | none => .ok (upd (val s) i (some ⟨e, List.replicate (triSz d) default⟩)))
      (viaMem s (.ctor i ((triSz d : Nat) : Int)) i e) := by
  simp only [val]
  rcases viaMem_cases h (.ctor i ((triSz d : Nat) : Int)) i e with ⟨m, hs, hm, hsp⟩ | ⟨x, hs, hsp⟩
  all_goals (rw [hs]; simp only [MemRep.spec] at hsp)
  · cases hvi : MemRep.val s.mem i with
    | some l => simp [hvi] at hsp
    | none =>
      simp only [hvi, Int.natCast_nonneg, if_true, Int.toNat_natCast, Except.ok.injEq] at hsp
      refine ⟨sinv_install h hm hsp.symm (upd_ext_other _ _ _) (by intro l hl; cases hl; simpa using he), ?_⟩
      rw [val_install hsp.symm (upd_ext_other _ _ _)]
      simp
  · cases hvi : MemRep.val s.mem i with
    | some l => simp only [hvi] at hsp; cases hsp; simp [Stop.ofMem]
    | none => simp [hvi, Int.natCast_nonneg] at hsp

theorem refines_ctor (s : St K) (h : SInv s) (i d : Nat) :
    Post (spec (val s) (.ctor i d)) (step s (.ctor i d)) := by
  simp only [step, spec]
  exact refines_ctorWith s h i d ⟨d, d, tol0, d, 0⟩ ⟨rfl, rfl, rfl⟩

theorem refines_ctor2 (s : St K) (h : SInv s) (i r c : Nat) :
    Post (spec (val s) (.ctor2 i r c)) (step s (.ctor2 i r c)) := by
  simp only [step, spec]
  cases hi : s.mem.objs i with
  | some t =>
    obtain ⟨l0, hv0⟩ := MemRep.val_some_of_obj hi
    have hval : val s i = some ⟨s.ext i, l0⟩ := by simp [val, hv0]
    simp [hval]
  | none =>
    have hval := (val_none_iff' s i).2 hi
    simp only [hval]
    by_cases hrc : r = c
    · subst hrc
      simp only [ne_eq, not_true_eq_false, if_false]
      have := refines_ctorWith s h i r ⟨r, r, tol0, r, 0⟩ ⟨rfl, rfl, rfl⟩
      simpa only [hval] using this
    · simp [hrc]

theorem refines_copyCtor (s : St K) (h : SInv s) (i j : Nat) :
    Post (spec (val s) (.copyCtor i j)) (step s (.copyCtor i j)) := by
  simp only [step, spec, val]
  rcases viaMem_cases h (.copyCtor i j) i (s.ext j) with ⟨m, hs, hm, hsp⟩ | ⟨x, hs, hsp⟩
  all_goals (rw [hs]; simp only [MemRep.spec] at hsp)
  · cases hvi : MemRep.val s.mem i with
    | some l => simp [hvi] at hsp
    | none =>
      cases hvj : MemRep.val s.mem j with
      | none => simp [hvi, hvj] at hsp
      | some lj =>
        simp only [hvi, hvj, Except.ok.injEq] at hsp
        refine ⟨sinv_install h hm hsp.symm (upd_ext_other _ _ _)
          (by intro l hl; cases hl; simpa using h.size j lj hvj), ?_⟩
        rw [val_install hsp.symm (upd_ext_other _ _ _)]
        simp
  · cases hvi : MemRep.val s.mem i with
    | some l => simp only [hvi] at hsp; cases hsp; simp [Stop.ofMem]
    | none =>
      cases hvj : MemRep.val s.mem j with
      | none => simp only [hvi, hvj] at hsp; cases hsp; simp [Stop.ofMem]
      | some lj => simp [hvi, hvj] at hsp

theorem refines_assign (s : St K) (h : SInv s) (i j : Nat) :
    Post (spec (val s) (.assign i j)) (step s (.assign i j)) := by
  simp only [step, spec, val]
  rcases viaMem_cases h (.assign i j) i (s.ext j) with ⟨m, hs, hm, hsp⟩ | ⟨x, hs, hsp⟩
  all_goals (rw [hs]; simp only [MemRep.spec] at hsp)
  · cases hvi : MemRep.val s.mem i with
    | none => simp [hvi] at hsp
    | some li =>
      cases hvj : MemRep.val s.mem j with
      | none => simp [hvi, hvj] at hsp
      | some lj =>
        simp only [hvi, hvj, Except.ok.injEq] at hsp
        refine ⟨sinv_install h hm hsp.symm (upd_ext_other _ _ _)
          (by intro l hl; cases hl; simpa using h.size j lj hvj), ?_⟩
        rw [val_install hsp.symm (upd_ext_other _ _ _)]
        simp
  · cases hvi : MemRep.val s.mem i with
    | none => simp only [hvi] at hsp; cases hsp; simp [Stop.ofMem]
    | some li =>
      cases hvj : MemRep.val s.mem j with
      | none => simp only [hvi, hvj] at hsp; cases hsp; simp [Stop.ofMem]
      | some lj => simp [hvi, hvj] at hsp

theorem refines_dtor (s : St K) (h : SInv s) (i : Nat) :
    Post (spec (val s) (.dtor i)) (step s (.dtor i)) := by
  simp only [step, spec, val]
  rcases viaMem_cases h (.dtor i) i (s.ext i) with ⟨m, hs, hm, hsp⟩ | ⟨x, hs, hsp⟩
  all_goals (rw [hs]; simp only [MemRep.spec] at hsp)
  · cases hvi : MemRep.val s.mem i with
    | none => simp [hvi] at hsp
    | some li =>
      simp only [hvi, Except.ok.injEq] at hsp
      refine ⟨sinv_install h hm hsp.symm (upd_ext_other _ _ _) (by intro l hl; cases hl), ?_⟩
      rw [val_install hsp.symm (upd_ext_other _ _ _)]
      simp
  · cases hvi : MemRep.val s.mem i with
    | none => simp only [hvi] at hsp; cases hsp; simp [Stop.ofMem]
    | some li => simp [hvi] at hsp

/-- `dim_ = row_ = col_ = d; resize(d(d+1)/2)` -/
theorem refines_resizeTo (s : St K) (h : SInv s) (i d : Nat) {t : MemRep.Obj} (hi : s.mem.objs i = some t)
    {l0 : List K} (hv0 : MemRep.val s.mem i = some l0) :
    Post (if triSz d = l0.length then
            .ok (upd (val s) i (some ⟨{ s.ext i with row := d, col := d, dim := d }, l0⟩))
          else .ok (upd (val s) i (some ⟨{ s.ext i with row := d, col := d, dim := d },
                                       List.replicate (triSz d) default⟩)))
      (viaMem s (.resize i (triSz d)) i { s.ext i with row := d, col := d, dim := d }) := by
  rcases viaMem_cases h (.resize i (triSz d)) i { s.ext i with row := d, col := d, dim := d } with
    ⟨m, hs, hm, hsp⟩ | ⟨x, hs, hsp⟩
  all_goals (rw [hs]; simp only [MemRep.spec, hv0] at hsp)
  · by_cases hsz : triSz d = l0.length
    · simp only [hsz, if_true, Except.ok.injEq] at hsp ⊢
      have hsp' : MemRep.val m = upd (MemRep.val s.mem) i (some l0) := by
        rw [← hsp]; funext k; by_cases hk : k = i
        · subst hk; simp [hv0]
        · simp [upd_other _ _ hk]
      refine ⟨sinv_install h hm hsp' (upd_ext_other _ _ _)
        (by intro l hl; cases hl; simp only [upd_same]; exact ⟨hsz.symm, rfl, rfl⟩), ?_⟩
      rw [val_install hsp' (upd_ext_other _ _ _)]
      simp
    · simp only [hsz, if_false, Except.ok.injEq] at hsp ⊢
      refine ⟨sinv_install h hm hsp.symm (upd_ext_other _ _ _)
        (by intro l hl; cases hl; simp only [upd_same]; exact ⟨by simp, rfl, rfl⟩), ?_⟩
      rw [val_install hsp.symm (upd_ext_other _ _ _)]
      simp
  · split at hsp <;> cases hsp

theorem refines_reset (s : St K) (h : SInv s) (i : Nat) (d : Int) :
    Post (spec (val s) (.reset i d)) (step s (.reset i d)) := by
  simp only [step, spec]
  cases hi : s.mem.objs i with
  | none => simp [(val_none_iff' s i).2 hi]
  | some t =>
    obtain ⟨l0, hv0⟩ := MemRep.val_some_of_obj hi
    have hval : val s i = some ⟨s.ext i, l0⟩ := by simp [val, hv0]
    simp only [hval]
    by_cases hd : d < 0
    · simp [hd]
    · simp only [hd, if_false]
      exact refines_resizeTo s h i d.toNat hi hv0

theorem refines_reset2 (s : St K) (h : SInv s) (i : Nat) (r c : Int) :
    Post (spec (val s) (.reset2 i r c)) (step s (.reset2 i r c)) := by
  simp only [step, spec]
  cases hi : s.mem.objs i with
  | none => simp [(val_none_iff' s i).2 hi]
  | some t =>
    obtain ⟨l0, hv0⟩ := MemRep.val_some_of_obj hi
    have hval : val s i = some ⟨s.ext i, l0⟩ := by simp [val, hv0]
    simp only [hval]
    by_cases hd : r ≠ c ∨ r < 0
    · simp [hd]
    · simp only [hd, if_false]
      exact refines_resizeTo s h i r.toNat hi hv0

theorem tri_lt_triSz {r c d : Nat} (h1 : 1 ≤ r) (h2 : r ≤ d) (h3 : 1 ≤ c) (h4 : c ≤ d) :
    tri (max r c) (min r c) < triSz d := by
  have hT : triSz d = Tr (d + 1) := by unfold triSz Tr; simp [Nat.mul_comm]
  rw [hT, tri_eq]
  have hm : max r c ≤ d := Nat.max_le.2 ⟨h2, h4⟩
  have hmin : min r c ≤ max r c := Nat.le_trans (Nat.min_le_left _ _) (Nat.le_max_left _ _)
  have hmin1 : 1 ≤ min r c := Nat.le_min.2 ⟨h1, h3⟩
  have hmono : Tr (max r c + 1) ≤ Tr (d + 1) := Tr_mono (by omega)
  rw [Tr_succ (max r c)] at hmono
  generalize max r c = M at *
  generalize min r c = m at *
  omega

theorem refines_set (s : St K) (h : SInv s) (i r c : Nat) (x : K) :
    Post (spec (val s) (.set i r c x)) (step s (.set i r c x)) := by
  simp only [step, spec]
  cases hvi : MemRep.val s.mem i with
  | none =>
    have hval : val s i = none := by simp [val, hvi]
    simp only [hval]
    by_cases hrc : 1 ≤ r ∧ r ≤ (s.ext i).dim ∧ 1 ≤ c ∧ c ≤ (s.ext i).dim
    · simp only [hrc, and_self, if_true]
      rcases viaMem_cases h (.write i (tri (max r c) (min r c)) x) i (s.ext i) with
        ⟨m, hs, hm, hsp⟩ | ⟨y, hs, hsp⟩
      all_goals (rw [hs]; simp only [MemRep.spec, hvi] at hsp)
      · cases hsp
      · cases hsp; simp [Stop.ofMem]
    · simp [hrc]
  | some l0 =>
    have hval : val s i = some ⟨s.ext i, l0⟩ := by simp [val, hvi]
    have hlen := (h.size i l0 hvi).1
    simp only [hval]
    by_cases hrc : 1 ≤ r ∧ r ≤ (s.ext i).dim ∧ 1 ≤ c ∧ c ≤ (s.ext i).dim
    · have hk : tri (max r c) (min r c) < l0.length := by
        rw [hlen]; exact tri_lt_triSz hrc.1 hrc.2.1 hrc.2.2.1 hrc.2.2.2
      simp only [hrc, hk, and_self, if_true]
      rcases viaMem_cases h (.write i (tri (max r c) (min r c)) x) i (s.ext i) with
        ⟨m, hs, hm, hsp⟩ | ⟨y, hs, hsp⟩
      all_goals (rw [hs]; simp only [MemRep.spec, hvi, hk, if_true] at hsp)
      · simp only [Except.ok.injEq] at hsp
        refine ⟨sinv_install h hm hsp.symm (upd_ext_other _ _ _)
          (by intro l hl; cases hl; simpa using h.size i l0 hvi), ?_⟩
        rw [val_install hsp.symm (upd_ext_other _ _ _)]
        simp
      · cases hsp
    · have : ¬ (1 ≤ r ∧ r ≤ (s.ext i).dim ∧ 1 ≤ c ∧ c ≤ (s.ext i).dim ∧
          tri (max r c) (min r c) < l0.length) := fun hh => hrc ⟨hh.1, hh.2.1, hh.2.2.1, hh.2.2.2.1⟩
      simp [hrc, this]

/-- the object's block is overwritten with `l'` (same number of cells), its members become `e'` -/
theorem install_cells {s : St K} (h : SInv s) {i : Nat} {t : MemRep.Obj} (hi : s.mem.objs i = some t)
    {l0 : List K} (hv0 : MemRep.val s.mem i = some l0) (l' : List K) (e' : Ext K)
    (hl : l'.length = l0.length) (he : ExtOk e' l0.length) :
    ∃ m, writeAt s.mem t.rep l' = .ok m ∧ SInv (⟨m, upd s.ext i e'⟩ : St K) ∧
      val (⟨m, upd s.ext i e'⟩ : St K) = upd (val s) i (some ⟨e', l'⟩) := by
  obtain ⟨m, hm1, hm2, hm3⟩ := writeAt_own h.mem hi hv0 hl
  refine ⟨m, hm1, sinv_install h hm2 hm3 (upd_ext_other _ _ _)
    (by intro l hl'; cases hl'; simp only [upd_same]; rw [hl]; exact he), ?_⟩
  rw [val_install hm3 (upd_ext_other _ _ _)]
  simp

theorem refines_inplace {s : St K} (h : SInv s) {i : Nat} {t : MemRep.Obj} (hi : s.mem.objs i = some t)
    {l0 : List K} (hv0 : MemRep.val s.mem i = some l0) (f : List K → List K)
    (hf0 : (f l0).length = l0.length) :
    ∃ m, rewriteAt s.mem t.rep t.sz f = .ok m ∧ SInv ({ s with mem := m } : St K) ∧
      val ({ s with mem := m } : St K) = upd (val s) i (some ⟨s.ext i, f l0⟩) := by
  unfold rewriteAt
  rw [(readAt_own h.mem hi hv0).1]
  obtain ⟨m, hm1, hm2, hm3⟩ := install_cells h hi hv0 (f l0) (s.ext i) hf0 (h.size i l0 hv0)
  rw [MemRep.upd_self] at hm2 hm3
  exact ⟨m, hm1, hm2, hm3⟩

theorem refines_setAll (s : St K) (h : SInv s) (i : Nat) (x : K) :
    Post (spec (val s) (.setAll i x)) (step s (.setAll i x)) := by
  simp only [step, spec]
  cases hi : s.mem.objs i with
  | none => simp [(val_none_iff' s i).2 hi]
  | some t =>
    obtain ⟨l0, hv0⟩ := MemRep.val_some_of_obj hi
    have hval : val s i = some ⟨s.ext i, l0⟩ := by simp [val, hv0]
    obtain ⟨m, hm1, hm2, hm3⟩ := refines_inplace h hi hv0 (fun l => l.map fun _ => x) (by simp)
    simp only [hval, hm1]
    exact ⟨hm2, by rw [hm3]⟩

theorem refines_scale (s : St K) (h : SInv s) (i : Nat) (f : K) :
    Post (spec (val s) (.scale i f)) (step s (.scale i f)) := by
  simp only [step, spec]
  cases hi : s.mem.objs i with
  | none => simp [(val_none_iff' s i).2 hi]
  | some t =>
    obtain ⟨l0, hv0⟩ := MemRep.val_some_of_obj hi
    have hval : val s i = some ⟨s.ext i, l0⟩ := by simp [val, hv0]
    obtain ⟨m, hm1, hm2, hm3⟩ := refines_inplace h hi hv0 (fun l => l.map (· * f)) (by simp)
    simp only [hval, hm1]
    exact ⟨hm2, by rw [hm3]⟩

theorem zipCells_length (f : K → K → K) (lb l : List K) : (zipCells f lb l).length = l.length := by
  simp [zipCells]

theorem refines_binAssign (s : St K) (h : SInv s) (i j : Nat) (f : K → K → K) :
    Post (match val s i, val s j with
          | some t, some u =>
            if t.ext.dim ≠ u.ext.dim then .error .badRank
            else .ok (upd (val s) i (some { t with data := zipCells f u.data t.data }))
          | _, _ => .error .precondition)
      (match s.mem.objs i, s.mem.objs j with
       | some t, some u =>
         if (s.ext i).dim ≠ (s.ext j).dim then .error .badRank
         else match readAt s.mem u.rep u.sz with
              | .error x => .error x
              | .ok lb =>
                match rewriteAt s.mem t.rep t.sz (zipCells f lb) with
                | .ok m => .ok { s with mem := m }
                | .error x => .error x
       | _, _ => .error .precondition) := by
  cases hi : s.mem.objs i with
  | none => simp [(val_none_iff' s i).2 hi]
  | some t =>
    obtain ⟨l0, hv0⟩ := MemRep.val_some_of_obj hi
    have hval : val s i = some ⟨s.ext i, l0⟩ := by simp [val, hv0]
    cases hj : s.mem.objs j with
    | none => simp [(val_none_iff' s j).2 hj, hval]
    | some u =>
      obtain ⟨lj, hvj⟩ := MemRep.val_some_of_obj hj
      have hvalj : val s j = some ⟨s.ext j, lj⟩ := by simp [val, hvj]
      simp only [hval, hvalj]
      by_cases hd : (s.ext i).dim = (s.ext j).dim
      · simp only [hd, ne_eq, not_true_eq_false, if_false]
        rw [(readAt_own h.mem hj hvj).1]
        obtain ⟨m, hm1, hm2, hm3⟩ := refines_inplace h hi hv0 (zipCells f lj) (zipCells_length _ _ _)
        simp only [hm1]
        exact ⟨hm2, by rw [hm3]⟩
      · simp [hd]

theorem refines_addAssign (s : St K) (h : SInv s) (i j : Nat) :
    Post (spec (val s) (.addAssign i j)) (step s (.addAssign i j)) := by
  simp only [step, spec]; exact refines_binAssign s h i j (· + ·)

theorem refines_subAssign (s : St K) (h : SInv s) (i j : Nat) :
    Post (spec (val s) (.subAssign i j)) (step s (.subAssign i j)) := by
  simp only [step, spec]; exact refines_binAssign s h i j (· - ·)

theorem refines_setTol (s : St K) (h : SInv s) (i : Nat) (x : K) :
    Post (spec (val s) (.setTol i x)) (step s (.setTol i x)) := by
  simp only [step, spec]
  cases hi : s.mem.objs i with
  | none => simp [(val_none_iff' s i).2 hi]
  | some t =>
    obtain ⟨l0, hv0⟩ := MemRep.val_some_of_obj hi
    have hval : val s i = some ⟨s.ext i, l0⟩ := by simp [val, hv0]
    simp only [hval]
    have hsame : MemRep.val s.mem = upd (MemRep.val s.mem) i (some l0) := by
      funext k; by_cases hk : k = i
      · subst hk; simp [hv0]
      · simp [upd_other _ _ hk]
    refine ⟨sinv_install h h.mem hsame (upd_ext_other _ _ _)
      (by intro l hl; cases hl; simp only [upd_same]; exact h.size i l0 hv0), ?_⟩
    rw [val_install hsame (upd_ext_other _ _ _)]
    simp

theorem cholList_length {n : Nat} {tol : K} {l l' : List K} {idf : Nat}
    (h : cholList n tol l = .ok (l', idf)) : l'.length = l.length := by
  unfold cholList at h
  split at h
  · cases h
  · cases h; simp

theorem symInvList_length {n : Nat} {l l' : List K} (h : symInvList n l = .ok l') :
    l'.length = l.length := by
  unfold symInvList at h
  split at h
  · cases h
  · cases h; simp

theorem refines_cholDec (s : St K) (h : SInv s) (i : Nat) :
    Post (spec (val s) (.cholDec i)) (step s (.cholDec i)) := by
  simp only [step, spec]
  cases hi : s.mem.objs i with
  | none => simp [(val_none_iff' s i).2 hi]
  | some t =>
    obtain ⟨l0, hv0⟩ := MemRep.val_some_of_obj hi
    have hval : val s i = some ⟨s.ext i, l0⟩ := by simp [val, hv0]
    simp only [hval]
    rw [(readAt_own h.mem hi hv0).1]
    simp only []
    cases hc : cholList (s.ext i).dim (s.ext i).tol l0 with
    | error x => simp
    | ok p =>
      obtain ⟨l', idf⟩ := p
      simp only []
      obtain ⟨m, hm1, hm2, hm3⟩ := install_cells h hi hv0 l' { s.ext i with idf := idf }
        (cholList_length hc) (h.size i l0 hv0)
      rw [hm1]
      exact ⟨hm2, by rw [hm3]⟩

theorem refines_invert (s : St K) (h : SInv s) (i : Nat) :
    Post (spec (val s) (.invert i)) (step s (.invert i)) := by
  simp only [step, spec]
  cases hi : s.mem.objs i with
  | none => simp [(val_none_iff' s i).2 hi]
  | some t =>
    obtain ⟨l0, hv0⟩ := MemRep.val_some_of_obj hi
    have hval : val s i = some ⟨s.ext i, l0⟩ := by simp [val, hv0]
    simp only [hval]
    rw [(readAt_own h.mem hi hv0).1]
    simp only []
    cases hc : symInvList (s.ext i).dim l0 with
    | error x => simp
    | ok l' =>
      simp only []
      obtain ⟨m, hm1, hm2, hm3⟩ := install_cells h hi hv0 l' (s.ext i)
        (symInvList_length hc) (h.size i l0 hv0)
      rw [MemRep.upd_self] at hm2 hm3
      rw [hm1]
      exact ⟨hm2, by rw [hm3]⟩

/-- **Refinement, one step.** -/
theorem step_refines (s : St K) (h : SInv s) (op : Op K) : Post (spec (val s) op) (step s op) := by
  cases op with
  | ctor i d => exact refines_ctor s h i d
  | ctor2 i r c => exact refines_ctor2 s h i r c
  | copyCtor i j => exact refines_copyCtor s h i j
  | assign i j => exact refines_assign s h i j
  | reset i d => exact refines_reset s h i d
  | reset2 i r c => exact refines_reset2 s h i r c
  | set i r c x => exact refines_set s h i r c x
  | setAll i x => exact refines_setAll s h i x
  | scale i f => exact refines_scale s h i f
  | addAssign i j => exact refines_addAssign s h i j
  | subAssign i j => exact refines_subAssign s h i j
  | setTol i x => exact refines_setTol s h i x
  | cholDec i => exact refines_cholDec s h i
  | invert i => exact refines_invert s h i
  | dtor i => exact refines_dtor s h i

theorem step_ok {s s' : St K} (h : SInv s) {op : Op K} (hs : step s op = .ok s') :
    SInv s' ∧ spec (val s) op = .ok (val s') := by
  have := step_refines s h op; rw [hs] at this; exact this

theorem step_error {s : St K} (h : SInv s) {op : Op K} {e : Stop} (hs : step s op = .error e) :
    spec (val s) op = .error e := by
  have := step_refines s h op; rw [hs] at this; exact this

theorem cholList_ne_heapFault (n : Nat) (tol : K) (l : List K) : cholList n tol l ≠ .error .heapFault := by
  unfold cholList; split <;> simp

theorem symInvList_ne_heapFault (n : Nat) (l : List K) : symInvList n l ≠ .error .heapFault := by
  unfold symInvList; split <;> simp

theorem spec_ne_heapFault (v : Vals K) (op : Op K) : spec v op ≠ .error .heapFault := by
  cases op with
  | cholDec i =>
    intro hh
    simp only [spec] at hh
    split at hh
    · cases hh
    · split at hh
      · rename_i hx; cases hh; exact cholList_ne_heapFault _ _ _ hx
      · cases hh
  | invert i =>
    intro hh
    simp only [spec] at hh
    split at hh
    · cases hh
    · split at hh
      · rename_i hx; cases hh; exact symInvList_ne_heapFault _ _ hx
      · cases hh
  | _ => simp only [spec] <;> repeat' split <;> first | simp | (repeat' split <;> simp)

/-- **Refinement, whole histories** (stopping at the first throw). -/
theorem run_refines (ops : List (Op K)) : ∀ (s : St K), SInv s →
    match run s ops with
    | .ok s' => SInv s' ∧ specRun (val s) ops = .ok (val s')
    | .error e => specRun (val s) ops = .error e ∧ e ≠ .heapFault := by
  induction ops with
  | nil => intro s h; exact ⟨h, rfl⟩
  | cons op ops ih =>
    intro s h
    unfold run specRun
    cases hs : step s op with
    | error e =>
      have := step_error h hs
      simp only [this]
      exact ⟨trivial, fun he => spec_ne_heapFault _ op (he ▸ this)⟩
    | ok s1 =>
      obtain ⟨h1, hsp⟩ := step_ok h hs
      simp only [hsp]
      exact ih s1 h1

theorem spec_frame {v v' : Vals K} {op : Op K} (h : spec v op = .ok v') :
    ∀ k, k ≠ op.target → v' k = v k := by
  intro k hk
  cases op <;> simp only [spec] at h <;> simp only [Op.target] at hk <;> (repeat' split at h) <;>
    first
      | (cases h; rfl)
      | (cases h; exact upd_other _ _ hk)
      | cases h

/-- **Independence**: an operation on one object never changes the value of another object. -/
theorem step_frame {s s' : St K} (h : SInv s) {op : Op K} (hs : step s op = .ok s') :
    ∀ k, k ≠ op.target → val s' k = val s k :=
  spec_frame (step_ok h hs).2

end Gama.SymObj
