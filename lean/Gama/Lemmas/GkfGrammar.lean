/-
  Every document of the documented grammar (Model/GkfGrammar.lean) is accepted by the run model.
  Table facts are `decide`d on the GENERATED automaton.
-/
import Gama.Model.GkfGrammar
import Gama.Lemmas.GkfDiag
namespace Gama.Gkf

/-- no error recorded, automaton in state `s` -/
def Clean (st : St) (s : State) : Prop := st.state = s ∧ st.err = none

def opsAccept (as : List Attr) : List Op → Bool
  | [] => true
  | .attrs g :: r => attrsOk g as && opsAccept as r
  | .needXYorZ :: r => hasXYorZ as && opsAccept as r
  | _ :: r => opsAccept as r

theorem execOps_accept (as : List Attr) (ops : List Op) : ∀ st : St, opsAccept as ops = true →
    execOps ops as true st false = { st with state := opsFinal ops st.state } := by
  induction ops with
  | nil => intro st _; rfl
  | cons o r ih =>
    intro st h
    cases o with
    | setState s => simp only [execOps, opsFinal]; rw [ih _ (by simpa [opsAccept] using h)]
    | attrs g =>
      simp only [opsAccept, Bool.and_eq_true] at h
      simp only [execOps, opsFinal, h.1, Bool.and_self, if_true]; exact ih st h.2
    | retIfFailed => simp only [execOps, opsFinal]; exact ih st (by simpa [opsAccept] using h)
    | needXYorZ =>
      simp only [opsAccept, Bool.and_eq_true] at h
      simp only [execOps, opsFinal, h.1, if_true]; exact ih st h.2
    | ret => simp [execOps, opsFinal]

theorem attrsOk_of_documented (t : Tag) (g : Handler) (as : List Attr)
    (hd : attrsDocumented t as = true) (hsub : (docAttrs t).all (fun n => (attrNames g).contains n) = true) :
    attrsOk g as = true := by
  have hall : as.all (fun a => (attrNames g).contains a.name) = true := by
    rw [List.all_eq_true]
    intro a ha
    have h1 := (List.all_eq_true.mp hd) a ha
    have h2 := List.all_eq_true.mp hsub a.name (by simpa using h1)
    exact h2
  unfold attrsOk
  split
  · exact hall
  · cases as with
    | nil => rfl
    | cons a r => simp only [List.all_cons, Bool.and_eq_true] at hall; exact hall.1
  · rfl

/-- table condition: in state `s` a start tag `t` with documented attributes runs a handler all of whose
    attribute checks accept the documented names, and ends in `s1` -/
def startOk (s : State) (t : Tag) (s1 : State) : Bool :=
  match start s t with
  | .run h =>
    (handlerOps h).all (fun o => match o with
      | .attrs g => (docAttrs t).all (fun n => (attrNames g).contains n)
      | _ => true) && opsFinal (handlerOps h) s == s1
  | .set s' => s' == s1
  | _ => false

def needsXYZ (s : State) (t : Tag) : Bool :=
  match start s t with
  | .run h => (handlerOps h).any (fun o => o == .needXYorZ)
  | _ => false

theorem opsAccept_of (t : Tag) (as : List Attr) (hd : attrsDocumented t as = true) (_hx : hasXYorZ as = true ∨ True) :
    ∀ ops : List Op,
      ops.all (fun o => match o with
        | .attrs g => (docAttrs t).all (fun n => (attrNames g).contains n)
        | _ => true) = true →
      (ops.any (fun o => o == .needXYorZ) = true → hasXYorZ as = true) → opsAccept as ops = true := by
  intro ops
  induction ops with
  | nil => intro _ _; rfl
  | cons o r ih =>
    intro h hn
    simp only [List.all_cons, Bool.and_eq_true] at h
    have hn' : r.any (fun o => o == .needXYorZ) = true → hasXYorZ as = true := by
      intro hr; apply hn; simp [hr]
    cases o with
    | attrs g => simp only [opsAccept, Bool.and_eq_true]; exact ⟨attrsOk_of_documented t g as hd h.1, ih h.2 hn'⟩
    | needXYorZ => simp only [opsAccept, Bool.and_eq_true]; exact ⟨hn (by simp), ih h.2 hn'⟩
    | setState s => simp only [opsAccept]; exact ih h.2 hn'
    | retIfFailed => simp only [opsAccept]; exact ih h.2 hn'
    | ret => simp only [opsAccept]; exact ih h.2 hn'

theorem step_start_clean (st : St) (s s1 : State) (t : Tag) (as : List Attr) (hc : Clean st s)
    (hs : startOk s t s1 = true) (hd : attrsDocumented t as = true)
    (hx : needsXYZ s t = true → hasXYorZ as = true) :
    Clean (step st (.start t as true)) s1 := by
  obtain ⟨h1, h2⟩ := hc
  unfold startOk at hs
  unfold needsXYZ at hx
  simp only [step, react, h1]
  cases hstart : start s t with
  | run h =>
    rw [hstart] at hs hx
    simp only [Bool.and_eq_true, beq_iff_eq] at hs
    have := execOps_accept as (handlerOps h) st (opsAccept_of t as hd (Or.inr trivial) _ hs.1 hx)
    simp only [this, h1]
    exact ⟨hs.2, h2⟩
  | set s' =>
    rw [hstart] at hs
    simp only [beq_iff_eq] at hs
    exact ⟨hs, h2⟩
  | err k => rw [hstart] at hs; cases hs
  | ignore => rw [hstart] at hs; cases hs

def stopOk (s s1 : State) : Bool :=
  match stop s with
  | .goto s' _ => s' == s1
  | _ => false

theorem step_stop_clean (st : St) (s s1 : State) (hc : Clean st s) (hs : stopOk s s1 = true) :
    Clean (step st (.stop true)) s1 := by
  obtain ⟨h1, h2⟩ := hc
  unfold stopOk at hs
  simp only [step, react, h1]
  cases hstop : stop s with
  | goto s' f =>
    rw [hstop] at hs
    simp only [beq_iff_eq] at hs
    cases f <;> exact ⟨hs, h2⟩
  | fail k => rw [hstop] at hs; cases hs
  | silent => rw [hstop] at hs; cases hs

theorem run_text_clean (s : State) (ha : textAccepting s = true) (ts : List (List Char)) :
    ∀ st : St, Clean st s → Clean (run st (ts.map Event.text)) s := by
  induction ts with
  | nil => intro st h; exact h
  | cons c r ih =>
    intro st h
    simp only [List.map_cons, run_cons]
    apply ih
    obtain ⟨h1, h2⟩ := h
    simp only [step, react, h1, ha, Bool.true_or, if_true]
    exact ⟨rfl, h2⟩

/-- an empty element whose start leads to `s1` and whose end leads back to `s` -/
theorem run_leaf_clean (st : St) (s s1 : State) (l : Leaf) (hc : Clean st s)
    (hs : startOk s l.tag s1 = true) (he : stopOk s1 s = true) (hd : attrsDocumented l.tag l.attrs = true)
    (hx : needsXYZ s l.tag = true → hasXYorZ l.attrs = true) : Clean (run st l.events) s := by
  simp only [Leaf.events, run_cons, run_nil]
  exact step_stop_clean _ s1 s (step_start_clean st s s1 l.tag l.attrs hc hs hd hx) he

/-- a sequence of elements each of which returns to `s` -/
theorem run_flatMap_clean {α : Type} (s : State) (f : α → List Event) (ok : α → Prop)
    (h : ∀ (a : α) (st : St), ok a → Clean st s → Clean (run st (f a)) s) :
    ∀ (l : List α) (st : St), (∀ a ∈ l, ok a) → Clean st s → Clean (run st (l.flatMap f)) s := by
  intro l
  induction l with
  | nil => intro st _ hc; exact hc
  | cons a r ih =>
    intro st hall hc
    simp only [List.flatMap_cons, run_append]
    exact ih _ (fun b hb => hall b (List.mem_cons_of_mem _ hb)) (h a st (hall a List.mem_cons_self) hc)

/-! ### clusters -/

def ClusterKind.state : ClusterKind → State
  | .obs => .obs | .hdiffs => .hdiffs | .coords => .coords | .vectors => .vectors
def ClusterKind.covState : ClusterKind → State
  | .obs => .obs_cov | .hdiffs => .hdiffs_cov | .coords => .coords_cov | .vectors => .vectors_cov
def ClusterKind.afterCov : ClusterKind → State
  | .obs => .obs_after_cov | .hdiffs => .hdiffs_after_cov | .coords => .coords_after_cov | .vectors => .vectors_after_cov

/-- the state reached by a child of a cluster -/
def itemState (k : ClusterKind) (t : Tag) : State :=
  match start k.state t with
  | .run h => opsFinal (handlerOps h) k.state
  | .set s => s
  | _ => .error_

def clusterTags : ClusterKind → List Tag
  | .obs => [.direction, .distance, .angle, .s_distance, .z_angle, .azimuth]
  | .hdiffs => [.dh]
  | .coords => [.point_]
  | .vectors => [.vec]

def clusterTableOk (k : ClusterKind) : Bool :=
  startOk .point_obs k.tag k.state &&
  (clusterTags k).all (fun t => startOk k.state t (itemState k t) && stopOk (itemState k t) k.state &&
     (needsXYZ k.state t == (k == .coords))) &&
  startOk k.state .cov_mat k.covState && textAccepting k.covState && stopOk k.covState k.afterCov &&
  stopOk k.afterCov .point_obs && stopOk k.state .point_obs

theorem cluster_table : ∀ k : ClusterKind, clusterTableOk k = true := by
  intro k; cases k <;> decide

theorem itemOk_tag (k : ClusterKind) (l : Leaf) (h : k.itemOk l = true) :
    l.tag ∈ clusterTags k ∧ attrsDocumented l.tag l.attrs = true ∧ (k = .coords → hasXYorZ l.attrs = true) := by
  cases k <;> simp only [ClusterKind.itemOk, Bool.and_eq_true, Bool.or_eq_true, beq_iff_eq] at h
  · refine ⟨?_, h.2, fun hk => by cases hk⟩
    rcases h.1 with (((((h1 | h1) | h1) | h1) | h1) | h1) <;> simp [clusterTags, h1]
  · exact ⟨by simp [clusterTags, h.1], by rw [h.1]; exact h.2, fun hk => by cases hk⟩
  · exact ⟨by simp [clusterTags, h.1.1], by rw [h.1.1]; exact h.1.2, fun _ => h.2⟩
  · exact ⟨by simp [clusterTags, h.1], by rw [h.1]; exact h.2, fun hk => by cases hk⟩

theorem run_cluster_clean (c : Cluster) (st : St) (hv : c.valid = true) (hc : Clean st .point_obs) :
    Clean (run st c.events) .point_obs := by
  have ht := cluster_table c.kind
  simp only [clusterTableOk, Bool.and_eq_true] at ht
  obtain ⟨⟨⟨⟨⟨⟨h_open, h_items⟩, h_cov⟩, h_txt⟩, h_covend⟩, h_after⟩, h_close⟩ := ht
  simp only [Cluster.valid, Bool.and_eq_true] at hv
  obtain ⟨⟨⟨hv_attrs, hv_items⟩, hv_cov⟩, _⟩ := hv
  simp only [Cluster.events, run_cons, run_append]
  have h1 : Clean (step st (.start c.kind.tag c.attrs true)) c.kind.state :=
    step_start_clean st _ _ _ _ hc h_open hv_attrs (by
      intro hn
      exfalso
      revert hn
      cases c.kind <;> decide)
  have h2 := run_flatMap_clean c.kind.state Leaf.events (fun l => c.kind.itemOk l = true)
    (by
      intro l st' hl hc'
      obtain ⟨hmem, hdoc, hxy⟩ := itemOk_tag c.kind l hl
      have := (List.all_eq_true.mp h_items) l.tag hmem
      simp only [Bool.and_eq_true, beq_iff_eq] at this
      exact run_leaf_clean st' _ _ l hc' this.1.1 this.1.2 hdoc (by
        intro hn
        rw [this.2] at hn
        exact hxy (by simpa using hn)))
    c.items _ (fun a ha => (List.all_eq_true.mp hv_items) a ha) h1
  cases hcov : c.cov with
  | none =>
    simp only [List.nil_append, run_cons, run_nil]
    exact step_stop_clean _ _ _ h2 h_close
  | some cv =>
    rw [hcov] at hv_cov
    simp only at hv_cov
    simp only [CovEl.events, List.cons_append, run_cons, run_append, run_nil, List.append_assoc]
    have h3 := step_start_clean _ _ _ .cov_mat cv.attrs h2 h_cov hv_cov (by
      intro hn; exfalso; revert hn; cases c.kind <;> decide)
    have h4 := run_text_clean _ h_txt cv.text _ h3
    have h5 := step_stop_clean _ _ _ h4 h_covend
    exact step_stop_clean _ _ _ h5 h_after

/-! ### points-observations, network, document -/

theorem spine_table :
    startOk .start_ .gama_xml .gama_xml = true ∧ startOk .gama_xml .network .network = true ∧
    startOk .network .description .description = true ∧ textAccepting .description = true ∧
    stopOk .description .network = true ∧
    startOk .network .parameters .parameters = true ∧ stopOk .parameters .network = true ∧
    startOk .network .points_observations .point_obs = true ∧ stopOk .point_obs .network = true ∧
    startOk .point_obs .point_ .point_ = true ∧ stopOk .point_ .point_obs = true ∧
    needsXYZ .point_obs .point_ = false ∧ needsXYZ .network .parameters = false ∧
    needsXYZ .network .points_observations = false ∧ needsXYZ .network .description = false ∧
    needsXYZ .start_ .gama_xml = false ∧ needsXYZ .gama_xml .network = false ∧
    stopOk .network .gama_xml = true ∧ stopOk .gama_xml .stop_ = true := by decide

theorem run_poitem_clean (p : POItem) (st : St) (hv : p.valid = true) (hc : Clean st .point_obs) :
    Clean (run st p.events) .point_obs := by
  have T := spine_table
  cases p with
  | point l =>
    simp only [POItem.valid, Bool.and_eq_true, beq_iff_eq] at hv
    simp only [POItem.events]
    exact run_leaf_clean st .point_obs .point_ l hc (by rw [hv.1]; exact T.2.2.2.2.2.2.2.2.2.1)
      T.2.2.2.2.2.2.2.2.2.2.1 (by rw [hv.1]; exact hv.2) (by rw [hv.1, T.2.2.2.2.2.2.2.2.2.2.2.1]; intro h; cases h)
  | cluster c => exact run_cluster_clean c st hv hc

theorem run_netitem_clean (i : NetItem) (st : St) (hv : i.valid = true) (hc : Clean st .network) :
    Clean (run st i.events) .network := by
  have T := spine_table
  cases i with
  | description text =>
    simp only [NetItem.events, run_cons, run_append, run_nil]
    have h1 := step_start_clean st .network .description .description [] hc T.2.2.1 rfl
      (by rw [T.2.2.2.2.2.2.2.2.2.2.2.2.2.2.1]; intro h; cases h)
    exact step_stop_clean _ _ _ (run_text_clean _ T.2.2.2.1 text _ h1) T.2.2.2.2.1
  | parameters as =>
    simp only [NetItem.valid] at hv
    exact run_leaf_clean st .network .parameters ⟨.parameters, as⟩ hc T.2.2.2.2.2.1 T.2.2.2.2.2.2.1 hv
      (by simp only; rw [T.2.2.2.2.2.2.2.2.2.2.2.2.1]; intro h; cases h)
  | pointsObs as items =>
    simp only [NetItem.valid, Bool.and_eq_true] at hv
    simp only [NetItem.events, run_cons, run_append, run_nil]
    have h1 := step_start_clean st .network .point_obs .points_observations as hc T.2.2.2.2.2.2.2.1 hv.1
      (by rw [T.2.2.2.2.2.2.2.2.2.2.2.2.2.1]; intro h; cases h)
    have h2 := run_flatMap_clean .point_obs POItem.events (fun p => p.valid = true)
      (fun p st' hp hc' => run_poitem_clean p st' hp hc') items _
      (fun a ha => (List.all_eq_true.mp hv.2) a ha) h1
    exact step_stop_clean _ _ _ h2 T.2.2.2.2.2.2.2.2.1

theorem run_doc_clean (d : Doc) (hv : d.valid = true) : Clean (run St.init d.events) .stop_ := by
  have T := spine_table
  simp only [Doc.valid, Bool.and_eq_true] at hv
  simp only [Doc.events, run_cons, run_append, run_nil]
  have h0 : Clean St.init .start_ := ⟨rfl, rfl⟩
  have h1 := step_start_clean St.init .start_ .gama_xml .gama_xml d.attrs h0 T.1 hv.1.1
    (by rw [T.2.2.2.2.2.2.2.2.2.2.2.2.2.2.2.1]; intro h; cases h)
  have h2 := step_start_clean _ .gama_xml .network .network d.netAttrs h1 T.2.1 hv.1.2
    (by rw [T.2.2.2.2.2.2.2.2.2.2.2.2.2.2.2.2.1]; intro h; cases h)
  have h3 := run_flatMap_clean .network NetItem.events (fun i => i.valid = true)
    (fun i st' hi hc' => run_netitem_clean i st' hi hc') d.items _
    (fun a ha => (List.all_eq_true.mp hv.2) a ha) h2
  have h4 := step_stop_clean _ _ _ h3 T.2.2.2.2.2.2.2.2.2.2.2.2.2.2.2.2.2.1
  exact step_stop_clean _ _ _ h4 T.2.2.2.2.2.2.2.2.2.2.2.2.2.2.2.2.2.2

end Gama.Gkf
