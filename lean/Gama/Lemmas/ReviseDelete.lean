/-
  C14 — the input with the excluded items deleted (`deleteItems`, defined on the input from position
  flags only) against the state the code reaches (`revise`, `exclude`).
-/
import Gama.Lemmas.Revise
import Mathlib.Data.List.Forall2
namespace Gama.Rev
variable {K : Type}

/-! ### "the same item, possibly excluded" -/

/-- `q` is `p` with possibly fewer coordinate groups taking part -/
def PtLow (p q : Pt K) : Prop := q = deletePt p (!q.sxy.active) (!q.sz.active)

/-- `q` is `o` or a passive observation -/
def ObsLow (o q : Obs K) : Prop := q.active = true → q = o

def ClLow (c0 c : Cluster K) : Prop :=
  c.stand = c0.stand ∧ c.cov = c0.cov ∧ List.Forall₂ ObsLow c0.obs c.obs

/-- the state `r` is the input `n` with some items excluded, position by position -/
def Evolved (n r : Net K) : Prop :=
  List.Forall₂ PtLow n.pts r.pts ∧ List.Forall₂ ClLow n.cls r.cls

/-- nothing is left to exclude for the revision: no taking-part group misses its coordinates, every
    active observation meets its requirements, no station has directions to fewer than two targets -/
def Settled (r : Net K) : Prop :=
  (∀ p ∈ r.pts, missingXY p = false ∧ missingZ p = false) ∧ (∀ c ∈ r.cls, Good r.pts c)

theorem ptLow_refl (q : Pt K) : PtLow q q := by
  cases q with
  | mk id sxy sz hxy hz x y z => cases sxy <;> cases sz <;> rfl

theorem ptLow_revisePt (p : Pt K) : PtLow p (revisePt p) := by
  cases p with
  | mk id sxy sz hxy hz x y z => cases sxy <;> cases sz <;> cases hxy <;> cases hz <;> rfl

theorem obsLow_refl (o : Obs K) : ObsLow o o := fun _ => rfl

theorem obsLow_trans {a b c : Obs K} (h1 : ObsLow a b) (h2 : ObsLow b c) : ObsLow a c := by
  intro hc
  have := h2 hc
  subst this
  exact h1 hc

theorem obsLow_localRev (pts : List (Pt K)) (o : Obs K) : ObsLow o (localRev pts o) := by
  intro h
  have h' : o.active = true ∧ reqOk pts o = true := by simpa [localRev] using h
  rcases o with ⟨ty, frm, t, fs, act, v⟩
  simp only at h'
  obtain ⟨rfl, h2⟩ := h'
  simp [localRev, h2]

theorem obsLow_passDir (o : Obs K) : ObsLow o (passDir o) := by
  intro h
  unfold passDir at h ⊢
  split
  · rename_i hd; simp [hd] at h
  · rfl

theorem forall₂_map_self {α : Type} (R : α → α → Prop) (f : α → α) (l : List α) (h : ∀ a, R a (f a)) :
    List.Forall₂ R l (l.map f) := by
  induction l with
  | nil => exact .nil
  | cons a l ih => exact .cons (h a) ih

theorem forall₂_refl' {α : Type} (R : α → α → Prop) (l : List α) (h : ∀ a, R a a) : List.Forall₂ R l l := by
  induction l with
  | nil => exact .nil
  | cons a l ih => exact .cons (h a) ih

theorem forall₂_trans' {α : Type} {R : α → α → Prop} (ht : ∀ a b c, R a b → R b c → R a c) :
    ∀ {l1 l2 l3 : List α}, List.Forall₂ R l1 l2 → List.Forall₂ R l2 l3 → List.Forall₂ R l1 l3
  | _, _, _, .nil, .nil => .nil
  | _, _, _, .cons h1 t1, .cons h2 t2 => .cons (ht _ _ _ h1 h2) (forall₂_trans' ht t1 t2)

theorem clLow_refl (c : Cluster K) : ClLow c c := ⟨rfl, rfl, forall₂_refl' _ _ obsLow_refl⟩

theorem clLow_trans (a b c : Cluster K) (h1 : ClLow a b) (h2 : ClLow b c) : ClLow a c :=
  ⟨h2.1.trans h1.1, h2.2.1.trans h1.2.1, forall₂_trans' (R := ObsLow) (fun _ _ _ h1 h2 => obsLow_trans h1 h2) h1.2.2 h2.2.2⟩

theorem reviseCl_stand_cov (pts : List (Pt K)) (c : Cluster K) :
    (reviseCl pts c).stand = c.stand ∧ (reviseCl pts c).cov = c.cov := by
  unfold reviseCl updateCl
  simp only [standRule_def]
  split <;> exact ⟨rfl, rfl⟩

theorem clLow_reviseCl (pts : List (Pt K)) (c : Cluster K) : ClLow c (reviseCl pts c) := by
  refine ⟨(reviseCl_stand_cov pts c).1, (reviseCl_stand_cov pts c).2, ?_⟩
  rw [reviseCl_obs]
  apply forall₂_map_self
  intro o
  split
  · exact obsLow_trans (obsLow_localRev pts o) (obsLow_passDir _)
  · exact obsLow_localRev pts o

theorem evolved_revise (n : Net K) : Evolved n (revise n) :=
  ⟨forall₂_map_self _ _ _ ptLow_revisePt, forall₂_map_self _ _ _ (clLow_reviseCl _)⟩

theorem settled_revise (n : Net K) : Settled (revise n) := by
  refine ⟨?_, ?_⟩
  · intro p hp
    have hp' : p ∈ n.pts.map revisePt := hp
    obtain ⟨q, _, rfl⟩ := List.mem_map.mp hp'
    exact ⟨missingXY_revisePt q, missingZ_revisePt q⟩
  · intro c hc
    have hc' : c ∈ (revisionPoints n).cls.map (reviseCl (revisionPoints n).pts) := hc
    obtain ⟨c0, _, rfl⟩ := List.mem_map.mp hc'
    exact good_reviseCl _ c0

/-! ### the absolute-term stage only lowers -/

section abs
variable [Scalar K]

theorem obsLow_markObs (pts : List (Pt K)) (tol : K) (os : List (Obs K)) (v : List K) :
    List.Forall₂ ObsLow os (markObs pts tol os v).1 := by
  induction os generalizing v with
  | nil => exact .nil
  | cons o os ih =>
    unfold markObs
    cases h : o.active
    · exact .cons (obsLow_refl o) (ih v)
    · cases v with
      | nil => exact forall₂_refl' _ _ obsLow_refl
      | cons b v' =>
        refine .cons ?_ (ih v')
        split
        · intro hc; simp at hc
        · exact obsLow_refl o

theorem clLow_markCls (pts : List (Pt K)) (tol : K) (cs : List (Cluster K)) (v : List K) :
    List.Forall₂ ClLow cs (markCls pts tol cs v) := by
  induction cs generalizing v with
  | nil => exact .nil
  | cons c cs ih =>
    unfold markCls
    exact .cons ⟨rfl, rfl, obsLow_markObs pts tol c.obs v⟩ (ih _)

theorem removeHugeWith_pts (a : AbsVec) (n : Net K) (tol : K) (rhs bh : List K) :
    (removeHugeWith a n tol rhs bh).pts = n.pts := by
  unfold removeHugeWith; split <;> rfl

theorem clLow_removeHugeWith (a : AbsVec) (n : Net K) (tol : K) (rhs bh : List K) :
    List.Forall₂ ClLow n.cls (removeHugeWith a n tol rhs bh).cls := by
  unfold removeHugeWith
  split
  · exact clLow_markCls _ _ _ _
  · exact forall₂_refl' _ _ clLow_refl

theorem exclude_pts (n : Net K) (tol : K) (rhs bh : List K) : (exclude n tol rhs bh).pts = (revise n).pts :=
  removeHugeWith_pts _ _ _ _ _

theorem evolved_exclude (n : Net K) (tol : K) (rhs bh : List K) : Evolved n (exclude n tol rhs bh) := by
  refine ⟨?_, ?_⟩
  · rw [exclude_pts]; exact (evolved_revise n).1
  · have h1 := (evolved_revise n).2
    have h2 := clLow_removeHugeWith Gen.absVec (revise n) tol rhs bh
    have h3 : List.Forall₂ ClLow (removeHuge (revise n) tol rhs bh).cls (exclude n tol rhs bh).cls :=
      forall₂_map_self _ _ _ (clLow_reviseCl _)
    exact forall₂_trans' clLow_trans (forall₂_trans' clLow_trans h1 h2) h3

theorem settled_exclude (n : Net K) (tol : K) (rhs bh : List K) : Settled (exclude n tol rhs bh) := by
  refine ⟨?_, ?_⟩
  · rw [exclude_pts]; exact (settled_revise n).1
  · intro c hc
    have hc' : c ∈ (removeHuge (revise n) tol rhs bh).cls.map (reviseCl (removeHuge (revise n) tol rhs bh).pts) := hc
    obtain ⟨c0, _, rfl⟩ := List.mem_map.mp hc'
    exact good_reviseCl _ c0

end abs

/-! ### deleting by flags on the input = deleting on the state -/

theorem dropFlagged_nil_left {α : Type} (fl : List Bool) : dropFlagged ([] : List α) fl = [] := by
  simp [dropFlagged]

theorem dropFlagged_cons {α : Type} (a : α) (l : List α) (f : Bool) (fl : List Bool) :
    dropFlagged (a :: l) (f :: fl) = if f then dropFlagged l fl else a :: dropFlagged l fl := by
  cases f <;> simp [dropFlagged]

theorem dropFlagged_low (os qs : List (Obs K)) (h : List.Forall₂ ObsLow os qs) :
    dropFlagged os (qs.map (fun o => !o.active)) = qs.filter (·.active) := by
  induction h with
  | nil => simp [dropFlagged]
  | @cons o q os qs hoq _ ih =>
    rw [List.map_cons, dropFlagged_cons, ih]
    cases hq : q.active
    · simp [hq]
    · have := hoq hq
      subst this
      simp [hq]

theorem deleteItems_evolved (n r : Net K) (h : Evolved n r) :
    deleteItems n (excluded r) = deleteItems r (excluded r) := by
  have hp : ∀ (ps qs : List (Pt K)), List.Forall₂ PtLow ps qs →
      (ps.zip ((qs.map (fun p => !p.sxy.active)).zip (qs.map (fun p => !p.sz.active)))).map
        (fun q => deletePt q.1 q.2.1 q.2.2) = qs := by
    intro ps qs hf
    induction hf with
    | nil => rfl
    | cons hpq _ ih =>
      simp only [List.map_cons, List.zip_cons_cons]
      rw [ih]
      exact congrArg (· :: _) hpq.symm
  have hc : ∀ (cs ds : List (Cluster K)), List.Forall₂ ClLow cs ds →
      (cs.zip (ds.map (fun c => c.obs.map (fun o => !o.active)))).map (fun q => deleteCl q.1 q.2) =
      (ds.zip (ds.map (fun c => c.obs.map (fun o => !o.active)))).map (fun q => deleteCl q.1 q.2) := by
    intro cs ds hf
    induction hf with
    | nil => rfl
    | @cons c d cs ds hcd _ ih =>
      simp only [List.map_cons, List.zip_cons_cons]
      rw [ih]
      congr 1
      unfold deleteCl
      rw [dropFlagged_low c.obs d.obs hcd.2.2, dropFlagged_low d.obs d.obs (forall₂_refl' _ _ obsLow_refl),
        hcd.1, hcd.2.1]
  unfold deleteItems excluded
  simp only
  rw [hp n.pts r.pts h.1, hp r.pts r.pts (forall₂_refl' _ _ ptLow_refl), hc n.cls r.cls h.2]

/-- the state without its excluded items -/
def keepCl (c : Cluster K) : Cluster K := deleteCl c (c.obs.map (fun o => !o.active))

theorem deleteItems_self (r : Net K) :
    deleteItems r (excluded r) =
      { pts := r.pts.filter Pt.active
        cls := (r.cls.map keepCl).filter (fun c => !c.obs.isEmpty)
        removed := [], undefined := [], revised := [], rejected := [], pocbod := 0, pocmer := 0 } := by
  have hp : ∀ (qs : List (Pt K)),
      (qs.zip ((qs.map (fun p => !p.sxy.active)).zip (qs.map (fun p => !p.sz.active)))).map
        (fun q => deletePt q.1 q.2.1 q.2.2) = qs := by
    intro qs
    induction qs with
    | nil => rfl
    | cons q qs ih =>
      simp only [List.map_cons, List.zip_cons_cons]
      rw [ih]
      exact congrArg (· :: _) (ptLow_refl q).symm
  have hc : ∀ (ds : List (Cluster K)),
      (ds.zip (ds.map (fun c => c.obs.map (fun o => !o.active)))).map (fun q => deleteCl q.1 q.2) = ds.map keepCl := by
    intro ds
    induction ds with
    | nil => rfl
    | cons d ds ih =>
      simp only [List.map_cons, List.zip_cons_cons]
      rw [ih]
      rfl
  unfold deleteItems excluded
  simp only
  rw [hp, hc]

theorem keepCl_obs (c : Cluster K) : (keepCl c).obs = c.obs.filter (·.active) :=
  dropFlagged_low c.obs c.obs (forall₂_refl' _ _ obsLow_refl)

/-! ### the revision of the deleted input -/

theorem revisePt_fix_of_not_missing (p : Pt K) (h : missingXY p = false ∧ missingZ p = false) : revisePt p = p := by
  cases p with
  | mk id sxy sz hxy hz x y z => simp [revisePt, h.1, h.2]

theorem recordsPt_of_not_missing (p : Pt K) (h : missingXY p = false ∧ missingZ p = false) : recordsPt p = [] := by
  simp [recordsPt, h.1, h.2]

/-- revising a cluster from which the passive observations were deleted, against the points that take
    part, changes nothing (the cluster is `Good`) -/
theorem reviseCl_keepCl_obs (P : List (Pt K)) (c : Cluster K) (hg : Good P c) :
    (reviseCl (P.filter Pt.active) (keepCl c)).obs = c.obs.filter (·.active) := by
  have hk := keepCl_obs c
  have hs : SoundObs (P.filter Pt.active) (keepCl c).obs := by
    intro o ho ha
    rw [hk] at ho
    have ho' : o ∈ c.obs := (List.mem_filter.mp ho).1
    exact reqOk_filter P o (hg.1 o ho' ha)
  have h1 := map_localRev_fix _ _ hs
  have hstand : (keepCl c).stand = c.stand := rfl
  rw [reviseCl_obs, h1]
  by_cases hf : ((keepCl c).stand && decide (distinctTargets (keepCl c).obs < 2)) = true
  · simp only [hf, if_true]
    have hf' : (c.stand && decide (distinctTargets c.obs < 2)) = true := by
      rw [hk, distinctTargets_filter, hstand] at hf; exact hf
    have hno := hg.2 hf'
    have : ∀ o ∈ (keepCl c).obs, passDir (localRev (P.filter Pt.active) o) = o := by
      intro o ho
      rw [localRev_fix _ o (hs o ho)]
      rw [hk] at ho
      have hm := List.mem_filter.mp ho
      have hd := hno o hm.1
      unfold passDir
      by_cases ht : o.ty = .direction
      · simp [isActiveDir, ht] at hd
        simp [hd] at hm
      · simp [ht]
    rw [List.map_congr_left this, List.map_id', hk]
  · simp only [hf, Bool.false_eq_true, ↓reduceIte]
    have : ∀ o ∈ (keepCl c).obs, localRev (P.filter Pt.active) o = o := by
      intro o ho; exact localRev_fix _ o (hs o ho)
    rw [List.map_congr_left this, List.map_id', hk]

theorem range'_map_getD {β : Type} (idx : List Nat) (F : Nat → β) :
    (List.range' 1 idx.length).map (fun i => F (idx.getD (i - 1) 0)) = idx.map F := by
  apply List.ext_getElem
  · simp
  · intro i h1 h2
    simp only [List.length_map, List.length_range'] at h1
    simp [List.getD_eq_getElem?_getD, h1]

theorem keptIdx_all_kept (n : Nat) : keptIdx (List.replicate n false) = List.range' 1 n := by
  unfold keptIdx dropFlagged
  simp only [List.length_replicate]
  have : ∀ (l : List Nat), ((l.zip (List.replicate l.length false)).filter (fun q => !q.2)).map (·.1) = l := by
    intro l
    induction l with
    | nil => rfl
    | cons a l ih => simp [List.replicate_succ, ih]
  have h := this (List.range' 1 n)
  simp only [List.length_range'] at h
  exact h

theorem keptIdx_length (os : List (Obs K)) :
    (keptIdx (os.map (fun o => !o.active))).length = (os.filter (·.active)).length := by
  unfold keptIdx dropFlagged
  simp only [List.length_map]
  have : ∀ (k : Nat) (os : List (Obs K)),
      (((List.range' k os.length).zip (os.map (fun o => !o.active))).filter (fun q => !q.2)).length
        = (os.filter (·.active)).length := by
    intro k os
    induction os generalizing k with
    | nil => rfl
    | cons o os ih =>
      simp only [List.length_cons, List.range'_succ, List.map_cons, List.zip_cons_cons, List.filter_cons]
      cases h : o.active <;> simp [h, ih (k + 1)]
  exact this 1 os

/-- the covariance block of the deleted cluster (all of it active) is the principal sub-matrix the
    code takes of the original -/
theorem covView_keepCl (cov : Nat → Nat → K) (os : List (Obs K)) :
    covView (subCov cov (keptIdx (os.map (fun o => !o.active)))) ((os.filter (·.active)).map (·.active)) =
      covView cov (os.map (·.active)) := by
  have hall : ((os.filter (·.active)).map (·.active)).map (!·) = List.replicate (os.filter (·.active)).length false := by
    rw [List.eq_replicate_iff]
    refine ⟨by simp, ?_⟩
    intro b hb
    simp only [List.map_map, List.mem_map, Function.comp] at hb
    obtain ⟨o, ho, rfl⟩ := hb
    simp [(List.mem_filter.mp ho).2]
  have hidx : (os.map (·.active)).map (!·) = os.map (fun o => !o.active) := by
    rw [List.map_map]; rfl
  unfold covView
  simp only
  rw [hall, keptIdx_all_kept, hidx, ← keptIdx_length os]
  generalize keptIdx (os.map (fun o => !o.active)) = idx
  unfold subCov
  rw [range'_map_getD idx (fun a => (List.range' 1 idx.length).map fun j => cov a (idx.getD (j - 1) 0))]
  apply List.map_congr_left
  intro a _
  exact range'_map_getD idx (fun b => cov a b)

/-- **Main lemma.**  For a settled state `r`: the revision of `r` without its excluded items sees what
    `r` shows, reports nothing and changes nothing. -/
theorem revise_deleteItems_self (r : Net K) (hs : Settled r) :
    let d := deleteItems r (excluded r)
    adjustmentView (revise d) = adjustmentView r ∧
    (revise d).pts = d.pts ∧ (revise d).cls.map (·.obs) = d.cls.map (·.obs) ∧
    (revise d).removed = [] ∧ (revise d).rejected = [] := by
  intro d
  have hd : d = _ := deleteItems_self r
  have hP : ∀ p ∈ r.pts.filter Pt.active, missingXY p = false ∧ missingZ p = false :=
    fun p hp => hs.1 p (List.mem_filter.mp hp).1
  have hpts : (revise d).pts = r.pts.filter Pt.active := by
    show d.pts.map revisePt = _
    rw [hd]
    exact map_revisePt_fix _ (fun p hp => revisePt_fix_of_not_missing p (hP p hp))
  have hcls : (revise d).cls = ((r.cls.map keepCl).filter (fun c => !c.obs.isEmpty)).map
      (reviseCl (r.pts.filter Pt.active)) := by
    show d.cls.map (reviseCl (d.pts.map revisePt)) = _
    have : d.pts.map revisePt = r.pts.filter Pt.active := hpts
    rw [this, hd]
  have hobs : ∀ c ∈ (r.cls.map keepCl).filter (fun c => !c.obs.isEmpty),
      (reviseCl (r.pts.filter Pt.active) c).obs = c.obs := by
    intro c hc
    obtain ⟨c0, hc0, rfl⟩ := List.mem_map.mp (List.mem_filter.mp hc).1
    rw [reviseCl_keepCl_obs r.pts c0 (hs.2 c0 hc0), keepCl_obs]
  refine ⟨?_, ?_, ?_, ?_, ?_⟩
  · unfold adjustmentView
    rw [hpts, hcls, List.map_map]
    congr 1
    · rw [List.filter_filter]; congr 1; funext p; simp
    · refine filter_map_filter_map r.cls keepCl (fun c => !c.obs.isEmpty) _ _ _ (fun c hc => ?_)
      have ho := reviseCl_keepCl_obs r.pts c (hs.2 c hc)
      have hsc := reviseCl_stand_cov (r.pts.filter Pt.active) (keepCl c)
      refine ⟨?_, ?_⟩
      · simp only [Function.comp]
        rw [ho, hsc.1, hsc.2]
        have hff : (c.obs.filter (·.active)).filter (·.active) = c.obs.filter (·.active) := by
          rw [List.filter_filter]; congr 1; funext o; simp
        rw [hff]
        show (c.stand, c.obs.filter (·.active),
          covView (subCov c.cov (keptIdx (c.obs.map (fun o => !o.active)))) ((c.obs.filter (·.active)).map (·.active))) = _
        rw [covView_keepCl]
      · rw [keepCl_obs]
  · rw [hpts, hd]
  · have hdc : d.cls = (r.cls.map keepCl).filter (fun c => !c.obs.isEmpty) := by rw [hd]
    rw [hcls, List.map_map, hdc]
    exact List.map_congr_left (fun c hc => hobs c hc)
  · show d.removed ++ d.pts.flatMap recordsPt = []
    rw [hd]
    simp only [List.nil_append, List.flatMap_eq_nil_iff]
    exact fun p hp => recordsPt_of_not_missing p (hP p hp)
  · show (allObs (revise d).cls).filter (fun o => !o.active) = []
    rw [List.filter_eq_nil_iff]
    intro o ho
    unfold allObs at ho
    obtain ⟨c, hc, hoc⟩ := List.mem_flatMap.mp ho
    rw [hcls] at hc
    obtain ⟨c1, hc1, rfl⟩ := List.mem_map.mp hc
    rw [hobs c1 hc1] at hoc
    obtain ⟨c0, _, rfl⟩ := List.mem_map.mp (List.mem_filter.mp hc1).1
    rw [keepCl_obs] at hoc
    simp [(List.mem_filter.mp hoc).2]

theorem activeView_of_adjustmentView (a b : Net K) (h : adjustmentView a = adjustmentView b) :
    activeView a = activeView b := by
  unfold adjustmentView at h
  unfold activeView
  have h1 := congrArg Prod.fst h
  have h2 := congrArg (fun v => v.2.map (fun c => (c.1, c.2.1))) h
  simp only at h1 h2
  have hv : ∀ n : Net K, ((n.cls.map fun c => (c.stand, c.obs.filter (·.active), covView c.cov (c.obs.map (·.active)))).filter
      (fun c => !c.2.1.isEmpty)).map (fun c => (c.1, c.2.1)) =
      (n.cls.map fun c => (c.stand, c.obs.filter (·.active))).filter (fun c => !c.2.isEmpty) := by
    intro n
    induction n.cls with
    | nil => rfl
    | cons c cs ih =>
      simp only [List.map_cons, List.filter_cons]
      cases hc : (c.obs.filter (·.active)).isEmpty <;> simp [hc, ih]
  rw [hv a, hv b] at h2
  rw [h1, h2]

end Gama.Rev
