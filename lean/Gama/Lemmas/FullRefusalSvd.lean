/-
  C04 — svd: history freedom WITH refused solves / refused `min_x(list)` in the history (the converse of
  `svd_pending_differs_from_fresh`; svd analogue of Lemmas/FullRefusal.lean).

  Nothing is assumed about the inputs, the lists or the outcomes.  `SInvRR` is `SInv` without its `cfg` clause: where
  `SInv` says "`V_` is the V of the decomposition regularised over the configured list" it says what `V_` holds ALSO
  when that regularisation was refused (`svexpR`: left plain by the first throwing exit `defect > n_min` of
  `min_subset_x()`, half-regularised `.broken l` by the second), and `x` is pinned only outside the refusal region
  (inside it `x` is the one of the OLD regularisation: `AdjSVD::min_x(n, list)` threw before `is_solved = false`).
  The corners one could fear do not exist in the model: `SVD::min_x()` restores `V_ = minV` under
  `decomposed && minx != all && defect != 0` — under `decomposed` with `defect != 0` `minV` IS the plain V of the
  current data (`SInvRR.dec`; a `minV` of an earlier input survives `reset` but `decomposed` does not), and when
  `minx == all` already `V_` is plain; `.broken l` is only ever read inside the region.

  The exact region, per query (`DiffersS`): under `RefusesS`, `defect`/`lindep` differ iff `decomposed`, every other
  query iff `is_solved` (`sstep_fresh_iff`); `StaleS := RefusesS ∧ decomposed` is their union (`SInvRR.solved`).
  The configuration call `min_x(n, list)` is itself refused (answer `.badReg`, a fresh object accepts) iff
  `decomposed ∧ defect > 0 ∧ list does not resolve` (`MinxRefusedS`) — it is the call that delivers the refusal.

  Core Lean only.
-/
import Gama.Lemmas.FullPendingSvd
import Gama.Lemmas.FullHist
import Gama.Lemmas.FullState
namespace Gama.C04.Full
open Gama Gama.C04

/-- what `V_` holds after a decomposition of the current data with the current configuration — refused
    regularisations included (`min_subset_x()`: first throwing exit before `V_` is touched, second after) -/
def svexpR (inp : Input) (s : SState) : VProv :=
  if inp.nullity = 0 then .plain
  else if s.sub then
    (if inp.resolves (s.list.getD []) then .reg (s.list.getD [])
     else if (s.list.getD []).length < inp.nullity then .plain else .broken (s.list.getD []))
  else .plain

/-- refusal-inclusive invariant of the svd machine (no clause on the configuration) -/
structure SInvRR (inp : Input) (s : SState) : Prop where
  dec : s.decomposed = true → s.defKnown = true ∧ s.vprov = svexpR inp s
          ∧ (0 < inp.nullity → s.minV = true ∧ s.minVok = true)
  solved : s.solved = true → s.decomposed = true ∧ s.haveX = true ∧ (RefusesS inp s ∨ s.xprov = svexpR inp s)

/-- the state region outside of which every answer is the fresh one: the configuration is refused for the current
    problem and the object holds a decomposition (`⊇ PendingS`) -/
def StaleS (inp : Input) (s : SState) : Prop := RefusesS inp s ∧ s.decomposed = true

instance (inp : Input) (s : SState) : Decidable (StaleS inp s) := by unfold StaleS; infer_instance

/-- the exact region per query: `defect`/`lindep` read the decomposition, everything else goes through `is_solved` -/
def DiffersS (inp : Input) (s : SState) (q : Op) : Prop :=
  RefusesS inp s ∧ (if q.OnlyDecomposes then s.decomposed = true else s.solved = true)

instance (inp : Input) (s : SState) (q : Op) : Decidable (DiffersS inp s q) := by unfold DiffersS; infer_instance

/-- `AdjSVD::min_x(n, list)` on a decomposed singular system with a list that does not resolve the defect: the
    call itself throws (a fresh object, not decomposed, accepts any list) -/
def MinxRefusedS (inp : Input) (s : SState) : Op → Prop
  | .minx l => s.decomposed = true ∧ 0 < inp.nullity ∧ inp.resolves l = false
  | _ => False

instance (inp : Input) (s : SState) (q : Op) : Decidable (MinxRefusedS inp s q) := by
  cases q <;> simp only [MinxRefusedS] <;> infer_instance

theorem sinvRR_init (inp : Input) (sub : Bool) (l : Option (List Nat)) : SInvRR inp (sinit sub l) :=
  ⟨fun h => absurd h (by simp [sinit]), fun h => absurd h (by simp [sinit])⟩

theorem sinvRR_sreset (inp' : Input) (s : SState) : SInvRR inp' (sreset s) :=
  ⟨fun h => absurd h (by simp [sreset]), fun h => absurd h (by simp [sreset])⟩

theorem SInvRR.invR {inp : Input} {s : SState} (h : SInvRR inp s) : SInvR s := fun hs => (h.solved hs).1

theorem staleS_of_pendingS {inp : Input} {s : SState} (hi : SInvRR inp s) (hp : PendingS inp s) : StaleS inp s :=
  ⟨hp.2, (hi.solved hp.1).1⟩

theorem svexpR_of_not_refuses {inp : Input} {s : SState} (hr : ¬ RefusesS inp s) :
    svexpR inp s = svexp inp (seff s) := by
  unfold RefusesS at hr
  by_cases hn : inp.nullity = 0
  · simp [svexpR, svexp, hn]
  · have h0 : 0 < inp.nullity := by omega
    cases hsub : s.sub with
    | false => simp [svexpR, svexp, seff, hn, hsub]
    | true =>
      have : inp.resolves (s.list.getD []) = true := by
        cases hres : inp.resolves (s.list.getD []) with
        | true => rfl
        | false => exact absurd ⟨h0, hsub, hres⟩ hr
      simp [svexpR, svexp, seff, hn, hsub, this]

/-- outside the refusal region `SInvRR` is `SInv` -/
theorem sinv_of_invRR {inp : Input} {s : SState} (hi : SInvRR inp s) (hr : ¬ RefusesS inp s) : SInv inp s := by
  have he := svexpR_of_not_refuses hr
  refine ⟨?_, ?_, ?_⟩
  · unfold RefusesS at hr
    by_cases hn : inp.nullity = 0
    · exact Or.inl hn
    · have h0 : 0 < inp.nullity := by omega
      cases hsub : s.sub with
      | false => exact Or.inr (Or.inl rfl)
      | true =>
        cases hres : inp.resolves (s.list.getD []) with
        | true => exact Or.inr (Or.inr rfl)
        | false => exact absurd ⟨h0, hsub, hres⟩ hr
  · intro hd
    have := hi.dec hd
    exact ⟨this.1, he ▸ this.2.1, this.2.2⟩
  · intro hs
    have := hi.solved hs
    refine ⟨this.1, this.2.1, ?_⟩
    rcases this.2.2 with h | h
    · exact absurd h hr
    · exact he ▸ h

/-! ### the invariant is kept by every step -/

theorem svdDecomp_invRR (inp : Input) (s : SState) (hi : SInvRR inp s) : SInvRR inp (svdDecomp inp s).1 := by
  by_cases hd : s.decomposed = true
  · rw [svdDecomp_keeps_decomposed inp s hd]; exact hi
  · have hs : s.solved = false := by
      cases h : s.solved with
      | false => rfl
      | true => exact absurd (hi.solved h).1 hd
    obtain ⟨sv, dc, sb, l, mv, dk, mo, vp, xp, hx⟩ := s
    simp only at hs hd
    subst hs
    have hdc : dc = false := by simpa using hd
    subst hdc
    refine ⟨fun _ => ?_, fun h => ?_⟩
    · by_cases hn : inp.nullity = 0
      · simp [svdDecomp, svexpR, hn]
      · cases sb with
        | false => simp [svdDecomp, svexpR, hn]
        | true =>
          by_cases hres : inp.resolves (l.getD []) = true
          · simp [svdDecomp, minSubsetX, svexpR, hn, hres]
          · by_cases hl : (l.getD []).length < inp.nullity
            · simp [svdDecomp, minSubsetX, svexpR, hn, hres, hl]
            · simp [svdDecomp, minSubsetX, svexpR, hn, hres, hl]
    · rw [svdDecomp_solved] at h; simp at h

theorem svdSolve_invRR (inp : Input) (s : SState) (hi : SInvRR inp s) : SInvRR inp (svdSolve inp s).1 := by
  by_cases hs : s.solved = true
  · simp only [svdSolve, hs, if_true]; exact hi
  · have hs' : s.solved = false := by simpa using hs
    have h0 : SInvRR inp { s with decomposed := false } :=
      ⟨fun h => absurd h (by simp), fun h => absurd h (by simp [hs'])⟩
    have hD := svdDecomp_invRR inp _ h0
    have hdd := svdDecomp_decomposed inp { s with decomposed := false }
    rw [svdSolve_unsolved inp s hs']
    split
    · exact hD
    · have := hD.dec hdd
      exact ⟨fun _ => this, fun _ => ⟨hdd, rfl, Or.inr this.2.1⟩⟩

theorem sstep_invRR (inp : Input) (s : SState) (hi : SInvRR inp s) (op : Op) : SInvRR inp (sstep inp s op).1 := by
  have h1 := svdSolve_invRR inp s hi
  have h2 := svdDecomp_invRR inp (svdSolve inp s).1 h1
  have h3 := svdDecomp_invRR inp s hi
  cases op with
  | unknowns => simp only [sstep]; split <;> exact h1
  | residuals => simp only [sstep]; split <;> exact h1
  | sumsq => simp only [sstep]; split <;> exact h1
  | defect => simp only [sstep]; split <;> exact h3
  | lindep i => simp only [sstep]; split <;> exact h3
  | qxx i j => simp only [sstep]; split; exact h1; split <;> exact h2
  | qbb i j => simp only [sstep]; split; exact h1; split <;> exact h2
  | qbx i j => simp only [sstep]; split; exact h1; split <;> exact h2
  | reset => exact sinvRR_sreset inp s
  | minxAll =>
    obtain ⟨sv, dc, sb, l, mv, dk, mo, vp, xp, hx⟩ := s
    refine ⟨?_, fun h => absurd h (by simp [sstep])⟩
    cases dc with
    | false => intro h; simp [sstep] at h
    | true =>
      intro _
      have hdec := hi.dec rfl
      simp only at hdec
      by_cases hn : inp.nullity = 0
      · have hv := hdec.2.1
        simp [svexpR, hn] at hv
        simp [sstep, svexpR, hn, hdec.1, hv]
      · have hm := hdec.2.2 (by omega)
        cases sb with
        | true => simp [sstep, svexpR, hn, hdec.1, hm.1, hm.2]
        | false =>
          have hv := hdec.2.1
          simp [svexpR, hn] at hv
          simp [sstep, svexpR, hn, hdec.1, hv, hm.1, hm.2]
  | minx l' =>
    obtain ⟨sv, dc, sb, l, mv, dk, mo, vp, xp, hx⟩ := s
    cases dc with
    | false =>
      exact ⟨fun h => absurd h (by simp [sstep]), fun h => absurd h (by simp [sstep])⟩
    | true =>
      have hdec := hi.dec rfl
      simp only at hdec
      by_cases hn : inp.nullity = 0
      · have hv := hdec.2.1
        simp [svexpR, hn] at hv
        refine ⟨fun _ => ?_, fun h => absurd h (by simp [sstep, hn])⟩
        simp [sstep, svexpR, hn, hdec.1, hv]
      · have h0 : 0 < inp.nullity := by omega
        have hm := hdec.2.2 h0
        have hne : (inp.nullity != 0) = true := by simp [hn]
        by_cases hres : inp.resolves l' = true
        · refine ⟨fun _ => ?_, fun h => absurd h (by simp [sstep, hne, minSubsetX, hres])⟩
          simp [sstep, hne, minSubsetX, svexpR, hn, hres, hdec.1, hm.1, hm.2]
        · have hres' : inp.resolves l' = false := by simpa using hres
          by_cases hl : l'.length < inp.nullity
          · refine ⟨fun _ => ?_, fun h => ?_⟩
            · simp [sstep, hne, minSubsetX, svexpR, hn, hres', hl, hdec.1, hm.1, hm.2]
            · have hsv : sv = true := by simpa [sstep, hne, minSubsetX, hres', hl] using h
              have hx' := (hi.solved hsv).2.1
              simp only at hx'
              refine ⟨by simp [sstep, hne, minSubsetX, hres', hl], ?_, Or.inl ?_⟩
              · simpa [sstep, hne, minSubsetX, hres', hl] using hx'
              · simp [RefusesS, sstep, hne, minSubsetX, hres', hl, h0]
          · refine ⟨fun _ => ?_, fun h => ?_⟩
            · simp [sstep, hne, minSubsetX, svexpR, hn, hres', hl, hdec.1, hm.1, hm.2]
            · have hsv : sv = true := by simpa [sstep, hne, minSubsetX, hres', hl] using h
              have hx' := (hi.solved hsv).2.1
              simp only at hx'
              refine ⟨by simp [sstep, hne, minSubsetX, hres', hl], ?_, Or.inl ?_⟩
              · simpa [sstep, hne, minSubsetX, hres', hl] using hx'
              · simp [RefusesS, sstep, hne, minSubsetX, hres', hl, h0]

/-- the invariant along ANY history, across inputs — no hypothesis on inputs, lists or outcomes -/
theorem hsrunRR (h : HS) (hi : SInvRR h.inp h.s) (ops : List HOp) :
    SInvRR (hsrun h ops).inp (hsrun h ops).s := by
  induction ops generalizing h with
  | nil => exact hi
  | cons o ops ih =>
    refine ih (h := (hsstep h o).1) ?_
    cases o with
    | q op => exact sstep_invRR h.inp h.s hi op
    | resetNew inp' => exact sinvRR_sreset inp' h.s

/-! ### the answers -/

/-- `svd()` of an undecomposed object with a refused configuration throws -/
theorem svdDecomp_undecomposed_refused (inp : Input) (s : SState) (hd : s.decomposed = false) (hr : RefusesS inp s) :
    (svdDecomp inp s).2 = true := by
  obtain ⟨h0, hsub, hres⟩ := hr
  have hn : ¬ inp.nullity = 0 := by omega
  simp only [svdDecomp, hd, hn, hsub, minSubsetX, hres]
  simp
  (repeat' split) <;> simp_all

/-- undecomposed with a refused configuration: `defect`/`lindep` are refused like by a fresh object -/
theorem undecomposed_step_eq_fresh (inp : Input) (s : SState) (hd : s.decomposed = false) (hr : RefusesS inp s)
    (q : Op) (hq : q.OnlyDecomposes) : (sstep inp s q).2 = sfresh inp s.sub s.list q := by
  have hqq : q.IsQuery := by cases q <;> simp_all [Op.OnlyDecomposes, Op.IsQuery]
  have hf : sfresh inp s.sub s.list q = .badReg := (sfresh_refused_iff inp s.sub s.list q hqq).2 hr
  rw [hf]
  have ht := svdDecomp_undecomposed_refused inp s hd hr
  cases q <;> simp only [Op.OnlyDecomposes] at hq <;> simp [sstep, ht]

/-- the configuration call that delivers the refusal: thrown by the object, accepted by a fresh one -/
theorem minxRefused_step (inp : Input) (s : SState) (op : Op) (h : MinxRefusedS inp s op) :
    (sstep inp s op).2 = .badReg ∧ sfresh inp s.sub s.list op = .ok := by
  cases op <;> simp only [MinxRefusedS] at h
  next l =>
    obtain ⟨hd, h0, hres⟩ := h
    have hne : (inp.nullity != 0) = true := by simp; omega
    refine ⟨?_, by simp [sfresh, sstep, sinit]⟩
    simp only [sstep, hd, hne, Bool.and_self, if_true, minSubsetX, Option.getD_some, hres]
    (repeat' split) <;> simp_all

/-- **one step, any operation, any outcome**: outside `StaleS` the answer — a value or the refusal — is that of a
    fresh object with the current input and configuration (the one exception is not a query: `min_x(n, list)` that
    itself throws, `MinxRefusedS`, see `minxRefused_step`) -/
theorem sstepR (inp : Input) (s : SState) (hi : SInvRR inp s) (hst : ¬ StaleS inp s) (op : Op)
    (hm : ¬ MinxRefusedS inp s op) : (sstep inp s op).2 = sfresh inp s.sub s.list op := by
  by_cases hr : RefusesS inp s
  · have hd : s.decomposed = false := by
      cases h : s.decomposed with
      | false => rfl
      | true => exact absurd ⟨hr, h⟩ hst
    have hs : s.solved = false := by
      cases h : s.solved with
      | false => rfl
      | true => rw [(hi.solved h).1] at hd; exact absurd hd (by simp)
    cases op with
    | unknowns => exact decomposed_unsolved_step_eq_fresh inp s hs hr _ trivial
    | residuals => exact decomposed_unsolved_step_eq_fresh inp s hs hr _ trivial
    | sumsq => exact decomposed_unsolved_step_eq_fresh inp s hs hr _ trivial
    | qxx i j => exact decomposed_unsolved_step_eq_fresh inp s hs hr _ trivial
    | qbb i j => exact decomposed_unsolved_step_eq_fresh inp s hs hr _ trivial
    | qbx i j => exact decomposed_unsolved_step_eq_fresh inp s hs hr _ trivial
    | defect => exact undecomposed_step_eq_fresh inp s hd hr _ trivial
    | lindep i => exact undecomposed_step_eq_fresh inp s hd hr _ trivial
    | minxAll => rfl
    | reset => rfl
    | minx l => simp [sstep, sfresh, sinit, hd]
  · have hS := sinv_of_invRR hi hr
    cases op with
    | unknowns => exact sstep_eq_fresh hS _ trivial
    | residuals => exact sstep_eq_fresh hS _ trivial
    | sumsq => exact sstep_eq_fresh hS _ trivial
    | qxx i j => exact sstep_eq_fresh hS _ trivial
    | qbb i j => exact sstep_eq_fresh hS _ trivial
    | qbx i j => exact sstep_eq_fresh hS _ trivial
    | defect => exact sstep_eq_fresh hS _ trivial
    | lindep i => exact sstep_eq_fresh hS _ trivial
    | minxAll => rfl
    | reset => rfl
    | minx l =>
      by_cases hok : inp.nullity = 0 ∨ inp.resolves l = true
      · exact sstep_eq_fresh hS _ hok
      · have hn : ¬ inp.nullity = 0 := fun h => hok (Or.inl h)
        have hres : inp.resolves l = false := by
          cases h : inp.resolves l with
          | false => rfl
          | true => exact absurd (Or.inr h) hok
        have hd : s.decomposed = false := by
          cases h : s.decomposed with
          | false => rfl
          | true => exact absurd ⟨h, by omega, hres⟩ hm
        simp [sstep, sfresh, sinit, hd]

theorem not_minxRefused_of_query (inp : Input) (s : SState) (q : Op) (hq : q.IsQuery) : ¬ MinxRefusedS inp s q := by
  cases q <;> simp only [Op.IsQuery] at hq <;> simp [MinxRefusedS]

/-- **the exact region, per query**: the answer differs from the fresh object's iff the configuration is refused for
    the current problem and the artefact the query goes through is held (`decomposed` for `defect`/`lindep`,
    `is_solved` for the others) -/
theorem sstep_fresh_iff (inp : Input) (s : SState) (hi : SInvRR inp s) (q : Op) (hq : q.IsQuery) :
    (sstep inp s q).2 = sfresh inp s.sub s.list q ↔ ¬ DiffersS inp s q := by
  unfold DiffersS
  by_cases hr : RefusesS inp s
  · by_cases ho : q.OnlyDecomposes
    · simp only [ho, if_true]
      cases hd : s.decomposed with
      | true => exact ⟨fun h => absurd h (decomposed_step_ne_fresh inp s hd hr q ho), fun h => absurd ⟨hr, rfl⟩ h⟩
      | false => exact ⟨fun _ h => absurd h.2 (by simp), fun _ => undecomposed_step_eq_fresh inp s hd hr q ho⟩
    · have hns : q.NeedsSolve := (Op.query_cases q hq).resolve_right ho
      simp only [ho, if_false]
      cases hs : s.solved with
      | true =>
        exact ⟨fun h => absurd h (pendingS_step_ne_fresh inp s hi.invR ⟨hs, hr⟩ q hq), fun h => absurd ⟨hr, rfl⟩ h⟩
      | false =>
        exact ⟨fun _ h => absurd h.2 (by simp), fun _ => decomposed_unsolved_step_eq_fresh inp s hs hr q hns⟩
  · exact ⟨fun _ h => hr h.1, fun _ => sstep_eq_fresh (sinv_of_invRR hi hr) q (by cases q <;> trivial)⟩

/-- `StaleS` is the union of the per-query regions -/
theorem staleS_iff_differs (inp : Input) (s : SState) (hi : SInvRR inp s) :
    StaleS inp s ↔ ∃ q : Op, q.IsQuery ∧ DiffersS inp s q := by
  constructor
  · intro h
    exact ⟨.defect, trivial, h.1, by simp [Op.OnlyDecomposes, h.2]⟩
  · rintro ⟨q, _, hr, h⟩
    refine ⟨hr, ?_⟩
    by_cases ho : q.OnlyDecomposes
    · simpa [ho] using h
    · exact (hi.solved (by simpa [ho] using h)).1

/-! ### history form -/

/-- **svd: history freedom across inputs — refusals included.**  After ANY history of queries, `min_x…`, `reset`,
    `reset(A', b')`, any of them refused or not, the answer to a query (a refusal included) is that of a brand-new
    object with the CURRENT input and configuration unless the object is in `StaleS` -/
theorem hs_history_free_with_refusals (inp0 : Input) (sub : Bool) (l0 : Option (List Nat)) (ops : List HOp) (q : Op) :
    let h := hsrun ⟨inp0, sinit sub l0⟩ ops
    ¬ StaleS h.inp h.s → ¬ MinxRefusedS h.inp h.s q → (hsstep h (.q q)).2 = sfresh h.inp h.s.sub h.s.list q := by
  intro h hst hm
  exact sstepR h.inp h.s (hsrunRR ⟨inp0, sinit sub l0⟩ (sinvRR_init inp0 sub l0) ops) hst q hm

/-- the same for queries (no side condition: a query is never a refused `min_x(n, list)`) -/
theorem hs_history_free_with_refusals_query (inp0 : Input) (sub : Bool) (l0 : Option (List Nat)) (ops : List HOp)
    (q : Op) :
    let h := hsrun ⟨inp0, sinit sub l0⟩ ops
    q.IsQuery → ¬ StaleS h.inp h.s → (hsstep h (.q q)).2 = sfresh h.inp h.s.sub h.s.list q := by
  intro h hq hst
  exact hs_history_free_with_refusals inp0 sub l0 ops q hst (not_minxRefused_of_query h.inp h.s q hq)

/-- the exact form along every history -/
theorem hs_fresh_iff (inp0 : Input) (sub : Bool) (l0 : Option (List Nat)) (ops : List HOp) (q : Op) :
    let h := hsrun ⟨inp0, sinit sub l0⟩ ops
    q.IsQuery → ((hsstep h (.q q)).2 = sfresh h.inp h.s.sub h.s.list q ↔ ¬ DiffersS h.inp h.s q) := by
  intro h hq
  exact sstep_fresh_iff h.inp h.s (hsrunRR ⟨inp0, sinit sub l0⟩ (sinvRR_init inp0 sub l0) ops) q hq

/-- the invariant behind it, along every history -/
theorem hs_invariant_with_refusals (inp0 : Input) (sub : Bool) (l0 : Option (List Nat)) (ops : List HOp) :
    let h := hsrun ⟨inp0, sinit sub l0⟩ ops
    SInvRR h.inp h.s :=
  hsrunRR ⟨inp0, sinit sub l0⟩ (sinvRR_init inp0 sub l0) ops

/-! ### non-vacuity -/

/-- a refused solve (`unknowns` with the list [1] on a system of defect 2), then `min_x([1,2])`: outside the region,
    the answers are the fresh ones (values); likewise after `reset` to a regular system and to a singular one the
    stored list resolves; `reset` to the same system: refused again, like a fresh object -/
example :
    let a : Input := { n := 4, nullity := 2, resolves := fun l => decide (2 ≤ l.length) }
    let b : Input := { n := 3, nullity := 0, resolves := fun _ => true }
    let c : Input := { n := 3, nullity := 1, resolves := fun l => decide (1 ≤ l.length) }
    let h0 : HS := ⟨a, sinit true (some [1])⟩
    (hsstep h0 (.q .unknowns)).2 = .badReg ∧
    (let h := hsrun h0 [.q .unknowns, .q (.minx [1, 2])]
     ¬ StaleS h.inp h.s ∧ (hsstep h (.q .unknowns)).2 = .x (.reg [1, 2])
       ∧ sfresh h.inp h.s.sub h.s.list .unknowns = .x (.reg [1, 2])
       ∧ (hsstep h (.q (.qxx 1 2))).2 = .qxx 1 2 none (.reg [1, 2])) ∧
    (let h := hsrun h0 [.q .unknowns, .resetNew b]
     ¬ StaleS h.inp h.s ∧ (hsstep h (.q .unknowns)).2 = .x .plain) ∧
    (let h := hsrun h0 [.q .unknowns, .resetNew c]
     ¬ StaleS h.inp h.s ∧ (hsstep h (.q .unknowns)).2 = .x (.reg [1])) ∧
    (let h := hsrun h0 [.q .unknowns, .resetNew a]
     ¬ StaleS h.inp h.s ∧ (hsstep h (.q .unknowns)).2 = .badReg ∧ (hsstep h (.q .defect)).2 = .badReg) := by
  refine ⟨by decide, ⟨by decide, by decide, by decide, by decide⟩, ⟨by decide, by decide⟩, ⟨by decide, by decide⟩,
    by decide, by decide, by decide⟩

/-- inside the region right after the refused solve: the refused `solve()` left `decomposed = true`, so `defect`
    answers where a fresh object refuses (`DiffersS … defect`), while `unknowns` is refused again, like a fresh
    object (`¬ DiffersS … unknowns`: `is_solved` is not set by a refused svd solve) -/
example :
    let a : Input := { n := 4, nullity := 2, resolves := fun l => decide (2 ≤ l.length) }
    let h := hsrun ⟨a, sinit true (some [1])⟩ [.q .unknowns]
    StaleS h.inp h.s ∧ DiffersS h.inp h.s .defect ∧ ¬ DiffersS h.inp h.s .unknowns
    ∧ (hsstep h (.q .defect)).2 = .defect ∧ sfresh h.inp h.s.sub h.s.list .defect = .badReg
    ∧ (hsstep h (.q .unknowns)).2 = .badReg ∧ sfresh h.inp h.s.sub h.s.list .unknowns = .badReg := by
  refine ⟨by decide, by decide, by decide, by decide, by decide, by decide, by decide⟩

/-- a `minV` saved for an EARLIER singular input survives `reset(A', b')`; it is not read before the next
    decomposition overwrites it: `unknowns` on `a`, `reset` to `c`, `defect`, `min_x()` (restores `V_ = minV`) -/
example :
    let a : Input := { n := 4, nullity := 2, resolves := fun l => decide (2 ≤ l.length) }
    let c : Input := { n := 3, nullity := 1, resolves := fun l => decide (1 ≤ l.length) }
    let h := hsrun ⟨a, sinit true (some [1, 2])⟩ [.q .unknowns, .resetNew c, .q .defect, .q .minxAll]
    ¬ StaleS h.inp h.s ∧ (hsstep h (.q (.qxx 1 1))).2 = .qxx 1 1 none .plain
    ∧ sfresh h.inp h.s.sub h.s.list (.qxx 1 1) = .qxx 1 1 none .plain := by
  refine ⟨by decide, by decide, by decide⟩

/-- the refused configuration call: `defect; min_x([1])` — the second call throws, a fresh object accepts it -/
example :
    let a : Input := { n := 4, nullity := 2, resolves := fun l => decide (2 ≤ l.length) }
    let h := hsrun ⟨a, sinit false none⟩ [.q .defect]
    ¬ StaleS h.inp h.s ∧ MinxRefusedS h.inp h.s (.minx [1]) ∧ (hsstep h (.q (.minx [1]))).2 = .badReg
    ∧ sfresh h.inp h.s.sub h.s.list (.minx [1]) = .ok := by
  refine ⟨by decide, by decide, by decide, by decide⟩

end Gama.C04.Full
