/-
  C14 round 7 — ONE revision rule: `PE.revise` (`MinX.isRevised`, the first step of the executed model
  of `project_equations()`) IS `Rev.revise` (C14: regenerated requirement table and target loop) read
  through the dictionary `RevPE.netOf`.  A change of `Gen.requirements` that is not mirrored by
  `MinX.Obs.needs` breaks `reqOk_needs` below.
-/
import Gama.Model.RevisePE
import Gama.Lemmas.ReviseLoop
import Gama.Lemmas.ReviseDelete
namespace Gama.RevPE
open Gama Gama.Rev

variable {K : Type}

/-! ### points: `PD.find(id)` by position -/

theorem findPt_ptsFrom : ∀ (l : List (PE.Point K)) (k i : Nat),
    findPt (ptsFrom k l) i = if i < k then none else (l[i - k]?).map (ptOf i)
  | [], k, i => by simp [ptsFrom, findPt]
  | p :: l, k, i => by
    have ih := findPt_ptsFrom l (k + 1) i
    unfold findPt at ih ⊢
    simp only [ptsFrom, List.find?_cons]
    by_cases h : k = i
    · subst h; simp [ptOf]
    · have hid : ((ptOf k p).id == i) = false := by simp [ptOf, h]
      rw [hid]
      simp only
      rw [ih]
      by_cases h2 : i < k
      · have h3 : i < k + 1 := by omega
        simp [h2, h3]
      · have h3 : ¬ i < k + 1 := by omega
        have h4 : i - k = (i - (k + 1)) + 1 := by omega
        simp [h2, h3, h4]

theorem findPt_netOf [Zero K] (net : PE.Net K) (i : Nat) :
    findPt (netOf net).pts i = (net.points[i]?).map (ptOf i) := by
  show findPt (ptsFrom 0 net.points) i = _
  rw [findPt_ptsFrom]
  simp

theorem xy_active (net : PE.Net K) (i : Nat) :
    (MinX.xyOf (PE.ptsOf net) i).active =
      match net.points[i]? with
      | none => false
      | some p => (stOf p.pt.sxy).active := by
  unfold MinX.xyOf PE.ptsOf
  rw [List.getElem?_map]
  cases net.points[i]? with
  | none => rfl
  | some p => simp only [Option.map_some]; cases p.pt.sxy <;> rfl

theorem z_active (net : PE.Net K) (i : Nat) :
    (MinX.zOf (PE.ptsOf net) i).active =
      match net.points[i]? with
      | none => false
      | some p => (stOf p.pt.sz).active := by
  unfold MinX.zOf PE.ptsOf
  rw [List.getElem?_map]
  cases net.points[i]? with
  | none => rfl
  | some p => simp only [Option.map_some]; cases p.pt.sz <;> rfl

/-! ### `LocalRevision` — the regenerated table against the hand-written `needs` of C08 -/

/-- the requirement table regenerated from local_revision.cpp and `MinX.Obs.needs` (C08, by hand) say
    the same about every observation of a network whose taking-part groups have coordinates -/
theorem reqOk_needs [Zero K] (net : PE.Net K) (k : Nat) (o : PE.Ob K) :
    reqOk (netOf net).pts (obOf o) =
      (o.toMinX k).2.needs.all fun pg =>
        if pg.2 then (MinX.xyOf (PE.ptsOf net) pg.1).active else (MinX.zOf (PE.ptsOf net) pg.1).active := by
  unfold reqOk
  cases hk : o.kind <;>
    simp only [obOf, hk, tyOf, Gen.requirements, List.all_cons, List.all_nil, Obs.roleId, findPt_netOf,
      PE.Ob.toMinX, PE.kindM, MinX.Obs.needs, xy_active, z_active, Bool.and_true, if_true, Bool.false_eq_true,
      if_false] <;>
    cases net.points[o.pfrom]? <;> cases net.points[o.pto]? <;> cases net.points[o.pfs]? <;>
    simp [Pt.flag, ptOf, Bool.and_assoc, Bool.and_comm, Bool.and_left_comm]

theorem localRev_active [Zero K] (net : PE.Net K) (k : Nat) (o : PE.Ob K) :
    (localRev (netOf net).pts (obOf o)).active = MinX.activeBasic (PE.ptsOf net) (o.toMinX k) := by
  unfold localRev MinX.activeBasic
  rw [reqOk_needs net k o]
  rfl

theorem ty_direction (kd : Lin.Kind) : (tyOf kd == ObsType.direction) = (PE.kindM kd == MinX.Kind.direction) := by
  cases kd <;> rfl

/-! ### the cluster walk: `flatFrom` filtered by stand-point number -/

theorem flatFrom_sp_ge : ∀ (cs : List (PE.Cluster K)) (j : Nat), ∀ fo ∈ PE.flatFrom j cs, j ≤ fo.2.sp
  | [], _, fo, h => by simp [PE.flatFrom] at h
  | c :: cs, j, fo, h => by
    simp only [PE.flatFrom, List.mem_append, List.mem_map] at h
    rcases h with ⟨o, _, rfl⟩ | h
    · simp [PE.Ob.toMinX]
    · have := flatFrom_sp_ge cs (j + 1) fo h; omega

theorem flatFrom_filter_sp : ∀ (cs : List (PE.Cluster K)) (j i : Nat) (c : PE.Cluster K), cs[i]? = some c →
    (PE.flatFrom j cs).filter (fun fo => fo.2.sp == j + i) = c.obs.map (PE.Ob.toMinX (j + i))
  | [], _, _, _, h => by simp at h
  | c0 :: cs, j, 0, c, h => by
    simp only [List.getElem?_cons_zero, Option.some.injEq] at h
    subst h
    simp only [PE.flatFrom, List.filter_append, Nat.add_zero]
    have h1 : (c0.obs.map (PE.Ob.toMinX j)).filter (fun fo => fo.2.sp == j) = c0.obs.map (PE.Ob.toMinX j) := by
      rw [List.filter_eq_self]
      intro fo hfo
      obtain ⟨o, _, rfl⟩ := List.mem_map.mp hfo
      simp [PE.Ob.toMinX]
    have h2 : (PE.flatFrom (j + 1) cs).filter (fun fo => fo.2.sp == j) = [] := by
      rw [List.filter_eq_nil_iff]
      intro fo hfo
      have := flatFrom_sp_ge cs (j + 1) fo hfo
      simp only [beq_iff_eq]; omega
    rw [h1, h2, List.append_nil]
  | c0 :: cs, j, i + 1, c, h => by
    simp only [List.getElem?_cons_succ] at h
    simp only [PE.flatFrom, List.filter_append]
    have h1 : (c0.obs.map (PE.Ob.toMinX j)).filter (fun fo => fo.2.sp == j + (i + 1)) = [] := by
      rw [List.filter_eq_nil_iff]
      intro fo hfo
      obtain ⟨o, _, rfl⟩ := List.mem_map.mp hfo
      simp [PE.Ob.toMinX]
    have h2 := flatFrom_filter_sp cs (j + 1) i c h
    have e : j + 1 + i = j + (i + 1) := by omega
    rw [e] at h2
    rw [h1, h2, List.nil_append]

theorem dirTargets_cluster (pts : List MinX.PtS) (all : List (Bool × MinX.Obs)) (k : Nat) (l : List (Bool × MinX.Obs))
    (h : all.filter (fun fo => fo.2.sp == k) = l) :
    MinX.dirTargets pts all k =
      ((l.filter (fun fo => fo.2.kind == .direction && MinX.activeBasic pts fo)).map (·.2.pto)).eraseDups := by
  unfold MinX.dirTargets
  rw [← h, List.filter_filter]
  congr 2
  apply List.filter_congr
  intro fo _
  cases (fo.2.kind == MinX.Kind.direction) <;> cases (fo.2.sp == k) <;> cases (MinX.activeBasic pts fo) <;> rfl

theorem targets_eq [Zero K] (net : PE.Net K) (k : Nat) : ∀ os : List (PE.Ob K),
    ((os.map (PE.Ob.toMinX k)).filter (fun fo => fo.2.kind == .direction && MinX.activeBasic (PE.ptsOf net) fo)).map (·.2.pto)
      = (((os.map obOf).map (localRev (netOf net).pts)).filter isActiveDir).map (·.to)
  | [] => rfl
  | o :: os => by
    have ih := targets_eq net k os
    have hc : isActiveDir (localRev (netOf net).pts (obOf o)) =
        ((PE.Ob.toMinX k o).2.kind == .direction && MinX.activeBasic (PE.ptsOf net) (PE.Ob.toMinX k o)) := by
      unfold isActiveDir
      rw [localRev_active net k o]
      show (tyOf o.kind == ObsType.direction && _) = (PE.kindM o.kind == MinX.Kind.direction && _)
      rw [ty_direction]
    simp only [List.map_cons, List.filter_cons, hc]
    split
    · simp only [List.map_cons, ih]; rfl
    · exact ih

/-! ### one cluster -/

theorem cluster_ext {a b : Cluster K} (h1 : a.stand = b.stand) (h2 : a.obs = b.obs) (h3 : a.actObs = b.actObs)
    (h4 : a.cov = b.cov) : a = b := by
  cases a; cases b; simp_all

theorem obs_ext_active {a b : Obs K} (h : a = { b with active := a.active }) (h' : a.active = b.active) : a = b := by
  rw [h, h']

theorem bool_rule (st dk ab : Bool) (n : Nat) (hnd : st = false → dk = false) :
    (if (st && decide (n < 2)) = true then (!dk && ab) else ab) = (ab && (!dk || decide (2 ≤ n))) := by
  by_cases hn : n < 2
  · have h2 : ¬ 2 ≤ n := by omega
    cases st <;> cases dk <;> cases ab <;> simp_all
  · have h2 : 2 ≤ n := by omega
    cases st <;> cases dk <;> cases ab <;> simp_all

/-- what `PE.revise` does to cluster number `k` -/
def peCl (pts : List MinX.PtS) (all : List (Bool × MinX.Obs)) (k : Nat) (c : PE.Cluster K) : PE.Cluster K :=
  { c with obs := c.obs.map fun o => { o with active := MinX.isRevised pts all (o.toMinX k) } }

theorem reviseCl_bridge [Zero K] (net : PE.Net K) (all : List (Bool × MinX.Obs)) (k : Nat) (c : PE.Cluster K)
    (hall : all.filter (fun fo => fo.2.sp == k) = c.obs.map (PE.Ob.toMinX k))
    (hdir : c.stand = none → ∀ ob ∈ c.obs, ob.kind ≠ .direction) :
    reviseCl (netOf net).pts (clOf c) = updateCl (clOf (peCl (PE.ptsOf net) all k c)) := by
  have hsc := reviseCl_stand_cov (netOf net).pts (clOf c)
  have hD : distinctTargets ((clOf c).obs.map (localRev (netOf net).pts)) =
      (MinX.dirTargets (PE.ptsOf net) all k).length := by
    rw [dirTargets_cluster _ _ _ _ hall, targets_eq net k c.obs]
    rfl
  have hobs : (reviseCl (netOf net).pts (clOf c)).obs = (clOf (peCl (PE.ptsOf net) all k c)).obs := by
    rw [reviseCl_obs, hD]
    show (c.obs.map obOf).map _ = (c.obs.map _).map obOf
    rw [List.map_map, List.map_map]
    apply List.map_congr_left
    intro o ho
    simp only [Function.comp]
    have hAB := localRev_active net k o
    have hty : (localRev (netOf net).pts (obOf o)).ty = tyOf o.kind := rfl
    have hpd : (passDir (localRev (netOf net).pts (obOf o))).active =
        (!(PE.kindM o.kind == MinX.Kind.direction) && MinX.activeBasic (PE.ptsOf net) (PE.Ob.toMinX k o)) := by
      unfold passDir
      rw [hty, ty_direction]
      cases hdk : (PE.kindM o.kind == MinX.Kind.direction)
      · simp [hAB]
      · simp
    have hnd : (clOf c).stand = false → (PE.kindM o.kind == MinX.Kind.direction) = false := by
      intro hs
      have hst : c.stand = none := by
        cases hc : c.stand with
        | none => rfl
        | some v => simp [clOf, hc] at hs
      have := hdir hst o ho
      cases hk : o.kind <;> simp_all [PE.kindM]
    generalize hX : (if ((clOf c).stand && decide ((MinX.dirTargets (PE.ptsOf net) all k).length < 2)) = true
      then passDir (localRev (netOf net).pts (obOf o)) else localRev (netOf net).pts (obOf o)) = X
    have hshape : X = { obOf o with active := X.active } := by
      rw [← hX]
      split
      · unfold passDir; split <;> rfl
      · rfl
    have hact : X.active = MinX.isRevised (PE.ptsOf net) all (PE.Ob.toMinX k o) := by
      have h1 : X.active = if ((clOf c).stand && decide ((MinX.dirTargets (PE.ptsOf net) all k).length < 2)) = true
          then (!(PE.kindM o.kind == MinX.Kind.direction) && MinX.activeBasic (PE.ptsOf net) (PE.Ob.toMinX k o))
          else MinX.activeBasic (PE.ptsOf net) (PE.Ob.toMinX k o) := by
        rw [← hX]; split
        · exact hpd
        · exact hAB
      rw [h1]
      unfold MinX.isRevised
      show _ = (MinX.activeBasic (PE.ptsOf net) (PE.Ob.toMinX k o) &&
        (PE.kindM o.kind != MinX.Kind.direction || decide (2 ≤ (MinX.dirTargets (PE.ptsOf net) all k).length)))
      exact bool_rule _ _ _ _ hnd
    rw [hshape, hact]
    rfl
  apply cluster_ext
  · rw [hsc.1]; rfl
  · rw [hobs]; rfl
  · show ((reviseCl (netOf net).pts (clOf c)).obs.filter (·.active)).length = _
    · rw [hobs]; rfl
  · rw [hsc.2]; rfl

/-! ### the network -/

theorem reviseFrom_bridge [Zero K] (net : PE.Net K) (all : List (Bool × MinX.Obs)) : ∀ (cs : List (PE.Cluster K)) (j : Nat),
    (∀ i c, cs[i]? = some c → all.filter (fun fo => fo.2.sp == j + i) = c.obs.map (PE.Ob.toMinX (j + i))) →
    (∀ c ∈ cs, c.stand = none → ∀ ob ∈ c.obs, ob.kind ≠ .direction) →
    (cs.map clOf).map (reviseCl (netOf net).pts) = ((PE.reviseFrom (PE.ptsOf net) all j cs).map clOf).map updateCl
  | [], _, _, _ => rfl
  | c :: cs, j, hall, hdir => by
    simp only [List.map_cons, PE.reviseFrom]
    have h0 := reviseCl_bridge net all j c (by simpa using hall 0 c rfl) (hdir c (by simp))
    have ht := reviseFrom_bridge net all cs (j + 1)
      (fun i c' hc' => by
        have := hall (i + 1) c' (by simpa using hc')
        have e : j + (i + 1) = j + 1 + i := by omega
        rw [e] at this; exact this)
      (fun c' hc' => hdir c' (by simp [hc']))
    rw [h0, ht]
    rfl

theorem revisePt_ptOf (i : Nat) (p : PE.Point K) : revisePt (ptOf i p) = ptOf i p := by
  simp [revisePt, missingXY, missingZ, ptOf]

theorem map_revisePt_ptsFrom : ∀ (l : List (PE.Point K)) (k : Nat), (ptsFrom k l).map revisePt = ptsFrom k l
  | [], _ => rfl
  | p :: l, k => by simp only [ptsFrom, List.map_cons, revisePt_ptOf, map_revisePt_ptsFrom l (k + 1)]

/-- **ONE REVISION RULE.**  For a network whose directions live in stand-point clusters: C14's
    `revise` run on the dictionary image of the network leaves the points alone and gives every
    cluster exactly the `active()` flags the executed model of `project_equations()` gives it
    (`updateCl` = `Cluster::update()`, the `act_obs` counter `PE` does not carry). -/
theorem revise_bridge [Zero K] (net : PE.Net K) (h : DirInStand net) :
    (Rev.revise (netOf net)).pts = (netOf net).pts ∧
    (Rev.revise (netOf net)).cls = (netOf (PE.revise net)).cls.map updateCl := by
  have hp : (revisionPoints (netOf net)).pts = (netOf net).pts := map_revisePt_ptsFrom _ 0
  refine ⟨hp, ?_⟩
  show (revisionPoints (netOf net)).cls.map (reviseCl (revisionPoints (netOf net)).pts) = _
  rw [hp]
  show (net.clusters.map clOf).map (reviseCl (netOf net).pts) = _
  rw [reviseFrom_bridge net (PE.flatFrom 0 net.clusters) net.clusters 0
    (fun i c hc => flatFrom_filter_sp net.clusters 0 i c hc) h]
  rfl

/-! ### consequences: `revised_obs_`, the views -/

theorem filter_map_ofN (k : Nat) : ∀ os : List (PE.Ob K),
    ((os.filter (·.active)).map (PE.Ob.toN k)).map ofN = (os.map obOf).filter (·.active)
  | [] => rfl
  | o :: os => by
    have ih := filter_map_ofN k os
    cases h : o.active
    · have h' : (obOf o).active = false := h
      simp only [List.filter_cons, h, List.map_cons, h', Bool.false_eq_true, if_false]
      exact ih
    · have h' : (obOf o).active = true := h
      simp only [List.filter_cons, h, List.map_cons, h', if_true, ih]
      congr 1
      show ofN (PE.Ob.toN k o) = obOf o
      unfold ofN obOf PE.Ob.toN
      simp [h]

theorem revisedFrom_ofN : ∀ (cs : List (PE.Cluster K)) (j : Nat),
    (PE.revisedFrom j cs).map ofN = (cs.flatMap fun c => c.obs.map obOf).filter (·.active)
  | [], _ => rfl
  | c :: cs, j => by
    simp only [PE.revisedFrom, List.map_append, List.flatMap_cons, List.filter_append, revisedFrom_ofN cs (j + 1),
      filter_map_ofN]

theorem allObs_map_updateCl (cs : List (Cluster K)) : allObs (cs.map updateCl) = allObs cs := by
  unfold allObs
  rw [List.flatMap_map]
  rfl

/-- `revised_obs_` as the executed model of `project_equations()` lists it IS `revised_obs_` of C14's model -/
theorem revised_bridge [Zero K] (net : PE.Net K) (h : DirInStand net) :
    (PE.revisedObs (PE.revise net)).map ofN = (Rev.revise (netOf net)).revised := by
  show _ = (allObs (Rev.revise (netOf net)).cls).filter (·.active)
  rw [(revise_bridge net h).2, allObs_map_updateCl]
  unfold PE.revisedObs
  rw [revisedFrom_ofN]
  show _ = (allObs ((PE.revise net).clusters.map clOf)).filter (·.active)
  unfold allObs
  rw [List.flatMap_map]
  rfl

/-- what the adjustment reads (C14's views) of the two revised states is the same -/
theorem views_bridge [Zero K] (net : PE.Net K) (h : DirInStand net) :
    activeView (Rev.revise (netOf net)) = activeView (netOf (PE.revise net)) ∧
    adjustmentView (Rev.revise (netOf net)) = adjustmentView (netOf (PE.revise net)) := by
  obtain ⟨hp, hc⟩ := revise_bridge net h
  have hp' : (Rev.revise (netOf net)).pts = (netOf (PE.revise net)).pts := hp
  unfold activeView adjustmentView
  rw [hp', hc, List.map_map, List.map_map]
  exact ⟨rfl, rfl⟩

end Gama.RevPE
