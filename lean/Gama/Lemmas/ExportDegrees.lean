/-
  C13, output in degrees (`angles="360"`): the two laws `Codec.Printer` / `Codec.DegLawfulOn` assume about the sexagesimal
  branch, checked against what they stand for.

  * `* 0.324` (DisplayObservationVisitor `scale`, `unit[n]` of updated_xml_covmat) and `* (1.0/0.324)` (`scaleCov` in
    `GKFparser::finish_obs`) are mutually inverse over a field — `fromSec (toSec x) = x`, `toSec (fromSec x) = x`;
  * `gon2deg(m, 0, 4)` / `deg2gon` — the SHARED models of C18 (`Gama.Angles.gon2deg`, `Gama.Angles.deg2gon`, the formatter
    the tree contains): the text export_xml writes for an angular value is accepted by the parser's `deg2gon` and reads
    back within half a unit of the fourth decimal of the seconds (C18 `C18_deg2gon_gon2deg_string`) — the quantisation
    `qd` of `Codec.Printer`, with its size.
-/
import Gama.Lemmas.GeoRoundTrip
import Gama.Lemmas.ExportQuant
import Mathlib.Tactic.FieldSimp
import Mathlib.Tactic.Ring
namespace Gama.Export

/-- 0.324 = 360·60·60 / 400 / 100 / 100: sexagesimal seconds per centesimal second (cc) -/
theorem sec_factor_value : (324 / 1000 : ℚ) = 360 * 60 * 60 / 400 / 100 / 100 := by norm_num

/-- the factors of export (`* 0.324`) and parser (`* (1.0/0.324)`) cancel, in both orders, over any field in which
    0.324 ≠ 0 -/
theorem sec_factors_cancel {F : Type} [Field F] (h : (324 / 1000 : F) ≠ 0) (x : F) :
    x * (324 / 1000) * (1 / (324 / 1000)) = x ∧ x * (1 / (324 / 1000)) * (324 / 1000) = x := by
  have h324 : (324 : F) ≠ 0 := fun e => h (by rw [e, zero_div])
  have h1000 : (1000 : F) ≠ 0 := fun e => h (by rw [e, div_zero])
  constructor <;> field_simp

/-- the value the parser's `deg2gon` reads from the text `gon2deg(g, 0, 4)` export_xml writes (0 when refused) -/
noncomputable def degQ (g : ℚ) : ℚ := (((Angles.gon2deg g 0 4).bind fun s => (Angles.deg2gon s : Option ℚ))).getD 0

/-- for every angle 0 ≤ g (an observed direction, angle, zenith angle or azimuth; `|g|·0.9 < 2³¹−1`) the exported
    sexagesimal text is read back, and what is read differs from `g` by at most 0.00005″ = 1.55·10⁻⁸ gon -/
theorem sexagesimal_read_back (g : ℚ) (h0 : 0 ≤ g) (hg : g * (9 / 10) < 2147483647) :
    ((Angles.gon2deg g 0 4).bind fun s => (Angles.deg2gon s : Option ℚ)) = some (degQ g) ∧
    |degQ g - g| ≤ (1 / 2) / (10 : ℚ) ^ 4 / 3600 / (9 / 10) := by
  have habs : |g| = g := abs_of_nonneg h0
  have hc : Gama.Gen.gon2degCarry = true ∧ Gama.Gen.gon2degAbs = true := ⟨by decide, by decide⟩
  obtain ⟨str, v, h1, h2, h3⟩ := Angles.deg2gon_gon2deg_string g 0 4 (by rw [habs]; exact hg)
  have hs : Angles.gon2deg g 0 4 = some str := by
    unfold Angles.gon2deg
    rw [hc.1, hc.2]
    exact h1
  have hq : degQ g = v := by
    unfold degQ
    rw [hs]
    simp [h2]
  refine ⟨by rw [hs, hq]; simp [h2], ?_⟩
  rw [hq]
  have : (if (0 : ℤ) = 1 ∨ (0 : ℤ) = 2 ∨ (0 : ℤ) = 3 then g else |g|) = g := by
    simp [habs]
  rw [this] at h3
  exact h3

end Gama.Export
