/-
  C13, output in degrees (`angles="360"`): the two laws `Codec.Printer` / `Codec.DegLawfulOn` assume about the sexagesimal
  branch, checked against what they stand for.

  * `* 0.324` (DisplayObservationVisitor `scale`, `unit[n]` of updated_xml_covmat) and `* (1.0/0.324)` (`scaleCov` in
    `GKFparser::finish_obs`) are mutually inverse over a field — `fromSec (toSec x) = x`, `toSec (fromSec x) = x`;
  * `gon2deg(m, 0, 4)` / `deg2gon` — the SHARED models of C18 (`Gama.Angles.gon2deg`, `Gama.Angles.deg2gon`, the formatter
    the tree contains): the text export_xml writes for an angular value is accepted by the parser's `deg2gon` and reads
    back within half a unit of the fourth decimal of the seconds (C18 `C18_deg2gon_gon2deg_string`) — the quantisation
    `qd` of `Codec.Printer`, with its size.
-/
import Gama.Lemmas.GeoRoundTrip
import Gama.Lemmas.ExportQuant
import Mathlib.Tactic.FieldSimp
import Mathlib.Tactic.Ring
namespace Gama.Export

/-- 0.324 = 360·60·60 / 400 / 100 / 100: sexagesimal seconds per centesimal second (cc) -/
theorem sec_factor_value : (324 / 1000 : ℚ) = 360 * 60 * 60 / 400 / 100 / 100 := by norm_num

/-- the factors of export (`* 0.324`) and parser (`* (1.0/0.324)`) cancel, in both orders, over any field in which
    0.324 ≠ 0 -/
theorem sec_factors_cancel {F : Type} [Field F] (h : (324 / 1000 : F) ≠ 0) (x : F) :
    x * (324 / 1000) * (1 / (324 / 1000)) = x ∧ x * (1 / (324 / 1000)) * (324 / 1000) = x := by
  have h324 : (324 : F) ≠ 0 := fun e => h (by rw [e, zero_div])
  have h1000 : (1000 : F) ≠ 0 := fun e => h (by rw [e, div_zero])
  constructor <;> field_simp

/-- the value the parser's `deg2gon` reads from the text `gon2deg(g, 0, 4)` export_xml writes (0 when refused) -/
def degQ (g : ℚ) : ℚ := (((Angles.gon2deg g 0 4).bind fun s => (Angles.deg2gon s : Option ℚ))).getD 0

/-- for every angle 0 ≤ g (an observed direction, angle, zenith angle or azimuth; `|g|·0.9 < 2³¹−1`) the exported
    sexagesimal text is read back, and what is read differs from `g` by at most 0.00005″ = 1.55·10⁻⁸ gon -/
theorem sexagesimal_read_back (g : ℚ) (h0 : 0 ≤ g) (hg : g * (9 / 10) < 2147483647) :
    ((Angles.gon2deg g 0 4).bind fun s => (Angles.deg2gon s : Option ℚ)) = some (degQ g) ∧
    |degQ g - g| ≤ (1 / 2) / (10 : ℚ) ^ 4 / 3600 / (9 / 10) := by
  have habs : |g| = g := abs_of_nonneg h0
  have hc : Gama.Gen.gon2degCarry = true ∧ Gama.Gen.gon2degAbs = true := ⟨by decide, by decide⟩
  obtain ⟨str, v, h1, h2, h3⟩ := Angles.deg2gon_gon2deg_string g 0 4 (by rw [habs]; exact hg)
  have hs : Angles.gon2deg g 0 4 = some str := by
    unfold Angles.gon2deg
    rw [hc.1, hc.2]
    exact h1
  have hq : degQ g = v := by
    unfold degQ
    rw [hs]
    simp [h2]
  refine ⟨by rw [hs, hq]; simp [h2], ?_⟩
  rw [hq]
  have : (if (0 : ℤ) = 1 ∨ (0 : ℤ) = 2 ∨ (0 : ℤ) = 3 then g else |g|) = g := by
    simp [habs]
  rw [this] at h3
  exact h3

end Gama.Export

/-! ## round 6: the value read back, explicitly, and the projection law of the real sexagesimal printer

C18's `deg2gon_gon2deg_string` says the text is read back as SOME `v` within half a unit.  `Codec.PrinterOn` also needs
`fmtDeg (qd x) = fmtDeg x`: the value read back re-prints as the same text.  For that the value must be known: it is the
angle the printed fields denote (`Printed.gon`), and splitting that angle again gives the printed fields back (the
seconds have exactly `prec` decimals and are below 60 after the carry). -/

namespace Gama.Angles
open Gama.Grammar

/-- reading the text of printed fields that are in range gives the angle they denote (no sign is printed in mode 0) -/
theorem deg2gon_renderGon0 (p : Printed) (pd0 : 0 ≤ p.d) (hdmax : p.d ≤ 2147483647) (pm0 : 0 ≤ p.m) (pm60 : p.m < 60)
    (pn0 : 0 ≤ p.n) (pn60 : p.n < 60 * (10 : ℤ) ^ p.prec) (psz : p.secNegZero = false) :
    (deg2gon (p.renderGon 0) : Option ℚ) = some p.gon := by
  have hpd : p.d.toNat ≤ intMax := by unfold intMax; omega
  obtain ⟨sp1, sp2, h1, h2, hlay⟩ := renderGon_layout p 0 pd0 pn0 psz
  obtain ⟨c0, sec', hsecL, hc0, hsecsp, hread⟩ := seconds_field p.n.toNat p.prec
  have hMl : (padLeft '0' 2 (toString p.m)).toList = List.replicate (2 - (natL p.m.toNat).length) '0' ++ natL p.m.toNat := by
    rw [padLeft_toList, intStr_toList pm0]
  have hMd : ∀ c ∈ List.replicate (2 - (natL p.m.toNat).length) '0' ++ natL p.m.toNat, Grammar.isDigit c = true := by
    intro c hc; rcases List.mem_append.mp hc with h | h
    · exact zeros_digits _ c h
    · exact natL_digits _ c h
  have hMne : List.replicate (2 - (natL p.m.toNat).length) '0' ++ natL p.m.toNat ≠ [] := by
    have := natL_ne_nil p.m.toNat; simp [this]
  have hMv : val (List.replicate (2 - (natL p.m.toNat).length) '0' ++ natL p.m.toNat) = p.m.toNat := by
    rw [val_zeros_append, val_natL]
  have hfit : secFits (p.n.toNat, -(p.prec : ℤ)) = true := by
    unfold secFits
    cases hpz : p.prec with
    | zero =>
      simp only [Int.natCast_zero, neg_zero]
      show ((p.n.toNat == 0) || (decide (0 ≤ 309) && decide (p.n.toNat * 10 ^ 0 < dblOverflow))) = true
      have : p.n.toNat < dblOverflow := by
        have : p.n < 60 := by rw [hpz] at pn60; simpa using pn60
        have := dblOverflow_ge; omega
      simp [this]
    | succ k =>
      show (decide (p.n.toNat.log2 ≤ k) || decide (p.n.toNat < dblOverflow * 10 ^ (k + 1))) = true
      have : p.n.toNat < dblOverflow * 10 ^ (k + 1) := by
        have h60 : p.n < 60 * (10 : ℤ) ^ (k + 1) := by rw [hpz] at pn60; exact pn60
        have : p.n.toNat < 60 * 10 ^ (k + 1) := by
          have : (p.n.toNat : ℤ) < ((60 * 10 ^ (k + 1) : ℕ) : ℤ) := by
            rw [Int.toNat_of_nonneg pn0]; push_cast; exact h60
          exact_mod_cast this
        calc p.n.toNat < 60 * 10 ^ (k + 1) := this
          _ ≤ dblOverflow * 10 ^ (k + 1) := Nat.mul_le_mul_right _ dblOverflow_ge
      simp [this]
  have hs0 : decide (p.neg = true ∧ ((0 : ℤ) = 1 ∨ (0 : ℤ) = 2 ∨ (0 : ℤ) = 3)) = false := by simp
  have hparse := parseDms_layout sp1 sp2 false p.d.toNat p.m.toNat _ sec' c0
    (p.n.toNat, -(p.prec : ℤ)) h1 h2 hpd hMd hMne hMv (by unfold intMax; omega) hc0 hsecsp hread hfit
  have hstr : String.ofList (p.renderGon 0).toList = p.renderGon 0 := String.ofList_toList
  rw [hMl, hsecL, hs0] at hlay
  rw [← hlay, hstr] at hparse
  have hgon : ((Scalar.ofInt (p.d.toNat : ℤ) : ℚ) / Scalar.ofNat 360 + Scalar.ofInt (p.m.toNat : ℤ) / Scalar.ofNat 21600
      + sciToK (p.n.toNat, -(p.prec : ℤ)) / Scalar.ofNat 1296000) * Scalar.ofNat 400 = p.gon := by
    rw [sciToK_rat, ofInt_rat, ofInt_rat, ofNat_rat, ofNat_rat, ofNat_rat, ofNat_rat]
    unfold Printed.gon
    have e1 : ((p.d.toNat : ℤ) : ℚ) = (p.d : ℚ) := by rw [Int.toNat_of_nonneg pd0]
    have e2 : ((p.m.toNat : ℤ) : ℚ) = (p.m : ℚ) := by rw [Int.toNat_of_nonneg pm0]
    have e3 : ((p.n.toNat : ℕ) : ℚ) = (p.n : ℚ) := by
      have : ((p.n.toNat : ℤ) : ℚ) = (p.n : ℚ) := by rw [Int.toNat_of_nonneg pn0]
      exact_mod_cast this
    rw [e1, e2, e3]; norm_num
  unfold deg2gon
  rw [hparse]
  show some (if (!(Scalar.beq _ (0 : ℚ)) && false) = true then _ else _) = _
  rw [Bool.and_false]
  simp only [Bool.false_eq_true, if_false]
  rw [hgon]

/-- an integer rounds to itself -/
theorem roundHalfEven_intCast (n : ℤ) : roundHalfEven (n : ℚ) = n := by
  have h0 : ((n : ℚ)).floor = n := Rat.floor_intCast n
  unfold roundHalfEven
  simp only [h0, sub_self]
  norm_num

/-- seconds with exactly `prec` decimals are printed as they are -/
theorem scaled_of_decimal (n : ℤ) (prec : ℕ) : scaled ((n : ℚ) / (10 : ℚ) ^ prec) prec = n := by
  unfold scaled
  have hp := pow10_pos prec
  rw [div_mul_cancel₀ _ (ne_of_gt hp)]
  exact roundHalfEven_intCast n

/-- the fields of an angle given by fields in range are those fields (uniqueness of the sexagesimal splitting) -/
theorem splitDeg_of_fields (neg : Bool) (d m : ℤ) (s : ℚ) (hd : 0 ≤ d) (hm0 : 0 ≤ m) (hm : m < 60) (hs0 : 0 ≤ s) (hs : s < 60) :
    splitDeg neg ((d : ℚ) + (m : ℚ) / 60 + s / 3600) = { neg, d, m, s } := by
  have hmq0 : (0 : ℚ) ≤ (m : ℚ) := by exact_mod_cast hm0
  have hmq : (m : ℚ) ≤ 59 := by
    have : m ≤ 59 := by omega
    exact_mod_cast this
  have hdq : (0 : ℚ) ≤ (d : ℚ) := by exact_mod_cast hd
  have hx : (0 : ℚ) ≤ (d : ℚ) + (m : ℚ) / 60 + s / 3600 := by positivity
  have h := splitDeg_spec neg hx
  generalize splitDeg neg ((d : ℚ) + (m : ℚ) / 60 + s / 3600) = f at h
  obtain ⟨fn, fd, fm, fs⟩ := f
  simp only at h
  obtain ⟨hneg, -, hfd0, hfm0, hfm60, hfs0, hfs60, hval⟩ := h
  have hfmq0 : (0 : ℚ) ≤ (fm : ℚ) := by exact_mod_cast hfm0
  have hfmq : (fm : ℚ) ≤ 59 := by
    have : fm ≤ 59 := by omega
    exact_mod_cast this
  have ed : d = fd := by
    have h1 : ((d - fd : ℤ) : ℚ) < 1 := by push_cast; linarith
    have h2 : (-1 : ℚ) < ((d - fd : ℤ) : ℚ) := by push_cast; linarith
    have h1' : d - fd < 1 := by exact_mod_cast h1
    have h2' : -1 < d - fd := by exact_mod_cast h2
    omega
  subst ed
  have em : m = fm := by
    have h1 : ((m - fm : ℤ) : ℚ) < 1 := by push_cast; linarith
    have h2 : (-1 : ℚ) < ((m - fm : ℤ) : ℚ) := by push_cast; linarith
    have h1' : m - fm < 1 := by exact_mod_cast h1
    have h2' : -1 < m - fm := by exact_mod_cast h2
    omega
  subst em
  have es : s = fs := by linarith
  subst es
  subst hneg
  rfl

/-- **projection**: the angle the printed fields denote is printed as the same fields — with the carry, minutes and
    seconds below 60, the seconds having exactly `prec` decimals -/
theorem gon2deg_printed_gon (p : Printed) (hneg : p.neg = false) (pd0 : 0 ≤ p.d) (pm0 : 0 ≤ p.m) (pm60 : p.m < 60)
    (pn0 : 0 ≤ p.n) (pn60 : p.n < 60 * (10 : ℤ) ^ p.prec) (psz : p.secNegZero = false) (sign : ℤ) :
    gon2degWith true true p.gon sign p.prec = some (p.renderGon sign) := by
  have hp := pow10_pos p.prec
  have hs0 : (0 : ℚ) ≤ (p.n : ℚ) / (10 : ℚ) ^ p.prec := div_nonneg (by exact_mod_cast pn0) (le_of_lt hp)
  have hs60 : (p.n : ℚ) / (10 : ℚ) ^ p.prec < 60 := by
    rw [div_lt_iff₀ hp]
    exact_mod_cast pn60
  have hdq : (0 : ℚ) ≤ (p.d : ℚ) := by exact_mod_cast pd0
  have hmq : (0 : ℚ) ≤ (p.m : ℚ) := by exact_mod_cast pm0
  have hg0 : 0 ≤ p.gon := by
    rw [Printed.gon_eq]; unfold Printed.degrees; positivity
  have hnl : decide (p.gon < 0) = false := by simpa using hg0
  have hf : gonFields true p.gon = { neg := false, d := p.d, m := p.m, s := (p.n : ℚ) / (10 : ℚ) ^ p.prec } := by
    rw [gonFields_eq, hnl, abs_of_nonneg hg0]
    have : p.gon * (9 / 10) = (p.d : ℚ) + (p.m : ℚ) / 60 + ((p.n : ℚ) / (10 : ℚ) ^ p.prec) / 3600 := by
      rw [Printed.gon_eq]; unfold Printed.degrees; field_simp
    rw [this]
    exact splitDeg_of_fields false p.d p.m _ pd0 pm0 pm60 hs0 hs60
  rw [gon2degWith_rat, hf]
  simp only []
  rw [toPrinted_carry_shape, scaled_of_decimal, if_neg (not_le.mpr pn60)]
  obtain ⟨pn, pd, pm, pnn, pp, pz⟩ := p
  simp only at hneg psz
  subst hneg; subst psz
  rfl

end Gama.Angles

namespace Gama.Export

/-- the domain of the sexagesimal printer `gon2deg(·, 0, 4)`: no sign is printed, and `int(gon·0.9)` must be defined.
    gama keeps observed directions, angles, zenith angles and azimuths in [0, 400) gon -/
def DegDom (g : ℚ) : Prop := 0 ≤ g ∧ g * (9 / 10) < 2147483647

instance : DecidablePred DegDom := fun g => inferInstanceAs (Decidable (0 ≤ g ∧ g * (9 / 10) < 2147483647))

theorem degDom_of_circle {g : ℚ} (h0 : 0 ≤ g) (h : g < 400) : DegDom g := ⟨h0, by linarith⟩

/-- the printed fields of an angle of the domain, and what they say about `degQ` -/
theorem degQ_printed (g : ℚ) (hD : DegDom g) :
    ∃ p : Angles.Printed, p.prec = 4 ∧ Angles.gon2degWith true true g 0 4 = some (p.renderGon 0) ∧ degQ g = p.gon ∧
      Angles.gon2degWith true true p.gon 0 4 = some (p.renderGon 0) := by
  obtain ⟨h0, hg⟩ := hD
  have hx : 0 ≤ |g| * (9 / 10 : ℚ) := by positivity
  have habs : |g| = g := abs_of_nonneg h0
  have hfe : Angles.gonFields true g = Angles.splitDeg (decide (g < 0)) (|g| * (9 / 10)) := Angles.gonFields_eq true g
  obtain ⟨hneg, hdfl, hd0, hm0, hm60, hs0, hs60, -⟩ := Angles.splitDeg_spec (decide (g < 0)) hx
  rw [← hfe] at hneg hdfl hd0 hm0 hm60 hs0 hs60
  obtain ⟨pd0, pm0, pm60, pn0, pn60, pprec, pneg⟩ :=
    Angles.toPrinted_carry_range (Angles.gonFields true g).neg (Angles.gonFields true g).d (Angles.gonFields true g).m
      (Angles.gonFields true g).s 4 false hd0 hm0 hm60 hs0 hs60
  obtain ⟨psz, pdle⟩ := Angles.toPrinted_extra (Angles.gonFields true g).neg (Angles.gonFields true g).d
    (Angles.gonFields true g).m (Angles.gonFields true g).s 4
  generalize hp : Angles.toPrinted true (Angles.gonFields true g).neg (Angles.gonFields true g).d (Angles.gonFields true g).m
      (Angles.gonFields true g).s 4 false = p at pd0 pm0 pm60 pn0 pn60 pprec pneg psz pdle
  have hdmax : (Angles.gonFields true g).d ≤ 2147483646 := by
    rw [hdfl]
    have : (|g| * (9 / 10)).floor < 2147483647 := Rat.floor_lt_iff.mpr (by rw [habs]; exact_mod_cast hg)
    omega
  have hpn : p.neg = false := by
    rw [pneg, hneg]; simpa using h0
  have hstr : Angles.gon2degWith true true g 0 4 = some (p.renderGon 0) := by
    rw [Angles.gon2degWith_rat, hp]
  have hrd : (Angles.deg2gon (p.renderGon 0) : Option ℚ) = some p.gon :=
    Angles.deg2gon_renderGon0 p pd0 (by omega) pm0 pm60 pn0 (by rw [pprec]; exact pn60) psz
  have hq : degQ g = p.gon := by
    unfold degQ Angles.gon2deg
    rw [show Gama.Gen.gon2degCarry = true from by decide, show Gama.Gen.gon2degAbs = true from by decide, hstr]
    simp [hrd]
  refine ⟨p, pprec, hstr, hq, ?_⟩
  have := Angles.gon2deg_printed_gon p hpn pd0 pm0 pm60 pn0 (by rw [pprec]; exact pn60) psz 0
  rwa [pprec] at this

/-- **the projection law of the real sexagesimal printer**: on its domain, the value read back from the text
    `gon2deg(g, 0, 4)` is printed as the same text -/
theorem gon2deg_degQ (g : ℚ) (hD : DegDom g) : Angles.gon2deg (degQ g) 0 4 = Angles.gon2deg g 0 4 := by
  obtain ⟨p, -, h1, h2, h3⟩ := degQ_printed g hD
  unfold Angles.gon2deg
  rw [show Gama.Gen.gon2degCarry = true from by decide, show Gama.Gen.gon2degAbs = true from by decide, h1, h2, h3]

/-- the text of an angle of the domain is read back as `degQ g` -/
theorem deg2gon_gon2deg_degQ (g : ℚ) (hD : DegDom g) :
    ∃ str, Angles.gon2deg g 0 4 = some str ∧ (Angles.deg2gon str : Option ℚ) = some (degQ g) := by
  have h := (sexagesimal_read_back g hD.1 hD.2).1
  cases hs : Angles.gon2deg g 0 4 with
  | none => rw [hs] at h; simp at h
  | some str => rw [hs] at h; exact ⟨str, rfl, by simpa using h⟩

end Gama.Export
