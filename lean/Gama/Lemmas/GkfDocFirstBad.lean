/-
  `Doc'.firstBad d = none ↔ Doc'.valid d ∧ Doc'.valuesOk d` for documents in the documented vocabulary
  (Model/GkfDocRefuse.lean): pure tree logic, no parser.
-/
import Gama.Lemmas.GkfDocRefuse
namespace Gama.Gkf
open Gama.Lit

theorem seqBad_eq_none (r1 : Bad) (n : Nat) (r2 : Bad) : seqBad r1 n r2 = none ↔ r1 = none ∧ r2 = none := by
  cases r1 <;> cases r2 <;> simp [seqBad]

theorem badList_eq_none {α : Type} (bad : α → Bad) (len : α → Nat) :
    ∀ l : List α, badList bad len l = none ↔ ∀ a ∈ l, bad a = none := by
  intro l
  induction l with
  | nil => simp [badList]
  | cons a r ih => simp [badList, seqBad_eq_none, ih]

theorem elemBad_eq_none (inh : List Char) (t : Tag) (as : List CAttr) :
    elemBad inh t as = none ↔ (attrsDocOk t as = true ∧ rulesOk inh t as = true) := by
  unfold elemBad elemOk
  cases attrsDocOk t as <;> cases rulesOk inh t as <;> simp

theorem leafBad_eq_none (x : Bool) (inh : List Char) (l : Leaf') : l.bad x inh = none ↔ l.ok x inh = true := by
  unfold Leaf'.bad
  cases l.ok x inh <;> simp

theorem all3 {α β : Type} (l : List α) (ab : α → β) (p : β → Bool) (q r : α → Bool) :
    (∀ a ∈ l, p (ab a) = true ∧ q a = true ∧ r a = true) ↔
      ((l.map ab).all p = true ∧ l.all q = true ∧ l.all r = true) := by
  simp only [List.all_eq_true, List.mem_map]
  constructor
  · intro h
    exact ⟨by rintro b ⟨a, ha, rfl⟩; exact (h a ha).1, fun a ha => (h a ha).2.1, fun a ha => (h a ha).2.2⟩
  · intro h a ha
    exact ⟨h.1 _ ⟨a, ha, rfl⟩, h.2.1 a ha, h.2.2 a ha⟩

theorem itemOk_eq (k : ClusterKind) (l : Leaf') (htag : l.tag ∈ kidTags k) :
    k.itemOk l.abs = (attrsDocumented l.tag (absAttrs l.attrs) && (!(k == .coords) || hasXYorZ (absAttrs l.attrs))) := by
  obtain ⟨t, as⟩ := l
  cases k <;> simp only [kidTags, List.mem_cons, List.not_mem_nil, or_false] at htag
  · rcases htag with h | h | h | h | h | h <;> subst h <;> simp [ClusterKind.itemOk, Leaf'.abs]
  · subst htag; simp [ClusterKind.itemOk, Leaf'.abs]
  · subst htag; simp [ClusterKind.itemOk, Leaf'.abs]
  · subst htag; simp [ClusterKind.itemOk, Leaf'.abs]

theorem leaf_ok_iff (k : ClusterKind) (inh : List Char) (l : Leaf') (htag : l.tag ∈ kidTags k) :
    l.ok (k == .coords) inh = true ↔
      (k.itemOk l.abs = true ∧ l.valuesOk = true ∧ rulesOk inh l.tag l.attrs = true) := by
  rw [itemOk_eq k l htag]
  simp only [Leaf'.ok, elemOk, Leaf'.valuesOk, Bool.and_eq_true]
  constructor
  · rintro ⟨⟨h1, h2⟩, h3⟩
    exact ⟨⟨documented_of_attrsDocOk l.tag l.attrs h1, h3⟩, h1, h2⟩
  · rintro ⟨⟨_, h3⟩, h1, h2⟩
    exact ⟨⟨h1, h2⟩, h3⟩

theorem count_nil_items (c : Cluster') (h : c.items = []) : c.count = 0 := by simp [Cluster'.count, h]

theorem cluster_bad_iff (c : Cluster') (hv : c.inVocab = true) :
    c.bad = none ↔ (c.abs.valid = true ∧ c.valid = true ∧ c.valuesOk = true) := by
  simp only [Cluster'.inVocab, Bool.and_eq_true, Bool.not_eq_true', Bool.and_eq_false_iff] at hv
  obtain ⟨⟨⟨hv_attrs, hv_items⟩, hv_cov⟩, hv_h⟩ := hv
  have htags : ∀ l ∈ c.items, l.tag ∈ kidTags c.kind := by
    intro l hl
    have := (List.all_eq_true.mp hv_items) l hl
    simp only [Bool.and_eq_true, List.contains_iff_mem] at this
    exact this.1
  have hitems : (∀ l ∈ c.items, Leaf'.bad (c.kind == .coords) c.inh l = none) ↔
      ((c.items.map Leaf'.abs).all c.kind.itemOk = true ∧ c.items.all Leaf'.valuesOk = true ∧
        c.items.all (fun l => rulesOk c.inh l.tag l.attrs) = true) := by
    rw [← all3 c.items Leaf'.abs c.kind.itemOk Leaf'.valuesOk (fun l => rulesOk c.inh l.tag l.attrs)]
    constructor
    · intro h l hl
      exact (leaf_ok_iff c.kind c.inh l (htags l hl)).mp ((leafBad_eq_none _ _ l).mp (h l hl))
    · intro h l hl
      exact (leafBad_eq_none _ _ l).mpr ((leaf_ok_iff c.kind c.inh l (htags l hl)).mpr (h l hl))
  have hrc : rulesOk [] c.kind.tag c.attrs = true := rulesOk_cluster _ _ _
  unfold Cluster'.bad
  simp only [seqBad_eq_none, badList_eq_none, elemBad_eq_none, hitems, hrc, and_true]
  simp only [Cluster.valid, Cluster'.abs, Cluster'.valid, Cluster'.valuesOk, Bool.and_eq_true, hrc, true_and]
  cases hcov : c.cov with
  | none =>
    simp only [covBad, Cluster'.closeOk, hcov, Option.map_none, true_and, and_true]
    constructor
    · rintro ⟨h1, ⟨h2, h3, h4⟩, h5⟩
      have h5' : (c.kind == ClusterKind.obs || c.kind == .hdiffs) = true ∧ c.pd = true := by
        cases hh : ((c.kind == ClusterKind.obs || c.kind == .hdiffs) && c.pd) with
        | true => simpa using hh
        | false => rw [hh] at h5; simp at h5
      refine ⟨⟨⟨documented_of_attrsDocOk _ _ h1, h2⟩, ?_⟩, ⟨h4, h5'.2⟩, h1, h3⟩
      have hk := h5'.1
      cases hkind : c.kind with
      | obs => rfl
      | hdiffs =>
        simp only [hkind, hcov, beq_self_eq_true, Option.isNone_none] at hv_h
        rcases hv_h with (h | h) | h
        · cases h
        · simp [h]
        · cases h
      | coords => rw [hkind] at hk; cases hk
      | vectors => rw [hkind] at hk; cases hk
    · rintro ⟨⟨⟨_, h2⟩, hk⟩, ⟨h4, hpd⟩, h1, h3⟩
      refine ⟨h1, ⟨h2, h3, h4⟩, ?_⟩
      have : (c.kind == ClusterKind.obs || c.kind == .hdiffs) = true := by
        cases hkind : c.kind with
        | obs => rfl
        | hdiffs => rfl
        | coords => rw [hkind] at hk; simp at hk
        | vectors => rw [hkind] at hk; simp at hk
      simp [this, hpd]
  | some cv =>
    rw [hcov] at hv_cov
    simp only [covBad, Cluster'.closeOk, hcov, Option.map_some, elemBad_eq_none, CovEl'.valid, CovEl'.valuesOk, CovEl'.abs,
      Bool.and_eq_true, Option.isSome_some, Bool.and_true]
    constructor
    · rintro ⟨h1, ⟨h2, h3, h4⟩, ⟨hc1, hc2⟩, h5⟩
      have h5' : ((((toIndex (attrStr cv.attrs "dim") == some c.count) = true ∧
          ((Cov.words cv.text.flatten).length == bandElems cv.dim cv.band) = true) ∧
          (Cov.words cv.text.flatten).all toDoubleOk = true) ∧ c.pd = true) := by
        split at h5
        · assumption
        · cases h5
      obtain ⟨⟨⟨d1, d2⟩, d3⟩, d4⟩ := h5'
      have hne : c.items.isEmpty = false := by
        cases hi : c.items with
        | nil =>
          have hpos := cov_dim_pos cv.attrs c.count hc2 (by simpa using d1)
          rw [count_nil_items c hi] at hpos
          omega
        | cons a r => rfl
      refine ⟨⟨⟨⟨documented_of_attrsDocOk _ _ h1, h2⟩, documented_of_attrsDocOk _ _ hc1⟩, ?_⟩,
        ⟨⟨h4, ⟨hc2, d1⟩, d2⟩, d4⟩, ⟨h1, h3⟩, hc1, d3⟩
      cases c.kind <;> simp [hne]
    · rintro ⟨_, ⟨⟨h4, ⟨hc2, d1⟩, d2⟩, d4⟩, ⟨h1, h3⟩, hc1, d3⟩
      rename_i hshape
      refine ⟨h1, ⟨hshape.1.1.2, h3, h4⟩, ⟨hc1, hc2⟩, ?_⟩
      simp [d1, d2, d3, d4]

theorem poitem_bad_iff (p : POItem') (hv : p.inVocab = true) :
    p.bad = none ↔ (p.abs.valid = true ∧ p.valid = true ∧ p.valuesOk = true) := by
  cases p with
  | point l =>
    simp only [POItem'.inVocab, Bool.and_eq_true, beq_iff_eq] at hv
    simp only [POItem'.bad, leafBad_eq_none, Leaf'.ok, elemOk, POItem'.abs, POItem.valid, Leaf'.abs, POItem'.valid,
      POItem'.valuesOk, Leaf'.valuesOk, Bool.and_eq_true, hv.1, beq_self_eq_true, true_and, Bool.not_false,
      Bool.true_or, and_true]
    constructor
    · rintro ⟨h1, h2⟩
      refine ⟨?_, h2, h1⟩
      exact documented_of_attrsDocOk .point_ l.attrs h1
    · rintro ⟨_, h2, h1⟩
      exact ⟨h1, h2⟩
  | cluster c => exact cluster_bad_iff c hv

theorem netitem_bad_iff (i : NetItem') (hv : i.inVocab = true) :
    i.bad = none ↔ (i.abs.valid = true ∧ i.valid = true ∧ i.valuesOk = true) := by
  cases i with
  | description text => simp [NetItem'.bad, NetItem'.abs, NetItem.valid, NetItem'.valid, NetItem'.valuesOk]
  | parameters as =>
    simp only [NetItem'.bad, elemBad_eq_none, NetItem'.abs, NetItem.valid, NetItem'.valid, NetItem'.valuesOk]
    constructor
    · rintro ⟨h1, h2⟩; exact ⟨documented_of_attrsDocOk _ _ h1, h2, h1⟩
    · rintro ⟨_, h2, h1⟩; exact ⟨h1, h2⟩
  | pointsObs as items =>
    simp only [NetItem'.inVocab, Bool.and_eq_true] at hv
    have hitems : (∀ p ∈ items, POItem'.bad p = none) ↔
        ((items.map POItem'.abs).all POItem.valid = true ∧ items.all POItem'.valid = true ∧
          items.all POItem'.valuesOk = true) := by
      rw [← all3 items POItem'.abs POItem.valid POItem'.valid POItem'.valuesOk]
      constructor
      · intro h p hp; exact (poitem_bad_iff p ((List.all_eq_true.mp hv.2) p hp)).mp (h p hp)
      · intro h p hp; exact (poitem_bad_iff p ((List.all_eq_true.mp hv.2) p hp)).mpr (h p hp)
    simp only [NetItem'.bad, seqBad_eq_none, badList_eq_none, elemBad_eq_none, hitems, NetItem'.abs, NetItem.valid,
      NetItem'.valid, NetItem'.valuesOk, Bool.and_eq_true]
    constructor
    · rintro ⟨⟨h1, h2⟩, h3, h4, h5⟩; exact ⟨⟨documented_of_attrsDocOk _ _ h1, h3⟩, ⟨h2, h4⟩, h1, h5⟩
    · rintro ⟨⟨_, h3⟩, ⟨h2, h4⟩, h1, h5⟩; exact ⟨⟨h1, h2⟩, h3, h4, h5⟩

/-- no violating element ⇔ valid with documented values -/
theorem firstBad_none_iff (d : Doc') (hv : d.inVocab = true) :
    d.firstBad = none ↔ (d.valid = true ∧ d.valuesOk = true) := by
  simp only [Doc'.inVocab, Bool.and_eq_true] at hv
  have hitems : (∀ i ∈ d.items, NetItem'.bad i = none) ↔
      ((d.items.map NetItem'.abs).all NetItem.valid = true ∧ d.items.all NetItem'.valid = true ∧
        d.items.all NetItem'.valuesOk = true) := by
    rw [← all3 d.items NetItem'.abs NetItem.valid NetItem'.valid NetItem'.valuesOk]
    constructor
    · intro h i hi; exact (netitem_bad_iff i ((List.all_eq_true.mp hv.2) i hi)).mp (h i hi)
    · intro h i hi; exact (netitem_bad_iff i ((List.all_eq_true.mp hv.2) i hi)).mpr (h i hi)
  simp only [Doc'.firstBad, seqBad_eq_none, badList_eq_none, elemBad_eq_none, hitems, Doc'.valid, Doc'.abs, Doc.valid,
    Doc'.valuesOk, Bool.and_eq_true]
  constructor
  · rintro ⟨⟨h1, h2⟩, ⟨h3, h4⟩, h5, h6, h7⟩
    exact ⟨⟨⟨⟨⟨⟨documented_of_attrsDocOk _ _ h1, documented_of_attrsDocOk _ _ h3⟩, h5⟩, h2⟩, h4⟩, h6⟩, ⟨h1, h3⟩, h7⟩
  · rintro ⟨⟨⟨⟨⟨_, h5⟩, h2⟩, h4⟩, h6⟩, ⟨h1, h3⟩, h7⟩
    exact ⟨⟨h1, h2⟩, ⟨h3, h4⟩, h5, h6, h7⟩

/-! ### where the first violation is, for a document that is fine up to one cluster -/

theorem seqBad_assoc (r1 r2 r3 : Bad) (n1 n2 : Nat) :
    seqBad (seqBad r1 n1 r2) (n1 + n2) r3 = seqBad r1 n1 (seqBad r2 n2 r3) := by
  cases r1 <;> cases r2 <;> cases r3 <;> simp [seqBad, Nat.add_assoc]

theorem seqBad_none_zero (r : Bad) : seqBad none 0 r = r := by
  cases r <;> simp [seqBad]

theorem badList_append {α : Type} (bad : α → Bad) (len : α → Nat) : ∀ (a b : List α),
    badList bad len (a ++ b) = seqBad (badList bad len a) (a.map len).sum (badList bad len b) := by
  intro a
  induction a with
  | nil => intro b; simp [badList, seqBad_none_zero]
  | cons x r ih => intro b; simp [badList, ih, seqBad_assoc]

/-- everything before `x` is fine, `x` has its first violation at `(i, k)` -/
theorem badList_first {α : Type} (bad : α → Bad) (len : α → Nat) (a b : List α) (x : α) (i : Nat) (k : ErrKind)
    (ha : ∀ y ∈ a, bad y = none) (hx : bad x = some (i, k)) :
    badList bad len (a ++ x :: b) = some ((a.map len).sum + i, k) := by
  rw [badList_append, (badList_eq_none bad len a).mpr ha]
  simp [badList, seqBad, hx]

/-- a cluster that is fine except that `dim` of its `<cov-mat>` is not its number of observations: the violation is
    its closing tag (the last of its `Cluster'.len` events) -/
theorem cluster_bad_dim (c : Cluster') (cv : CovEl') (hcov : c.cov = some cv)
    (h1 : attrsDocOk c.kind.tag c.attrs = true) (h2 : ∀ l ∈ c.items, l.ok (c.kind == .coords) c.inh = true)
    (h3 : elemOk [] .cov_mat cv.attrs = true) (hdim : toIndex (attrStr cv.attrs "dim") ≠ some c.count) :
    c.bad = some (1 + (2 * c.items.length + cv.len), .finish) := by
  have e1 : elemBad [] c.kind.tag c.attrs = none := (elemBad_eq_none _ _ _).mpr ⟨h1, rulesOk_cluster _ _ _⟩
  have e2 : badList (Leaf'.bad (c.kind == .coords) c.inh) (fun _ => 2) c.items = none :=
    (badList_eq_none _ _ _).mpr (fun l hl => (leafBad_eq_none _ _ l).mpr (h2 l hl))
  have e3 : covBad (some cv) = none := by simp [covBad, elemBad, h3]
  have e4 : c.closeOk = false := by
    have : (toIndex (attrStr cv.attrs "dim") == some c.count) = false := by simpa using hdim
    simp [Cluster'.closeOk, hcov, this]
  simp [Cluster'.bad, e1, e2, e3, e4, seqBad, covLen, hcov]

theorem firstBad_dim_mismatch (d : Doc') (pre post : List NetItem') (as : List CAttr) (ipre ipost : List POItem')
    (c : Cluster') (cv : CovEl')
    (hitems : d.items = pre ++ .pointsObs as (ipre ++ .cluster c :: ipost) :: post)
    (hroot : elemOk [] .gama_xml d.attrs = true) (hnet : elemOk [] .network d.netAttrs = true)
    (hpre : ∀ i ∈ pre, i.bad = none) (has : elemOk [] .points_observations as = true)
    (hipre : ∀ p ∈ ipre, p.bad = none) (hcov : c.cov = some cv)
    (h1 : attrsDocOk c.kind.tag c.attrs = true) (h2 : ∀ l ∈ c.items, l.ok (c.kind == .coords) c.inh = true)
    (h3 : elemOk [] .cov_mat cv.attrs = true) (hdim : toIndex (attrStr cv.attrs "dim") ≠ some c.count) :
    d.firstBad = some (1 + (1 + ((pre.map NetItem'.len).sum + (1 + ((ipre.map POItem'.len).sum +
      (1 + (2 * c.items.length + cv.len)))))), .finish) := by
  have hc := cluster_bad_dim c cv hcov h1 h2 h3 hdim
  have hpo : NetItem'.bad (.pointsObs as (ipre ++ .cluster c :: ipost)) =
      some (1 + ((ipre.map POItem'.len).sum + (1 + (2 * c.items.length + cv.len))), .finish) := by
    simp only [NetItem'.bad]
    rw [badList_first POItem'.bad POItem'.len ipre ipost (.cluster c) _ .finish hipre hc]
    simp [elemBad, has, seqBad]
  simp only [Doc'.firstBad, hitems]
  rw [badList_first NetItem'.bad NetItem'.len pre post _ _ .finish hpre hpo]
  simp [elemBad, hroot, hnet, seqBad]

end Gama.Gkf
