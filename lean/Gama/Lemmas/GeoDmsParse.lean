/-
  `deg2gon`'s scanner (Gama/Model/Angles.lean: `parseDms`, `readInt`, `readSeconds`) in scanner form
  (`takeWhile`/`dropWhile`), and against the documented shape `Grammar.dmsRx`.
-/
import Gama.Lemmas.GeoGrammar
import Gama.Model.Angles
namespace Gama.Angles
open Gama.Grammar Gama.Grammar.Rx

/-- value of a string of decimal digits -/
def val (ds : List Char) : Nat := Nat.ofDigitChars 10 ds 0

theorem isSpace_eq : Angles.isSpace = Grammar.isSpace := rfl
theorem isDigit_eq : Angles.isDigit = Grammar.isDigit := rfl
theorem trimWs_eq (l : List Char) : trimWs l = dropTrailing Grammar.isSpace (l.dropWhile Grammar.isSpace) := rfl

theorem takeDigits_eq (cs : List Char) (acc k : Nat) :
    takeDigits cs acc k = (Nat.ofDigitChars 10 (cs.takeWhile Grammar.isDigit) acc,
                           k + (cs.takeWhile Grammar.isDigit).length, cs.dropWhile Grammar.isDigit) := by
  induction cs generalizing acc k with
  | nil => simp [takeDigits]
  | cons c t ih =>
    unfold takeDigits
    rw [isDigit_eq]
    by_cases hc : Grammar.isDigit c = true
    · simp only [hc, if_true, List.takeWhile, List.dropWhile, List.length_cons, Nat.ofDigitChars_cons]
      rw [ih]
      simp only [digitVal, Prod.mk.injEq, and_true]
      exact ⟨by rw [Nat.mul_comm], by omega⟩
    · have hc' : Grammar.isDigit c = false := by simpa using hc
      simp [hc', List.takeWhile, List.dropWhile]

theorem takeWhile_cons_digit {c : Char} {t : List Char} (h : Grammar.isDigit c = true) :
    (c :: t).takeWhile Grammar.isDigit = c :: t.takeWhile Grammar.isDigit := by
  simp [List.takeWhile, h]

theorem dropWhile_cons_digit {c : Char} {t : List Char} (h : Grammar.isDigit c = true) :
    (c :: t).dropWhile Grammar.isDigit = t.dropWhile Grammar.isDigit := by
  simp [List.dropWhile, h]

/-- does the text start with `-` -/
def startsMinus (y : List Char) : Bool := match y with | '-' :: _ => true | _ => false

theorem splitSign_eq (y : List Char) : splitSign y = (startsMinus y, skip isSign y) := by
  unfold splitSign
  split
  · simp [skip, isSign, startsMinus]
  · simp [skip, isSign, startsMinus]
  · rename_i h1 h2
    have hx : skip isSign y = y := by
      cases y with
      | nil => rfl
      | cons c t =>
        have : isSign c = false := by
          cases hs : isSign c with
          | false => rfl
          | true =>
            unfold isSign at hs; simp only [Bool.or_eq_true, decide_eq_true_eq] at hs
            rcases hs with rfl | rfl
            · exact absurd rfl (h2 t)
            · exact absurd rfl (h1 t)
        simp [skip, this]
    have hn : startsMinus y = false := by
      unfold startsMinus
      split
      · rename_i r; exact absurd rfl (h1 r)
      · rfl
    rw [hx, hn]

/-- `istream >> int` in scanner form -/
theorem readInt_eq (cs : List Char) :
    readInt cs =
      let y := cs.dropWhile Grammar.isSpace
      let neg : Bool := startsMinus y
      let x := skip isSign y
      let v := val (x.takeWhile Grammar.isDigit)
      if x.takeWhile Grammar.isDigit = [] then none
      else if neg then (if v ≤ intMax + 1 then some (-(v : Int), x.dropWhile Grammar.isDigit) else none)
      else (if v ≤ intMax then some ((v : Int), x.dropWhile Grammar.isDigit) else none) := by
  unfold readInt
  simp only [isSpace_eq, splitSign_eq, takeDigits_eq, Nat.zero_add, val]
  by_cases h0 : List.takeWhile Grammar.isDigit (skip isSign (List.dropWhile Grammar.isSpace cs)) = []
  · simp [h0]
  · have : ¬ (List.takeWhile Grammar.isDigit (skip isSign (List.dropWhile Grammar.isSpace cs))).length = 0 := by
      simpa using h0
    simp only [this, h0, if_false]
    rfl

/-! ### the seconds: `istream >> double` against `D+ (. D*)? ([eE][+-]?D+)?` -/

/-- what follows the optional fraction `. D*` -/
def fracRest (r1 : List Char) : List Char :=
  match r1 with
  | c :: r => if isDot c then r.dropWhile Grammar.isDigit else c :: r
  | [] => []

theorem readFrac_rest (ip : Nat) (r1 : List Char) : (readFrac ip r1).2.2 = fracRest r1 := by
  unfold readFrac fracRest
  split
  · simp [takeDigits_eq, isDot]
  · rename_i h1
    cases r1 with
    | nil => rfl
    | cons c r =>
      have : isDot c = false := by
        cases hd : isDot c with
        | false => rfl
        | true => unfold isDot at hd; simp only [decide_eq_true_eq] at hd; subst hd; exact absurd rfl (h1 r)
      simp [this]

theorem all_digits_iff (x : List Char) :
    (x ≠ [] ∧ ∀ c ∈ x, Grammar.isDigit c = true) ↔ (x.takeWhile Grammar.isDigit ≠ [] ∧ x.dropWhile Grammar.isDigit = []) := by
  constructor
  · rintro ⟨hne, hall⟩
    have h1 : x.takeWhile Grammar.isDigit = x := by
      have := takeWhile_append_of_stop (p := Grammar.isDigit) (u := x) (v := []) hall (by intro c w h; simp at h)
      simpa using this
    have h2 : x.dropWhile Grammar.isDigit = [] := by
      have := dropWhile_append_of_stop (p := Grammar.isDigit) (u := x) (v := []) hall (by intro c w h; simp at h)
      simpa using this
    rw [h1]; exact ⟨hne, h2⟩
  · rintro ⟨h1, h2⟩
    have hx : x = x.takeWhile Grammar.isDigit := by
      have := (List.takeWhile_append_dropWhile (p := Grammar.isDigit) (l := x)).symm
      rw [h2] at this; simpa using this
    refine ⟨?_, ?_⟩
    · intro h; subst h; simp at h1
    · intro c hc; rw [hx] at hc; exact takeWhile_all _ _ c hc

theorem readExp_accept (mant fd : Nat) (r2 : List Char) :
    (∃ p, readExp mant fd r2 = some (p, [])) ↔ (opt expPart).Lang r2 := by
  rw [opt_lang]
  unfold readExp expPart
  cases r2 with
  | nil => simp
  | cons c r =>
    rw [seq_cls_cons, seq_opt_cls, digits1_lang, all_digits_iff]
    · have he : (decide (c = 'e') || decide (c = 'E')) = isExp c := rfl
      simp only [he, splitSign_eq, takeDigits_eq, Nat.zero_add]
      by_cases hx : isExp c = true
      · simp only [hx, if_true, true_and]
        by_cases h0 : List.takeWhile Grammar.isDigit (skip isSign r) = []
        · simp [h0]
        · have : ¬ (List.takeWhile Grammar.isDigit (skip isSign r)).length = 0 := by simpa using h0
          simp only [this, if_false, Option.some.injEq, Prod.mk.injEq, List.cons_ne_nil, false_or, h0,
            not_false_eq_true, true_and]
          constructor
          · rintro ⟨p, -, h⟩; exact ⟨h0, h⟩
          · intro h; exact ⟨_, rfl, h.2⟩
      · have hx' : isExp c = false := by simpa using hx
        simp [hx']
    · intro x hx
      simp [digits1, starts, nullable] at hx
      exact Grammar.digit_not_sign hx

theorem readSeconds_accept (z : List Char) :
    (∃ p, readSeconds z = some (p, [])) ↔ (opt expPart).Lang (fracRest (z.dropWhile Grammar.isDigit)) := by
  unfold readSeconds
  simp only [takeDigits_eq]
  rw [← readFrac_rest (Nat.ofDigitChars 10 (List.takeWhile Grammar.isDigit z) 0)]
  exact readExp_accept _ _ _

theorem expPart_not_digit : ∀ c, (opt expPart).starts c → Grammar.isDigit c = false := by
  intro c hc
  simp [opt, expPart, starts, nullable] at hc
  exact exp_not_digit hc

theorem expPart_not_dot : ∀ c, (opt expPart).starts c → isDot c = false := by
  intro c hc
  simp [opt, expPart, starts, nullable] at hc
  exact exp_not_dot hc

/-- `D+` then `r`, by maximal munch -/
theorem digits1_seq (r : Rx) (hr : ∀ c, r.starts c → Grammar.isDigit c = false) (x : List Char) :
    (seq digits1 r).Lang x ↔ x.takeWhile Grammar.isDigit ≠ [] ∧ r.Lang (x.dropWhile Grammar.isDigit) := by
  unfold digits1
  rw [seq_assoc]
  cases x with
  | nil => simp only [List.takeWhile, ne_eq, not_true_eq_false, false_and, iff_false]; exact seq_cls_nil _ _
  | cons c t =>
    rw [seq_cls_cons]
    by_cases hc : Grammar.isDigit c = true
    · rw [seq_many _ _ hr]
      simp [List.takeWhile, List.dropWhile, hc]
    · have hc' : Grammar.isDigit c = false := by simpa using hc
      simp [List.takeWhile, hc']

theorem secondsRx_scan (z : List Char) :
    secondsRx.Lang z ↔ z.takeWhile Grammar.isDigit ≠ [] ∧ (opt expPart).Lang (fracRest (z.dropWhile Grammar.isDigit)) := by
  unfold secondsRx
  rw [digits1_seq, seq_opt_group _ _ _ expPart_not_dot]
  · unfold fracRest
    cases z.dropWhile Grammar.isDigit with
    | nil => simp
    | cons c r =>
      simp only
      by_cases hq : isDot c = true
      · simp only [hq, if_true]; rw [seq_many _ _ expPart_not_digit]
      · simp [hq]
  · intro c hc
    simp [opt, expPart, starts, nullable] at hc
    rcases hc with hc | hc
    · exact dot_not_digit hc
    · exact exp_not_digit hc

/-- `dms >> s` on a text that starts with a digit succeeds up to the end of input exactly on `secondsRx` -/
theorem readSeconds_shape (z : List Char) (hz : z.takeWhile Grammar.isDigit ≠ []) :
    (∃ p, readSeconds z = some (p, [])) ↔ secondsRx.Lang z := by
  rw [readSeconds_accept, secondsRx_scan]
  exact ⟨fun h => ⟨hz, h⟩, fun h => h.2⟩

/-! ### `deg2gon`'s scanner in scanner form -/

theorem digit_cons_scan {c : Char} {t : List Char} (hc : Grammar.isDigit c = true) :
    (c :: t).dropWhile Grammar.isSpace = c :: t ∧ skip isSign (c :: t) = c :: t ∧ startsMinus (c :: t) = false := by
  refine ⟨by simp [List.dropWhile, digit_not_space hc], by simp [skip, Grammar.digit_not_sign hc], ?_⟩
  unfold startsMinus
  split
  · rename_i heq; simp at heq; rw [heq.1] at hc; exact absurd hc (by decide)
  · rfl

theorem parseSec_isSome (n : Bool) (d m : Int) (cs : List Char) :
    (parseSec n d m cs).isSome ↔
      ∃ z, cs = '-' :: z ∧ z.takeWhile Grammar.isDigit ≠ [] ∧
        (∃ p, readSeconds z = some (p, []) ∧ secFits p = true) ∧ 0 ≤ d ∧ 0 ≤ m := by
  unfold parseSec
  split
  · rename_i c cs'
    rw [isDigit_eq]
    by_cases hc : Grammar.isDigit c = true
    · simp only [hc, Bool.not_true, Bool.false_eq_true, if_false]
      have htw : (c :: cs').takeWhile Grammar.isDigit ≠ [] := by simp [List.takeWhile, hc]
      cases hr : readSeconds (c :: cs') with
      | none =>
        simp only [Option.isSome_none, Bool.false_eq_true, false_iff]
        rintro ⟨z, hz, -, ⟨p, hp, -⟩, -⟩
        simp at hz; subst hz; rw [hr] at hp; simp at hp
      | some pr =>
        obtain ⟨p, r⟩ := pr
        cases r with
        | nil =>
          simp only
          by_cases hf : secFits p = true
          · by_cases hd : d < 0
            · simp only [hf, hd, Bool.not_true, Bool.false_or, decide_true, Bool.true_or, if_true,
                Option.isSome_none, Bool.false_eq_true, false_iff]
              rintro ⟨z, -, -, -, h, -⟩; omega
            · by_cases hm : m < 0
              · simp only [hf, hd, hm, Bool.not_true, Bool.false_or, decide_true, decide_false, Bool.or_true, if_true,
                  Option.isSome_none, Bool.false_eq_true, false_iff]
                rintro ⟨z, -, -, -, -, h⟩; omega
              · simp only [hf, hd, hm, Bool.not_true, decide_false, Bool.or_self, Bool.false_eq_true, if_false,
                  Option.isSome_some, true_iff]
                exact ⟨c :: cs', rfl, htw, ⟨p, hr, hf⟩, by omega, by omega⟩
          · have hf' : secFits p = false := by simpa using hf
            simp only [hf', Bool.not_false, Bool.true_or, if_true, Option.isSome_none, Bool.false_eq_true, false_iff]
            rintro ⟨z, hz, -, ⟨p', hp, hfp⟩, -⟩
            simp at hz; subst hz; rw [hr] at hp; simp at hp; rw [hp] at hf'; rw [hf'] at hfp; simp at hfp
        | cons a r' =>
          simp only [Option.isSome_none, Bool.false_eq_true, false_iff]
          rintro ⟨z, hz, -, ⟨p', hp, -⟩, -⟩
          simp at hz; subst hz; rw [hr] at hp; simp at hp
    · have hc' : Grammar.isDigit c = false := by simpa using hc
      simp only [hc', Bool.not_false, if_true, Option.isSome_none, Bool.false_eq_true, false_iff]
      rintro ⟨z, hz, htw, -⟩
      simp at hz; subst hz; simp [List.takeWhile, hc'] at htw
  · rename_i h1
    simp only [Option.isSome_none, Bool.false_eq_true, false_iff]
    rintro ⟨z, hz, htw, -⟩
    cases z with
    | nil => simp at htw
    | cons c cs' => exact h1 c cs' hz

theorem parseMin_isSome (n : Bool) (d : Int) (cs : List Char) :
    (parseMin n d cs).isSome ↔
      ∃ y, cs = '-' :: y ∧ y.takeWhile Grammar.isDigit ≠ [] ∧ val (y.takeWhile Grammar.isDigit) ≤ intMax ∧
        (parseSec n d (val (y.takeWhile Grammar.isDigit) : Int) (y.dropWhile Grammar.isDigit)).isSome := by
  unfold parseMin
  split
  · rename_i c cs'
    rw [isDigit_eq]
    by_cases hc : Grammar.isDigit c = true
    · obtain ⟨h1, h2, h3⟩ := digit_cons_scan (t := cs') hc
      have htw : (c :: cs').takeWhile Grammar.isDigit ≠ [] := by simp [List.takeWhile, hc]
      simp only [hc, Bool.not_true, Bool.false_eq_true, if_false, readInt_eq, h1, h2, h3, htw]
      by_cases hv : val ((c :: cs').takeWhile Grammar.isDigit) ≤ intMax
      · simp only [hv, if_true]
        constructor
        · intro h; exact ⟨c :: cs', rfl, htw, hv, h⟩
        · rintro ⟨y, hy, -, -, h⟩; simp at hy; subst hy; exact h
      · simp only [hv, if_false, Option.isSome_none, Bool.false_eq_true, false_iff]
        rintro ⟨y, hy, -, hv', -⟩; simp at hy; subst hy; exact hv hv'
    · have hc' : Grammar.isDigit c = false := by simpa using hc
      simp only [hc', Bool.not_false, if_true, Option.isSome_none, Bool.false_eq_true, false_iff]
      rintro ⟨y, hy, htw, -⟩
      simp at hy; subst hy; simp [List.takeWhile, hc'] at htw
  · rename_i h1
    simp only [Option.isSome_none, Bool.false_eq_true, false_iff]
    rintro ⟨y, hy, htw, -⟩
    cases y with
    | nil => simp at htw
    | cons c cs' => exact h1 c cs' hy

/-- the text after the sign prefix `[+-] ws* [+-]?` of a trimmed string -/
def body (t : List Char) : List Char :=
  match t with
  | b :: rest => if isSign b then skip isSign (rest.dropWhile Grammar.isSpace) else b :: rest
  | [] => []

/-- is the degree field written with an own `-` after the outer sign (`+-0-00-00`) -/
def innerMinus (t : List Char) : Bool :=
  match t with
  | b :: rest => isSign b && startsMinus (rest.dropWhile Grammar.isSpace)
  | [] => false

/-- degrees, minutes and seconds fields of a trimmed string of the right shape -/
def degF (t : List Char) : List Char := (body t).takeWhile Grammar.isDigit
def minF (t : List Char) : List Char := ((body t).dropWhile Grammar.isDigit).tail.takeWhile Grammar.isDigit
def secF (t : List Char) : List Char := (((body t).dropWhile Grammar.isDigit).tail.dropWhile Grammar.isDigit).tail

/-- a trimmed string starts with a character that is no white space -/
theorem trimWs_head {l : List Char} {b : Char} {rest : List Char} (h : trimWs l = b :: rest) :
    Grammar.isSpace b = false := by
  rw [trimWs_eq] at h
  unfold dropTrailing at h
  -- the trimmed string is a prefix of `l.dropWhile isSpace`
  have hm : l.dropWhile Grammar.isSpace =
      ((l.dropWhile Grammar.isSpace).reverse.dropWhile Grammar.isSpace).reverse ++
      ((l.dropWhile Grammar.isSpace).reverse.takeWhile Grammar.isSpace).reverse := by
    rw [← List.reverse_append, List.takeWhile_append_dropWhile, List.reverse_reverse]
  rw [h] at hm
  exact dropWhile_stop _ l b _ hm

/-- the range conditions of `istream >> int` on the degrees -/
def degRange (t : List Char) : Prop :=
  if innerMinus t = true then val (degF t) = 0 else val (degF t) ≤ intMax

theorem parseSec_isSome_indep (n n' : Bool) (d m : Int) (cs : List Char) :
    (parseSec n d m cs).isSome = (parseSec n' d m cs).isSome := by
  rw [Bool.eq_iff_iff, parseSec_isSome, parseSec_isSome]

theorem parseMin_isSome_indep (n n' : Bool) (d : Int) (cs : List Char) :
    (parseMin n d cs).isSome = (parseMin n' d cs).isSome := by
  rw [Bool.eq_iff_iff, parseMin_isSome, parseMin_isSome]
  simp only [parseSec_isSome_indep n n']

theorem parseMin_isSome_nonneg {n : Bool} {d : Int} {cs : List Char} (h : (parseMin n d cs).isSome = true) : 0 ≤ d := by
  rw [parseMin_isSome] at h
  obtain ⟨y, -, -, -, h⟩ := h
  rw [parseSec_isSome] at h
  obtain ⟨z, -, -, -, hd, -⟩ := h
  exact hd

theorem parseDms_isSome (s : String) :
    (parseDms s).isSome ↔
      let t := trimWs s.toList
      degF t ≠ [] ∧ degRange t ∧
        (parseMin false (if innerMinus t = true then -(val (degF t) : Int) else (val (degF t) : Int))
          ((body t).dropWhile Grammar.isDigit)).isSome := by
  unfold parseDms
  simp only []
  cases ht : trimWs s.toList with
  | nil => simp [degF, body]
  | cons b rest =>
    have hb := trimWs_head ht
    have hsg : (decide (b = '-') || decide (b = '+')) = isSign b := by
      unfold isSign; exact Bool.or_comm _ _
    simp only [hsg]
    by_cases hs : isSign b = true
    · simp only [hs, if_true, degF, degRange, body, innerMinus, Bool.true_and]
      cases hr : rest with
      | nil => simp [skip]
      | cons r0 rest' =>
        rw [← hr]
        have hne : rest.isEmpty = false := by rw [hr]; rfl
        simp only [hne, Bool.false_eq_true, if_false, readInt_eq]
        generalize rest.dropWhile Grammar.isSpace = y
        by_cases h0 : List.takeWhile Grammar.isDigit (skip isSign y) = []
        · simp [h0]
        · simp only [h0, if_false, ne_eq, not_false_eq_true, true_and]
          by_cases hn : startsMinus y = true
          · simp only [hn, if_true]
            by_cases hv : val (List.takeWhile Grammar.isDigit (skip isSign y)) ≤ intMax + 1
            · simp only [hv, if_true]
              rw [parseMin_isSome_indep _ false]
              constructor
              · intro h
                have := parseMin_isSome_nonneg h
                exact ⟨by omega, h⟩
              · rintro ⟨-, h⟩; exact h
            · simp only [hv, if_false, Option.isSome_none, Bool.false_eq_true, false_iff]
              rintro ⟨h, -⟩; rw [h] at hv; exact hv (by omega)
          · have hn' : startsMinus y = false := by simpa using hn
            simp only [hn', Bool.false_eq_true, if_false]
            by_cases hv : val (List.takeWhile Grammar.isDigit (skip isSign y)) ≤ intMax
            · simp only [hv, if_true, true_and]
              rw [parseMin_isSome_indep _ false]
            · simp [hv]
    · have hs' : isSign b = false := by simpa using hs
      have hnm : startsMinus (b :: rest) = false := by
        unfold startsMinus
        split
        · rename_i heq; simp at heq; rw [heq.1] at hs'; exact absurd hs' (by decide)
        · rfl
      have hdw : (b :: rest).dropWhile Grammar.isSpace = b :: rest := by simp [List.dropWhile, hb]
      have hsk : skip isSign (b :: rest) = b :: rest := by simp [skip, hs']
      simp only [hs', Bool.false_eq_true, if_false, degF, degRange, body, innerMinus, Bool.false_and,
        List.isEmpty_cons, readInt_eq, hdw, hsk, hnm]
      by_cases h0 : List.takeWhile Grammar.isDigit (b :: rest) = []
      · simp [h0]
      · simp only [h0, if_false, ne_eq, not_false_eq_true, true_and]
        by_cases hv : val (List.takeWhile Grammar.isDigit (b :: rest)) ≤ intMax
        · simp only [hv, if_true, true_and]
          rw [parseMin_isSome_indep _ false]
        · simp [hv]

/-! ### the shape `dmsRx` in scanner form, and the grammar theorem -/

theorem minus_seq (r : Rx) (w : List Char) : (seq (cls isMinus) r).Lang w ↔ ∃ y, w = '-' :: y ∧ r.Lang y := by
  rw [seq_cls]
  constructor
  · rintro ⟨c, t, rfl, hc, hr⟩
    unfold isMinus at hc; simp only [decide_eq_true_eq] at hc; subst hc
    exact ⟨t, rfl, hr⟩
  · rintro ⟨y, rfl, hr⟩; exact ⟨'-', y, rfl, by decide, hr⟩

theorem minus_not_digit : ∀ (r : Rx) (c : Char), (seq (cls isMinus) r).starts c → Grammar.isDigit c = false := by
  intro r c hc
  simp [starts, nullable] at hc
  unfold isMinus at hc; simp only [decide_eq_true_eq] at hc; subst hc; decide

theorem dmsRest_scan (x : List Char) :
    (seq digits1 (seq (cls isMinus) (seq digits1 (seq (cls isMinus) secondsRx)))).Lang x ↔
      x.takeWhile Grammar.isDigit ≠ [] ∧ ∃ y, x.dropWhile Grammar.isDigit = '-' :: y ∧
        y.takeWhile Grammar.isDigit ≠ [] ∧ ∃ z, y.dropWhile Grammar.isDigit = '-' :: z ∧ secondsRx.Lang z := by
  rw [digits1_seq _ (minus_not_digit _), minus_seq]
  simp only [digits1_seq _ (minus_not_digit _), minus_seq]

theorem dmsCore_scan (t : List Char) (ht : ∀ b rest, t = b :: rest → Grammar.isSpace b = false) :
    dmsCore.Lang t ↔
      (body t).takeWhile Grammar.isDigit ≠ [] ∧ ∃ y, (body t).dropWhile Grammar.isDigit = '-' :: y ∧
        y.takeWhile Grammar.isDigit ≠ [] ∧ ∃ z, y.dropWhile Grammar.isDigit = '-' :: z ∧ secondsRx.Lang z := by
  unfold dmsCore
  have hdig : ∀ c, (seq digits1 (seq (cls isMinus) (seq digits1 (seq (cls isMinus) secondsRx)))).starts c →
      Grammar.isDigit c = true := by
    intro c hc; simpa [digits1, starts, nullable] using hc
  rw [seq_opt_group _ _ _ (fun c hc => Grammar.digit_not_sign (hdig c hc))]
  cases t with
  | nil => simp only [body]; exact dmsRest_scan []
  | cons b rest =>
    simp only [body]
    by_cases hs : isSign b = true
    · simp only [hs, if_true]
      rw [seq_assoc]
      unfold ws
      rw [seq_many, seq_opt_cls _ _ (fun c hc => Grammar.digit_not_sign (hdig c hc))]
      · exact dmsRest_scan _
      · intro c hc
        simp only [starts, opt, nullable, Bool.true_or, true_and] at hc
        rcases hc with (hc | hc) | hc
        · exact hc.elim
        · exact sign_not_space hc
        · exact digit_not_space (hdig c hc)
    · simp only [hs, if_false]
      exact dmsRest_scan _

theorem dmsRx_scan (l : List Char) :
    dmsRx.Lang l ↔
      (body (trimWs l)).takeWhile Grammar.isDigit ≠ [] ∧ ∃ y, (body (trimWs l)).dropWhile Grammar.isDigit = '-' :: y ∧
        y.takeWhile Grammar.isDigit ≠ [] ∧ ∃ z, y.dropWhile Grammar.isDigit = '-' :: z ∧ secondsRx.Lang z := by
  unfold dmsRx
  rw [trim_lang dmsCore ?_ ?_ rfl, ← trimWs_eq]
  · exact dmsCore_scan _ (fun b rest h => trimWs_head h)
  · intro c hc
    simp [dmsCore, opt, digits1, starts, nullable] at hc
    rcases hc with hc | hc
    · exact sign_not_space hc
    · exact digit_not_space hc
  · intro c hc
    simp [dmsCore, secondsRx, expPart, opt, digits1, lasts, nullable] at hc
    rcases hc with (hc | hc) | hc
    · exact digit_not_space hc
    · exact dot_not_space hc
    · exact digit_not_space hc

/-- the numeric side conditions of `deg2gon` on the three fields: what `istream >> int` and
    `istream >> double` reject although the shape is right -/
def DmsRanges (t : List Char) : Prop :=
  degRange t ∧ val (minF t) ≤ intMax ∧ ∃ p r, readSeconds (secF t) = some (p, r) ∧ secFits p = true

/-- `deg2gon` accepts exactly the strings of the shape `dmsRx` whose degrees and minutes fit `int`
    (a degree field with an own minus sign must be zero) and whose seconds do not overflow `double` -/
theorem parseDms_grammar (s : String) :
    (parseDms s).isSome = true ↔ dmsRx.Lang s.toList ∧ DmsRanges (trimWs s.toList) := by
  rw [parseDms_isSome, dmsRx_scan]
  simp only [parseMin_isSome, parseSec_isSome, DmsRanges, degF, minF, secF]
  constructor
  · rintro ⟨h1, hD, y, hy, h2, h3, z, hz, h4, ⟨p, hp, hf⟩, -, -⟩
    refine ⟨⟨h1, y, hy, h2, z, hz, (readSeconds_shape z h4).mp ⟨p, hp⟩⟩, hD, ?_, ?_⟩
    · rw [hy]; exact h3
    · rw [hy]; simp only [List.tail_cons]; rw [hz]; exact ⟨p, [], hp, hf⟩
  · rintro ⟨⟨h1, y, hy, h2, z, hz, hL⟩, hD, h3, p, r, hp, hf⟩
    rw [hy] at h3 hp; simp only [List.tail_cons] at h3 hp; rw [hz] at hp; simp only [List.tail_cons] at hp
    have h4 : z.takeWhile Grammar.isDigit ≠ [] := ((secondsRx_scan z).mp hL).1
    obtain ⟨p', hp'⟩ := (readSeconds_shape z h4).mpr hL
    have : p = p' ∧ r = [] := by rw [hp'] at hp; simp at hp; exact ⟨hp.1.symm, hp.2⟩
    obtain ⟨rfl, rfl⟩ := this
    refine ⟨h1, hD, y, hy, h2, h3, z, hz, h4, ⟨p, hp, hf⟩, ?_, ?_⟩
    · unfold degRange at hD
      by_cases hi : innerMinus (trimWs s.toList) = true
      · simp only [hi, if_true, degF] at hD ⊢; rw [hD]; simp
      · simp only [hi, if_false]; exact Int.natCast_nonneg _
    · exact Int.natCast_nonneg _

/-- `DmsRanges` as a Boolean (runs in the driver next to the shape matcher) -/
def dmsRangesB (t : List Char) : Bool :=
  (if innerMinus t then val (degF t) == 0 else decide (val (degF t) ≤ intMax)) &&
  decide (val (minF t) ≤ intMax) &&
  (match readSeconds (secF t) with
   | some (p, _) => secFits p
   | none => false)

theorem dmsRangesB_iff (t : List Char) : dmsRangesB t = true ↔ DmsRanges t := by
  unfold dmsRangesB DmsRanges degRange
  simp only [Bool.and_eq_true, decide_eq_true_eq]
  have h1 : ((if innerMinus t = true then val (degF t) == 0 else decide (val (degF t) ≤ intMax)) = true) ↔
      (if innerMinus t = true then val (degF t) = 0 else val (degF t) ≤ intMax) := by
    by_cases hi : innerMinus t = true <;> simp [hi]
  have h3 : ((match readSeconds (secF t) with | some (p, _) => secFits p | none => false) = true) ↔
      ∃ p r, readSeconds (secF t) = some (p, r) ∧ secFits p = true := by
    cases hr : readSeconds (secF t) with
    | none => simp
    | some pr => obtain ⟨p, r⟩ := pr; simp
  rw [h1, h3, and_assoc]

/-- the grammar decision procedure for `deg2gon`: shape matcher and ranges -/
def dmsDecide (l : List Char) : Bool := dmsRx.accepts l && dmsRangesB (trimWs l)

theorem parseDms_decide (s : String) : (parseDms s).isSome = dmsDecide s.toList := by
  rw [Bool.eq_iff_iff, parseDms_grammar]
  unfold dmsDecide
  rw [Bool.and_eq_true, accepts_iff, dmsRangesB_iff]

end Gama.Angles
