/-
  `dms2rad` / `rad2dms` (gon2deg.cpp) over ℝ: on valid `ddd.mmss` values they are
  mutually inverse and denote d + m/60 + s/3600 degrees.
-/
import Gama.Lemmas.GeoReal
import Gama.Model.Angles
import Mathlib.Algebra.Order.Floor.Ring
namespace Gama.Angles
open Real

theorem ofInt_real (i : ℤ) : (Scalar.ofInt i : ℝ) = (i : ℝ) := by
  unfold Scalar.ofInt
  split_ifs with h
  · rw [scalar_ofNat_real, Nat.cast_natAbs, abs_of_neg h]; push_cast; ring
  · rw [scalar_ofNat_real, Nat.cast_natAbs, abs_of_nonneg (not_lt.mp h)]

theorem trunc_real_nonneg {x : ℝ} (h : 0 ≤ x) : Trunc.trunc x = ⌊x⌋ := if_pos h

theorem whileGeSub_idle {z r : ℝ} (h : r < z) (n : ℕ) : whileGeSub z n r = r := by
  cases n with
  | zero => rfl
  | succ k => simp [whileGeSub, not_le.mpr h]

theorem whileNegAdd_idle {z r : ℝ} (h : 0 ≤ r) (n : ℕ) : whileNegAdd z n r = r := by
  cases n with
  | zero => rfl
  | succ k => simp [whileNegAdd, not_lt.mpr h]

/-- floor of a natural number plus a fraction -/
theorem floor_nat_add {d : ℕ} {t : ℝ} (h0 : 0 ≤ t) (h1 : t < 1) : ⌊(d : ℝ) + t⌋ = (d : ℤ) := by
  rw [Int.floor_eq_iff]; push_cast; constructor <;> linarith

/-- the sexagesimal splitting used by both functions: `x = d + t`, `t·k = m + u`, fields back -/
theorem split2 {d m : ℕ} {u k x : ℝ} (hk : 0 < k) (hu0 : 0 ≤ u) (hu1 : u < 1) (hm : (m : ℝ) + u < k)
    (hx : x = (d : ℝ) + ((m : ℝ) + u) / k) :
    (Scalar.ofInt (Trunc.trunc x) : ℝ) = d ∧
    (Scalar.ofInt (Trunc.trunc ((x - (d : ℝ)) * k)) : ℝ) = m ∧
    (x - (d : ℝ)) * k - (m : ℝ) = u := by
  have hm0 : (0 : ℝ) ≤ m := Nat.cast_nonneg m
  have ht0 : 0 ≤ ((m : ℝ) + u) / k := by positivity
  have ht1 : ((m : ℝ) + u) / k < 1 := by rw [div_lt_one hk]; exact hm
  have hx0 : 0 ≤ x := by rw [hx]; positivity
  have e1 : (x - (d : ℝ)) * k = (m : ℝ) + u := by rw [hx]; field_simp; ring
  refine ⟨?_, ?_, ?_⟩
  · rw [trunc_real_nonneg hx0, ofInt_real, hx, floor_nat_add ht0 ht1]; norm_cast
  · rw [e1, trunc_real_nonneg (by positivity), ofInt_real, floor_nat_add hu0 hu1]; norm_cast
  · rw [e1]; ring

/-- degrees denoted by a `ddd.mmss` value with fields d, m, s -/
noncomputable def degOf (d m : ℕ) (s : ℝ) : ℝ := (d : ℝ) + (m : ℝ) / 60 + s / 3600
/-- the `ddd.mmss` encoding -/
noncomputable def dmsOf (d m : ℕ) (s : ℝ) : ℝ := (d : ℝ) + (m : ℝ) / 100 + s / 10000

theorem dms2rad_fields (fuel : ℕ) {d m : ℕ} {s : ℝ} (hd : d < 360) (hm : m < 60) (hs0 : 0 ≤ s) (hs : s < 60) :
    dms2rad fuel (dmsOf d m s) = degOf d m s / 180 * π := by
  have hpi := Real.pi_pos
  have hmr : (m : ℝ) ≤ 59 := by exact_mod_cast Nat.le_of_lt_succ hm
  have hdr : (d : ℝ) ≤ 359 := by exact_mod_cast Nat.le_of_lt_succ hd
  have hm0 : (0 : ℝ) ≤ m := Nat.cast_nonneg m
  have hd0 : (0 : ℝ) ≤ d := Nat.cast_nonneg d
  have hx0 : 0 ≤ dmsOf d m s := by unfold dmsOf; positivity
  obtain ⟨e1, e2, e3⟩ := split2 (d := d) (m := m) (u := s / 100) (k := 100) (x := dmsOf d m s) (by norm_num)
    (by positivity) (by linarith) (by linarith) (by unfold dmsOf; ring)
  have hr : (1 : ℝ) * ((d : ℝ) / 180 + (m : ℝ) / 10800 + s / 100 * 100 / 648000) * π = degOf d m s / 180 * π := by
    unfold degOf; ring
  have hr0 : 0 ≤ degOf d m s / 180 * π := by unfold degOf; positivity
  have hr1 : degOf d m s / 180 * π < 2 * π := by
    unfold degOf; nlinarith
  unfold dms2rad
  simp only [not_lt.mpr hx0, decide_false, Bool.false_eq_true, if_false, scalar_ofNat_real, Nat.cast_ofNat, transc_pi_real, e1, e2, e3]
  push_cast
  rw [hr, whileGeSub_idle hr1, whileNegAdd_idle hr0]

theorem rad2dms_fields (fuel : ℕ) {d m : ℕ} {s : ℝ} (hd : d < 360) (hm : m < 60) (hs0 : 0 ≤ s) (hs : s < 60) :
    rad2dms fuel (degOf d m s / 180 * π) = dmsOf d m s := by
  have hpi := Real.pi_pos
  have hmr : (m : ℝ) ≤ 59 := by exact_mod_cast Nat.le_of_lt_succ hm
  have hdr : (d : ℝ) ≤ 359 := by exact_mod_cast Nat.le_of_lt_succ hd
  have hm0 : (0 : ℝ) ≤ m := Nat.cast_nonneg m
  have hd0 : (0 : ℝ) ≤ d := Nat.cast_nonneg d
  have hD : degOf d m s / 180 * π * (180 / π) = degOf d m s := by
    field_simp
  have hD0 : 0 ≤ degOf d m s := by unfold degOf; positivity
  have hD1 : degOf d m s < 360 := by unfold degOf; linarith
  obtain ⟨e1, e2, e3⟩ := split2 (d := d) (m := m) (u := s / 60) (k := 60) (x := degOf d m s) (by norm_num)
    (by positivity) (by linarith) (by linarith) (by unfold degOf; ring)
  unfold rad2dms
  simp only [scalar_ofNat_real, Nat.cast_ofNat, transc_pi_real, hD, whileGeSub_idle hD1, whileNegAdd_idle hD0, e1, e2, e3]
  unfold dmsOf
  push_cast
  ring

end Gama.Angles
