/-
  Histories that continue after a caught exception (Model/ObjCatch.lean):
    * the generic refinement of `runC` from the one-step facts of a machine;
    * a temporary constructed and destroyed (`tempGone`) keeps invariant, values, and every block;
    * what a throwing operation of `Mat` / `SymMat` leaves behind (`thrown`) is the value-level
      `specThrown`, and the invariant holds there.
-/
import Gama.Lemmas.MatObj
import Gama.Lemmas.SymObj
import Gama.Model.ObjCatch
namespace Gama.ObjCatch
open Gama.MemRep (upd upd_same upd_other)
open Gama.MatObj (Stop)

section generic
variable {St Op Vals : Type}

/-- **Generic refinement with caught exceptions.** -/
theorem runC_refines (Inv : St → Prop) (val : St → Vals)
    (step : St → Op → Except Stop St) (thrown : St → Op → St)
    (spec : Vals → Op → Except Stop Vals) (specThrown : Vals → Op → Vals)
    (hok : ∀ s op s', Inv s → step s op = .ok s' → Inv s' ∧ spec (val s) op = .ok (val s'))
    (herr : ∀ s op e, Inv s → step s op = .error e → spec (val s) op = .error e)
    (hthr : ∀ s op, Inv s → Inv (thrown s op) ∧ val (thrown s op) = specThrown (val s) op)
    (ops : List Op) : ∀ s, Inv s →
    match runC step thrown s ops with
    | .ok (s', tr) => Inv s' ∧ runC spec specThrown (val s) ops = .ok (val s', tr)
    | .error e => runC spec specThrown (val s) ops = .error e ∧ isExc e = false := by
  induction ops with
  | nil => intro s h; exact ⟨h, rfl⟩
  | cons op ops ih =>
    intro s h
    unfold runC stepC
    cases hs : step s op with
    | ok s1 =>
      obtain ⟨h1, hsp⟩ := hok s op s1 h hs
      simp only [hsp]
      have := ih s1 h1
      cases hr : runC step thrown s1 ops with
      | error e => rw [hr] at this; simp only [this.1]; exact ⟨trivial, this.2⟩
      | ok p => obtain ⟨s2, tr⟩ := p; rw [hr] at this; simp only [this.2]; exact ⟨this.1, trivial⟩
    | error e =>
      have hsp := herr s op e h hs
      simp only [hsp]
      cases hx : isExc e with
      | false => simp [hx]
      | true =>
        simp only [if_true]
        obtain ⟨h1, hv⟩ := hthr s op h
        have := ih _ h1
        rw [hv] at this
        cases hr : runC step thrown (thrown s op) ops with
        | error e' => rw [hr] at this; simp only [this.1]; exact ⟨trivial, this.2⟩
        | ok p => obtain ⟨s2, tr⟩ := p; rw [hr] at this; simp only [this.2]; exact ⟨this.1, trivial⟩

/-- the same, without `match` in the statement -/
theorem runC_refines' (Inv : St → Prop) (val : St → Vals)
    (step : St → Op → Except Stop St) (thrown : St → Op → St)
    (spec : Vals → Op → Except Stop Vals) (specThrown : Vals → Op → Vals)
    (hok : ∀ s op s', Inv s → step s op = .ok s' → Inv s' ∧ spec (val s) op = .ok (val s'))
    (herr : ∀ s op e, Inv s → step s op = .error e → spec (val s) op = .error e)
    (hthr : ∀ s op, Inv s → Inv (thrown s op) ∧ val (thrown s op) = specThrown (val s) op)
    (ops : List Op) (s : St) (h : Inv s) :
    (∀ s' tr, runC step thrown s ops = .ok (s', tr) →
      Inv s' ∧ runC spec specThrown (val s) ops = .ok (val s', tr)) ∧
    (∀ e, runC step thrown s ops = .error e →
      runC spec specThrown (val s) ops = .error e ∧ isExc e = false) := by
  have := runC_refines Inv val step thrown spec specThrown hok herr hthr ops s h
  constructor
  · intro s' tr hr; rw [hr] at this; exact this
  · intro e hr; rw [hr] at this; exact this

/-- a machine whose steps never report a heap fault never reports one under `runC` -/
theorem runC_ne_heapFault (spec : Vals → Op → Except Stop Vals) (specThrown : Vals → Op → Vals)
    (hne : ∀ v op, spec v op ≠ .error .heapFault) (ops : List Op) :
    ∀ v, runC spec specThrown v ops ≠ .error .heapFault := by
  induction ops with
  | nil => intro v hh; simp [runC] at hh
  | cons op ops ih =>
    intro v
    unfold runC stepC
    cases hs : spec v op with
    | ok v1 =>
      simp only []
      cases hr : runC spec specThrown v1 ops with
      | error e => simp only []; intro hh; cases hh; exact ih v1 hr
      | ok p => obtain ⟨a, b⟩ := p; simp
    | error e =>
      simp only []
      cases hx : isExc e with
      | false =>
        simp only [Bool.false_eq_true, if_false]
        intro hh; cases hh; exact hne v op hs
      | true =>
        simp only [if_true]
        cases hr : runC spec specThrown (specThrown v op) ops with
        | error e' => simp only []; intro hh; cases hh; exact ih _ hr
        | ok p => obtain ⟨a, b⟩ := p; simp

end generic

/-! ### a temporary constructed and destroyed -/

section
variable {K : Type} [Inhabited K]

theorem tempGone_objs (s : MemRep.St K) (n : Nat) : (tempGone s n).objs = s.objs := by
  unfold tempGone; split <;> rfl

theorem tempGone_next (s : MemRep.St K) (n : Nat) : s.next ≤ (tempGone s n).next := by
  unfold tempGone; split
  · simp [MemRep.alloc]
  · exact Nat.le_refl _

/-- every block keeps its cells; the only address touched is the fresh one, dead again afterwards -/
theorem tempGone_heap (s : MemRep.St K) (n : Nat) (a : Nat) :
    (tempGone s n).heap a = s.heap a ∨ (a = s.next ∧ (tempGone s n).heap a = none) := by
  unfold tempGone; split
  · by_cases ha : a = s.next
    · right; subst ha; simp [MemRep.alloc]
    · left; simp [MemRep.alloc, upd_other _ _ ha]
  · left; rfl

theorem tempGone_heap_lt (s : MemRep.St K) (n : Nat) {a : Nat} (ha : a < s.next) :
    (tempGone s n).heap a = s.heap a := by
  rcases tempGone_heap s n a with h | ⟨h, _⟩
  · exact h
  · omega

theorem tempGone_inv {s : MemRep.St K} (h : MemRep.Inv s) (n : Nat) : MemRep.Inv (tempGone s n) := by
  refine ⟨?_, ?_, ?_⟩
  · intro i o a ho hr
    rw [tempGone_objs] at ho
    obtain ⟨h1, h2⟩ := h.owned i o a ho hr
    exact ⟨Nat.lt_of_lt_of_le h1 (tempGone_next s n), by rw [tempGone_heap_lt s n h1]; exact h2⟩
  · intro i o ho; rw [tempGone_objs] at ho; exact h.null i o ho
  · intro i j oi oj a hi hj; rw [tempGone_objs] at hi hj; exact h.excl i j oi oj a hi hj

theorem tempGone_val {s : MemRep.St K} (h : MemRep.Inv s) (n : Nat) :
    MemRep.val (tempGone s n) = MemRep.val s := by
  funext k
  apply MemRep.val_frame (by rw [tempGone_objs])
  intro o a ho hr
  exact tempGone_heap_lt s n (h.owned k o a ho hr).1

end
end Gama.ObjCatch

/-! ### `Mat` -/
namespace Gama.MatObj
open Gama.MemRep (upd upd_same upd_other)
variable {K : Type} [Scalar K] [Inhabited K]

theorem minv_tempGone {m : MemRep.St K} {ext : Nat → Ext} (h : MInv (⟨m, ext⟩ : St K)) (n : Nat) :
    MInv (⟨ObjCatch.tempGone m n, ext⟩ : St K) ∧
    val (⟨ObjCatch.tempGone m n, ext⟩ : St K) = val (⟨m, ext⟩ : St K) := by
  have hv := ObjCatch.tempGone_val h.mem n
  refine ⟨⟨ObjCatch.tempGone_inv h.mem n, ?_⟩, ?_⟩
  · intro i l hl; simp only at hl; rw [hv] at hl; exact h.size i l hl
  · funext k; simp only [val]; rw [hv]

theorem invertThrownList_length (N : Nat) (tol : K) (l : List K) :
    (invertThrownList N tol l).length = l.length := by
  unfold invertThrownList; split <;> simp

/-- what a throwing `Mat` operation leaves behind is `specThrown`; the invariant holds there -/
theorem thrown_refines (s : St K) (h : MInv s) (op : Op K) :
    MInv (thrown s op) ∧ val (thrown s op) = specThrown (val s) op := by
  cases op with
  | invert i tol =>
    simp only [thrown, specThrown]
    cases hi : s.mem.objs i with
    | none => simp only [(val_none_iff' s i).2 hi]; exact ⟨h, trivial⟩
    | some t =>
      obtain ⟨l0, hv0⟩ := MemRep.val_some_of_obj hi
      have hval : val s i = some ⟨(s.ext i).row, (s.ext i).col, l0⟩ := by simp [val, hv0]
      simp only [hval]
      by_cases hsq : (s.ext i).row = (s.ext i).col
      · have hne : ¬ ((s.ext i).row ≠ (s.ext i).col) := by simpa using hsq
        simp only [if_neg hne]
        obtain ⟨m, hm1, hm2, hm3⟩ := refines_inplace h hi hv0 (invertThrownList (s.ext i).row tol)
          { s.ext i with pentry := t.rep }
          (by rw [invertThrownList_length]; exact h.size i l0 hv0) (invertThrownList_length _ _ _)
        rw [hm1]
        simp only []
        obtain ⟨a1, a2⟩ := minv_tempGone hm2 (s.ext i).row
        obtain ⟨b1, b2⟩ := minv_tempGone a1 (s.ext i).row
        refine ⟨b1, ?_⟩
        rw [b2, a2, hm3]
      · simp only [ne_eq, hsq, not_false_eq_true, if_true]; exact ⟨h, trivial⟩
  | _ => exact ⟨h, rfl⟩

/-- **Refinement of histories with caught exceptions, `Mat`.** -/
theorem runC_refines (ops : List (Op K)) (s : St K) (h : MInv s) :
    (∀ s' tr, runC .always s ops = .ok (s', tr) → MInv s' ∧ specRunC (val s) ops = .ok (val s', tr)) ∧
    (∀ e, runC .always s ops = .error e → specRunC (val s) ops = .error e ∧ ObjCatch.isExc e = false) :=
  ObjCatch.runC_refines' MInv val (step .always) thrown spec specThrown
    (fun _ _ _ hI hs => step_ok hI hs) (fun _ _ _ hI hs => step_error hI hs)
    (fun s op hI => thrown_refines s hI op) ops s h

end Gama.MatObj

/-! ### `SymMat` -/
namespace Gama.SymObj
open Gama.MemRep (upd upd_same upd_other)
open Gama.MatObj (Stop readAt writeAt rewriteAt readAt_own)
variable {K : Type} [Scalar K] [Inhabited K]

theorem sinv_tempGone {m : MemRep.St K} {ext : Nat → Ext K} (h : SInv (⟨m, ext⟩ : St K)) (n : Nat) :
    SInv (⟨ObjCatch.tempGone m n, ext⟩ : St K) ∧
    val (⟨ObjCatch.tempGone m n, ext⟩ : St K) = val (⟨m, ext⟩ : St K) := by
  have hv := ObjCatch.tempGone_val h.mem n
  refine ⟨⟨ObjCatch.tempGone_inv h.mem n, ?_⟩, ?_⟩
  · intro i l hl; simp only at hl; rw [hv] at hl; exact h.size i l hl
  · funext k; simp only [val]; rw [hv]

theorem symInvThrownList_length (n : Nat) (l : List K) : (symInvThrownList n l).length = l.length := by
  unfold symInvThrownList; split
  · rfl
  · simp

theorem cholThrownList_length (n : Nat) (tol : K) (l : List K) :
    (cholThrownList n tol l).1.length = l.length := by
  simp [cholThrownList]

/-- what a throwing `SymMat` operation leaves behind is `specThrown`; the invariant holds there -/
theorem thrown_refines (s : St K) (h : SInv s) (op : Op K) :
    SInv (thrown s op) ∧ val (thrown s op) = specThrown (val s) op := by
  cases op with
  | ctor2 i r c => simp only [thrown, specThrown]; exact sinv_tempGone h _
  | cholDec i =>
    simp only [thrown, specThrown]
    cases hi : s.mem.objs i with
    | none => simp only [(val_none_iff' s i).2 hi]; exact ⟨h, trivial⟩
    | some t =>
      obtain ⟨l0, hv0⟩ := MemRep.val_some_of_obj hi
      have hval : val s i = some ⟨s.ext i, l0⟩ := by simp [val, hv0]
      simp only [hval]
      rw [(readAt_own h.mem hi hv0).1]
      simp only []
      obtain ⟨m, hm1, hm2, hm3⟩ := install_cells h hi hv0 (cholThrownList (s.ext i).dim (s.ext i).tol l0).1
        { s.ext i with idf := (cholThrownList (s.ext i).dim (s.ext i).tol l0).2 }
        (cholThrownList_length _ _ _) (h.size i l0 hv0)
      rw [hm1]
      exact ⟨hm2, hm3⟩
  | invert i =>
    simp only [thrown, specThrown]
    cases hi : s.mem.objs i with
    | none => simp only [(val_none_iff' s i).2 hi]; exact ⟨h, trivial⟩
    | some t =>
      obtain ⟨l0, hv0⟩ := MemRep.val_some_of_obj hi
      have hval : val s i = some ⟨s.ext i, l0⟩ := by simp [val, hv0]
      simp only [hval]
      obtain ⟨m, hm1, hm2, hm3⟩ := refines_inplace h hi hv0 (symInvThrownList (s.ext i).dim)
        (symInvThrownList_length _ _)
      rw [hm1]
      simp only []
      obtain ⟨a1, a2⟩ := sinv_tempGone hm2 (s.ext i).dim
      exact ⟨a1, by rw [a2, hm3]⟩
  | _ => exact ⟨h, rfl⟩

/-- **Refinement of histories with caught exceptions, `SymMat`.** -/
theorem runC_refines (ops : List (Op K)) (s : St K) (h : SInv s) :
    (∀ s' tr, runC s ops = .ok (s', tr) → SInv s' ∧ specRunC (val s) ops = .ok (val s', tr)) ∧
    (∀ e, runC s ops = .error e → specRunC (val s) ops = .error e ∧ ObjCatch.isExc e = false) :=
  ObjCatch.runC_refines' SInv val step thrown spec specThrown
    (fun _ _ _ hI hs => step_ok hI hs) (fun _ _ _ hI hs => step_error hI hs)
    (fun s op hI => thrown_refines s hI op) ops s h

/-- the guards of `SymMat` that throw before anything is written -/
def Op.isGuarded : Op K → Bool
  | .cholDec _ | .invert _ => false
  | _ => true

/-- **A dimension-guard throw changes nothing**: every member of every object, every object's
    elements, the object table; every heap block keeps its cells and no new block stays live. -/
theorem thrown_guard_unchanged (s : St K) (h : SInv s) (op : Op K) (hg : op.isGuarded = true) :
    SInv (thrown s op) ∧ val (thrown s op) = val s ∧ (thrown s op).ext = s.ext ∧
    (thrown s op).mem.objs = s.mem.objs ∧
    ∀ a, (thrown s op).mem.heap a = s.mem.heap a ∨
         (a = s.mem.next ∧ (thrown s op).mem.heap a = none) := by
  cases op with
  | cholDec i => cases hg
  | invert i => cases hg
  | ctor2 i r c =>
    simp only [thrown]
    obtain ⟨a1, a2⟩ := sinv_tempGone h (triSz r)
    exact ⟨a1, a2, trivial, ObjCatch.tempGone_objs _ _, ObjCatch.tempGone_heap _ _⟩
  | _ => exact ⟨h, rfl, rfl, rfl, fun _ => .inl rfl⟩

end Gama.SymObj
